import TieD.ReachProofs
/-!
# TieD.SumProofs — the translated `ADD.sum` is the model's `Diagram.sum`, array for array

`sum_eq`: whenever the model's `sum` succeeds on two reachable diagrams with at least one candidate (`0 < a.C`), the translated `ADD.sum` (`GenD.add_sum`) returns
exactly the arrays `(units, root, nodes, child, adder, diameter)` of the model's result.

The hypothesis `0 < a.C` is needed: with `num_candidates = 0` the loop over the candidates never runs, so `result.nodes[idx, k] = 1` is never executed and the
translated code returns `nodes` all zero, whereas the model marks every created node active (`sum_needs_candidate` below: `chain [7] 0`).  The only other case
in which the equation holds is a diagram without units (no level at all): `sum_eq_nil`.

Proof plan (helpers in the namespace `DsProofs.TieD.SumP`):
* `assocFrom 0 tbl` = the dictionary of a pair table (keys = the pairs as integers, values = positions); `setdefault_assoc`: `Np.setdefault` is `intern`;
* `intern_closed` / `internAll_closed` / `sumLevel_closed`: tables only grow at the end, so the index handed out for a key is its position in the FINAL table of the
  level — the children written do not depend on the dictionary state any more;
* `thread_inner` / `thread_middle`: hence the loops over `c` and over `pnodes` split into three independent array folds and the table fold (`sumLevel … .1`);
* `fold_rowN` / `fold_row3`: the array folds as one `modify idx` of the level row; `rowN_eq` / `rowC_eq` / `rowA_eq`: applied to a zero row they give the padded level;
* `outer_nat`: the loop over the levels, by induction on the level lists with the invariant "levels `< idx` final, levels `≥ idx` zero, `cnodes` = the next pair table".
-/
open Ds Ds.Dd Ds.GenCall Ds.GenOps

namespace DsProofs.TieD.SumP
set_option linter.unusedSectionVars false
set_option linter.unusedSimpArgs false
variable {V : Type} [AddCommMonoid V]

/-! ### the dictionary `cnodes` as the association list of the model's pair table -/


abbrev Dict := List ((Int × Int) × Int)

def castP (p : Pair) : Int × Int := ((p.1 : Int), (p.2 : Int))

/-- the association list of a pair table: keys = the pairs, values = their positions (from `s`) -/
def assocFrom (s : ℕ) (tbl : List Pair) : Dict := (tbl.zipIdx s).map (fun pk => (castP pk.1, (pk.2 : Int)))

theorem castP_beq (q p : Pair) : (castP q == castP p) = (q == p) := by
  rw [Bool.eq_iff_iff]
  simp only [beq_iff_eq, castP, Prod.mk.injEq, Int.natCast_inj]
  exact ⟨fun h => Prod.ext h.1 h.2, fun h => by rw [h]; exact ⟨rfl, rfl⟩⟩

theorem assocFrom_cons (s : ℕ) (p : Pair) (t : List Pair) : assocFrom s (p :: t) = (castP p, (s : Int)) :: assocFrom (s + 1) t := by
  unfold assocFrom
  rw [List.zipIdx_cons, List.map_cons]

theorem assocFrom_length (s : ℕ) (tbl : List Pair) : (assocFrom s tbl).length = tbl.length := by
  unfold assocFrom; simp

theorem assocFrom_append (s : ℕ) (tbl : List Pair) (p : Pair) :
    assocFrom s (tbl ++ [p]) = assocFrom s tbl ++ [(castP p, ((s + tbl.length : ℕ) : Int))] := by
  induction tbl generalizing s with
  | nil => simp [assocFrom]
  | cons a t ih =>
    rw [List.cons_append, assocFrom_cons, assocFrom_cons, ih, List.cons_append, List.length_cons]
    congr 4
    omega

theorem assocFrom_find (s : ℕ) (tbl : List Pair) (p : Pair) :
    (assocFrom s tbl).find? (fun kv => kv.1 == castP p)
      = if tbl.idxOf p < tbl.length then some (castP p, ((s + tbl.idxOf p : ℕ) : Int)) else none := by
  induction tbl generalizing s with
  | nil => simp [assocFrom]
  | cons a t ih =>
    rw [assocFrom_cons, List.find?_cons, List.idxOf_cons, castP_beq]
    by_cases h : a = p
    · subst h; simp
    · have hb : (a == p) = false := by simpa using h
      simp only [hb, cond_false, ih, List.length_cons, Bool.false_eq_true, if_false, Nat.add_lt_add_iff_right]
      split
      · congr 3; omega
      · rfl

theorem setdefault_assoc (tbl : List Pair) (p : Pair) :
    Np.setdefault (assocFrom 0 tbl) (castP p) = (assocFrom 0 (intern tbl p).1, (((intern tbl p).2 : ℕ) : Int)) := by
  unfold Np.setdefault intern
  rw [assocFrom_find]
  by_cases h : tbl.idxOf p < tbl.length
  · simp only [h, if_true, Nat.zero_add]
  · simp only [h, if_false, assocFrom_append, assocFrom_length, Nat.zero_add]


/-! ### closed form of the model: the children are the positions in the final table -/


theorem intern_closed (tbl T : List Pair) (p : Pair) (hT : (intern tbl p).1 <+: T) : (intern tbl p).2 = T.idxOf p := by
  unfold intern at hT ⊢
  by_cases h : tbl.idxOf p < tbl.length
  · simp only [h, if_true] at hT ⊢
    obtain ⟨r, rfl⟩ := hT
    rw [List.idxOf_append_of_mem (List.idxOf_lt_length_iff.mp h)]
  · simp only [h, if_false] at hT ⊢
    obtain ⟨r, rfl⟩ := hT
    have hn : p ∉ tbl := fun hm => h (List.idxOf_lt_length_iff.mpr hm)
    rw [List.append_assoc, List.idxOf_append_of_notMem hn]
    simp

theorem internAll_closed (tbl T ps : List Pair) (hT : (internAll tbl ps).1 <+: T) : (internAll tbl ps).2 = ps.map T.idxOf := by
  induction ps generalizing tbl with
  | nil => rfl
  | cons q qs ih =>
    simp only [internAll] at hT ⊢
    rw [List.map_cons, ih _ hT, intern_closed tbl T q ((internAll_spec _ qs).1.trans hT)]

theorem sumLevel_closed (C : ℕ) (la lb : Level V) (tbl T pairs : List Pair) (hT : (sumLevel C la lb tbl pairs).1 <+: T) :
    (sumLevel C la lb tbl pairs).2 = pairs.map (fun p =>
      ({ active := true, child := (reqs C la lb p).map T.idxOf,
         adder := (List.range C).map (fun c => (nodeAt la p.1).ad c + (nodeAt lb p.2).ad c) } : Node V)) := by
  induction pairs generalizing tbl with
  | nil => rfl
  | cons q qs ih =>
    simp only [sumLevel] at hT ⊢
    rw [List.map_cons, ih _ hT, internAll_closed tbl T _ ((sumLevel_spec C la lb _ qs).1.trans hT)]


/-! ### threading the dictionary -/

/-- threading the dictionary through a loop: the arrays are written with the FINAL positions of the keys -/
theorem thread_inner {SN SC SA X : Type} (WN : SN → X → SN) (WC : SC → X → Int → SC) (WA : SA → X → SA) (keyN : X → Pair)
    (T : List Pair) (xs : List X) (tbl : List Pair) (n0 : SN) (c0 : SC) (a0 : SA)
    (hT : (internAll tbl (xs.map keyN)).1 <+: T) :
    xs.foldl (fun (st : SN × SC × SA × Dict) x =>
        (WN st.1 x, WC st.2.1 x (Np.setdefault st.2.2.2 (castP (keyN x))).2, WA st.2.2.1 x, (Np.setdefault st.2.2.2 (castP (keyN x))).1))
        (n0, c0, a0, assocFrom 0 tbl)
      = (xs.foldl WN n0, xs.foldl (fun s x => WC s x ((T.idxOf (keyN x) : ℕ) : Int)) c0, xs.foldl WA a0,
          assocFrom 0 (internAll tbl (xs.map keyN)).1) := by
  induction xs generalizing tbl n0 c0 a0 with
  | nil => rfl
  | cons x xs ih =>
    simp only [List.map_cons, internAll] at hT
    simp only [List.foldl_cons, List.map_cons, internAll, setdefault_assoc]
    rw [ih _ _ _ _ hT, intern_closed tbl T (keyN x) ((internAll_spec _ _).1.trans hT)]

theorem thread_middle {SN SC SA : Type} (C : ℕ) (la lb : Level V) (WN : SN → Pair × ℕ → ℕ → SN) (WC : SC → Pair × ℕ → ℕ → Int → SC)
    (WA : SA → Pair × ℕ → ℕ → SA) (T pairs : List Pair) (s : ℕ) (tbl : List Pair) (n0 : SN) (c0 : SC) (a0 : SA)
    (hT : (sumLevel C la lb tbl pairs).1 <+: T) :
    (pairs.zipIdx s).foldl (fun (st : SN × SC × SA × Dict) pk => (List.range C).foldl (fun (st : SN × SC × SA × Dict) c =>
        (WN st.1 pk c,
         WC st.2.1 pk c (Np.setdefault st.2.2.2 (castP ((nodeAt la pk.1.1).ch c, (nodeAt lb pk.1.2).ch c))).2,
         WA st.2.2.1 pk c,
         (Np.setdefault st.2.2.2 (castP ((nodeAt la pk.1.1).ch c, (nodeAt lb pk.1.2).ch c))).1)) st) (n0, c0, a0, assocFrom 0 tbl)
      = ((pairs.zipIdx s).foldl (fun n pk => (List.range C).foldl (fun n c => WN n pk c) n) n0,
         (pairs.zipIdx s).foldl (fun ch pk => (List.range C).foldl (fun ch c =>
            WC ch pk c ((T.idxOf ((nodeAt la pk.1.1).ch c, (nodeAt lb pk.1.2).ch c) : ℕ) : Int)) ch) c0,
         (pairs.zipIdx s).foldl (fun a pk => (List.range C).foldl (fun a c => WA a pk c) a) a0,
         assocFrom 0 (sumLevel C la lb tbl pairs).1) := by
  induction pairs generalizing s tbl n0 c0 a0 with
  | nil => rfl
  | cons p ps ih =>
    simp only [sumLevel] at hT
    simp only [List.zipIdx_cons, List.foldl_cons, sumLevel]
    have h1 : (internAll tbl ((List.range C).map (fun c => ((nodeAt la p.1).ch c, (nodeAt lb p.2).ch c)))).1 <+: T :=
      (sumLevel_spec C la lb _ ps).1.trans hT
    rw [thread_inner (fun n c => WN n (p, s) c) (fun ch c v => WC ch (p, s) c v) (fun a c => WA a (p, s) c)
      (fun c => ((nodeAt la p.1).ch c, (nodeAt lb p.2).ch c)) T (List.range C) tbl n0 c0 a0 h1]
    exact ih _ _ _ _ _ hT


/-! ### array helpers -/


theorem setL2_nat {β : Type} (A : List (List β)) (p i : ℕ) (x : β) :
    Np.setL2 A (p : Int) (i : Int) x = A.modify p (fun r => r.modify i (fun _ => x)) := by
  unfold Np.setL2
  rw [Np.pyIdx_natCast]
  by_cases hp : p < A.length
  · rw [if_pos hp]
    simp only [Np.set1_natCast]
    rw [List.modify_eq_set (α := List β), List.set_eq_modify x i, List.getD_eq_getElem?_getD]
    rfl
  · rw [if_neg hp]
    simp only []
    rw [List.modify_eq_self (by omega)]

theorem zipIdx_eq_range {α : Type} (l : List α) (s : ℕ) (d : α) :
    l.zipIdx s = (List.range l.length).map (fun k => (l.getD k d, s + k)) := by
  induction l generalizing s with
  | nil => rfl
  | cons a t ih =>
    rw [List.zipIdx_cons, List.length_cons, List.range_succ_eq_map, List.map_cons, List.map_map, ih]
    congr 1
    apply List.map_congr_left
    intro k _
    simp only [Function.comp, List.getD_cons_succ]
    congr 1; omega

theorem foldl_zipIdx {α σ : Type} (l : List α) (d : α) (f : σ → α × ℕ → σ) (init : σ) :
    (l.zipIdx 0).foldl f init = (List.range l.length).foldl (fun s k => f s (l.getD k d, k)) init := by
  rw [zipIdx_eq_range l 0 d, List.foldl_map]
  simp only [Nat.zero_add]

theorem foldl_const_idem {σ : Type} (f : σ → σ) (hf : ∀ s, f (f s) = f s) (C : ℕ) (hC : 0 < C) (s : σ) :
    (List.range C).foldl (fun s _ => f s) s = f s := by
  induction C with
  | zero => omega
  | succ n ih =>
    rw [List.range_succ, List.foldl_append]
    simp only [List.foldl_cons, List.foldl_nil]
    by_cases hn : 0 < n
    · rw [ih hn, hf]
    · have : n = 0 := by omega
      subst this; rfl


/-! ### the translated function with its loops named -/

section clean
variable {ν : Type} [Inhabited ν]

abbrev St (ν : Type) := List (List Int) × List (List (List Int)) × List (List (List ν)) × Dict

/-- body of the innermost loop (candidate `c` of the result node `k` = pair `(i, j)` of level `idx`) -/
def cellStep (vadd : ν → ν → ν) (ca cb : List (List (List Int))) (aa ab : List (List (List ν))) (idx i j k : Int) (st : St ν) (c : Int) : St ν :=
  (Np.setL2 st.1 idx k 1,
   Np.set3 st.2.1 idx k c (Np.setdefault st.2.2.2 (Np.get3 ca idx i c, Np.get3 cb idx j c)).2,
   Np.set3 st.2.2.1 idx k c (vadd (Np.get3 aa idx i c) (Np.get3 ab idx j c)),
   (Np.setdefault st.2.2.2 (Np.get3 ca idx i c, Np.get3 cb idx j c)).1)

/-- the loop over the candidates for one entry of `pnodes` -/
def nodeLoop (vadd : ν → ν → ν) (ca cb : List (List (List Int))) (aa ab : List (List (List ν))) (C idx : Int) (st : St ν) (kv : (Int × Int) × Int) : St ν :=
  (Np.range 0 C 1).foldl (cellStep vadd ca cb aa ab idx kv.1.1 kv.1.2 kv.2) st

/-- body of the loop over the levels -/
def levelLoop (vadd : ν → ν → ν) (ca cb : List (List (List Int))) (aa ab : List (List (List ν))) (C : Int)
    (st : Dict × Dict × List (List Int) × List (List (List Int)) × List (List (List ν))) (idx : Int) :
    Dict × Dict × List (List Int) × List (List (List Int)) × List (List (List ν)) :=
  (st.2.1,
   (st.2.1.foldl (nodeLoop vadd ca cb aa ab C idx) (st.2.2.1, st.2.2.2.1, st.2.2.2.2, [])).2.2.2,
   (st.2.1.foldl (nodeLoop vadd ca cb aa ab C idx) (st.2.2.1, st.2.2.2.1, st.2.2.2.2, [])).1,
   (st.2.1.foldl (nodeLoop vadd ca cb aa ab C idx) (st.2.2.1, st.2.2.2.1, st.2.2.2.2, [])).2.1,
   (st.2.1.foldl (nodeLoop vadd ca cb aa ab C idx) (st.2.2.1, st.2.2.2.1, st.2.2.2.2, [])).2.2.1)

theorem add_sum_clean (vadd : ν → ν → ν) (vzero : ν) (units : List Int) (ra : Int) (na : List (List Int)) (ca : List (List (List Int)))
    (aa : List (List (List ν))) (da C rb : Int) (cb : List (List (List Int))) (ab : List (List (List ν))) (db : Int) :
    GenD.add_sum vadd vzero units ra na ca aa da C rb cb ab db
      = (units, 0,
         ((Np.range 0 (Np.len1 units) 1).foldl (levelLoop vadd ca cb aa ab C)
            ([], [((ra, rb), 0)], Np.zerosL2 (Np.len1 units) (da * db), Np.full3 (Np.len1 units) (da * db) C 0, Np.full3 (Np.len1 units) (da * db) C vzero)).2.2.1,
         ((Np.range 0 (Np.len1 units) 1).foldl (levelLoop vadd ca cb aa ab C)
            ([], [((ra, rb), 0)], Np.zerosL2 (Np.len1 units) (da * db), Np.full3 (Np.len1 units) (da * db) C 0, Np.full3 (Np.len1 units) (da * db) C vzero)).2.2.2.1,
         ((Np.range 0 (Np.len1 units) 1).foldl (levelLoop vadd ca cb aa ab C)
            ([], [((ra, rb), 0)], Np.zerosL2 (Np.len1 units) (da * db), Np.full3 (Np.len1 units) (da * db) C 0, Np.full3 (Np.len1 units) (da * db) C vzero)).2.2.2.2,
         da * db) := rfl

end clean

/-! ### one level of the translated loop -/

theorem fold_rowN (N : List (List Int)) (p n C : ℕ) (hC : 0 < C) :
    (List.range n).foldl (fun N (k : ℕ) => (List.range C).foldl (fun N (_ : ℕ) => Np.setL2 N (p : Int) (k : Int) 1) N) N
      = N.modify p (fun r => r.mapIdx (fun k x => if k < n then 1 else x)) := by
  have h1 : ∀ (N : List (List Int)) (k : ℕ),
      (List.range C).foldl (fun N (_ : ℕ) => Np.setL2 N (p : Int) (k : Int) 1) N = N.modify p (fun r => r.modify k (fun _ => 1)) := by
    intro N k
    rw [foldl_const_idem (fun N => Np.setL2 N (p : Int) (k : Int) 1) _ C hC, setL2_nat]
    intro s
    simp only [setL2_nat, List.modify_modify_eq]
    congr 1; funext r
    simp only [Function.comp, List.modify_modify_eq]
    rfl
  simp only [h1]
  refine (foldl_modify_lens p (fun (k : ℕ) (r : List Int) => r.modify k (fun _ => 1)) _ _).trans ?_
  congr 1; funext r
  exact foldl_modify_range (fun _ _ => 1) n r

theorem fold_row3 {β : Type} (A : List (List (List β))) (p n C : ℕ) (g : ℕ → ℕ → β) :
    (List.range n).foldl (fun A (k : ℕ) => (List.range C).foldl (fun A (c : ℕ) => Np.set3 A (p : Int) (k : Int) (c : Int) (g k c)) A) A
      = A.modify p (fun L => L.mapIdx (fun k r => if k < n then r.mapIdx (fun c x => if c < C then g k c else x) else r)) := by
  simp only [set3_const_modify3]
  have := fold3 A p n C (fun _ => True) (fun k c _ => g k c)
  simpa only [if_true] using this

/-- row `idx` of `nodes` after the level loop -/
def rowN (n : ℕ) (r : List Int) : List Int := r.mapIdx (fun k x => if k < n then 1 else x)
/-- row `idx` of `child` after the level loop -/
def rowC (C : ℕ) (la lb : Level V) (T pairs : List Pair) (L : List (List Int)) : List (List Int) :=
  L.mapIdx (fun k r => if k < pairs.length then r.mapIdx (fun c x => if c < C then
    ((T.idxOf ((nodeAt la (pairs.getD k (0, 0)).1).ch c, (nodeAt lb (pairs.getD k (0, 0)).2).ch c) : ℕ) : Int) else x) else r)
/-- row `idx` of `adder` after the level loop -/
def rowA (C : ℕ) (la lb : Level V) (pairs : List Pair) (L : List (List V)) : List (List V) :=
  L.mapIdx (fun k r => if k < pairs.length then r.mapIdx (fun c x => if c < C then
    (nodeAt la (pairs.getD k (0, 0)).1).ad c + (nodeAt lb (pairs.getD k (0, 0)).2).ad c else x) else r)

theorem nodeLoop_nat (C idx : ℕ) (LA LB : List (Level V)) (st : St V) (pk : Pair × ℕ) :
    @nodeLoop V ⟨0⟩ (fun x1 x2 => x1 + x2) (childOf LA) (childOf LB) (adderOf LA) (adderOf LB) (C : Int) (idx : Int) st (castP pk.1, (pk.2 : Int))
      = (List.range C).foldl (fun (st : St V) (c : ℕ) =>
          (Np.setL2 st.1 (idx : Int) (pk.2 : Int) 1,
           Np.set3 st.2.1 (idx : Int) (pk.2 : Int) (c : Int)
             (Np.setdefault st.2.2.2 (castP ((nodeAt (LA.getD idx []) pk.1.1).ch c, (nodeAt (LB.getD idx []) pk.1.2).ch c))).2,
           Np.set3 st.2.2.1 (idx : Int) (pk.2 : Int) (c : Int) ((nodeAt (LA.getD idx []) pk.1.1).ad c + (nodeAt (LB.getD idx []) pk.1.2).ad c),
           (Np.setdefault st.2.2.2 (castP ((nodeAt (LA.getD idx []) pk.1.1).ch c, (nodeAt (LB.getD idx []) pk.1.2).ch c))).1)) st := by
  unfold nodeLoop cellStep
  rw [Np.range_up, List.foldl_map]
  simp only [castP, get3_child, get3_adder]

theorem levelFold_nat (C idx : ℕ) (hC : 0 < C) (LA LB : List (Level V)) (pairs : List Pair)
    (N : List (List Int)) (Ch : List (List (List Int))) (A : List (List (List V))) :
    (assocFrom 0 pairs).foldl (@nodeLoop V ⟨0⟩ (fun x1 x2 => x1 + x2) (childOf LA) (childOf LB) (adderOf LA) (adderOf LB) (C : Int) (idx : Int)) (N, Ch, A, [])
      = (N.modify idx (rowN pairs.length),
         Ch.modify idx (rowC C (LA.getD idx []) (LB.getD idx []) (sumLevel C (LA.getD idx []) (LB.getD idx []) [] pairs).1 pairs),
         A.modify idx (rowA C (LA.getD idx []) (LB.getD idx []) pairs),
         assocFrom 0 (sumLevel C (LA.getD idx []) (LB.getD idx []) [] pairs).1) := by
  have e : assocFrom 0 pairs = (pairs.zipIdx 0).map (fun pk => (castP pk.1, (pk.2 : Int))) := rfl
  have e0 : ([] : Dict) = assocFrom 0 [] := rfl
  rw [e, List.foldl_map]
  simp only [nodeLoop_nat]
  rw [e0, thread_middle C (LA.getD idx []) (LB.getD idx [])
    (fun (N : List (List Int)) (pk : Pair × ℕ) (_ : ℕ) => Np.setL2 N (idx : Int) (pk.2 : Int) 1)
    (fun (Ch : List (List (List Int))) (pk : Pair × ℕ) (c : ℕ) (v : Int) => Np.set3 Ch (idx : Int) (pk.2 : Int) (c : Int) v)
    (fun (A : List (List (List V))) (pk : Pair × ℕ) (c : ℕ) =>
      Np.set3 A (idx : Int) (pk.2 : Int) (c : Int) ((nodeAt (LA.getD idx []) pk.1.1).ad c + (nodeAt (LB.getD idx []) pk.1.2).ad c))
    _ pairs 0 [] N Ch A (List.prefix_refl _)]
  rw [foldl_zipIdx pairs (0, 0), foldl_zipIdx pairs (0, 0), foldl_zipIdx pairs (0, 0)]
  rw [fold_rowN N idx pairs.length C hC, fold_row3, fold_row3]
  rfl

theorem levelLoop_nat (C idx : ℕ) (hC : 0 < C) (LA LB : List (Level V)) (pairs : List Pair) (pn : Dict)
    (N : List (List Int)) (Ch : List (List (List Int))) (A : List (List (List V))) :
    @levelLoop V ⟨0⟩ (fun x1 x2 => x1 + x2) (childOf LA) (childOf LB) (adderOf LA) (adderOf LB) (C : Int) (pn, assocFrom 0 pairs, N, Ch, A) (idx : Int)
      = (assocFrom 0 pairs, assocFrom 0 (sumLevel C (LA.getD idx []) (LB.getD idx []) [] pairs).1,
         N.modify idx (rowN pairs.length),
         Ch.modify idx (rowC C (LA.getD idx []) (LB.getD idx []) (sumLevel C (LA.getD idx []) (LB.getD idx []) [] pairs).1 pairs),
         A.modify idx (rowA C (LA.getD idx []) (LB.getD idx []) pairs)) := by
  unfold levelLoop
  simp only [levelFold_nat C idx hC]

/-! ### the rows written into a zero level are the padded level of the model -/

theorem padLevel_map {β : Type} (C D : ℕ) (f : Node V → β) (lv : Level V) :
    (padLevel C lv D).map f = lv.map f ++ List.replicate (D - lv.length) (f (blank C)) := by
  unfold padLevel
  rw [List.map_append, List.map_replicate]

theorem rowN_eq (C D : ℕ) (la lb : Level V) (pairs : List Pair) (hlen : pairs.length ≤ D) :
    rowN pairs.length (List.replicate D (0 : Int))
      = (padLevel C (sumLevel C la lb [] pairs).2 D).map (fun nd => if nd.active then (1 : Int) else 0) := by
  rw [padLevel_map, sumLevel_closed C la lb [] _ pairs (List.prefix_refl _)]
  unfold rowN
  apply List.ext_getElem
  · simp; omega
  · intro k h1 h2
    simp only [List.getElem_mapIdx, List.getElem_replicate, List.length_map, List.map_map]
    by_cases hk : k < pairs.length
    · rw [if_pos hk, List.getElem_append_left (by simpa using hk)]
      simp
    · rw [if_neg hk, List.getElem_append_right (by simpa using hk)]
      simp [blank]

theorem rowC_eq (C D : ℕ) (la lb : Level V) (pairs : List Pair) (hlen : pairs.length ≤ D) :
    rowC C la lb (sumLevel C la lb [] pairs).1 pairs (List.replicate D (List.replicate C (0 : Int)))
      = (padLevel C (sumLevel C la lb [] pairs).2 D).map (fun nd => nd.child.map (fun (k : ℕ) => (k : Int))) := by
  rw [padLevel_map, sumLevel_closed C la lb [] _ pairs (List.prefix_refl _)]
  unfold rowC
  apply List.ext_getElem
  · simp; omega
  · intro k h1 h2
    simp only [List.getElem_mapIdx, List.getElem_replicate, List.length_map, List.map_map]
    by_cases hk : k < pairs.length
    · rw [if_pos hk, List.getElem_append_left (by simpa using hk)]
      simp only [List.getElem_map, Function.comp, reqs, List.map_map]
      apply List.ext_getElem
      · simp
      · intro c hc1 hc2
        have hc : c < C := by simpa using hc1
        simp only [List.getElem_mapIdx, List.getElem_map, List.getElem_range, List.getElem_replicate, if_pos hc, Function.comp,
          List.getD_eq_getElem?_getD, List.getElem?_eq_getElem hk, Option.getD_some]
    · rw [if_neg hk, List.getElem_append_right (by simpa using hk)]
      simp [blank]

theorem rowA_eq (C D : ℕ) (la lb : Level V) (pairs : List Pair) (hlen : pairs.length ≤ D) :
    rowA C la lb pairs (List.replicate D (List.replicate C (0 : V)))
      = (padLevel C (sumLevel C la lb [] pairs).2 D).map (fun nd => nd.adder) := by
  rw [padLevel_map, sumLevel_closed C la lb [] _ pairs (List.prefix_refl _)]
  unfold rowA
  apply List.ext_getElem
  · simp; omega
  · intro k h1 h2
    simp only [List.getElem_mapIdx, List.getElem_replicate, List.length_map, List.map_map]
    by_cases hk : k < pairs.length
    · rw [if_pos hk, List.getElem_append_left (by simpa using hk)]
      simp only [List.getElem_map, Function.comp]
      apply List.ext_getElem
      · simp
      · intro c hc1 hc2
        have hc : c < C := by simpa using hc1
        simp only [List.getElem_mapIdx, List.getElem_map, List.getElem_range, List.getElem_replicate, if_pos hc,
          List.getD_eq_getElem?_getD, List.getElem?_eq_getElem hk, Option.getD_some]
    · rw [if_neg hk, List.getElem_append_right (by simpa using hk)]
      simp [blank]

/-! ### the loop over the levels -/

theorem modify_append_cons {α : Type} (d : List α) (z : α) (rest : List α) (f : α → α) :
    (d ++ z :: rest).modify d.length f = d ++ f z :: rest := by
  induction d with
  | nil => rfl
  | cons a t ih => simp only [List.cons_append, List.length_cons, List.modify_succ_cons, ih]

theorem drop_cons_getD {α : Type} (l : List (List α)) (i : ℕ) (a : List α) (r : List (List α)) (h : l.drop i = a :: r) :
    l.getD i [] = a ∧ l.drop (i + 1) = r ∧ a ∈ l := by
  have hi : i < l.length := by
    by_contra hc
    rw [List.drop_eq_nil_of_le (by omega)] at h
    exact absurd h (by simp)
  have := List.getElem_cons_drop hi
  rw [h] at this
  refine ⟨?_, (List.cons.inj this).2, ?_⟩
  · simp only [List.getD_eq_getElem?_getD, List.getElem?_eq_getElem hi, Option.getD_some]
    exact (List.cons.inj this).1
  · rw [← (List.cons.inj this).1]; exact List.getElem_mem hi

theorem outer_nat (C da db : ℕ) (hC : 0 < C) (hda : 0 < da) (hdb : 0 < db) (LA LB : List (Level V))
    (hA : ∀ lv ∈ LA, ∀ nd ∈ lv, NodeOK C da nd) (hB : ∀ lv ∈ LB, ∀ nd ∈ lv, NodeOK C db nd) :
    ∀ (LA' LB' : List (Level V)) (i0 : ℕ) (pairs : List Pair) (pn : Dict)
      (dN : List (List Int)) (dC : List (List (List Int))) (dA : List (List (List V))),
      LA.drop i0 = LA' → LB.drop i0 = LB' → LA'.length = LB'.length → pairs.length ≤ da * db →
      dN.length = i0 → dC.length = i0 → dA.length = i0 →
      ((List.range' i0 LA'.length).foldl (fun st (k : ℕ) =>
          @levelLoop V ⟨0⟩ (fun x1 x2 => x1 + x2) (childOf LA) (childOf LB) (adderOf LA) (adderOf LB) (C : Int) st (k : Int))
        (pn, assocFrom 0 pairs, dN ++ List.replicate LA'.length (List.replicate (da * db) (0 : Int)),
          dC ++ List.replicate LA'.length (List.replicate (da * db) (List.replicate C (0 : Int))),
          dA ++ List.replicate LA'.length (List.replicate (da * db) (List.replicate C (0 : V))))).2.2
        = (dN ++ nodesOf ((sumLevels C LA' LB' pairs).map (padLevel C · (da * db))),
           dC ++ childOf ((sumLevels C LA' LB' pairs).map (padLevel C · (da * db))),
           dA ++ adderOf ((sumLevels C LA' LB' pairs).map (padLevel C · (da * db)))) := by
  intro LA'
  induction LA' with
  | nil =>
    intro LB' i0 pairs pn dN dC dA _ _ _ _ _ _ _
    simp [sumLevels, nodesOf, childOf, adderOf]
  | cons la ra ih =>
    intro LB' i0 pairs pn dN dC dA h1 h2 hl hp hN hCh hAd
    cases LB' with
    | nil => simp at hl
    | cons lb rb =>
      obtain ⟨ga, gra, gma⟩ := drop_cons_getD LA i0 la ra h1
      obtain ⟨gb, grb, gmb⟩ := drop_cons_getD LB i0 lb rb h2
      have hlen' : ra.length = rb.length := by simpa using hl
      obtain ⟨_, _, t3⟩ := sumLevel_tbl C da db hda hdb la lb (hA la gma) (hB lb gmb) pairs
      simp only [List.length_cons, List.range'_succ, List.foldl_cons, List.replicate_succ]
      rw [levelLoop_nat C i0 hC LA LB pairs pn, ga, gb]
      have eN := modify_append_cons dN (List.replicate (da * db) (0 : Int)) (List.replicate ra.length (List.replicate (da * db) (0 : Int))) (rowN pairs.length)
      have eC := modify_append_cons dC (List.replicate (da * db) (List.replicate C (0 : Int)))
        (List.replicate ra.length (List.replicate (da * db) (List.replicate C (0 : Int)))) (rowC C la lb (sumLevel C la lb [] pairs).1 pairs)
      have eA := modify_append_cons dA (List.replicate (da * db) (List.replicate C (0 : V)))
        (List.replicate ra.length (List.replicate (da * db) (List.replicate C (0 : V)))) (rowA C la lb pairs)
      rw [hN] at eN; rw [hCh] at eC; rw [hAd] at eA
      rw [eN, eC, eA, rowN_eq C (da * db) la lb pairs hp, rowC_eq C (da * db) la lb pairs hp, rowA_eq C (da * db) la lb pairs hp]
      rw [List.append_cons dN, List.append_cons dC, List.append_cons dA]
      rw [ih rb (i0 + 1) (sumLevel C la lb [] pairs).1 (assocFrom 0 pairs) _ _ _ gra grb hlen' t3 (by simp [hN]) (by simp [hCh]) (by simp [hAd])]
      simp only [sumLevels, List.map_cons, nodesOf, childOf, adderOf, List.append_assoc, List.singleton_append]

end DsProofs.TieD.SumP

namespace DsProofs.TieD
open SumP
variable {V : Type} [AddCommMonoid V]

/-- whenever the model's `sum` succeeds on two reachable diagrams with at least one candidate, the translated `ADD.sum` (product construction with `setdefault`
numbering of the node pairs) returns exactly the arrays `(units, root, nodes, child, adder, diameter)` of the model's result -/
theorem sum_eq (a b s : Diagram V) (ha : Reach a) (hb : Reach b) (hC : 0 < a.C) (h : a.sum b = .ok s) :
    letI : Inhabited V := ⟨0⟩
    GenD.add_sum (· + ·) (0 : V) (unitsI a.units) (a.root : Int) (nodesOf a.levels) (childOf a.levels) (adderOf a.levels) (a.diameter : Int) (a.C : Int)
        (b.root : Int) (childOf b.levels) (adderOf b.levels) (b.diameter : Int)
      = (unitsI s.units, (s.root : Int), nodesOf s.levels, childOf s.levels, adderOf s.levels, (s.diameter : Int)) := by
  have ga := reach_good ha
  have gb := reach_good hb
  have la := (reach_shape a ha).1.1
  have lb := (reach_shape b hb).1.1
  rw [Ds.Dd.sum_eq] at h
  by_cases hne : a.units ≠ b.units ∨ a.C ≠ b.C
  · rw [if_pos hne] at h; cases h
  rw [if_neg hne] at h
  simp only [Except.ok.injEq] at h
  subst h
  have hU : a.units = b.units := by by_contra hh; exact hne (Or.inl hh)
  have hCC : a.C = b.C := by by_contra hh; exact hne (Or.inr hh)
  have hlen : a.levels.length = b.levels.length := by rw [la, lb, hU]
  rw [@add_sum_clean V ⟨0⟩]
  have e1 : Np.len1 (unitsI a.units) = ((a.levels.length : ℕ) : Int) := by simp [Np.len1, unitsI, la]
  have e2 : (a.diameter : Int) * (b.diameter : Int) = ((a.diameter * b.diameter : ℕ) : Int) := by push_cast; rfl
  have e3 : ([(((a.root : Int), (b.root : Int)), (0 : Int))] : Dict) = assocFrom 0 [(a.root, b.root)] := rfl
  have key := outer_nat a.C a.diameter b.diameter hC ga.pos gb.pos a.levels b.levels (fun x hx => (ga.2 x hx).2)
    (fun x hx => hCC ▸ (gb.2 x hx).2) a.levels b.levels 0 [(a.root, b.root)] [] [] [] []
    (List.drop_zero) (List.drop_zero) hlen (Nat.mul_pos ga.pos gb.pos) rfl rfl rfl
  simp only [List.nil_append] at key
  rw [e1, e2, e3, Np.range_up, List.foldl_map, List.range_eq_range']
  simp only [Np.zerosL2, Np.full3, Int.toNat_natCast]
  simp only [Prod.ext_iff] at key
  rw [key.1, key.2.1, key.2.2]
  simp

/-- without units there is no level, and the number of candidates does not matter -/
theorem sum_eq_nil (a b s : Diagram V) (ha : Reach a) (hu : a.units = []) (h : a.sum b = .ok s) :
    letI : Inhabited V := ⟨0⟩
    GenD.add_sum (· + ·) (0 : V) (unitsI a.units) (a.root : Int) (nodesOf a.levels) (childOf a.levels) (adderOf a.levels) (a.diameter : Int) (a.C : Int)
        (b.root : Int) (childOf b.levels) (adderOf b.levels) (b.diameter : Int)
      = (unitsI s.units, (s.root : Int), nodesOf s.levels, childOf s.levels, adderOf s.levels, (s.diameter : Int)) := by
  have la := (reach_shape a ha).1.1
  rw [hu] at la
  have hl : a.levels = [] := List.eq_nil_of_length_eq_zero la
  rw [Ds.Dd.sum_eq] at h
  by_cases hne : a.units ≠ b.units ∨ a.C ≠ b.C
  · rw [if_pos hne] at h; cases h
  rw [if_neg hne] at h
  simp only [Except.ok.injEq] at h
  subst h
  rw [@add_sum_clean V ⟨0⟩]
  simp [hu, hl, unitsI, Np.len1, Np.range, Np.zerosL2, Np.full3, sumLevels, nodesOf, childOf, adderOf]

end DsProofs.TieD

/-! ### non-vacuity: a chain (diameter 1) plus a tree (diameter 2) over `ℕ`, two units, two candidates -/

namespace DsProofs.TieD.SumP

/-- `construct_tree([0, 1], 2)` -/
def exT : Diagram ℕ :=
  { units := [0, 1], C := 2, diameter := 2, root := 0,
    levels := [[⟨true, [0, 1], [0, 0]⟩, ⟨false, [0, 0], [0, 0]⟩], [⟨true, [0, 0], [0, 0]⟩, ⟨true, [0, 0], [0, 0]⟩]] }
theorem exT_tree : tree [0, 1] 2 = .ok exT := by rfl

def exA : Diagram ℕ := (chain [0, 1] 2).update [(0, 0, 1)] 5 true
def exB : Diagram ℕ := exT.update [(1, 1, 0)] 7 true
/-- `exA.sum exB`: level 0 holds the node of the pair `(0, 0)` and one padding node, level 1 the nodes of `(0, 0)` and `(0, 1)` -/
def exS : Diagram ℕ :=
  { units := [0, 1], C := 2, diameter := 2, root := 0,
    levels := [[⟨true, [0, 1], [0, 5]⟩, ⟨false, [0, 0], [0, 0]⟩], [⟨true, [0, 0], [0, 0]⟩, ⟨true, [0, 0], [7, 0]⟩]] }

theorem exA_reach : Reach exA := Reach.update _ _ _ _ (Reach.chain _ _)
theorem exB_reach : Reach exB := Reach.update _ _ _ _ (Reach.tree _ _ _ exT_tree)
theorem exS_sum : exA.sum exB = .ok exS := by rfl

/-- the equation checked by evaluation, component by component -/
example : GenD.add_sum (ν := ℕ) (· + ·) 0 (unitsI exA.units) (exA.root : Int) (nodesOf exA.levels) (childOf exA.levels) (adderOf exA.levels)
    (exA.diameter : Int) (exA.C : Int) (exB.root : Int) (childOf exB.levels) (adderOf exB.levels) (exB.diameter : Int)
    = (unitsI exS.units, (exS.root : Int), nodesOf exS.levels, childOf exS.levels, adderOf exS.levels, (exS.diameter : Int)) := by
  refine Prod.ext ?_ (Prod.ext ?_ (Prod.ext ?_ (Prod.ext ?_ (Prod.ext ?_ ?_)))) <;> decide

/-- the hypotheses of `sum_eq` are satisfiable -/
example : @GenD.add_sum ℕ ⟨0⟩ (· + ·) 0 (unitsI exA.units) (exA.root : Int) (nodesOf exA.levels) (childOf exA.levels) (adderOf exA.levels)
    (exA.diameter : Int) (exA.C : Int) (exB.root : Int) (childOf exB.levels) (adderOf exB.levels) (exB.diameter : Int)
    = (unitsI exS.units, (exS.root : Int), nodesOf exS.levels, childOf exS.levels, adderOf exS.levels, (exS.diameter : Int)) :=
  sum_eq exA exB exS exA_reach exB_reach (by decide) exS_sum

/-- `0 < a.C` is needed: without candidates the translated loop never sets `nodes[idx, k] = 1`, the model does -/
def exZ : Diagram ℕ := chain [7] 0
theorem sum_needs_candidate :
    Reach exZ ∧ exZ.sum exZ = .ok { units := [7], C := 0, diameter := 1, root := 0, levels := [[⟨true, [], []⟩]] } ∧
    (GenD.add_sum (ν := ℕ) (· + ·) 0 (unitsI exZ.units) (exZ.root : Int) (nodesOf exZ.levels) (childOf exZ.levels) (adderOf exZ.levels)
        (exZ.diameter : Int) (exZ.C : Int) (exZ.root : Int) (childOf exZ.levels) (adderOf exZ.levels) (exZ.diameter : Int)).2.2.1 = [[0]] ∧
    nodesOf ([[⟨true, [], []⟩]] : List (Level ℕ)) = [[1]] :=
  ⟨Reach.chain _ _, by rfl, by decide, by decide⟩

end DsProofs.TieD.SumP

#print axioms DsProofs.TieD.sum_eq
#print axioms DsProofs.TieD.sum_eq_nil
#print axioms DsProofs.TieD.SumP.sum_needs_candidate
