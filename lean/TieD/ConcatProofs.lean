import TieD.ReachProofs
/-!
# TieD.ConcatProofs — the translated `ADD.concatenate` is the model's `concatenate`, array for array
-/
open Ds Ds.Dd Ds.GenCall Ds.GenOps

namespace DsProofs.TieD
set_option linter.unusedSectionVars false
variable {V : Type} [AddCommMonoid V]

/-- the six fields of a diagram as the translated code carries them -/
def fld (d : Diagram V) : GenD.Fld V := (unitsI d.units, (d.root : Int), nodesOf d.levels, childOf d.levels, adderOf d.levels, (d.diameter : Int))

/-! ### generic list facts -/

theorem foldl_imax_cast (l : List ℕ) (a : ℕ) :
    (l.map (fun k : ℕ => (k : Int))).foldl Np.imax (a : Int) = ((l.foldl max a : ℕ) : Int) := by
  induction l generalizing a with
  | nil => rfl
  | cons x t ih =>
    simp only [List.map_cons, List.foldl_cons]
    have : Np.imax (a : Int) (x : Int) = ((max a x : ℕ) : Int) := by
      unfold Np.imax
      split <;> omega
    rw [this, ih]

/-- `enumerate` + indexing a parallel list by the position = mapping over the list -/
theorem enum_map_get1 {β γ : Type} (g : β → Int) (F : β → Int → γ) (pre suf : List β) :
    (Np.enumerateFrom (pre.length : Int) suf).map (fun ix => F ix.2 (Np.get1 ((pre ++ suf).map g) ix.1))
      = suf.map (fun x => F x (g x)) := by
  induction suf generalizing pre with
  | nil => rfl
  | cons x t ih =>
    have h1 : Np.get1 ((pre ++ x :: t).map g) (pre.length : Int) = g x := by
      rw [Np.get1_natCast]
      simp [List.getD_eq_getElem?_getD]
    have h2 := ih (pre ++ [x])
    simp only [List.length_append, List.length_cons, List.length_nil, Nat.zero_add, Nat.cast_add, Nat.cast_one,
      List.append_assoc, List.cons_append, List.nil_append] at h2
    simp only [Np.enumerateFrom, List.map_cons, h1, h2]

theorem enum_map_get1_zero {β γ : Type} (g : β → Int) (F : β → Int → γ) (l : List β) :
    (Np.enumerateFrom (0 : Int) l).map (fun ix => F ix.2 (Np.get1 (l.map g) ix.1)) = l.map (fun x => F x (g x)) := by
  simpa using enum_map_get1 g F [] l

/-- a loop over `i = 0 … len-2` that reads `l[i]`, `l[i+1]` is a fold over the adjacent pairs -/
theorem foldl_range_pairs {α σ : Type} (l : List α) (d : α) (g : σ → α → α → σ) (s : σ) :
    (List.range (l.length - 1)).foldl (fun s i => g s (l.getD i d) (l.getD (i + 1) d)) s
      = (l.zip l.tail).foldl (fun s p => g s p.1 p.2) s := by
  have : l.zip l.tail = (List.range (l.length - 1)).map (fun i => (l.getD i d, l.getD (i + 1) d)) := by
    apply List.ext_getElem
    · simp
    · intro i h1 h2
      simp only [List.length_zip, List.length_tail] at h1
      simp only [List.getElem_zip, List.getElem_tail, List.getElem_map, List.getElem_range,
        List.getD_eq_getElem?_getD]
      rw [List.getElem?_eq_getElem (by omega), List.getElem?_eq_getElem (by omega)]
      rfl
  rw [this, List.foldl_map]

theorem map_modify_of_inv {α β : Type} (g : α → β) (f : α → α) (h : ∀ x, g (f x) = g x) (L : List α) (k : ℕ) :
    (L.modify k f).map g = L.map g := by
  induction L generalizing k with
  | nil => simp
  | cons x t ih =>
    cases k with
    | zero => simp [h]
    | succ k => simp [List.modify_succ_cons, ih]

theorem getD_append_cons {α : Type} (A : List α) (x : α) (B : List α) (d : α) : (A ++ x :: B).getD A.length d = x := by
  simp [List.getD_eq_getElem?_getD]

theorem modify_append_singleton {α : Type} (A : List α) (x : α) (f : α → α) : (A ++ [x]).modify A.length f = A ++ [f x] := by
  induction A with
  | nil => rfl
  | cons y t ih => simp [List.modify_succ_cons, ih]

theorem set_append_cons {α : Type} (A : List α) (x y : α) (B : List α) : (A ++ x :: B).set A.length y = A ++ y :: B := by
  simp

/-! ### padding -/

/-- an element's levels padded to the common diameter -/
def padded (D : ℕ) (e : Diagram V) : List (Level V) := e.levels.map (padLevel 2 · D)

theorem toNat_sub_cast (a b : ℕ) : ((a : Int) - (b : Int)).toNat = a - b := by omega

theorem nodesOf_padded (D : ℕ) (e : Diagram V) (hl : ∀ lv ∈ e.levels, lv.length = e.diameter) :
    nodesOf (padded D e) = Np.padNodeAxis (nodesOf e.levels) ((D : Int) - (e.diameter : Int)) (0 : Int) := by
  unfold nodesOf padded Np.padNodeAxis
  rw [List.map_map, List.map_map]
  apply List.map_congr_left
  intro lv hlv
  simp [padLevel, blank, hl lv hlv]

theorem childOf_padded (D : ℕ) (e : Diagram V) (hl : ∀ lv ∈ e.levels, lv.length = e.diameter) :
    childOf (padded D e) = Np.padNodeAxis (childOf e.levels) ((D : Int) - (e.diameter : Int)) (Np.rep (0 : Int) (2 : Int)) := by
  unfold childOf padded Np.padNodeAxis
  rw [List.map_map, List.map_map]
  apply List.map_congr_left
  intro lv hlv
  have : Np.rep (0 : Int) (2 : Int) = [0, 0] := rfl
  simp [padLevel, blank, hl lv hlv, this, List.replicate]

theorem adderOf_padded (D : ℕ) (e : Diagram V) (hl : ∀ lv ∈ e.levels, lv.length = e.diameter) :
    adderOf (padded D e) = Np.padNodeAxis (adderOf e.levels) ((D : Int) - (e.diameter : Int)) (Np.rep (0 : V) (2 : Int)) := by
  unfold adderOf padded Np.padNodeAxis
  rw [List.map_map, List.map_map]
  apply List.map_congr_left
  intro lv hlv
  have : Np.rep (0 : V) (2 : Int) = [0, 0] := rfl
  simp [padLevel, blank, hl lv hlv, this, List.replicate]

/-! ### `nodes` and `adder` of the concatenation: rerouting does not touch them -/

theorem nodesOf_modify_redirect (L : List (Level V)) (k r : ℕ) : nodesOf (L.modify k (redirect r)) = nodesOf L := by
  unfold nodesOf
  apply map_modify_of_inv
  intro lv
  unfold redirect
  rw [List.map_map]
  apply List.map_congr_left
  intro nd _
  simp only [Function.comp]
  split <;> rfl

theorem adderOf_modify_redirect (L : List (Level V)) (k r : ℕ) : adderOf (L.modify k (redirect r)) = adderOf L := by
  unfold adderOf
  apply map_modify_of_inv
  intro lv
  unfold redirect
  rw [List.map_map]
  apply List.map_congr_left
  intro nd _
  simp only [Function.comp]
  split <;> rfl

theorem nodesOf_append (A B : List (Level V)) : nodesOf (A ++ B) = nodesOf A ++ nodesOf B := by
  unfold nodesOf; exact List.map_append
theorem adderOf_append (A B : List (Level V)) : adderOf (A ++ B) = adderOf A ++ adderOf B := by
  unfold adderOf; exact List.map_append
theorem childOf_append (A B : List (Level V)) : childOf (A ++ B) = childOf A ++ childOf B := by
  unfold childOf; exact List.map_append

theorem nodesOf_go (D : ℕ) (els : List (Diagram V)) :
    nodesOf (concatenate.go D els) = (els.map (fun e => nodesOf (padded D e))).flatten := by
  match els with
  | [] => simp [concatenate.go, nodesOf]
  | [e] => rw [concatenate.go.eq_2]; simp [padded]
  | e :: e' :: rest =>
    rw [go_cons_cons, nodesOf_append, nodesOf_modify_redirect, nodesOf_go D (e' :: rest)]
    simp [padded]

theorem adderOf_go (D : ℕ) (els : List (Diagram V)) :
    adderOf (concatenate.go D els) = (els.map (fun e => adderOf (padded D e))).flatten := by
  match els with
  | [] => simp [concatenate.go, adderOf]
  | [e] => rw [concatenate.go.eq_2]; simp [padded]
  | e :: e' :: rest =>
    rw [go_cons_cons, adderOf_append, adderOf_modify_redirect, adderOf_go D (e' :: rest)]
    simp [padded]

/-! ### `child`: one rerouting step -/

/-- the selector row of a level -/
def flags (lv : Level V) : List Int := lv.map (fun nd => if nd.active then (1 : Int) else 0)
/-- the child row of a level -/
def crow (lv : Level V) : List (List Int) := lv.map (fun nd => nd.child.map (fun (k : ℕ) => (k : Int)))

theorem row_redirect (r : ℕ) (lv : Level V) (h2 : ∀ nd ∈ lv, nd.child.length = 2) :
    List.zipWith (fun (nd : List Int) (b : Bool) => if b then nd.map (fun _ => (r : Int)) else nd) (crow lv)
        ((flags lv).map (fun x => x != (0 : Int)))
      = crow (redirect r lv) := by
  unfold crow flags redirect
  rw [List.map_map, List.zipWith_map, List.zipWith_self, List.map_map]
  apply List.map_congr_left
  intro nd hnd
  have hl := h2 nd hnd
  cases ha : nd.active
  · simp [ha]
  · simp only [Function.comp, ha, if_true]
    have : ((1 : Int) != 0) = true := by decide
    rw [this, if_pos rfl]
    obtain ⟨a, b, hc⟩ : ∃ a b, nd.child = [a, b] := List.length_eq_two.mp hl
    rw [hc]; rfl

/-- one pass of the translated loop body -/
def cstep (N : List (List Int)) (st : Int × List (List (List Int))) (a b : GenD.Fld V) : Int × List (List (List Int)) :=
  (st.1 + Np.len1 a.1,
   Np.setRowsWhere st.2 (st.1 + Np.len1 a.1) ((Np.get1 N (st.1 + Np.len1 a.1)).map (fun x => x != (0 : Int))) b.2.1)

theorem cstep_eq (N : List (List Int)) (L : List (Level V)) (hne : L ≠ []) (Pc S : List (List (List Int))) (Pn Sn : List (List Int))
    (hlen : Pn.length = Pc.length) (hN : N = Pn ++ (nodesOf L ++ Sn)) (a b : GenD.Fld V) (r : ℕ)
    (ha : a.1.length = L.length) (hb : b.2.1 = (r : Int)) (h2 : ∀ lv ∈ L, ∀ nd ∈ lv, nd.child.length = 2) :
    cstep N (((Pc.length : ℕ) : Int) - 1, Pc ++ (childOf L ++ S)) a b
      = ((((Pc ++ childOf (L.modify (L.length - 1) (redirect r))).length : ℕ) : Int) - 1,
         (Pc ++ childOf (L.modify (L.length - 1) (redirect r))) ++ S) := by
  obtain ⟨L0, lv, rfl⟩ : ∃ L0 lv, L = L0 ++ [lv] := ⟨L.dropLast, L.getLast hne, (List.dropLast_append_getLast hne).symm⟩
  have hmod : (L0 ++ [lv]).modify ((L0 ++ [lv]).length - 1) (redirect r) = L0 ++ [redirect r lv] := by
    simp [modify_append_singleton]
  rw [hmod]
  have hidx : ((Pc.length : ℕ) : Int) - 1 + Np.len1 a.1 = (((Pc ++ childOf L0).length : ℕ) : Int) := by
    unfold Np.len1
    rw [ha]
    simp [childOf]
  have hcL : childOf (L0 ++ [lv]) = childOf L0 ++ [crow lv] := by simp [childOf, crow]
  have hcL' : childOf (L0 ++ [redirect r lv]) = childOf L0 ++ [crow (redirect r lv)] := by simp [childOf, crow]
  have hnL : nodesOf (L0 ++ [lv]) = nodesOf L0 ++ [flags lv] := by simp [nodesOf, flags]
  have hN' : N = (Pn ++ nodesOf L0) ++ flags lv :: Sn := by rw [hN, hnL]; simp
  have hkn : (Pc ++ childOf L0).length = (Pn ++ nodesOf L0).length := by simp [hlen, childOf, nodesOf]
  have hget : Np.get1 N (((Pc ++ childOf L0).length : ℕ) : Int) = flags lv := by
    rw [Np.get1_natCast, hkn, hN', getD_append_cons]
  have hA : Pc ++ (childOf (L0 ++ [lv]) ++ S) = (Pc ++ childOf L0) ++ crow lv :: S := by rw [hcL]; simp
  unfold cstep
  simp only [hb]
  rw [hidx, hget, hA]
  unfold Np.setRowsWhere
  rw [Np.pyIdx_natCast, if_pos (by simp)]
  simp only [getD_append_cons, set_append_cons]
  rw [row_redirect r lv (h2 lv (by simp)), hcL']
  refine Prod.ext ?_ ?_
  · simp only [childOf, List.length_append, List.length_map, List.length_cons, List.length_nil]
    push_cast; omega
  · simp

/-! ### `child`: the whole loop -/

/-- what the proof needs of an element -/
structure ElOK (e : Diagram V) : Prop where
  len : e.levels.length = e.units.length
  ne : e.units ≠ []
  two : ∀ lv ∈ e.levels, ∀ nd ∈ lv, nd.child.length = 2

theorem ElOK.padded_ne {e : Diagram V} (h : ElOK e) (D : ℕ) : padded D e ≠ [] := by
  intro hh
  have := congrArg List.length hh
  simp only [padded, List.length_map, List.length_nil, h.len] at this
  exact h.ne (List.length_eq_zero_iff.mp this)

theorem ElOK.padded_two {e : Diagram V} (h : ElOK e) (D : ℕ) : ∀ lv ∈ padded D e, ∀ nd ∈ lv, nd.child.length = 2 := by
  intro lv hlv nd hnd
  simp only [padded, List.mem_map] at hlv
  obtain ⟨lv', hlv', rfl⟩ := hlv
  simp only [padLevel, List.mem_append, List.mem_replicate] at hnd
  rcases hnd with hnd | ⟨_, rfl⟩
  · exact h.two lv' hlv' nd hnd
  · simp [blank]

theorem child_fold (D : ℕ) (N : List (List Int)) (els : List (Diagram V)) (hne : els ≠ []) (hok : ∀ e ∈ els, ElOK e)
    (Pc : List (List (List Int))) (Pn : List (List Int)) (hlen : Pn.length = Pc.length)
    (hN : N = Pn ++ (els.map (fun e => nodesOf (padded D e))).flatten) :
    (((els.map fld).zip (els.map fld).tail).foldl (fun st p => cstep N st p.1 p.2)
        (((Pc.length : ℕ) : Int) - 1, Pc ++ (els.map (fun e => childOf (padded D e))).flatten)).2
      = Pc ++ childOf (concatenate.go D els) := by
  match els, hne with
  | [e], _ =>
    rw [concatenate.go.eq_2]
    simp [padded]
  | e :: e' :: rest, _ =>
    have he := hok e (by simp)
    have hstep := cstep_eq N (padded D e) (he.padded_ne D) Pc ((((e' :: rest).map (fun e => childOf (padded D e))).flatten)) Pn
      ((((e' :: rest).map (fun e => nodesOf (padded D e))).flatten)) hlen (by rw [hN]; simp) (fld e) (fld e') e'.root
      (by simp [fld, unitsI, padded, he.len]) rfl (he.padded_two D)
    have ih := child_fold D N (e' :: rest) (by simp) (fun x hx => hok x (by simp [hx]))
      (Pc ++ childOf ((padded D e).modify ((padded D e).length - 1) (redirect e'.root)))
      (Pn ++ nodesOf (padded D e)) (by simp [hlen, childOf, nodesOf]) (by rw [hN]; simp)
    have hg : concatenate.go D (e :: e' :: rest)
        = (padded D e).modify ((padded D e).length - 1) (redirect e'.root) ++ concatenate.go D (e' :: rest) := go_cons_cons D e e' rest
    rw [hg, childOf_append, ← List.append_assoc, ← ih]
    simp only [List.map_cons, List.tail_cons, List.zip_cons_cons, List.foldl_cons, List.flatten_cons] at hstep ih ⊢
    rw [hstep]

/-! ### the statement -/

theorem gen_units (els : List (Diagram V)) :
    ((els.map fld).map (fun x => x.1)).flatten = unitsI (els.flatMap (·.units)) := by
  induction els with
  | nil => rfl
  | cons e t ih =>
    simp only [List.map_cons, List.flatten_cons, List.flatMap_cons, ih]
    simp [unitsI, fld]

/-- the translated loop (indices `0 … len-2`, `idx` starting at `-1`) computes the model's rerouted `child` -/
theorem gen_fold (D : ℕ) (els : List (Diagram V)) (hne : els ≠ []) (hok : ∀ e ∈ els, ElOK e) :
    ((Np.range (0 : Int) (Np.len1 (els.map fld) - (1 : Int)) (1 : Int)).foldl
        (fun (st : Int × List (List (List Int))) (i : Int) =>
          cstep (els.map (fun e => nodesOf (padded D e))).flatten st (Np.get1 (els.map fld) i) (Np.get1 (els.map fld) (i + (1 : Int))))
        ((-1 : Int), (els.map (fun e => childOf (padded D e))).flatten)).2
      = childOf (concatenate.go D els) := by
  have hl : Np.len1 (els.map fld) - (1 : Int) = (((els.map fld).length - 1 : ℕ) : Int) := by
    have : 1 ≤ (els.map fld).length := by
      rw [List.length_map]; exact List.length_pos_of_ne_nil hne
    unfold Np.len1
    omega
  rw [hl, Np.range_up, List.foldl_map]
  have hsucc : ∀ i : ℕ, ((i : Int) + 1) = ((i + 1 : ℕ) : Int) := fun i => by push_cast; rfl
  simp only [hsucc, Np.get1_natCast]
  rw [foldl_range_pairs (els.map fld) default (cstep (els.map (fun e => nodesOf (padded D e))).flatten)]
  have := child_fold D _ els hne hok [] [] rfl (List.nil_append _).symm
  simp only [List.length_nil, Nat.cast_zero, zero_sub, List.nil_append] at this
  exact this

theorem gen_arr {γ : Type} (els : List (Diagram V)) (Dg : Int) (proj : GenD.Fld V → List (List γ)) (x : γ) :
    ((Np.enumerateFrom (0 : Int) (els.map fld)).map (fun ix => Np.padNodeAxis (proj ix.2)
        (Np.get1 ((els.map fld).map (fun x => Dg - x.2.2.2.2.2)) ix.1) x)).flatten
      = (els.map (fun e => Np.padNodeAxis (proj (fld e)) (Dg - (e.diameter : Int)) x)).flatten := by
  rw [enum_map_get1_zero (fun x => Dg - x.2.2.2.2.2) (fun y m => Np.padNodeAxis (proj y) m x), List.map_map]
  rfl

/-- whenever the model's `concatenate` succeeds on reachable elements, the translated `ADD.concatenate` returns exactly the fields of the model's result -/
theorem concat_eq (els : List (Diagram V)) (d : Diagram V) (hr : ∀ e ∈ els, Reach e) (h : concatenate els = .ok d) :
    letI : Inhabited V := ⟨0⟩
    GenD.add_concatenate (0 : V) (2 : Int) (els.map fld) = fld d := by
  cases els with
  | nil => cases h
  | cons e0 rest =>
    rw [concatenate_eq] at h
    by_cases h1 : ∃ e ∈ e0 :: rest, e.C ≠ e0.C
    · rw [if_pos h1] at h; cases h
    rw [if_neg h1] at h
    by_cases h2 : e0.C ≠ 2
    · rw [if_pos h2] at h; cases h
    rw [if_neg h2] at h
    by_cases h3 : ∃ e ∈ e0 :: rest, e.units = []
    · rw [if_pos h3] at h; cases h
    rw [if_neg h3] at h
    simp only [Except.ok.injEq] at h
    subst h
    have hC2 : ∀ e ∈ e0 :: rest, e.C = 2 := by
      intro e he
      have : e.C = e0.C := by by_contra hh; exact h1 ⟨e, he, hh⟩
      rw [this]; exact not_not.mp h2
    have hsh : ∀ e ∈ e0 :: rest, Shape e := fun e he => (reach_shape e (hr e he)).1
    have hlv : ∀ e ∈ e0 :: rest, ∀ lv ∈ e.levels, lv.length = e.diameter := fun e he lv hlv => ((hsh e he).2 lv hlv).1
    have hok : ∀ e ∈ e0 :: rest, ElOK e := fun e he =>
      ⟨(hsh e he).1, fun hh => h3 ⟨e, he, hh⟩, fun lv hlv nd hnd => by rw [(((hsh e he).2 lv hlv).2 nd hnd).1, hC2 e he]⟩
    set D := diamOf (e0 :: rest) with hD
    -- the diameter
    have hdiam : (((e0 :: rest).map fld).map (fun x => x.2.2.2.2.2)).foldl Np.imax (((e0 :: rest).map fld).headD default).2.2.2.2.2 = (D : Int) := by
      have : ((e0 :: rest).map fld).map (fun x => x.2.2.2.2.2) = ((e0 :: rest).map (·.diameter)).map (fun k : ℕ => (k : Int)) := by
        rw [List.map_map, List.map_map]; rfl
      rw [this]
      show List.foldl Np.imax (e0.diameter : Int) _ = _
      rw [foldl_imax_cast, hD, diamOf]
      simp
    unfold GenD.add_concatenate
    simp only [hdiam]
    rw [gen_arr (e0 :: rest) (D : Int) (fun x => x.2.2.1) (0 : Int),
      gen_arr (e0 :: rest) (D : Int) (fun x => x.2.2.2.1) (Np.rep (0 : Int) (2 : Int)),
      gen_arr (e0 :: rest) (D : Int) (fun x => x.2.2.2.2.1) (Np.rep (0 : V) (2 : Int))]
    have hnod : ((e0 :: rest).map (fun e => Np.padNodeAxis ((fun x : GenD.Fld V => x.2.2.1) (fld e)) ((D : Int) - (e.diameter : Int)) (0 : Int))).flatten
        = ((e0 :: rest).map (fun e => nodesOf (padded D e))).flatten := by
      congr 1
      apply List.map_congr_left
      intro e he
      exact (nodesOf_padded D e (hlv e he)).symm
    have hchi : ((e0 :: rest).map (fun e => Np.padNodeAxis ((fun x : GenD.Fld V => x.2.2.2.1) (fld e)) ((D : Int) - (e.diameter : Int)) (Np.rep (0 : Int) (2 : Int)))).flatten
        = ((e0 :: rest).map (fun e => childOf (padded D e))).flatten := by
      congr 1
      apply List.map_congr_left
      intro e he
      exact (childOf_padded D e (hlv e he)).symm
    have hadd : ((e0 :: rest).map (fun e => Np.padNodeAxis ((fun x : GenD.Fld V => x.2.2.2.2.1) (fld e)) ((D : Int) - (e.diameter : Int)) (Np.rep (0 : V) (2 : Int)))).flatten
        = ((e0 :: rest).map (fun e => adderOf (padded D e))).flatten := by
      congr 1
      apply List.map_congr_left
      intro e he
      exact (adderOf_padded D e (hlv e he)).symm
    rw [hnod, hchi, hadd]
    have hfold := gen_fold D (e0 :: rest) (by simp) hok
    refine Prod.ext ?_ (Prod.ext ?_ (Prod.ext ?_ (Prod.ext ?_ (Prod.ext ?_ ?_))))
    · exact gen_units (e0 :: rest)
    · rfl
    · exact (nodesOf_go D (e0 :: rest)).symm
    · exact hfold
    · exact (adderOf_go D (e0 :: rest)).symm
    · rfl

end DsProofs.TieD

/-! ### non-vacuity: two concrete reachable diagrams over `ℕ` (one with root 1), concatenated in both orders -/
namespace DsProofs.TieD.ConcatExample
/-- `tree [0,1] 2` -/
def t : Diagram ℕ :=
  { units := [0, 1], C := 2, diameter := 2, root := 0,
    levels := [[⟨true, [0, 1], [0, 0]⟩, ⟨false, [0, 0], [0, 0]⟩], [⟨true, [0, 0], [0, 0]⟩, ⟨true, [0, 0], [0, 0]⟩]] }
/-- `t` restricted at its first variable with value 1: the root is node 1 -/
def b : Diagram ℕ :=
  { units := [1], C := 2, diameter := 2, root := 1, levels := [[⟨true, [0, 0], [0, 0]⟩, ⟨true, [0, 0], [0, 0]⟩]] }
/-- a chain of diameter 1 (so its levels are padded) -/
def c : Diagram ℕ := chain [5, 6] 2

theorem reach_t : Reach t := Reach.tree [0, 1] 2 t rfl
theorem reach_b : Reach b := Reach.restrict t b 0 1 reach_t rfl
theorem reach_c : Reach c := Reach.chain [5, 6] 2

def cb : Diagram ℕ :=
  { units := [5, 6, 1], C := 2, diameter := 2, root := 0,
    levels := [[⟨true, [0, 0], [0, 0]⟩, ⟨false, [0, 0], [0, 0]⟩], [⟨true, [1, 1], [0, 0]⟩, ⟨false, [0, 0], [0, 0]⟩],
               [⟨true, [0, 0], [0, 0]⟩, ⟨true, [0, 0], [0, 0]⟩]] }
def bc : Diagram ℕ :=
  { units := [1, 5, 6], C := 2, diameter := 2, root := 1,
    levels := [[⟨true, [0, 0], [0, 0]⟩, ⟨true, [0, 0], [0, 0]⟩], [⟨true, [0, 0], [0, 0]⟩, ⟨false, [0, 0], [0, 0]⟩],
               [⟨true, [0, 0], [0, 0]⟩, ⟨false, [0, 0], [0, 0]⟩]] }

theorem conc_cb : concatenate [c, b] = .ok cb := rfl
theorem conc_bc : concatenate [b, c] = .ok bc := rfl

example : GenD.add_concatenate (0 : ℕ) (2 : Int) ([c, b].map fld) = fld cb := by rfl
example : GenD.add_concatenate (0 : ℕ) (2 : Int) ([b, c].map fld) = fld bc := by rfl
example : GenD.add_concatenate (0 : ℕ) (2 : Int) ([c, b].map fld)
    = ([5, 6, 1], 0, [[1, 0], [1, 0], [1, 1]], [[[0, 0], [0, 0]], [[1, 1], [0, 0]], [[0, 0], [0, 0]]],
       [[[0, 0], [0, 0]], [[0, 0], [0, 0]], [[0, 0], [0, 0]]], 2) := by rfl
example : GenD.add_concatenate (0 : ℕ) (2 : Int) ([c, b].map fld) = fld cb :=
  concat_eq [c, b] cb (by intro e he; simp at he; rcases he with rfl | rfl; exacts [reach_c, reach_b]) conc_cb
example : GenD.add_concatenate (0 : ℕ) (2 : Int) ([b, c].map fld) = fld bc :=
  concat_eq [b, c] bc (by intro e he; simp at he; rcases he with rfl | rfl; exacts [reach_b, reach_c]) conc_bc
/-- three elements, two re-routings to a root that is not node 0 -/
example : GenD.add_concatenate (0 : ℕ) (2 : Int) ([c, b, b].map fld)
    = ([5, 6, 1, 1], 0, [[1, 0], [1, 0], [1, 1], [1, 1]],
       [[[0, 0], [0, 0]], [[1, 1], [0, 0]], [[1, 1], [1, 1]], [[0, 0], [0, 0]]],
       [[[0, 0], [0, 0]], [[0, 0], [0, 0]], [[0, 0], [0, 0]], [[0, 0], [0, 0]]], 2) := by rfl
example : ∃ d, concatenate [c, b, b] = .ok d ∧ GenD.add_concatenate (0 : ℕ) (2 : Int) ([c, b, b].map fld) = fld d :=
  ⟨_, rfl, by rfl⟩
end DsProofs.TieD.ConcatExample

#print axioms DsProofs.TieD.concat_eq
