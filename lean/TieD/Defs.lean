import GenD.Ops
import TieA.CallProofs
import Ds.Oracle
/-!
# TieD.Defs — the arrays of a model diagram, as the translated `ADD.restrict` / `ADD.modelcount` (`GenD/Ops.lean`) receive them
-/
open Ds Ds.Dd Ds.GenCall

namespace Ds.GenOps
variable {V : Type} [Add V] [Zero V]

/-- `self.nodes` -/
def nodesOf (levels : List (Level V)) : List (List Int) := levels.map (fun lv => lv.map (fun nd => if nd.active then (1 : Int) else 0))
/-- `self.units` -/
def unitsI (units : List Nat) : List Int := units.map (fun k : Nat => (k : Int))

/-- the five fields `(units, root, nodes, child, adder)` of a diagram object -/
def fieldsOf (d : Diagram V) : List Int × Int × List (List Int) × List (List (List Int)) × List (List (List V)) :=
  (unitsI d.units, (d.root : Int), nodesOf d.levels, childOf d.levels, adderOf d.levels)

/-- array shape: one level per unit, `diameter` nodes per level, `C` children and `C` edge values per node -/
def Shape (d : Diagram V) : Prop :=
  d.levels.length = d.units.length ∧ ∀ lv ∈ d.levels, lv.length = d.diameter ∧ ∀ nd ∈ lv, nd.child.length = d.C ∧ nd.adder.length = d.C

end Ds.GenOps
