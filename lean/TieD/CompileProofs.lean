import TieD.CompileLemmas
/-!
# TieD.CompileProofs — the translated `oracle.compile` (single-literal branch and assembly of the general branch) is the model's `compile`
-/
open Ds Ds.Dd Ds.GenCall Ds.GenOps Ds.Oracle

namespace DsProofs.TieD
variable {V : Type} [AddCommMonoid V]

/-- `provenance.data` as the 4-D integer array `[row][disjunct][conjunct][2]` -/
def dataI (p : Prov.P) : List (List (List (List Int))) := p.data.map (fun r => r.map (fun cj => cj.map (fun (l : Prov.Lit) => [l.1, l.2])))
/-- the pairs of units that occur together in a row (the model's stand-in for `pairings`) -/
def pairsP (p : Prov.P) : List (Nat × Nat) := (p.data.flatMap (fun r => pairsOf (dedupSorted (rowUnits r)))).eraseDups

/-- in the general branch the model only succeeds with 2 candidates (`concatenate` / `stack` reject anything else) -/
theorem nCands_two (p : Prov.P) (c : Compiled V) (h : compile (V := V) p = .ok c) (h2 : p.nConj ≠ 1) : p.nCands = 2 := by
  obtain ⟨vertical, hcat, hel⟩ := compile_general p c h h2
  cases vertical with
  | nil => cases hcat
  | cons e0 rest =>
    have hC0 : e0.C = 2 := by
      rw [Ds.Dd.concatenate_eq] at hcat
      by_cases h1 : ∃ e ∈ e0 :: rest, e.C ≠ e0.C
      · rw [if_pos h1] at hcat; cases hcat
      rw [if_neg h1] at hcat
      by_cases h2 : e0.C ≠ 2
      · rw [if_pos h2] at hcat; cases hcat
      exact not_not.mp h2
    obtain ⟨lvs, factors, rfl | hst⟩ := hel e0 (List.mem_cons_self)
    · exact hC0
    · cases hrep : List.replicate (p.nCands ^ factors.length) (chain (V := V) lvs p.nCands) with
      | nil => rw [hrep] at hst; cases hst
      | cons a t =>
        rw [hrep, Ds.Dd.stack_eq] at hst
        have ha : a = chain lvs p.nCands := (List.mem_replicate.mp (hrep ▸ List.mem_cons_self)).2
        by_cases h1 : a.C ≠ 2
        · rw [if_pos h1] at hst; cases hst
        have := not_not.mp h1
        rw [ha] at this
        exact this

/-- one row of `dataI` -/
def rowI (r : Prov.Row) : List (List (List Int)) := r.map (fun cj => cj.map (fun (l : Prov.Lit) => [l.1, l.2]))

/-- the first disjunct of a row of `dataI` -/
theorem get1_row (r : Prov.Row) :
    Np.get1 (rowI r) (0 : Int) = (r.getD 0 []).map (fun (l : Prov.Lit) => [l.1, l.2]) := by
  unfold rowI
  rw [get1_zero]
  cases r <;> rfl

/-- single-literal branch, one row: the stored literal is the model's location when it is non-negative (or absent) -/
theorem row1_eq (r : Prov.Row) (hl : ∀ l ∈ (r.getD 0 []).head?, 0 ≤ l.1 ∧ 0 ≤ l.2) :
    [(Np.get1 (Np.get1 (Np.get1 (rowI r) (0 : Int)) (0 : Int)) (0 : Int), (0 : Int),
      Np.get1 (Np.get1 (Np.get1 (rowI r) (0 : Int)) (0 : Int)) (1 : Int))]
      = locI [(((r.getD 0 []).getD 0 Prov.padLit).1.toNat, 0, ((r.getD 0 []).getD 0 Prov.padLit).2.toNat)] := by
  rw [get1_row]
  cases hL : r.getD 0 [] with
  | nil => rfl
  | cons l t =>
    rw [hL] at hl
    obtain ⟨h1, h2⟩ := hl l (by simp)
    have e : Np.get1 ((l :: t).map (fun (l : Prov.Lit) => [l.1, l.2])) (0 : Int) = [l.1, l.2] := get1_zero _
    rw [e]
    simp only [get1_pair_zero, get1_pair_one, locI, List.map_cons, List.map_nil, List.getD_cons_zero,
      Int.toNat_of_nonneg h1, Int.toNat_of_nonneg h2, Nat.cast_zero]

/-- the body of the row loop in the general branch of `GenD.compile` (`add` = the fields of the concatenated diagram): the literals of the first disjunct without -1,
`ValueError` when there is none, else `get_update_location` of their units and values -/
def genRow (add : GenD.Fld V) (row : List (List (List Int))) : Except String (List (Int × Int × Int)) :=
  if ((Np.get1 row (0 : Int)).filter (fun x => Np.get1 x (0 : Int) != (-1 : Int) && Np.get1 x (1 : Int) != (-1 : Int))).isEmpty
    then (throw "ValueError" : Except String _)
  else GenD.add_get_update_location add.1 add.2.1 add.2.2.1 add.2.2.2.1 (2 : Int)
    (((Np.get1 row (0 : Int)).filter (fun x => Np.get1 x (0 : Int) != (-1 : Int) && Np.get1 x (1 : Int) != (-1 : Int))).map (fun x => Np.get1 x (0 : Int)))
    (((Np.get1 row (0 : Int)).filter (fun x => Np.get1 x (0 : Int) != (-1 : Int) && Np.get1 x (1 : Int) != (-1 : Int))).map (fun x => Np.get1 x (1 : Int)))

/-- general branch, one row: on a reachable 2-candidate diagram, when the row's real literals are stored as non-negative integers with values below 2 (`hlit` — see
`CompileExample.row_value_two`, `row_unit_negative`, `row_value_negative` for what happens otherwise), the translated row step returns the model's location -/
theorem rowG_eq (d : Diagram V) (hr : Reach d) (hC : d.C = 2) (r : Prov.Row) (loc : List (ℕ × ℕ × ℕ))
    (hlit : ∀ l ∈ r.getD 0 [], l.1 ≠ -1 → l.2 ≠ -1 → 0 ≤ l.1 ∧ 0 ≤ l.2 ∧ l.2 < 2)
    (h : d.getUpdateLocation (rowLits r) = .ok loc) :
    genRow (fld d) (rowI r) = .ok (locI loc) := by
  unfold genRow
  rw [get1_row, List.filter_map]
  have hf : ((fun x : List Int => Np.get1 x (0 : Int) != (-1 : Int) && Np.get1 x (1 : Int) != (-1 : Int)) ∘ (fun (l : Prov.Lit) => [l.1, l.2]))
      = (fun (l : Prov.Lit) => l.1 != -1 && l.2 != -1) := rfl
  rw [hf]
  have hrl : rowLits r = ((r.getD 0 []).filter (fun l => l.1 != -1 && l.2 != -1)).map (fun l => (l.1.toNat, l.2.toNat)) := rfl
  have hmem : ∀ l ∈ (r.getD 0 []).filter (fun l => l.1 != -1 && l.2 != -1), 0 ≤ l.1 ∧ 0 ≤ l.2 ∧ l.2 < 2 := by
    intro l hl
    rw [List.mem_filter] at hl
    simp only [bne_iff_ne, ne_eq, Bool.and_eq_true] at hl
    exact hlit l hl.1 hl.2.1 hl.2.2
  generalize (r.getD 0 []).filter (fun l => l.1 != -1 && l.2 != -1) = A at hrl hmem
  cases A with
  | nil =>
    rw [hrl] at h
    unfold Diagram.getUpdateLocation at h
    simp only [List.map_nil, List.any_nil, Bool.false_eq_true, if_false, List.mergeSort_nil] at h
    cases h
  | cons a t =>
    rw [if_neg (by simp)]
    have key := getloc_eq d (rowLits r) loc hr (by
      intro uv huv
      rw [hrl, List.mem_map] at huv
      obtain ⟨l, hl, rfl⟩ := huv
      have := hmem l hl
      rw [hC]; show l.2.toNat < 2; omega) h
    rw [hC, Nat.cast_ofNat] at key
    rw [← key, hrl, List.map_map, List.map_map, List.map_map, List.map_map]
    congr 1
    · apply List.map_congr_left
      intro l hl
      have := hmem l hl
      simp only [Function.comp_apply, get1_pair_zero, Int.toNat_of_nonneg this.1]
    · apply List.map_congr_left
      intro l hl
      have := hmem l hl
      simp only [Function.comp_apply, get1_pair_one, Int.toNat_of_nonneg this.2.1]


theorem bind_ok_eq {α β : Type} (x : Except String α) (a : α) (f : α → Except String β) (h : x = .ok a) : (x >>= f) = f a := by
  rw [h]; rfl

/-- the body of the component loop in the general branch of `GenD.compile`, with 2 candidates: a chain over the sorted leaves of the component, stacked `2 ^ k` times under
its `k` sorted factors when there are any -/
def genVert (leaf_units component : List Int) : Except String (GenD.Fld V) :=
  letI : Inhabited V := ⟨0⟩
  if Np.len1 ((component.filter (fun u => !leaf_units.contains u)).mergeSort (fun a b => decide (a ≤ b))) == (0 : Int) then
    (pure (GenD.construct_chain (0 : V) ((component.filter (fun u => leaf_units.contains u)).mergeSort (fun a b => decide (a ≤ b))) (2 : Int)) : Except String (GenD.Fld V))
  else GenD.add_stack (0 : V) ((component.filter (fun u => !leaf_units.contains u)).mergeSort (fun a b => decide (a ≤ b)))
    ((Np.product (List.replicate ((component.filter (fun u => !leaf_units.contains u)).mergeSort (fun a b => decide (a ≤ b))).length (Np.range (0 : Int) (2 : Int) (1 : Int)))).map
      (fun _ => GenD.construct_chain (0 : V) ((component.filter (fun u => leaf_units.contains u)).mergeSort (fun a b => decide (a ≤ b))) (2 : Int)))
    (2 : Int)

/-- general branch, one component: the model's components are sorted (`components_pairwise`), so `sorted(...)` of the source leaves the model's order-preserving `filter`
as it is; a chain over its leaves (`chain_eq`), stacked under its factors when it has any (`stack_eq`) -/
theorem vert_eq (leaves comp : List ℕ) (e : Diagram V) (hs : comp.Pairwise (· ≤ ·)) (h : vertOf V 2 leaves comp = .ok e) :
    genVert (unitsI leaves) (unitsI comp) = .ok (fld e) := by
  unfold genVert
  let _ : Inhabited V := ⟨0⟩
  show (if Np.len1 (((unitsI comp).filter (fun u => !(unitsI leaves).contains u)).mergeSort (fun a b => decide (a ≤ b))) == (0 : Int) then
        (pure (GenD.construct_chain (0 : V) (((unitsI comp).filter (fun u => (unitsI leaves).contains u)).mergeSort (fun a b => decide (a ≤ b))) (2 : Int))
          : Except String (GenD.Fld V))
      else GenD.add_stack (0 : V) (((unitsI comp).filter (fun u => !(unitsI leaves).contains u)).mergeSort (fun a b => decide (a ≤ b)))
        ((Np.product (List.replicate (((unitsI comp).filter (fun u => !(unitsI leaves).contains u)).mergeSort (fun a b => decide (a ≤ b))).length
            (Np.range (0 : Int) (2 : Int) (1 : Int)))).map
          (fun _ => GenD.construct_chain (0 : V) (((unitsI comp).filter (fun u => (unitsI leaves).contains u)).mergeSort (fun a b => decide (a ≤ b))) (2 : Int)))
        (2 : Int))
      = .ok (fld e)
  rw [unitsI_filter_not_contains, unitsI_filter_contains, mergeSort_unitsI _ (hs.filter _), mergeSort_unitsI _ (hs.filter _), range_two,
    map_const_replicate, length_product_replicate]
  have hc : GenD.construct_chain (0 : V) (unitsI (comp.filter (fun u => leaves.contains u))) (2 : Int)
      = fld (chain (comp.filter (fun u => leaves.contains u)) 2) := chain_eq (V := V) _ 2
  rw [hc]
  have hlen : (unitsI (comp.filter (fun u => !leaves.contains u))).length = (comp.filter (fun u => !leaves.contains u)).length := by
    unfold unitsI; rw [List.length_map]
  rw [hlen]
  unfold vertOf at h
  by_cases hF : comp.filter (fun u => !leaves.contains u) = []
  · rw [hF] at h ⊢
    simp only [List.isEmpty_nil, if_true, pure, Except.pure, Except.ok.injEq] at h
    rw [← h]
    rfl
  · have hne : (comp.filter (fun u => !leaves.contains u)).isEmpty = false := by
      cases hq : comp.filter (fun u => !leaves.contains u) with
      | nil => exact absurd hq hF
      | cons a t => rfl
    rw [hne] at h
    simp only [Bool.false_eq_true, if_false] at h
    have hl1 : ¬ ((Np.len1 (unitsI (comp.filter (fun u => !leaves.contains u))) == (0 : Int)) = true) := by
      unfold Np.len1
      rw [hlen, beq_iff_eq]
      have : (comp.filter (fun u => !leaves.contains u)).length ≠ 0 := fun h0 => hF (List.length_eq_zero_iff.mp h0)
      omega
    rw [if_neg hl1]
    have key := stack_eq (V := V) (comp.filter (fun u => !leaves.contains u)) _ e (comp.filter (fun u => leaves.contains u)).length
      (fun e' he' => by rw [(List.mem_replicate.mp he').2]; exact Reach.chain _ _)
      (fun e' he' => by rw [(List.mem_replicate.mp he').2]; exact ⟨rfl, rfl⟩) h
    rw [List.map_replicate] at key
    exact key

/-- whenever the model's `compile` succeeds, the translated `compile` — given the model's components and leaf units for its untranslated graph part — succeeds with the same
diagram fields and the same locations, provided the literals are stored the way the model reads them:
* `hlit1` (single-literal branch): the model reads the first literal of a row with `.toNat` (a missing literal as the padding `(-1, -1)`, i.e. `(0, 0)` — which is also what
  the translated code's defaulting index gives), the code returns the integers as stored; so the first literal of the first disjunct, when there is one, must be non-negative
  (`CompileExample.simple_unit_negative`, `simple_value_negative`: the model succeeds and the translation returns a different location otherwise);
* `hlitG` (general branch): the model reads the literals without -1 with `.toNat` and never checks the value against the number of candidates, the code looks the stored
  integers up (`KeyError` for a negative unit, `IndexError` for a value ≥ 2, a negative value comes back as stored); so those literals must be non-negative with value `< 2`
  (`CompileExample.row_value_two`, `row_unit_negative`, `row_value_negative` for the row step; `pG1`, `pG2`, `pG3` for whole runs).
Nothing else is assumed: 2 candidates in the general branch follow from the model's success (`nCands_two`), the single-literal branch works for any number of candidates, and
`sorted(...)` is the identity on the model's components (`components_pairwise`). -/
theorem compile_eq (p : Prov.P) (c : Compiled V) (h : compile (V := V) p = .ok c)
    (hlit1 : p.nConj = 1 → ∀ r ∈ p.data, ∀ l ∈ (r.getD 0 []).head?, 0 ≤ l.1 ∧ 0 ≤ l.2)
    (hlitG : p.nConj ≠ 1 → ∀ r ∈ p.data, ∀ l ∈ r.getD 0 [], l.1 ≠ -1 → l.2 ≠ -1 → 0 ≤ l.1 ∧ 0 ≤ l.2 ∧ l.2 < 2) :
    letI : Inhabited V := ⟨0⟩
    GenD.compile (0 : V) (p.nDisj : Int) (p.nConj : Int) (p.nUnits : Int) (p.nCands : Int) (dataI p)
        ((components p.nUnits (pairsP p)).map unitsI) (unitsI (leafUnits p.nUnits (pairsP p)))
      = .ok (fld c.add, c.locs.map locI) := by
  let _ : Inhabited V := ⟨0⟩
  show GenD.compile (0 : V) (p.nDisj : Int) (p.nConj : Int) (p.nUnits : Int) (p.nCands : Int) (dataI p)
        ((components p.nUnits (pairsP p)).map unitsI) (unitsI (leafUnits p.nUnits (pairsP p)))
      = .ok (fld c.add, c.locs.map locI)
  have hD := compile_nDisj p c h
  unfold GenD.compile
  have hd : ¬ ((p.nDisj : Int) > 1) := by omega
  rw [if_neg hd]
  have hdata : dataI p = p.data.map rowI := rfl
  by_cases h2 : p.nConj = 1
  · have hb : (((p.nConj : Int) == (1 : Int)) = true) := by rw [h2]; rfl
    simp only [hb, if_true]
    rw [compile_chain p hD h2] at h
    simp only [Except.ok.injEq] at h
    subst h
    rw [range_unitsI]
    have hc : GenD.construct_chain (0 : V) (unitsI (List.range p.nUnits)) (p.nCands : Int) = fld (chain (List.range p.nUnits) p.nCands) :=
      chain_eq (V := V) _ _
    rw [hc]
    show Except.ok _ = Except.ok _
    congr 2
    rw [hdata, List.map_map]
    unfold chainLocs
    rw [List.map_map]
    apply List.map_congr_left
    intro r hr
    exact row1_eq r (hlit1 h2 r hr)
  · have hb : ¬ (((p.nConj : Int) == (1 : Int)) = true) := by
      rw [beq_iff_eq]; omega
    simp only [hb, if_false, Bool.false_eq_true]
    have hC := nCands_two p c h h2
    obtain ⟨vertical, hv, hcat, hlocs⟩ := compile_general' p c h h2
    obtain ⟨hR, hC2, _, _⟩ := compile_reach p c h hC
    rw [hC] at hv ⊢
    rw [Nat.cast_ofNat]
    have hvR : ∀ e ∈ vertical, Reach e := by
      intro e he
      obtain ⟨comp, _, hce⟩ := forall₂_exists_left (mapM_forall₂ _ _ _ hv) e he
      exact vertOf_reach _ _ e hce
    have hvert := mapM_ok_of_forall₂ (fun comp e => vertOf V 2 (leafUnits p.nUnits (pairsOfP p)) comp = .ok e)
      (genVert (V := V) (unitsI (leafUnits p.nUnits (pairsP p))))
      unitsI fld (components p.nUnits (pairsP p)) vertical (mapM_forall₂ _ _ _ hv)
      (fun comp hcomp e hce => vert_eq _ comp e (components_pairwise _ _ comp hcomp) hce)
    have hloc := mapM_ok_of_forall₂ (fun r loc => c.add.getUpdateLocation (rowLits r) = .ok loc) (genRow (fld c.add))
      rowI locI p.data c.locs (mapM_forall₂ _ _ _ hlocs)
      (fun r hr loc hrl => rowG_eq c.add hR hC2 r loc (hlitG h2 r hr) hrl)
    have hcc := concat_eq vertical c.add hvR hcat
    rw [← hdata] at hloc
    refine (bind_ok_eq _ _ _ hvert).trans ?_
    rw [hcc]
    refine (bind_ok_eq _ _ _ hloc).trans ?_
    rfl

/-- the single-literal branch on its own -/
theorem compile_eq_simple (p : Prov.P) (c : Compiled V) (h : compile (V := V) p = .ok c) (h1 : p.nConj = 1)
    (hlit : ∀ r ∈ p.data, ∀ l ∈ (r.getD 0 []).head?, 0 ≤ l.1 ∧ 0 ≤ l.2) :
    letI : Inhabited V := ⟨0⟩
    GenD.compile (0 : V) (p.nDisj : Int) (p.nConj : Int) (p.nUnits : Int) (p.nCands : Int) (dataI p)
        ((components p.nUnits (pairsP p)).map unitsI) (unitsI (leafUnits p.nUnits (pairsP p)))
      = .ok (fld c.add, c.locs.map locI) :=
  compile_eq p c h (fun _ => hlit) (fun h2 => absurd h1 h2)

end DsProofs.TieD

namespace DsProofs.TieD.CompileExample
def agree (p : Prov.P) : Bool :=
  match GenD.compile (0 : Int) (p.nDisj : Int) (p.nConj : Int) (p.nUnits : Int) (p.nCands : Int) (dataI p)
        ((components p.nUnits (pairsP p)).map unitsI) (unitsI (leafUnits p.nUnits (pairsP p))), compile (V := Int) p with
  | .ok x, .ok c => x == (fld c.add, c.locs.map locI)
  | _, _ => false
def p1 : Prov.P := { data := [[[(0, 1)]], [[(2, 1)]], [[(1, 1)]]], nDisj := 1, nConj := 1, nUnits := 3 }
def p2 : Prov.P := { data := [[[(0, 1), (1, 1)]], [[(2, 1), (1, 1)]], [[(3, 1), (4, 1)]], [[(3, 1), (-1, -1)]]], nDisj := 1, nConj := 2, nUnits := 5 }
def p3 : Prov.P := { data := [[[(0, 1), (1, 1), (2, 1)]], [[(2, 1), (3, 1), (-1, -1)]], [[(4, 1), (-1, -1), (-1, -1)]], [[(5, 1), (4, 1), (-1, -1)]]], nDisj := 1, nConj := 3, nUnits := 6 }
/-- (`agree p1`, `agree p2`, `agree p3` evaluate to `true` with `#eval`; `List.mergeSort` does not reduce under `decide`, the single-literal branch does not use it) -/
example : agree p1 = true := by decide

/-! ### the hypotheses on the literals are needed -/

def modelOk (p : Prov.P) : Bool := match compile (V := Int) p with | .ok _ => true | .error _ => false

def pNegU : Prov.P := { data := [[[(-2, 1)]]], nDisj := 1, nConj := 1, nUnits := 3 }
def pNegV : Prov.P := { data := [[[(0, -2)]]], nDisj := 1, nConj := 1, nUnits := 3 }
/-- without `hlit1`: a negative unit is read as unit 0 by the model and returned as stored by the code -/
theorem simple_unit_negative : modelOk pNegU = true ∧ agree pNegU = false := by decide
/-- without `hlit1`: a negative value is read as 0 by the model and returned as stored by the code -/
theorem simple_value_negative : modelOk pNegV = true ∧ agree pNegV = false := by decide

/-- the row step of the general branch on the chain over units 0, 1 -/
def dEx : Diagram Int := chain [0, 1] 2
def rowOk (r : Prov.Row) : Bool := match dEx.getUpdateLocation (rowLits r) with | .ok _ => true | .error _ => false
def rowAgree (r : Prov.Row) : Bool :=
  match genRow (fld dEx) (rowI r), dEx.getUpdateLocation (rowLits r) with
  | .ok x, .ok loc => x == locI loc
  | _, _ => false
example : rowOk [[(1, 1)]] = true ∧ rowAgree [[(1, 1)]] = true := by decide +kernel
/-- without `l.2 < 2` in `hlitG`: the model returns the edge `(0, 0, 2)`, the code fails with IndexError -/
theorem row_value_two : rowOk [[(0, 2)]] = true ∧ rowAgree [[(0, 2)]] = false := by decide +kernel
/-- without `0 ≤ l.1` in `hlitG`: the model reads unit 0, the code fails with KeyError -/
theorem row_unit_negative : rowOk [[(-2, 1)]] = true ∧ rowAgree [[(-2, 1)]] = false := by decide +kernel
/-- without `0 ≤ l.2` in `hlitG`: the model returns the edge `(0, 0, 0)`, the code `(0, 0, -2)` -/
theorem row_value_negative : rowOk [[(0, -2)]] = true ∧ rowAgree [[(0, -2)]] = false := by decide +kernel

/-- whole runs through the general branch on which the model succeeds and the translation differs (`modelOk pG_ = true`, `agree pG_ = false` with `#eval`; not `decide`d, for
`List.mergeSort`): a value 2, a negative unit, a negative value -/
def pG1 : Prov.P := { data := [[[(0, 1), (1, 1)]], [[(0, 2), (-1, -1)]]], nDisj := 1, nConj := 2, nUnits := 2 }
def pG2 : Prov.P := { data := [[[(0, 1), (1, 1)]], [[(-2, 1), (-1, -1)]]], nDisj := 1, nConj := 2, nUnits := 2 }
def pG3 : Prov.P := { data := [[[(0, 1), (1, 1)]], [[(0, -2), (-1, -1)]]], nDisj := 1, nConj := 2, nUnits := 2 }
end DsProofs.TieD.CompileExample

#print axioms DsProofs.TieD.compile_eq
#print axioms DsProofs.TieD.compile_eq_simple
