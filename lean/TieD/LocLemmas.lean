import TieD.ConcatProofs
/-!
# TieD.LocLemmas — list facts for `TieD.LocProofs` (sorted sets of integers, `Np.getE` at natural indices, `mapM` in `Except String`)
-/
open Ds Ds.Dd Ds.GenCall Ds.GenOps

namespace DsProofs.TieD
set_option linter.unusedSectionVars false

/-! ### `mapM` in `Except String` -/

theorem mapM_ok_of_forall {ι γ : Type} (f : ι → Except String γ) (g : ι → γ) (l : List ι)
    (h : ∀ x ∈ l, f x = .ok (g x)) : l.mapM f = .ok (l.map g) := by
  induction l with
  | nil => rfl
  | cons a t ih =>
    rw [List.mapM_cons, h a (List.mem_cons_self), ih (fun x hx => h x (List.mem_cons_of_mem _ hx))]
    rfl

/-! ### sorted duplicate-free lists -/

theorem eraseDups_map_inj {α β : Type} [BEq α] [LawfulBEq α] [BEq β] [LawfulBEq β] (f : α → β) (hf : Function.Injective f) (l : List α) :
    (l.map f).eraseDups = l.eraseDups.map f := by
  induction hn : l.length using Nat.strong_induction_on generalizing l with
  | _ n ih =>
    cases l with
    | nil => rfl
    | cons a t =>
      rw [List.map_cons, List.eraseDups_cons, List.eraseDups_cons, List.map_cons, List.filter_map]
      have e : ((fun b : β => !b == f a) ∘ f) = (fun b : α => !b == a) := by
        funext b
        simp only [Function.comp_apply]
        congr 1
        rw [Bool.eq_iff_iff]; simp only [beq_iff_eq]; exact hf.eq_iff
      rw [e]
      congr 1
      exact ih _ (by rw [← hn]; exact Nat.lt_succ_of_le (List.length_filter_le _ _)) _ rfl

theorem eraseDups_of_nodup {α : Type} [BEq α] [LawfulBEq α] (l : List α) (h : l.Pairwise (· ≠ ·)) : l.eraseDups = l := by
  induction l with
  | nil => rfl
  | cons a t ih =>
    rw [List.pairwise_cons] at h
    rw [List.eraseDups_cons]
    congr 1
    rw [List.filter_eq_self.mpr, ih h.2]
    intro b hb
    simp only [Bool.not_eq_eq_eq_not, Bool.not_true, beq_eq_false_iff_ne, ne_eq]
    exact fun e => h.1 b hb e.symm

theorem pySet_cast (l : List ℕ) : Np.pySet (l.map (fun k : ℕ => (k : Int))) = (dedupSorted l).map (fun k : ℕ => (k : Int)) := by
  unfold Np.pySet dedupSorted
  rw [← List.map_mergeSort (r := fun a b : ℕ => decide (a ≤ b)), eraseDups_map_inj _ Nat.cast_injective]
  intro a _ b _
  simp only [Nat.cast_le]

theorem dedupSorted_of_sorted (l : List ℕ) (h : l.Pairwise (· < ·)) : dedupSorted l = l := by
  unfold dedupSorted
  rw [List.mergeSort_of_pairwise, eraseDups_of_nodup]
  · exact h.imp (fun hab => Nat.ne_of_lt hab)
  · exact h.imp (fun hab => by simpa using Nat.le_of_lt hab)

theorem mem_dedupSorted {l : List ℕ} {x : ℕ} : x ∈ dedupSorted l ↔ x ∈ l := by
  unfold dedupSorted
  rw [List.mem_eraseDups, List.mem_mergeSort]

theorem dedupSorted_singleton (a : ℕ) : dedupSorted [a] = [a] := dedupSorted_of_sorted [a] (List.pairwise_singleton _ _)

/-! ### `Np.getE` at natural indices -/

theorem getE_natCast {β : Type} (l : List β) (k : ℕ) (h : k < l.length) : Np.getE l (k : Int) = .ok l[k] := by
  unfold Np.getE
  rw [Np.pyIdx_natCast, if_pos h]
  simp only [List.getElem?_eq_getElem h]
  rfl

theorem getE_natCast_none {β : Type} (l : List β) (k : ℕ) (h : l.length ≤ k) : Np.getE l (k : Int) = .error "IndexError" := by
  unfold Np.getE
  rw [Np.pyIdx_natCast, if_neg (by omega)]
  rfl

theorem map_getD_range {α : Type} (l : List α) (d : α) : (List.range l.length).map (fun c => l.getD c d) = l := by
  apply List.ext_getElem
  · simp
  · intro i h1 h2
    simp [List.getD_eq_getElem?_getD, h2]

theorem mapM_map_ok_of_forall {ι κ γ : Type} (f : κ → Except String γ) (c : ι → κ) (g : ι → γ) (l : List ι)
    (h : ∀ x ∈ l, f (c x) = .ok (g x)) : (l.map c).mapM f = .ok (l.map g) := by
  induction l with
  | nil => rfl
  | cons a t ih =>
    rw [List.map_cons, List.mapM_cons, h a (List.mem_cons_self), ih (fun x hx => h x (List.mem_cons_of_mem _ hx))]
    rfl

theorem flatten_map_cast {ι : Type} (F : ι → List ℕ) (l : List ι) :
    (l.map (fun j => (F j).map (fun k : ℕ => (k : Int)))).flatten = (l.flatMap F).map (fun k : ℕ => (k : Int)) := by
  induction l with
  | nil => rfl
  | cons a t ih => simp only [List.map_cons, List.flatten_cons, List.flatMap_cons, List.map_append, ih]

end DsProofs.TieD
