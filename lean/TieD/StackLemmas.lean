import TieD.ConcatProofs
/-!
# TieD.StackLemmas — helper lemmas for `TieD.StackProofs` (the translated `ADD.stack`)
-/
open Ds Ds.Dd Ds.GenCall Ds.GenOps

namespace DsProofs.TieD
set_option linter.unusedSectionVars false
set_option linter.unusedVariables false

theorem ok_bind {ε α β : Type} (x : α) (f : α → Except ε β) : (Except.ok x >>= f) = f x := rfl

/-- the translated `ADD.stack` as the sequence of its steps -/
theorem add_stack_steps {ν : Type} [Inhabited ν] (vzero : ν) (factors : List Int) (elements_list : List (GenD.Fld ν))
    (N1 N2 N3 : List (List Int)) (C1 C2 C3 : List (List (List Int))) (A3 : List (List (List ν))) (top : Int)
    (h0 : (Np.len1 elements_list != Np.ipow (2 : Int) (Np.len1 factors)) = false)
    (h1 : (Np.range (0 : Int) (Np.len1 factors - (1 : Int)) (1 : Int)).foldlM (fun (st_ : (List (List Int)) × (List (List (List Int)))) (i : Int) => do
      let result_nodes ← Np.assignRowPrefix st_.1 i (Np.ipow (2 : Int) i) (Np.rep (1 : Int) (Np.ipow (2 : Int) i))
      let result_child ← (Np.range (0 : Int) (2 : Int) (1 : Int)).foldlM (fun (result_child : List (List (List Int))) (c : Int) =>
          Np.assignColPrefix result_child (2 : Int) i (Np.ipow (2 : Int) i) c (Np.range c (Np.ipow (2 : Int) (i + (1 : Int)) + c) (2 : Int))) st_.2
      pure (result_nodes, result_child))
        (Np.full2L (Np.len1 (factors ++ (elements_list.headD default).1)) (Np.sumI (elements_list.map (fun x => x.2.2.2.2.2))) (0 : Int),
         Np.full3 (Np.len1 (factors ++ (elements_list.headD default).1)) (Np.sumI (elements_list.map (fun x => x.2.2.2.2.2))) (2 : Int) (0 : Int))
        = .ok (N1, C1))
    (h2 : Np.powBound (2 : Int) (Np.len1 factors - (1 : Int)) = .ok top)
    (h3 : Np.assignRowPrefix N1 (Np.len1 factors - (1 : Int)) top [(1 : Int)] = .ok N2)
    (h4 : (Np.range (0 : Int) (2 : Int) (1 : Int)).foldlM (fun (result_child : List (List (List Int))) (c : Int) =>
      Np.assignColPrefix result_child (2 : Int) (Np.len1 factors - (1 : Int)) top c
        (((Np.range (0 : Int) (Np.len1 elements_list) (1 : Int)).filter (fun i => i % (2 : Int) == c)).map (fun i => Np.get1
          (List.zipWith (fun (x : GenD.Fld ν) (o : Int) => x.2.1 + o) elements_list
            ((0 : Int) :: Np.cumsumI ((elements_list.map (fun x => x.2.2.2.2.2)).dropLast))) i))) C1 = .ok C2)
    (h5 : Np.concatAxis1Into (fun _ => true) N2 (Np.len1 factors) (elements_list.map (fun x => x.2.2.1)) = .ok N3)
    (h6 : Np.concatAxis1Into (fun (nd : List Int) => nd.length == 2) C2 (Np.len1 factors)
      ((Np.enumerateFrom (0 : Int) elements_list).map (fun ix => Np.addAll3 ix.2.2.2.2.1
        (Np.get1 ((0 : Int) :: Np.cumsumI ((elements_list.map (fun x => x.2.2.2.2.2)).dropLast)) ix.1))) = .ok C3)
    (h7 : Np.concatAxis1Into (fun (nd : List ν) => nd.length == 2)
      (Np.full3 (Np.len1 (factors ++ (elements_list.headD default).1)) (Np.sumI (elements_list.map (fun x => x.2.2.2.2.2))) (2 : Int) vzero)
      (Np.len1 factors) (elements_list.map (fun x => x.2.2.2.2.1)) = .ok A3) :
    GenD.add_stack vzero factors elements_list (2 : Int)
      = .ok (factors ++ (elements_list.headD default).1, (0 : Int), N3, C3, A3, Np.sumI (elements_list.map (fun x => x.2.2.2.2.2))) := by
  unfold GenD.add_stack
  simp only [h0]
  rw [h1]
  simp only [ok_bind]
  rw [h2]
  simp only [ok_bind]
  rw [h3]
  simp only [ok_bind]
  rw [h4]
  simp only [ok_bind]
  rw [h5]
  simp only [ok_bind]
  rw [h6]
  simp only [ok_bind]
  rw [h7]
  rfl

/-! ### the primitives at natural indices -/

theorem ipow_two_cast (j : ℕ) : Np.ipow (2 : Int) (j : Int) = ((2 ^ j : ℕ) : Int) := by
  unfold Np.ipow; simp

theorem ipow_two_cast_succ (j : ℕ) : Np.ipow (2 : Int) ((j : Int) + 1) = ((2 ^ (j + 1) : ℕ) : Int) := by
  have : ((j : Int) + 1) = ((j + 1 : ℕ) : Int) := by push_cast; rfl
  rw [this, ipow_two_cast]

theorem range_two : Np.range (0 : Int) (2 : Int) (1 : Int) = [0, 1] := by decide

/-- `range(c, 2p + c, 2)` -/
theorem range_step_two (c : Int) (p : ℕ) :
    Np.range c (((2 * p : ℕ) : Int) + c) (2 : Int) = (List.range p).map (fun t : ℕ => c + (t : Int) * 2) := by
  unfold Np.range
  rw [if_pos (by omega)]
  have : ((((2 * p : ℕ) : Int) + c - c + 2 - 1) / 2).toNat = p := by omega
  rw [this]

theorem assignRowPrefix_full {β : Type} (A B : List (List β)) (row vals : List β) (i m : ℕ) (hi : i = A.length)
    (hv : vals.length = m) (hm : m ≤ row.length) :
    Np.assignRowPrefix (A ++ row :: B) (i : Int) (m : Int) vals = .ok (A ++ (vals ++ row.drop m) :: B) := by
  subst hi
  unfold Np.assignRowPrefix
  rw [Np.pyIdx_natCast, if_pos (by simp)]
  simp only [getD_append_cons, set_append_cons]
  unfold Np.assignPrefix
  have : min ((m : Int)).toNat row.length = m := by simp [hm]
  simp only [this]
  rw [if_pos hv]
  rfl

theorem assignRowPrefix_bcast {β : Type} (A B : List (List β)) (row : List β) (x : β) (i m : ℕ) (hi : i = A.length)
    (hm : m ≤ row.length) :
    Np.assignRowPrefix (A ++ row :: B) (i : Int) (m : Int) [x] = .ok (A ++ (List.replicate m x ++ row.drop m) :: B) := by
  subst hi
  unfold Np.assignRowPrefix
  rw [Np.pyIdx_natCast, if_pos (by simp)]
  simp only [getD_append_cons, set_append_cons]
  unfold Np.assignPrefix
  have : min ((m : Int)).toNat row.length = m := by simp [hm]
  simp only [this]
  by_cases h1 : [x].length = m
  · rw [if_pos h1]
    have : m = 1 := by simpa using h1.symm
    subst this
    rfl
  · rw [if_neg h1]
    rfl

theorem assignColPrefix_full {β : Type} (A B : List (List (List β))) (lv : List (List β)) (vals : List β) (i m c : ℕ) (hi : i = A.length)
    (hc : c < 2) (hv : vals.length = m) (hm : m ≤ lv.length) :
    Np.assignColPrefix (A ++ lv :: B) (2 : Int) (i : Int) (m : Int) (c : Int) vals
      = .ok (A ++ (List.zipWith (fun (nd : List β) v => nd.set c v) (lv.take m) vals ++ lv.drop m) :: B) := by
  subst hi
  unfold Np.assignColPrefix
  have h2 : ((2 : Int)).toNat = 2 := rfl
  rw [h2, Np.pyIdx_natCast, Np.pyIdx_natCast, if_pos (by simp), if_pos hc]
  simp only [getD_append_cons, set_append_cons]
  have : min ((m : Int)).toNat lv.length = m := by simp [hm]
  simp only [this]
  rw [if_pos hv]

/-! ### the rows of the header -/
section
variable {V : Type} [AddCommMonoid V]

/-- child `c` of node `j` of header level `i` -/
def hval (k : ℕ) (last : ℕ → ℕ → ℕ) (i j c : ℕ) : ℕ := if i + 1 < k then 2 * j + c else last j c

theorem nodes_row (k W i : ℕ) (last : ℕ → ℕ → ℕ) (h : 2 ^ i ≤ W) :
    List.replicate (2 ^ i) (1 : Int) ++ (List.replicate W (0 : Int)).drop (2 ^ i) = flags (hdrLevel (V := V) k W last i) := by
  unfold flags hdrLevel
  apply List.ext_getElem
  · simp; omega
  · intro j h1 h2
    simp only [List.getElem_map, List.getElem_range]
    by_cases hj : j < 2 ^ i
    · rw [List.getElem_append_left (by simpa using hj)]
      simp [hj]
    · rw [List.getElem_append_right (by simpa using hj)]
      simp [hj, blank]

theorem child_row (k W i : ℕ) (last : ℕ → ℕ → ℕ) (h : 2 ^ i ≤ W) (Z : List (List Int)) (hZ : Z = List.replicate W [0, 0])
    (v0 v1 : List Int) (hv0 : v0 = (List.range (2 ^ i)).map (fun j => ((hval k last i j 0 : ℕ) : Int)))
    (hv1 : v1 = (List.range (2 ^ i)).map (fun j => ((hval k last i j 1 : ℕ) : Int))) :
    List.zipWith (fun (nd : List Int) v => nd.set 1 v)
        ((List.zipWith (fun (nd : List Int) v => nd.set 0 v) (Z.take (2 ^ i)) v0 ++ Z.drop (2 ^ i)).take (2 ^ i)) v1
      ++ (List.zipWith (fun (nd : List Int) v => nd.set 0 v) (Z.take (2 ^ i)) v0 ++ Z.drop (2 ^ i)).drop (2 ^ i)
      = crow (hdrLevel (V := V) k W last i) := by
  subst hZ hv0 hv1
  have hl : (List.zipWith (fun (nd : List Int) v => nd.set 0 v) ((List.replicate W [0, 0]).take (2 ^ i))
      ((List.range (2 ^ i)).map (fun j => ((hval k last i j 0 : ℕ) : Int)))).length = 2 ^ i := by
    simp [h]
  rw [List.take_left' hl, List.drop_left' hl]
  unfold crow hdrLevel
  apply List.ext_getElem
  · simp [h]
  · intro j h1 h2
    simp only [List.getElem_map, List.getElem_range]
    by_cases hj : j < 2 ^ i
    · rw [List.getElem_append_left (by simpa [h] using hj)]
      simp [hj, hval, List.range_succ]
    · rw [List.getElem_append_right (by simpa [h] using hj)]
      simp [hj, blank, List.replicate]

/-- one pass of the translated header loop -/
def hbody (st_ : (List (List Int)) × (List (List (List Int)))) (i : Int) : Except String ((List (List Int)) × (List (List (List Int)))) := do
  let result_nodes ← Np.assignRowPrefix st_.1 i (Np.ipow (2 : Int) i) (Np.rep (1 : Int) (Np.ipow (2 : Int) i))
  let result_child ← (Np.range (0 : Int) (2 : Int) (1 : Int)).foldlM (fun (result_child : List (List (List Int))) (c : Int) =>
      Np.assignColPrefix result_child (2 : Int) i (Np.ipow (2 : Int) i) c (Np.range c (Np.ipow (2 : Int) (i + (1 : Int)) + c) (2 : Int))) st_.2
  pure (result_nodes, result_child)

theorem range_vals (k : ℕ) (last : ℕ → ℕ → ℕ) (i c : ℕ) (hi : i + 1 < k) :
    Np.range (c : Int) (Np.ipow (2 : Int) ((i : Int) + 1) + (c : Int)) (2 : Int)
      = (List.range (2 ^ i)).map (fun j => ((hval k last i j c : ℕ) : Int)) := by
  rw [ipow_two_cast_succ, pow_succ, mul_comm, range_step_two]
  apply List.map_congr_left
  intro t _
  simp only [hval, if_pos hi]
  push_cast
  omega

theorem hbody_step (k W : ℕ) (last : ℕ → ℕ → ℕ) (i : ℕ) (hi : i + 1 < k) (hW : 2 ^ i ≤ W)
    (A B : List (List Int)) (A' B' : List (List (List Int))) (hA : i = A.length) (hA' : i = A'.length) :
    hbody (A ++ List.replicate W (0 : Int) :: B, A' ++ List.replicate W [(0 : Int), 0] :: B') (i : Int)
      = .ok (A ++ flags (hdrLevel (V := V) k W last i) :: B, A' ++ crow (hdrLevel (V := V) k W last i) :: B') := by
  unfold hbody
  simp only [ipow_two_cast, Np.rep_natCast]
  rw [assignRowPrefix_full A B _ _ i (2 ^ i) hA (by simp) (by simpa using hW)]
  simp only [ok_bind, range_two, List.foldlM_cons, List.foldlM_nil]
  have e0 := range_vals k last i 0 hi
  have e1 := range_vals k last i 1 hi
  simp only [Nat.cast_zero, Nat.cast_one] at e0 e1
  rw [e0, e1]
  have s0 := assignColPrefix_full A' B' (List.replicate W [(0 : Int), 0]) ((List.range (2 ^ i)).map (fun j => ((hval k last i j 0 : ℕ) : Int)))
    i (2 ^ i) 0 hA' (by omega) (by simp) (by simpa using hW)
  simp only [Nat.cast_zero] at s0
  rw [s0]
  simp only [ok_bind]
  have s1 := assignColPrefix_full A' B' (List.zipWith (fun (nd : List Int) v => nd.set 0 v) ((List.replicate W [(0 : Int), 0]).take (2 ^ i))
      ((List.range (2 ^ i)).map (fun j => ((hval k last i j 0 : ℕ) : Int))) ++ (List.replicate W [(0 : Int), 0]).drop (2 ^ i))
    ((List.range (2 ^ i)).map (fun j => ((hval k last i j 1 : ℕ) : Int)))
    i (2 ^ i) 1 hA' (by omega) (by simp) (by simp; omega)
  simp only [Nat.cast_one] at s1
  rw [s1]
  simp only [ok_bind]
  rw [nodes_row (V := V) k W i last hW, child_row (V := V) k W i last hW _ rfl _ _ rfl rfl]
  rfl

theorem foldlM_append_ok {σ ι : Type} (f : σ → ι → Except String σ) (l1 l2 : List ι) (s s' : σ) (h : l1.foldlM f s = .ok s') :
    (l1 ++ l2).foldlM f s = l2.foldlM f s' := by
  rw [List.foldlM_append, h]; rfl

/-- the header loop after `j` passes: rows `< j` are the header's, the rest is still blank -/
theorem hdr_loop (k W M : ℕ) (last : ℕ → ℕ → ℕ) (hW : 2 ^ k ≤ W) (j : ℕ) (hj : j + 1 ≤ k) (hM : k ≤ M) :
    ((List.range j).map (fun t : ℕ => (t : Int))).foldlM hbody
        (List.replicate M (List.replicate W (0 : Int)), List.replicate M (List.replicate W [(0 : Int), 0]))
      = .ok ((List.range j).map (fun i => flags (hdrLevel (V := V) k W last i)) ++ List.replicate (M - j) (List.replicate W (0 : Int)),
             (List.range j).map (fun i => crow (hdrLevel (V := V) k W last i)) ++ List.replicate (M - j) (List.replicate W [(0 : Int), 0])) := by
  induction j with
  | zero => simp [List.foldlM_nil]; rfl
  | succ j ih =>
    rw [List.range_succ, List.map_append, foldlM_append_ok _ _ _ _ _ (ih (by omega))]
    simp only [List.map_cons, List.map_nil, List.foldlM_cons, List.foldlM_nil]
    have hM' : M - j = (M - (j + 1)) + 1 := by omega
    rw [hM', List.replicate_succ, List.replicate_succ]
    have hW' : 2 ^ j ≤ W := le_trans (Nat.pow_le_pow_right (by omega) (by omega)) hW
    rw [hbody_step (V := V) k W last j (by omega) hW' _ _ _ _ (by simp) (by simp)]
    simp only [ok_bind, List.map_append, List.map_cons, List.map_nil, List.append_assoc, List.cons_append, List.nil_append]
    rfl

/-! ### the last header level -/

theorem filter_mod_two (p c : ℕ) (hc : c < 2) :
    (Np.range (0 : Int) ((2 * p : ℕ) : Int) (1 : Int)).filter (fun i => i % (2 : Int) == (c : Int))
      = (List.range p).map (fun j => ((2 * j + c : ℕ) : Int)) := by
  rw [Np.range_up]
  induction p with
  | zero => rfl
  | succ p ih =>
    have : 2 * (p + 1) = 2 * p + 1 + 1 := by ring
    rw [this, List.range_succ, List.range_succ, List.map_append, List.map_append, List.filter_append, List.filter_append, ih,
      List.range_succ (n := p), List.map_append, List.append_assoc]
    congr 1
    have hc' : c = 0 ∨ c = 1 := by omega
    rcases hc' with rfl | rfl
    · have h1 : ((((2 * p : ℕ) : Int)) % 2 == ((0 : ℕ) : Int)) = true := by simp
      have h2 : ((((2 * p + 1 : ℕ) : Int)) % 2 == ((0 : ℕ) : Int)) = false := by simp
      simp only [List.map_cons, List.map_nil, List.filter_cons, List.filter_nil, h1, h2]
      rfl
    · have h1 : ((((2 * p : ℕ) : Int)) % 2 == ((1 : ℕ) : Int)) = false := by simp
      have h2 : ((((2 * p + 1 : ℕ) : Int)) % 2 == ((1 : ℕ) : Int)) = true := by simp
      simp only [List.map_cons, List.map_nil, List.filter_cons, List.filter_nil, h1, h2]
      rfl

theorem last_vals (k : ℕ) (R : ℕ → ℕ) (roots : List Int) (hk : 1 ≤ k) (hroots : ∀ m : ℕ, m < 2 ^ k → Np.get1 roots (m : Int) = ((R m : ℕ) : Int))
    (c : ℕ) (hc : c < 2) :
    ((Np.range (0 : Int) ((2 ^ k : ℕ) : Int) (1 : Int)).filter (fun i => i % (2 : Int) == (c : Int))).map (fun i => Np.get1 roots i)
      = (List.range (2 ^ (k - 1))).map (fun j => ((hval k (fun j c => R (2 * j + c)) (k - 1) j c : ℕ) : Int)) := by
  have hp : 2 ^ k = 2 * 2 ^ (k - 1) := by
    rw [← pow_succ']; congr 1; omega
  rw [hp, filter_mod_two _ c hc, List.map_map]
  apply List.map_congr_left
  intro j hj
  have hj' : j < 2 ^ (k - 1) := List.mem_range.mp hj
  simp only [Function.comp, hval, if_neg (show ¬ (k - 1 + 1 < k) by omega)]
  exact hroots _ (by omega)

theorem last_level (k W M : ℕ) (R : ℕ → ℕ) (roots : List Int) (hk : 1 ≤ k) (hW : 2 ^ k ≤ W) (hM : k ≤ M)
    (hroots : ∀ m : ℕ, m < 2 ^ k → Np.get1 roots (m : Int) = ((R m : ℕ) : Int)) :
    (Np.range (0 : Int) (2 : Int) (1 : Int)).foldlM (fun (result_child : List (List (List Int))) (c : Int) =>
      Np.assignColPrefix result_child (2 : Int) ((k - 1 : ℕ) : Int) ((2 ^ (k - 1) : ℕ) : Int) c
        (((Np.range (0 : Int) ((2 ^ k : ℕ) : Int) (1 : Int)).filter (fun i => i % (2 : Int) == c)).map (fun i => Np.get1 roots i)))
      ((List.range (k - 1)).map (fun i => crow (hdrLevel (V := V) k W (fun j c => R (2 * j + c)) i))
        ++ List.replicate (M - (k - 1)) (List.replicate W [(0 : Int), 0]))
    = .ok ((List.range k).map (fun i => crow (hdrLevel (V := V) k W (fun j c => R (2 * j + c)) i))
        ++ List.replicate (M - k) (List.replicate W [(0 : Int), 0])) := by
  have hW' : 2 ^ (k - 1) ≤ W := le_trans (Nat.pow_le_pow_right (by omega) (by omega)) hW
  have e0 := last_vals k R roots hk hroots 0 (by omega)
  have e1 := last_vals k R roots hk hroots 1 (by omega)
  simp only [Nat.cast_zero, Nat.cast_one] at e0 e1
  simp only [range_two, List.foldlM_cons, List.foldlM_nil]
  rw [e0, e1]
  have hM' : M - (k - 1) = (M - k) + 1 := by omega
  rw [hM', List.replicate_succ]
  have s0 := assignColPrefix_full ((List.range (k - 1)).map (fun i => crow (hdrLevel (V := V) k W (fun j c => R (2 * j + c)) i)))
    (List.replicate (M - k) (List.replicate W [(0 : Int), 0]))
    (List.replicate W [(0 : Int), 0]) ((List.range (2 ^ (k - 1))).map (fun j => ((hval k (fun j c => R (2 * j + c)) (k - 1) j 0 : ℕ) : Int)))
    (k - 1) (2 ^ (k - 1)) 0 (by simp) (by omega) (by simp) (by simpa using hW')
  simp only [Nat.cast_zero] at s0
  rw [s0]
  simp only [ok_bind]
  have s1 := assignColPrefix_full ((List.range (k - 1)).map (fun i => crow (hdrLevel (V := V) k W (fun j c => R (2 * j + c)) i)))
    (List.replicate (M - k) (List.replicate W [(0 : Int), 0]))
    (List.zipWith (fun (nd : List Int) v => nd.set 0 v) ((List.replicate W [(0 : Int), 0]).take (2 ^ (k - 1)))
      ((List.range (2 ^ (k - 1))).map (fun j => ((hval k (fun j c => R (2 * j + c)) (k - 1) j 0 : ℕ) : Int))) ++ (List.replicate W [(0 : Int), 0]).drop (2 ^ (k - 1)))
    ((List.range (2 ^ (k - 1))).map (fun j => ((hval k (fun j c => R (2 * j + c)) (k - 1) j 1 : ℕ) : Int)))
    (k - 1) (2 ^ (k - 1)) 1 (by simp) (by omega) (by simp) (by simp; omega)
  simp only [Nat.cast_one] at s1
  rw [s1]
  simp only [ok_bind]
  rw [child_row (V := V) k W (k - 1) (fun j c => R (2 * j + c)) hW' _ rfl _ _ rfl rfl]
  have hr : List.range k = List.range (k - 1) ++ [k - 1] := by
    rw [← List.range_succ]; congr 1; omega
  rw [hr]
  simp only [List.map_append, List.map_cons, List.map_nil, List.append_assoc, List.cons_append, List.nil_append]
  rfl

theorem last_nodes (k W M : ℕ) (last : ℕ → ℕ → ℕ) (hk : 1 ≤ k) (hW : 2 ^ k ≤ W) (hM : k ≤ M) :
    Np.assignRowPrefix ((List.range (k - 1)).map (fun i => flags (hdrLevel (V := V) k W last i))
        ++ List.replicate (M - (k - 1)) (List.replicate W (0 : Int))) ((k - 1 : ℕ) : Int) ((2 ^ (k - 1) : ℕ) : Int) [(1 : Int)]
      = .ok ((List.range k).map (fun i => flags (hdrLevel (V := V) k W last i)) ++ List.replicate (M - k) (List.replicate W (0 : Int))) := by
  have hW' : 2 ^ (k - 1) ≤ W := le_trans (Nat.pow_le_pow_right (by omega) (by omega)) hW
  have hM' : M - (k - 1) = (M - k) + 1 := by omega
  rw [hM', List.replicate_succ]
  rw [assignRowPrefix_bcast _ _ _ _ (k - 1) (2 ^ (k - 1)) (by simp) (by simpa using hW')]
  rw [nodes_row (V := V) k W (k - 1) last hW']
  have hr : List.range k = List.range (k - 1) ++ [k - 1] := by
    rw [← List.range_succ]; congr 1; omega
  rw [hr]
  simp only [List.map_append, List.map_cons, List.map_nil, List.append_assoc, List.cons_append, List.nil_append]

/-! ### offsets and roots -/

theorem foldl_add_cast (l : List ℕ) (a : ℕ) : (l.map (fun k : ℕ => (k : Int))).foldl (· + ·) (a : Int) = ((a + l.sum : ℕ) : Int) := by
  induction l generalizing a with
  | nil => simp
  | cons x t ih =>
    simp only [List.map_cons, List.foldl_cons, List.sum_cons]
    have : (a : Int) + (x : Int) = ((a + x : ℕ) : Int) := by push_cast; rfl
    rw [this, ih, Nat.add_assoc]

theorem sumI_cast (l : List ℕ) : Np.sumI (l.map (fun k : ℕ => (k : Int))) = ((l.sum : ℕ) : Int) := by
  have := foldl_add_cast l 0
  simpa [Np.sumI] using this

theorem cumsum_fst (l : List Int) (s : Int) (acc : List Int) :
    (l.foldl (fun (st : Int × List Int) x => (st.1 + x, st.2 ++ [st.1 + x])) (s, acc)).1 = l.foldl (· + ·) s := by
  induction l generalizing s acc with
  | nil => rfl
  | cons x t ih => simp only [List.foldl_cons]; exact ih _ _

theorem cumsumI_snoc (l : List Int) (x : Int) : Np.cumsumI (l ++ [x]) = Np.cumsumI l ++ [Np.sumI l + x] := by
  unfold Np.cumsumI Np.sumI
  rw [List.foldl_append]
  simp only [List.foldl_cons, List.foldl_nil]
  rw [cumsum_fst]

theorem cons_cumsum (l : List ℕ) :
    (0 : Int) :: Np.cumsumI (l.map (fun k : ℕ => (k : Int))) = (List.range (l.length + 1)).map (fun i => (((l.take i).sum : ℕ) : Int)) := by
  induction l using List.reverseRecOn with
  | nil => rfl
  | append_singleton l x ih =>
    rw [List.map_append, List.map_cons, List.map_nil, cumsumI_snoc, ← List.cons_append, ih, sumI_cast]
    rw [List.length_append, List.length_cons, List.length_nil, List.range_succ (n := l.length + 0 + 1), List.map_append]
    congr 1
    · apply List.map_congr_left
      intro i hi
      have : i ≤ l.length := by have := List.mem_range.mp hi; omega
      rw [List.take_append_of_le_length this]
    · simp

theorem offsets_eq (els : List (Diagram V)) (hne : els ≠ []) :
    (0 : Int) :: Np.cumsumI (((els.map fld).map (fun x => x.2.2.2.2.2)).dropLast) = (offsetsOf els).map (fun o : ℕ => (o : Int)) := by
  have h1 : (els.map fld).map (fun x => x.2.2.2.2.2) = (els.map (·.diameter)).map (fun k : ℕ => (k : Int)) := by
    rw [List.map_map, List.map_map]; rfl
  rw [h1, ← List.map_dropLast, cons_cumsum]
  unfold offsetsOf offsetOf
  have hl : 1 ≤ els.length := List.length_pos_of_ne_nil hne
  have : (els.map (·.diameter)).dropLast.length + 1 = els.length := by simp; omega
  rw [this, List.map_map]
  apply List.map_congr_left
  intro i hi
  have hi' : i < els.length := List.mem_range.mp hi
  simp only [Function.comp]
  rw [List.dropLast_eq_take, List.take_take, List.map_take]
  congr 3
  simp; omega

theorem roots_eq (els : List (Diagram V)) :
    List.zipWith (fun (x : GenD.Fld V) (o : Int) => x.2.1 + o) (els.map fld) ((offsetsOf els).map (fun o : ℕ => (o : Int)))
      = (rootsOf els).map (fun o : ℕ => (o : Int)) := by
  unfold rootsOf
  rw [List.zip_eq_zipWith, List.map_zipWith, List.zipWith_map]
  simp only [List.map_zipWith]
  congr 1

theorem roots_get (els : List (Diagram V)) (m : ℕ) :
    Np.get1 ((rootsOf els).map (fun o : ℕ => (o : Int))) (m : Int) = (((rootsOf els).getD m 0 : ℕ) : Int) := by
  rw [Np.get1_natCast]
  simp only [List.getD_eq_getElem?_getD, List.getElem?_map]
  cases (rootsOf els)[m]? <;> rfl

/-! ### `enumerate` against a parallel list -/

theorem enum_zip_get1 {β δ : Type} (F : β → Int → δ) (pre : List Int) (l : List β) (o : List Int) (h : o.length = l.length) :
    (Np.enumerateFrom (pre.length : Int) l).map (fun ix => F ix.2 (Np.get1 (pre ++ o) ix.1)) = (l.zip o).map (fun p => F p.1 p.2) := by
  induction l generalizing pre o with
  | nil => rfl
  | cons x t ih =>
    cases o with
    | nil => simp at h
    | cons y o' =>
      have h1 : Np.get1 (pre ++ y :: o') (pre.length : Int) = y := by
        rw [Np.get1_natCast]; simp [List.getD_eq_getElem?_getD]
      have h2 := ih (pre ++ [y]) o' (by simpa using h)
      simp only [List.length_append, List.length_cons, List.length_nil, Nat.zero_add, Nat.cast_add, Nat.cast_one,
        List.append_assoc, List.cons_append, List.nil_append] at h2
      simp only [Np.enumerateFrom, List.map_cons, h1, h2, List.zip_cons_cons]

theorem child_blocks (els : List (Diagram V)) :
    (Np.enumerateFrom (0 : Int) (els.map fld)).map (fun ix => Np.addAll3 ix.2.2.2.2.1
        (Np.get1 ((offsetsOf els).map (fun o : ℕ => (o : Int))) ix.1))
      = (els.zip (offsetsOf els)).map (fun eo => Np.addAll3 (childOf eo.1.levels) (eo.2 : Int)) := by
  have := enum_zip_get1 (fun (x : GenD.Fld V) o => Np.addAll3 x.2.2.2.1 o) [] (els.map fld) ((offsetsOf els).map (fun o : ℕ => (o : Int)))
    (by simp [length_offsetsOf])
  simp only [List.length_nil, Nat.cast_zero, List.nil_append] at this
  rw [this, List.zip_map, List.map_map]
  rfl

/-! ### `np.concatenate(..., axis=1, out=a[start:])` -/

theorem concat_ok {β : Type} (okEntry : β → Bool) (H B : List (List β)) (blocks : List (List (List β))) (k : ℕ) (hk : k = H.length) (hne : blocks ≠ [])
    (hrows : ∀ b ∈ blocks, b.length = B.length) (hok : ∀ b ∈ blocks, ∀ r ∈ b, ∀ x ∈ r, okEntry x = true)
    (hw : ∀ i, i < B.length → (blocks.map (fun b => (b.getD i []).length)).sum = (B.getD i []).length) :
    Np.concatAxis1Into okEntry (H ++ B) (k : Int) blocks
      = .ok (H ++ (List.range B.length).map (fun i => (blocks.map (fun b => b.getD i [])).flatten)) := by
  subst hk
  unfold Np.concatAxis1Into
  have hs : min ((H.length : Int)).toNat (H ++ B).length = H.length := by simp
  have hr : (H ++ B).length - H.length = B.length := by simp
  simp only [hs, hr]
  rw [if_pos]
  · simp
  · simp only [Bool.and_eq_true, Bool.not_eq_true', List.all_eq_true, beq_iff_eq, List.mem_range]
    refine ⟨⟨?_, ?_⟩, ?_⟩
    · cases blocks with
      | nil => exact absurd rfl hne
      | cons _ _ => rfl
    · intro b hb
      exact ⟨hrows b hb, fun r hr x hx => hok b hb r hr x hx⟩
    · intro i hi
      rw [hw i hi]
      simp only [List.getD_eq_getElem?_getD]
      rw [List.getElem?_append_right (by omega)]
      congr 3
      omega

/-! ### the body rows -/

/-- the edge-value row of a level -/
def arow (lv : Level V) : List (List V) := lv.map (fun nd => nd.adder)

theorem getD_map_nil {α β : Type} (f : List α → List β) (hf : f [] = []) (L : List (List α)) (i : ℕ) :
    (L.map f).getD i [] = f (L.getD i []) := by
  simp only [List.getD_eq_getElem?_getD, List.getElem?_map]
  cases L[i]? <;> simp [hf]

theorem flatMap_zip_fst {α β γ : Type} (l : List α) (o : List β) (h : l.length ≤ o.length) (g : α → List γ) :
    (l.zip o).flatMap (fun p => g p.1) = l.flatMap g := by
  have h1 : (l.zip o).map Prod.fst = l := List.map_fst_zip h
  conv_rhs => rw [← h1]
  rw [List.flatMap_map]

theorem body_nodes_row (els : List (Diagram V)) (i : ℕ) :
    (((els.map fld).map (fun x => x.2.2.1)).map (fun b => b.getD i [])).flatten = flags (bodyLevel els i) := by
  rw [List.map_map, List.map_map]
  unfold bodyLevel flags
  rw [List.map_flatMap]
  have : ∀ eo : Diagram V × ℕ, ((eo.1.levels.getD i []).map (shiftNode eo.2)).map (fun nd => if nd.active then (1 : Int) else 0)
      = flags (eo.1.levels.getD i []) := by
    intro eo
    rw [List.map_map]; rfl
  simp only [this]
  rw [flatMap_zip_fst els _ (by simp [length_offsetsOf]) (fun e => flags (e.levels.getD i [])), List.flatMap_def]
  congr 1
  apply List.map_congr_left
  intro e _
  simp only [Function.comp, fld, nodesOf]
  exact getD_map_nil (fun lv : Level V => lv.map (fun nd => if nd.active then (1 : Int) else 0)) rfl _ _

theorem body_adder_row (els : List (Diagram V)) (i : ℕ) :
    (((els.map fld).map (fun x => x.2.2.2.2.1)).map (fun b => b.getD i [])).flatten = arow (bodyLevel els i) := by
  rw [List.map_map, List.map_map]
  unfold bodyLevel arow
  rw [List.map_flatMap]
  have : ∀ eo : Diagram V × ℕ, ((eo.1.levels.getD i []).map (shiftNode eo.2)).map (fun nd => nd.adder)
      = arow (eo.1.levels.getD i []) := by
    intro eo
    rw [List.map_map]; rfl
  simp only [this]
  rw [flatMap_zip_fst els _ (by simp [length_offsetsOf]) (fun e => arow (e.levels.getD i [])), List.flatMap_def]
  congr 1
  apply List.map_congr_left
  intro e _
  simp only [Function.comp, fld, adderOf]
  exact getD_map_nil (fun lv : Level V => lv.map (fun nd => nd.adder)) rfl _ _

theorem body_child_row (els : List (Diagram V)) (i : ℕ) :
    (((els.zip (offsetsOf els)).map (fun eo => Np.addAll3 (childOf eo.1.levels) (eo.2 : Int))).map (fun b => b.getD i [])).flatten
      = crow (bodyLevel els i) := by
  rw [List.map_map]
  unfold bodyLevel crow
  rw [List.map_flatMap, List.flatMap_def]
  congr 1
  apply List.map_congr_left
  intro eo _
  simp only [Function.comp, Np.addAll3, childOf]
  rw [getD_map_nil (fun lv : List (List Int) => lv.map (fun nd => nd.map (fun x => x + (eo.2 : Int)))) rfl,
    getD_map_nil (fun lv : Level V => lv.map (fun nd => nd.child.map (fun (k : ℕ) => (k : Int)))) rfl]
  rw [List.map_map, List.map_map]
  apply List.map_congr_left
  intro nd _
  simp [shiftNode]

theorem nodesOf_map (f : ℕ → Level V) (l : List ℕ) : nodesOf (l.map f) = l.map (fun i => flags (f i)) := by
  unfold nodesOf flags; rw [List.map_map]; rfl
theorem childOf_map (f : ℕ → Level V) (l : List ℕ) : childOf (l.map f) = l.map (fun i => crow (f i)) := by
  unfold childOf crow; rw [List.map_map]; rfl
theorem adderOf_map (f : ℕ → Level V) (l : List ℕ) : adderOf (l.map f) = l.map (fun i => arow (f i)) := by
  unfold adderOf arow; rw [List.map_map]; rfl

theorem arow_hdr (k W : ℕ) (last : ℕ → ℕ → ℕ) (i : ℕ) : arow (hdrLevel (V := V) k W last i) = List.replicate W [0, 0] := by
  unfold arow hdrLevel
  apply List.ext_getElem
  · simp
  · intro j h1 h2
    simp only [List.getElem_map, List.getElem_range, List.getElem_replicate]
    split <;> rfl

end

end DsProofs.TieD
