import Ds.Basic
/-!
# Ds.Units — the unit / candidate registry behind provenance expressions
Model of `datascope/utility/provenance.py:Units` (and of how `Equality.data` / `Equality.from_data`
go through it).  Keys are hashable Python objects; the model uses integers (the harness maps every key
it uses to a distinct integer).  `units_index` / `candidates_index` are the dictionaries key → position;
in the model they are `List.idxOf` on the key lists, which the invariant `Nodup` makes equivalent.
-/
namespace Ds.Units

structure U where
  keys : List Int          -- `_units` (insertion order)
  cands : List Int         -- `_candidates`
  frozenU : Bool           -- `_units_frozen`
  frozenC : Bool           -- `_candidates_frozen`
  deriving Repr, BEq, DecidableEq, Inhabited

/-- `Units(units=…, candidates=…)`: `none` = argument left out (lazily growing list) -/
def mk (units cands : Option (List Int)) : U :=
  { keys := units.getD [], cands := cands.getD [], frozenU := units.isSome, frozenC := cands.isSome }

/-- `units[key]` (`__getitem__`): a new key is appended unless the unit list is frozen -/
def getItem (u : U) (k : Int) : Except Err U :=
  if u.keys.contains k then pure u
  else if u.frozenU then throw Err.keyError
  else pure { u with keys := u.keys ++ [k] }

/-- `units[key] == value`: first `units[key]` (which may append the key — that effect stays even if the
comparison then fails), then `Unit.__eq__`: a new candidate is appended unless the candidate list is
frozen.  Returns the registry afterwards and the equality's `data` = `[position of key, index of
value]` or the exception raised. -/
def eqPred (u : U) (k v : Int) : U × Except Err (Nat × Nat) :=
  match getItem u k with
  | .error e => (u, .error e)
  | .ok u1 =>
      if u1.cands.contains v then (u1, .ok (u1.keys.idxOf k, u1.cands.idxOf v))
      else if u1.frozenC then (u1, .error Err.valueError)
      else
        let u2 := { u1 with cands := u1.cands ++ [v] }
        (u2, .ok (u2.keys.idxOf k, u2.cands.idxOf v))

/-- `Equality.from_data(data, units)`: position → key → `units[key]`, index → candidate value -/
def fromData (u : U) (d : Nat × Nat) : Except Err (Int × Int) :=
  match u.keys[d.1]?, u.cands[d.2]? with
  | some k, some v => pure (k, v)
  | _, _ => throw Err.indexError

/-- `Units.prefix(prefix)` on integer keys, `f` = `_hashable_prefix_map(·, prefix)` (injective) -/
def prefixWith (u : U) (f : Int → Int) : U := { u with keys := u.keys.map f }

/-- `Units.union(other)` (both prefixes already applied): keys and candidates of `other` that are new
are appended in order; the frozen flags are or-ed -/
def union (u o : U) : U :=
  { keys := o.keys.foldl (fun ks k => if ks.contains k then ks else ks ++ [k]) u.keys,
    cands := o.cands.foldl (fun cs c => if cs.contains c then cs else cs ++ [c]) u.cands,
    frozenU := u.frozenU || o.frozenU, frozenC := u.frozenC || o.frozenC }

end Ds.Units
