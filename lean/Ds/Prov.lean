import Ds.Basic
/-!
# Ds.Prov — provenance expressions, the padded array container and `query`
Model of `datascope/utility/provenance.py` (state after the `fix:` commits F5, F7, F8, F9).

A literal is `(unit position, candidate index)`; `(-1, -1)` is padding.  A stored row is a padded
disjunction of padded conjunctions, exactly the 4-D integer array `Provenance._data`.
-/
namespace Ds.Prov

abbrev Lit := Int × Int
abbrev Conj := List Lit
abbrev Row := List Conj
abbrev Data := List Row

def padLit : Lit := (-1, -1)

/-- the container: `_data` with its shape `(rows, nDisj, nConj, 2)` and the size of the unit set -/
structure P where
  data : Data
  nDisj : Nat
  nConj : Nat
  nUnits : Nat
  nCands : Nat := 2
  deriving Repr, BEq, Inhabited

/-! ## expressions (`Equality`, `Conjunction`, `Disjunction`) -/

inductive Expr where
  | eq (u c : Nat)
  | conj (es : List (Nat × Nat))
  | disj (cs : List (List (Nat × Nat)))
  deriving Repr, BEq, DecidableEq, Inhabited

namespace Expr

def evalLit (a : List Nat) (l : Nat × Nat) : Bool := a.getD l.1 0 == l.2

/-- `Expression.eval` on an assignment given as a sequence (`a[u]` = candidate of unit `u`) -/
def eval (a : List Nat) : Expr → Bool
  | eq u c => evalLit a (u, c)
  | conj es => es.all (evalLit a)
  | disj cs => cs.any (fun es => es.all (evalLit a))

/-- `__and__` exactly as overloaded (distribution over `|`, equalities wrapped) -/
def and : Expr → Expr → Expr
  | eq u c, eq u' c' => conj [(u, c), (u', c')]
  | eq u c, conj es => conj ((u, c) :: es)
  | eq u c, disj cs => disj (cs.map (fun es => (u, c) :: es))
  | conj es, eq u c => conj (es ++ [(u, c)])
  | conj es, conj es' => conj (es ++ es')
  | conj es, disj cs => disj (cs.map (fun es' => es ++ es'))
  | disj cs, eq u c => disj (cs.map (fun es => es ++ [(u, c)]))
  | disj cs, conj es' => disj (cs.map (fun es => es ++ es'))
  | disj cs, disj cs' => disj (cs.flatMap (fun a => cs'.map (fun b => a ++ b)))

/-- `__or__` exactly as overloaded -/
def or : Expr → Expr → Expr
  | eq u c, eq u' c' => disj [[(u, c)], [(u', c')]]
  | eq u c, conj es => disj [[(u, c)], es]
  | eq u c, disj cs => disj ([(u, c)] :: cs)
  | conj es, eq u c => disj [es, [(u, c)]]
  | conj es, conj es' => disj [es, es']
  | conj es, disj cs => disj (es :: cs)
  | disj cs, eq u c => disj (cs ++ [[(u, c)]])
  | disj cs, conj es => disj (cs ++ [es])
  | disj cs, disj cs' => disj (cs ++ cs')

def litData (l : Nat × Nat) : Lit := ((l.1 : Int), (l.2 : Int))

def padTo {β : Type} (l : List β) (n : Nat) (x : β) : List β := l ++ List.replicate (n - l.length) x

/-- `Expression.data` reshaped to 3-D: `(disjuncts, conjuncts, 2)`; a `Disjunction` pads its
conjunctions to the widest one -/
def data3 : Expr → Row
  | eq u c => [[litData (u, c)]]
  | conj es => [es.map litData]
  | disj cs =>
      let m := (cs.map List.length).foldl max 0
      cs.map (fun es => padTo (es.map litData) m padLit)

/-- width of `data3` in the conjunct dimension -/
def width : Expr → Nat
  | eq _ _ => 1
  | conj es => es.length
  | disj cs => (cs.map List.length).foldl max 0

def height : Expr → Nat
  | eq _ _ => 1
  | conj _ => 1
  | disj cs => cs.length

end Expr

/-! ## container construction -/

def padConj (c : Conj) (n : Nat) : Conj := Expr.padTo c n padLit
def padRow (r : Row) (d n : Nat) : Row := Expr.padTo (r.map (padConj · n)) d (List.replicate n padLit)

/-- `_pad_array(self._data, (rows, d, n, 2))` (never shrinks) -/
def padData (D : Data) (d n : Nat) : Data := D.map (padRow · d n)

/-- `Provenance(expressions)` -/
def ofExprs (es : List Expr) (nUnits : Nat) (nCands : Nat := 2) : P :=
  let d := (es.map Expr.height).foldl max 0
  let n := (es.map Expr.width).foldl max 0
  { data := es.map (fun e => padRow e.data3 d n), nDisj := d, nConj := n, nUnits := nUnits, nCands := nCands }

/-- `Provenance(units=n)`: row `i` is `x_i == 1` (… `== c` for every candidate `c ≥ 1`) -/
def default (n : Nat) (nCands : Nat := 2) : P :=
  { data := (List.range n).flatMap (fun (i : Nat) => (List.range (nCands - 1)).map (fun (c : Nat) => [[(Int.ofNat i, Int.ofNat (c + 1))]])),
    nDisj := 1, nConj := 1, nUnits := n, nCands := nCands }

/-- sorted distinct identifiers other than `-1` (`np.unique`) -/
def uniqueIds (ids : List Int) : List Int :=
  ((ids.filter (· != -1)).mergeSort (· ≤ ·)).eraseDups

/-- `Provenance(data=ids)`: identifiers are translated to unit positions (F8) -/
def ofGroups (ids : List Int) (nCands : Nat := 2) : P :=
  let us := uniqueIds ids
  let pos (x : Int) : Int := if x == -1 then -1 else Int.ofNat (us.idxOf x)
  { data := ids.flatMap (fun x => (List.range (nCands - 1)).map (fun (c : Nat) => [[(pos x, Int.ofNat (c + 1))]])),
    nDisj := 1, nConj := 1, nUnits := us.length, nCands := nCands }

/-! ## query -/

/-- Python/NumPy indexing of a 1-D array with a possibly negative index -/
def pyIdx? {β : Type} (l : List β) (i : Int) : Option β :=
  if 0 ≤ i then l[i.toNat]? else if -(l.length : Int) ≤ i then l[(l.length - (-i).toNat)]? else none

def litTrue (vals : List Int) (l : Lit) : Except Err Bool :=
  match pyIdx? (vals ++ [-1]) l.1 with
  | some v => pure (v == l.2)
  | none => throw Err.indexError

def conjTrue (vals : List Int) (nConj : Nat) (c : Conj) : Except Err Bool := do
  let bs ← c.mapM (litTrue vals)
  -- `squeeze(axis=2)` when the width is 1, otherwise `np.all(axis=2)`
  let r := if nConj == 1 then bs.getD 0 true else bs.all id
  -- F5: a disjunct made up entirely of padding must not count as satisfied
  pure (r && !(c.all (fun l => l.1 == -1)))

def rowTrue (vals : List Int) (nDisj nConj : Nat) (r : Row) : Except Err Bool := do
  let bs ← r.mapM (conjTrue vals nConj)
  pure (if nDisj == 1 then bs.getD 0 false else bs.any id)

/-- `Provenance.query(values)` with `values` a sequence of candidate indices, boolean mask -/
def query (p : P) (vals : List Int) : Except Err (List Bool) :=
  if vals.length != p.nUnits then throw Err.valueError
  else p.data.mapM (rowTrue vals p.nDisj p.nConj)

/-- `query(values, dtype=int)`: `argwhere` of the mask -/
def queryIdx (p : P) (vals : List Int) : Except Err (List Nat) := do
  let m ← query p vals
  pure ((List.range m.length).filter (fun i => m.getD i false))

/-- the mapping encoding: missing units take the first candidate (index 0) -/
def ofDict (nUnits : Nat) (d : List (Nat × Int)) : List Int :=
  (List.range nUnits).map (fun u => match d.find? (·.1 == u) with | some kv => kv.2 | none => 0)

/-! ## reading a row back (`__getitem__(int)` → `Expression.from_data`) -/

def conjFromData (c : Conj) : List (Nat × Nat) :=
  (c.filter (fun l => !(l.1 == -1 || l.2 == -1))).map (fun l => (l.1.toNat, l.2.toNat))

/-- `Disjunction.from_data`: drops disjuncts that are all `-1`, and inside each conjunct drops
literals containing a `-1`.  A conjunction/disjunction left without elements raises `IndexError`
(`elements[0]`). -/
def exprFromData (r : Row) : Except Err Expr := do
  let ds := r.filter (fun c => !(c.all (fun l => l.1 == -1 && l.2 == -1)))
  if ds.isEmpty then throw Err.indexError
  let cs := ds.map conjFromData
  if cs.any List.isEmpty then throw Err.indexError
  pure (Expr.disj cs)

/-- Python list index normalisation for `l[i]` -/
def normIdx (len : Nat) (i : Int) : Except Err Nat :=
  if 0 ≤ i ∧ i < len then pure i.toNat
  else if i < 0 ∧ -(len : Int) ≤ i then pure (len - (-i).toNat)
  else throw Err.indexError

def getItem (p : P) (i : Int) : Except Err Expr := do
  let k ← normIdx p.data.length i
  exprFromData (p.data.getD k [])

/-- rows selected by an index list (slice / index array / mask are all turned into this) -/
def select (p : P) (idx : List Nat) : P := { p with data := idx.filterMap (fun i => p.data[i]?) }

/-- `fork(size)`: `np.repeat` along the row axis -/
def fork (p : P) (sizes : List Nat) : P :=
  { p with data := (p.data.zip sizes).flatMap (fun rs => List.replicate rs.2 rs.1) }

/-! ## mutation (`__setitem__`, `insert`, `__delitem__`) -/

/-- `__setitem__(int, expr)` after F7: the store and the value are both padded to the larger width -/
def setItem (p : P) (i : Int) (e : Expr) : Except Err P := do
  let d := max p.nDisj e.height
  let n := max p.nConj e.width
  let k ← normIdx p.data.length i
  pure { p with data := (padData p.data d n).set k (padRow e.data3 d n), nDisj := d, nConj := n }

/-- `insert(index, expr)`: the index is normalised as `list.insert` does (negative counts from the end,
out of range is clamped), then `np.insert(data, index, -1, axis=0)` and `self[index] = expr` -/
def insert (p : P) (i : Int) (e : Expr) : Except Err P :=
  let len := p.data.length
  let k : Nat := if i < 0 then (max ((len : Int) + i) 0).toNat else min i.toNat len
  let blank : Row := List.replicate p.nDisj (List.replicate p.nConj padLit)
  setItem { p with data := p.data.insertIdx k blank } (Int.ofNat k) e

def delItem (p : P) (i : Int) : Except Err P := do
  let k ← normIdx p.data.length i
  pure { p with data := p.data.eraseIdx k }

/-- deletion of a set of row positions (slice / index list) -/
def delMany (p : P) (idx : List Nat) : P :=
  { p with data := (List.range p.data.length).filterMap (fun i => if idx.contains i then none else p.data[i]?) }

/-! ## join (the *specified* join — the pinned implementation is broken, finding F10) -/

def shiftConj (k : Nat) (c : Conj) : Conj := c.map (fun l => if l.1 == -1 then l else (l.1 + k, l.2))

def allPad (c : Conj) : Bool := c.all (fun l => l.1 == -1)

/-- one row per pair `(i, j)`; disjuncts are the pairwise concatenations (a pair in which either side
is pure padding stays pure padding); the right operand's units are shifted behind the left operand's -/
def join (p q : P) : P :=
  { data := p.data.flatMap (fun r => q.data.map (fun s =>
      r.flatMap (fun c => s.map (fun c' =>
        if allPad c || allPad c' then List.replicate (p.nConj + q.nConj) padLit
        else c ++ shiftConj p.nUnits c')))),
    nDisj := p.nDisj * q.nDisj, nConj := p.nConj + q.nConj, nUnits := p.nUnits + q.nUnits, nCands := p.nCands }

end Ds.Prov
