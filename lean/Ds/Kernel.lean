import Ds.Basic
/-!
# Ds.Kernel — the 1-NN sort-and-telescope kernel
Model of `shapley_cy.pyx:compute_all_importances_cy` and of its twin
`shapley.py:compute_all_importances`, and of `get_unit_labels_and_distances`.

For one validation point `j` the code walks the ranks `i = n-1 … 0` of the units sorted by distance,
keeps `current += (u[idxs[i]] - u[idxs[i+1]]) / (i+1)` (the row of rank `n` is the null row) and adds
`current` to the unit of rank `i`.  Finally everything is divided by the number of validation points.
-/
namespace Ds.Kernel

section
variable {α : Type} [Add α] [Sub α] [Div α] [NatCast α]

/-- The backward loop.  `L` = utilities in rank order from rank `i` on, with the null value as last
entry.  Returns `(current after rank i, [score of rank i, score of rank i+1, …])`. -/
def aux : List α → Nat → α × List α
  | [], _ => (((0 : Nat) : α), [])
  | [_], _ => (((0 : Nat) : α), [])
  | u :: v :: rest, i =>
      let r := aux (v :: rest) (i + 1)
      let c := r.1 + (u - v) / ((i : α) + ((1 : Nat) : α))
      (c, c :: r.2)

/-- scores by rank for one validation point -/
def rankScores (us : List α) (null : α) : List α := (aux (us ++ [null]) 0).2

/-- `all_importances[idxs[i]] += current` for every rank `i` -/
def scatterAdd (acc : List α) (order : List Nat) (rs : List α) : List α :=
  (order.zip rs).foldl (fun a p => a.modify p.1 (· + p.2)) acc

/-- one validation point: `labels[u]` = class of unit `u`, `order[r]` = unit of rank `r`
(the output of `argsort`), `util[c]` = utility of class `c` for this point -/
def pointAccum (acc : List α) (labels order : List Nat) (util : List α) (null : α) : List α :=
  let us := order.map (fun u => util.getD (labels.getD u 0) null)
  scatterAdd acc order (rankScores us null)

/-- the whole kernel.  `labels[j]`, `orders[j]`, `utils[j]`, `nulls[j]` are the columns of validation
point `j`.  Result: one score per unit. -/
def importances (n : Nat) (labels orders : List (List Nat)) (utils : List (List α)) (nulls : List α) : List α :=
  let acc0 : List α := List.replicate n ((0 : Nat) : α)
  let cols := labels.zip (orders.zip (utils.zip nulls))
  let acc := cols.foldl (fun a c => pointAccum a c.1 c.2.1 c.2.2.1 c.2.2.2) acc0
  acc.map (· / ((cols.length : Nat) : α))
end

/-- `order` is a permutation of `0 … n-1` -/
def isPerm (n : Nat) (order : List Nat) : Bool :=
  order.length == n && (List.range n).all (fun u => order.contains u)

/-- `order` weakly sorts the distances `d` (what any correct `argsort` guarantees) -/
def sortsWeakly (d : List Rat) (order : List Nat) : Bool :=
  isPerm d.length order &&
    (List.range (order.length - 1)).all (fun r => d.getD (order.getD r 0) 0 ≤ d.getD (order.getD (r + 1) 0) 0)

/-- stable argsort (ties by index): the order used when the distances are distinct -/
def argsortStable (d : List Rat) : List Nat :=
  (List.range d.length).mergeSort (fun a b => d.getD a 0 ≤ d.getD b 0)

/-- first index of the minimum (`np.argmin`) -/
def argminFirst : List Rat → Option Nat
  | [] => none
  | x :: xs =>
      let rec go (best : Rat) (bi : Nat) (i : Nat) : List Rat → Nat
        | [] => bi
        | y :: ys => if y < best then go y i (i + 1) ys else go best bi (i + 1) ys
      some (go x 0 1 xs)

/-- `get_unit_labels_and_distances` for a non-simple provenance: `rowsOf u` = rows present when only
unit `u` is switched on (row indices, ascending).  Per unit and validation point: label and distance
of the first row of minimal distance among the unit's rows.  `dist[row][j]`.
A unit that owns no row gets the null label (`nullLabel` = number of classes, the index of the null
row the kernel appends to the utilities) at infinite distance; only the order of distances matters, so
infinity is rendered as a value larger than every distance in the matrix. -/
def unitReduce (rowsOf : List (List Nat)) (labels : List Nat) (dist : List (List Rat)) (nTest : Nat)
    (nullLabel : Nat) : List (List Nat) × List (List Rat) :=
  let big : Rat := (dist.flatten.foldl max 0) + 1
  let per := rowsOf.map (fun rows =>
    let cols := (List.range nTest).map (fun j =>
      let gd := rows.map (fun r => (dist.getD r []).getD j 0)
      match argminFirst gd with
      | none => (nullLabel, big)
      | some k => (labels.getD (rows.getD k 0) 0, gd.getD k 0))
    (cols.map (·.1), cols.map (·.2)))
  (per.map (·.1), per.map (·.2))

end Ds.Kernel
