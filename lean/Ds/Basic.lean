/-!
# Ds.Basic — shared helpers of the executable model (core Lean only, no imports)

Scalars: every numeric routine of the model is written once over an arbitrary type `α` carrying
`Add/Sub/Mul/Div/NatCast`.  The `Rat` instance is the one all theorems are about; the `Float`
instance (IEEE double) is only ever *executed* against the C / NumPy doubles.
-/
namespace Ds

instance : NatCast Float := ⟨Float.ofNat⟩

/-- Python exception classes the model distinguishes (everything else is `other`). -/
inductive Err where
  | indexError | valueError | typeError | assertionError | keyError | other
  deriving DecidableEq, Repr, Inhabited

def Err.name : Err → String
  | .indexError => "IndexError" | .valueError => "ValueError" | .typeError => "TypeError"
  | .assertionError => "AssertionError" | .keyError => "KeyError" | .other => "Other"

/-- left-to-right sum starting from `0` (the order NumPy/Python use for short object sums) -/
def sumL {α : Type} [Add α] [NatCast α] (l : List α) : α := l.foldl (· + ·) ((0 : Nat) : α)

/-- element-wise sum of two lists (shorter length wins, as `zip`) -/
def addL {α : Type} [Add α] (a b : List α) : List α := List.zipWith (· + ·) a b

/-- all 0/1 assignments of length `n` in `itertools.product([0,1], …)` order (first position is the
most significant one) -/
def allAssign : Nat → List (List Nat)
  | 0 => [[]]
  | n + 1 => [0, 1].flatMap (fun c => (allAssign n).map (c :: ·))

def choose : Nat → Nat → Nat
  | _, 0 => 1
  | 0, _ + 1 => 0
  | n + 1, k + 1 => choose n k + choose n (k + 1)

end Ds
