import Ds.Basic
/-!
# Ds.Add — additive decision diagrams
Model of `datascope/utility/add.py:ADD`, array for array: level `i` is the list of nodes
`(nodes[i,j], child[i,j,:], adder[i,j,:])`, `j < diameter`.  Generic in the value type `V`
(anything with `+` and `0`; the proofs need a commutative monoid, `Ds.AVal D` is one).
-/
namespace Ds.Dd

/-- one node of a level: `nodes[i,j]`, `child[i,j,:]`, `adder[i,j,:]` -/
structure Node (V : Type) where
  active : Bool
  child : List Nat
  adder : List V
  deriving Repr, BEq, Inhabited

abbrev Level (V : Type) := List (Node V)

section
variable {V : Type} [Add V] [Zero V]

def Node.ch (nd : Node V) (c : Nat) : Nat := nd.child.getD c 0
def Node.ad (nd : Node V) (c : Nat) : V := nd.adder.getD c 0
def nodeAt (lv : Level V) (j : Nat) : Node V := lv.getD j ⟨false, [], []⟩

/-- value of the path that starts at node `j` of the first level and follows `args` -/
def evalFrom : List (Level V) → Nat → List Nat → V
  | [], _, _ => 0
  | _ :: _, _, [] => 0
  | lv :: rest, j, a :: as => (nodeAt lv j).ad a + evalFrom rest ((nodeAt lv j).ch a) as

/-- `ADD.__call__`: left-to-right accumulation starting from zero -/
def evalAcc : List (Level V) → Nat → List Nat → V → V
  | [], _, _, acc => acc
  | _ :: _, _, [], acc => acc
  | lv :: rest, j, a :: as, acc => evalAcc rest ((nodeAt lv j).ch a) as (acc + (nodeAt lv j).ad a)

/-- the diagram object -/
structure Diagram (V : Type) where
  units : List Nat
  C : Nat                 -- `num_candidates`
  diameter : Nat
  root : Nat
  levels : List (Level V)
  deriving Repr, BEq, Inhabited

def blank (C : Nat) : Node V := ⟨false, List.replicate C 0, List.replicate C 0⟩
def liveZero (C : Nat) : Node V := ⟨true, List.replicate C 0, List.replicate C 0⟩

/-- `ADD(units, num_candidates, diameter, atype)` -/
def Diagram.new (units : List Nat) (C diam : Nat) : Diagram V :=
  { units := units, C := C, diameter := diam, root := 0,
    levels := units.map (fun _ => List.replicate diam (blank C)) }

/-- `__call__` -/
def Diagram.call (d : Diagram V) (args : List Nat) : Except Err V :=
  if args.length != d.units.length then throw Err.valueError
  else if args.any (· ≥ d.C) then throw Err.indexError
  else pure (evalAcc d.levels d.root args 0)

/-- `construct_chain` -/
def chain (units : List Nat) (C : Nat) : Diagram V :=
  { units := units, C := C, diameter := 1, root := 0, levels := units.map (fun _ => [liveZero C]) }

/-- header tree of depth `k` (levels `0 … k-1`), node `j` of level `i` has children `2j`, `2j+1`;
`width` = diameter of the whole diagram.  The last level's children are given by `last`. -/
def treeLevels (k width : Nat) (last : Nat → Nat → Nat) : List (Level V) :=
  (List.range k).map (fun i =>
    (List.range width).map (fun j =>
      if j < 2 ^ i then
        ({ active := true
           child := (List.range 2).map (fun c => if i + 1 < k then 2 * j + c else last j c)
           adder := List.replicate 2 0 } : Node V)
      else blank 2))

/-- `construct_tree` (binary candidates, at least one unit) -/
def tree (units : List Nat) (C : Nat) : Except Err (Diagram V) :=
  if units.length == 0 then throw Err.typeError
  else if C != 2 && units.length ≥ 2 then throw Err.valueError
  else
    let n := units.length
    let diam := C ^ (n - 1)
    pure { units := units, C := C, diameter := diam, root := 0,
           levels := (List.range n).map (fun i =>
             if i + 1 < n then
               (List.range diam).map (fun j =>
                 if j < C ^ i then
                   (Node.mk true ((List.range C).map (fun c => 2 * j + c)) (List.replicate C 0) : Node V)
                 else blank C)
             else List.replicate diam (liveZero C)) }

def padLevel (C : Nat) (lv : Level V) (diam : Nat) : Level V := lv ++ List.replicate (diam - lv.length) (blank C)

/-- `concatenate(elements)`: levels one after the other, padded to the largest diameter; every
active node of an element's last level points to the next element's root -/
def concatenate (els : List (Diagram V)) : Except Err (Diagram V) :=
  match els with
  | [] => throw Err.indexError
  | e0 :: _ =>
    if els.any (fun e => e.C != e0.C) then throw Err.assertionError
    else if e0.C != 2 then throw Err.valueError             -- the result is created with 2 candidates
    else if els.any (fun e => e.units.isEmpty) then throw Err.other   -- not modelled (never built by `compile`)
    else
      let diam := (els.map (·.diameter)).foldl max 0
      let rec go : List (Diagram V) → List (Level V)
        | [] => []
        | [e] => e.levels.map (padLevel 2 · diam)
        | e :: e' :: rest =>
            let lv := e.levels.map (padLevel 2 · diam)
            let lastIdx := lv.length - 1
            let lv' := lv.modify lastIdx (fun l => l.map (fun nd =>
              if nd.active then { nd with child := List.replicate 2 e'.root } else nd))
            lv' ++ go (e' :: rest)
      pure { units := els.flatMap (·.units), C := 2, diameter := diam, root := e0.root, levels := go els }

/-- `stack(factors, elements)`: a complete binary header tree over the factor units whose leaves
point to the roots of the `2^k` elements laid side by side (elements in `itertools.product` order of
the factor valuation) -/
def stack (factors : List Nat) (els : List (Diagram V)) : Except Err (Diagram V) :=
  match els with
  | [] => throw Err.other
  | e0 :: _ =>
    let k := factors.length
    if e0.C != 2 then throw Err.valueError
    else if els.length != 2 ^ k then throw Err.valueError
    else if k == 0 then throw Err.typeError          -- `2 ** -1` used as a slice bound
    else
      let diam := (els.map (·.diameter)).sum
      let offsets := (List.range els.length).map (fun i => ((els.take i).map (·.diameter)).sum)
      let roots := (els.zip offsets).map (fun eo => eo.1.root + eo.2)
      let header : List (Level V) := treeLevels k diam (fun j c => roots.getD (2 * j + c) 0)
      let nBody := e0.levels.length
      let body : List (Level V) := (List.range nBody).map (fun i =>
        (els.zip offsets).flatMap (fun eo =>
          ((eo.1.levels.getD i []).map (fun nd => { nd with child := nd.child.map (· + eo.2) }))))
      pure { units := factors ++ e0.units, C := 2, diameter := diam, root := 0, levels := header ++ body }

/-! ### restrict -/

/-- fold level `next` (fixed to `value`) into the active nodes of level `lv` -/
def foldInto (C : Nat) (lv next : Level V) (value : Nat) : Level V :=
  lv.map (fun nd =>
    if nd.active then
      { active := true
        child := (List.range C).map (fun c => (nodeAt next (nd.ch c)).ch value)
        adder := (List.range C).map (fun c => nd.ad c + (nodeAt next (nd.ch c)).ad value) }
    else nd)

/-- `restrict` of the variable at level `k+1` (not the first one) -/
def restrictPos (C : Nat) : Nat → Nat → List (Level V) → List (Level V)
  | 0, value, lv :: next :: rest => foldInto C lv next value :: rest
  | k + 1, value, lv :: rest => lv :: restrictPos C k value rest
  | _, _, L => L

/-- root case: the new root is the chosen child; the root edge's value is pushed onto every edge of
the new root node in the next level (`result.adder[idx+1, result.root, c] += …`) -/
def restrictRoot (C : Nat) (root value : Nat) : List (Level V) → Except Err (Nat × List (Level V))
  | lv :: next :: rest =>
      let r' := (nodeAt lv root).ch value
      let a := (nodeAt lv root).ad value
      if r' < next.length then
        pure (r', next.modify r' (fun nd => { nd with adder := (List.range C).map (fun c => nd.ad c + a) }) :: rest)
      else throw Err.indexError
  | _ => throw Err.indexError           -- F3b: a diagram with a single variable

def Diagram.restrict (d : Diagram V) (unit value : Nat) : Except Err (Diagram V) :=
  if !d.units.contains unit then throw Err.keyError
  else if value ≥ d.C then throw Err.indexError
  else
    let idx := d.units.idxOf unit
    if idx == 0 then do
      let (r, L) ← restrictRoot d.C d.root value d.levels
      pure { d with units := d.units.eraseIdx 0, root := r, levels := L }
    else
      pure { d with units := d.units.eraseIdx idx, levels := restrictPos d.C (idx - 1) value d.levels }

/-! ### update locations -/

def dedupSorted (l : List Nat) : List Nat := (l.mergeSort (· ≤ ·)).eraseDups

/-- `get_update_location(units, values)` — the edges `(level, node, value)` reached by every path
consistent with the assignment; `IndexError` when the walk runs past the last level (e.g. a unit
named twice) -/
def Diagram.getUpdateLocation (d : Diagram V) (asg : List (Nat × Nat)) : Except Err (List (Nat × Nat × Nat)) := do
  if asg.any (fun uv => !d.units.contains uv.1) then throw Err.keyError
  let sorted := asg.mergeSort (fun a b => d.units.idxOf a.1 ≤ d.units.idxOf b.1)
  match sorted with
  | [] => throw Err.valueError
  | [(u, _)] =>
      let i := d.units.idxOf u
      let lv := d.levels.getD i []
      walk d sorted i ((List.range lv.length).filter (fun j => (nodeAt lv j).active)) []
  | _ => walk d sorted 0 [d.root] []
where
  /-- `fuel` bounds the skipping of levels -/
  walk (d : Diagram V) : List (Nat × Nat) → Nat → List Nat → List (Nat × Nat × Nat) → Except Err (List (Nat × Nat × Nat))
    | [], _, _, loc => pure loc
    | (u, v) :: rest, cur, nodes, _ => do
        let (cur', nodes') ← skip d u cur nodes (d.levels.length + 1)
        let lv := d.levels.getD cur' []
        let loc := nodes'.map (fun j => (cur', j, v))
        walk d rest (cur' + 1) (dedupSorted (nodes'.map (fun j => (nodeAt lv j).ch v))) loc
  skip (d : Diagram V) (u : Nat) : Nat → List Nat → Nat → Except Err (Nat × List Nat)
    | _, _, 0 => throw Err.indexError
    | cur, nodes, fuel + 1 =>
        match d.units[cur]? with
        | none => throw Err.indexError
        | some u' =>
            if u' == u then pure (cur, nodes)
            else
              let lv := d.levels.getD cur []
              skip d u (cur + 1) (dedupSorted (nodes.flatMap (fun j => (List.range d.C).map (fun c => (nodeAt lv j).ch c)))) fuel

/-- `update(location, avalue, increment)` -/
def Diagram.update (d : Diagram V) (loc : List (Nat × Nat × Nat)) (v : V) (increment : Bool) : Diagram V :=
  { d with levels := loc.foldl (fun L e =>
      L.modify e.1 (fun lv => lv.modify e.2.1 (fun nd =>
        { nd with adder := nd.adder.modify e.2.2 (fun old => if increment then old + v else v) }))) d.levels }

/-! ### sum (product construction with `setdefault` numbering) -/

abbrev Pair := Nat × Nat

/-- `cnodes.setdefault(p, len(cnodes))` on an insertion-ordered table -/
def intern (tbl : List Pair) (p : Pair) : List Pair × Nat :=
  if tbl.idxOf p < tbl.length then (tbl, tbl.idxOf p) else (tbl ++ [p], tbl.length)

def internAll : List Pair → List Pair → List Pair × List Nat
  | tbl, [] => (tbl, [])
  | tbl, p :: ps => ((internAll (intern tbl p).1 ps).1, (intern tbl p).2 :: (internAll (intern tbl p).1 ps).2)

def reqs (C : Nat) (la lb : Level V) (p : Pair) : List Pair :=
  (List.range C).map (fun c => ((nodeAt la p.1).ch c, (nodeAt lb p.2).ch c))

/-- one level of `ADD.sum`: nodes are created in the order of `pairs`; returns the next table -/
def sumLevel (C : Nat) (la lb : Level V) : List Pair → List Pair → List Pair × Level V
  | tbl, [] => (tbl, [])
  | tbl, p :: ps =>
      ((sumLevel C la lb (internAll tbl (reqs C la lb p)).1 ps).1,
       { active := true
         child := (internAll tbl (reqs C la lb p)).2
         adder := (List.range C).map (fun c => (nodeAt la p.1).ad c + (nodeAt lb p.2).ad c) } ::
        (sumLevel C la lb (internAll tbl (reqs C la lb p)).1 ps).2)

def sumLevels (C : Nat) : List (Level V) → List (Level V) → List Pair → List (Level V)
  | la :: ra, lb :: rb, pairs =>
      (sumLevel C la lb [] pairs).2 :: sumLevels C ra rb (sumLevel C la lb [] pairs).1
  | _, _, _ => []

def Diagram.sum (a b : Diagram V) : Except Err (Diagram V) :=
  if a.units != b.units || a.C != b.C then throw Err.assertionError
  else
    let diam := a.diameter * b.diameter
    pure { units := a.units, C := a.C, diameter := diam, root := 0,
           levels := (sumLevels a.C a.levels b.levels [(a.root, b.root)]).map (padLevel a.C · diam) }

/-- `add.adder[:, :, c] += v` (used by the oracle on the value-1 edges) -/
def Diagram.addOnCandidate (d : Diagram V) (c : Nat) (v : V) : Diagram V :=
  { d with levels := d.levels.map (fun lv => lv.map (fun nd => { nd with adder := nd.adder.modify c (· + v) })) }

/-! ### modelcount -/

variable [DecidableEq V]

/-- the backward dynamic programme of `ADD.modelcount` as a recurrence: number of argument tuples
below node `j` whose edge values add up to `e` (`sub? e a` is `e - a`, `none` when invalid) -/
def mc (C : Nat) (sub? : V → V → Option V) : List (Level V) → Nat → V → Nat
  | [], _, e => if e = 0 then 1 else 0
  | lv :: rest, j, e =>
      if (nodeAt lv j).active then
        ((List.range C).map (fun c =>
          match sub? e ((nodeAt lv j).ad c) with
          | some r => mc C sub? rest ((nodeAt lv j).ch c) r
          | none => 0)).sum
      else 0

/-- `modelcount()`: one count per valid value of the domain (in domain order), then the number of
remaining assignments, `2 ** len(units) - sum` -/
def Diagram.modelcount (d : Diagram V) (sub? : V → V → Option V) (valid : List V) : List Int :=
  let counts := valid.map (fun e => (mc d.C sub? d.levels d.root e : Int))
  counts ++ [(2 : Int) ^ d.units.length - counts.sum]

end
end Ds.Dd
