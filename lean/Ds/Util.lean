import Ds.Basic
/-!
# Ds.Util — element-wise utilities, null scores, JointUtility
Models of `SklearnModelAccuracy`, `SklearnModelRocAuc` (`elementwise_score`,
`elementwise_null_score`, `null_score`) and of `JointUtility`.  Labels are integers; `classes` is the
sorted list of distinct training labels (`np.unique(y_train)`).
-/
namespace Ds.Util

def count (ys : List Int) (c : Int) : Nat := (ys.filter (· == c)).length
def ind (b : Bool) : Rat := if b then 1 else 0
def mean (l : List Rat) : Rat := l.sum / (l.length : Nat)

/-- `np.unique` -/
def unique (ys : List Int) : List Int := (ys.mergeSort (· ≤ ·)).eraseDups

/-- `LabelEncoder.transform`: position in the sorted class list; unseen label = `ValueError` -/
def encode (classes : List Int) (y : Int) : Except Err Nat :=
  if classes.contains y then pure (classes.idxOf y) else throw Err.valueError

/-- `SklearnModelAccuracy.elementwise_score`: `[c][j] = (classes[c] == y_test[j])` -/
def accElem (classes yTest : List Int) : List (List Rat) :=
  classes.map (fun c => yTest.map (fun y => ind (c == y)))

/-- `accuracy_score` -/
def accuracy (yTest pred : List Int) : Rat := mean ((yTest.zip pred).map (fun p => ind (p.1 == p.2)))

/-- `SklearnModelAccuracy.elementwise_null_score`: the indicator vector of the first class (in sorted
order) whose constant prediction has the strictly smallest accuracy so far -/
def accNullElem (classes yTest : List Int) : List Rat :=
  (classes.foldl (fun (st : Option Rat × List Rat) x =>
      let e := yTest.map (fun y => ind (y == x))
      let sc := mean e
      match st.1 with
      | none => (some sc, e)                    -- `min_score = inf`
      | some m => if m > sc then (some sc, e) else st)
    (none, yTest.map (fun _ => (0 : Rat)))).2

/-- `SklearnModelUtility.null_score` for accuracy: lowest accuracy of a constant training class -/
def accNull (classes yTest : List Int) : Option Rat :=
  match classes.map (fun x => accuracy yTest (yTest.map (fun _ => x))) with
  | [] => none
  | s :: ss => some (ss.foldl min s)

/-- `SklearnModelRocAuc.elementwise_score`; `none` when a class count is zero (the real code divides
by zero there) -/
def aucElem (classes yTest : List Int) : Option (List (List Rat)) :=
  let n := yTest.length
  if classes.any (fun c => count yTest c == 0 || count yTest c == n) then none else
  some (classes.map (fun k => yTest.map (fun y =>
    (classes.map (fun c =>
      let p : Rat := (count yTest c : Nat)
      let q : Rat := ((n - count yTest c : Nat) : Nat)
      let eq := ind (k == y)
      (eq * ind (c == y) / p + eq * ind (c != y) / q) * (1 / 2))).sum / (classes.length : Nat))))

/-- `SklearnModelRocAuc.elementwise_null_score`: constant prediction of the least frequent
validation class (first minimum in sorted order) -/
def aucNullElem (yTest : List Int) : Option (List Rat) :=
  let cls := unique yTest
  let n := yTest.length
  if cls.any (fun c => count yTest c == n) || cls.isEmpty then none else
  let counts := cls.map (count yTest)
  let mn := counts.foldl min (counts.headD 0)
  let lf := cls.getD (counts.idxOf mn) 0
  some (yTest.map (fun y =>
    (cls.map (fun c =>
      let p : Rat := (count yTest c : Nat)
      let q : Rat := ((n - count yTest c : Nat) : Nat)
      let eq := ind (lf == y)
      (eq * ind (c == y) / p + eq * ind (c != y) / q) * (1 / 2))).sum / (cls.length : Nat)))

/-- ROC-AUC of a hard 0/1 prediction vector on binary labels: `(TPR + TNR) / 2`
(contract of `roc_auc_score` on one-hot probabilities; validated against scikit-learn) -/
def aucHard (pos : Int) (yTest pred : List Int) : Option Rat :=
  let zp := yTest.zip pred
  let P := count yTest pos
  let N := yTest.length - P
  if P == 0 || N == 0 then none else
  let tp := (zp.filter (fun p => p.1 == pos && p.2 == pos)).length
  let tn := (zp.filter (fun p => p.1 != pos && p.2 != pos)).length
  some ((((tp : Nat) : Rat) / (P : Nat) + ((tn : Nat) : Rat) / (N : Nat)) / 2)

/-- `JointUtility`: weighted sums (no normalisation of the weights) -/
def jointScalar (ws : List Rat) (xs : List Rat) : Rat := ((ws.zip xs).map (fun p => p.1 * p.2)).sum

def jointElem (ws : List Rat) (ms : List (List (List Rat))) : List (List Rat) :=
  match ms with
  | [] => []
  | m0 :: _ =>
    (List.range m0.length).map (fun c => (List.range (m0.getD c []).length).map (fun j =>
      jointScalar ws (ms.map (fun m => (m.getD c []).getD j 0))))

/-- `JointUtility.__call__`: components are called with `null_score = NaN`; if any component score is
NaN (`none`) the joint score is the supplied null score -/
def jointCall (ws : List Rat) (rs : List (Option Rat)) (null : Rat) : Rat :=
  if rs.any Option.isNone then null else jointScalar ws (rs.map (·.getD 0))

end Ds.Util
