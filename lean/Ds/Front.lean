import Ds.Basic
/-!
# Ds.Front — the front end of a run (hand-written model)
Model of `Importance.fit` / `score` and `ShapleyImportance.__init__` / `_fit` / `_score` / `_shapley`: what a user's three calls

    imp = ShapleyImportance(method=…, utility=…, mc_iterations=…, …, nn_k=…)
    imp.fit(X, y, metadata, provenance)
    imp.score(X, y, metadata, units=…, world=…)

hand to the algorithm that computes the scores.  `Arg` names the origin of a value; `algorithm` / `argOf` say which algorithm runs and what each of its parameters receives;
`provenanceOf`, `unitsOf`, `worldOf` are the three values the front end computes itself.
-/
namespace Ds.Front

/-- origin of a value handed to an algorithm -/
inductive Arg where
  | ctor (p : String) | fit (p : String) | score (p : String) | provenance | units | world
  deriving DecidableEq, Repr

inductive Method where
  | bruteforce | montecarlo | neighbor
  deriving DecidableEq, Repr

def Method.name : Method → String
  | .bruteforce => "bruteforce" | .montecarlo => "montecarlo" | .neighbor => "neighbor"

/-- the algorithm behind a method -/
def algorithm : Method → String
  | .bruteforce => "_shapley_bruteforce" | .montecarlo => "_shapley_montecarlo" | .neighbor => "_shapley_neighbor"

/-- the data arguments every algorithm receives: training data from `fit`, validation data from `score`, the resolved provenance / units / world -/
def common : List (String × Arg) :=
  [("X_test", .score "X"), ("X_train", .fit "X"), ("metadata_test", .score "metadata"), ("metadata_train", .fit "metadata"), ("provenance", .provenance),
   ("units", .units), ("world", .world), ("y_test", .score "y"), ("y_train", .fit "y")]

/-- the configuration each algorithm additionally receives: every knob from the constructor argument of the same purpose -/
def knobs : Method → List (String × Arg)
  | .bruteforce => []
  | .montecarlo => [("iterations", .ctor "mc_iterations"), ("timeout", .ctor "mc_timeout"), ("tolerance", .ctor "mc_tolerance"), ("truncation_steps", .ctor "mc_truncation_steps")]
  | .neighbor => [("distance", .ctor "nn_distance"), ("k", .ctor "nn_k")]

/-- what parameter `p` of the algorithm of method `m` receives -/
def argOf (m : Method) (p : String) : Option Arg := ((common ++ knobs m).find? (fun kv => kv.1 == p)).map (·.2)

/-- what `fit()` may be handed as provenance (or find attached to `X`): an array of group identifiers, or a `Provenance` object -/
inductive ProvVal where
  | array | object
  deriving DecidableEq, Repr

inductive ProvUsed where
  | ofArray | default | asGiven
  deriving DecidableEq, Repr

/-- the provenance of a run: the `provenance=` argument wins over one attached to `X`; an array is wrapped (`Provenance(data=…)`, `Ds.Prov.ofGroups`), an object is used as it is,
and with neither there is one unit per training row (`Provenance(units=len(X))`, `Ds.Prov.default`) -/
def provenanceOf (attached arg : Option ProvVal) : ProvUsed :=
  match arg, attached with
  | some .array, _ => .ofArray
  | some .object, _ => .asGiven
  | none, some .array => .ofArray
  | none, some .object => .asGiven
  | none, none => .default

/-- `units=` / `world=` of `score()` -/
inductive Sel (κ : Type) where
  | none | array (a : List Int) | keys (ks : List κ)

/-- the units that are scored, as positions: all of them in order when `units=` is left out; an ndarray as it is; keys through the provenance's `units_index`
(KeyError for an unknown key) -/
def unitsOf {κ : Type} (numUnits : Nat) (index : κ → Option Int) : Sel κ → Except Err (List Int)
  | .none => pure ((List.range numUnits).map (fun (i : Nat) => (i : Int)))
  | .array a => pure a
  | .keys ks => ks.mapM (fun x => match index x with | some i => pure i | none => throw Err.keyError)

/-- the world: candidate 1 for every scored unit when left out -/
def worldOf {κ : Type} (units : List Int) (index : κ → Option Int) : Sel κ → Except Err (List Int)
  | .none => pure (List.replicate units.length 1)
  | .array a => pure a
  | .keys ks => ks.mapM (fun x => match index x with | some i => pure i | none => throw Err.keyError)

end Ds.Front
