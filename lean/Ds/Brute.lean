import Ds.Basic
import Ds.Prov
/-!
# Ds.Brute / Ds.MC — enumeration and permutation sampling
Models of `ShapleyImportance._shapley_bruteforce` and `._shapley_montecarlo` (after fixes F4, F11).
A coalition evaluation is an `Outcome`: a score, or the class of the exception it raised.
-/
namespace Ds

/-- what evaluating the utility on a row subset did -/
inductive Outcome where
  | ok (s : Rat)
  | valueError | runtimeWarning | userWarning
  | other                       -- any other exception class: not caught by the scoring loops
  deriving Repr, BEq, DecidableEq, Inhabited

/-- the `try … except (ValueError, RuntimeWarning, UserWarning): pass` of both scoring loops:
`some score` or `none` when the exception propagates -/
def Outcome.caught (null : Rat) : Outcome → Option Rat
  | .ok s => some s
  | .valueError | .runtimeWarning | .userWarning => some null
  | .other => none

/-- layer 1: `SklearnModelUtility.__call__` catches `(ValueError, RuntimeWarning)` and returns the
supplied null score; everything else propagates to layer 2 -/
def Outcome.layer1 (null : Rat) : Outcome → Outcome
  | .ok s => .ok s
  | .valueError | .runtimeWarning => .ok null
  | o => o

namespace Brute

def f0 (n s : Nat) : Rat := -1 / ((choose (n - 1) (min s (n - 1)) : Nat) * (n : Rat))
def f1 (n s : Nat) : Rat := 1 / ((choose (n - 1) (max (s - 1) 0) : Nat) * (n : Rat))

/-- weight of assignment `a` for unit `i`: `(1 - iter[i]) * factor_0 + iter[i] * factor_1` -/
def weight (n : Nat) (a : List Nat) (i : Nat) : Rat :=
  let s := a.sum
  let x : Rat := (a.getD i 0 : Nat)
  (1 - x) * f0 n s + x * f1 n s

/-- the accumulation loop over all assignments in `itertools.product` order.
`v a` is the outcome of evaluating the coalition `a`; an uncaught exception propagates (`none`). -/
def scores (n : Nat) (v : List Nat → Outcome) (null : Rat) : Option (List Rat) :=
  (allAssign n).foldlM (fun (imp : List Rat) a =>
      match (v a).caught null with
      | none => none
      | some sc => some ((List.range n).map (fun i => imp.getD i 0 + sc * weight n a i)))
    (List.replicate n 0)

end Brute

namespace MC

structure Params where
  timeout : Rat := 0
  tolerance : Rat := 1 / 10
  truncSteps : Nat := 5
  deriving Repr

def absR (x : Rat) : Rat := if x < 0 then -x else x

/-- state of the walk along one permutation -/
structure Walk where
  query : List Int
  score : Rat            -- `new_score`
  counter : Nat          -- `truncation_counter`
  imp : List Rat         -- `importance`
  cut : Bool             -- `break` taken
  deriving Repr

/-- one step `j` of the inner loop for unit `idx` -/
def step (v : List Int → Outcome) (null mean : Rat) (pr : Params) (w : Walk) (idx : Nat) : Option Walk :=
  if w.cut then some w else
  let q := w.query.set idx 1
  match (v q).caught null with
  | none => none
  | some new =>
    let imp := w.imp.set idx (new - w.score)
    if absR (new - mean) ≤ absR (pr.tolerance * mean) then
      let c := w.counter + 1
      some { query := q, score := new, counter := c, imp := imp, cut := pr.truncSteps > 0 && c > pr.truncSteps }
    else
      some { query := q, score := new, counter := 0, imp := imp, cut := false }

/-- one permutation: the column written into `all_importances[:, i]`.  The walk starts by scoring the
coalition of no units (all-zero query); that score is the baseline of the first unit's marginal. -/
def column (n : Nat) (v : List Int → Outcome) (null mean : Rat) (pr : Params) (perm : List Nat) : Option (List Rat) :=
  match (v (List.replicate n 0)).caught null with
  | none => none
  | some s0 =>
    (perm.foldlM (step v null mean pr)
      { query := List.replicate n 0, score := s0, counter := 0, imp := List.replicate n 0, cut := false }).map (·.imp)

/-- columns kept: iteration `i` is followed by the clock reading `clock[i+1]`; the loop stops after
the first iteration whose reading exceeds the budget, *keeping* that iteration (F4) -/
def keep (pr : Params) (start : Rat) : List (List Rat) → List Rat → List (List Rat)
  | [], _ => []
  | c :: cs, [] => c :: keep pr start cs []
  | c :: cs, t :: ts => if pr.timeout > 0 ∧ t - start > pr.timeout then [c] else c :: keep pr start cs ts

def average (n : Nat) (cols : List (List Rat)) : Option (List Rat) :=
  if cols.isEmpty then none      -- NumPy: mean of an empty slice = NaN
  else some ((List.range n).map (fun i => (cols.map (·.getD i 0)).sum / (cols.length : Nat)))

/-- the whole method.  `perms` are the permutations drawn (one per iteration), `clock` the successive
readings of `time.time()` (first = `start_time`).  Outer `none` = an exception propagated;
inner `none` = NaN scores. -/
def run (n : Nat) (v : List Int → Outcome) (null mean : Rat) (pr : Params)
    (perms : List (List Nat)) (clock : List Rat) : Option (Option (List Rat)) := do
  let cols ← perms.mapM (column n v null mean pr)
  pure (average n (keep pr (clock.headD 0) cols clock.tail))

end MC

/-! ## the scoring loops on top of a provenance container
`indices = provenance.query(iter)` selects the training rows handed to the utility; `util rows` is the
outcome of evaluating the utility on exactly those rows (ascending row indices). -/

/-- coalition evaluation as both loops perform it: query the container, evaluate the utility on the
selected rows; a failing query is an uncaught exception -/
def evalRows (p : Prov.P) (util : List Nat → Outcome) (q : List Int) : Outcome :=
  match Prov.queryIdx p q with
  | .ok rows => util rows
  | .error _ => .other

def Brute.scoresProv (p : Prov.P) (util : List Nat → Outcome) (null : Rat) : Option (List Rat) :=
  Brute.scores p.nUnits (fun a => evalRows p util (a.map Int.ofNat)) null

def MC.runProv (p : Prov.P) (util : List Nat → Outcome) (null mean : Rat) (pr : MC.Params)
    (perms : List (List Nat)) (clock : List Rat) : Option (Option (List Rat)) :=
  MC.run p.nUnits (evalRows p util) null mean pr perms clock

end Ds
