import Ds.Basic
/-!
# Ds.AVal — saturating value domains (`AValue[max…]`, `ATally[n, K, c]`)
Model of `datascope/utility/add.py:AValue` and `datascope/importance/oracle.py:ATally`.
A value is a vector of naturals inside a domain, or the single invalid value `none` ("inf").
-/
namespace Ds

/-- a value domain -/
inductive Dom where
  | box (maxv : List Nat)           -- `AValue[m₀, m₁, …]`: component `i` at most `mᵢ`
  | tally (n K c : Nat)             -- `ATally[n, K, c]`: first ≤ n, each block of `c` labels sums ≤ K
  deriving Repr, BEq, DecidableEq, Inhabited

namespace Dom

def dim : Dom → Nat
  | box m => m.length
  | tally _ _ c => 1 + 2 * c

/-- `maxvalue` -/
def maxv : Dom → List Nat
  | box m => m
  | tally n K c => n :: List.replicate (2 * c) K

/-- membership test of `_clip` (on vectors of the right length with non-negative entries) -/
def ok : Dom → List Nat → Bool
  | box m, x => x.length == m.length && (List.zipWith (fun a b => decide (a ≤ b)) x m).all id
  | tally n K c, x =>
      x.length == 1 + 2 * c && decide (x.headD 0 ≤ n) &&
        decide (((x.drop 1).take c).sum ≤ K) && decide (((x.drop (1 + c)).take c).sum ≤ K)

def zeroVec (D : Dom) : List Nat := List.replicate D.dim 0

end Dom

/-- a clipped value of domain `D`; `none` is the invalid value -/
abbrev AVal (D : Dom) := Option {x : List Nat // D.ok x = true}

namespace AVal
variable {D : Dom}

/-- `_clip` on a non-negative vector -/
def clip (D : Dom) (x : List Nat) : AVal D := if h : D.ok x = true then some ⟨x, h⟩ else none

/-- `_clip` on an integer vector: any negative entry makes it invalid -/
def clipI (D : Dom) (x : List Int) : AVal D :=
  if x.any (· < 0) then none else clip D (x.map Int.toNat)

/-- the array behind a value: the invalid value is stored as `maxvalue + 1` -/
def raw : AVal D → List Int
  | some x => x.1.map Int.ofNat
  | none => D.maxv.map (fun m => Int.ofNat (m + 1))

/-- `__add__` / `__iadd__` -/
def add : AVal D → AVal D → AVal D
  | some a, some b => clip D (List.zipWith (· + ·) a.1 b.1)
  | _, _ => none

/-- `__sub__`: `clip(self._value - other._value)` on the stored arrays (so the invalid minuend is
`maxvalue + 1`, exactly as in Python; the property only speaks about valid minuends) -/
def sub (a b : AVal D) : AVal D := clipI D (List.zipWith (· - ·) (raw a) (raw b))

/-- `e - a` as a partial operation (what `modelcount` uses) -/
def sub? (e a : AVal D) : Option (AVal D) :=
  match sub e a with
  | none => none
  | r => some r

instance : Add (AVal D) := ⟨add⟩

def zero (D : Dom) : AVal D := clip D D.zeroVec
instance : Zero (AVal D) := ⟨zero D⟩

def toList : AVal D → Option (List Nat)
  | some x => some x.1
  | none => none

/-- constructor from an integer tuple (broadcasting of length-1 tuples as `AValue.__init__` does) -/
def ofInts (D : Dom) (x : List Int) : Except Err (AVal D) :=
  if x.length == D.dim then pure (clipI D x)
  else if x.length == 1 then pure (clipI D (List.replicate D.dim (x.headD 0)))
  else throw Err.valueError

end AVal

namespace Dom

/-- all vectors `x` with `x[i] ≤ m[i]` in `itertools.product` order -/
def boxVecs : List Nat → List (List Nat)
  | [] => [[]]
  | m :: ms => (List.range (m + 1)).flatMap (fun v => (boxVecs ms).map (v :: ·))

/-- `domain_single`: label tallies of `c` classes summing to at most `K`, product order -/
def singles (K c : Nat) : List (List Nat) := (boxVecs (List.replicate c K)).filter (fun x => x.sum ≤ K)

/-- the valid vectors of the domain in the order of `domain()` -/
def vecs : Dom → List (List Nat)
  | box m => boxVecs m
  | tally n K c =>
      (List.range (n + 1)).flatMap (fun t => (singles K c).flatMap (fun w => (singles K c).map (fun wo => t :: (w ++ wo))))

/-- `domain()`: valid values, then the invalid one -/
def domain (D : Dom) : List (AVal D) := D.vecs.map (AVal.clip D) ++ [none]

/-- `ATally.__index__`: position in the enumerated domain -/
def index (D : Dom) (v : AVal D) : Nat := D.domain.idxOf v

/-- `AValue.__index__`: mixed radix number, the invalid value last -/
def boxIndex (m : List Nat) : Option (List Nat) → Nat
  | none => (m.map (· + 1)).foldl (· * ·) 1
  | some x => (List.zipWith (fun v (w : Nat) => v * w) x (weights m)).sum
where
  weights : List Nat → List Nat
    | [] => []
    | _ :: ms => (ms.map (· + 1)).foldl (· * ·) 1 :: weights ms

/-- `domainsize` as declared by the class -/
def domainsize : Dom → Nat
  | box m => (m.map (· + 1)).foldl (· * ·) 1 + 1
  | tally n K c => (n + 1) * (choose (K + c) c) ^ 2 + 1

end Dom
end Ds
