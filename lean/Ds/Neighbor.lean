import Ds.Kernel
import Ds.Prov
import Ds.Util
import Ds.Oracle
/-!
# Ds.Neighbor — `_shapley_neighbor` end to end, and the fit/score session
Label encoding, batching, dispatch between the 1-NN map/fork kernel and the ADD path.
-/
namespace Ds.Neighbor

/-- `BATCH_DISTANCE_MATRIX_SIZE` -/
def defaultBatchMatrixSize : Nat := 1024 * 1024 * 32

/-- `get_test_batch_size` exactly as written -/
def getTestBatchSize (B nTrain nTest : Nat) : Nat :=
  let matrixSize := nTrain * nTest
  let nMatrices := max (matrixSize / B) 1
  max (nTest / nMatrices) nTest

/-- the element-wise utility handed to the kernel -/
inductive UtilSpec where
  | accuracy
  | rocauc
  | custom (util : List (List Rat)) (nulls : List Rat)     -- `[class][point]`, `[point]`
  deriving Repr

def utilMatrices (u : UtilSpec) (nClasses : Nat) (yTe : List Nat) : Except Err (List (List Rat) × List Rat) :=
  let cls : List Int := (List.range nClasses).map Int.ofNat
  let yT : List Int := yTe.map Int.ofNat
  match u with
  | .accuracy => pure (Util.accElem cls yT, Util.accNullElem cls yT)
  | .rocauc => match Util.aucElem cls yT, Util.aucNullElem yT with
      | some a, some b => pure (a, b)
      | _, _ => throw Err.other
  | .custom m nl => pure (m, nl)

/-- rows owned by each unit: `provenance.query` with only that unit switched on -/
def rowsOf (p : Prov.P) : Except Err (List (List Nat)) :=
  (List.range p.nUnits).mapM (fun u => Prov.queryIdx p ((List.replicate p.nUnits (0 : Int)).set u 1))

def column {β : Type} (m : List (List β)) (j : Nat) (d : β) : List β := m.map (·.getD j d)

/-- `compute_shapley_1nn_mapfork`: per-unit reduction, argsort, kernel.  `orders` (optional) are the
sort orders the implementation's `argsort` returned; they must weakly sort the unit distances. -/
def mapfork (p : Prov.P) (simple : Bool) (labels : List Nat) (dist : List (List Rat)) (util : List (List Rat))
    (nulls : List Rat) (nb : Nat) (orders : Option (List (List Nat))) : Except Err (List Rat) := do
  let (ul, ud) ← if simple then pure (labels.map (fun l => List.replicate nb l), dist)
                 else do let ro ← rowsOf p; pure (Kernel.unitReduce ro labels dist nb util.length)
  let n := ul.length
  let ords ← match orders with
    | none => pure ((List.range nb).map (fun j => Kernel.argsortStable (column ud j 0)))
    | some os =>
        if (List.range nb).all (fun j => Kernel.sortsWeakly (column ud j 0) (os.getD j [])) then pure os
        else throw Err.other
  pure (Kernel.importances n ((List.range nb).map (fun j => column ul j 0)) ords
          ((List.range nb).map (fun j => column util j 0)) (nulls.take nb))

/-- `_shapley_neighbor` (labels already integers; `dist[row][point]` is what the distance callable
returned for the whole validation set) -/
def score (B : Nat) (p : Prov.P) (simple : Bool) (yTrain yTest : List Int) (dist : List (List Rat)) (K : Nat)
    (u : UtilSpec) (orders : Option (List (List Nat))) : Except Err (List Rat) := do
  if p.nDisj > 1 then throw Err.valueError
  let classes := Util.unique yTrain
  let yTr ← yTrain.mapM (Util.encode classes)
  let yTe ← yTest.mapM (Util.encode classes)
  let nTrain := yTrain.length
  let nTest := yTest.length
  let n := p.nUnits
  let bs := getTestBatchSize B nTrain nTest
  if bs == 0 then throw Err.valueError
  -- NB: as in the code, the element-wise utilities are computed from the *unsliced* `y_test`
  let (util, nulls) ← utilMatrices u classes.length yTe
  let starts := (List.range ((nTest + bs - 1) / bs)).map (· * bs)
  let mut acc : List Rat := List.replicate n 0
  for start in starts do
    let nb := min bs (nTest - start)
    let distB := dist.map (fun row => (row.drop start).take nb)
    let cur ← if K == 1 && p.nConj == 1 then mapfork p simple yTr distB util nulls nb (if starts.length == 1 then orders else none)
              else Oracle.scores p yTr distB (util.map (·.take nb)) (nulls.take nb) K classes.length
    acc := List.zipWith (fun a c => a + c * ((nb : Nat) : Rat) / ((nTest : Nat) : Rat)) acc cur
  pure acc

end Ds.Neighbor

namespace Ds.Session
/-!
The fit/score protocol of `ShapleyImportance` as a state machine: `fit` overwrites the fitted
fields, `score` reads them and leaves the state unchanged.
-/
structure State (Data : Type) where
  fitted : Option Data := none

inductive Op (Data Arg : Type) where
  | fit (d : Data)
  | score (a : Arg)

/-- one call; `scoreFn` is the (pure) scoring function of the chosen method -/
def step {Data Arg Out : Type} (scoreFn : Data → Arg → Out) (s : State Data) : Op Data Arg → State Data × Option (Except Err Out)
  | .fit d => ({ fitted := some d }, none)
  | .score a => match s.fitted with
      | none => (s, some (.error Err.valueError))      -- "The fit function was not called first."
      | some d => (s, some (.ok (scoreFn d a)))

def run {Data Arg Out : Type} (scoreFn : Data → Arg → Out) (s : State Data) : List (Op Data Arg) → State Data × List (Option (Except Err Out))
  | [] => (s, [])
  | op :: ops =>
      let r := step scoreFn s op
      let rest := run scoreFn r.1 ops
      (rest.1, r.2 :: rest.2)

end Ds.Session
