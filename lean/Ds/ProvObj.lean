import Ds.Prov
import Ds.Neighbor
/-!
# Ds.ProvObj — the `Provenance` OBJECT: padded array plus the `_is_simple` flag

`Provenance.__init__` sets `_is_simple = True` only for `Provenance(units=…)` with no data and no
expressions (one tuple per unit, in unit order); `get_unit_labels_and_distances` trusts the flag to skip
the per-unit grouping on the 1-NN path.  Every in-place mutation (`__setitem__`, `insert`,
`__delitem__`) clears the flag *before* doing anything else (fix F17), so it is cleared even when the
mutation then raises; every derived container (`p[slice]`, `p[mask]`, `fork`) is built by
`Provenance(units=…, data=…)` and starts with the flag off.
-/
namespace Ds.Prov

structure Obj where
  p : P
  simple : Bool
  deriving Repr, BEq, Inhabited

namespace Obj

/-- `Provenance(units=n)` -/
def ofDefault (n : Nat) (nCands : Nat := 2) : Obj := ⟨Prov.default n nCands, true⟩
/-- `Provenance(expressions)` -/
def ofExprs (es : List Expr) (nUnits : Nat) (nCands : Nat := 2) : Obj := ⟨Prov.ofExprs es nUnits nCands, false⟩
/-- `Provenance(data=ids)` -/
def ofGroups (ids : List Int) (nCands : Nat := 2) : Obj := ⟨Prov.ofGroups ids nCands, false⟩

/-- in-place mutations of one object -/
inductive Op where
  | set (i : Int) (e : Expr)
  | insert (i : Int) (e : Expr)
  | del (i : Int)
  | delMany (idx : List Nat)
  deriving Repr, Inhabited

/-- one mutation: the new object and the exception raised, if any.  The flag is cleared first; when the
array operation raises, the rows are unchanged. -/
def step (o : Obj) : Op → Obj × Option Err
  | .set i e => match Prov.setItem o.p i e with
      | .ok p' => (⟨p', false⟩, none)
      | .error er => (⟨o.p, false⟩, some er)
  | .insert i e => match Prov.insert o.p i e with
      | .ok p' => (⟨p', false⟩, none)
      | .error er => (⟨o.p, false⟩, some er)
  | .del i => match Prov.delItem o.p i with
      | .ok p' => (⟨p', false⟩, none)
      | .error er => (⟨o.p, false⟩, some er)
  | .delMany idx => (⟨Prov.delMany o.p idx, false⟩, none)

def run (o : Obj) (ops : List Op) : Obj := ops.foldl (fun o op => (step o op).1) o

/-- derived containers are fresh objects with the flag off -/
def select (o : Obj) (idx : List Nat) : Obj := ⟨Prov.select o.p idx, false⟩
def fork (o : Obj) (sizes : List Nat) : Obj := ⟨Prov.fork o.p sizes, false⟩

/-- what the flag promises: the rows are exactly the default rows of the object's own unit set -/
def Inv (o : Obj) : Prop := o.simple = true → o.p = Prov.default o.p.nUnits o.p.nCands

end Obj
end Ds.Prov

namespace Ds.Neighbor

/-- `_shapley_neighbor` as the library runs it: the fast path is chosen by the object's own flag -/
def scoreObj (B : Nat) (o : Prov.Obj) (yTrain yTest : List Int) (dist : List (List Rat)) (K : Nat)
    (u : UtilSpec) (orders : Option (List (List Nat))) : Except Err (List Rat) :=
  score B o.p o.simple yTrain yTest dist K u orders

end Ds.Neighbor
