import Ds.Prov
import Ds.AVal
import Ds.Add
/-!
# Ds.Oracle — the Shapley oracle, the ADD scoring path and the K-NN game
Models of `oracle.py:compile`, `oracle.py:ShapleyOracle`, `shapley.py:compute_shapley_add`
(after fixes F1, F2, F3a) and the by-definition K-NN coalition value they are specified against.
-/
namespace Ds.Oracle
open Ds.Dd

/-- literals of the first disjunct of a row that are not padding -/
def rowLits (r : Prov.Row) : List (Nat × Nat) :=
  ((r.getD 0 []).filter (fun l => l.1 != -1 && l.2 != -1)).map (fun l => (l.1.toNat, l.2.toNat))

/-- units of the first disjunct (`data[t, 0, :, 0] != -1`) -/
def rowUnits (r : Prov.Row) : List Nat := ((r.getD 0 []).filter (fun l => l.1 != -1)).map (fun l => l.1.toNat)

structure Compiled (V : Type) where
  add : Diagram V
  locs : List (List (Nat × Nat × Nat))

/-! graph routines of `compile` -/

def pairsOf (us : List Nat) : List (Nat × Nat) :=
  match us with
  | [] => []
  | u :: rest => rest.map (fun v => (u, v)) ++ pairsOf rest

def neighborsOf (pairs : List (Nat × Nat)) (u : Nat) : List Nat :=
  dedupSorted (pairs.filterMap (fun p => if p.1 == u then some p.2 else if p.2 == u then some p.1 else none))

/-- connected component of `u` (closure under `neighborsOf`, at most `fuel` rounds) -/
def componentOf (pairs : List (Nat × Nat)) (u : Nat) : Nat → List Nat → List Nat
  | 0, acc => acc
  | fuel + 1, acc =>
      let acc' := dedupSorted (acc ++ acc.flatMap (neighborsOf pairs))
      if acc'.length == acc.length then acc else componentOf pairs u fuel acc'

/-- components in the order of their smallest unit (`connected_components` labels) -/
def components (n : Nat) (pairs : List (Nat × Nat)) : List (List Nat) :=
  (List.range n).foldl (fun comps u =>
    if comps.any (·.contains u) then comps else comps ++ [componentOf pairs u n [u]]) []

/-- greedy independent set in order of increasing degree (stable order) -/
def leafUnits (n : Nat) (pairs : List (Nat × Nat)) : List Nat :=
  let deg (u : Nat) := (pairs.filter (fun p => p.1 == u || p.2 == u)).length
  let order := (List.range n).mergeSort (fun a b => deg a ≤ deg b)
  (order.foldl (fun (st : List Nat × List Nat) u =>
      if st.2.contains u then (st.1 ++ [u], st.2.filter (fun x => !(neighborsOf pairs u).contains x)) else st)
    ([], List.range n)).1

section
variable {V : Type} [Add V] [Zero V]

/-- `compile(provenance, atype)` -/
def compile (p : Prov.P) : Except Err (Compiled V) := do
  if p.nDisj > 1 then throw Err.valueError
  if p.nConj == 1 then
    let locs := p.data.map (fun r =>
      let l := (r.getD 0 []).getD 0 Prov.padLit
      [(l.1.toNat, 0, l.2.toNat)])
    pure { add := chain (List.range p.nUnits) p.nCands, locs := locs }
  else
    let pairs := (p.data.flatMap (fun r => pairsOf (dedupSorted (rowUnits r)))).eraseDups
    if pairs.isEmpty then throw Err.indexError       -- `pairings[:, 0]` on an empty array
    let comps := components p.nUnits pairs
    let leaves := leafUnits p.nUnits pairs
    let vertical ← comps.mapM (fun comp => do
      let factors := comp.filter (fun u => !leaves.contains u)
      let lvs := comp.filter (fun u => leaves.contains u)
      let element : Diagram V := chain lvs p.nCands
      if factors.isEmpty then pure element                     -- F3a
      else stack factors (List.replicate (p.nCands ^ factors.length) element))
    let add ← concatenate vertical
    let locs ← p.data.mapM (fun r => add.getUpdateLocation (rowLits r))
    pure { add := add, locs := locs }
end

/-- edges `(level, node, value)` crossed by the path of `args` starting at node `j` of level `i` -/
def pathEdges {V : Type} : List (Level V) → Nat → List Nat → Nat → List (Nat × Nat × Nat)
  | [], _, _, _ => []
  | _ :: _, _, [], _ => []
  | lv :: rest, j, a :: as, i => (i, j, a) :: pathEdges rest ((nodeAt lv j).ch a) as (i + 1)

/-- `LocSpec` as a decidable check: for every binary assignment (in the diagram's unit order) and every
row `r`, the path crosses exactly one edge of `locs[r]` when all literals of `r` hold, and none
otherwise; moreover every location is an existing edge and no location is listed twice. -/
def locSpecOk {V : Type} (p : Prov.P) (cmp : Compiled V) : Bool :=
  let d := cmp.add
  (cmp.locs.all (fun loc => loc.eraseDups.length == loc.length &&
      loc.all (fun e => e.1 < d.levels.length && e.2.1 < (d.levels.getD e.1 []).length && e.2.2 < d.C))) &&
  (allAssign d.units.length).all (fun args =>
    let path := pathEdges d.levels d.root args 0
    (List.range p.data.length).all (fun r =>
      let present := (rowLits (p.data.getD r [])).all (fun uv => args.getD (d.units.idxOf uv.1) 0 == uv.2)
      let crossed := (path.filter (fun e => (cmp.locs.getD r []).contains e)).length
      crossed == (if present then 1 else 0)))

/-! the oracle proper, on tallies -/

variable {D : Dom}

def onehot (c label : Nat) : List Nat := (List.range c).map (fun k => if k == label then 1 else 0)
def tallyVal (D : Dom) (t : Nat) (w wo : List Nat) : AVal D := AVal.clip D (t :: (w ++ wo))

structure Built (D : Dom) where
  base : Compiled (AVal D)
  withs : List (Diagram (AVal D))        -- index `t` for boundary row `t`, last entry for `None`
  withouts : List (Diagram (AVal D))

/-- `ShapleyOracle.__init__` for one validation point (`dist[r]` = distance of row `r`) -/
def build (D : Dom) (c : Nat) (p : Prov.P) (labels : List Nat) (dist : List Rat) : Except Err (Built D) := do
  let base : Compiled (AVal D) ← compile p
  let R := p.data.length
  let zeros := List.replicate c 0
  let mk (t : Option Nat) : Except Err (Diagram (AVal D) × Diagram (AVal D)) := do
    let inc := (List.range R).filter (fun tt => match t with | none => true | some t => dist.getD t 0 ≥ dist.getD tt 0)
    let w := inc.foldl (fun d tt => d.update (base.locs.getD tt []) (tallyVal D 0 (onehot c (labels.getD tt 0)) zeros) true) base.add
    let wo := inc.foldl (fun d tt => d.update (base.locs.getD tt []) (tallyVal D 0 zeros (onehot c (labels.getD tt 0))) true) base.add
    match t with
    | none => pure (w, wo)
    | some t =>
        (rowUnits (p.data.getD t [])).foldlM (fun (ds : Diagram (AVal D) × Diagram (AVal D)) u => do
          let loc ← base.add.getUpdateLocation [(u, 0)]
          pure (ds.1.update loc none false, ds.2.update loc none false)) (w, wo)
  let all ← ((List.range R).map some ++ [none]).mapM mk
  pure { base := base, withs := all.map (·.1), withouts := all.map (·.2) }

def bIdx (R : Nat) : Option Nat → Nat
  | some t => t
  | none => R

/-- `ShapleyOracle.query(target, boundary_with, boundary_without)`: one count per value of the
domain, in domain order (the last one is the invalid value) -/
def query (c : Nat) (b : Built D) (R : Nat) (unit : Nat) (bw bwo : Option Nat) : Except Err (List Int) := do
  let aw ← (b.withs.getD (bIdx R bw) default).restrict unit 1
  let awo ← (b.withouts.getD (bIdx R bwo) default).restrict unit 0
  let s ← aw.sum awo
  let zeros := List.replicate c 0
  let s := s.addOnCandidate 1 (tallyVal D 1 zeros zeros)
  pure (s.modelcount AVal.sub? (D.vecs.map (AVal.clip D)))

def argmaxFirst (l : List Nat) : Nat :=
  let m := l.foldl max 0
  l.idxOf m

/-- one summand of `compute_shapley_add`: the contribution of the tally `vec` with count `cnt` for the
boundary pair `(t1, t2)` (the six skip conditions, `argmax`, weight `1 / C(n-1, size)`).
`utilJ[c]` = utility of class `c` for the validation point, `nullJ` its null value. -/
def term (n K c : Nat) (utilJ : List Rat) (nullJ : Rat) (t2 : Option Nat) (vec : List Nat) (cnt : Int) : Rat :=
  let tt := vec.headD 0
  let w := (vec.drop 1).take c
  let wo := (vec.drop (1 + c)).take c
  if cnt ≤ 0 || w.sum != K || (t2.isSome && wo.sum != K) || (t2.isNone && wo.sum ≥ K) then 0
  else
    let uw := utilJ.getD (argmaxFirst w) 0
    let base := match t2 with
      | some _ => utilJ.getD (argmaxFirst wo) 0
      | none => nullJ
    (1 / ((choose (n - 1) tt : Nat) : Rat)) * (cnt : Rat) * (uw - base)

/-- all boundary pairs `(t1, t2)`, `t2` ranging over the rows and `None` -/
def boundaryPairs (R : Nat) : List (Nat × Option Nat) :=
  (List.range R).flatMap (fun t1 => ((List.range R).map some ++ [none]).map (fun t2 => (t1, t2)))

/-- contribution of one validation point to unit `i` (before the final division) -/
def pointUnit {D : Dom} (n K c R : Nat) (b : Built D) (utilJ : List Rat) (nullJ : Rat) (i : Nat) : Except Err Rat := do
  let parts ← (boundaryPairs R).mapM (fun (tp : Nat × Option Nat) => do
    let counts ← query c b R i (some tp.1) tp.2
    pure (((D.vecs.zip counts).map (fun vc => term n K c utilJ nullJ tp.2 vc.1 vc.2)).sum))
  pure parts.sum

/-- `compute_shapley_add` (units = all units, world = ones).  `dist[r][j]`, `util[c][j]`, `nulls[j]`. -/
def scores (p : Prov.P) (labels : List Nat) (dist : List (List Rat)) (util : List (List Rat)) (nulls : List Rat)
    (K c : Nat) : Except Err (List Rat) := do
  let n := p.nUnits
  let R := p.data.length
  let nTest := nulls.length
  let D := Dom.tally (n - 1) K c
  let per ← (List.range nTest).mapM (fun j => do
    let b : Built D ← build D c p labels (dist.map (·.getD j 0))
    (List.range n).mapM (pointUnit n K c R b (util.map (·.getD j 0)) (nulls.getD j 0)))
  pure ((List.range n).map (fun i => (per.map (·.getD i 0)).sum / (((n * nTest : Nat)) : Rat)))

/-! ## the specification side: the K-NN game by definition -/

/-- rows present under the coalition `a` (0/1 per unit) of a conjunctive provenance -/
def presentRows (p : Prov.P) (a : List Nat) : List Nat :=
  (List.range p.data.length).filter (fun r => (rowUnits (p.data.getD r [])).all (fun u => a.getD u 0 == 1))

/-- value of a coalition for validation point `j`: utility of the majority label (lowest class on
ties) among the `K` nearest present rows; the null value when fewer than `K` rows are present.
`order` = all rows sorted by distance to point `j`. -/
def knnValue (p : Prov.P) (labels : List Nat) (order : List Nat) (util : List Rat) (null : Rat) (K c : Nat)
    (a : List Nat) : Rat :=
  let pres := presentRows p a
  let near := (order.filter pres.contains).take K
  if near.length < K then null
  else
    let tl := (List.range c).map (fun k => (near.filter (fun r => labels.getD r 0 == k)).length)
    util.getD (argmaxFirst tl) 0

/-- by-definition count the oracle is specified against: assignments `a` of all units with
`a[target] = 0` such that (i) the `with` boundary row is present once the target is switched on and
the `without` boundary row is present without it, (ii) the tallies of rows no farther than the boundaries are `w`, `wo`, and
(iii) `t` other units are present. -/
def countSpec (p : Prov.P) (labels : List Nat) (dist : List Rat) (c K : Nat) (target : Nat) (bw bwo : Option Nat)
    (t : Nat) (w wo : List Nat) : Nat :=
  let n := p.nUnits
  let cap (l : List Nat) : Option (List Nat) := if l.sum ≤ K then some l else none
  ((allAssign n).filter (fun a => a.getD target 0 == 0)).countP (fun a =>
    let a1 := a.set target 1
    let tallyOf (asg : List Nat) (b : Option Nat) : List Nat :=
      let rows := (presentRows p asg).filter (fun r => match b with | none => true | some b => dist.getD b 0 ≥ dist.getD r 0)
      (List.range c).map (fun k => (rows.filter (fun r => labels.getD r 0 == k)).length)
    let okB (asg : List Nat) (b : Option Nat) : Bool :=
      match b with | none => true | some b => (rowUnits (p.data.getD b [])).all (fun u => asg.getD u 0 == 1)
    okB a1 bw && okB a bwo && a.sum == t && cap (tallyOf a1 bw) == some w && cap (tallyOf a bwo) == some wo)

end Ds.Oracle
