/-!
# Ds.Np — the numpy / Python primitives the TRANSLATED code is written in

`harness/translate.py` turns the kernel functions of `/repo` (`shapley.py:compute_all_importances`,
`shapley_cy.pyx:compute_all_importances_cy`, `shapley.py:get_test_batch_size`) into Lean definitions
(`Gen/Kernel.lean`, regenerated on every run).  The generated text only uses the vocabulary below:
Python integers are `Int`, 1-D arrays are `List`, 2-D arrays are `A2` (shape kept explicitly, because a
`(0, m)` array still knows `m`), `for … in range(…)` is a `List.foldl` over `Np.range`, indexing follows
Python (negative indices wrap, out of range reads the default — the equivalence theorems hold under
hypotheses that keep every index in range and they are stated against the hand-written model, which the
correspondence check compares with the implementation).

This file is trusted as the meaning of those primitives.  No imports.
-/
namespace Np

/-- 2-D array: `r` rows of `c` entries -/
structure A2 (α : Type) where
  r : Nat
  c : Nat
  d : List (List α)
deriving Repr, BEq

/-- the row list really has the recorded shape -/
def A2.WF {α : Type} (a : A2 α) : Prop := a.d.length = a.r ∧ ∀ row ∈ a.d, row.length = a.c

def A2.ofRows {α : Type} (c : Nat) (rows : List (List α)) : A2 α := ⟨rows.length, c, rows⟩

variable {α β : Type}

def shape0 (a : A2 α) : Int := (a.r : Int)
def shape1 (a : A2 α) : Int := (a.c : Int)
def len1 (l : List α) : Int := (l.length : Int)

/-- Python index normalisation for a sequence of length `len`: `0 ≤ i < len` as is, `-len ≤ i < 0` wraps -/
def pyIdx (len : Nat) (i : Int) : Option Nat :=
  if 0 ≤ i then (if i.toNat < len then some i.toNat else none)
  else (if (-i).toNat ≤ len then some (len - (-i).toNat) else none)

def get1 [Inhabited α] (l : List α) (i : Int) : α :=
  match pyIdx l.length i with
  | some k => l.getD k default
  | none => default

def set1 (l : List α) (i : Int) (v : α) : List α :=
  match pyIdx l.length i with
  | some k => l.set k v
  | none => l

/-- `a[i, j]` -/
def get2 [Inhabited α] (a : A2 α) (i j : Int) : α := get1 (get1 a.d i) j

/-- `a[:, j]` -/
def col [Inhabited α] (a : A2 α) (j : Int) : List α := a.d.map (fun row => get1 row j)

/-- Python `range(start, stop, step)` (empty when `step = 0`, which Python rejects) -/
def range (start stop step : Int) : List Int :=
  if 0 < step then
    (List.range ((stop - start + step - 1) / step).toNat).map (fun (k : Nat) => start + (k : Int) * step)
  else if step < 0 then
    (List.range ((start - stop + (-step) - 1) / (-step)).toNat).map (fun (k : Nat) => start + (k : Int) * step)
  else []

/-- integer → scalar (`float(i)`, and the implicit conversion in `x / i`) -/
def ofInt [NatCast α] [Neg α] (i : Int) : α :=
  if 0 ≤ i then ((i.toNat : Nat) : α) else -(((-i).toNat : Nat) : α)

/-- `np.zeros(n)` -/
def zeros1 [NatCast α] (n : Int) : List α := List.replicate n.toNat (((0 : Nat)) : α)

/-- `np.repeat(x, n)` / `np.full(n, x)` -/
def rep (x : β) (n : Int) : List β := List.replicate n.toNat x

/-- `np.full((r, c), x)` -/
def full2 (r c : Int) (x : β) : A2 β := ⟨r.toNat, c.toNat, List.replicate r.toNat (List.replicate c.toNat x)⟩

/-- `np.vstack((a, v))` with `v` one-dimensional -/
def vstack1 (a : A2 α) (v : List α) : A2 α := ⟨a.r + 1, a.c, a.d ++ [v]⟩

/-- `np.vstack((a, b))` with both two-dimensional -/
def vstack2 (a b : A2 α) : A2 α := ⟨a.r + b.r, a.c, a.d ++ b.d⟩

/-- `np.append(l, m)` -/
def append1 (l m : List α) : List α := l ++ m

/-- `l[start:stop]` (step 1), Python clamping -/
def slice1 (l : List α) (start stop : Option Int) : List α :=
  let n : Int := l.length
  let norm (i : Int) : Nat := if i < 0 then (max (i + n) 0).toNat else (min i n).toNat
  let s := match start with | some i => norm i | none => 0
  let e := match stop with | some i => norm i | none => l.length
  (l.take e).drop s

/-- `l / x` -/
def divS [Div α] (l : List α) (x : α) : List α := l.map (· / x)

/-- transpose of a well-formed array -/
def transpose [Inhabited α] (a : A2 α) : A2 α :=
  ⟨a.c, a.r, (List.range a.c).map (fun j => a.d.map (fun row => row.getD j default))⟩

/-- `np.argsort(a, axis=0)`: every column sorted by the 1-D routine `sorter` -/
def argsort0 [Inhabited α] (sorter : List α → List Int) (a : A2 α) : A2 Int :=
  transpose ⟨a.c, a.r, (List.range a.c).map (fun (j : Nat) => sorter (col a (j : Int)))⟩

/-- Python `max(a, b)`, `min(a, b)`, floor division on integers -/
def imax (a b : Int) : Int := if b > a then b else a
def imin (a b : Int) : Int := if b < a then b else a
def floordiv (a b : Int) : Int := Int.fdiv a b

/-! ### vocabulary of the translated scoring-loop skeletons (`GenB`) -/

/-- what an opaque piece of library code did: returned a value, raised an exception of class `cls`, or emitted a warning of category `cls`
and — had the warning not been escalated to an error — would have gone on to return `x` -/
inductive Out (α : Type) where
  | val (x : α)
  | exc (cls : String)
  | warn (cls : String) (x : α)
  deriving Repr

/-- `with warnings.catch_warnings(): simplefilter("error", category=W)…; try: x = BODY except (E…): pass` —
`handled` = the classes of the `except` clause, `escalated` = the warning categories turned into errors, `old` = the value `x` had before.
`.error cls`: the exception propagates out of the enclosing function.  (Classes are matched by name: subclass relationships are resolved by
whoever classifies the real exception into one of the names.) -/
def tryExcept (handled escalated : List String) (o : Out α) (old : α) : Except String α :=
  match o with
  | .val x => .ok x
  | .exc c => if handled.contains c then .ok old else .error c
  | .warn c x => if escalated.contains c then (if handled.contains c then .ok old else .error c) else .ok x

/-- `itertools.product(*ls)`: first list varies slowest -/
def product : List (List β) → List (List β)
  | [] => [[]]
  | l :: ls => l.flatMap (fun c => (product ls).map (c :: ·))

/-- `np.sum` of an integer vector -/
def sumI (l : List Int) : Int := l.foldl (· + ·) 0

def choose : Nat → Nat → Nat
  | _, 0 => 1
  | 0, _ + 1 => 0
  | n + 1, k + 1 => choose n k + choose n (k + 1)

/-- `scipy.special.comb(n, k)` for integers (0 outside `0 ≤ k ≤ n`), as a scalar -/
def comb [NatCast α] (n k : Int) : α := if n < 0 ∨ k < 0 then ((0 : Nat) : α) else ((choose n.toNat k.toNat : Nat) : α)

/-! ### vocabulary of the translated `JointUtility` methods (`GenJ`) -/

/-- Python's builtin `sum(iterable)`: left fold starting from the integer 0 -/
def sumGen [Add α] [NatCast α] (l : List α) : α := l.foldl (· + ·) (((0 : Nat)) : α)

/-- `w * v`, `w * m` for a scalar `w` and a 1-D / 2-D array -/
def smul1 [Mul α] (w : α) (v : List α) : List α := v.map (fun x => w * x)
def smul2 [Mul α] (w : α) (m : List (List α)) : List (List α) := m.map (fun row => row.map (fun x => w * x))

/-- `np.sum(np.stack(vs), axis=0)` for 1-D arrays of equal length: element-wise sum, first array first -/
def sumAxis0V [Add α] (vs : List (List α)) : List α :=
  match vs with
  | [] => []
  | v :: rest => rest.foldl (fun acc x => List.zipWith (· + ·) acc x) v

/-- the same for 2-D arrays of equal shape -/
def sumAxis0M [Add α] (ms : List (List (List α))) : List (List α) :=
  match ms with
  | [] => []
  | m :: rest => rest.foldl (fun acc x => List.zipWith (fun r s => List.zipWith (· + ·) r s) acc x) m

/-! ### vocabulary of the translated Monte-Carlo walk (`GenM`) -/

/-- `enumerate(l, start=k)` -/
def enumerateFrom (start : Int) : List β → List (Int × β)
  | [] => []
  | x :: xs => (start, x) :: enumerateFrom (start + 1) xs

/-- a `for` loop whose body may `break`: left fold over the items; the body returns the new state and whether `break` was taken; once it
was, the remaining items are skipped (`continue` is simply an early `pure (state, false)` of the body) -/
def forBreakM {σ ε : Type} (l : List β) (init : σ) (body : σ → β → Except ε (σ × Bool)) : Except ε σ :=
  (l.foldlM (fun (sb : σ × Bool) x => if sb.2 then pure sb else body sb.1 x) (init, false)).map (·.1)

/-- `np.abs` of a scalar -/
def absS [Neg α] [NatCast α] [LT α] [DecidableRel (α := α) (· < ·)] (x : α) : α := if x < ((0 : Nat) : α) then -x else x

end Np
