/-!
# Ds.Np — the numpy / Python primitives the TRANSLATED code is written in

`harness/translate.py` turns the kernel functions of `/repo` (`shapley.py:compute_all_importances`,
`shapley_cy.pyx:compute_all_importances_cy`, `shapley.py:get_test_batch_size`) into Lean definitions
(`Gen/Kernel.lean`, regenerated on every run).  The generated text only uses the vocabulary below:
Python integers are `Int`, 1-D arrays are `List`, 2-D arrays are `A2` (shape kept explicitly, because a
`(0, m)` array still knows `m`), `for … in range(…)` is a `List.foldl` over `Np.range`, indexing follows
Python (negative indices wrap, out of range reads the default — the equivalence theorems hold under
hypotheses that keep every index in range and they are stated against the hand-written model, which the
correspondence check compares with the implementation).

This file is trusted as the meaning of those primitives.  No imports.
-/
namespace Np

/-- 2-D array: `r` rows of `c` entries -/
structure A2 (α : Type) where
  r : Nat
  c : Nat
  d : List (List α)
deriving Repr, BEq

/-- the row list really has the recorded shape -/
def A2.WF {α : Type} (a : A2 α) : Prop := a.d.length = a.r ∧ ∀ row ∈ a.d, row.length = a.c

def A2.ofRows {α : Type} (c : Nat) (rows : List (List α)) : A2 α := ⟨rows.length, c, rows⟩

variable {α β : Type}

def shape0 (a : A2 α) : Int := (a.r : Int)
def shape1 (a : A2 α) : Int := (a.c : Int)
def len1 (l : List α) : Int := (l.length : Int)

/-- Python index normalisation for a sequence of length `len`: `0 ≤ i < len` as is, `-len ≤ i < 0` wraps -/
def pyIdx (len : Nat) (i : Int) : Option Nat :=
  if 0 ≤ i then (if i.toNat < len then some i.toNat else none)
  else (if (-i).toNat ≤ len then some (len - (-i).toNat) else none)

def get1 [Inhabited α] (l : List α) (i : Int) : α :=
  match pyIdx l.length i with
  | some k => l.getD k default
  | none => default

def set1 (l : List α) (i : Int) (v : α) : List α :=
  match pyIdx l.length i with
  | some k => l.set k v
  | none => l

/-- `a[i, j]` -/
def get2 [Inhabited α] (a : A2 α) (i j : Int) : α := get1 (get1 a.d i) j

/-- `a[:, j]` -/
def col [Inhabited α] (a : A2 α) (j : Int) : List α := a.d.map (fun row => get1 row j)

/-- Python `range(start, stop, step)` (empty when `step = 0`, which Python rejects) -/
def range (start stop step : Int) : List Int :=
  if 0 < step then
    (List.range ((stop - start + step - 1) / step).toNat).map (fun (k : Nat) => start + (k : Int) * step)
  else if step < 0 then
    (List.range ((start - stop + (-step) - 1) / (-step)).toNat).map (fun (k : Nat) => start + (k : Int) * step)
  else []

/-- integer → scalar (`float(i)`, and the implicit conversion in `x / i`) -/
def ofInt [NatCast α] [Neg α] (i : Int) : α :=
  if 0 ≤ i then ((i.toNat : Nat) : α) else -(((-i).toNat : Nat) : α)

/-- `np.zeros(n)` -/
def zeros1 [NatCast α] (n : Int) : List α := List.replicate n.toNat (((0 : Nat)) : α)

/-- `np.repeat(x, n)` / `np.full(n, x)` -/
def rep (x : β) (n : Int) : List β := List.replicate n.toNat x

/-- `np.full((r, c), x)` -/
def full2 (r c : Int) (x : β) : A2 β := ⟨r.toNat, c.toNat, List.replicate r.toNat (List.replicate c.toNat x)⟩

/-- `np.vstack((a, v))` with `v` one-dimensional -/
def vstack1 (a : A2 α) (v : List α) : A2 α := ⟨a.r + 1, a.c, a.d ++ [v]⟩

/-- `np.vstack((a, b))` with both two-dimensional -/
def vstack2 (a b : A2 α) : A2 α := ⟨a.r + b.r, a.c, a.d ++ b.d⟩

/-- `np.append(l, m)` -/
def append1 (l m : List α) : List α := l ++ m

/-- `l[start:stop]` (step 1), Python clamping -/
def slice1 (l : List α) (start stop : Option Int) : List α :=
  let n : Int := l.length
  let norm (i : Int) : Nat := if i < 0 then (max (i + n) 0).toNat else (min i n).toNat
  let s := match start with | some i => norm i | none => 0
  let e := match stop with | some i => norm i | none => l.length
  (l.take e).drop s

/-- `l / x` -/
def divS [Div α] (l : List α) (x : α) : List α := l.map (· / x)

/-- transpose of a well-formed array -/
def transpose [Inhabited α] (a : A2 α) : A2 α :=
  ⟨a.c, a.r, (List.range a.c).map (fun j => a.d.map (fun row => row.getD j default))⟩

/-- `np.argsort(a, axis=0)`: every column sorted by the 1-D routine `sorter` -/
def argsort0 [Inhabited α] (sorter : List α → List Int) (a : A2 α) : A2 Int :=
  transpose ⟨a.c, a.r, (List.range a.c).map (fun (j : Nat) => sorter (col a (j : Int)))⟩

/-- Python `max(a, b)`, `min(a, b)`, floor division on integers -/
def imax (a b : Int) : Int := if b > a then b else a
def imin (a b : Int) : Int := if b < a then b else a
def floordiv (a b : Int) : Int := Int.fdiv a b

/-! ### vocabulary of the translated scoring-loop skeletons (`GenB`) -/

/-- what an opaque piece of library code did: returned a value, raised an exception of class `cls`, or emitted a warning of category `cls`
and — had the warning not been escalated to an error — would have gone on to return `x` -/
inductive Out (α : Type) where
  | val (x : α)
  | exc (cls : String)
  | warn (cls : String) (x : α)
  deriving Repr

/-- `with warnings.catch_warnings(): simplefilter("error", category=W)…; try: x = BODY except (E…): pass` —
`handled` = the classes of the `except` clause, `escalated` = the warning categories turned into errors, `old` = the value `x` had before.
`.error cls`: the exception propagates out of the enclosing function.  (Classes are matched by name: subclass relationships are resolved by
whoever classifies the real exception into one of the names.) -/
def tryExcept (handled escalated : List String) (o : Out α) (old : α) : Except String α :=
  match o with
  | .val x => .ok x
  | .exc c => if handled.contains c then .ok old else .error c
  | .warn c x => if escalated.contains c then (if handled.contains c then .ok old else .error c) else .ok x

/-- `itertools.product(*ls)`: first list varies slowest -/
def product : List (List β) → List (List β)
  | [] => [[]]
  | l :: ls => l.flatMap (fun c => (product ls).map (c :: ·))

/-- `np.sum` of an integer vector -/
def sumI (l : List Int) : Int := l.foldl (· + ·) 0

def choose : Nat → Nat → Nat
  | _, 0 => 1
  | 0, _ + 1 => 0
  | n + 1, k + 1 => choose n k + choose n (k + 1)

/-- `scipy.special.comb(n, k)` for integers (0 outside `0 ≤ k ≤ n`), as a scalar -/
def comb [NatCast α] (n k : Int) : α := if n < 0 ∨ k < 0 then ((0 : Nat) : α) else ((choose n.toNat k.toNat : Nat) : α)

/-! ### vocabulary of the translated `JointUtility` methods (`GenJ`) -/

/-- Python's builtin `sum(iterable)`: left fold starting from the integer 0 -/
def sumGen [Add α] [NatCast α] (l : List α) : α := l.foldl (· + ·) (((0 : Nat)) : α)

/-- `w * v`, `w * m` for a scalar `w` and a 1-D / 2-D array -/
def smul1 [Mul α] (w : α) (v : List α) : List α := v.map (fun x => w * x)
def smul2 [Mul α] (w : α) (m : List (List α)) : List (List α) := m.map (fun row => row.map (fun x => w * x))

/-- `np.sum(np.stack(vs), axis=0)` for 1-D arrays of equal length: element-wise sum, first array first -/
def sumAxis0V [Add α] (vs : List (List α)) : List α :=
  match vs with
  | [] => []
  | v :: rest => rest.foldl (fun acc x => List.zipWith (· + ·) acc x) v

/-- the same for 2-D arrays of equal shape -/
def sumAxis0M [Add α] (ms : List (List (List α))) : List (List α) :=
  match ms with
  | [] => []
  | m :: rest => rest.foldl (fun acc x => List.zipWith (fun r s => List.zipWith (· + ·) r s) acc x) m

/-! ### vocabulary of the translated Monte-Carlo walk (`GenM`) -/

/-- `enumerate(l, start=k)` -/
def enumerateFrom (start : Int) : List β → List (Int × β)
  | [] => []
  | x :: xs => (start, x) :: enumerateFrom (start + 1) xs

/-- a `for` loop whose body may `break`: left fold over the items; the body returns the new state and whether `break` was taken; once it
was, the remaining items are skipped (`continue` is simply an early `pure (state, false)` of the body) -/
def forBreakM {σ ε : Type} (l : List β) (init : σ) (body : σ → β → Except ε (σ × Bool)) : Except ε σ :=
  (l.foldlM (fun (sb : σ × Bool) x => if sb.2 then pure sb else body sb.1 x) (init, false)).map (·.1)

/-- `np.abs` of a scalar -/
def absS [Neg α] [NatCast α] [LT α] [DecidableRel (α := α) (· < ·)] (x : α) : α := if x < ((0 : Nat) : α) then -x else x

/-! ### vocabulary of the translated element-wise utility tables (`GenU`) -/

/-- `bool.astype(float)` -/
def b2f [NatCast α] (b : Bool) : α := if b then ((1 : Nat) : α) else ((0 : Nat) : α)
def b2f1 [NatCast α] (v : List Bool) : List α := v.map b2f
def b2f2 [NatCast α] (m : List (List Bool)) : List (List α) := m.map b2f1

/-- `np.equal.outer(a, b)[i][j] = (a[i] == b[j])`, `np.not_equal.outer` -/
def outerEq (a b : List Int) : List (List Bool) := a.map (fun x => b.map (fun y => x == y))
def outerNe (a b : List Int) : List (List Bool) := a.map (fun x => b.map (fun y => x != y))

/-- element-wise comparisons of label vectors (`a == b`, `np.equal`, `np.not_equal`), vector against vector / scalar -/
def eqVV (a b : List Int) : List Bool := List.zipWith (fun x y => x == y) a b
def neVV (a b : List Int) : List Bool := List.zipWith (fun x y => x != y) a b
def eqVS (a : List Int) (c : Int) : List Bool := a.map (fun x => x == c)
def neVS (a : List Int) (c : Int) : List Bool := a.map (fun x => x != c)

/-- `*` of Boolean arrays -/
def and1 (a b : List Bool) : List Bool := List.zipWith (fun x y => x && y) a b
def and2 (a b : List (List Bool)) : List (List Bool) := List.zipWith and1 a b

/-- `np.full_like(v, x)` -/
def fullLike {γ : Type} (v : List γ) (x : Int) : List Int := v.map (fun _ => x)

/-- `boolvec.sum(dtype=float)` -/
def countTrueF [NatCast α] (v : List Bool) : α := (((v.filter id).length : Nat) : α)

/-- `np.mean` of a vector: left-to-right sum divided by the length -/
def mean1 [Add α] [Div α] [NatCast α] (v : List α) : α := sumGen v / ((v.length : Nat) : α)

def zerosLikeF {γ : Type} [NatCast α] (v : List γ) : List α := v.map (fun _ => ((0 : Nat) : α))
def zeros2 [NatCast α] (r c : Int) : List (List α) := List.replicate r.toNat (List.replicate c.toNat ((0 : Nat) : α))

/-- element-wise map / zip of matrices -/
def mapM2 (f : α → α) (m : List (List α)) : List (List α) := m.map (fun row => row.map f)
def zipM2 (f : α → α → α) (a b : List (List α)) : List (List α) := List.zipWith (fun r s => List.zipWith f r s) a b

/-- `min_score > score` for a running minimum that starts at `np.inf` (`none`) -/
def gtInf [LT α] [DecidableRel (α := α) (· < ·)] (m : Option α) (x : α) : Bool :=
  match m with
  | none => true
  | some v => decide (x < v)

/-- `counts` of `np.unique(y, return_counts=True)` for the distinct values `cls` -/
def countsOf (cls y : List Int) : List Int := cls.map (fun c => (((y.filter (fun x => x == c)).length : Nat) : Int))

/-- `np.argmin` of an integer vector: first index of the minimum -/
def argminI : List Int → Int
  | [] => 0
  | x :: xs =>
      let rec go (best : Int) (bi : Nat) (i : Nat) : List Int → Nat
        | [] => bi
        | y :: ys => if y < best then go y i (i + 1) ys else go best bi (i + 1) ys
      ((go x 0 1 xs : Nat) : Int)

/-! ### vocabulary of the translated `Provenance.query` (`GenQ`) -/

/-- 4-D integer array `(r, d, c, 2)` and 3-D array `(r, d, c)` with explicit shape (a container with 0 rows or width 1 still knows its axes) -/
structure A4 (β : Type) where
  r : Nat
  d : Nat
  c : Nat
  v : List (List (List (List β)))
structure A3 (β : Type) where
  r : Nat
  d : Nat
  c : Nat
  v : List (List (List β))

/-- `a[:, :, :, k]` -/
def sel4 (a : A4 Int) (k : Nat) : A3 Int := ⟨a.r, a.d, a.c, a.v.map (fun row => row.map (fun cj => cj.map (fun lit => lit.getD k 0)))⟩

/-- `values[i]` for one (possibly negative) index; out of range raises IndexError -/
def take1 (vals : List Int) (i : Int) : Except String Int :=
  match pyIdx vals.length i with
  | some k => pure (vals.getD k 0)
  | none => throw "IndexError"

/-- fancy indexing `values[idx]` with a 3-D index array -/
def take3 (vals : List Int) (a : A3 Int) : Except String (A3 Int) := do
  let v ← a.v.mapM (fun row => row.mapM (fun cj => cj.mapM (take1 vals)))
  pure ⟨a.r, a.d, a.c, v⟩

def eq3 (a b : A3 Int) : A3 Bool :=
  ⟨a.r, a.d, a.c, List.zipWith (fun r s => List.zipWith (fun x y => List.zipWith (fun p q => p == q) x y) r s) a.v b.v⟩
def eqS3 (a : A3 Int) (s : Int) : A3 Bool := ⟨a.r, a.d, a.c, a.v.map (fun row => row.map (fun cj => cj.map (fun x => x == s)))⟩

def shape3 {γ : Type} (a : A3 γ) (k : Nat) : Int := if k = 0 then (a.r : Int) else if k = 1 then (a.d : Int) else (a.c : Int)
def shape2 {γ : Type} (a : A2 γ) (k : Nat) : Int := if k = 0 then (a.r : Int) else (a.c : Int)

/-- `x.squeeze(axis=2)` (axis of length 1), `np.all(x, axis=2)`, `np.any(x, axis=2)` -/
def squeeze3_2 (a : A3 Bool) : A2 Bool := ⟨a.r, a.d, a.v.map (fun row => row.map (fun cj => cj.getD 0 false))⟩
def allAxis2 (a : A3 Bool) : A2 Bool := ⟨a.r, a.d, a.v.map (fun row => row.map (fun cj => cj.all id))⟩
def anyAxis2 (a : A3 Bool) : A2 Bool := ⟨a.r, a.d, a.v.map (fun row => row.map (fun cj => cj.any id))⟩

/-- `&`, `~` on 2-D Boolean arrays -/
def andA2 (a b : A2 Bool) : A2 Bool := ⟨a.r, a.c, List.zipWith (fun r s => List.zipWith (fun x y => x && y) r s) a.d b.d⟩
def not2 (a : A2 Bool) : A2 Bool := ⟨a.r, a.c, a.d.map (fun row => row.map (fun x => !x))⟩

/-- `x.squeeze(axis=1)`, `np.any(x, axis=1)`, `np.all(x, axis=1)` -/
def squeeze2_1 (a : A2 Bool) : List Bool := a.d.map (fun row => row.getD 0 false)
def anyAxis1 (a : A2 Bool) : List Bool := a.d.map (fun row => row.any id)
def allAxis1 (a : A2 Bool) : List Bool := a.d.map (fun row => row.all id)

/-- `np.argwhere(mask)` of a 1-D mask (as a flat list of positions) -/
def argwhere1 (m : List Bool) : List Int := ((List.range m.length).filter (fun i => m.getD i false)).map (fun (i : Nat) => (i : Int))

/-! ### vocabulary of the translated value arithmetic (`GenV`) -/

/-- `v < s` (`lt = true`) / `v > s` element-wise against a scalar -/
def cmpVS (lt : Bool) (v : List Int) (s : Int) : List Bool := v.map (fun x => if lt then decide (x < s) else decide (x > s))
/-- `v > w` element-wise (arrays of one shape) -/
def gtVV (v w : List Int) : List Bool := List.zipWith (fun x y => decide (x > y)) v w
/-- fancy indexing of a vector by an index vector (`value[self.slots_with]`; indices in range) -/
def takeI (v idx : List Int) : List Int := idx.map (fun i => get1 v i)
/-- `np.prod` of an integer vector -/
def prodI (l : List Int) : Int := l.foldl (· * ·) 1

/-! ### vocabulary of the translated `ADD.__call__` (`GenA`) -/

/-- `a[i, j, k]` on a 3-D array -/
def get3 [Inhabited β] (a : List (List (List β))) (i j k : Int) : β := get1 (get1 (get1 a i) j) k

/-! ### vocabulary of the translated outer Monte-Carlo loop (`GenM.mc_outer`) -/

/-- a 2-D array kept column-wise: `r` rows, `c` columns, `cols[j]` = column `j` -/
structure M (α : Type) where
  r : Nat
  c : Nat
  cols : List (List α)

/-- `np.zeros((r, c))` -/
def zerosM [NatCast α] (r c : Int) : M α := ⟨r.toNat, c.toNat, List.replicate c.toNat (List.replicate r.toNat ((0 : Nat) : α))⟩
/-- `a[:, i] = v` -/
def setColM (a : M α) (i : Int) (v : List α) : M α := ⟨a.r, a.c, set1 a.cols i v⟩
/-- `a[:, :k]` -/
def sliceColsM (a : M α) (k : Int) : M α := let cs := slice1 a.cols none (some k); ⟨a.r, cs.length, cs⟩
/-- `np.average(a, axis=1)`: per row, the sum over the columns (first column first) divided by the number of columns -/
def averageAxis1M [Add α] [Div α] [NatCast α] [Inhabited α] (a : M α) : List α :=
  (List.range a.r).map (fun u => sumGen (a.cols.map (fun col => col.getD u default)) / ((a.c : Nat) : α))
/-- the next reading of `time.time()` / the next result of `randomstate.permutation` (the sequences are parameters) -/
def headF [NatCast α] (l : List α) : α := l.headD ((0 : Nat) : α)
def headL {γ : Type} (l : List (List γ)) : List γ := l.headD []

/-! ### vocabulary of the translated container edits (`GenC`) -/

/-- a value's 3-D array `(d, c, 2)` -/
structure V3 where
  d : Nat
  c : Nat
  v : List (List (List Int))

def shape4 {γ : Type} (a : A4 γ) (k : Nat) : Int := if k = 0 then (a.r : Int) else if k = 1 then (a.d : Int) else (a.c : Int)
def shapeV3 (x : V3) (k : Nat) : Int := if k = 0 then (x.d : Int) else (x.c : Int)

/-- `np.pad(l, (0, n - len), constant_values=x)` along one axis -/
def padList {γ : Type} (l : List γ) (n : Nat) (x : γ) : List γ := l ++ List.replicate (n - l.length) x
/-- a `(·, ·, 2)` block padded with -1 to `d` disjuncts of `c` conjuncts -/
def padBlock (v : List (List (List Int))) (d c : Nat) : List (List (List Int)) :=
  padList (v.map (fun cj => padList cj c [-1, -1])) d (List.replicate c [-1, -1])
/-- `_pad_array(a, (r, d, c, 2))` -/
def padA4 (a : A4 Int) (r d c : Int) : A4 Int :=
  ⟨r.toNat, d.toNat, c.toNat, padList (a.v.map (fun row => padBlock row d.toNat c.toNat)) r.toNat (List.replicate d.toNat (List.replicate c.toNat [-1, -1]))⟩
/-- `_pad_array(x, (d, c, 2))` -/
def padV3 (x : V3) (d c : Int) : V3 := ⟨d.toNat, c.toNat, padBlock x.v d.toNat c.toNat⟩
/-- `a[i] = x` (row assignment at a Python index) -/
def setRow4 (a : A4 Int) (i : Int) (x : V3) : Except String (A4 Int) :=
  match pyIdx a.r i with
  | some k => pure ⟨a.r, a.d, a.c, a.v.set k x.v⟩
  | none => throw "IndexError"
/-- `np.insert(a, k, fill, axis=0)` for `0 ≤ k ≤ rows` -/
def insertRow4 (a : A4 Int) (k : Int) (fill : Int) : A4 Int :=
  ⟨a.r + 1, a.d, a.c, a.v.insertIdx k.toNat (List.replicate a.d (List.replicate a.c [fill, fill]))⟩
/-- `np.delete(a, i, axis=0)` for an integer index -/
def deleteRow4 (a : A4 Int) (i : Int) : Except String (A4 Int) :=
  match pyIdx a.r i with
  | some k => pure ⟨a.r - 1, a.d, a.c, a.v.eraseIdx k⟩
  | none => throw "IndexError"

/-! ### vocabulary of the translated neighbor-path code (`GenN`) -/

/-- an `ATally` value as `compute_shapley_add` reads it (`tupletally` / the label tallies of the invalid value are never read: `is_inf` is tested first) -/
structure Tally where
  is_inf : Bool
  tupletally : Int
  labeltally_with : List Int
  labeltally_without : List Int
deriving Repr, Inhabited

/-- `itertools.product(a, chain(b, [None]))` -/
def productChainNone (a b : List Int) : List (Int × Option Int) :=
  a.flatMap (fun x => (b.map some ++ [none]).map (fun y => (x, y)))

/-- `np.argmax` of an integer vector: first index of the maximum -/
def argmaxI : List Int → Int
  | [] => 0
  | x :: xs =>
      let rec go (best : Int) (bi : Nat) (i : Nat) : List Int → Nat
        | [] => bi
        | y :: ys => if y > best then go y i (i + 1) ys else go best bi (i + 1) ys
      ((go x 0 1 xs : Nat) : Int)

/-- `np.argmin` of a vector of scalars: first index of the minimum -/
def argminF [LT α] [DecidableRel (α := α) (· < ·)] : List α → Int
  | [] => 0
  | x :: xs =>
      let rec go (best : α) (bi : Nat) (i : Nat) : List α → Nat
        | [] => bi
        | y :: ys => if y < best then go y i (i + 1) ys else go best bi (i + 1) ys
      ((go x 0 1 xs : Nat) : Int)

/-- `l[mask]` with a Boolean mask of the same length -/
def maskSel (l : List β) (m : List Bool) : List β := ((l.zip m).filter (fun x => x.2)).map (fun x => x.1)
/-- `a[mask]`: the rows of a 2-D array selected by a Boolean mask -/
def maskRows (a : A2 β) (m : List Bool) : A2 β := let rows := maskSel a.d m; ⟨rows.length, a.c, rows⟩
/-- `np.argmin(a, axis=0)`: per column the first row of the minimum -/
def argmin0 [Inhabited α] [LT α] [DecidableRel (α := α) (· < ·)] (a : A2 α) : List Int :=
  (List.range a.c).map (fun (j : Nat) => argminF (col a (j : Int)))
/-- `a[i, :] = x` -/
def setRowConst (a : A2 β) (i : Int) (x : β) : A2 β := ⟨a.r, a.c, set1 a.d i (List.replicate a.c x)⟩
/-- `a[i, j] = x` -/
def set2 (a : A2 β) (i j : Int) (x : β) : A2 β :=
  match pyIdx a.d.length i with
  | some k => ⟨a.r, a.c, a.d.set k (set1 (a.d.getD k []) j x)⟩
  | none => a
/-- `np.broadcast_to(np.expand_dims(l, axis=1), (r, c))` for `len(l) = r` -/
def broadcastCols (l : List β) (r c : Int) : A2 β := ⟨r.toNat, c.toNat, l.map (fun x => List.replicate c.toNat x)⟩

/-! ### vocabulary of the translated decision-diagram operations (`GenD`): nested-list arrays of 2 and 3 dimensions -/

/-- `a[i, j]` on a 2-D nested list -/
def getL2 [Inhabited β] (a : List (List β)) (i j : Int) : β := get1 (get1 a i) j
/-- `a[i, j] = x` -/
def setL2 (a : List (List β)) (i j : Int) (x : β) : List (List β) :=
  match pyIdx a.length i with
  | some k => a.set k (set1 (a.getD k []) j x)
  | none => a
/-- `a[i, j, k] = x` -/
def set3 (a : List (List (List β))) (i j k : Int) (x : β) : List (List (List β)) :=
  match pyIdx a.length i with
  | some r => a.set r (setL2 (a.getD r []) j k x)
  | none => a
/-- `np.zeros((r, c), dtype=int)` -/
def zerosL2 (r c : Int) : List (List Int) := List.replicate r.toNat (List.replicate c.toNat (0 : Int))
/-- `a[:, j] = x` -/
def setColL2 (a : List (List β)) (j : Int) (x : β) : List (List β) := a.map (fun row => set1 row j x)
/-- position of `x` in `l` (the value a dictionary built by `dict((u, i) for i, u in enumerate(l))` holds for a key that is present) -/
def indexOf (l : List Int) (x : Int) : Int := ((l.idxOf x : Nat) : Int)
/-- `np.delete(a, i, axis=0)` / `list.pop(i)` for `0 ≤ i < len` -/
def deleteAt (l : List β) (i : Int) : List β := l.eraseIdx i.toNat
/-- `b ** e` for a non-negative integer exponent -/
def ipow (b e : Int) : Int := b ^ e.toNat

/-! ### vocabulary of the translated `ShapleyOracle.__init__` (`GenD.oracle_init`) -/

/-- `itertools.chain(l, [None])` -/
def chainNone (l : List Int) : List (Option Int) := l.map some ++ [none]
/-- `tuple(np.eye(n, dtype=int)[k])`: the `k`-th unit vector of length `n` -/
def eyeRow (n k : Int) : List Int := (range 0 n 1).map (fun i => if i = k then (1 : Int) else 0)

/-! ### vocabulary of the translated failure handler of the utilities (`GenK.utility_call`) -/

/-- what a guarded piece of code did, seen from its `try … except (handled…)` under `simplefilter("error", category=W)` for the categories `escalated`:
`.ok (some x)`: it returned `x` (a warning of a category that is not escalated is ignored); `.ok none`: it raised a class of the `except` clause (directly or as an
escalated warning); `.error cls`: another class, which propagates -/
def outcome (handled escalated : List String) (o : Out α) : Except String (Option α) :=
  match o with
  | .val x => .ok (some x)
  | .exc c => if handled.contains c then .ok none else .error c
  | .warn c x => if escalated.contains c then (if handled.contains c then .ok none else .error c) else .ok (some x)

/-- Python's `min(l)` (`none`: `min([])` raises ValueError); the first of equal minima is kept -/
def minOpt [LT α] [DecidableRel (α := α) (· < ·)] : List α → Option α
  | [] => none
  | s :: ss => some (ss.foldl (fun m x => if x < m then x else m) s)

/-! ### vocabulary of the translated data path of `Provenance.__init__` (`GenI`) -/

/-- `np.repeat(v, k)`: every entry `k` times -/
def repeatEach (v : List β) (k : Int) : List β := v.flatMap (fun x => List.replicate k.toNat x)
/-- `np.tile(v, k)`: the whole vector `k` times -/
def tile (v : List β) (k : Int) : List β := (List.replicate k.toNat v).flatten

/-! ### vocabulary of the translated `Provenance.fork` / `__getitem__` (`GenC`) -/

/-- `a.repeat(sizes, axis=0)`: row `i` repeated `sizes[i]` times -/
def repeatRows4 (a : A4 Int) (sizes : List Int) : A4 Int :=
  let rows := (List.zipWith (fun row (k : Int) => List.replicate k.toNat row) a.v sizes).flatten
  ⟨rows.length, a.d, a.c, rows⟩
/-- `np.array(a[index])` for a list of (possibly negative) row positions; a position out of range raises IndexError -/
def takeRows4 (a : A4 Int) (index : List Int) : Except String (A4 Int) := do
  let rows ← index.mapM (fun i => match pyIdx a.v.length i with
    | some k => pure (a.v.getD k [])
    | none => throw "IndexError")
  pure ⟨rows.length, a.d, a.c, rows⟩

/-! ### vocabulary of the translated `ADD.sum` (`GenD.add_sum`) -/

/-- a 3-D array `(r, d, c)` filled with `x` -/
def full3 (r d c : Int) (x : β) : List (List (List β)) := List.replicate r.toNat (List.replicate d.toNat (List.replicate c.toNat x))
/-- `d.setdefault(key, len(d))` on an insertion-ordered dictionary kept as an association list: the dictionary afterwards and the value found / inserted -/
def setdefault (d : List ((Int × Int) × Int)) (key : Int × Int) : List ((Int × Int) × Int) × Int :=
  match d.find? (fun kv => kv.1 == key) with
  | some kv => (d, kv.2)
  | none => (d ++ [(key, (d.length : Int))], (d.length : Int))

/-! ### vocabulary of the translated `ADD.update` / `construct_chain` (`GenD`) -/

/-- `a[tuple(zip(*loc))] += v`: every listed entry becomes ORIGINAL entry `+ v` (NumPy reads all entries first; an entry listed twice is incremented once) -/
def fancyAdd3 [Inhabited β] (vadd : β → β → β) (a : List (List (List β))) (loc : List (Int × Int × Int)) (v : β) : List (List (List β)) :=
  loc.foldl (fun acc e => set3 acc e.1 e.2.1 e.2.2 (vadd (get3 a e.1 e.2.1 e.2.2) v)) a
/-- `a[tuple(zip(*loc))] = [v, …, v]` -/
def fancySet3 (a : List (List (List β))) (loc : List (Int × Int × Int)) (v : β) : List (List (List β)) :=
  loc.foldl (fun acc e => set3 acc e.1 e.2.1 e.2.2 v) a
/-- a 2-D nested list `(r, c)` filled with `x` (`np.ones((r, c), dtype=int)` for `x = 1`) -/
def full2L (r c : Int) (x : β) : List (List β) := List.replicate r.toNat (List.replicate c.toNat x)

/-! ### vocabulary of the translated `ADD.concatenate` (`GenD.add_concatenate`) -/

/-- `np.pad(a, [(0, 0), (0, k), …], constant_values=x)`: every level (first axis) gets `k` more entries `x` on the node axis -/
def padNodeAxis (a : List (List β)) (k : Int) (x : β) : List (List β) := a.map (fun lv => lv ++ List.replicate k.toNat x)
/-- `a[idx, selector, :] = v`: in level `idx`, every node whose selector entry is true gets all its entries set to `v` -/
def setRowsWhere (a : List (List (List Int))) (idx : Int) (selector : List Bool) (v : Int) : List (List (List Int)) :=
  match pyIdx a.length idx with
  | some k => a.set k (List.zipWith (fun (nd : List Int) (b : Bool) => if b then nd.map (fun _ => v) else nd) (a.getD k []) selector)
  | none => a

/-! ### vocabulary of the translated `ADD.stack` (`GenD.add_stack`) -/

/-- `np.cumsum` of an integer list -/
def cumsumI (l : List Int) : List Int := (l.foldl (fun (st : Int × List Int) x => (st.1 + x, st.2 ++ [st.1 + x])) ((0 : Int), [])).2
/-- a slice bound `b ** e` with integer operands: a negative exponent yields a float, which a slice rejects (TypeError) -/
def powBound (b e : Int) : Except String Int := if e < 0 then .error "TypeError" else .ok (b ^ e.toNat)
/-- `row[:stop] = vals` (`stop ≥ 0`), NumPy's rule: the value list must be as long as the slice (`min stop len`) or have length 1 (broadcast), else ValueError -/
def assignPrefix (row : List β) (stop : Int) (vals : List β) : Except String (List β) :=
  let n := min stop.toNat row.length
  if vals.length = n then .ok (vals ++ row.drop n)
  else match vals with
    | [x] => .ok (List.replicate n x ++ row.drop n)
    | _ => .error "ValueError"
/-- `a[i, :stop] = vals` on a 2-D array -/
def assignRowPrefix (a : List (List β)) (i stop : Int) (vals : List β) : Except String (List (List β)) :=
  match pyIdx a.length i with
  | none => .error "IndexError"
  | some k => do
    let r ← assignPrefix (a.getD k []) stop vals
    pure (a.set k r)
/-- `a[i, :stop, c] = vals` on a 3-D array whose last axis has `ncol` entries (indices are checked before the shapes are compared) -/
def assignColPrefix (a : List (List (List β))) (ncol i stop c : Int) (vals : List β) : Except String (List (List (List β))) :=
  match pyIdx a.length i, pyIdx ncol.toNat c with
  | some k, some cc =>
    let lv := a.getD k []
    let n := min stop.toNat lv.length
    if vals.length = n then .ok (a.set k (List.zipWith (fun (nd : List β) v => nd.set cc v) (lv.take n) vals ++ lv.drop n))
    else match vals with
      | [x] => .ok (a.set k ((lv.take n).map (fun (nd : List β) => nd.set cc x) ++ lv.drop n))
      | _ => .error "ValueError"
  | _, _ => .error "IndexError"
/-- `np.concatenate(blocks, axis=1, out=a[start:])` (`start ≥ 0`): the blocks side by side on the second axis, written over the rows `start…` of `a`; ValueError unless there is a
block, every block has exactly `len(a) - start` rows, the row widths add up to the width of `a`, and the trailing shape of every entry agrees (`okEntry`) -/
def concatAxis1Into (okEntry : β → Bool) (a : List (List β)) (start : Int) (blocks : List (List (List β))) : Except String (List (List β)) :=
  let s := min start.toNat a.length
  let rows := a.length - s
  if !blocks.isEmpty && blocks.all (fun b => b.length == rows && b.all (fun r => r.all okEntry))
      && (List.range rows).all (fun i => (blocks.map (fun b => (b.getD i []).length)).sum == (a.getD (s + i) []).length) then
    .ok (a.take s ++ (List.range rows).map (fun i => (blocks.map (fun b => b.getD i [])).flatten))
  else .error "ValueError"
/-- `a + k` for a 3-D integer array and a scalar -/
def addAll3 (a : List (List (List Int))) (k : Int) : List (List (List Int)) := a.map (fun lv => lv.map (fun nd => nd.map (fun x => x + k)))

/-! ### vocabulary of the translated `ADD.get_update_location` (`GenD.add_get_update_location`) -/

/-- `l[i]` (a Python list, or the first axis of an array) with the index checked: IndexError when out of range -/
def getE (l : List β) (i : Int) : Except String β :=
  match pyIdx l.length i with
  | some k => (match l[k]? with | some x => pure x | none => throw "IndexError")
  | none => throw "IndexError"
/-- a Python `set` of integers, kept as the sorted duplicate-free list of its members (the iteration order of a real `set` is CPython's hash order, which no caller of the
translated code depends on) -/
def pySet (l : List Int) : List Int := (l.mergeSort (fun a b => decide (a ≤ b))).eraseDups
/-- `row.nonzero()[0].tolist()`: the positions of the non-zero entries -/
def nonzeroIdx (row : List Int) : List Int := ((enumerateFrom (0 : Int) row).filter (fun ix => ix.2 != 0)).map (fun ix => ix.1)
/-- `a[i, js].flatten()` for a 3-D array and a list of positions on the second axis -/
def rowsFlatE (a : List (List (List β))) (i : Int) (js : List Int) : Except String (List β) := do
  let lv ← getE a i
  let rows ← js.mapM (fun j => getE lv j)
  pure rows.flatten
/-- `a[i, js, c].flatten()` for a 3-D array whose last axis has `ncol` entries (the scalar indices are checked even when `js` is empty) -/
def colsE (a : List (List (List β))) (ncol i : Int) (js : List Int) (c : Int) : Except String (List β) := do
  let lv ← getE a i
  match pyIdx ncol.toNat c with
  | none => throw "IndexError"
  | some cc => js.mapM (fun j => do
      let nd ← getE lv j
      match nd[cc]? with | some x => pure x | none => throw "IndexError")
/-- a `while cond: body` loop that provably ends within `fuel` iterations (here: the index it advances runs off a list, which raises IndexError, before the fuel is used up) -/
def whileFuel {σ : Type} : Nat → σ → (σ → Except String Bool) → (σ → Except String σ) → Except String σ
  | 0, _, _, _ => throw "IndexError"
  | n + 1, s, cond, body => do
    if (← cond s) then whileFuel n (← body s) cond body else pure s

end Np
