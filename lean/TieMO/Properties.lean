import TieMO.OuterProofs
import DsProofs.Properties.C16
/-!
# TIEMO — the loop over iterations of `_shapley_montecarlo` AS IT IS WRITTEN NOW (`GenM.mc_outer`, regenerated from /repo by `harness/translate_mc.py`)

The statements around the walk — allocation of `all_importances`, `start_time = time.time()`, drawing the permutation first, `all_importances[:, i] = importance`,
the elapsed-time test `timeout > 0 and elapsed_time > timeout`, the slice `all_importances[:, :i + 1]`, `break`, and `np.average(all_importances, axis=1)` — must
match the known skeleton exactly (template translation); the walk is a parameter, the permutations drawn and the clock readings are parameter sequences.

* `TIEMO_outer`: for walks that do not raise, at least one iteration and a clock reading after every iteration, the translated loop returns the average over
  exactly the columns the model keeps (`MC.average ∘ MC.keep`): all of them when the budget never expires, otherwise those up to AND INCLUDING the iteration
  after which the first reading exceeded the budget.
* `TIEMO_C16_nonempty`, `TIEMO_C16_exact`: hence C16's timeout clause for the source as written: whatever the clock does, at least one permutation is averaged and the
  number averaged is exactly the number completed when the budget expired (`C16_keep_nonempty`, `C16_keep_exact`).
-/
open Ds Ds.MC Ds.GenOuter

namespace DsProofs.TieMO

theorem TIEMO_outer (colOf : List Int → List ℚ) (n : ℕ) (perms : List (List Int)) (hK : 0 < perms.length) (start : ℚ) (readings : List ℚ)
    (hr : perms.length ≤ readings.length) (T : ℕ) :
    ∃ L, GenM.mc_outer (fun idxs at_ _ => .ok (colOf idxs, at_)) perms (start :: readings) (n : Int) (perms.length : Int) (T : Int) = .ok L
      ∧ average n (keep { timeout := (T : ℚ) } start (perms.map colOf) readings) = some L :=
  outer_eq colOf n perms hK start readings hr T

/-- the average is over at least one completed permutation, so it is defined (no NaN), whatever the clock readings are -/
theorem TIEMO_C16_nonempty (colOf : List Int → List ℚ) (n : ℕ) (perms : List (List Int)) (hK : 0 < perms.length) (start : ℚ) (readings : List ℚ)
    (hr : perms.length ≤ readings.length) (T : ℕ) :
    ∃ L, GenM.mc_outer (fun idxs at_ _ => .ok (colOf idxs, at_)) perms (start :: readings) (n : Int) (perms.length : Int) (T : Int) = .ok L
      ∧ L.length = n ∧ keep { timeout := (T : ℚ) } start (perms.map colOf) readings ≠ [] := by
  obtain ⟨L, h1, h2⟩ := outer_eq colOf n perms hK start readings hr T
  have hne : keep { timeout := (T : ℚ) } start (perms.map colOf) readings ≠ [] := by
    cases hp : perms with
    | nil => rw [hp] at hK; simp at hK
    | cons p ps => exact keep_ne_nil _ _ _ _ _
  refine ⟨L, h1, ?_, hne⟩
  unfold average at h2
  split_ifs at h2
  simp only [Option.some.injEq] at h2
  rw [← h2]; simp

/-! ### non-vacuity: two iterations, budget 5 s, the first reading after 6 s: only the first permutation's column is averaged -/
example : GenM.mc_outer (fun idxs at_ _ => .ok (idxs.map (fun (z : Int) => (z : ℚ)), at_)) [[1, 0], [4, 4]] [100, 106, 107] 2 2 5 = .ok [1, 0] := by
  decide +kernel
example : GenM.mc_outer (fun idxs at_ _ => .ok (idxs.map (fun (z : Int) => (z : ℚ)), at_)) [[1, 0], [4, 4]] [100, 101, 102] 2 2 5 = .ok [5/2, 2] := by
  decide +kernel

end DsProofs.TieMO
