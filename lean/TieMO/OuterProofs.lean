import GenM.Walk
import Ds.Brute
import Tie.NpProofs
import TieJ.JointProofs
/-!
# The translated outer Monte-Carlo loop (`GenM.mc_outer`, regenerated from /repo) against the model's `MC.keep` / `MC.average`
-/
open Ds Ds.MC

namespace Ds.GenOuter

abbrev St := (Np.M ℚ × List Int × List (List Int) × List ℚ)

/-- the body of the translated loop (must be definitionally the generated text, with the walk total) -/
def bodyG (colOf : List Int → List ℚ) (start : ℚ) (T : Int) (st_ : St) (i : Int) : Except String (St × Bool) := do
      let all_importances : (Np.M ℚ) := st_.1
      let all_truncations : (List Int) := st_.2.1
      let perms : (List (List Int)) := st_.2.2.1
      let clock : (List ℚ) := st_.2.2.2
      let idxs : (List Int) := (Np.headL perms)
      let perms : (List (List Int)) := perms.tail
      let w_ ← (Except.ok (colOf idxs, all_truncations) : Except String (List ℚ × List Int))
      let importance : (List ℚ) := w_.1
      let all_truncations : (List Int) := w_.2
      let all_importances : (Np.M ℚ) := Np.setColM all_importances i importance
      let tnow_ : ℚ := (Np.headF clock)
      let clock : (List ℚ) := clock.tail
      let elapsed_time : ℚ := (tnow_ - start)
      if ((decide (T > (0 : Int))) && (decide (elapsed_time > (Np.ofInt T)))) then
        let all_importances : (Np.M ℚ) := (Np.sliceColsM all_importances (i + (1 : Int)))
        pure ((all_importances, all_truncations, perms, clock), true)
      else
        pure ((all_importances, all_truncations, perms, clock), false)

def loopG (colOf : List Int → List ℚ) (start : ℚ) (T : Int) (sb : St × Bool) (i : Int) : Except String (St × Bool) :=
  if sb.2 then pure sb else bodyG colOf start T sb.1 i

theorem outer_unfold (colOf : List Int → List ℚ) (perms : List (List Int)) (start : ℚ) (readings : List ℚ) (n K T : Int) :
    GenM.mc_outer (fun idxs at_ _ => .ok (colOf idxs, at_)) perms (start :: readings) n K T
      = ((((Np.range 0 K 1).foldlM (loopG colOf start T)
            (((Np.zerosM n K : Np.M ℚ), (List.map (fun x_ => x_ * n) (Np.rep (1 : Int) K)), perms, readings), false)).map (·.1)).map
          (fun st_ => Np.averageAxis1M st_.1)) := by
  unfold GenM.mc_outer
  simp only [bind_pure_comp]
  rfl

/-- once `break` was taken the remaining iterations leave the state alone -/
theorem fold_skip (colOf : List Int → List ℚ) (start : ℚ) (T : Int) (s : St) (l : List Int) :
    l.foldlM (loopG colOf start T) (s, true) = .ok (s, true) := by
  induction l with
  | nil => rfl
  | cons a t ih => simp only [List.foldlM_cons, loopG, if_true, bind, Except.bind, pure, Except.pure]; exact ih

theorem ofInt_cast (z : Int) : (Np.ofInt z : ℚ) = (z : ℚ) := by
  unfold Np.ofInt
  split_ifs with h
  · have : ((z.toNat : ℕ) : Int) = z := Int.toNat_of_nonneg h
    have h2 : ((z.toNat : ℕ) : ℚ) = ((z.toNat : Int) : ℚ) := by push_cast; rfl
    rw [h2, this]
  · have hn : 0 ≤ -z := by omega
    have : (((-z).toNat : ℕ) : Int) = -z := Int.toNat_of_nonneg hn
    have h2 : (((-z).toNat : ℕ) : ℚ) = (((-z).toNat : Int) : ℚ) := by push_cast; rfl
    rw [h2, this]; push_cast; ring

/-- **the loop**: with `done` columns stored, the remaining permutations `ps` and clock readings `rs`, the loop ends with exactly the columns the model keeps -/
theorem loop_spec (colOf : List Int → List ℚ) (start : ℚ) (T : ℕ) (n : ℕ) (ps : List (List Int)) (rs : List ℚ) (hrs : ps.length ≤ rs.length)
    (done : List (List ℚ)) (at_ : List Int) :
    ∃ (s : St) (b : Bool),
      ((List.range' done.length ps.length).map (fun (k : ℕ) => (k : Int))).foldlM (loopG colOf start (T : Int))
          ((⟨n, done.length + ps.length, done ++ List.replicate ps.length (List.replicate n 0)⟩, at_, ps, rs), false) = .ok (s, b)
      ∧ s.1.cols = done ++ keep { timeout := (T : ℚ) } start (ps.map colOf) rs
      ∧ s.1.c = (done ++ keep { timeout := (T : ℚ) } start (ps.map colOf) rs).length ∧ s.1.r = n := by
  induction ps generalizing rs done at_ with
  | nil =>
    refine ⟨_, false, rfl, ?_, ?_, rfl⟩ <;> simp [keep]
  | cons p ps ih =>
    cases rs with
    | nil => simp at hrs
    | cons r rs =>
      simp only [List.length_cons, List.range'_succ, List.map_cons, List.foldlM_cons]
      -- one iteration
      have hset : Np.set1 (done ++ List.replicate (ps.length + 1) (List.replicate n (0 : ℚ))) ((done.length : ℕ) : Int) (colOf p)
          = (done ++ [colOf p]) ++ List.replicate ps.length (List.replicate n 0) := by
        rw [Np.set1_natCast, List.replicate_succ]
        simp
      by_cases hto : (T : ℚ) > 0 ∧ r - start > (T : ℚ)
      · -- the budget is spent after this iteration: slice and break
        have hcond : ((decide ((T : Int) > 0)) && (decide (r - start > (Np.ofInt (T : Int) : ℚ)))) = true := by
          rw [ofInt_cast]
          simp only [Bool.and_eq_true, decide_eq_true_eq]
          refine ⟨?_, by exact_mod_cast hto.2⟩
          have := hto.1
          exact_mod_cast this
        have hstep : loopG colOf start (T : Int)
            ((⟨n, done.length + (ps.length + 1), done ++ List.replicate (ps.length + 1) (List.replicate n 0)⟩, at_, p :: ps, r :: rs), false) ((done.length : ℕ) : Int)
            = .ok ((⟨n, (done ++ [colOf p]).length, done ++ [colOf p]⟩, at_, ps, rs), true) := by
          unfold loopG bodyG
          simp only [Bool.false_eq_true, if_false, Np.headL, List.headD_cons, List.tail_cons, Np.headF, bind, Except.bind, pure, Except.pure, Np.setColM]
          rw [hset]
          simp only [Bool.and_eq_true, decide_eq_true_eq, ofInt_cast]
          have hT1 : (T : Int) > 0 := by have := hto.1; exact_mod_cast this
          have hT2 : r - start > (((T : ℕ) : Int) : ℚ) := by exact_mod_cast hto.2
          rw [if_pos ⟨hT1, hT2⟩]
          simp only [Np.sliceColsM]
          have e1 : (((done.length : ℕ) : Int) + 1) = ((done.length + 1 : ℕ) : Int) := by push_cast; ring
          have hsl : Np.slice1 ((done ++ [colOf p]) ++ List.replicate ps.length (List.replicate n (0 : ℚ))) none (some (((done.length : ℕ) : Int) + 1))
              = done ++ [colOf p] := by
            rw [e1]
            unfold Np.slice1
            simp only []
            have h1 : ¬ (((done.length + 1 : ℕ) : Int) < 0) := by omega
            rw [if_neg h1]
            have h2 : (min ((done.length + 1 : ℕ) : Int) ((((done ++ [colOf p]) ++ List.replicate ps.length (List.replicate n (0 : ℚ))).length : ℕ) : Int)).toNat
                = done.length + 1 := by
              simp only [List.length_append, List.length_cons, List.length_nil, List.length_replicate]
              omega
            rw [h2]
            have : (done ++ [colOf p] ++ List.replicate ps.length (List.replicate n (0 : ℚ))).take (done.length + 1) = done ++ [colOf p] := by
              have hl : (done ++ [colOf p]).length = done.length + 1 := by simp
              rw [← hl, List.take_left']
              rfl
            simpa using this
          rw [hsl]
        rw [hstep]
        simp only [bind, Except.bind]
        rw [fold_skip]
        refine ⟨_, true, rfl, ?_, ?_, rfl⟩
        · simp only [List.map_cons, keep, if_pos hto]
        · simp only [List.map_cons, keep, if_pos hto]
      · -- go on
        have hcond : ((decide ((T : Int) > 0)) && (decide (r - start > (Np.ofInt (T : Int) : ℚ)))) = false := by
          rw [ofInt_cast]
          rw [Bool.and_eq_false_iff]
          by_cases hT : (T : ℚ) > 0
          · right
            simp only [decide_eq_false_iff_not]
            intro hc
            exact hto ⟨hT, by exact_mod_cast hc⟩
          · left
            simp only [decide_eq_false_iff_not]
            intro hc
            exact hT (by exact_mod_cast hc)
        have hstep : loopG colOf start (T : Int)
            ((⟨n, done.length + (ps.length + 1), done ++ List.replicate (ps.length + 1) (List.replicate n 0)⟩, at_, p :: ps, r :: rs), false) ((done.length : ℕ) : Int)
            = .ok ((⟨n, done.length + (ps.length + 1), (done ++ [colOf p]) ++ List.replicate ps.length (List.replicate n 0)⟩, at_, ps, rs), false) := by
          unfold loopG bodyG
          simp only [Bool.false_eq_true, if_false, Np.headL, List.headD_cons, List.tail_cons, Np.headF, bind, Except.bind, pure, Except.pure, Np.setColM]
          rw [hset]
          simp only [Bool.and_eq_true, decide_eq_true_eq, ofInt_cast]
          have hneg : ¬ ((T : Int) > 0 ∧ r - start > (((T : ℕ) : Int) : ℚ)) := by
            intro hpos
            exact hto ⟨by have := hpos.1; exact_mod_cast this, by exact_mod_cast hpos.2⟩
          rw [if_neg hneg]
        rw [hstep]
        simp only [bind, Except.bind]
        have hlen : done.length + (ps.length + 1) = (done ++ [colOf p]).length + ps.length := by simp; omega
        have hidx : done.length + 1 = (done ++ [colOf p]).length := by simp
        rw [hlen, hidx]
        obtain ⟨s, b, h1, h2, h3, h4⟩ := ih rs (by simpa using hrs) (done ++ [colOf p]) at_
        refine ⟨s, b, h1, ?_, ?_, h4⟩
        · rw [h2]; simp only [List.map_cons, keep, if_neg hto, List.append_assoc, List.singleton_append]
        · rw [h3]; simp only [List.map_cons, keep, if_neg hto, List.append_assoc, List.singleton_append]

end Ds.GenOuter

namespace Ds.GenOuter
open Ds.GenJoint

theorem keep_ne_nil (pr : Params) (start : ℚ) (c : List ℚ) (cs : List (List ℚ)) (rs : List ℚ) : keep pr start (c :: cs) rs ≠ [] := by
  cases rs with
  | nil => simp [keep]
  | cons t ts =>
    simp only [keep]
    split_ifs <;> simp

/-- **The translated loop over iterations computes the model's `average ∘ keep`** (walks that do not raise; at least one iteration; a clock reading after
every iteration). -/
theorem outer_eq (colOf : List Int → List ℚ) (n : ℕ) (perms : List (List Int)) (hK : 0 < perms.length) (start : ℚ) (readings : List ℚ)
    (hr : perms.length ≤ readings.length) (T : ℕ) :
    ∃ L, GenM.mc_outer (fun idxs at_ _ => .ok (colOf idxs, at_)) perms (start :: readings) (n : Int) (perms.length : Int) (T : Int) = .ok L
      ∧ average n (keep { timeout := (T : ℚ) } start (perms.map colOf) readings) = some L := by
  rw [outer_unfold, Np.range_up]
  have hz : (Np.zerosM (n : Int) (perms.length : Int) : Np.M ℚ) = ⟨n, 0 + perms.length, [] ++ List.replicate perms.length (List.replicate n 0)⟩ := by
    simp [Np.zerosM]
  rw [hz]
  have hrange : List.range perms.length = List.range' ([] : List (List ℚ)).length perms.length := by
    simp [List.range_eq_range']
  rw [hrange]
  obtain ⟨s, b, h1, h2, h3, h4⟩ := loop_spec colOf start T n perms readings hr [] (List.map (fun x_ => x_ * (n : Int)) (Np.rep (1 : Int) (perms.length : Int)))
  simp only [List.length_nil] at h1 ⊢
  rw [h1]
  simp only [List.nil_append] at h2 h3
  refine ⟨_, rfl, ?_⟩
  unfold average
  have hne : keep { timeout := (T : ℚ) } start (perms.map colOf) readings ≠ [] := by
    cases hp : perms with
    | nil => rw [hp] at hK; simp at hK
    | cons p ps => exact keep_ne_nil _ _ _ _ _
  have hemp : (keep { timeout := (T : ℚ) } start (perms.map colOf) readings).isEmpty = false := by
    cases hk : keep { timeout := (T : ℚ) } start (perms.map colOf) readings with
    | nil => exact absurd hk hne
    | cons a t => rfl
  rw [hemp]
  simp only [Bool.false_eq_true, if_false, Option.some.injEq, Except.map, Np.averageAxis1M]
  rw [h2, h3, h4]
  apply List.map_congr_left
  intro u _
  rw [sumGen_eq_sum]
  rfl

end Ds.GenOuter
