import TieQ.Properties
