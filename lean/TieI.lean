import TieI.Properties
