import TieMO.Properties
