import GenK.UCall
