import GenQ.Query
import Ds.Prov
import Tie.NpProofs
/-!
# The translated `Provenance.query` (`GenQ/Query.lean`, regenerated from /repo) equals the model `Ds.Prov.query` / `queryIdx`
Helper lemmas; property-level statements in `TieQ/Properties.lean`.
-/
open Ds Ds.Prov

namespace Ds.GenQuery

/-- the container as the 4-D array the code works on -/
def toA4 (p : P) : Np.A4 Int :=
  ⟨p.data.length, p.nDisj, p.nConj, p.data.map (fun row => row.map (fun cj => cj.map (fun l => [l.1, l.2])))⟩

/-- the stored array is rectangular with the recorded shape -/
def Shaped (p : P) : Prop := ∀ row ∈ p.data, row.length = p.nDisj ∧ ∀ cj ∈ row, cj.length = p.nConj

/-- index `i` is a legal (possibly negative) index into a sequence of length `len` -/
def okIdx (len : ℕ) (i : Int) : Bool := (Np.pyIdx len i).isSome
/-- the element it selects -/
def valIdx (V : List Int) (i : Int) : Int := match Np.pyIdx V.length i with | some k => V.getD k 0 | none => 0

theorem take1_eq (V : List Int) (i : Int) :
    Np.take1 V i = if okIdx V.length i then .ok (valIdx V i) else .error "IndexError" := by
  unfold Np.take1 okIdx valIdx
  cases Np.pyIdx V.length i <;> rfl

theorem pyIdx?_eq (V : List Int) (i : Int) :
    Prov.pyIdx? V i = if okIdx V.length i then some (valIdx V i) else none := by
  unfold Prov.pyIdx? okIdx valIdx Np.pyIdx
  by_cases h0 : 0 ≤ i
  · simp only [h0, if_true]
    by_cases h1 : i.toNat < V.length
    · simp [h1, List.getD_eq_getElem?_getD]
    · simp [h1, List.getElem?_eq_none (Nat.le_of_not_lt h1)]
  · simp only [h0, if_false]
    by_cases h1 : (-i).toNat ≤ V.length
    · have h2 : -(V.length : Int) ≤ i := by omega
      have h3 : V.length - (-i).toNat < V.length := by omega
      simp [h1, h2, List.getD_eq_getElem?_getD, List.getElem?_eq_getElem h3]
    · have h2 : ¬ (-(V.length : Int) ≤ i) := by omega
      simp [h1, h2]

theorem litTrue_eq (vals : List Int) (l : Lit) :
    litTrue vals l = if okIdx (vals ++ [-1]).length l.1 then .ok (valIdx (vals ++ [-1]) l.1 == l.2) else .error Err.indexError := by
  unfold litTrue
  rw [pyIdx?_eq]
  split_ifs <;> rfl

/-- a `mapM` whose function either succeeds or fails with one fixed error -/
theorem mapM_dichotomy {A B ε : Type} (l : List A) (f : A → Except ε B) (ok : A → Bool) (g : A → B) (e0 : ε)
    (h : ∀ a, f a = if ok a then .ok (g a) else .error e0) :
    l.mapM f = if l.all ok then .ok (l.map g) else .error e0 := by
  induction l with
  | nil => rfl
  | cons a t ih =>
    rw [List.mapM_cons, h a, ih]
    by_cases ha : ok a
    · by_cases ht : t.all ok
      · simp [ha, ht, bind, Except.bind, pure, Except.pure]
      · simp [ha, ht, bind, Except.bind]
    · simp [ha, bind, Except.bind]

theorem zipWith_map_self {A B C D : Type} (f : B → C → D) (g : A → B) (h : A → C) (l : List A) :
    List.zipWith f (l.map g) (l.map h) = l.map (fun a => f (g a) (h a)) := by
  induction l with
  | nil => rfl
  | cons a t ih => simp [ih]

theorem getD_len_one {β : Type} (l : List β) (a b : β) (h : l.length = 1) : l.getD 0 a = l.getD 0 b := by
  cases l with
  | nil => simp at h
  | cons x t => rfl

end Ds.GenQuery

namespace Ds.GenQuery

def litVal (V : List Int) (l : Lit) : Bool := valIdx V l.1 == l.2
def okLit (V : List Int) (l : Lit) : Bool := okIdx V.length l.1
def conjVal (V : List Int) (nConj : ℕ) (cj : Conj) : Bool :=
  (if nConj == 1 then (cj.map (litVal V)).getD 0 true else (cj.map (litVal V)).all id) && !(cj.all (fun l => l.1 == -1))
def rowVal (V : List Int) (nDisj nConj : ℕ) (row : Row) : Bool :=
  if nDisj == 1 then (row.map (conjVal V nConj)).getD 0 false else (row.map (conjVal V nConj)).any id
def allOk (V : List Int) (data : Data) : Bool := data.all (fun row => row.all (fun cj => cj.all (okLit V)))

theorem conjTrue_eq (vals : List Int) (nConj : ℕ) (c : Conj) :
    conjTrue vals nConj c = if c.all (okLit (vals ++ [-1])) then .ok (conjVal (vals ++ [-1]) nConj c) else .error Err.indexError := by
  unfold conjTrue
  rw [mapM_dichotomy c (litTrue vals) (okLit (vals ++ [-1])) (litVal (vals ++ [-1])) Err.indexError (fun l => litTrue_eq vals l)]
  by_cases h : c.all (okLit (vals ++ [-1]))
  · simp only [h, if_true, conjVal, bind, Except.bind, pure, Except.pure]
  · simp only [h, Bool.false_eq_true, if_false, bind, Except.bind]

theorem rowTrue_eq (vals : List Int) (nDisj nConj : ℕ) (r : Row) :
    rowTrue vals nDisj nConj r
      = if r.all (fun cj => cj.all (okLit (vals ++ [-1]))) then .ok (rowVal (vals ++ [-1]) nDisj nConj r) else .error Err.indexError := by
  unfold rowTrue
  rw [mapM_dichotomy r (conjTrue vals nConj) (fun cj => cj.all (okLit (vals ++ [-1]))) (conjVal (vals ++ [-1]) nConj) Err.indexError
    (fun c => conjTrue_eq vals nConj c)]
  by_cases h : r.all (fun cj => cj.all (okLit (vals ++ [-1])))
  · simp only [h, if_true, rowVal, bind, Except.bind, pure, Except.pure]
  · simp only [h, Bool.false_eq_true, if_false, bind, Except.bind]

/-- the model's `query`, with the index check separated from the values -/
theorem model_query_eq (p : P) (vals : List Int) (hlen : vals.length = p.nUnits) :
    Prov.query p vals
      = if allOk (vals ++ [-1]) p.data then .ok (p.data.map (rowVal (vals ++ [-1]) p.nDisj p.nConj)) else .error Err.indexError := by
  unfold Prov.query allOk
  have : (vals.length != p.nUnits) = false := by simp [hlen]
  simp only [this, Bool.false_eq_true, if_false]
  exact mapM_dichotomy p.data _ _ _ _ (fun r => rowTrue_eq vals p.nDisj p.nConj r)

theorem mapM_map {A B C ε : Type} (l : List A) (g : A → B) (f : B → Except ε C) : (l.map g).mapM f = l.mapM (fun a => f (g a)) := by
  induction l with
  | nil => rfl
  | cons a t ih => simp only [List.map_cons, List.mapM_cons, ih]

/-- the fancy indexing of the translated code -/
theorem take3_eq (p : P) (V : List Int) :
    Np.take3 V (Np.sel4 (toA4 p) 0)
      = if allOk V p.data then
          .ok ⟨p.data.length, p.nDisj, p.nConj, p.data.map (fun row => row.map (fun cj => cj.map (fun l => valIdx V l.1)))⟩
        else .error "IndexError" := by
  unfold Np.take3 Np.sel4 toA4 allOk
  simp only [List.map_map, Function.comp_def, List.getD_cons_zero]
  rw [mapM_map]
  have h3 : ∀ cj : Conj, List.mapM (Np.take1 V) (cj.map (fun l => l.1))
      = if cj.all (okLit V) then .ok (cj.map (fun l => valIdx V l.1)) else .error "IndexError" := by
    intro cj
    rw [mapM_map]
    exact mapM_dichotomy cj _ (okLit V) (fun l => valIdx V l.1) "IndexError" (fun l => take1_eq V l.1)
  have h2 : ∀ row : Row, List.mapM (fun cj => List.mapM (Np.take1 V) cj) (row.map (fun cj => cj.map (fun l => l.1)))
      = if row.all (fun cj => cj.all (okLit V)) then .ok (row.map (fun cj => cj.map (fun l => valIdx V l.1))) else .error "IndexError" := by
    intro row
    rw [mapM_map]
    exact mapM_dichotomy row _ (fun cj => cj.all (okLit V)) (fun cj => cj.map (fun l => valIdx V l.1)) "IndexError" h3
  rw [mapM_dichotomy p.data _ (fun row => row.all (fun cj => cj.all (okLit V))) (fun row => row.map (fun cj => cj.map (fun l => valIdx V l.1)))
    "IndexError" h2]
  split_ifs <;> rfl

end Ds.GenQuery

namespace Ds.GenQuery

theorem any_congr_mem {A : Type} {l : List A} {f g : A → Bool} (h : ∀ a ∈ l, f a = g a) : l.any f = l.any g := by
  induction l with
  | nil => rfl
  | cons a t ih =>
    simp only [List.any_cons]
    rw [h a List.mem_cons_self, ih (fun x hx => h x (List.mem_cons_of_mem _ hx))]

theorem all_map_id {A : Type} (l : List A) (f : A → Bool) : (l.map f).all id = l.all f := by
  induction l with
  | nil => rfl
  | cons a t ih => simp [ih]

theorem any_map_id {A : Type} (l : List A) (f : A → Bool) : (l.map f).any id = l.any f := by
  induction l with
  | nil => rfl
  | cons a t ih => simp [ih]

/-- the translated `query` (mask), with the index check separated from the values -/
theorem gen_mask_eq (p : P) (hs : Shaped p) (vals : List Int) (hlen : vals.length = p.nUnits) :
    GenQ.query_mask (toA4 p) (p.nUnits : Int) vals
      = if allOk (vals ++ [-1]) p.data then .ok (p.data.map (rowVal (vals ++ [-1]) p.nDisj p.nConj)) else .error "IndexError" := by
  unfold GenQ.query_mask
  have hguard : ¬ ¬ (Np.len1 vals = (p.nUnits : Int)) := by simp [Np.len1, hlen]
  simp only [hguard, if_false, Np.append1]
  rw [take3_eq]
  by_cases hok : allOk (vals ++ [-1]) p.data
  · simp only [hok, if_true, bind, Except.bind, pure, Except.pure]
    congr 1
    simp only [Np.eq3, Np.sel4, toA4, Np.shape3, Np.shape2, Np.squeeze3_2, Np.allAxis2, Np.andA2, Np.not2, Np.eqS3, Np.squeeze2_1, Np.anyAxis1,
      List.map_map, Function.comp_def, List.getD_cons_zero, List.getD_cons_succ]
    have h2 : ((2 : ℕ) = 0) = False := by simp
    have h21 : ((2 : ℕ) = 1) = False := by simp
    have h10 : ((1 : ℕ) = 0) = False := by simp
    simp only [h2, h21, h10, if_false, if_true]
    by_cases hc : p.nConj = 1
    · have hc' : ((p.nConj : Int) = 1) := by simp [hc]
      have hcb : (p.nConj == 1) = true := by simp [hc]
      by_cases hd : p.nDisj = 1
      · have hd' : ((p.nDisj : Int) = 1) := by simp [hd]
        have hdb : (p.nDisj == 1) = true := by simp [hd]
        simp only [hc', hd', if_true, List.map_map, zipWith_map_self, Function.comp_def]
        apply List.map_congr_left
        intro row hrow
        unfold rowVal conjVal
        simp only [hcb, hdb, if_true, List.map_map, zipWith_map_self, Function.comp_def, List.getD_eq_getElem?_getD, List.getElem?_map]
        cases hr : row[0]? with
        | none => simp
        | some cj =>
          have hcj : cj ∈ row := List.mem_of_getElem? hr
          have hl : cj.length = 1 := by rw [(hs row hrow).2 cj hcj, hc]
          simp only [Option.map_some, Option.getD_some, all_map_id, litVal]
          congr 1
          cases cj with
          | nil => simp at hl
          | cons l t => simp [litVal]
      · have hd' : ¬ ((p.nDisj : Int) = 1) := by simp [hd]
        have hdb : (p.nDisj == 1) = false := by simp [hd]
        simp only [hc', hd', if_true, if_false, List.map_map, zipWith_map_self, Function.comp_def]
        apply List.map_congr_left
        intro row hrow
        unfold rowVal conjVal
        simp only [hcb, hdb, if_true, Bool.false_eq_true, if_false, List.map_map, zipWith_map_self, Function.comp_def, any_map_id]
        apply any_congr_mem
        intro cj hcj
        have hl : cj.length = 1 := by rw [(hs row hrow).2 cj hcj, hc]
        simp only [all_map_id]
        congr 1
        cases cj with
        | nil => simp at hl
        | cons l t => simp [litVal]
    · have hc' : ¬ ((p.nConj : Int) = 1) := by simp [hc]
      have hcb : (p.nConj == 1) = false := by simp [hc]
      by_cases hd : p.nDisj = 1
      · have hd' : ((p.nDisj : Int) = 1) := by simp [hd]
        have hdb : (p.nDisj == 1) = true := by simp [hd]
        simp only [hc', hd', if_true, if_false, List.map_map, zipWith_map_self, Function.comp_def]
        apply List.map_congr_left
        intro row hrow
        unfold rowVal conjVal
        simp only [hcb, hdb, if_true, Bool.false_eq_true, if_false, List.map_map, zipWith_map_self, Function.comp_def, List.getD_eq_getElem?_getD,
          List.getElem?_map]
        cases hr : row[0]? with
        | none => simp
        | some cj =>
          simp only [Option.map_some, Option.getD_some, all_map_id]
          rfl
      · have hd' : ¬ ((p.nDisj : Int) = 1) := by simp [hd]
        have hdb : (p.nDisj == 1) = false := by simp [hd]
        simp only [hc', hd', if_false, List.map_map, zipWith_map_self, Function.comp_def]
        apply List.map_congr_left
        intro row hrow
        unfold rowVal conjVal
        simp only [hcb, hdb, Bool.false_eq_true, if_false, List.map_map, zipWith_map_self, Function.comp_def, any_map_id, all_map_id]
        rfl
  · simp only [hok, Bool.false_eq_true, if_false, bind, Except.bind]

end Ds.GenQuery
