import TieQ.QueryProofs
import DsProofs.Properties.C05
/-!
# TIEQ — theorems about `Provenance.query` AS IT IS WRITTEN NOW (`GenQ/Query.lean`, regenerated from /repo by `harness/translate_query.py`)

Translated: the length check on the assignment vector, the appended `-1` sentinel, the fancy indexing `values[data[..., 0]]` (negative indices wrap, out
of range raises), the comparison with `data[..., 1]`, squeeze-or-`all` along the conjunct axis, the mask of all-padding disjuncts, squeeze-or-`any` along
the disjunct axis, `argwhere`.  Not translated: the dict / list normalisation of `values` in front (the generated function takes an integer vector).

* `TIEQ_mask`, `TIEQ_idx`: on every container whose stored array has its recorded shape (`Shaped`), for EVERY assignment vector (wrong length, negative or
  out-of-range entries included), the translated `query` returns exactly what the hand-written model `Ds.Prov.query` / `queryIdx` returns, error classes included
  (`ValueError` for a wrong length, `IndexError` for an index out of range) — so C05, and everything in C03 / C04 / C12 / C19 that goes through `query`, is
  about the source as written.
* `TIEQ_C05`: hence on a well padded container and a non-negative assignment of the right length the translated `query` returns the truth value of every
  row's formula (`rowSem`), and `TIEQ_C05_idx` the positions of the true rows.
-/
open Ds Ds.Prov Ds.GenQuery

namespace DsProofs.TieQ

theorem shaped_of_wellPadded (p : P) (h : WellPadded p) : Shaped p := by
  intro row hrow
  obtain ⟨h1, h2⟩ := h row hrow
  exact ⟨h1, fun cj hcj => (h2 cj hcj).1⟩

/-- **TIE (query, mask).** -/
theorem TIEQ_mask (p : P) (hs : Shaped p) (vals : List Int) :
    GenQ.query_mask (toA4 p) (p.nUnits : Int) vals = (Prov.query p vals).mapError Err.name := by
  by_cases hlen : vals.length = p.nUnits
  · rw [gen_mask_eq p hs vals hlen, model_query_eq p vals hlen]
    split_ifs <;> rfl
  · unfold GenQ.query_mask Prov.query
    have h1 : ¬ (Np.len1 vals = (p.nUnits : Int)) := by simp [Np.len1]; exact_mod_cast hlen
    have h2 : (vals.length != p.nUnits) = true := by simp [hlen]
    simp only [h1, not_false_eq_true, if_true, h2]
    rfl

/-- **TIE (query, indices).** -/
theorem TIEQ_idx (p : P) (hs : Shaped p) (vals : List Int) :
    GenQ.query_idx (toA4 p) (p.nUnits : Int) vals
      = ((Prov.queryIdx p vals).map (fun l => l.map (fun (i : ℕ) => (i : Int)))).mapError Err.name := by
  have hm := TIEQ_mask p hs vals
  unfold GenQ.query_mask at hm
  unfold GenQ.query_idx Prov.queryIdx
  by_cases hlen : Np.len1 vals = (p.nUnits : Int)
  · simp only [hlen, not_true_eq_false, if_false] at hm ⊢
    cases hq : Prov.query p vals with
    | error e =>
      rw [hq] at hm
      cases ht : Np.take3 (Np.append1 vals [(-1 : Int)]) (Np.sel4 (toA4 p) 0) with
      | error e' =>
        rw [ht] at hm
        simp only [bind, Except.bind, Except.mapError, Except.error.injEq] at hm
        simp only [bind, Except.bind, Except.map, Except.mapError, hm]
      | ok T =>
        rw [ht] at hm
        simp [bind, Except.bind, pure, Except.pure, Except.mapError] at hm
    | ok m =>
      rw [hq] at hm
      cases ht : Np.take3 (Np.append1 vals [(-1 : Int)]) (Np.sel4 (toA4 p) 0) with
      | error e' =>
        rw [ht] at hm
        simp [bind, Except.bind, Except.mapError] at hm
      | ok T =>
        rw [ht] at hm
        simp only [bind, Except.bind, pure, Except.pure, Except.mapError, Except.ok.injEq] at hm
        simp only [bind, Except.bind, pure, Except.pure, Except.map, Except.mapError, hm, Np.argwhere1]
  · have h2 : Prov.query p vals = .error Err.valueError := by
      unfold Prov.query
      have : (vals.length != p.nUnits) = true := by
        simp only [bne_iff_ne, ne_eq]
        intro h; apply hlen; simp [Np.len1, h]
      simp [this]; rfl
    simp only [hlen, not_false_eq_true, if_true, h2, bind, Except.bind, Except.map, Except.mapError]
    rfl

/-- **C05 for the translated source (mask).** -/
theorem TIEQ_C05 (p : P) (vals : List Int) (hp : WellPadded p) (hlen : vals.length = p.nUnits) (hpos : ∀ v ∈ vals, 0 ≤ v) :
    GenQ.query_mask (toA4 p) (p.nUnits : Int) vals = .ok (p.data.map (rowSem (vals.map Int.toNat))) := by
  rw [TIEQ_mask p (shaped_of_wellPadded p hp) vals, DsProofs.C05.C05_main p vals hp hlen hpos]
  rfl

/-- **C05 for the translated source (indices)**: the positions of the rows whose formula is true. -/
theorem TIEQ_C05_idx (p : P) (vals : List Int) (hp : WellPadded p) (hlen : vals.length = p.nUnits) (hpos : ∀ v ∈ vals, 0 ≤ v) :
    GenQ.query_idx (toA4 p) (p.nUnits : Int) vals
      = .ok (((List.range p.data.length).filter (fun i => (p.data.map (rowSem (vals.map Int.toNat))).getD i false)).map (fun (i : ℕ) => (i : Int))) := by
  rw [TIEQ_idx p (shaped_of_wellPadded p hp) vals]
  unfold Prov.queryIdx
  rw [DsProofs.C05.C05_main p vals hp hlen hpos]
  simp [bind, Except.bind, pure, Except.pure, Except.map, Except.mapError]

/-! ### non-vacuity: two rows `x0 == 1`, `(x1 == 1) | (x0 == 0 & x2 == 1)` stored with padding; a wrong-length and an out-of-range assignment -/
def exData : Np.A4 Int := ⟨2, 2, 2, [[[[0, 1], [-1, -1]], [[-1, -1], [-1, -1]]], [[[1, 1], [-1, -1]], [[0, 0], [2, 1]]]]⟩
example : GenQ.query_mask exData 3 [1, 0, 1] = .ok [true, false] := by decide +kernel
example : GenQ.query_mask exData 3 [0, 0, 1] = .ok [false, true] := by decide +kernel
example : GenQ.query_idx exData 3 [0, 1, 0] = .ok [1] := by decide +kernel
example : GenQ.query_mask exData 3 [0, 1] = .error "ValueError" := by decide +kernel
example : GenQ.query_mask ⟨1, 1, 1, [[[[7, 1]]]]⟩ 3 [0, 1, 0] = .error "IndexError" := by decide +kernel

end DsProofs.TieQ
