import TieB.BruteProofs
import DsProofs.Properties.C03
import DsProofs.Properties.C06Brute
/-!
# TIEB — theorems about the control skeleton of `_shapley_bruteforce` AS IT IS WRITTEN NOW

`GenB/Brute.lean` is regenerated from `/repo/datascope/importance/shapley.py` on every run by `harness/translate_skel.py`.  Library calls that
cannot be translated are parameters: `provenance_query` (what `provenance.query(iter)` returns), `try_body_1` (everything inside the `try`:
row selection, pipeline, model fit, utility — a value, an exception class, or a warning class followed by the value it would have produced)
and `null_score`.  Translated: the enumeration `product(*[[0, world[i]] …])` and its order, the reset `score = null_score` and its
position, the classes named in the `except` clause and the categories escalated by `simplefilter("error", …)`, `factor_0` / `factor_1`, and
the accumulation `importance += score * ((1 - iter) * factor_0 + iter * factor_1)`.

* `TIEB_brute_model`: the translated skeleton returns exactly what the hand-written model `Ds.Brute.scores` returns (an uncaught exception on
  one side is one on the other), for every number of units and every opaque behaviour.
* `TIEB_C03`: hence, when no coalition's evaluation raises a class outside the `except` clause, the translated code returns the textbook
  Shapley value `Sh.phiM` of the game "score of the coalition, or the null score where the evaluation failed with a caught class".
* `TIEB_C03_uncaught`: any other exception class propagates.
* `TIEB_C06`: the scores sum to `v(all) − v(∅)`.
-/
open Ds Ds.GenBrute BruteP

namespace DsProofs.TieB

theorem TIEB_brute_model {ρ : Type} (n : ℕ) (query : List Int → ρ) (body : ρ → ℚ → Np.Out ℚ) (null : ℚ) :
    (GenB.shapley_bruteforce null query body ((List.range n).map (fun k : ℕ => (k : Int))) (List.replicate n (1 : Int))).toOption
      = Brute.scores n (fun a => classify (body (query (a.map (fun k : ℕ => (k : Int)))) null)) null :=
  brute_eq_model n query body null

theorem toOption_some {ε β : Type} {x : Except ε β} {b : β} (h : x.toOption = some b) : x = .ok b := by
  cases x with
  | error e => simp [Except.toOption] at h
  | ok v => simp [Except.toOption] at h; rw [h]

theorem toOption_none {ε β : Type} {x : Except ε β} (h : x.toOption = none) : ∃ e, x = .error e := by
  cases x with
  | error e => exact ⟨e, rfl⟩
  | ok v => simp [Except.toOption] at h

/-- **C03 for the translated source.**  `G S` = what evaluating the utility on exactly the rows present under coalition `S` does. -/
theorem TIEB_C03 {ρ : Type} (n : ℕ) (query : List Int → ρ) (body : ρ → ℚ → Np.Out ℚ) (null : ℚ)
    (G : Finset (Fin n) → Np.Out ℚ)
    (hG : ∀ a : List ℕ, body (query (a.map (fun k : ℕ => (k : Int)))) null = G (toSet n a))
    (hcaught : ∀ S, classify (G S) ≠ .other) :
    ∃ L : List ℚ,
      GenB.shapley_bruteforce null query body ((List.range n).map (fun k : ℕ => (k : Int))) (List.replicate n (1 : Int)) = .ok L
      ∧ L.length = n ∧ ∀ i : Fin n, L.getD i.val 0 = Sh.phiM (fun S => valOf null (classify (G S))) i := by
  obtain ⟨L, hL, hlen, hphi⟩ := C03_main n (fun S => classify (G S)) null (fun a _ => hcaught _)
  refine ⟨L, toOption_some ?_, hlen, fun i => (hphi i).1⟩
  rw [TIEB_brute_model, ← hL]
  congr 1
  funext a
  rw [hG a]

/-- **C03 (uncaught classes) for the translated source.** -/
theorem TIEB_C03_uncaught {ρ : Type} (n : ℕ) (query : List Int → ρ) (body : ρ → ℚ → Np.Out ℚ) (null : ℚ)
    (h : ∃ a ∈ allAssign n, classify (body (query (a.map (fun k : ℕ => (k : Int)))) null) = .other) :
    ∃ e, GenB.shapley_bruteforce null query body ((List.range n).map (fun k : ℕ => (k : Int))) (List.replicate n (1 : Int)) = .error e := by
  apply toOption_none
  rw [TIEB_brute_model]
  exact C03_uncaught n _ null h

/-- **C06 (bruteforce) for the translated source.** -/
theorem TIEB_C06 {ρ : Type} (n : ℕ) (hn : 0 < n) (query : List Int → ρ) (body : ρ → ℚ → Np.Out ℚ) (null : ℚ)
    (G : Finset (Fin n) → Np.Out ℚ)
    (hG : ∀ a : List ℕ, body (query (a.map (fun k : ℕ => (k : Int)))) null = G (toSet n a))
    (hcaught : ∀ S, classify (G S) ≠ .other) :
    ∃ L : List ℚ,
      GenB.shapley_bruteforce null query body ((List.range n).map (fun k : ℕ => (k : Int))) (List.replicate n (1 : Int)) = .ok L
      ∧ L.sum = valOf null (classify (G Finset.univ)) - valOf null (classify (G ∅)) := by
  obtain ⟨L, hL, _, hsum⟩ := C06_brute n hn (fun S => classify (G S)) null (fun a _ => hcaught _)
  refine ⟨L, toOption_some ?_, hsum⟩
  rw [TIEB_brute_model, ← hL]
  congr 1
  funext a
  rw [hG a]

/-! ### non-vacuity -/

/-- a 2-unit utility: the coalition's score is the number of present units; the full coalition emits a `UserWarning` (escalated, caught) -/
def exG (S : Finset (Fin 2)) : Np.Out ℚ := if S = Finset.univ then .warn "UserWarning" 2 else .val S.card

example : ∀ S, classify (exG S) ≠ .other := by decide

/-- the same utility on assignment vectors, run through the translated skeleton: v(∅)=0, v({0})=v({1})=1, v({0,1})=null=0 -/
example : GenB.shapley_bruteforce (0 : ℚ) (fun a => a)
    (fun a _ => if a = [1, 1] then .warn "UserWarning" 2 else .val ((Np.sumI a : Int) : ℚ)) [0, 1] [1, 1] = .ok [0, 0] := by
  decide +kernel

example : (GenB.shapley_bruteforce (0 : ℚ) (fun a => a) (fun a _ => if a = [1, 0] then .exc "TypeError" else .val 1) [0, 1] [1, 1]).toOption = none := by
  decide +kernel

end DsProofs.TieB
