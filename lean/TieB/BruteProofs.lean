import GenB.Brute
import Ds.Brute
import Tie.NpProofs
import DsProofs.KernelProofs
/-!
# The translated skeleton of `_shapley_bruteforce` (`GenB/Brute.lean`, regenerated from /repo) equals the model `Ds.Brute.scores`
Helper lemmas; the property-level statements are in `TieB/Properties.lean`.
-/
open Ds Ds.Kernel

namespace Ds.GenBrute

/-- the model's exception classes by Python name -/
def ofName (c : String) : Outcome :=
  if c = "ValueError" then .valueError
  else if c = "RuntimeWarning" then .runtimeWarning
  else if c = "UserWarning" then .userWarning
  else .other

/-- what the scoring loop sees of an opaque evaluation: a warning of an escalated category is the exception of that name, any other
warning is ignored -/
def classify (o : Np.Out ℚ) : Outcome :=
  match o with
  | .val x => .ok x
  | .exc c => ofName c
  | .warn c x => if ["RuntimeWarning", "UserWarning"].contains c then ofName c else .ok x

theorem tryExcept_caught (o : Np.Out ℚ) (null : ℚ) :
    (Np.tryExcept ["ValueError", "RuntimeWarning", "UserWarning"] ["RuntimeWarning", "UserWarning"] o null).toOption
      = (classify o).caught null := by
  cases o with
  | val x => rfl
  | exc c =>
    simp only [Np.tryExcept, classify, ofName]
    by_cases h1 : c = "ValueError"
    · subst h1; rfl
    · by_cases h2 : c = "RuntimeWarning"
      · subst h2; rfl
      · by_cases h3 : c = "UserWarning"
        · subst h3; rfl
        · simp [h1, h2, h3, Outcome.caught, Except.toOption]
  | warn c x =>
    simp only [Np.tryExcept, classify, ofName]
    by_cases h2 : c = "RuntimeWarning"
    · subst h2; rfl
    · by_cases h3 : c = "UserWarning"
      · subst h3; rfl
      · simp [h2, h3, Outcome.caught, Except.toOption]

theorem choose_eq : ∀ n k, Np.choose n k = Ds.choose n k
  | _, 0 => by simp [Np.choose, Ds.choose]
  | 0, _ + 1 => by simp [Np.choose, Ds.choose]
  | n + 1, k + 1 => by simp [Np.choose, Ds.choose, choose_eq n k, choose_eq n (k + 1)]

theorem product_replicate (n : ℕ) :
    Np.product (List.replicate n [(0 : Int), 1]) = (allAssign n).map (fun a => a.map (fun k : ℕ => (k : Int))) := by
  induction n with
  | zero => simp [Np.product, allAssign]
  | succ n ih =>
    simp only [List.replicate_succ, Np.product, ih, allAssign]
    simp [List.flatMap_cons, List.map_append, Function.comp_def]

theorem allAssign_length {n : ℕ} {a : List ℕ} (h : a ∈ allAssign n) : a.length = n := by
  induction n generalizing a with
  | zero => simp [allAssign] at h; subst h; rfl
  | succ n ih =>
    simp only [allAssign, List.mem_flatMap, List.mem_map] at h
    obtain ⟨c, _, b, hb, rfl⟩ := h
    simp [ih hb]

theorem sumI_cast (a : List ℕ) : Np.sumI (a.map (fun k : ℕ => (k : Int))) = ((a.sum : ℕ) : Int) := by
  unfold Np.sumI
  have : ∀ (init : Int), List.foldl (· + ·) init (a.map (fun k : ℕ => (k : Int))) = init + ((a.sum : ℕ) : Int) := by
    induction a with
    | nil => intro init; simp
    | cons x xs ih => intro init; simp only [List.map_cons, List.foldl_cons, List.sum_cons]; rw [ih]; push_cast; ring
  rw [this]; simp

/-- folding a step that may fail: the `Except` version and the `Option` version agree when every step does, along an invariant -/
theorem foldlM_toOption_congr {S A : Type} (l : List A) (f : S → A → Except String S) (g : S → A → Option S) (P : S → Prop)
    (init : S) (h0 : P init)
    (hstep : ∀ s a, a ∈ l → P s → (f s a).toOption = g s a ∧ ∀ s', g s a = some s' → P s') :
    (l.foldlM f init).toOption = l.foldlM g init := by
  induction l generalizing init with
  | nil => rfl
  | cons a l ih =>
    obtain ⟨h1, h2⟩ := hstep init a List.mem_cons_self h0
    simp only [List.foldlM_cons]
    cases hf : f init a with
    | error e =>
      rw [hf] at h1
      have : g init a = none := by rw [← h1]; rfl
      rw [this]; rfl
    | ok s' =>
      rw [hf] at h1
      have hg : g init a = some s' := by rw [← h1]; rfl
      rw [hg]
      simp only [bind, Except.bind, Option.bind]
      exact ih s' (h2 s' hg) (fun s a ha hp => hstep s a (List.mem_cons_of_mem _ ha) hp)


theorem ofInt_eq_cast (z : Int) : (Np.ofInt z : ℚ) = (z : ℚ) := by
  unfold Np.ofInt
  split_ifs with h
  · have : ((z.toNat : ℕ) : Int) = z := Int.toNat_of_nonneg h
    have h2 : ((z.toNat : ℕ) : ℚ) = ((z.toNat : Int) : ℚ) := by push_cast; rfl
    rw [h2, this]
  · have hn : 0 ≤ -z := by omega
    have : (((-z).toNat : ℕ) : Int) = -z := Int.toNat_of_nonneg hn
    have h2 : (((-z).toNat : ℕ) : ℚ) = (((-z).toNat : Int) : ℚ) := by push_cast; rfl
    rw [h2, this]; push_cast; ring

theorem comb_cast (N K : ℕ) : (Np.comb (N : Int) (K : Int) : ℚ) = ((Ds.choose N K : ℕ) : ℚ) := by
  unfold Np.comb
  rw [if_neg (by omega)]
  simp [choose_eq]

theorem getD_zipWith {A B C : Type} (f : A → B → C) (l1 : List A) (l2 : List B) (i : ℕ) (a : A) (b : B) (c : C)
    (h1 : i < l1.length) (h2 : i < l2.length) : (List.zipWith f l1 l2).getD i c = f (l1.getD i a) (l2.getD i b) := by
  simp [List.getD_eq_getElem?_getD, List.getElem?_zipWith, List.getElem?_eq_getElem h1, List.getElem?_eq_getElem h2]

theorem getD_map' {A B : Type} (f : A → B) (l : List A) (i : ℕ) (a : A) (b : B) (h : i < l.length) :
    (l.map f).getD i b = f (l.getD i a) := by
  simp [List.getD_eq_getElem?_getD, List.getElem?_eq_getElem h]

/-- **The translated skeleton of `_shapley_bruteforce` is the model `Brute.scores`** (units `0…n-1`, world of ones). -/
theorem brute_eq_model {ρ : Type} (n : ℕ) (query : List Int → ρ) (body : ρ → ℚ → Np.Out ℚ) (null : ℚ) :
    (GenB.shapley_bruteforce null query body ((List.range n).map (fun k : ℕ => (k : Int))) (List.replicate n (1 : Int))).toOption
      = Brute.scores n (fun a => classify (body (query (a.map (fun k : ℕ => (k : Int)))) null)) null := by
  unfold GenB.shapley_bruteforce Brute.scores
  simp only [Np.len1, List.length_map, List.length_range, bind_pure_comp, bind_pure]
  have hprod : (List.map (fun i => [(0 : Int), Np.get1 (List.replicate n (1 : Int)) i]) (Np.range 0 (n : Int) 1))
      = List.replicate n [(0 : Int), 1] := by
    rw [Np.range_up, List.map_map]
    apply List.ext_getElem
    · simp
    · intro i h1 h2
      simp only [List.length_map, List.length_range] at h1
      simp [Np.get1_natCast, List.getD_eq_getElem?_getD, h1]
  rw [hprod, product_replicate, List.foldlM_map, Np.zeros1_natCast]
  apply foldlM_toOption_congr _ _ _ (fun s => s.length = n) _ (by simp)
  intro s a ha hs
  have hlen := allAssign_length ha
  have htry := tryExcept_caught (body (query (a.map (fun k : ℕ => (k : Int)))) null) null
  cases hr : Np.tryExcept ["ValueError", "RuntimeWarning", "UserWarning"] ["RuntimeWarning", "UserWarning"]
      (body (query (a.map (fun k : ℕ => (k : Int)))) null) null with
  | error e =>
    rw [hr] at htry
    have hc : Outcome.caught null (classify (body (query (a.map (fun k : ℕ => (k : Int)))) null)) = none := by
      rw [← htry]; rfl
    simp only [hc]
    exact ⟨rfl, fun s' h => by simp at h⟩
  | ok sc =>
    rw [hr] at htry
    have hc : Outcome.caught null (classify (body (query (a.map (fun k : ℕ => (k : Int)))) null)) = some sc := by
      rw [← htry]; rfl
    simp only [hc]
    refine ⟨?_, fun s' h => by simp at h; rw [← h]; simp⟩
    show some _ = some _
    congr 1
    apply ext_getD (n := n)
    · simp [hs, hlen]
    · simp
    · intro i hi
      have hn1 : ((n : Int) - 1) = ((n - 1 : ℕ) : Int) := by omega
      have hR : ∀ (F : ℕ → ℚ), (List.map F (List.range n)).getD i 0 = F i := by
        intro F; simp [List.getD_eq_getElem?_getD, hi]
      rw [hR]
      have hla : i < (a.map (fun k : ℕ => (k : Int))).length := by simp [hlen, hi]
      rw [getD_zipWith _ _ _ i 0 0 0 (by omega) (by simp [hlen, hi]),
        getD_map' _ _ i 0 0 (by simp [hlen, hi]),
        getD_zipWith _ _ _ i 0 0 0 (by simp [hlen, hi]) (by simp [hlen, hi]),
        getD_map' _ _ i 0 0 (by simp [hlen, hi]), getD_map' _ _ i 0 0 hla,
        getD_map' _ _ i 0 0 hla, getD_map' _ _ i 0 0 (by rw [hlen]; exact hi)]
      rw [sumI_cast, hn1]
      have himin : Np.imin ((a.sum : ℕ) : Int) ((n - 1 : ℕ) : Int) = ((min a.sum (n - 1) : ℕ) : Int) := by
        unfold Np.imin; split_ifs <;> omega
      have himax : Np.imax (((a.sum : ℕ) : Int) - 1) 0 = ((max (a.sum - 1) 0 : ℕ) : Int) := by
        unfold Np.imax; split_ifs <;> omega
      rw [himin, himax, comb_cast, comb_cast, ofInt_eq_cast, ofInt_eq_cast, ofInt_eq_cast, ofInt_eq_cast]
      unfold Brute.weight Brute.f0 Brute.f1
      simp only [List.getD_eq_getElem?_getD]
      push_cast
      ring

end Ds.GenBrute
