import GenS.Front
import Ds.Front
import Mathlib.Data.List.Basic
/-!
# TIES — the front end AS IT IS WRITTEN NOW (`GenS/Front.lean`, regenerated from /repo by `harness/translate_front.py`) is the model `Ds.Front`

* `TIES_route`: for each of the three methods the source runs the model's algorithm and every parameter of that algorithm receives what the model says
  (`Ds.Front.argOf`): training data from `fit`, validation data from `score`, the resolved provenance / units / world, and each knob from the constructor
  argument of the same purpose (`iterations ← mc_iterations`, `truncation_steps ← mc_truncation_steps`, `k ← nn_k`, …).  A forwarding slip — a knob dropped, two
  arguments swapped, `metadata_test=metadata_train` — changes the generated table and this theorem no longer checks.
* `TIES_methods`: no other method is routed.
* `TIES_provenance`: `fit` settles on the model's provenance (`Ds.Front.provenanceOf`).
* `TIES_units`, `TIES_world`: `_score` resolves `units=` / `world=` as the model does.
* consequences stated for the source: `TIES_units_default` (all units, in position order, when `units=` is left out: the score vector is indexed by unit position),
  `TIES_units_keys` (keys go through `units_index`, one position per key, in the caller's order), `TIES_world_default` (candidate 1 everywhere),
  `TIES_provenance_default` (no provenance anywhere ⇒ one unit per row), `TIES_provenance_arg_wins`.
-/
namespace DsProofs.TieS
open Ds Ds.Front

def argOfSrc : GenS.Src → Arg
  | .ctor p => .ctor p | .fit p => .fit p | .score p => .score p | .provenance => .provenance | .units => .units | .world => .world

def pvOf : GenS.ProvVal → ProvVal
  | .array => .array | .object => .object
def puOf : GenS.ProvUsed → ProvUsed
  | .ofArray => .ofArray | .default => .default | .asGiven => .asGiven
def selOf {κ : Type} : Sel κ → GenS.Sel κ
  | .none => .none | .array a => .array a | .keys ks => .keys ks
def errOf : Except Err (List Int) → Except String (List Int)
  | .ok v => .ok v | .error e => .error e.name

/-- the generated table, read as "parameter `p` of the algorithm run for method name `m`" -/
def genArg (m p : String) : Option (String × Option Arg) :=
  (GenS.route.find? (fun r => r.1 == m)).map (fun r => (r.2.1, ((r.2.2.find? (fun kv => kv.1 == p)).map (fun kv => argOfSrc kv.2))))

/-- the parameters of the three algorithms (their signatures, minus `self`) -/
def params : List String :=
  ["X_train", "y_train", "X_test", "y_test", "provenance", "units", "world", "metadata_train", "metadata_test", "iterations", "timeout", "tolerance", "truncation_steps", "k",
   "distance"]

theorem TIES_route (m : Method) (p : String) (hp : p ∈ params) : genArg m.name p = some (algorithm m, argOf m p) := by
  simp only [params, List.mem_cons, List.not_mem_nil, or_false] at hp
  rcases hp with h | h | h | h | h | h | h | h | h | h | h | h | h | h | h <;> subst h <;> cases m <;> decide

/-- the routing table has exactly the three methods, and for each exactly the model's parameters (as a permutation) -/
theorem TIES_methods : GenS.route.map (fun r => r.1) = [Method.bruteforce.name, Method.montecarlo.name, Method.neighbor.name]
    ∧ ∀ m : Method, ((GenS.route.find? (fun r => r.1 == m.name)).map (fun r => (r.2.2.map (fun kv => kv.1)).isPerm ((common ++ knobs m).map (fun kv => kv.1))))
        = some true := by
  refine ⟨by decide, fun m => ?_⟩
  cases m <;> decide

theorem TIES_provenance (attached arg : Option GenS.ProvVal) :
    puOf (GenS.fit_provenance attached arg) = provenanceOf (attached.map pvOf) (arg.map pvOf) := by
  rcases attached with _ | a <;> rcases arg with _ | b <;> (try cases a) <;> (try cases b) <;> rfl

theorem mapM_keys {κ : Type} (index : κ → Option Int) (ks : List κ) :
    errOf (ks.mapM (fun x => match index x with | some i => pure i | none => throw Err.keyError))
      = ks.mapM (fun x => match index x with | some i => (pure i : Except String Int) | none => throw "KeyError") := by
  induction ks with
  | nil => rfl
  | cons k ks ih =>
    simp only [List.mapM_cons]
    cases hk : index k with
    | none => rfl
    | some i =>
      simp only [bind, Except.bind, pure, Except.pure] at ih ⊢
      revert ih
      cases (ks.mapM (fun x => match index x with | some i => (Except.ok i : Except Err Int) | none => throw Err.keyError)) <;>
        cases (ks.mapM (fun x => match index x with | some i => (Except.ok i : Except String Int) | none => throw "KeyError")) <;>
        simp [errOf]

theorem range_cast (n : Nat) : Np.range (0 : Int) (n : Int) (1 : Int) = (List.range n).map (fun (i : Nat) => (i : Int)) := by
  unfold Np.range
  simp

theorem TIES_units {κ : Type} (n : Nat) (index : κ → Option Int) (s : Sel κ) :
    GenS.resolve_units (n : Int) index (selOf s) = errOf (unitsOf n index s) := by
  cases s with
  | none => simp only [selOf, GenS.resolve_units, unitsOf, errOf, pure, Except.pure, range_cast]
  | array a => rfl
  | keys ks => simp only [selOf, GenS.resolve_units, unitsOf]; exact (mapM_keys index ks).symm

theorem TIES_world {κ : Type} (units : List Int) (index : κ → Option Int) (s : Sel κ) :
    GenS.resolve_world units index (selOf s) = errOf (worldOf units index s) := by
  cases s with
  | none =>
    simp only [selOf, GenS.resolve_world, worldOf, errOf, pure, Except.pure]
    congr 1
    induction units with
    | nil => rfl
    | cons u us ih => simp [List.replicate_succ, ih]
  | array a => rfl
  | keys ks => simp only [selOf, GenS.resolve_world, worldOf]; exact (mapM_keys index ks).symm

/-! ### consequences, for the source as written -/

/-- `score()` without `units=`: every unit is scored and entry `i` of the result belongs to the unit at position `i` -/
theorem TIES_units_default {κ : Type} (n : Nat) (index : κ → Option Int) :
    GenS.resolve_units (n : Int) index (.none : GenS.Sel κ) = .ok ((List.range n).map (fun (i : Nat) => (i : Int))) :=
  TIES_units n index .none

/-- `units=[k₁, …]` by key: when every key is registered the positions are those of the keys, one per key, in the caller's order -/
theorem TIES_units_keys {κ : Type} (n : Nat) (index : κ → Option Int) (ks : List κ) (pos : κ → Int) (h : ∀ k ∈ ks, index k = some (pos k)) :
    GenS.resolve_units (n : Int) index (.keys ks) = .ok (ks.map pos) := by
  simp only [GenS.resolve_units]
  induction ks with
  | nil => rfl
  | cons k ks ih =>
    have hk := h k (List.mem_cons_self ..)
    have := ih (fun k' hk' => h k' (List.mem_cons_of_mem _ hk'))
    simp only [List.mapM_cons, hk, List.map_cons]
    simp only [bind, Except.bind, pure, Except.pure] at this ⊢
    rw [this]

/-- an unknown key is an error, never a silently dropped or substituted unit -/
theorem TIES_units_unknown {κ : Type} (n : Nat) (index : κ → Option Int) (k : κ) (ks : List κ) (h : index k = none) :
    GenS.resolve_units (n : Int) index (.keys (k :: ks)) = .error "KeyError" := by
  simp only [GenS.resolve_units, List.mapM_cons, h]
  rfl

theorem TIES_world_default {κ : Type} (units : List Int) (index : κ → Option Int) :
    GenS.resolve_world units index (.none : GenS.Sel κ) = .ok (List.replicate units.length 1) :=
  TIES_world units index .none

/-- nothing attached and nothing passed: one unit per training row -/
theorem TIES_provenance_default : GenS.fit_provenance none none = .default := rfl
/-- the `provenance=` argument wins over a provenance attached to `X` -/
theorem TIES_provenance_arg_wins (attached : Option GenS.ProvVal) (v : GenS.ProvVal) :
    GenS.fit_provenance attached (some v) = (match v with | .array => .ofArray | .object => .asGiven) := by
  cases attached <;> cases v <;> rfl

/-- the Monte-Carlo knobs reach the walk unchanged; `k` and the distance reach the neighbor method -/
theorem TIES_knobs :
    genArg "montecarlo" "truncation_steps" = some ("_shapley_montecarlo", some (.ctor "mc_truncation_steps"))
    ∧ genArg "montecarlo" "iterations" = some ("_shapley_montecarlo", some (.ctor "mc_iterations"))
    ∧ genArg "montecarlo" "timeout" = some ("_shapley_montecarlo", some (.ctor "mc_timeout"))
    ∧ genArg "montecarlo" "tolerance" = some ("_shapley_montecarlo", some (.ctor "mc_tolerance"))
    ∧ genArg "neighbor" "k" = some ("_shapley_neighbor", some (.ctor "nn_k"))
    ∧ genArg "neighbor" "distance" = some ("_shapley_neighbor", some (.ctor "nn_distance")) := by
  refine ⟨?_, ?_, ?_, ?_, ?_, ?_⟩ <;> decide

/-! ### non-vacuity -/
example : GenS.resolve_units (3 : Int) (fun (k : String) => if k = "a" then some 2 else if k = "b" then some 0 else none) (.keys ["a", "b"]) = .ok [2, 0] := by decide
example : GenS.resolve_units (3 : Int) (fun (k : String) => if k = "a" then some 2 else none) (.keys ["a", "zz"]) = .error "KeyError" := by decide
example : GenS.resolve_world [4, 1] (fun (_ : String) => none) .none = .ok [1, 1] := by decide

end DsProofs.TieS
