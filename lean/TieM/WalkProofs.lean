import GenM.Walk
import Ds.Brute
import TieB.BruteProofs
import Tie.NpProofs
/-!
# The translated Monte-Carlo walk (`GenM/Walk.lean`, regenerated from /repo) simulates the model's walk (`Ds.MC.step`, `Ds.MC.column`)
Helper lemmas; property-level statements in `TieM/Properties.lean`.
-/
open Ds Ds.MC Ds.GenBrute

namespace Ds.GenWalk

abbrev GS := (List Int × ℚ × List ℚ × Int × List Int)

/-- the body of the translated inner loop, spelled out (must be definitionally the generated text) -/
def stepG {ρ : Type} (queryF : List Int → ρ) (body : ρ → ℚ → Np.Out ℚ) (null mean tol : ℚ) (T : Int) (units world : List Int) (i : Int)
    (st_ : GS) (jx_ : Int × Int) : Except String (GS × Bool) := do
      let j : Int := jx_.1
      let idx : Int := jx_.2
      let query : (List Int) := st_.1
      let new_score : ℚ := st_.2.1
      let importance : (List ℚ) := st_.2.2.1
      let truncation_counter : Int := st_.2.2.2.1
      let all_truncations : (List Int) := st_.2.2.2.2
      let old_score : ℚ := new_score
      let ite_ : (List Int) := if (decide (idx ≥ (0 : Int))) then (let query : (List Int) := Np.set1 query (Np.get1 units idx) (Np.get1 world idx); query) else (query)
      let query : (List Int) := ite_
      let indices : ρ := (queryF query)
      let new_score : ℚ := null
      let new_score : ℚ ← Np.tryExcept ["ValueError", "RuntimeWarning", "UserWarning"] ["RuntimeWarning", "UserWarning"] (body indices null) new_score
      if (decide (idx < (0 : Int))) then
        pure ((query, new_score, importance, truncation_counter, all_truncations), false)
      else
        let importance : (List ℚ) := Np.set1 importance idx (new_score - old_score)
        if (decide ((Np.absS (new_score - mean)) ≤ (Np.absS (tol * mean)))) then
          let truncation_counter : Int := (truncation_counter + (1 : Int))
          if ((decide (T > (0 : Int))) && (decide (truncation_counter > T))) then
            let all_truncations : (List Int) := Np.set1 all_truncations i (j + (1 : Int))
            pure ((query, new_score, importance, truncation_counter, all_truncations), true)
          else
            pure ((query, new_score, importance, truncation_counter, all_truncations), false)
        else
          let truncation_counter : Int := (0 : Int)
          pure ((query, new_score, importance, truncation_counter, all_truncations), false)

theorem mc_walk_unfold {ρ : Type} (queryF : List Int → ρ) (body : ρ → ℚ → Np.Out ℚ) (null mean tol : ℚ) (T nU nT : Int)
    (units world idxs at0 : List Int) (i : Int) :
    GenM.mc_walk queryF body null mean tol T nU nT units world idxs at0 i
      = (Np.forBreakM (Np.enumerateFrom (-(1 : Int)) (Np.append1 [(-(1 : Int))] idxs))
          ((Np.rep (0 : Int) nT, null, (Np.zeros1 nU : List ℚ), (0 : Int), at0) : GS)
          (stepG queryF body null mean tol T units world i)).map
          (fun st_ => (st_.2.2.1, st_.1, st_.2.1, st_.2.2.2.1, st_.2.2.2.2)) := by
  unfold GenM.mc_walk
  simp only [bind_pure_comp]
  rfl

/-- the model's coalition evaluation seen through the opaque pieces -/
def vOf {ρ : Type} (queryF : List Int → ρ) (body : ρ → ℚ → Np.Out ℚ) (null : ℚ) (q : List Int) : Outcome :=
  classify (body (queryF q) null)

/-- translated state (with the break flag) ~ the model's `Walk` -/
def Rel (g : GS × Bool) (w : Walk) : Prop :=
  g.1.1 = w.query ∧ g.1.2.1 = w.score ∧ g.1.2.2.1 = w.imp ∧ g.1.2.2.2.1 = (w.counter : Int) ∧ g.2 = w.cut

/-- outcome of a step on both sides: both fail, or both succeed in related states -/
def Sim (x : Except String (GS × Bool)) (y : Option Walk) : Prop :=
  match x, y with
  | .ok g, some w => Rel g w
  | .error _, none => True
  | _, _ => False

theorem absS_eq (x : ℚ) : Np.absS x = absR x := by
  unfold Np.absS absR
  simp

theorem get1_units (n idx : ℕ) (h : idx < n) : Np.get1 ((List.range n).map (fun k : ℕ => (k : Int))) (idx : Int) = (idx : Int) := by
  rw [Np.get1_natCast]
  simp [List.getD_eq_getElem?_getD, h]

theorem get1_world (n idx : ℕ) (h : idx < n) : Np.get1 (List.replicate n (1 : Int)) (idx : Int) = 1 := by
  rw [Np.get1_natCast]
  simp [List.getD_eq_getElem?_getD, h]

theorem step_sim {ρ : Type} (n : ℕ) (queryF : List Int → ρ) (body : ρ → ℚ → Np.Out ℚ) (null mean tol : ℚ) (T : ℕ) (i : Int)
    (g : GS × Bool) (w : Walk) (h : Rel g w) (j : Int) (idx : ℕ) (hidx : idx < n) :
    Sim ((fun (sb : GS × Bool) x => if sb.2 then pure sb else
            stepG queryF body null mean tol (T : Int) ((List.range n).map (fun k : ℕ => (k : Int))) (List.replicate n (1 : Int)) i sb.1 x)
          g (j, (idx : Int)))
        (step (vOf queryF body null) null mean { timeout := 0, tolerance := tol, truncSteps := T } w idx) := by
  obtain ⟨hq, hs, hi, hc, hcut⟩ := h
  simp only []
  unfold step
  by_cases hb : g.2 = true
  · have hw : w.cut = true := by rw [← hcut]; exact hb
    rw [if_pos hb, if_pos hw]
    exact ⟨hq, hs, hi, hc, hcut⟩
  · have hw : ¬ (w.cut = true) := by rw [← hcut]; exact hb
    rw [if_neg hb, if_neg hw]
    unfold stepG
    have hge : (decide ((idx : Int) ≥ 0)) = true := by simp
    have hlt : (decide ((idx : Int) < 0)) = false := by simp
    simp only [hge, hlt, if_true, Bool.false_eq_true, if_false, get1_units n idx hidx, get1_world n idx hidx, Np.set1_natCast]
    rw [hq]
    have htry := tryExcept_caught (body (queryF (w.query.set idx 1)) null) null
    unfold vOf
    cases hr : Np.tryExcept ["ValueError", "RuntimeWarning", "UserWarning"] ["RuntimeWarning", "UserWarning"]
        (body (queryF (w.query.set idx 1)) null) null with
    | error e =>
      rw [hr] at htry
      have : Outcome.caught null (classify (body (queryF (w.query.set idx 1)) null)) = none := by rw [← htry]; rfl
      simp only [this, bind, Except.bind]
      trivial
    | ok sc =>
      rw [hr] at htry
      have : Outcome.caught null (classify (body (queryF (w.query.set idx 1)) null)) = some sc := by rw [← htry]; rfl
      simp only [this, bind, Except.bind, absS_eq]
      by_cases hband : absR (sc - mean) ≤ absR (tol * mean)
      · simp only [hband, decide_true, if_true]
        by_cases htr : ((decide ((T : Int) > 0)) && (decide (g.1.2.2.2.1 + 1 > (T : Int)))) = true
        · rw [if_pos htr]
          refine ⟨rfl, rfl, ?_, ?_, ?_⟩
          · simp only [hi, hs]
          · show g.1.2.2.2.1 + 1 = ((w.counter + 1 : ℕ) : Int)
            rw [hc]; push_cast; ring
          · show true = (decide (T > 0) && decide (w.counter + 1 > T))
            rw [hc] at htr
            simp only [Bool.and_eq_true, decide_eq_true_eq] at htr
            symm
            simp only [Bool.and_eq_true, decide_eq_true_eq]
            omega
        · rw [if_neg htr]
          refine ⟨rfl, rfl, ?_, ?_, ?_⟩
          · simp only [hi, hs]
          · show g.1.2.2.2.1 + 1 = ((w.counter + 1 : ℕ) : Int)
            rw [hc]; push_cast; ring
          · show false = (decide (T > 0) && decide (w.counter + 1 > T))
            rw [hc] at htr
            simp only [Bool.and_eq_true, decide_eq_true_eq, not_and] at htr
            symm
            rw [Bool.and_eq_false_iff]
            by_cases hT : T > 0
            · right
              simp only [decide_eq_false_iff_not]
              have := htr (by omega)
              omega
            · left; simp [hT]
      · simp only [hband, decide_false, Bool.false_eq_true, if_false]
        refine ⟨rfl, rfl, ?_, rfl, rfl⟩
        simp only [hi, hs]

/-- the loop function of `Np.forBreakM` around the translated body -/
def loopF {ρ : Type} (n : ℕ) (queryF : List Int → ρ) (body : ρ → ℚ → Np.Out ℚ) (null mean tol : ℚ) (T : ℕ) (i : Int)
    (sb : GS × Bool) (x : Int × Int) : Except String (GS × Bool) :=
  if sb.2 then pure sb else
    stepG queryF body null mean tol (T : Int) ((List.range n).map (fun k : ℕ => (k : Int))) (List.replicate n (1 : Int)) i sb.1 x

theorem fold_sim {ρ : Type} (n : ℕ) (queryF : List Int → ρ) (body : ρ → ℚ → Np.Out ℚ) (null mean tol : ℚ) (T : ℕ) (i : Int)
    (perm : List ℕ) (hperm : ∀ k ∈ perm, k < n) (start : Int) (g : GS × Bool) (w : Walk) (h : Rel g w) :
    Sim ((Np.enumerateFrom start (perm.map (fun k : ℕ => (k : Int)))).foldlM (loopF n queryF body null mean tol T i) g)
        (perm.foldlM (step (vOf queryF body null) null mean { timeout := 0, tolerance := tol, truncSteps := T }) w) := by
  induction perm generalizing start g w with
  | nil => exact h
  | cons k rest ih =>
    simp only [List.map_cons, Np.enumerateFrom, List.foldlM_cons]
    have hs := step_sim n queryF body null mean tol T i g w h start k (hperm k List.mem_cons_self)
    change Sim (loopF n queryF body null mean tol T i g (start, (k : Int))) _ at hs
    cases hx : loopF n queryF body null mean tol T i g (start, (k : Int)) with
    | error e =>
      rw [hx] at hs
      cases hy : step (vOf queryF body null) null mean { timeout := 0, tolerance := tol, truncSteps := T } w k with
      | none => simp only [bind, Except.bind, Option.bind]; trivial
      | some w' => rw [hy] at hs; exact absurd hs (by simp [Sim])
    | ok g' =>
      rw [hx] at hs
      cases hy : step (vOf queryF body null) null mean { timeout := 0, tolerance := tol, truncSteps := T } w k with
      | none => rw [hy] at hs; exact absurd hs (by simp [Sim])
      | some w' =>
        rw [hy] at hs
        simp only [bind, Except.bind, Option.bind]
        exact ih (fun k hk => hperm k (List.mem_cons_of_mem _ hk)) (start + 1) g' w' hs

/-- what the model's `column` folds over, with the walk state kept -/
def walkModel {ρ : Type} (n : ℕ) (queryF : List Int → ρ) (body : ρ → ℚ → Np.Out ℚ) (null mean tol : ℚ) (T : ℕ) (perm : List ℕ) : Option Walk :=
  match ((vOf queryF body null) (List.replicate n 0)).caught null with
  | none => none
  | some s0 =>
    perm.foldlM (step (vOf queryF body null) null mean { timeout := 0, tolerance := tol, truncSteps := T })
      { query := List.replicate n 0, score := s0, counter := 0, imp := List.replicate n 0, cut := false }

theorem column_eq_walkModel {ρ : Type} (n : ℕ) (queryF : List Int → ρ) (body : ρ → ℚ → Np.Out ℚ) (null mean tol : ℚ) (T : ℕ) (perm : List ℕ) :
    column n (vOf queryF body null) null mean { timeout := 0, tolerance := tol, truncSteps := T } perm
      = (walkModel n queryF body null mean tol T perm).map (·.imp) := by
  unfold column walkModel
  cases ((vOf queryF body null) (List.replicate n 0)).caught null <;> rfl

def outOf (st_ : GS) : List ℚ × List Int × ℚ × Int × List Int := (st_.2.2.1, st_.1, st_.2.1, st_.2.2.2.1, st_.2.2.2.2)

/-- both raise, or both finish in the same state (scores, query, running score, counter) -/
def Post (x : Except String (List ℚ × List Int × ℚ × Int × List Int)) (y : Option Walk) : Prop :=
  match x, y with
  | .ok r, some w => r.1 = w.imp ∧ r.2.1 = w.query ∧ r.2.2.1 = w.score ∧ r.2.2.2.1 = (w.counter : Int)
  | .error _, none => True
  | _, _ => False

theorem mc_walk_loopF {ρ : Type} (n : ℕ) (queryF : List Int → ρ) (body : ρ → ℚ → Np.Out ℚ) (null mean tol : ℚ) (T : ℕ)
    (idxs at0 : List Int) (i : Int) :
    GenM.mc_walk queryF body null mean tol (T : Int) (n : Int) (n : Int) ((List.range n).map (fun k : ℕ => (k : Int)))
        (List.replicate n (1 : Int)) idxs at0 i
      = (((Np.enumerateFrom (-(1 : Int)) (Np.append1 [(-(1 : Int))] idxs)).foldlM (loopF n queryF body null mean tol T i)
          (((Np.rep (0 : Int) (n : Int), null, (Np.zeros1 (n : Int) : List ℚ), (0 : Int), at0) : GS), false)).map (·.1)).map outOf := by
  rw [mc_walk_unfold]
  rfl

theorem first_step {ρ : Type} (n : ℕ) (queryF : List Int → ρ) (body : ρ → ℚ → Np.Out ℚ) (null mean tol : ℚ) (T : ℕ) (at0 : List Int) (i : Int) :
    loopF n queryF body null mean tol T i (((List.replicate n (0 : Int), null, List.replicate n (0 : ℚ), (0 : Int), at0) : GS), false) (-(1 : Int), -(1 : Int))
      = (Np.tryExcept ["ValueError", "RuntimeWarning", "UserWarning"] ["RuntimeWarning", "UserWarning"]
          (body (queryF (List.replicate n 0)) null) null).map
          (fun s0 => (((List.replicate n (0 : Int), s0, List.replicate n (0 : ℚ), (0 : Int), at0), false) : GS × Bool)) := by
  unfold loopF
  simp only [Bool.false_eq_true, if_false]
  unfold stepG
  have h1 : (decide (-(1 : Int) ≥ 0)) = false := by decide
  have h2 : (decide (-(1 : Int) < 0)) = true := by decide
  simp only [h1, h2, Bool.false_eq_true, if_false, if_true]
  cases Np.tryExcept ["ValueError", "RuntimeWarning", "UserWarning"] ["RuntimeWarning", "UserWarning"]
        (body (queryF (List.replicate n 0)) null) null <;> rfl

/-- **The translated walk simulates the model's walk.** -/
theorem walk_sim {ρ : Type} (n : ℕ) (queryF : List Int → ρ) (body : ρ → ℚ → Np.Out ℚ) (null mean tol : ℚ) (T : ℕ)
    (perm : List ℕ) (hperm : ∀ k ∈ perm, k < n) (at0 : List Int) (i : Int) :
    Post (GenM.mc_walk queryF body null mean tol (T : Int) (n : Int) (n : Int) ((List.range n).map (fun k : ℕ => (k : Int)))
            (List.replicate n (1 : Int)) (perm.map (fun k : ℕ => (k : Int))) at0 i)
         (walkModel n queryF body null mean tol T perm) := by
  rw [mc_walk_loopF]
  have henum : Np.enumerateFrom (-(1 : Int)) (Np.append1 [(-(1 : Int))] (perm.map (fun k : ℕ => (k : Int))))
      = (-(1 : Int), -(1 : Int)) :: Np.enumerateFrom 0 (perm.map (fun k : ℕ => (k : Int))) := by
    simp [Np.append1, Np.enumerateFrom]
  rw [henum, List.foldlM_cons, Np.rep_natCast, Np.zeros1_natCast, first_step]
  unfold walkModel vOf
  have htry := tryExcept_caught (body (queryF (List.replicate n 0)) null) null
  cases hr : Np.tryExcept ["ValueError", "RuntimeWarning", "UserWarning"] ["RuntimeWarning", "UserWarning"]
          (body (queryF (List.replicate n 0)) null) null with
  | error e =>
    rw [hr] at htry
    have : Outcome.caught null (classify (body (queryF (List.replicate n 0)) null)) = none := by rw [← htry]; rfl
    simp only [this]
    trivial
  | ok s0 =>
    rw [hr] at htry
    have : Outcome.caught null (classify (body (queryF (List.replicate n 0)) null)) = some s0 := by rw [← htry]; rfl
    simp only [this]
    have hsim := fold_sim n queryF body null mean tol T i perm hperm 0
      (((List.replicate n (0 : Int), s0, List.replicate n (0 : ℚ), (0 : Int), at0), false) : GS × Bool)
      { query := List.replicate n 0, score := s0, counter := 0, imp := List.replicate n 0, cut := false }
      ⟨rfl, rfl, rfl, rfl, rfl⟩
    unfold vOf at hsim
    simp only [Except.map, bind, Except.bind]
    cases hx : (Np.enumerateFrom 0 (perm.map (fun k : ℕ => (k : Int)))).foldlM (loopF n queryF body null mean tol T i)
        (((List.replicate n (0 : Int), s0, List.replicate n (0 : ℚ), (0 : Int), at0), false) : GS × Bool) with
    | error e =>
      rw [hx] at hsim
      cases hy : perm.foldlM (step (fun q => classify (body (queryF q) null)) null mean { timeout := 0, tolerance := tol, truncSteps := T })
          { query := List.replicate n 0, score := s0, counter := 0, imp := List.replicate n 0, cut := false } with
      | none => trivial
      | some w => rw [hy] at hsim; exact absurd hsim (by simp [Sim])
    | ok g =>
      rw [hx] at hsim
      cases hy : perm.foldlM (step (fun q => classify (body (queryF q) null)) null mean { timeout := 0, tolerance := tol, truncSteps := T })
          { query := List.replicate n 0, score := s0, counter := 0, imp := List.replicate n 0, cut := false } with
      | none => rw [hy] at hsim; exact absurd hsim (by simp [Sim])
      | some w =>
        rw [hy] at hsim
        obtain ⟨h1, h2, h3, h4, _⟩ := hsim
        exact ⟨h3, h1, h2, h4⟩
end Ds.GenWalk
