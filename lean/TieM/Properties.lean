import TieM.WalkProofs
import DsProofs.Properties.C04
/-!
# TIEM — theorems about one permutation walk of `_shapley_montecarlo` AS IT IS WRITTEN NOW

`GenM/Walk.lean` is regenerated from `/repo/datascope/importance/shapley.py` on every run by `harness/translate_mc.py`: the per-iteration
resets and the whole inner loop of `_shapley_montecarlo` (see that file's docstring).  Opaque: `provenance.query`, the body of the `try`,
`null_score`, `mean_score`.  Not translated: drawing the permutation, the clock, storing the column, the final average (hand model).

* `TIEM_walk`: for every number of units, every permutation prefix `perm` (indices `< n`), every opaque behaviour, tolerance and
  truncation setting, the translated walk and the model's walk (`Ds.MC.step` folded over `perm`, started from the score of the coalition
  of no units) either both raise, or both finish with the same marginals, query, running score and truncation counter.
* `TIEM_column`: hence the marginals the translated code leaves in `importance` are `Ds.MC.column` — the object `C04_*`, `C06_mc`, `C16_*` are about.
* `TIEM_C04_marginals`: with truncation disabled and no uncaught class, the entry of the `k`-th unit of the permutation is
  `val(prefix_{k+1}) − val(prefix_k)` (prefix_0 = no unit), and units outside the permutation get 0 — C04's clause for the source as written.
-/
open Ds Ds.MC Ds.GenBrute Ds.GenWalk BruteP MCP

namespace DsProofs.TieM

theorem TIEM_walk {ρ : Type} (n : ℕ) (queryF : List Int → ρ) (body : ρ → ℚ → Np.Out ℚ) (null mean tol : ℚ) (T : ℕ)
    (perm : List ℕ) (hperm : ∀ k ∈ perm, k < n) (at0 : List Int) (i : Int) :
    Post (GenM.mc_walk queryF body null mean tol (T : Int) (n : Int) (n : Int) ((List.range n).map (fun k : ℕ => (k : Int)))
            (List.replicate n (1 : Int)) (perm.map (fun k : ℕ => (k : Int))) at0 i)
         (walkModel n queryF body null mean tol T perm) :=
  walk_sim n queryF body null mean tol T perm hperm at0 i

theorem TIEM_column {ρ : Type} (n : ℕ) (queryF : List Int → ρ) (body : ρ → ℚ → Np.Out ℚ) (null mean tol : ℚ) (T : ℕ)
    (perm : List ℕ) (hperm : ∀ k ∈ perm, k < n) (at0 : List Int) (i : Int) :
    (GenM.mc_walk queryF body null mean tol (T : Int) (n : Int) (n : Int) ((List.range n).map (fun k : ℕ => (k : Int)))
        (List.replicate n (1 : Int)) (perm.map (fun k : ℕ => (k : Int))) at0 i).toOption.map (·.1)
      = column n (vOf queryF body null) null mean { timeout := 0, tolerance := tol, truncSteps := T } perm := by
  have h := walk_sim n queryF body null mean tol T perm hperm at0 i
  rw [column_eq_walkModel]
  unfold Post at h
  cases hx : GenM.mc_walk queryF body null mean tol (T : Int) (n : Int) (n : Int) ((List.range n).map (fun k : ℕ => (k : Int)))
        (List.replicate n (1 : Int)) (perm.map (fun k : ℕ => (k : Int))) at0 i with
  | error e =>
    rw [hx] at h
    cases hy : walkModel n queryF body null mean tol T perm with
    | none => rfl
    | some w => rw [hy] at h; exact absurd h (by simp)
  | ok r =>
    rw [hx] at h
    cases hy : walkModel n queryF body null mean tol T perm with
    | none => rw [hy] at h; exact absurd h (by simp)
    | some w =>
      rw [hy] at h
      simp [Except.toOption, h.1]

/-- **C04 (marginals) for the translated source.** -/
theorem TIEM_C04_marginals {ρ : Type} (n : ℕ) (queryF : List Int → ρ) (body : ρ → ℚ → Np.Out ℚ) (null mean tol : ℚ)
    (perm : List ℕ) (hnd : perm.Nodup) (hperm : ∀ k ∈ perm, k < n) (at0 : List Int) (i : Int)
    (hv : ∀ q, IsQuery n q → vOf queryF body null q ≠ .other) :
    ∃ r, GenM.mc_walk queryF body null mean tol ((0 : ℕ) : Int) (n : Int) (n : Int) ((List.range n).map (fun k : ℕ => (k : Int)))
        (List.replicate n (1 : Int)) (perm.map (fun k : ℕ => (k : Int))) at0 i = .ok r ∧ r.1.length = n ∧
      (∀ k (hk : k < perm.length), r.1.getD perm[k] 0 =
        valOf null (vOf queryF body null (indQ n (perm.take (k+1)))) - valOf null (vOf queryF body null (indQ n (perm.take k)))) ∧
      (∀ u, u ∉ perm → r.1.getD u 0 = 0) := by
  obtain ⟨col, hcol, hlen, hent, hout, _⟩ :=
    C04_column n (vOf queryF body null) null mean { timeout := 0, tolerance := tol, truncSteps := 0 } perm rfl hv hnd hperm
  have h := TIEM_column n queryF body null mean tol 0 perm hperm at0 i
  rw [hcol] at h
  cases hx : GenM.mc_walk queryF body null mean tol ((0 : ℕ) : Int) (n : Int) (n : Int) ((List.range n).map (fun k : ℕ => (k : Int)))
        (List.replicate n (1 : Int)) (perm.map (fun k : ℕ => (k : Int))) at0 i with
  | error e => rw [hx] at h; simp [Except.toOption] at h
  | ok r =>
    rw [hx] at h
    simp only [Except.toOption, Option.map_some, Option.some.injEq] at h
    exact ⟨r, rfl, by rw [h]; exact hlen, fun k hk => by rw [h]; exact hent k hk, fun u hu => by rw [h]; exact hout u hu⟩

/-! ### non-vacuity: 2 units, utility = number of present units, tolerance band hit from the second step on, truncation after 1 step -/
example : (GenM.mc_walk (ρ := List Int) (fun q => q) (fun q _ => .val ((Np.sumI q : Int) : ℚ)) (0 : ℚ) 1 (1/2) 5 2 2 [0, 1] [1, 1] [1, 0] [2] 0).toOption.map (·.1)
    = some [1, 1] := by decide +kernel

example : (GenM.mc_walk (ρ := List Int) (fun q => q) (fun q _ => if q = [0, 1] then .exc "TypeError" else .val 1) (0 : ℚ) 1 (1/2) 5 2 2 [0, 1] [1, 1] [1, 0] [2] 0).toOption
    = none := by decide +kernel

end DsProofs.TieM
