import TieA.Properties
