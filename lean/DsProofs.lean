import DsProofs.Shapley
