import Ds
