import Tie.Properties
