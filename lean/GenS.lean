import GenS.Front
