import TieI.InitProofs
import TieI.ExprProofs
import DsProofs.Properties.C11
import DsProofs.Properties.C12
/-!
# TIEI — the data path of `Provenance.__init__` for 1-D data AS IT IS WRITTEN NOW
(`GenI/Init.lean`, template translation by `harness/translate_init.py`: the `else` branch of `__init__` must be exactly the known statements)

* `TIEI_exprs`: `Provenance(expressions)` pads every formula to the widest one and stacks them — the model's `ofExprs` container (C11's container clause, C05).
* `TIEI_default`: `Provenance(units=n)` stores exactly the model's default container (row `i` = `x_i == c` for every non-null candidate `c`) and sets `is_simple`.
* `TIEI_groups`: `Provenance(data=ids)` for a vector of group identifiers registers the distinct identifiers other than -1 in sorted order as its units and stores
  exactly the model's `ofGroups` container — every identifier translated to its unit POSITION (the F8 clause), one row per entry and non-null candidate — and does
  not set `is_simple`.  `np.unique` is a parameter with its contract (sorted distinct values) as hypothesis.
With `C12_default` / `C12_groups` (row `i` present exactly when its unit is) these are C12's clauses for the source as written.
-/
open Ds Ds.Prov Ds.GenQuery

namespace DsProofs.TieI

theorem TIEI_default (n c : ℕ) :
    GenI.init_default (n : Int) (c : Int) = (toA4 (Prov.default n c), true) :=
  default_eq n c

theorem TIEI_groups (uniq : List Int → List Int) (ids : List Int) (c : ℕ)
    (huniq : (uniq ids).filter (fun u => u != (-1 : Int)) = uniqueIds ids) :
    GenI.init_groups uniq ids (c : Int) = (uniqueIds ids, toA4 (Prov.ofGroups ids c), false) :=
  groups_eq uniq ids c huniq

/-- `Provenance(expressions)` as written (template; a non-empty list — the `if expressions is not None and len(expressions) > 0` guard): every formula's array padded with -1 to
the largest number of disjuncts / conjuncts and stacked = the model's `ofExprs` container, about which `C11_container` (reading row `i` back yields the truth table of the `i`-th
input) and `C05_ofExprs` speak -/
theorem TIEI_exprs (es : List Expr) (n c : ℕ) (hne : es ≠ []) :
    GenI.init_expressions (es.map Ds.GenCont.v3) = toA4 (Prov.ofExprs es n c) :=
  exprs_eq es n c hne

/-! ### non-vacuity -/
example : (GenI.init_groups (fun _ => [-1, 5, 7]) [5, 7, 5, -1] 2).1 = [5, 7] := by decide
example : (GenI.init_groups (fun _ => [-1, 5, 7]) [5, 7, 5, -1] 2).2.1.v = [[[[0, 1]]], [[[1, 1]]], [[[0, 1]]], [[[-1, 1]]]] := by decide
example : (GenI.init_default 2 3).1.v = [[[[0, 1]]], [[[0, 2]]], [[[1, 1]]], [[[1, 2]]]] := by decide

end DsProofs.TieI
