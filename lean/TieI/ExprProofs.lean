import TieI.InitProofs
import TieC.ContProofs
open Ds Ds.Prov Ds.GenQuery Ds.GenCont

namespace DsProofs.TieI

theorem foldl_imax_cast (l : List ℕ) (a : ℕ) :
    (l.map (fun k : ℕ => (k : Int))).foldl Np.imax (a : Int) = ((l.foldl max a : ℕ) : Int) := by
  induction l generalizing a with
  | nil => rfl
  | cons x xs ih =>
    simp only [List.map_cons, List.foldl_cons]
    have : Np.imax (a : Int) (x : Int) = ((max a x : ℕ) : Int) := by
      unfold Np.imax; split_ifs <;> omega
    rw [this, ih]

theorem sh0 (e : Expr) : Np.shapeV3 (v3 e) 0 = (e.height : Int) := by simp [Np.shapeV3, v3]
theorem sh1 (e : Expr) : Np.shapeV3 (v3 e) 1 = (e.width : Int) := by simp [Np.shapeV3, v3]

theorem max_disj (L : List Expr) (hL : L ≠ []) :
    ((L.map v3).map (fun d => Np.shapeV3 d 0)).foldl Np.imax (Np.shapeV3 ((L.map v3).headD ⟨0, 0, []⟩) 0)
      = (((L.map Expr.height).foldl max 0 : ℕ) : Int) := by
  cases L with
  | nil => exact absurd rfl hL
  | cons e rest =>
    have h1 : ((e :: rest).map v3).map (fun d => Np.shapeV3 d 0) = ((e :: rest).map Expr.height).map (fun k : ℕ => (k : Int)) := by
      simp only [List.map_map]; apply List.map_congr_left; intro x _; exact sh0 x
    rw [h1]
    simp only [List.map_cons, List.headD_cons, sh0]
    have h2 := foldl_imax_cast (e.height :: rest.map Expr.height) e.height
    simp only [List.map_cons] at h2
    rw [h2]; simp

theorem max_conj (L : List Expr) (hL : L ≠ []) :
    ((L.map v3).map (fun d => Np.shapeV3 d 1)).foldl Np.imax (Np.shapeV3 ((L.map v3).headD ⟨0, 0, []⟩) 1)
      = (((L.map Expr.width).foldl max 0 : ℕ) : Int) := by
  cases L with
  | nil => exact absurd rfl hL
  | cons e rest =>
    have h1 : ((e :: rest).map v3).map (fun d => Np.shapeV3 d 1) = ((e :: rest).map Expr.width).map (fun k : ℕ => (k : Int)) := by
      simp only [List.map_map]; apply List.map_congr_left; intro x _; exact sh1 x
    rw [h1]
    simp only [List.map_cons, List.headD_cons, sh1]
    have h2 := foldl_imax_cast (e.width :: rest.map Expr.width) e.width
    simp only [List.map_cons] at h2
    rw [h2]; simp

/-- `Provenance(expressions)` as written (template): the model's `ofExprs` container — every formula padded to the widest one and stacked (C11's container clause) -/
theorem exprs_eq (es : List Expr) (n c : ℕ) (hne : es ≠ []) :
    GenI.init_expressions (es.map v3) = toA4 (Prov.ofExprs es n c) := by
  unfold GenI.init_expressions Prov.ofExprs
  rw [max_disj es hne, max_conj es hne]
  simp only [toA4_eq, Int.toNat_natCast, List.length_map, List.map_map]
  congr 1
  apply List.map_congr_left
  intro x _
  simp only [Function.comp, Np.padV3, v3, Int.toNat_natCast, padRow_map]

end DsProofs.TieI
