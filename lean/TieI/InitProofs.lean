import GenI.Init
import TieQ.QueryProofs
import Tie.NpProofs
open Ds Ds.Prov Ds.GenQuery

namespace DsProofs.TieI

theorem range1 (c : ℕ) : Np.range 1 (c : Int) 1 = (List.range (c - 1)).map (fun (k : ℕ) => ((k + 1 : ℕ) : Int)) := by
  unfold Np.range
  simp only [show (0 : Int) < 1 by decide, if_true]
  have : (((c : Int) - 1 + 1 - 1) / 1).toNat = c - 1 := by
    simp only [Int.ediv_one]; omega
  rw [this]
  apply List.ext_getElem <;> simp
  intro i h; omega

theorem zip_rows (v : List Int) (c : ℕ) :
    List.zipWith (fun a b => [a, b]) (Np.repeatEach v ((c : Int) - 1)) (Np.tile (Np.range 1 (c : Int) 1) (Np.len1 v))
      = v.flatMap (fun x => (List.range (c - 1)).map (fun (k : ℕ) => [x, ((k + 1 : ℕ) : Int)])) := by
  rw [range1]
  unfold Np.repeatEach Np.tile Np.len1
  have hk : ((c : Int) - 1).toNat = c - 1 := by omega
  rw [hk, Int.toNat_natCast]
  induction v with
  | nil => simp
  | cons x xs ih =>
    simp only [List.flatMap_cons, List.length_cons, List.replicate_succ, List.flatten_cons]
    rw [List.zipWith_append (by simp), ih]
    congr 1
    apply List.ext_getElem <;> simp

theorem rows_eq (v : List Int) (c : ℕ) :
    GenI.rows_of_vector v (c : Int)
      = ⟨(v.flatMap (fun x => (List.range (c - 1)).map (fun (k : ℕ) => [x, ((k + 1 : ℕ) : Int)]))).length, 1, 1,
          (v.flatMap (fun x => (List.range (c - 1)).map (fun (k : ℕ) => [x, ((k + 1 : ℕ) : Int)]))).map (fun lit => [[lit]])⟩ := by
  unfold GenI.rows_of_vector
  simp only [zip_rows]

theorem default_eq (n c : ℕ) : GenI.init_default (n : Int) (c : Int) = (toA4 (Prov.default n c), true) := by
  unfold GenI.init_default
  simp only [rows_eq, Np.range_up]
  unfold toA4 Prov.default
  simp only [List.flatMap_map, List.map_flatMap, List.map_map, List.length_flatMap, List.length_map, Prod.mk.injEq, and_true]
  congr 1

theorem groups_eq (uniq : List Int → List Int) (ids : List Int) (c : ℕ)
    (huniq : (uniq ids).filter (fun u => u != (-1 : Int)) = uniqueIds ids) :
    GenI.init_groups uniq ids (c : Int) = (uniqueIds ids, toA4 (Prov.ofGroups ids c), false) := by
  unfold GenI.init_groups
  simp only [huniq, rows_eq]
  unfold toA4 Prov.ofGroups
  simp only [List.flatMap_map, List.map_flatMap, List.map_map, List.length_flatMap, List.length_map, Prod.mk.injEq, true_and, and_true]
  congr 1
  apply List.flatMap_congr
  intro a _
  apply List.map_congr_left
  intro k _
  by_cases h : a = -1
  · simp [h]
  · simp [h, Np.indexOf]

end DsProofs.TieI
