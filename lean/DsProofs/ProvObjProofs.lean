import Ds.ProvObj
import DsProofs.NeighborProofs

/-!
# Helper lemmas for the `Provenance` object (`Ds.Prov.Obj`: padded array + `_is_simple` flag)

* `filter_range_eq`, `unitVec_mask`, `rowsOf_default_two`: for `Provenance(units=n)` (two candidates) the rows
  present when only unit `u` is switched on are exactly `[u]`.
* `cell_singleton`, `unitReduce_singletons`, `column_ul_singletons`, `column_ud_singletons`:
  `get_unit_labels_and_distances` over units that own one row each returns the labels broadcast and the
  first `nb` columns of the distance matrix.
* `ordersOK_congr`, `ordersUsed_congr`: the sort orders and the test applied to supplied orders depend only on
  the first `nb` columns of the unit distances.
* `mapfork_flag_irrelevant`: the fast path of `compute_shapley_1nn_mapfork` equals the general path whenever
  unit `u` owns exactly row `u`.
* `score_congr`: `_shapley_neighbor` depends on the flag only through its calls of `mapfork`, and only on the
  branch `K == 1 && nConj == 1`.
* `step_meta`, `run_cons`, `run_keeps`, `run_simple`: every mutation clears the flag and keeps the unit set.
-/

namespace DsProofs.ProvObj
open Ds Ds.Prov Ds.Neighbor Ds.Kernel

/-! ### lists -/

theorem filter_range_eq (n u : ℕ) :
    (List.range n).filter (fun i => decide (i = u)) = if u < n then [u] else [] := by
  induction n with
  | zero => simp
  | succ n ih =>
    rw [List.range_succ, List.filter_append, ih]
    by_cases h : u < n
    · have : ¬ n = u := by omega
      simp [h, this]; omega
    · by_cases h2 : n = u
      · subst h2; simp
      · have : ¬ u < n + 1 := by omega
        simp [h, h2, this]

theorem map_range_getD {β : Type} (l : List β) (d : β) : (List.range l.length).map (fun i => l.getD i d) = l := by
  apply List.ext_getElem
  · simp
  · intro i h1 h2
    simp at h1
    simp [List.getD_eq_getElem?_getD, h1]

theorem map_eq_range_map {β γ : Type} (l : List β) (f : β → γ) (d : β) :
    l.map f = (List.range l.length).map (fun i => f (l.getD i d)) := by
  conv_lhs => rw [← map_range_getD l d]
  rw [List.map_map]; rfl

theorem mapM_length {α β : Type} (f : α → Except Err β) (l : List α) (m : List β) (h : l.mapM f = .ok m) :
    m.length = l.length := by
  have := congrArg List.length ((mapM_ok_iff f l m).mp h)
  simpa using this.symm

/-! ### `rowsOf` of the default provenance -/

theorem unitVec_mask (n u i : ℕ) (hi : i < n) :
    (((List.replicate n (0 : Int)).set u 1).map (· == 1)).getD i false = decide (i = u) := by
  simp only [List.getD_eq_getElem?_getD, List.getElem?_map, List.getElem?_set, List.length_replicate]
  by_cases h : u = i
  · subst h; simp [hi]
  · have h' : ¬ i = u := fun e => h e.symm
    simp [h, h', hi]

/-- `Provenance(units=n)`: switching on unit `u` alone makes exactly row `u` present -/
theorem rowsOf_default_two (n : ℕ) : rowsOf (Prov.default n 2) = .ok ((List.range n).map (fun u => [u])) := by
  unfold rowsOf
  apply mapM_ok_of
  intro u hu
  have hu' : u < n := List.mem_range.mp hu
  have hn : (Prov.default n 2).nUnits = n := rfl
  rw [hn, queryIdx_of_query (query_default_two n _ (by simp))]
  simp only [List.length_map, List.length_set, List.length_replicate]
  rw [List.filter_congr (q := fun i => decide (i = u)) (fun i hi => unitVec_mask n u i (List.mem_range.mp hi)),
    filter_range_eq, if_pos hu']

/-! ### `unitReduce` over units owning one row each -/

theorem cell_singleton (labels : List ℕ) (dist : List (List ℚ)) (nullLabel u j : ℕ) :
    cell labels dist nullLabel [u] j = (labels.getD u 0, D dist u j) := by
  simp [cell, argminFirst, argminFirst.go]

/-- the per-unit reduction when unit `u` owns exactly row `u`: labels broadcast to `nb` columns, and the first
`nb` columns of the distance matrix (a missing entry of a short row reads as `0`, as everywhere in the model) -/
theorem unitReduce_singletons (n : ℕ) (labels : List ℕ) (dist : List (List ℚ)) (nb nullLabel : ℕ)
    (hl : labels.length = n) (hd : dist.length = n) :
    unitReduce ((List.range n).map (fun u => [u])) labels dist nb nullLabel
      = (labels.map (fun l => List.replicate nb l),
         dist.map (fun row => (List.range nb).map (fun j => row.getD j 0))) := by
  rw [unitReduce_eq, List.map_map, List.map_map]
  congr 1
  · conv_rhs => rw [map_eq_range_map labels _ 0, hl]
    apply List.map_congr_left
    intro u _
    simp only [Function.comp, cell_singleton]
    rw [List.map_const', List.length_range]
  · conv_rhs => rw [map_eq_range_map dist _ [], hd]
    apply List.map_congr_left
    intro u _
    simp only [Function.comp, cell_singleton, D]

theorem column_ul_singletons (n : ℕ) (labels : List ℕ) (dist : List (List ℚ)) (nb nullLabel j : ℕ)
    (hj : j < nb) (hl : labels.length = n) :
    column (unitReduce ((List.range n).map (fun u => [u])) labels dist nb nullLabel).1 j 0 = labels := by
  rw [column_unitReduce_fst _ _ _ _ _ _ hj, List.map_map]
  conv_rhs => rw [← map_range_getD labels 0, hl]
  apply List.map_congr_left
  intro u _
  simp only [Function.comp, cell_singleton]

theorem column_ud_singletons (n : ℕ) (labels : List ℕ) (dist : List (List ℚ)) (nb nullLabel j : ℕ)
    (hj : j < nb) (hd : dist.length = n) :
    column (unitReduce ((List.range n).map (fun u => [u])) labels dist nb nullLabel).2 j 0 = column dist j 0 := by
  rw [column_unitReduce_snd _ _ _ _ _ _ hj, List.map_map]
  conv_rhs => rw [column, map_eq_range_map dist _ [], hd]
  apply List.map_congr_left
  intro u _
  simp only [Function.comp, cell_singleton, D]

/-! ### `mapfork` -/

theorem ordersOK_congr (ud ud' : List (List ℚ)) (nb : ℕ) (orders : Option (List (List ℕ)))
    (h : ∀ j, j < nb → column ud j 0 = column ud' j 0) : ordersOK ud nb orders = ordersOK ud' nb orders := by
  cases orders with
  | none => rfl
  | some os =>
    simp only [ordersOK]
    apply all_congr_mem
    intro j hj
    rw [h j (List.mem_range.mp hj)]

theorem ordersUsed_congr (ud ud' : List (List ℚ)) (nb : ℕ) (orders : Option (List (List ℕ)))
    (h : ∀ j, j < nb → column ud j 0 = column ud' j 0) : ordersUsed ud nb orders = ordersUsed ud' nb orders := by
  cases orders with
  | none =>
    simp only [ordersUsed]
    apply List.map_congr_left
    intro j hj
    rw [h j (List.mem_range.mp hj)]
  | some os => rfl

/-- fast path = general path whenever unit `u` owns exactly row `u` (and there is one label and one row of
distances per unit) -/
theorem mapfork_flag_irrelevant (p : Prov.P) (n : ℕ) (labels : List ℕ) (dist util : List (List ℚ))
    (nulls : List ℚ) (nb : ℕ) (orders : Option (List (List ℕ)))
    (hown : rowsOf p = .ok ((List.range n).map (fun u => [u])))
    (hl : labels.length = n) (hd : dist.length = n) :
    mapfork p true labels dist util nulls nb orders = mapfork p false labels dist util nulls nb orders := by
  rw [mapfork_simple, mapfork_nonsimple p labels dist util nulls nb orders _ hown]
  have hcol := fun j (hj : j < nb) => column_ud_singletons n labels dist nb util.length j hj hd
  rw [ordersOK_congr _ dist nb orders hcol, ordersUsed_congr _ dist nb orders hcol]
  have hlab : (List.range nb).map (fun j => column (labels.map (fun l => List.replicate nb l)) j 0)
      = (List.range nb).map (fun j => column
          (unitReduce ((List.range n).map (fun u => [u])) labels dist nb util.length).1 j 0) := by
    apply List.map_congr_left
    intro j hj
    have hj' := List.mem_range.mp hj
    rw [column_replicate labels nb j hj', column_ul_singletons n labels dist nb util.length j hj' hl]
  rw [hlab, hl, List.length_map, List.length_range]

/-! ### `score` -/

/-- `_shapley_neighbor` consults the flag only inside `mapfork`, only on the 1-NN map/fork branch, and always
with the encoded training labels (one per training label) and a column slice of the distance matrix (one row
per row of `dist`) -/
theorem score_congr (B : ℕ) (p : Prov.P) (s s' : Bool) (yTrain yTest : List Int) (dist : List (List ℚ)) (K : ℕ)
    (u : UtilSpec) (orders : Option (List (List ℕ)))
    (h : (K == 1 && p.nConj == 1) = true →
      ∀ (yTr : List ℕ) (distB util : List (List ℚ)) (nulls : List ℚ) (nb : ℕ) (ords : Option (List (List ℕ))),
      yTr.length = yTrain.length → distB.length = dist.length →
      mapfork p s yTr distB util nulls nb ords = mapfork p s' yTr distB util nulls nb ords) :
    score B p s yTrain yTest dist K u orders = score B p s' yTrain yTest dist K u orders := by
  unfold score
  split
  · rename_i hK
    simp only [bind, Except.bind, pure, Except.pure]
    cases hTr : yTrain.mapM (Util.encode (Util.unique yTrain)) with
    | error e => rfl
    | ok yTr =>
      have hlen := mapM_length _ _ _ hTr
      have h' := fun distB util nulls nb ords hd => h hK yTr distB util nulls nb ords hlen hd
      simp only [h', List.length_map]
  · rfl

/-! ### the object: mutations -/

/-- one mutation: the flag is off afterwards, the unit set (and number of candidates) is untouched -/
theorem step_meta (o : Obj) (op : Obj.Op) :
    (o.step op).1.simple = false ∧ (o.step op).1.p.nUnits = o.p.nUnits ∧ (o.step op).1.p.nCands = o.p.nCands := by
  cases op with
  | set i e =>
    simp only [Obj.step]
    by_cases hi : ValidIdx o.p.data.length i
    · rw [setItem_valid _ _ _ hi]; exact ⟨rfl, rfl, rfl⟩
    · rw [setItem_invalid _ _ _ hi]; exact ⟨rfl, rfl, rfl⟩
  | insert i e =>
    simp only [Obj.step]
    rw [insert_eq]; exact ⟨rfl, rfl, rfl⟩
  | del i =>
    simp only [Obj.step]
    by_cases hi : ValidIdx o.p.data.length i
    · rw [delItem_valid _ _ hi]; exact ⟨rfl, rfl, rfl⟩
    · rw [delItem_invalid _ _ hi]; exact ⟨rfl, rfl, rfl⟩
  | delMany idx => exact ⟨rfl, rfl, rfl⟩

theorem run_nil (o : Obj) : o.run [] = o := rfl

theorem run_cons (o : Obj) (op : Obj.Op) (ops : List Obj.Op) : o.run (op :: ops) = (o.step op).1.run ops := rfl

theorem run_keeps (o : Obj) (ops : List Obj.Op) :
    (o.simple = false → (o.run ops).simple = false) ∧ (o.run ops).p.nUnits = o.p.nUnits ∧
      (o.run ops).p.nCands = o.p.nCands := by
  induction ops generalizing o with
  | nil => exact ⟨fun h => h, rfl, rfl⟩
  | cons op ops ih =>
    rw [run_cons]
    obtain ⟨h1, h2, h3⟩ := ih (o.step op).1
    obtain ⟨s1, s2, s3⟩ := step_meta o op
    exact ⟨fun _ => h1 s1, h2.trans s2, h3.trans s3⟩

/-- an edited object never takes the fast path -/
theorem run_simple (o : Obj) (ops : List Obj.Op) (h : ops ≠ []) : (o.run ops).simple = false := by
  cases ops with
  | nil => exact absurd rfl h
  | cons op ops =>
    rw [run_cons]
    exact (run_keeps _ ops).1 (step_meta o op).1

end DsProofs.ProvObj
