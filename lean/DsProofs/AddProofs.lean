import Ds.Add
import Mathlib.Algebra.Group.Defs
import Mathlib.Algebra.BigOperators.Group.List.Basic
import Mathlib.Data.List.Basic
import Mathlib.Data.List.Nodup
import Mathlib.Data.List.ProdSigma
import Mathlib.Data.List.Perm.Subperm
import Mathlib.Tactic.Ring
import Mathlib.Tactic.Abel
import Mathlib.Tactic.Linarith
/-!
# AddProofs — semantics of the decision-diagram model `Ds.Dd` (helper lemmas for property C10)
-/
set_option linter.unusedSectionVars false
set_option linter.unusedSimpArgs false
namespace Ds.Dd

variable {V : Type} [AddCommMonoid V]
theorem evalAcc_eq (L : List (Level V)) (j : ℕ) (as : List ℕ) (acc : V) :
    evalAcc L j as acc = acc + evalFrom L j as := by
  induction L generalizing j as acc with
  | nil => simp [evalAcc, evalFrom]
  | cons lv rest ih =>
    cases as with
    | nil => simp [evalAcc, evalFrom]
    | cons a as => simp [evalAcc, evalFrom, ih, add_assoc]

/-- every node reachable from `j` (through candidates `< C`) is active -/
def wf (C : ℕ) : List (Level V) → ℕ → Prop
  | [], _ => True
  | lv :: rest, j => (nodeAt lv j).active = true ∧ ∀ c, c < C → wf C rest ((nodeAt lv j).ch c)
theorem nodeAt_foldInto (C : ℕ) (lv next : Level V) (value j : ℕ) (hact : (nodeAt lv j).active = true) :
    ∀ c, c < C →
      (nodeAt (foldInto C lv next value) j).ch c = (nodeAt next ((nodeAt lv j).ch c)).ch value ∧
      (nodeAt (foldInto C lv next value) j).ad c = (nodeAt lv j).ad c + (nodeAt next ((nodeAt lv j).ch c)).ad value := by
  intro c hc
  unfold nodeAt foldInto at *
  by_cases hj : j < lv.length
  · simp only [List.getD_eq_getElem?_getD, List.getElem?_map, List.getElem?_eq_getElem hj,
      Option.map_some, Option.getD_some] at hact ⊢
    simp only [hact, if_true, Node.ch, Node.ad, List.getD_eq_getElem?_getD]
    simp [hc, nodeAt, List.getD_eq_getElem?_getD]
  · simp only [List.getD_eq_getElem?_getD, List.getElem?_eq_none (Nat.le_of_not_lt hj),
      Option.getD_none] at hact
    simp at hact

theorem eval_restrictPos (C : ℕ) (k value : ℕ) (L : List (Level V)) (j : ℕ) (as : List ℕ)
    (hk : k + 1 < L.length) (hlen : as.length + 1 = L.length) (hC : ∀ a ∈ as, a < C) (hw : wf C L j) :
    evalFrom (restrictPos C k value L) j as = evalFrom L j (as.insertIdx (k + 1) value) := by
  induction k generalizing L j as with
  | zero =>
    match L, as with
    | lv :: next :: rest, a :: as =>
      have ha : a < C := hC a (by simp)
      obtain ⟨h1, h2⟩ := nodeAt_foldInto C lv next value j hw.1 a ha
      simp only [restrictPos, evalFrom, List.insertIdx_succ_cons, List.insertIdx_zero, h1, h2, add_assoc]
    | lv :: next :: rest, [] => simp at hlen
    | [_], _ => simp at hk
    | [], _ => simp at hk
  | succ k ih =>
    match L, as with
    | lv :: rest, a :: as =>
      have ha : a < C := hC a (by simp)
      simp only [restrictPos, evalFrom, List.insertIdx_succ_cons]
      congr 1
      apply ih
      · simpa using hk
      · simpa using hlen
      · intro x hx; exact hC x (by simp [hx])
      · exact hw.2 a ha
    | lv :: rest, [] => simp only [List.length_cons, List.length_nil] at hlen hk; omega
    | [], _ => simp at hk

theorem prefix_getElem? {α} {l₁ l₂ : List α} (h : l₁ <+: l₂) {i : ℕ} {x : α} (hx : l₁[i]? = some x) :
    l₂[i]? = some x := by
  obtain ⟨t, rfl⟩ := h
  have hi : i < l₁.length := by
    by_contra hn; rw [List.getElem?_eq_none (Nat.le_of_not_lt hn)] at hx; simp at hx
  rw [List.getElem?_append_left hi]; exact hx

theorem intern_spec (tbl : List Pair) (p : Pair) :
    tbl <+: (intern tbl p).1 ∧ (intern tbl p).1[(intern tbl p).2]? = some p := by
  unfold intern
  by_cases h : tbl.idxOf p < tbl.length
  · simp only [h, if_true]
    refine ⟨List.prefix_refl _, ?_⟩
    rw [List.getElem?_eq_getElem h]; simp
  · simp only [h, if_false]
    exact ⟨List.prefix_append _ _, by simp⟩

theorem internAll_spec (tbl ps : List Pair) :
    tbl <+: (internAll tbl ps).1 ∧ (internAll tbl ps).2.length = ps.length ∧
      ∀ (m : ℕ) (p : Pair), ps[m]? = some p → ∃ k : ℕ, (internAll tbl ps).2[m]? = some k ∧ (internAll tbl ps).1[k]? = some p := by
  induction ps generalizing tbl with
  | nil => simp [internAll]
  | cons q qs ih =>
    obtain ⟨h1, h2⟩ := intern_spec tbl q
    obtain ⟨g1, g2, g3⟩ := ih (intern tbl q).1
    refine ⟨h1.trans g1, by simp [internAll, g2], ?_⟩
    intro m p hm
    cases m with
    | zero =>
      simp only [List.getElem?_cons_zero, Option.some.injEq] at hm; subst hm
      exact ⟨(intern tbl q).2, by simp [internAll], prefix_getElem? g1 h2⟩
    | succ m =>
      simp only [List.getElem?_cons_succ] at hm
      obtain ⟨k, hk1, hk2⟩ := g3 m p hm
      exact ⟨k, by simpa [internAll] using hk1, hk2⟩
theorem sumLevel_spec (C : ℕ) (la lb : Level V) (tbl pairs : List Pair) :
    tbl <+: (sumLevel C la lb tbl pairs).1 ∧
      ∀ (k : ℕ) (p : Pair), pairs[k]? = some p → ∀ c : ℕ, c < C →
        (sumLevel C la lb tbl pairs).1[(nodeAt (sumLevel C la lb tbl pairs).2 k).ch c]? =
            some ((nodeAt la p.1).ch c, (nodeAt lb p.2).ch c) ∧
        (nodeAt (sumLevel C la lb tbl pairs).2 k).ad c = (nodeAt la p.1).ad c + (nodeAt lb p.2).ad c := by
  induction pairs generalizing tbl with
  | nil => simp [sumLevel]
  | cons q qs ih =>
    obtain ⟨a1, a2, a3⟩ := internAll_spec tbl (reqs C la lb q)
    obtain ⟨b1, b2⟩ := ih (internAll tbl (reqs C la lb q)).1
    refine ⟨a1.trans b1, ?_⟩
    intro k p hk c hc
    cases k with
    | zero =>
      simp only [List.getElem?_cons_zero, Option.some.injEq] at hk; subst hk
      have hreq : (reqs C la lb q)[c]? = some ((nodeAt la q.1).ch c, (nodeAt lb q.2).ch c) := by
        simp [reqs, hc]
      obtain ⟨kk, hk1, hk2⟩ := a3 c _ hreq
      constructor
      · have : (nodeAt (sumLevel C la lb tbl (q :: qs)).2 0).ch c = kk := by
          simp [sumLevel, nodeAt, Node.ch, List.getD_eq_getElem?_getD, hk1]
        rw [this]; exact prefix_getElem? b1 hk2
      · simp [sumLevel, nodeAt, Node.ad, List.getD_eq_getElem?_getD, hc]
    | succ k =>
      simp only [List.getElem?_cons_succ] at hk
      have := b2 k p hk c hc
      simpa [sumLevel, nodeAt, List.getD_eq_getElem?_getD] using this

/-- **`ADD.sum` is the pointwise sum.** Node `k` of the result stands for the pair `pairs[k]`. -/
theorem eval_sumLevels (C : ℕ) (LA LB : List (Level V)) (pairs : List Pair) (k : ℕ) (p : Pair)
    (as : List ℕ) (hlen : LA.length = LB.length) (hk : pairs[k]? = some p) (hC : ∀ a ∈ as, a < C) :
    evalFrom (sumLevels C LA LB pairs) k as = evalFrom LA p.1 as + evalFrom LB p.2 as := by
  induction LA generalizing LB pairs k p as with
  | nil =>
    cases LB with
    | nil => simp [sumLevels, evalFrom]
    | cons _ _ => simp at hlen
  | cons la ra ih =>
    cases LB with
    | nil => simp at hlen
    | cons lb rb =>
      cases as with
      | nil => simp [sumLevels, evalFrom]
      | cons a as =>
        have ha : a < C := hC a (by simp)
        obtain ⟨_, hs⟩ := sumLevel_spec C la lb [] pairs
        obtain ⟨h1, h2⟩ := hs k p hk a ha
        simp only [sumLevels, evalFrom]
        rw [h2, ih rb _ _ _ as (by simpa using hlen) h1 (fun x hx => hC x (by simp [hx]))]
        abel


/-! ### modelcount -/

/-- all argument tuples of length `n` over candidates `< C` -/
def allArgs (C : ℕ) : ℕ → List (List ℕ)
  | 0 => [[]]
  | n + 1 => (List.range C).flatMap (fun c => (allArgs C n).map (c :: ·))

section MC
variable [DecidableEq V]

/-- specification: number of argument tuples whose path from node `j` evaluates to `e` -/
def countSpec (C : ℕ) (L : List (Level V)) (j : ℕ) (e : V) : ℕ :=
  (allArgs C L.length).countP (fun as => evalFrom L j as = e)

theorem countP_flatMap_map (C n : ℕ) (P : List ℕ → Bool) :
    ((List.range C).flatMap (fun c => (allArgs C n).map (c :: ·))).countP P =
      ((List.range C).map (fun c => (allArgs C n).countP (fun as => P (c :: as)))).sum := by
  induction (List.range C) with
  | nil => simp
  | cons c cs ih =>
    simp only [List.flatMap_cons, List.countP_append, List.map_cons, List.sum_cons, ih]
    congr 1
    rw [List.countP_map]; rfl

theorem evalFrom_cons (lv : Level V) (rest : List (Level V)) (j a : ℕ) (as : List ℕ) :
    evalFrom (lv :: rest) j (a :: as) = (nodeAt lv j).ad a + evalFrom rest ((nodeAt lv j).ch a) as := by
  simp [evalFrom]

theorem mc_eq_countSpec (C : ℕ) (sub? : V → V → Option V) (valid : V → Prop)
    (H : ∀ e a r, valid e → (sub? e a = some r ↔ a + r = e))
    (Hv : ∀ e a r, valid e → a + r = e → valid r)
    (L : List (Level V)) (j : ℕ) (e : V) (he : valid e) (hw : wf C L j) :
    mc C sub? L j e = countSpec C L j e := by
  induction L generalizing j e with
  | nil => simp [mc, countSpec, allArgs, evalFrom, eq_comm]
  | cons lv rest ih =>
    unfold mc countSpec
    rw [if_pos hw.1]
    simp only [List.length_cons, allArgs]
    rw [countP_flatMap_map]
    apply congrArg
    apply List.map_congr_left
    intro c hc
    have hcC : c < C := List.mem_range.mp hc
    cases hsub : sub? e ((nodeAt lv j).ad c) with
    | none =>
      show 0 = _
      symm
      rw [List.countP_eq_zero]
      intro as _
      simp only [decide_eq_true_eq]
      intro hsum
      rw [evalFrom_cons] at hsum
      have := (H e _ _ he).mpr hsum
      rw [hsub] at this; cases this
    | some r =>
      show mc C sub? rest ((nodeAt lv j).ch c) r = _
      have hr := (H e _ r he).mp hsub
      rw [ih _ r (Hv e _ r he hr) (hw.2 c hcC)]
      unfold countSpec
      apply List.countP_congr
      intro as _
      simp only [decide_eq_true_eq]
      rw [evalFrom_cons]
      constructor
      · intro h; rw [h]; exact hr
      · intro h
        have h2 := (H e _ _ he).mpr h
        rw [hsub] at h2
        exact (Option.some.inj h2).symm

end MC

/-! ### `evalFrom` only looks at `ch` / `ad` -/

theorem nodeAt_lt_of_active {lv : Level V} {j : ℕ} (h : (nodeAt lv j).active = true) : j < lv.length := by
  by_contra hn
  simp [nodeAt, List.getD_eq_getElem?_getD, List.getElem?_eq_none (Nat.le_of_not_lt hn)] at h

theorem nodeAt_eq_getElem {lv : Level V} {j : ℕ} (h : j < lv.length) : nodeAt lv j = lv[j] := by
  simp [nodeAt, List.getD_eq_getElem?_getD, h]

/-- two levels with the same edges (children and edge values), node for node -/
def LevelEq (la lb : Level V) : Prop :=
  ∀ j c, (nodeAt la j).ch c = (nodeAt lb j).ch c ∧ (nodeAt la j).ad c = (nodeAt lb j).ad c

theorem evalFrom_congr {L L' : List (Level V)} (h : List.Forall₂ LevelEq L L') (j : ℕ) (as : List ℕ) :
    evalFrom L j as = evalFrom L' j as := by
  induction h generalizing j as with
  | nil => simp [evalFrom]
  | cons h _ ih =>
    cases as with
    | nil => simp [evalFrom]
    | cons a as => simp only [evalFrom]; rw [(h j a).1, (h j a).2, ih]

theorem blank_ch (C c : ℕ) : (blank C : Node V).ch c = 0 := by
  simp [blank, Node.ch, List.getD_eq_getElem?_getD, List.getElem?_replicate]; split <;> rfl

theorem blank_ad (C c : ℕ) : (blank C : Node V).ad c = 0 := by
  simp [blank, Node.ad, List.getD_eq_getElem?_getD, List.getElem?_replicate]; split <;> rfl

theorem nodeAt_padLevel_lt (C : ℕ) (lv : Level V) (diam j : ℕ) (h : j < lv.length) :
    nodeAt (padLevel C lv diam) j = nodeAt lv j := by
  simp [nodeAt, padLevel, List.getD_eq_getElem?_getD, List.getElem?_append_left h]

theorem levelEq_padLevel (C : ℕ) (lv : Level V) (diam : ℕ) : LevelEq (padLevel C lv diam) lv := by
  intro j c
  by_cases h : j < lv.length
  · rw [nodeAt_padLevel_lt C lv diam j h]; exact ⟨rfl, rfl⟩
  · have e1 : nodeAt lv j = ⟨false, [], []⟩ := by
      simp [nodeAt, List.getD_eq_getElem?_getD, List.getElem?_eq_none (Nat.le_of_not_lt h)]
    have e2 : nodeAt (padLevel C lv diam) j = blank C ∨ nodeAt (padLevel C lv diam) j = ⟨false, [], []⟩ := by
      simp only [nodeAt, padLevel, List.getD_eq_getElem?_getD, List.getElem?_append_right (Nat.le_of_not_lt h),
        List.getElem?_replicate]
      split <;> simp
    rw [e1]
    rcases e2 with e2 | e2 <;> rw [e2]
    · exact ⟨by rw [blank_ch]; rfl, by rw [blank_ad]; rfl⟩
    · exact ⟨rfl, rfl⟩

theorem eval_padLevels (C diam : ℕ) (L : List (Level V)) (j : ℕ) (as : List ℕ) :
    evalFrom (L.map (padLevel C · diam)) j as = evalFrom L j as := by
  apply evalFrom_congr
  induction L with
  | nil => exact .nil
  | cons lv L ih => exact .cons (levelEq_padLevel C lv diam) ih

theorem wf_padLevels (C diam : ℕ) (L : List (Level V)) (j : ℕ) (h : wf C L j) :
    wf C (L.map (padLevel C · diam)) j := by
  induction L generalizing j with
  | nil => trivial
  | cons lv L ih =>
    have hj := nodeAt_lt_of_active h.1
    simp only [List.map_cons, wf, nodeAt_padLevel_lt C lv diam j hj]
    exact ⟨h.1, fun c hc => ih _ (h.2 c hc)⟩


/-! ### restrict: well-formedness, and the root case -/

theorem wf_restrictPos (C k value : ℕ) (L : List (Level V)) (j : ℕ) (hv : value < C) (hw : wf C L j) :
    wf C (restrictPos C k value L) j := by
  induction k generalizing L j with
  | zero =>
    match L with
    | lv :: next :: rest =>
      simp only [restrictPos, wf]
      have hj := nodeAt_lt_of_active hw.1
      refine ⟨?_, ?_⟩
      · have h1 := hw.1
        rw [nodeAt_eq_getElem hj] at h1
        have hj' : j < (foldInto C lv next value).length := by simpa [foldInto] using hj
        rw [nodeAt_eq_getElem hj']
        simp [foldInto, h1]
      · intro c hc
        rw [(nodeAt_foldInto C lv next value j hw.1 c hc).1]
        exact (hw.2 c hc).2 value hv
    | [_] => exact hw
    | [] => exact hw
  | succ k ih =>
    match L with
    | lv :: rest =>
      simp only [restrictPos, wf]
      exact ⟨hw.1, fun c hc => ih _ _ (hw.2 c hc)⟩
    | [] => exact hw

theorem length_restrictPos (C k value : ℕ) (L : List (Level V)) (hk : k + 1 < L.length) :
    (restrictPos C k value L).length + 1 = L.length := by
  induction k generalizing L with
  | zero =>
    match L with
    | lv :: next :: rest => simp [restrictPos]
    | [_] => simp at hk
    | [] => simp at hk
  | succ k ih =>
    match L with
    | lv :: rest =>
      simp only [restrictPos, List.length_cons]
      have := ih rest (by simpa using hk)
      omega
    | [] => simp at hk

/-- the node `restrictRoot` rewrites -/
def pushRoot (C : ℕ) (a : V) (nd : Node V) : Node V :=
  { nd with adder := (List.range C).map (fun c => nd.ad c + a) }

theorem nodeAt_modify_self (lv : Level V) (j : ℕ) (f : Node V → Node V) (h : j < lv.length) :
    nodeAt (lv.modify j f) j = f (nodeAt lv j) := by
  simp [nodeAt, List.getD_eq_getElem?_getD, List.getElem?_modify, h]

theorem nodeAt_modify_ne (lv : Level V) (i j : ℕ) (f : Node V → Node V) (h : i ≠ j) :
    nodeAt (lv.modify i f) j = nodeAt lv j := by
  simp [nodeAt, List.getD_eq_getElem?_getD, List.getElem?_modify, h]

theorem restrictRoot_ok (C root value : ℕ) (lv next : Level V) (rest : List (Level V))
    (hv : value < C) (hw : wf C (lv :: next :: rest) root) :
    restrictRoot C root value (lv :: next :: rest) =
      .ok ((nodeAt lv root).ch value,
           next.modify ((nodeAt lv root).ch value) (pushRoot C ((nodeAt lv root).ad value)) :: rest) := by
  have h := nodeAt_lt_of_active (hw.2 value hv).1
  simp only [restrictRoot, if_pos h]; rfl

theorem restrictRoot_single (C root value : ℕ) (L : List (Level V)) (h : L.length ≤ 1) :
    restrictRoot C root value L = .error Err.indexError := by
  match L with
  | [] => rfl
  | [_] => rfl
  | _ :: _ :: _ => simp at h

theorem wf_restrictRoot (C root value : ℕ) (lv next : Level V) (rest : List (Level V))
    (hv : value < C) (hw : wf C (lv :: next :: rest) root) (a : V) :
    wf C (next.modify ((nodeAt lv root).ch value) (pushRoot C a) :: rest) ((nodeAt lv root).ch value) := by
  have hw' := hw.2 value hv
  have h := nodeAt_lt_of_active hw'.1
  simp only [wf, nodeAt_modify_self _ _ _ h]
  exact hw'

theorem eval_restrictRoot (C root value : ℕ) (lv next : Level V) (rest : List (Level V))
    (hv : value < C) (hw : wf C (lv :: next :: rest) root) (b : ℕ) (as : List ℕ) (hb : b < C) :
    evalFrom (next.modify ((nodeAt lv root).ch value) (pushRoot C ((nodeAt lv root).ad value)) :: rest)
        ((nodeAt lv root).ch value) (b :: as) =
      evalFrom (lv :: next :: rest) root (value :: b :: as) := by
  have h := nodeAt_lt_of_active (hw.2 value hv).1
  simp only [evalFrom, nodeAt_modify_self _ _ _ h]
  have e1 : (pushRoot C ((nodeAt lv root).ad value) (nodeAt next ((nodeAt lv root).ch value))).ad b =
      (nodeAt next ((nodeAt lv root).ch value)).ad b + (nodeAt lv root).ad value := by
    simp [pushRoot, Node.ad, List.getD_eq_getElem?_getD, hb]
  have e2 : (pushRoot C ((nodeAt lv root).ad value) (nodeAt next ((nodeAt lv root).ch value))).ch b =
      (nodeAt next ((nodeAt lv root).ch value)).ch b := rfl
  rw [e1, e2]; abel


/-! ### sum: every node created is active -/

theorem sumLevel_length (C : ℕ) (la lb : Level V) (tbl pairs : List Pair) :
    (sumLevel C la lb tbl pairs).2.length = pairs.length := by
  induction pairs generalizing tbl with
  | nil => simp [sumLevel]
  | cons q qs ih => simp [sumLevel, ih]

theorem sumLevel_active (C : ℕ) (la lb : Level V) (tbl pairs : List Pair) (k : ℕ) (hk : k < pairs.length) :
    (nodeAt (sumLevel C la lb tbl pairs).2 k).active = true := by
  induction pairs generalizing tbl k with
  | nil => simp at hk
  | cons q qs ih =>
    cases k with
    | zero => simp [sumLevel, nodeAt]
    | succ k =>
      have := ih (internAll tbl (reqs C la lb q)).1 k (by simpa using hk)
      simpa [sumLevel, nodeAt, List.getD_eq_getElem?_getD] using this

theorem wf_sumLevels (C : ℕ) (LA LB : List (Level V)) (pairs : List Pair) (k : ℕ) (hk : k < pairs.length) :
    wf C (sumLevels C LA LB pairs) k := by
  induction LA generalizing LB pairs k with
  | nil => simp [sumLevels, wf]
  | cons la ra ih =>
    cases LB with
    | nil => simp [sumLevels, wf]
    | cons lb rb =>
      simp only [sumLevels, wf]
      refine ⟨sumLevel_active C la lb [] pairs k hk, fun c hc => ih rb _ _ ?_⟩
      obtain ⟨_, hs⟩ := sumLevel_spec C la lb [] pairs
      have hp : pairs[k]? = some pairs[k] := List.getElem?_eq_getElem hk
      have := (hs k _ hp c hc).1
      by_contra hn
      rw [List.getElem?_eq_none (Nat.le_of_not_lt hn)] at this
      cases this

theorem length_sumLevels (C : ℕ) (LA LB : List (Level V)) (pairs : List Pair) (h : LA.length = LB.length) :
    (sumLevels C LA LB pairs).length = LA.length := by
  induction LA generalizing LB pairs with
  | nil => simp [sumLevels]
  | cons la ra ih =>
    cases LB with
    | nil => simp at h
    | cons lb rb => simp [sumLevels, ih rb _ (by simpa using h)]

/-! ### diagram-level statements -/

/-- the invariant all statements need: one level per unit, every node reachable from the root
(through candidates `< C`) is active -/
structure Diagram.WF (d : Diagram V) : Prop where
  len : d.levels.length = d.units.length
  reach : wf d.C d.levels d.root

/-- the denotation of a diagram: value of the path selected by `args` -/
def Diagram.eval (d : Diagram V) (args : List ℕ) : V := evalFrom d.levels d.root args

theorem call_eq (d : Diagram V) (args : List ℕ) :
    d.call args =
      if args.length ≠ d.units.length then .error Err.valueError
      else if ∃ a ∈ args, d.C ≤ a then .error Err.indexError
      else .ok (d.eval args) := by
  unfold Diagram.call Diagram.eval
  by_cases h1 : args.length = d.units.length
  · by_cases h2 : ∃ a ∈ args, d.C ≤ a
    · have : args.any (· ≥ d.C) = true := by simpa using h2
      simp [h1, this, h2]; rfl
    · have : args.any (· ≥ d.C) = false := by simpa using h2
      simp only [h1, bne_self_eq_false, this, ne_eq, not_true_eq_false, if_false, h2]
      rw [evalAcc_eq, zero_add]; rfl
  · simp [h1]; rfl

/-! ### restrict, diagram level -/

theorem restrict_notMem (d : Diagram V) (u c : ℕ) (hu : u ∉ d.units) :
    d.restrict u c = .error Err.keyError := by
  have hu' : d.units.contains u = false := by simpa using hu
  unfold Diagram.restrict; rw [hu']; rfl

theorem restrict_ge (d : Diagram V) (u c : ℕ) (hu : u ∈ d.units) (hc : d.C ≤ c) :
    d.restrict u c = .error Err.indexError := by
  have hu' : d.units.contains u = true := by simpa using hu
  unfold Diagram.restrict; rw [hu']
  simp only [Bool.not_true, Bool.false_eq_true, if_false, ge_iff_le, hc, if_true]; rfl

theorem restrict_first (d : Diagram V) (u c : ℕ) (hu : u ∈ d.units) (hc : c < d.C) (h0 : d.units.idxOf u = 0) :
    d.restrict u c =
      match restrictRoot d.C d.root c d.levels with
      | .ok (r, L) => .ok { d with units := d.units.eraseIdx 0, root := r, levels := L }
      | .error e => .error e := by
  have hu' : d.units.contains u = true := by simpa using hu
  unfold Diagram.restrict; rw [hu']
  simp only [Bool.not_true, Bool.false_eq_true, if_false, ge_iff_le, Nat.not_le.mpr hc, h0, beq_self_eq_true, if_true]
  cases restrictRoot d.C d.root c d.levels with
  | error e => rfl
  | ok p => rfl

theorem restrict_later (d : Diagram V) (u c : ℕ) (hu : u ∈ d.units) (hc : c < d.C) (h0 : d.units.idxOf u ≠ 0) :
    d.restrict u c =
      .ok { d with units := d.units.eraseIdx (d.units.idxOf u),
                   levels := restrictPos d.C (d.units.idxOf u - 1) c d.levels } := by
  have hu' : d.units.contains u = true := by simpa using hu
  unfold Diagram.restrict; rw [hu']
  simp only [Bool.not_true, Bool.false_eq_true, if_false, ge_iff_le, Nat.not_le.mpr hc, beq_iff_eq, h0]; rfl

theorem restrict_spec (d d' : Diagram V) (u c : ℕ) (hwf : d.WF) (h2 : 2 ≤ d.units.length)
    (h : d.restrict u c = .ok d') :
    u ∈ d.units ∧ c < d.C ∧ d'.WF ∧ d'.units = d.units.eraseIdx (d.units.idxOf u) ∧ d'.C = d.C ∧
    ∀ as, as.length + 1 = d.units.length → (∀ a ∈ as, a < d.C) →
      d'.eval as = d.eval (as.insertIdx (d.units.idxOf u) c) := by
  by_cases hu : u ∈ d.units
  swap
  · rw [restrict_notMem d u c hu] at h; cases h
  by_cases hc : c < d.C
  swap
  · rw [restrict_ge d u c hu (Nat.le_of_not_lt hc)] at h; cases h
  have hidx : d.units.idxOf u < d.units.length := List.idxOf_lt_length_iff.mpr hu
  obtain ⟨hlen, hreach⟩ := hwf
  refine ⟨hu, hc, ?_⟩
  by_cases h0 : d.units.idxOf u = 0
  · rw [restrict_first d u c hu hc h0] at h
    obtain ⟨units, C, diam, root, levels⟩ := d
    simp only at hlen hreach h2 hidx h0 hc h ⊢
    match levels, hlen, hreach, h with
    | lv :: next :: rest, hlen, hreach, h =>
      rw [restrictRoot_ok C root c lv next rest hc hreach] at h
      simp only [Except.ok.injEq] at h
      subst h
      rw [h0]
      refine ⟨⟨?_, ?_⟩, rfl, rfl, ?_⟩
      · simp only [List.length_cons, List.length_eraseIdx] at hlen ⊢; rw [if_pos (by omega)]; omega
      · exact wf_restrictRoot C root c lv next rest hc hreach _
      · intro as hl hC
        match as, hl, hC with
        | b :: as, _, hC =>
          simp only [Diagram.eval, List.insertIdx_zero]
          exact eval_restrictRoot C root c lv next rest hc hreach b as (hC b (by simp))
        | [], hl, _ => simp at hl; omega
    | [_], hlen, _, _ => simp at hlen; omega
    | [], hlen, _, _ => simp at hlen; omega
  · rw [restrict_later d u c hu hc h0] at h
    simp only [Except.ok.injEq] at h
    subst h
    have hk : d.units.idxOf u - 1 + 1 = d.units.idxOf u := by omega
    have hk' : d.units.idxOf u - 1 + 1 < d.levels.length := by omega
    refine ⟨⟨?_, ?_⟩, rfl, rfl, ?_⟩
    · have := length_restrictPos d.C (d.units.idxOf u - 1) c d.levels hk'
      simp only [List.length_eraseIdx, if_pos hidx]; omega
    · exact wf_restrictPos d.C _ c d.levels d.root hc hreach
    · intro as hl hC
      simp only [Diagram.eval]
      rw [eval_restrictPos d.C _ c d.levels d.root as hk' (by omega) hC hreach, hk]

theorem restrict_ok (d : Diagram V) (u c : ℕ) (hwf : d.WF) (h2 : 2 ≤ d.units.length)
    (hu : u ∈ d.units) (hc : c < d.C) : ∃ d', d.restrict u c = .ok d' := by
  by_cases h0 : d.units.idxOf u = 0
  · rw [restrict_first d u c hu hc h0]
    obtain ⟨hlen, hreach⟩ := hwf
    match hL : d.levels, hlen, hreach with
    | lv :: next :: rest, hlen, hreach =>
      rw [restrictRoot_ok d.C d.root c lv next rest hc hreach]
      exact ⟨_, rfl⟩
    | [_], hlen, _ => simp at hlen; omega
    | [], hlen, _ => simp at hlen; omega
  · rw [restrict_later d u c hu hc h0]; exact ⟨_, rfl⟩

/-- F3b: restricting the only variable of a one-variable diagram raises `IndexError` -/
theorem restrict_single (d : Diagram V) (u c : ℕ) (hlen : d.levels.length ≤ 1) (h1 : d.units.length = 1)
    (hu : u ∈ d.units) (hc : c < d.C) : d.restrict u c = .error Err.indexError := by
  have hidx : d.units.idxOf u < d.units.length := List.idxOf_lt_length_iff.mpr hu
  rw [restrict_first d u c hu hc (by omega), restrictRoot_single _ _ _ _ hlen]

/-- call-level form: both sides raise the same errors -/
theorem restrict_call (d d' : Diagram V) (u c : ℕ) (hwf : d.WF) (h2 : 2 ≤ d.units.length)
    (h : d.restrict u c = .ok d') (as : List ℕ) :
    d'.call as = d.call (as.insertIdx (d.units.idxOf u) c) := by
  obtain ⟨hu, hc, _, hunits, hC, hev⟩ := restrict_spec d d' u c hwf h2 h
  have hidx : d.units.idxOf u < d.units.length := List.idxOf_lt_length_iff.mpr hu
  rw [call_eq, call_eq, hunits, hC, List.length_eraseIdx, if_pos hidx]
  by_cases hl : as.length + 1 = d.units.length
  · have hl' : (as.insertIdx (d.units.idxOf u) c).length = d.units.length := by
      rw [List.length_insertIdx, if_pos (by omega)]; exact hl
    rw [if_neg (show ¬ as.length ≠ d.units.length - 1 by omega),
      if_neg (show ¬ (as.insertIdx (d.units.idxOf u) c).length ≠ d.units.length by omega)]
    have hex : (∃ a ∈ as.insertIdx (d.units.idxOf u) c, d.C ≤ a) ↔ ∃ a ∈ as, d.C ≤ a := by
      have hi : d.units.idxOf u ≤ as.length := by omega
      simp only [List.mem_insertIdx hi]
      constructor
      · rintro ⟨a, (rfl | ha), h⟩
        · omega
        · exact ⟨a, ha, h⟩
      · rintro ⟨a, ha, h⟩; exact ⟨a, Or.inr ha, h⟩
    by_cases hx : ∃ a ∈ as, d.C ≤ a
    · rw [if_pos hx, if_pos (hex.mpr hx)]
    · rw [if_neg hx, if_neg (mt hex.mp hx)]
      rw [hev as hl (fun a ha => Nat.lt_of_not_le (fun h => hx ⟨a, ha, h⟩))]
  · rw [if_pos (show as.length ≠ d.units.length - 1 by omega), if_pos]
    rw [List.length_insertIdx]; split <;> omega


/-! ### sum, diagram level -/

theorem sum_eq (a b : Diagram V) :
    a.sum b =
      if a.units ≠ b.units ∨ a.C ≠ b.C then .error Err.assertionError
      else .ok { units := a.units, C := a.C, diameter := a.diameter * b.diameter, root := 0,
                 levels := (sumLevels a.C a.levels b.levels [(a.root, b.root)]).map
                   (padLevel a.C · (a.diameter * b.diameter)) } := by
  unfold Diagram.sum
  by_cases h : a.units ≠ b.units ∨ a.C ≠ b.C
  · rw [if_pos h, if_pos (by simpa using h)]; rfl
  · rw [if_neg h, if_neg (by simpa using h)]; rfl

theorem sum_spec (a b s : Diagram V) (ha : a.WF) (hb : b.WF) (h : a.sum b = .ok s) :
    a.units = b.units ∧ a.C = b.C ∧ s.WF ∧ s.units = a.units ∧ s.C = a.C ∧
    ∀ as, (∀ x ∈ as, x < a.C) → s.eval as = a.eval as + b.eval as := by
  rw [sum_eq] at h
  by_cases hne : a.units ≠ b.units ∨ a.C ≠ b.C
  · rw [if_pos hne] at h; cases h
  rw [if_neg hne] at h
  simp only [Except.ok.injEq] at h
  subst h
  have hu : a.units = b.units := by by_contra hh; exact hne (Or.inl hh)
  have hC : a.C = b.C := by by_contra hh; exact hne (Or.inr hh)
  have hl : a.levels.length = b.levels.length := by rw [ha.len, hb.len, hu]
  refine ⟨hu, hC, ⟨?_, ?_⟩, rfl, rfl, ?_⟩
  · simp only [List.length_map]; rw [length_sumLevels _ _ _ _ hl, ha.len]
  · exact wf_padLevels _ _ _ _ (wf_sumLevels _ _ _ _ 0 (by simp))
  · intro as hC
    simp only [Diagram.eval]
    rw [eval_padLevels, eval_sumLevels a.C a.levels b.levels [(a.root, b.root)] 0 (a.root, b.root) as hl (by simp) hC]

theorem sum_call (a b s : Diagram V) (ha : a.WF) (hb : b.WF) (h : a.sum b = .ok s) (as : List ℕ) :
    s.call as = (do let x ← a.call as; let y ← b.call as; pure (x + y)) := by
  obtain ⟨hu, hC, _, hsu, hsC, hev⟩ := sum_spec a b s ha hb h
  rw [call_eq, call_eq, call_eq, hsu, hsC, ← hu, ← hC]
  by_cases h1 : as.length ≠ a.units.length
  · simp only [if_pos h1]; rfl
  · simp only [if_neg h1]
    by_cases h2 : ∃ x ∈ as, a.C ≤ x
    · simp only [if_pos h2]; rfl
    · simp only [if_neg h2]
      rw [hev as (fun x hx => Nat.lt_of_not_le (fun hh => h2 ⟨x, hx, hh⟩))]; rfl


/-! ### modelcount, diagram level -/
section MC2
variable [DecidableEq V]

theorem length_allArgs (C n : ℕ) : (allArgs C n).length = C ^ n := by
  induction n with
  | zero => simp [allArgs]
  | succ n ih =>
    simp only [allArgs, List.length_flatMap, List.length_map, ih, List.map_const', List.length_range,
      List.sum_replicate_nat, pow_succ, Nat.mul_comm]

theorem sum_map_indicator {α : Type} [DecidableEq α] (dom : List α) (y : α) :
    (dom.map (fun e => if y = e then 1 else 0)).sum = dom.count y := by
  induction dom with
  | nil => simp
  | cons a dom ih =>
    simp only [List.map_cons, List.sum_cons, ih, List.count_cons, beq_iff_eq]
    by_cases h : y = a
    · simp [h]; omega
    · simp [h, Ne.symm h]

/-- the fibres of `f` over a duplicate-free complete list partition `l` -/
theorem sum_countP_fibres {α β : Type} [DecidableEq α] (dom : List α) (hnd : dom.Nodup) (hall : ∀ v, v ∈ dom)
    (f : β → α) (l : List β) : (dom.map (fun e => l.countP (fun x => f x = e))).sum = l.length := by
  induction l with
  | nil => simp
  | cons x xs ih =>
    have : (fun e => (x :: xs).countP (fun x => f x = e)) =
        fun e => xs.countP (fun x => decide (f x = e)) + (if f x = e then 1 else 0) := by
      funext e; rw [List.countP_cons]; simp
    rw [this, List.sum_map_add, ih, sum_map_indicator, List.count_eq_one_of_mem hnd (hall _)]
    simp

theorem modelcount_eq (d : Diagram V) (hw : d.WF) (sub? : V → V → Option V) (valid : V → Prop)
    (H : ∀ e a r, valid e → (sub? e a = some r ↔ a + r = e))
    (Hv : ∀ e a r, valid e → a + r = e → valid r)
    (vals : List V) (hvals : ∀ e ∈ vals, valid e) :
    d.modelcount sub? vals =
      vals.map (fun e => (countSpec d.C d.levels d.root e : Int)) ++
        [(2 : Int) ^ d.units.length - (vals.map (fun e => (countSpec d.C d.levels d.root e : Int))).sum] := by
  have : vals.map (fun e => (mc d.C sub? d.levels d.root e : Int)) =
      vals.map (fun e => (countSpec d.C d.levels d.root e : Int)) := by
    apply List.map_congr_left
    intro e he
    rw [mc_eq_countSpec d.C sub? valid H Hv d.levels d.root e (hvals e he) hw.reach]
  unfold Diagram.modelcount
  simp only [this]

/-- with binary candidates and a complete duplicate-free value list `vals ++ [bad]`, the last
entry `2^n − Σ` is the number of assignments evaluating to `bad` -/
theorem modelcount_complete (d : Diagram V) (hw : d.WF) (sub? : V → V → Option V) (valid : V → Prop)
    (H : ∀ e a r, valid e → (sub? e a = some r ↔ a + r = e))
    (Hv : ∀ e a r, valid e → a + r = e → valid r)
    (vals : List V) (hvals : ∀ e ∈ vals, valid e) (bad : V)
    (hnd : (vals ++ [bad]).Nodup) (hall : ∀ v, v ∈ vals ++ [bad]) (hC : d.C = 2) :
    d.modelcount sub? vals = (vals ++ [bad]).map (fun e => (countSpec 2 d.levels d.root e : Int)) := by
  rw [modelcount_eq d hw sub? valid H Hv vals hvals, hC]
  have hs := sum_countP_fibres (vals ++ [bad]) hnd hall (fun as => evalFrom d.levels d.root as)
    (allArgs 2 d.levels.length)
  rw [length_allArgs] at hs
  simp only [List.map_append, List.map_cons, List.map_nil, List.sum_append, List.sum_cons, List.sum_nil,
    Nat.add_zero] at hs
  simp only [List.map_append, List.map_cons, List.map_nil, List.append_cancel_left_eq, List.cons.injEq, and_true]
  have h1 : ((vals.map (fun e => (countSpec 2 d.levels d.root e : Int))).sum) =
      (((vals.map (fun e => countSpec 2 d.levels d.root e)).sum : ℕ) : Int) := by
    clear hs hvals hnd hall
    induction vals with
    | nil => simp
    | cons a t ih => simp [ih]
  rw [h1]
  unfold countSpec
  rw [← hw.len, show (2 : Int) ^ d.levels.length = ((2 ^ d.levels.length : ℕ) : Int) by push_cast; rfl, ← hs]
  push_cast; ring
end MC2


/-! ### decidability of the invariants (so that concrete instances can be checked by `decide`) -/

instance wf.dec (C : ℕ) : (L : List (Level V)) → (j : ℕ) → Decidable (wf C L j)
  | [], _ => isTrue trivial
  | lv :: rest, j =>
    have : ∀ c, Decidable (wf C rest ((nodeAt lv j).ch c)) := fun _ => wf.dec C rest _
    (inferInstance : Decidable ((nodeAt lv j).active = true ∧ ∀ c, c < C → wf C rest ((nodeAt lv j).ch c)))

instance (d : Diagram V) : Decidable d.WF :=
  decidable_of_iff (d.levels.length = d.units.length ∧ wf d.C d.levels d.root)
    ⟨fun h => ⟨h.1, h.2⟩, fun h => ⟨h.1, h.2⟩⟩


/-! ### constructors: `chain`, `tree` -/

/-- all edge values of all nodes are zero -/
def ZeroAd (L : List (Level V)) : Prop := ∀ lv ∈ L, ∀ j c, (nodeAt lv j).ad c = 0

theorem eval_zeroAd {L : List (Level V)} (h : ZeroAd L) (j : ℕ) (as : List ℕ) : evalFrom L j as = 0 := by
  induction L generalizing j as with
  | nil => simp [evalFrom]
  | cons lv L ih =>
    cases as with
    | nil => simp [evalFrom]
    | cons a as =>
      simp only [evalFrom]
      rw [h lv (by simp), ih (fun lv' h' => h lv' (by simp [h'])), add_zero]

theorem liveZero_ch (C c : ℕ) : (liveZero C : Node V).ch c = 0 := by
  simp [liveZero, Node.ch, List.getD_eq_getElem?_getD, List.getElem?_replicate]; split <;> rfl

theorem liveZero_ad (C c : ℕ) : (liveZero C : Node V).ad c = 0 := by
  simp [liveZero, Node.ad, List.getD_eq_getElem?_getD, List.getElem?_replicate]; split <;> rfl

theorem default_ad (c : ℕ) : (⟨false, [], []⟩ : Node V).ad c = 0 := rfl

/-- a level all of whose nodes carry zero edge values -/
theorem zeroAd_of_forall {lv : Level V} (h : ∀ nd ∈ lv, ∀ c, nd.ad c = 0) (j c : ℕ) : (nodeAt lv j).ad c = 0 := by
  by_cases hj : j < lv.length
  · rw [nodeAt_eq_getElem hj]; exact h _ (List.getElem_mem hj) c
  · simp [nodeAt, List.getD_eq_getElem?_getD, List.getElem?_eq_none (Nat.le_of_not_lt hj)]; rfl

theorem chain_wf (units : List ℕ) (C : ℕ) : (chain units C : Diagram V).WF := by
  refine ⟨by simp [chain], ?_⟩
  simp only [chain]
  induction units with
  | nil => trivial
  | cons u us ih =>
    simp only [List.map_cons, wf]
    refine ⟨rfl, fun c _ => ?_⟩
    have : (nodeAt [liveZero C] 0 : Node V).ch c = 0 := liveZero_ch C c
    rw [this]; exact ih

theorem eval_chain (units : List ℕ) (C : ℕ) (as : List ℕ) : (chain units C : Diagram V).eval as = 0 := by
  apply eval_zeroAd
  intro lv hlv j c
  simp only [chain, List.mem_map] at hlv
  obtain ⟨_, _, rfl⟩ := hlv
  apply zeroAd_of_forall
  intro nd hnd c
  simp only [List.mem_singleton] at hnd
  subst hnd; exact liveZero_ad C c


/-- the level function of `construct_tree` -/
def treeLevel (C n : ℕ) (i : ℕ) : Level V :=
  if i + 1 < n then
    (List.range (C ^ (n - 1))).map (fun j =>
      if j < C ^ i then
        (Node.mk true ((List.range C).map (fun c => 2 * j + c)) (List.replicate C 0) : Node V)
      else blank C)
  else List.replicate (C ^ (n - 1)) (liveZero C)

theorem tree_eq (units : List ℕ) (C : ℕ) :
    (tree units C : Except Err (Diagram V)) =
      if units.length = 0 then .error Err.typeError
      else if C ≠ 2 ∧ 2 ≤ units.length then .error Err.valueError
      else .ok { units := units, C := C, diameter := C ^ (units.length - 1), root := 0,
                 levels := (List.range units.length).map (treeLevel C units.length) } := by
  unfold tree
  by_cases h0 : units.length = 0
  · simp [h0]; rfl
  · by_cases h1 : C ≠ 2 ∧ 2 ≤ units.length
    · rw [if_neg h0, if_pos h1, if_neg (by simpa using h0), if_pos (by simpa using h1)]; rfl
    · rw [if_neg h0, if_neg h1, if_neg (by simpa using h0), if_neg (by simpa using h1)]; rfl

theorem replicate_ad (C c : ℕ) (b : Bool) (ch : List ℕ) : (Node.mk b ch (List.replicate C (0 : V))).ad c = 0 := by
  simp [Node.ad, List.getD_eq_getElem?_getD, List.getElem?_replicate]; split <;> rfl

theorem treeLevel_zeroAd (C n i j c : ℕ) : (nodeAt (treeLevel (V := V) C n i) j).ad c = 0 := by
  apply zeroAd_of_forall
  intro nd hnd c
  unfold treeLevel at hnd
  split at hnd
  · simp only [List.mem_map, List.mem_range] at hnd
    obtain ⟨j, _, rfl⟩ := hnd
    split
    · exact replicate_ad C c _ _
    · exact blank_ad C c
  · rw [List.mem_replicate] at hnd
    rw [hnd.2]; exact liveZero_ad C c

theorem wf_treeLevels (C n : ℕ) (hC : C = 2 ∨ n = 1) (m i j : ℕ) (him : i + m = n) (hj : j < C ^ i) :
    wf C ((List.range' i m).map (treeLevel (V := V) C n)) j := by
  induction m generalizing i j with
  | zero => trivial
  | succ m ih =>
    simp only [List.range'_succ, List.map_cons, wf]
    by_cases hi : i + 1 < n
    · have hC2 : C = 2 := by rcases hC with h | h <;> omega
      subst hC2
      have hjd : j < 2 ^ (n - 1) := lt_of_lt_of_le hj (Nat.pow_le_pow_right (by omega) (by omega))
      have hnode : nodeAt (treeLevel (V := V) 2 n i) j =
          Node.mk true ((List.range 2).map (fun c => 2 * j + c)) (List.replicate 2 0) := by
        unfold treeLevel
        rw [if_pos hi, nodeAt_eq_getElem (by simpa using hjd)]
        simp [hj]
      rw [hnode]
      refine ⟨rfl, fun c hc => ih (i + 1) _ (by omega) ?_⟩
      have : (Node.mk true ((List.range 2).map (fun c => 2 * j + c)) (List.replicate 2 (0 : V))).ch c = 2 * j + c := by
        simp [Node.ch, List.getD_eq_getElem?_getD, hc]
      rw [this, pow_succ]; omega
    · have hm : m = 0 := by omega
      subst hm
      have hin : i = n - 1 := by omega
      have hnode : nodeAt (treeLevel (V := V) C n i) j = liveZero C := by
        unfold treeLevel
        rw [if_neg hi, nodeAt_eq_getElem (by simpa [hin] using hj)]
        simp
      rw [hnode]
      exact ⟨rfl, fun c _ => trivial⟩

theorem tree_spec (units : List ℕ) (C : ℕ) (d : Diagram V) (h : tree units C = .ok d) :
    d.WF ∧ d.units = units ∧ d.C = C ∧ (C = 2 ∨ units.length = 1) ∧ ∀ as, d.eval as = 0 := by
  rw [tree_eq] at h
  by_cases h0 : units.length = 0
  · rw [if_pos h0] at h; cases h
  by_cases h1 : C ≠ 2 ∧ 2 ≤ units.length
  · rw [if_neg h0, if_pos h1] at h; cases h
  rw [if_neg h0, if_neg h1] at h
  simp only [Except.ok.injEq] at h
  subst h
  have hC : C = 2 ∨ units.length = 1 := by
    by_cases hc : C = 2
    · exact Or.inl hc
    · right; have := not_and.mp h1 hc; omega
  refine ⟨⟨by simp, ?_⟩, rfl, rfl, hC, ?_⟩
  · simp only [List.range_eq_range']
    exact wf_treeLevels C units.length hC units.length 0 0 (by omega) (by simp)
  · intro as
    apply eval_zeroAd
    intro lv hlv j c
    simp only [List.mem_map] at hlv
    obtain ⟨i, _, rfl⟩ := hlv
    exact treeLevel_zeroAd C units.length i j c

theorem tree_ok (units : List ℕ) (C : ℕ) (h0 : units ≠ []) (hC : C = 2 ∨ units.length = 1) :
    ∃ d : Diagram V, tree units C = .ok d := by
  rw [tree_eq, if_neg (by simpa using h0), if_neg (by omega)]
  exact ⟨_, rfl⟩


/-! ### `update` -/

/-- same activity flags, children and adder widths -/
def NodeShape (a b : Node V) : Prop := a.active = b.active ∧ a.child = b.child ∧ a.adder.length = b.adder.length

/-- level lists with the same graph (only edge values may differ) -/
def SameShape (L L' : List (Level V)) : Prop := List.Forall₂ (List.Forall₂ NodeShape) L L'

theorem forall₂_refl' {α} {R : α → α → Prop} (hr : ∀ a, R a a) (l : List α) : List.Forall₂ R l l := by
  induction l with
  | nil => exact .nil
  | cons a l ih => exact .cons (hr a) ih

theorem forall₂_trans' {α} {R : α → α → Prop} (ht : ∀ a b c, R a b → R b c → R a c) {x y z : List α}
    (h1 : List.Forall₂ R x y) (h2 : List.Forall₂ R y z) : List.Forall₂ R x z := by
  induction h1 generalizing z with
  | nil => cases h2; exact .nil
  | cons h _ ih => cases h2 with
    | cons h' t => exact .cons (ht _ _ _ h h') (ih t)

theorem forall₂_modify {α} {R : α → α → Prop} (hr : ∀ a, R a a) (f : α → α) (hf : ∀ a, R a (f a)) (l : List α)
    (i : ℕ) : List.Forall₂ R l (l.modify i f) := by
  induction l generalizing i with
  | nil => simp
  | cons a l ih =>
    cases i with
    | zero => simp only [List.modify_zero_cons]; exact .cons (hf a) (forall₂_refl' hr l)
    | succ i => simp only [List.modify_succ_cons]; exact .cons (hr a) (ih i)

theorem NodeShape.refl (a : Node V) : NodeShape a a := ⟨rfl, rfl, rfl⟩
theorem NodeShape.trans (a b c : Node V) (h1 : NodeShape a b) (h2 : NodeShape b c) : NodeShape a c :=
  ⟨h1.1.trans h2.1, h1.2.1.trans h2.2.1, h1.2.2.trans h2.2.2⟩

theorem SameShape.refl (L : List (Level V)) : SameShape L L := forall₂_refl' (forall₂_refl' NodeShape.refl) L
theorem SameShape.trans {L1 L2 L3 : List (Level V)} (h1 : SameShape L1 L2) (h2 : SameShape L2 L3) :
    SameShape L1 L3 :=
  forall₂_trans' (R := List.Forall₂ NodeShape) (fun _ _ _ h h' => forall₂_trans' NodeShape.trans h h') h1 h2

theorem nodeShape_nodeAt {la lb : Level V} (h : List.Forall₂ NodeShape la lb) (j : ℕ) :
    NodeShape (nodeAt la j) (nodeAt lb j) := by
  induction h generalizing j with
  | nil => exact NodeShape.refl _
  | cons h _ ih =>
    cases j with
    | zero => exact h
    | succ j => exact ih j

theorem SameShape.wf {L L' : List (Level V)} (h : SameShape L L') (C j : ℕ) (hw : wf C L j) : wf C L' j := by
  induction h generalizing j with
  | nil => trivial
  | @cons la lb _ _ h _ ih =>
    have hn := nodeShape_nodeAt h j
    refine ⟨hn.1 ▸ hw.1, fun c hc => ?_⟩
    have : (nodeAt la j).ch c = (nodeAt lb j).ch c := by unfold Node.ch; rw [hn.2.1]
    rw [← this]; exact ih _ (hw.2 c hc)

theorem SameShape.length {L L' : List (Level V)} (h : SameShape L L') : L.length = L'.length :=
  List.Forall₂.length_eq h

theorem SameShape.getD {L L' : List (Level V)} (h : SameShape L L') (i : ℕ) :
    List.Forall₂ NodeShape (L.getD i []) (L'.getD i []) := by
  induction h generalizing i with
  | nil => exact .nil
  | cons h _ ih =>
    cases i with
    | zero => exact h
    | succ i => exact ih i

/-- one step of `update` -/
def upd1 (v : V) (inc : Bool) (L : List (Level V)) (e : ℕ × ℕ × ℕ) : List (Level V) :=
  L.modify e.1 (fun lv => lv.modify e.2.1 (fun nd =>
    { nd with adder := nd.adder.modify e.2.2 (fun old => if inc then old + v else v) }))

theorem update_eq (d : Diagram V) (loc : List (ℕ × ℕ × ℕ)) (v : V) (inc : Bool) :
    d.update loc v inc = { d with levels := loc.foldl (upd1 v inc) d.levels } := rfl

theorem upd1_shape (v : V) (inc : Bool) (L : List (Level V)) (e : ℕ × ℕ × ℕ) : SameShape L (upd1 v inc L e) := by
  unfold upd1
  apply forall₂_modify (forall₂_refl' NodeShape.refl)
  intro lv
  apply forall₂_modify NodeShape.refl
  intro nd
  exact ⟨rfl, rfl, by simp⟩

theorem foldl_upd1_shape (v : V) (inc : Bool) (loc : List (ℕ × ℕ × ℕ)) (L : List (Level V)) :
    SameShape L (loc.foldl (upd1 v inc) L) := by
  induction loc generalizing L with
  | nil => exact SameShape.refl L
  | cons e loc ih => exact (upd1_shape v inc L e).trans (ih _)

theorem update_wf (d : Diagram V) (loc : List (ℕ × ℕ × ℕ)) (v : V) (inc : Bool) (h : d.WF) :
    (d.update loc v inc).WF := by
  have hs := foldl_upd1_shape v inc loc d.levels
  exact ⟨hs.length.symm.trans h.len, hs.wf _ _ h.reach⟩

/-- the value carried by edge `c` of node `j` of level `i` -/
def edge (L : List (Level V)) (i j c : ℕ) : V := (nodeAt (L.getD i []) j).ad c

/-- the edge exists in the arrays -/
def inRange (L : List (Level V)) (e : ℕ × ℕ × ℕ) : Prop :=
  e.1 < L.length ∧ e.2.1 < (L.getD e.1 []).length ∧ e.2.2 < (nodeAt (L.getD e.1 []) e.2.1).adder.length

instance (L : List (Level V)) (e : ℕ × ℕ × ℕ) : Decidable (inRange L e) := by
  unfold inRange; infer_instance

theorem SameShape.inRange {L L' : List (Level V)} (h : SameShape L L') (e : ℕ × ℕ × ℕ) (hr : inRange L e) :
    inRange L' e := by
  obtain ⟨h1, h2, h3⟩ := hr
  have hl := h.getD e.1
  refine ⟨h.length ▸ h1, hl.length_eq ▸ h2, ?_⟩
  rw [← (nodeShape_nodeAt hl e.2.1).2.2]; exact h3

theorem getD_modify {α} (l : List α) (i i' : ℕ) (f : α → α) (dflt : α) :
    (l.modify i f).getD i' dflt = if i = i' ∧ i < l.length then f (l.getD i dflt) else l.getD i' dflt := by
  simp only [List.getD_eq_getElem?_getD, List.getElem?_modify]
  by_cases h : i = i'
  · subst h
    by_cases h2 : i < l.length
    · simp [h2]
    · simp [h2, List.getElem?_eq_none (Nat.le_of_not_lt h2)]
  · simp [h]

theorem edge_upd1 (v : V) (inc : Bool) (L : List (Level V)) (e : ℕ × ℕ × ℕ) (hr : inRange L e) (i j c : ℕ) :
    edge (upd1 v inc L e) i j c =
      if (i, j, c) = e then (if inc then edge L i j c + v else v) else edge L i j c := by
  obtain ⟨ei, ej, ec⟩ := e
  obtain ⟨h1, h2, h3⟩ := hr
  simp only at h1 h2 h3
  unfold edge upd1 nodeAt Node.ad
  simp only [getD_modify]
  by_cases hi : ei = i
  · subst hi
    simp only [h1, and_self, if_true, getD_modify]
    by_cases hj : ej = j
    · subst hj
      simp only [h2, and_self, if_true, getD_modify]
      by_cases hc : ec = c
      · subst hc
        have h3' : ec < ((L.getD ei []).getD ej ⟨false, [], []⟩).adder.length := h3
        simp only [h3', and_self, if_true]
      · have : ¬ ((ei, ej, c) = (ei, ej, ec)) := by simp; exact fun h => hc h.symm
        simp [hc, this]
    · have : ¬ ((ei, j, c) = (ei, ej, ec)) := by simp; exact fun h _ => hj h.symm
      simp [hj, this]
  · have : ¬ ((i, j, c) = (ei, ej, ec)) := by simp; exact fun h => absurd h.symm hi
    simp [hi, this]

theorem edge_foldl_upd1 (v : V) (inc : Bool) (loc : List (ℕ × ℕ × ℕ)) (L : List (Level V))
    (hnd : loc.Nodup) (hr : ∀ e ∈ loc, inRange L e) (i j c : ℕ) :
    edge (loc.foldl (upd1 v inc) L) i j c =
      if (i, j, c) ∈ loc then (if inc then edge L i j c + v else v) else edge L i j c := by
  induction loc generalizing L with
  | nil => simp
  | cons e loc ih =>
    rw [List.nodup_cons] at hnd
    have hs := upd1_shape v inc L e
    rw [List.foldl_cons, ih _ hnd.2 (fun e' he' => hs.inRange e' (hr e' (by simp [he']))),
      edge_upd1 v inc L e (hr e (by simp))]
    by_cases he : (i, j, c) = e
    · subst he
      simp [hnd.1]
    · simp [he]


/-! ### `concatenate` -/

def diamOf (els : List (Diagram V)) : ℕ := (els.map (·.diameter)).foldl max 0

theorem concatenate_eq (e0 : Diagram V) (rest : List (Diagram V)) :
    concatenate (e0 :: rest) =
      if ∃ e ∈ e0 :: rest, e.C ≠ e0.C then .error Err.assertionError
      else if e0.C ≠ 2 then .error Err.valueError
      else if ∃ e ∈ e0 :: rest, e.units = [] then .error Err.other
      else .ok { units := (e0 :: rest).flatMap (·.units), C := 2, diameter := diamOf (e0 :: rest), root := e0.root,
                 levels := concatenate.go (diamOf (e0 :: rest)) (e0 :: rest) } := by
  unfold concatenate
  dsimp only
  by_cases h1 : ∃ e ∈ e0 :: rest, e.C ≠ e0.C
  · rw [if_pos h1, if_pos (by simpa using h1)]; rfl
  rw [if_neg h1, if_neg (by simpa using h1)]
  by_cases h2 : e0.C ≠ 2
  · rw [if_pos h2, if_pos (by simpa using h2)]; rfl
  rw [if_neg h2, if_neg (by simpa using h2)]
  by_cases h3 : ∃ e ∈ e0 :: rest, e.units = []
  · rw [if_pos h3, if_pos (by simpa using h3)]; rfl
  rw [if_neg h3, if_neg (by simpa using h3)]; rfl


/-- what `concatenate` does to the last level of an element: active nodes point to the next root -/
def redirect (r : ℕ) (l : Level V) : Level V :=
  l.map (fun nd => if nd.active = true then { nd with child := List.replicate 2 r } else nd)

theorem nodeAt_map (f : Node V → Node V) (hf : f ⟨false, [], []⟩ = ⟨false, [], []⟩) (l : Level V) (j : ℕ) :
    nodeAt (l.map f) j = f (nodeAt l j) := by
  by_cases hj : j < l.length
  · simp [nodeAt, List.getD_eq_getElem?_getD, hj]
  · simp [nodeAt, List.getD_eq_getElem?_getD, List.getElem?_eq_none (Nat.le_of_not_lt hj), hf]

theorem nodeAt_redirect (r : ℕ) (l : Level V) (j : ℕ) (h : (nodeAt l j).active = true) :
    nodeAt (redirect r l) j = { nodeAt l j with child := List.replicate 2 r } := by
  unfold redirect
  rw [nodeAt_map _ (by simp)]
  simp [h]

theorem go_cons_cons (diam : ℕ) (e e' : Diagram V) (rest : List (Diagram V)) :
    concatenate.go diam (e :: e' :: rest) =
      (e.levels.map (padLevel 2 · diam)).modify ((e.levels.map (padLevel 2 · diam)).length - 1) (redirect e'.root) ++
        concatenate.go diam (e' :: rest) := by
  rw [concatenate.go.eq_3]; rfl

theorem eval_glue (r : ℕ) (L : List (Level V)) (hne : L ≠ []) (M : List (Level V)) (j : ℕ) (as bs : List ℕ)
    (hlen : as.length = L.length) (hC : ∀ a ∈ as, a < 2) (hw : wf 2 L j) :
    evalFrom (L.modify (L.length - 1) (redirect r) ++ M) j (as ++ bs) = evalFrom L j as + evalFrom M r bs := by
  induction L generalizing j as with
  | nil => exact absurd rfl hne
  | cons lv L' ih =>
    match as, hlen with
    | a :: as', hlen =>
      have ha : a < 2 := hC a (by simp)
      cases L' with
      | nil =>
        have has : as' = [] := by simpa using hlen
        subst has
        simp only [List.length_cons, List.length_nil, Nat.zero_add, Nat.sub_self, List.modify_zero_cons,
          List.cons_append, List.nil_append, evalFrom, nodeAt_redirect r lv j hw.1]
        have : (Node.mk (nodeAt lv j).active (List.replicate 2 r) (nodeAt lv j).adder).ch a = r := by
          have : a = 0 ∨ a = 1 := by omega
          rcases this with rfl | rfl <;> rfl
        rw [this, add_zero]; rfl
      | cons lv2 L'' =>
        have : (lv :: lv2 :: L'').length - 1 = ((lv2 :: L'').length - 1) + 1 := by simp
        rw [this, List.modify_succ_cons]
        simp only [List.cons_append, evalFrom]
        rw [ih (by simp) _ as' (by simpa using hlen) (fun x hx => hC x (by simp [hx])) (hw.2 a ha), add_assoc]

theorem wf_glue (r : ℕ) (L : List (Level V)) (hne : L ≠ []) (M : List (Level V)) (j : ℕ)
    (hw : wf 2 L j) (hM : wf 2 M r) : wf 2 (L.modify (L.length - 1) (redirect r) ++ M) j := by
  induction L generalizing j with
  | nil => exact absurd rfl hne
  | cons lv L' ih =>
    cases L' with
    | nil =>
      simp only [List.length_cons, List.length_nil, Nat.zero_add, Nat.sub_self, List.modify_zero_cons,
        List.cons_append, List.nil_append, wf, nodeAt_redirect r lv j hw.1]
      refine ⟨hw.1, fun c hc => ?_⟩
      have : (Node.mk (nodeAt lv j).active (List.replicate 2 r) (nodeAt lv j).adder).ch c = r := by
        have : c = 0 ∨ c = 1 := by omega
        rcases this with rfl | rfl <;> rfl
      rw [this]; exact hM
    | cons lv2 L'' =>
      have : (lv :: lv2 :: L'').length - 1 = ((lv2 :: L'').length - 1) + 1 := by simp
      rw [this, List.modify_succ_cons]
      simp only [List.cons_append, wf]
      exact ⟨hw.1, fun c hc => ih (by simp) _ (hw.2 c hc)⟩

/-- hypotheses on the elements of a concatenation -/
def ConcOK (e : Diagram V) : Prop := e.WF ∧ e.C = 2 ∧ e.units ≠ []

theorem ConcOK.levels_ne {e : Diagram V} (h : ConcOK e) (diam : ℕ) : e.levels.map (padLevel 2 · diam) ≠ [] := by
  intro hh
  have := congrArg List.length hh
  simp only [List.length_map, List.length_nil, h.1.len] at this
  exact h.2.2 (List.length_eq_zero_iff.mp this)

theorem wf_go (diam : ℕ) (e : Diagram V) (rest : List (Diagram V)) (h : ∀ x ∈ e :: rest, ConcOK x) :
    wf 2 (concatenate.go diam (e :: rest)) e.root ∧
    (concatenate.go diam (e :: rest)).length = ((e :: rest).flatMap (·.units)).length := by
  induction rest generalizing e with
  | nil =>
    have he := h e (by simp)
    rw [concatenate.go.eq_2]
    exact ⟨wf_padLevels 2 diam _ _ (he.2.1 ▸ he.1.reach), by simp [he.1.len]⟩
  | cons e' rest ih =>
    have he := h e (by simp)
    obtain ⟨i1, i2⟩ := ih e' (fun x hx => h x (by simp [hx]))
    rw [go_cons_cons]
    refine ⟨wf_glue _ _ (he.levels_ne diam) _ _ (wf_padLevels 2 diam _ _ (he.2.1 ▸ he.1.reach)) i1, ?_⟩
    rw [List.length_append, i2]
    simp [he.1.len]

theorem eval_go (diam : ℕ) (e : Diagram V) (rest : List (Diagram V)) (h : ∀ x ∈ e :: rest, ConcOK x)
    (ass : List (List ℕ))
    (hF : List.Forall₂ (fun (x : Diagram V) as => as.length = x.units.length ∧ ∀ a ∈ as, a < 2) (e :: rest) ass) :
    evalFrom (concatenate.go diam (e :: rest)) e.root ass.flatten =
      (List.zipWith (fun (x : Diagram V) as => x.eval as) (e :: rest) ass).sum := by
  induction rest generalizing e ass with
  | nil =>
    cases hF with
    | cons h1 t =>
      cases t
      rw [concatenate.go.eq_2]
      simp [eval_padLevels, Diagram.eval]
  | cons e' rest ih =>
    have he := h e (by simp)
    cases hF with
    | @cons _ as _ ass' h1 t =>
      rw [go_cons_cons, List.flatten_cons,
        eval_glue _ _ (he.levels_ne diam) _ _ as _ (by simp [h1.1, he.1.len]) h1.2
          (wf_padLevels 2 diam _ _ (he.2.1 ▸ he.1.reach)),
        ih e' (fun x hx => h x (by simp [hx])) ass' t, eval_padLevels]
      simp [Diagram.eval]

theorem concat_spec (els : List (Diagram V)) (d : Diagram V) (h : concatenate els = .ok d)
    (hwf : ∀ e ∈ els, e.WF) :
    d.WF ∧ d.units = els.flatMap (·.units) ∧ d.C = 2 ∧ (∀ e ∈ els, e.C = 2 ∧ e.units ≠ []) ∧
    ∀ ass : List (List ℕ),
      List.Forall₂ (fun (x : Diagram V) as => as.length = x.units.length ∧ ∀ a ∈ as, a < 2) els ass →
      d.eval ass.flatten = (List.zipWith (fun (x : Diagram V) as => x.eval as) els ass).sum := by
  cases els with
  | nil => cases h
  | cons e0 rest =>
    rw [concatenate_eq] at h
    by_cases h1 : ∃ e ∈ e0 :: rest, e.C ≠ e0.C
    · rw [if_pos h1] at h; cases h
    rw [if_neg h1] at h
    by_cases h2 : e0.C ≠ 2
    · rw [if_pos h2] at h; cases h
    rw [if_neg h2] at h
    by_cases h3 : ∃ e ∈ e0 :: rest, e.units = []
    · rw [if_pos h3] at h; cases h
    rw [if_neg h3] at h
    simp only [Except.ok.injEq] at h
    subst h
    have hC : ∀ e ∈ e0 :: rest, e.C = 2 ∧ e.units ≠ [] := by
      intro e he
      refine ⟨?_, fun hh => h3 ⟨e, he, hh⟩⟩
      have : e.C = e0.C := by by_contra hh; exact h1 ⟨e, he, hh⟩
      rw [this]; exact not_not.mp h2
    have hok : ∀ x ∈ e0 :: rest, ConcOK x := fun x hx => ⟨hwf x hx, hC x hx⟩
    obtain ⟨w1, w2⟩ := wf_go (diamOf (e0 :: rest)) e0 rest hok
    exact ⟨⟨w2, w1⟩, rfl, rfl, hC, fun ass hF => eval_go _ e0 rest hok ass hF⟩



/-! ### `stack` -/

/-- the arrays are rectangular: every level has `diameter` nodes, every node `C` child slots -/
def Diagram.Rect (d : Diagram V) : Prop :=
  1 ≤ d.diameter ∧ ∀ lv ∈ d.levels, lv.length = d.diameter ∧ ∀ nd ∈ lv, nd.child.length = d.C

def offsetOf (els : List (Diagram V)) (i : ℕ) : ℕ := ((els.take i).map (·.diameter)).sum
def offsetsOf (els : List (Diagram V)) : List ℕ := (List.range els.length).map (offsetOf els)
def rootsOf (els : List (Diagram V)) : List ℕ := (els.zip (offsetsOf els)).map (fun eo => eo.1.root + eo.2)
def shiftNode (o : ℕ) (nd : Node V) : Node V := { nd with child := nd.child.map (· + o) }
def bodyLevel (els : List (Diagram V)) (i : ℕ) : Level V :=
  (els.zip (offsetsOf els)).flatMap (fun eo => (eo.1.levels.getD i []).map (shiftNode eo.2))
def hdrLevel (k width : ℕ) (last : ℕ → ℕ → ℕ) (i : ℕ) : Level V :=
  (List.range width).map (fun j =>
    if j < 2 ^ i then
      ({ active := true
         child := (List.range 2).map (fun c => if i + 1 < k then 2 * j + c else last j c)
         adder := List.replicate 2 0 } : Node V)
    else blank 2)

theorem stack_eq (factors : List ℕ) (e0 : Diagram V) (rest : List (Diagram V)) :
    stack factors (e0 :: rest) =
      if e0.C ≠ 2 then .error Err.valueError
      else if (e0 :: rest).length ≠ 2 ^ factors.length then .error Err.valueError
      else if factors.length = 0 then .error Err.typeError
      else .ok { units := factors ++ e0.units, C := 2, diameter := ((e0 :: rest).map (·.diameter)).sum, root := 0,
                 levels := (List.range factors.length).map
                     (hdrLevel factors.length ((e0 :: rest).map (·.diameter)).sum
                       (fun j c => (rootsOf (e0 :: rest)).getD (2 * j + c) 0)) ++
                   (List.range e0.levels.length).map (bodyLevel (e0 :: rest)) } := by
  unfold stack
  dsimp only
  by_cases h1 : e0.C ≠ 2
  · rw [if_pos h1, if_pos (by simpa using h1)]; rfl
  rw [if_neg h1, if_neg (by simpa using h1)]
  by_cases h2 : (e0 :: rest).length ≠ 2 ^ factors.length
  · rw [if_pos h2, if_pos (by simpa using h2)]; rfl
  rw [if_neg h2, if_neg (by simpa using h2)]
  by_cases h3 : factors.length = 0
  · rw [if_pos h3, if_pos (by simpa using h3)]; rfl
  rw [if_neg h3, if_neg (by simpa using h3)]; rfl

theorem getElem?_flatMap_block {α β : Type} (l : List α) (g : α → List β) (w : α → ℕ)
    (hw : ∀ a ∈ l, (g a).length = w a) (m j : ℕ) (hm : m < l.length) (hj : j < w l[m]) :
    (l.flatMap g)[((l.take m).map w).sum + j]? = (g l[m])[j]? := by
  induction l generalizing m with
  | nil => simp at hm
  | cons a l ih =>
    cases m with
    | zero =>
      simp only [List.take_zero, List.map_nil, List.sum_nil, Nat.zero_add, List.flatMap_cons, List.getElem_cons_zero]
      simp only [List.getElem_cons_zero] at hj
      rw [List.getElem?_append_left (by rw [hw a (by simp)]; exact hj)]
    | succ m =>
      simp only [List.take_succ_cons, List.map_cons, List.sum_cons, List.flatMap_cons, List.getElem_cons_succ]
      simp only [List.getElem_cons_succ] at hj
      rw [List.getElem?_append_right (by rw [hw a (by simp)]; omega)]
      have := ih (fun a ha => hw a (by simp [ha])) m (by simpa using hm) hj
      rw [← this, hw a (by simp)]
      congr 1; omega


/-- hypotheses on the elements of a stack: well-formed rectangular binary diagrams of equal depth -/
structure StackOK (els : List (Diagram V)) (n : ℕ) : Prop where
  wf : ∀ e ∈ els, e.WF
  rect : ∀ e ∈ els, e.Rect
  C2 : ∀ e ∈ els, e.C = 2
  depth : ∀ e ∈ els, e.levels.length = n

theorem length_offsetsOf (els : List (Diagram V)) : (offsetsOf els).length = els.length := by simp [offsetsOf]

theorem zs_getElem (els : List (Diagram V)) (m : ℕ) (hm : m < els.length) :
    (els.zip (offsetsOf els))[m]'(by simp [length_offsetsOf, hm]) = (els[m], offsetOf els m) := by
  simp [offsetsOf]

theorem zs_take_sum (els : List (Diagram V)) (m : ℕ) :
    (((els.zip (offsetsOf els)).take m).map (fun eo => eo.1.diameter)).sum = offsetOf els m := by
  have h1 : (els.zip (offsetsOf els)).map Prod.fst = els := List.map_fst_zip (by simp [length_offsetsOf])
  have : ((els.zip (offsetsOf els)).take m).map (fun eo => eo.1.diameter) =
      (((els.zip (offsetsOf els)).map Prod.fst).take m).map (·.diameter) := by
    simp only [List.map_take, List.map_map]; rfl
  rw [this, h1]; rfl

theorem level_mem {e : Diagram V} {i : ℕ} (hi : i < e.levels.length) : e.levels.getD i [] ∈ e.levels := by
  rw [List.getD_eq_getElem?_getD, List.getElem?_eq_getElem hi]; exact List.getElem_mem hi

theorem nodeAt_bodyLevel (els : List (Diagram V)) (n : ℕ) (h : StackOK els n) (i : ℕ) (hi : i < n)
    (m : ℕ) (hm : m < els.length) (j : ℕ) (hj : j < els[m].diameter) :
    nodeAt (bodyLevel els i) (offsetOf els m + j) =
      shiftNode (offsetOf els m) (nodeAt (els[m].levels.getD i []) j) := by
  have hlen : ∀ e ∈ els, (e.levels.getD i []).length = e.diameter := fun e he =>
    ((h.rect e he).2 _ (level_mem (by rw [h.depth e he]; exact hi))).1
  have hzl : m < (els.zip (offsetsOf els)).length := by simp [length_offsetsOf, hm]
  have hb := getElem?_flatMap_block (els.zip (offsetsOf els))
    (fun eo => (eo.1.levels.getD i []).map (shiftNode eo.2)) (fun eo => eo.1.diameter)
    (fun eo heo => by
      simp only [List.length_map]
      exact hlen _ (List.of_mem_zip heo).1) m j hzl (by rw [zs_getElem els m hm]; exact hj)
  rw [zs_take_sum, zs_getElem els m hm] at hb
  have hj' : j < (els[m].levels.getD i []).length := by rw [hlen _ (List.getElem_mem hm)]; exact hj
  unfold nodeAt bodyLevel
  simp only [List.getD_eq_getElem?_getD] at hb ⊢
  rw [hb]
  simp only [List.getD_eq_getElem?_getD] at hj'
  rw [List.getElem?_map, List.getElem?_eq_getElem hj']
  rfl


theorem shiftNode_ch (o : ℕ) (nd : Node V) (a : ℕ) (ha : a < nd.child.length) :
    (shiftNode o nd).ch a = o + nd.ch a := by
  simp [shiftNode, Node.ch, List.getD_eq_getElem?_getD, ha, Nat.add_comm]

theorem body_from (els : List (Diagram V)) (n : ℕ) (h : StackOK els n) (m : ℕ) (hm : m < els.length)
    (len i j : ℕ) (hil : i + len = n) (hw : wf 2 (els[m].levels.drop i) j) :
    wf 2 ((List.range' i len).map (bodyLevel els)) (offsetOf els m + j) ∧
    ∀ as, (∀ a ∈ as, a < 2) →
      evalFrom ((List.range' i len).map (bodyLevel els)) (offsetOf els m + j) as =
        evalFrom (els[m].levels.drop i) j as := by
  have hem : els[m] ∈ els := List.getElem_mem hm
  induction len generalizing i j with
  | zero =>
    have : els[m].levels.drop i = [] := by
      apply List.drop_eq_nil_of_le; rw [h.depth _ hem]; omega
    simp [this, evalFrom, wf]
  | succ len ih =>
    have hi : i < els[m].levels.length := by rw [h.depth _ hem]; omega
    rw [List.drop_eq_getElem_cons hi] at hw ⊢
    have hlv : els[m].levels.getD i [] = els[m].levels[i] := by
      rw [List.getD_eq_getElem?_getD, List.getElem?_eq_getElem hi]; rfl
    have hmem : els[m].levels[i] ∈ els[m].levels := List.getElem_mem hi
    have hr := (h.rect _ hem).2 _ hmem
    have hj : j < els[m].levels[i].length := nodeAt_lt_of_active hw.1
    have hnode := nodeAt_bodyLevel els n h i (by omega) m hm j (by rw [← hr.1]; exact hj)
    rw [hlv] at hnode
    have hch : ∀ a, a < 2 → (nodeAt (bodyLevel els i) (offsetOf els m + j)).ch a =
        offsetOf els m + (nodeAt els[m].levels[i] j).ch a := by
      intro a ha
      rw [hnode, shiftNode_ch]
      rw [nodeAt_eq_getElem hj, hr.2 _ (List.getElem_mem hj), h.C2 _ hem]; exact ha
    simp only [List.range'_succ, List.map_cons]
    constructor
    · refine ⟨by rw [hnode]; exact hw.1, fun c hc => ?_⟩
      rw [hch c hc]
      exact (ih (i + 1) _ (by omega) (hw.2 c hc)).1
    · intro as hC
      cases as with
      | nil => simp [evalFrom]
      | cons a as =>
        have ha : a < 2 := hC a (by simp)
        simp only [evalFrom]
        rw [hch a ha, (ih (i + 1) _ (by omega) (hw.2 a ha)).2 as (fun x hx => hC x (by simp [hx])), hnode]
        rfl


theorem nodeAt_hdrLevel (k width : ℕ) (last : ℕ → ℕ → ℕ) (i j : ℕ) (hj : j < 2 ^ i) (hw : j < width) :
    nodeAt (hdrLevel (V := V) k width last i) j =
      { active := true
        child := (List.range 2).map (fun c => if i + 1 < k then 2 * j + c else last j c)
        adder := List.replicate 2 0 } := by
  unfold hdrLevel
  rw [nodeAt_eq_getElem (by simpa using hw)]
  simp [hj]

theorem hdr_from (k width : ℕ) (R : ℕ → ℕ) (body : List (Level V)) (hwid : 2 ^ k ≤ width)
    (hR : ∀ m, m < 2 ^ k → wf 2 body (R m))
    (len i j : ℕ) (hil : i + (len + 1) = k) (hj : j < 2 ^ i) :
    wf 2 ((List.range' i (len + 1)).map (hdrLevel k width (fun j c => R (2 * j + c))) ++ body) j ∧
    ∀ bits as, bits.length = len + 1 → (∀ b ∈ bits, b < 2) →
      evalFrom ((List.range' i (len + 1)).map (hdrLevel k width (fun j c => R (2 * j + c))) ++ body) j (bits ++ as) =
        evalFrom body (R (bits.foldl (fun acc b => 2 * acc + b) j)) as := by
  induction len generalizing i j with
  | zero =>
    have hik : ¬ (i + 1 < k) := by omega
    have hjw : j < width := lt_of_lt_of_le (lt_of_lt_of_le hj (Nat.pow_le_pow_right (by omega) (by omega))) hwid
    have hch : ∀ c, c < 2 → (nodeAt (hdrLevel (V := V) k width (fun j c => R (2 * j + c)) i) j).ch c = R (2 * j + c) := by
      intro c hc
      rw [nodeAt_hdrLevel k width _ i j hj hjw]
      simp [Node.ch, List.getD_eq_getElem?_getD, hc, hik]
    simp only [List.range'_succ, List.range'_zero, List.map_cons, List.map_nil, List.cons_append, List.nil_append]
    constructor
    · refine ⟨by rw [nodeAt_hdrLevel k width _ i j hj hjw], fun c hc => ?_⟩
      rw [hch c hc]
      apply hR
      have : 2 ^ k = 2 ^ i * 2 := by rw [← pow_succ]; congr 1; omega
      omega
    · intro bits as hb hB
      match bits, hb with
      | [b], _ =>
        have hb2 : b < 2 := hB b (by simp)
        simp only [List.cons_append, List.nil_append, evalFrom, List.foldl_cons, List.foldl_nil]
        rw [hch b hb2, nodeAt_hdrLevel k width _ i j hj hjw, replicate_ad, zero_add]
  | succ len ih =>
    have hik : i + 1 < k := by omega
    have hjw : j < width := lt_of_lt_of_le (lt_of_lt_of_le hj (Nat.pow_le_pow_right (by omega) (by omega))) hwid
    have hch : ∀ c, c < 2 → (nodeAt (hdrLevel (V := V) k width (fun j c => R (2 * j + c)) i) j).ch c = 2 * j + c := by
      intro c hc
      rw [nodeAt_hdrLevel k width _ i j hj hjw]
      simp [Node.ch, List.getD_eq_getElem?_getD, hc, hik]
    have hnext : ∀ c, c < 2 → 2 * j + c < 2 ^ (i + 1) := by
      intro c hc; rw [pow_succ]; omega
    rw [List.range'_succ]
    simp only [List.map_cons, List.cons_append]
    constructor
    · refine ⟨by rw [nodeAt_hdrLevel k width _ i j hj hjw], fun c hc => ?_⟩
      rw [hch c hc]
      exact (ih (i + 1) _ (by omega) (hnext c hc)).1
    · intro bits as hb hB
      match bits, hb with
      | b :: bits', hb =>
        have hb2 : b < 2 := hB b (by simp)
        simp only [List.cons_append, evalFrom, List.foldl_cons]
        rw [hch b hb2, nodeAt_hdrLevel k width _ i j hj hjw, replicate_ad, zero_add]
        exact (ih (i + 1) _ (by omega) (hnext b hb2)).2 bits' as (by simpa using hb) (fun x hx => hB x (by simp [hx]))


/-- the number whose binary digits (most significant first) are `bits` -/
def bitsVal (bits : List ℕ) : ℕ := bits.foldl (fun acc b => 2 * acc + b) 0

theorem foldl_bits_lt (bits : List ℕ) (hB : ∀ b ∈ bits, b < 2) (j : ℕ) :
    bits.foldl (fun acc b => 2 * acc + b) j < 2 ^ bits.length * (j + 1) := by
  induction bits generalizing j with
  | nil => simp
  | cons b bits ih =>
    have hb : b < 2 := hB b (by simp)
    have := ih (fun x hx => hB x (by simp [hx])) (2 * j + b)
    simp only [List.foldl_cons, List.length_cons, pow_succ]
    calc _ < 2 ^ bits.length * (2 * j + b + 1) := this
      _ ≤ 2 ^ bits.length * (2 * (j + 1)) := Nat.mul_le_mul_left _ (by omega)
      _ = _ := by ring

theorem bitsVal_lt (bits : List ℕ) (hB : ∀ b ∈ bits, b < 2) : bitsVal bits < 2 ^ bits.length := by
  unfold bitsVal; simpa using foldl_bits_lt bits hB 0

theorem rootsOf_getD (els : List (Diagram V)) (m : ℕ) (hm : m < els.length) :
    (rootsOf els).getD m 0 = offsetOf els m + els[m].root := by
  unfold rootsOf
  have hzl : m < (els.zip (offsetsOf els)).length := by simp [length_offsetsOf, hm]
  rw [List.getD_eq_getElem?_getD, List.getElem?_map, List.getElem?_eq_getElem hzl, zs_getElem els m hm]
  simp [Nat.add_comm]

theorem sum_diam_zs (els : List (Diagram V)) :
    ((els.zip (offsetsOf els)).map (fun eo => eo.1.diameter)).sum = (els.map (·.diameter)).sum := by
  have h1 : (els.zip (offsetsOf els)).map Prod.fst = els := List.map_fst_zip (by simp [length_offsetsOf])
  conv_rhs => rw [← h1, List.map_map]
  rfl

theorem stack_spec (factors : List ℕ) (e0 : Diagram V) (rest : List (Diagram V)) (d : Diagram V) (n : ℕ)
    (h : stack factors (e0 :: rest) = .ok d) (hok : StackOK (e0 :: rest) n) :
    d.WF ∧ d.Rect ∧ d.C = 2 ∧ d.units = factors ++ e0.units ∧ (e0 :: rest).length = 2 ^ factors.length ∧
    ∀ bits as, bits.length = factors.length → (∀ b ∈ bits, b < 2) → (∀ a ∈ as, a < 2) →
      ∃ hm : bitsVal bits < (e0 :: rest).length, d.eval (bits ++ as) = ((e0 :: rest)[bitsVal bits]).eval as := by
  rw [stack_eq] at h
  by_cases h1 : e0.C ≠ 2
  · rw [if_pos h1] at h; cases h
  rw [if_neg h1] at h
  by_cases h2 : (e0 :: rest).length ≠ 2 ^ factors.length
  · rw [if_pos h2] at h; cases h
  rw [if_neg h2] at h
  by_cases h3 : factors.length = 0
  · rw [if_pos h3] at h; cases h
  rw [if_neg h3] at h
  simp only [Except.ok.injEq] at h
  subst h
  have h2' : (e0 :: rest).length = 2 ^ factors.length := not_not.mp h2
  generalize hels : e0 :: rest = els at *
  have he0 : e0 ∈ els := by rw [← hels]; simp
  have hn : e0.levels.length = n := hok.depth e0 he0
  set k := factors.length with hk
  set width := (els.map (·.diameter)).sum with hwidth
  have hwid : 2 ^ k ≤ width := by
    rw [← h2', ← List.length_map (f := fun x : Diagram V => x.diameter)]
    apply List.length_le_sum_of_one_le
    intro i hi
    simp only [List.mem_map] at hi
    obtain ⟨e, he, rfl⟩ := hi
    exact (hok.rect e he).1
  have hbody : ∀ m (hm : m < els.length),
      wf 2 ((List.range n).map (bodyLevel els)) (offsetOf els m + els[m].root) ∧
      ∀ as, (∀ a ∈ as, a < 2) →
        evalFrom ((List.range n).map (bodyLevel els)) (offsetOf els m + els[m].root) as = els[m].eval as := by
    intro m hm
    have hem : els[m] ∈ els := List.getElem_mem hm
    have := body_from els n hok m hm n 0 els[m].root (by omega)
      (by rw [List.drop_zero, ← hok.C2 _ hem]; exact (hok.wf _ hem).reach)
    rw [List.range_eq_range']
    simpa [Diagram.eval] using this
  have hR : ∀ m, m < 2 ^ k → wf 2 ((List.range n).map (bodyLevel els)) ((rootsOf els).getD m 0) := by
    intro m hm
    rw [rootsOf_getD els m (by omega)]
    exact (hbody m (by omega)).1
  obtain ⟨len, hlen⟩ : ∃ len, k = len + 1 := ⟨k - 1, by omega⟩
  have hhdr := hdr_from k width (fun m => (rootsOf els).getD m 0) ((List.range n).map (bodyLevel els)) hwid hR
    len 0 0 (by omega) (by simp)
  rw [← hlen, ← List.range_eq_range'] at hhdr
  rw [hn]
  refine ⟨⟨?_, hhdr.1⟩, ⟨?_, ?_⟩, rfl, rfl, h2', ?_⟩
  · simp [(hok.wf e0 he0).len ▸ hn, hk]
  · exact le_trans Nat.one_le_two_pow hwid
  · intro lv hlv
    simp only [List.mem_append, List.mem_map, List.mem_range] at hlv
    rcases hlv with ⟨i, _, rfl⟩ | ⟨i, hi, rfl⟩
    · refine ⟨by simp [hdrLevel], ?_⟩
      intro nd hnd
      simp only [hdrLevel, List.mem_map, List.mem_range] at hnd
      obtain ⟨j, _, rfl⟩ := hnd
      split <;> simp [blank]
    · have hlenlv : ∀ e ∈ els, (e.levels.getD i []).length = e.diameter := fun e he =>
        ((hok.rect e he).2 _ (level_mem (by rw [hok.depth e he]; exact hi))).1
      constructor
      · unfold bodyLevel
        rw [List.length_flatMap]
        show _ = width
        rw [hwidth, ← sum_diam_zs]
        congr 1
        apply List.map_congr_left
        intro eo heo
        simp only [List.length_map]
        exact hlenlv _ (List.of_mem_zip heo).1
      · intro nd hnd
        simp only [bodyLevel, List.mem_flatMap, List.mem_map] at hnd
        obtain ⟨eo, heo, nd', hnd', rfl⟩ := hnd
        have he := (List.of_mem_zip heo).1
        simp only [shiftNode, List.length_map]
        rw [((hok.rect _ he).2 _ (level_mem (by rw [hok.depth _ he]; exact hi))).2 _ hnd', hok.C2 _ he]
  · intro bits as hb hB hC
    have hm : bitsVal bits < els.length := by rw [h2', ← hb]; exact bitsVal_lt bits hB
    refine ⟨hm, ?_⟩
    have := hhdr.2 bits as (by omega) hB
    simp only [Diagram.eval]
    rw [this]
    show evalFrom _ ((rootsOf els).getD (bitsVal bits) 0) as = _
    rw [rootsOf_getD els _ hm]
    exact (hbody _ hm).2 as hC


/-! ### rectangularity is preserved -/

/-- a level of the right shape -/
def LevelRect (C diam : ℕ) (lv : Level V) : Prop := lv.length = diam ∧ ∀ nd ∈ lv, nd.child.length = C

theorem rect_iff (d : Diagram V) : d.Rect ↔ 1 ≤ d.diameter ∧ ∀ lv ∈ d.levels, LevelRect d.C d.diameter lv := Iff.rfl

theorem chain_rect (units : List ℕ) (C : ℕ) : (chain units C : Diagram V).Rect := by
  refine ⟨le_refl _, ?_⟩
  intro lv hlv
  simp only [chain, List.mem_map] at hlv
  obtain ⟨_, _, rfl⟩ := hlv
  exact ⟨rfl, by simp [liveZero, chain]⟩

theorem tree_rect (units : List ℕ) (C : ℕ) (d : Diagram V) (h : tree units C = .ok d) : d.Rect := by
  have hC := (tree_spec units C d h).2.2.2.1
  rw [tree_eq] at h
  by_cases h0 : units.length = 0
  · rw [if_pos h0] at h; cases h
  by_cases h1 : C ≠ 2 ∧ 2 ≤ units.length
  · rw [if_neg h0, if_pos h1] at h; cases h
  rw [if_neg h0, if_neg h1] at h
  simp only [Except.ok.injEq] at h
  subst h
  constructor
  · show 1 ≤ C ^ (units.length - 1)
    rcases hC with rfl | h
    · exact Nat.one_le_two_pow
    · rw [h]; simp
  · intro lv hlv
    simp only [List.mem_map, List.mem_range] at hlv
    obtain ⟨i, _, rfl⟩ := hlv
    unfold treeLevel
    split
    · refine ⟨by simp, ?_⟩
      intro nd hnd
      simp only [List.mem_map, List.mem_range] at hnd
      obtain ⟨j, _, rfl⟩ := hnd
      split <;> simp [blank]
    · refine ⟨by simp, ?_⟩
      intro nd hnd
      rw [List.mem_replicate] at hnd
      rw [hnd.2]; simp [liveZero]

theorem levelRect_of_shape {C diam : ℕ} {la lb : Level V} (h : List.Forall₂ NodeShape la lb)
    (hr : LevelRect C diam la) : LevelRect C diam lb := by
  refine ⟨h.length_eq ▸ hr.1, ?_⟩
  intro nd hnd
  obtain ⟨j, hj, rfl⟩ := List.getElem_of_mem hnd
  have hj' : j < la.length := by rw [h.length_eq]; exact hj
  have := nodeShape_nodeAt h j
  rw [nodeAt_eq_getElem hj, nodeAt_eq_getElem hj'] at this
  rw [← this.2.1]; exact hr.2 _ (List.getElem_mem hj')

theorem SameShape.rect {L L' : List (Level V)} (h : SameShape L L') (C diam : ℕ)
    (hr : ∀ lv ∈ L, LevelRect C diam lv) : ∀ lv ∈ L', LevelRect C diam lv := by
  induction h with
  | nil => simp
  | cons h _ ih =>
    intro lv hlv
    simp only [List.mem_cons] at hlv
    rcases hlv with rfl | hlv
    · exact levelRect_of_shape h (hr _ (by simp))
    · exact ih (fun lv' h' => hr lv' (by simp [h'])) lv hlv

theorem update_rect (d : Diagram V) (loc : List (ℕ × ℕ × ℕ)) (v : V) (inc : Bool) (h : d.Rect) :
    (d.update loc v inc).Rect :=
  ⟨h.1, (foldl_upd1_shape v inc loc d.levels).rect _ _ h.2⟩

theorem foldInto_rect (C diam : ℕ) (lv next : Level V) (value : ℕ) (h : LevelRect C diam lv) :
    LevelRect C diam (foldInto C lv next value) := by
  refine ⟨by simp [foldInto, h.1], ?_⟩
  intro nd hnd
  simp only [foldInto, List.mem_map] at hnd
  obtain ⟨nd', hnd', rfl⟩ := hnd
  split
  · simp
  · exact h.2 _ hnd'

theorem restrictPos_rect (C diam k value : ℕ) (L : List (Level V)) (h : ∀ lv ∈ L, LevelRect C diam lv) :
    ∀ lv ∈ restrictPos C k value L, LevelRect C diam lv := by
  induction k generalizing L with
  | zero =>
    match L with
    | lv :: next :: rest =>
      intro x hx
      simp only [restrictPos, List.mem_cons] at hx
      rcases hx with rfl | hx
      · exact foldInto_rect C diam lv next value (h lv (by simp))
      · exact h x (by simp [hx])
    | [_] => exact h
    | [] => exact h
  | succ k ih =>
    match L with
    | lv :: rest =>
      intro x hx
      simp only [restrictPos, List.mem_cons] at hx
      rcases hx with rfl | hx
      · exact h _ (by simp)
      · exact ih rest (fun y hy => h y (by simp [hy])) x hx
    | [] => exact h

theorem levelRect_modify (C diam : ℕ) (lv : Level V) (i : ℕ) (f : Node V → Node V)
    (hf : ∀ nd, (f nd).child = nd.child) (h : LevelRect C diam lv) : LevelRect C diam (lv.modify i f) := by
  refine ⟨by simp [h.1], ?_⟩
  intro nd hnd
  obtain ⟨j, hj, rfl⟩ := List.getElem_of_mem hnd
  have hj' : j < lv.length := by simpa using hj
  rw [List.getElem_modify]
  split
  · rw [hf]; exact h.2 _ (List.getElem_mem hj')
  · exact h.2 _ (List.getElem_mem hj')

theorem restrict_rect (d d' : Diagram V) (u c : ℕ) (hr : d.Rect) (h : d.restrict u c = .ok d') : d'.Rect := by
  by_cases hu : u ∈ d.units
  swap
  · rw [restrict_notMem d u c hu] at h; cases h
  by_cases hc : c < d.C
  swap
  · rw [restrict_ge d u c hu (Nat.le_of_not_lt hc)] at h; cases h
  by_cases h0 : d.units.idxOf u = 0
  · rw [restrict_first d u c hu hc h0] at h
    match hL : d.levels with
    | lv :: next :: rest =>
      rw [hL] at h
      by_cases hlt : (nodeAt lv d.root).ch c < next.length
      · have : restrictRoot d.C d.root c (lv :: next :: rest) =
            .ok ((nodeAt lv d.root).ch c,
              next.modify ((nodeAt lv d.root).ch c) (pushRoot d.C ((nodeAt lv d.root).ad c)) :: rest) := by
          simp only [restrictRoot, if_pos hlt]; rfl
        rw [this] at h
        simp only [Except.ok.injEq] at h
        subst h
        refine ⟨hr.1, ?_⟩
        intro x hx
        simp only [List.mem_cons] at hx
        rcases hx with rfl | hx
        · have hn : LevelRect d.C d.diameter next := hr.2 next (by rw [hL]; simp)
          exact levelRect_modify _ _ _ _ _ (fun nd => rfl) hn
        · exact hr.2 x (by rw [hL]; simp [hx])
      · have : restrictRoot d.C d.root c (lv :: next :: rest) = .error Err.indexError := by
          simp only [restrictRoot, if_neg hlt]; rfl
        rw [this] at h; cases h
    | [_] => rw [hL] at h; cases h
    | [] => rw [hL] at h; cases h
  · rw [restrict_later d u c hu hc h0] at h
    simp only [Except.ok.injEq] at h
    subst h
    exact ⟨hr.1, restrictPos_rect _ _ _ _ _ hr.2⟩


theorem foldl_max_ge (l : List ℕ) (a : ℕ) : a ≤ l.foldl max a ∧ ∀ x ∈ l, x ≤ l.foldl max a := by
  induction l generalizing a with
  | nil => simp
  | cons b l ih =>
    obtain ⟨h1, h2⟩ := ih (max a b)
    simp only [List.foldl_cons, List.mem_cons]
    refine ⟨le_trans (le_max_left a b) h1, ?_⟩
    rintro x (rfl | hx)
    · exact le_trans (le_max_right a x) h1
    · exact h2 x hx

theorem forall_mem_modify {α} {P : α → Prop} {l : List α} (f : α → α) (i : ℕ) (hP : ∀ x ∈ l, P x)
    (hf : ∀ x, P x → P (f x)) : ∀ x ∈ l.modify i f, P x := by
  induction l generalizing i with
  | nil => simp
  | cons a l ih =>
    cases i with
    | zero =>
      simp only [List.modify_zero_cons, List.mem_cons]
      rintro x (rfl | hx)
      · exact hf a (hP a (by simp))
      · exact hP x (by simp [hx])
    | succ i =>
      simp only [List.modify_succ_cons, List.mem_cons]
      rintro x (rfl | hx)
      · exact hP _ (by simp)
      · exact ih i (fun y hy => hP y (by simp [hy])) x hx

theorem padLevel_rect (C dE diam : ℕ) (lv : Level V) (h : LevelRect C dE lv) (hle : dE ≤ diam) :
    LevelRect C diam (padLevel C lv diam) := by
  refine ⟨by simp [padLevel, h.1]; omega, ?_⟩
  intro nd hnd
  simp only [padLevel, List.mem_append, List.mem_replicate] at hnd
  rcases hnd with hnd | ⟨_, rfl⟩
  · exact h.2 nd hnd
  · simp [blank]

theorem redirect_rect (diam r : ℕ) (lv : Level V) (h : LevelRect 2 diam lv) : LevelRect 2 diam (redirect r lv) := by
  refine ⟨by simp [redirect, h.1], ?_⟩
  intro nd hnd
  simp only [redirect, List.mem_map] at hnd
  obtain ⟨nd', hnd', rfl⟩ := hnd
  split
  · simp
  · exact h.2 _ hnd'

theorem go_rect (diam : ℕ) (els : List (Diagram V))
    (h : ∀ e ∈ els, e.Rect ∧ e.C = 2 ∧ e.diameter ≤ diam) :
    ∀ lv ∈ concatenate.go diam els, LevelRect 2 diam lv := by
  have hpad : ∀ e ∈ els, ∀ lv ∈ e.levels.map (padLevel 2 · diam), LevelRect 2 diam lv := by
    intro e he lv hlv
    simp only [List.mem_map] at hlv
    obtain ⟨lv', hlv', rfl⟩ := hlv
    obtain ⟨h1, h2, h3⟩ := h e he
    exact padLevel_rect 2 e.diameter diam lv' (h2 ▸ h1.2 lv' hlv') h3
  match els with
  | [] => simp [concatenate.go]
  | [e] => rw [concatenate.go.eq_2]; exact hpad e (by simp)
  | e :: e' :: rest =>
    rw [go_cons_cons]
    intro lv hlv
    rw [List.mem_append] at hlv
    rcases hlv with hlv | hlv
    · exact forall_mem_modify _ _ (hpad e (by simp)) (fun x hx => redirect_rect diam _ x hx) lv hlv
    · exact go_rect diam (e' :: rest) (fun x hx => h x (by simp [hx])) lv hlv

theorem concat_rect (els : List (Diagram V)) (d : Diagram V) (h : concatenate els = .ok d)
    (hr : ∀ e ∈ els, e.Rect) : d.Rect := by
  cases els with
  | nil => cases h
  | cons e0 rest =>
    rw [concatenate_eq] at h
    by_cases h1 : ∃ e ∈ e0 :: rest, e.C ≠ e0.C
    · rw [if_pos h1] at h; cases h
    rw [if_neg h1] at h
    by_cases h2 : e0.C ≠ 2
    · rw [if_pos h2] at h; cases h
    rw [if_neg h2] at h
    by_cases h3 : ∃ e ∈ e0 :: rest, e.units = []
    · rw [if_pos h3] at h; cases h
    rw [if_neg h3] at h
    simp only [Except.ok.injEq] at h
    subst h
    have hC2 : ∀ e ∈ e0 :: rest, e.C = 2 := by
      intro e he
      have : e.C = e0.C := by by_contra hh; exact h1 ⟨e, he, hh⟩
      rw [this]; exact not_not.mp h2
    have hle : ∀ e ∈ e0 :: rest, e.diameter ≤ diamOf (e0 :: rest) := by
      intro e he
      exact (foldl_max_ge _ 0).2 _ (List.mem_map.mpr ⟨e, he, rfl⟩)
    refine ⟨le_trans (hr e0 (by simp)).1 (hle e0 (by simp)), ?_⟩
    exact go_rect _ _ (fun e he => ⟨hr e he, hC2 e he, hle e he⟩)


/-! rectangularity of `sum`: the interned tables are duplicate-free lists of pairs of reachable nodes -/

theorem intern_nodup (tbl : List Pair) (p : Pair) (h : tbl.Nodup) :
    (intern tbl p).1.Nodup ∧ ∀ q ∈ (intern tbl p).1, q ∈ tbl ∨ q = p := by
  unfold intern
  by_cases hp : tbl.idxOf p < tbl.length
  · simp only [hp, if_true]; exact ⟨h, fun q hq => Or.inl hq⟩
  · simp only [hp, if_false]
    have hnm : p ∉ tbl := fun hm => hp (List.idxOf_lt_length_iff.mpr hm)
    refine ⟨?_, fun q hq => by simpa using hq⟩
    rw [List.nodup_append]
    refine ⟨h, by simp, ?_⟩
    intro a ha b hb
    simp only [List.mem_singleton] at hb
    subst hb
    intro hab; subst hab; exact hnm ha

theorem internAll_nodup (tbl ps : List Pair) (h : tbl.Nodup) :
    (internAll tbl ps).1.Nodup ∧ ∀ q ∈ (internAll tbl ps).1, q ∈ tbl ∨ q ∈ ps := by
  induction ps generalizing tbl with
  | nil => simp [internAll, h]
  | cons p ps ih =>
    obtain ⟨h1, h2⟩ := intern_nodup tbl p h
    obtain ⟨g1, g2⟩ := ih (intern tbl p).1 h1
    refine ⟨by simpa [internAll] using g1, ?_⟩
    intro q hq
    have hq' : q ∈ (internAll (intern tbl p).1 ps).1 := by simpa [internAll] using hq
    rcases g2 q hq' with hq1 | hq1
    · rcases h2 q hq1 with hq2 | hq2
      · exact Or.inl hq2
      · right; simp [hq2]
    · right; simp [hq1]

theorem sumLevel_nodup (C : ℕ) (la lb : Level V) (tbl pairs : List Pair) (h : tbl.Nodup) :
    (sumLevel C la lb tbl pairs).1.Nodup ∧
      ∀ q ∈ (sumLevel C la lb tbl pairs).1, q ∈ tbl ∨ ∃ p ∈ pairs, q ∈ reqs C la lb p := by
  induction pairs generalizing tbl with
  | nil => simp [sumLevel, h]
  | cons p ps ih =>
    obtain ⟨h1, h2⟩ := internAll_nodup tbl (reqs C la lb p) h
    obtain ⟨g1, g2⟩ := ih (internAll tbl (reqs C la lb p)).1 h1
    refine ⟨by simpa [sumLevel] using g1, ?_⟩
    intro q hq
    have hq' : q ∈ (sumLevel C la lb (internAll tbl (reqs C la lb p)).1 ps).1 := by simpa [sumLevel] using hq
    rcases g2 q hq' with hq1 | ⟨p', hp', hq1⟩
    · rcases h2 q hq1 with hq2 | hq2
      · exact Or.inl hq2
      · exact Or.inr ⟨p, by simp, hq2⟩
    · exact Or.inr ⟨p', by simp [hp'], hq1⟩

theorem sumLevel_child (C : ℕ) (la lb : Level V) (tbl pairs : List Pair) :
    ∀ nd ∈ (sumLevel C la lb tbl pairs).2, nd.child.length = C := by
  induction pairs generalizing tbl with
  | nil => simp [sumLevel]
  | cons p ps ih =>
    intro nd hnd
    simp only [sumLevel, List.mem_cons] at hnd
    rcases hnd with rfl | hnd
    · have := (internAll_spec tbl (reqs C la lb p)).2.1
      simpa [reqs] using this
    · exact ih _ nd hnd

theorem length_le_of_nodup_range (l : List Pair) (hnd : l.Nodup) (a b : ℕ) (h : ∀ p ∈ l, p.1 < a ∧ p.2 < b) :
    l.length ≤ a * b := by
  have hsub : l ⊆ (List.range a ×ˢ List.range b) := by
    intro p hp
    obtain ⟨x, y⟩ := p
    rw [List.mem_product]
    simpa using h _ hp
  have := (List.subperm_of_subset hnd hsub).length_le
  simpa [List.length_product] using this

theorem sumLevels_rect (C da db : ℕ) (LA LB : List (Level V)) (hA : ∀ lv ∈ LA, lv.length = da)
    (hB : ∀ lv ∈ LB, lv.length = db) (pairs : List Pair) (hnd : pairs.Nodup)
    (hw : ∀ p ∈ pairs, wf C LA p.1 ∧ wf C LB p.2) :
    ∀ lv ∈ sumLevels C LA LB pairs, lv.length ≤ da * db ∧ ∀ nd ∈ lv, nd.child.length = C := by
  induction LA generalizing LB pairs with
  | nil => simp [sumLevels]
  | cons la ra ih =>
    cases LB with
    | nil => simp [sumLevels]
    | cons lb rb =>
      intro lv hlv
      simp only [sumLevels, List.mem_cons] at hlv
      rcases hlv with rfl | hlv
      · refine ⟨?_, sumLevel_child C la lb [] pairs⟩
        rw [sumLevel_length]
        apply length_le_of_nodup_range pairs hnd
        intro p hp
        obtain ⟨w1, w2⟩ := hw p hp
        exact ⟨hA la (by simp) ▸ nodeAt_lt_of_active w1.1, hB lb (by simp) ▸ nodeAt_lt_of_active w2.1⟩
      · obtain ⟨n1, n2⟩ := sumLevel_nodup C la lb [] pairs List.nodup_nil
        refine ih rb (fun x hx => hA x (by simp [hx])) (fun x hx => hB x (by simp [hx])) _ n1 ?_ lv hlv
        intro q hq
        rcases n2 q hq with hq1 | ⟨p, hp, hq1⟩
        · simp at hq1
        · simp only [reqs, List.mem_map, List.mem_range] at hq1
          obtain ⟨c, hc, rfl⟩ := hq1
          obtain ⟨w1, w2⟩ := hw p hp
          exact ⟨w1.2 c hc, w2.2 c hc⟩

theorem sum_rect (a b s : Diagram V) (ha : a.WF) (hb : b.WF) (ra : a.Rect) (rb : b.Rect)
    (h : a.sum b = .ok s) : s.Rect := by
  rw [sum_eq] at h
  by_cases hne : a.units ≠ b.units ∨ a.C ≠ b.C
  · rw [if_pos hne] at h; cases h
  rw [if_neg hne] at h
  simp only [Except.ok.injEq] at h
  subst h
  have hC : a.C = b.C := by by_contra hh; exact hne (Or.inr hh)
  refine ⟨Nat.mul_pos ra.1 rb.1, ?_⟩
  intro lv hlv
  simp only [List.mem_map] at hlv
  obtain ⟨lv', hlv', rfl⟩ := hlv
  have := sumLevels_rect a.C a.diameter b.diameter a.levels b.levels (fun x hx => (ra.2 x hx).1)
    (fun x hx => (rb.2 x hx).1) [(a.root, b.root)] (by simp)
    (by intro p hp; simp only [List.mem_singleton] at hp; subst hp; exact ⟨ha.reach, hC ▸ hb.reach⟩) lv' hlv'
  refine ⟨by simp only [padLevel, List.length_append, List.length_replicate]; omega, ?_⟩
  intro nd hnd
  simp only [padLevel, List.mem_append, List.mem_replicate] at hnd
  rcases hnd with hnd | ⟨_, rfl⟩
  · exact this.2 nd hnd
  · simp [blank]



/-! ### histories -/

theorem restrict_two_le (d d' : Diagram V) (u c : ℕ) (hwf : d.WF) (h : d.restrict u c = .ok d') :
    2 ≤ d.units.length := by
  by_cases hu : u ∈ d.units
  swap
  · rw [restrict_notMem d u c hu] at h; cases h
  by_cases hc : c < d.C
  swap
  · rw [restrict_ge d u c hu (Nat.le_of_not_lt hc)] at h; cases h
  by_contra hlt
  have h1 : d.units.length = 1 := by
    have := List.length_pos_of_mem hu; omega
  rw [restrict_single d u c (by rw [hwf.len]; omega) h1 hu hc] at h
  cases h

/-- the diagrams that can be built with the constructors and operations of `add.py` -/
inductive Reach : Diagram V → Prop
  | chain (units : List ℕ) (C : ℕ) : Reach (chain units C)
  | tree (units : List ℕ) (C : ℕ) (d : Diagram V) : tree units C = .ok d → Reach d
  | concat (els : List (Diagram V)) (d : Diagram V) :
      (∀ e ∈ els, Reach e) → concatenate els = .ok d → Reach d
  | stack (factors : List ℕ) (els : List (Diagram V)) (d : Diagram V) (n : ℕ) :
      (∀ e ∈ els, Reach e) → (∀ e ∈ els, e.C = 2 ∧ e.units.length = n) → stack factors els = .ok d → Reach d
  | update (d : Diagram V) (loc : List (ℕ × ℕ × ℕ)) (v : V) (inc : Bool) : Reach d → Reach (d.update loc v inc)
  | restrict (d d' : Diagram V) (u c : ℕ) : Reach d → d.restrict u c = .ok d' → Reach d'
  | sum (a b s : Diagram V) : Reach a → Reach b → a.sum b = .ok s → Reach s

theorem Reach.inv {d : Diagram V} (h : Reach d) : d.WF ∧ d.Rect := by
  induction h with
  | chain units C => exact ⟨chain_wf units C, chain_rect units C⟩
  | tree units C d h => exact ⟨(tree_spec units C d h).1, tree_rect units C d h⟩
  | concat els d _ h ih =>
    exact ⟨(concat_spec els d h (fun e he => (ih e he).1)).1, concat_rect els d h (fun e he => (ih e he).2)⟩
  | stack factors els d n _ hside h ih =>
    cases els with
    | nil => cases h
    | cons e0 rest =>
      have hok : StackOK (e0 :: rest) n :=
        ⟨fun e he => (ih e he).1, fun e he => (ih e he).2, fun e he => (hside e he).1,
          fun e he => by rw [(ih e he).1.len]; exact (hside e he).2⟩
      have := stack_spec factors e0 rest d n h hok
      exact ⟨this.1, this.2.1⟩
  | update d loc v inc _ ih => exact ⟨update_wf d loc v inc ih.1, update_rect d loc v inc ih.2⟩
  | restrict d d' u c _ h ih =>
    exact ⟨(restrict_spec d d' u c ih.1 (restrict_two_le d d' u c ih.1 h) h).2.2.1, restrict_rect d d' u c ih.2 h⟩
  | sum a b s _ _ h iha ihb =>
    exact ⟨(sum_spec a b s iha.1 ihb.1 h).2.2.1, sum_rect a b s iha.1 ihb.1 iha.2 ihb.2 h⟩


end Ds.Dd
