import DsProofs.BruteProofs
import Mathlib.Data.List.TakeWhile

/-!
# Helper lemmas for the Monte-Carlo method (`Ds.MC`)

The walk of `_shapley_montecarlo` along one permutation (`Ds.MC.step`, `Ds.MC.column`), the timeout
rule (`Ds.MC.keep`), the column average (`Ds.MC.average`) and the whole method (`Ds.MC.run`).
-/

open Ds Ds.MC BruteP

namespace MCP

/-! ### 0/1 query vectors -/

/-- a 0/1 query vector over `n` units -/
def IsQuery (n : ℕ) (q : List Int) : Prop := q.length = n ∧ ∀ x ∈ q, x = 0 ∨ x = 1

theorem isQuery_replicate (n : ℕ) : IsQuery n (List.replicate n 0) := by
  refine ⟨by simp, ?_⟩
  intro x hx
  left; exact (List.mem_replicate.mp hx).2

theorem isQuery_set {n : ℕ} {q : List Int} (h : IsQuery n q) (idx : ℕ) : IsQuery n (q.set idx 1) := by
  refine ⟨by simp [h.1], ?_⟩
  intro x hx
  rcases List.mem_or_eq_of_mem_set hx with hx | rfl
  · exact h.2 x hx
  · right; rfl

/-! ### one step of the walk -/

/-- the in-band test of the truncation rule: `|score − mean| ≤ |tolerance · mean|` -/
abbrev inBand (mean : ℚ) (pr : Params) (s : ℚ) : Prop := absR (s - mean) ≤ absR (pr.tolerance * mean)

/-- what a step does when the walk has not been cut and the evaluation does not propagate -/
def next (v : List Int → Outcome) (null mean : ℚ) (pr : Params) (w : Walk) (idx : ℕ) : Walk :=
  let q := w.query.set idx 1
  let new := valOf null (v q)
  if inBand mean pr new then
    { query := q, score := new, counter := w.counter + 1, imp := w.imp.set idx (new - w.score),
      cut := decide (pr.truncSteps > 0) && decide (w.counter + 1 > pr.truncSteps) }
  else
    { query := q, score := new, counter := 0, imp := w.imp.set idx (new - w.score), cut := false }

/-- total version of `Ds.MC.step` (valid when no evaluation propagates) -/
def stepP (v : List Int → Outcome) (null mean : ℚ) (pr : Params) (w : Walk) (idx : ℕ) : Walk :=
  if w.cut then w else next v null mean pr w idx

theorem step_of_cut {v : List Int → Outcome} {null mean : ℚ} {pr : Params} {w : Walk} (idx : ℕ)
    (hc : w.cut = true) : step v null mean pr w idx = some w := by
  unfold step; simp [hc]

theorem step_of_not_cut {v : List Int → Outcome} {null mean : ℚ} {pr : Params} {w : Walk} {idx : ℕ}
    (hc : w.cut = false) (hv : v (w.query.set idx 1) ≠ .other) :
    step v null mean pr w idx = some (next v null mean pr w idx) := by
  unfold step next inBand
  simp only [hc, Bool.false_eq_true, if_false, caught_eq_valOf hv]
  by_cases hb : absR (valOf null (v (w.query.set idx 1)) - mean) ≤ absR (pr.tolerance * mean)
  · simp only [if_pos hb]
  · simp only [if_neg hb]

theorem step_of_other {v : List Int → Outcome} {null mean : ℚ} {pr : Params} {w : Walk} {idx : ℕ}
    (hc : w.cut = false) (hv : v (w.query.set idx 1) = .other) :
    step v null mean pr w idx = none := by
  unfold step
  simp [hc, hv, Outcome.caught]

@[simp] theorem next_query (v : List Int → Outcome) (null mean : ℚ) (pr : Params) (w : Walk) (idx : ℕ) :
    (next v null mean pr w idx).query = w.query.set idx 1 := by
  unfold next; simp only; split <;> rfl

@[simp] theorem next_score (v : List Int → Outcome) (null mean : ℚ) (pr : Params) (w : Walk) (idx : ℕ) :
    (next v null mean pr w idx).score = valOf null (v (w.query.set idx 1)) := by
  unfold next; simp only; split <;> rfl

@[simp] theorem next_imp (v : List Int → Outcome) (null mean : ℚ) (pr : Params) (w : Walk) (idx : ℕ) :
    (next v null mean pr w idx).imp =
      w.imp.set idx (valOf null (v (w.query.set idx 1)) - w.score) := by
  unfold next; simp only; split <;> rfl

theorem stepP_query_isQuery {n : ℕ} {v : List Int → Outcome} {null mean : ℚ} {pr : Params} {w : Walk}
    (idx : ℕ) (hq : IsQuery n w.query) : IsQuery n (stepP v null mean pr w idx).query := by
  unfold stepP
  split
  · exact hq
  · rw [next_query]; exact isQuery_set hq idx

theorem step_eq_stepP {n : ℕ} {v : List Int → Outcome} {null mean : ℚ} {pr : Params} {w : Walk}
    (idx : ℕ) (hv : ∀ q, IsQuery n q → v q ≠ .other) (hq : IsQuery n w.query) :
    step v null mean pr w idx = some (stepP v null mean pr w idx) := by
  unfold stepP
  cases hc : w.cut with
  | true => simp [step_of_cut idx hc]
  | false => simp [step_of_not_cut hc (hv _ (isQuery_set hq idx))]

/-! ### the walk along a permutation -/

theorem foldl_stepP_isQuery {n : ℕ} {v : List Int → Outcome} {null mean : ℚ} {pr : Params}
    (l : List ℕ) {w : Walk} (hq : IsQuery n w.query) :
    IsQuery n (l.foldl (stepP v null mean pr) w).query := by
  induction l generalizing w with
  | nil => exact hq
  | cons a l ih => exact ih (stepP_query_isQuery a hq)

theorem foldlM_step_eq {n : ℕ} {v : List Int → Outcome} {null mean : ℚ} {pr : Params}
    (hv : ∀ q, IsQuery n q → v q ≠ .other) (l : List ℕ) {w : Walk} (hq : IsQuery n w.query) :
    l.foldlM (step v null mean pr) w = some (l.foldl (stepP v null mean pr) w) := by
  induction l generalizing w with
  | nil => rfl
  | cons a l ih =>
    rw [List.foldlM_cons, step_eq_stepP a hv hq]
    exact ih (stepP_query_isQuery a hq)

/-- the starting state of a walk whose baseline score (the score of the all-zero query) is `s0` -/
def init (n : ℕ) (s0 : ℚ) : Walk :=
  { query := List.replicate n 0, score := s0, counter := 0, imp := List.replicate n 0, cut := false }

/-- the baseline of every walk: the value of the coalition of no units -/
def base (n : ℕ) (v : List Int → Outcome) (null : ℚ) : ℚ := valOf null (v (List.replicate n 0))

/-- total version of `Ds.MC.column` -/
def columnP (n : ℕ) (v : List Int → Outcome) (null mean : ℚ) (pr : Params) (perm : List ℕ) : List ℚ :=
  (perm.foldl (stepP v null mean pr) (init n (base n v null))).imp

theorem column_eq {n : ℕ} {v : List Int → Outcome} {null mean : ℚ} {pr : Params}
    (hv : ∀ q, IsQuery n q → v q ≠ .other) (perm : List ℕ) :
    column n v null mean pr perm = some (columnP n v null mean pr perm) := by
  unfold column columnP
  have := foldlM_step_eq (null := null) (mean := mean) (pr := pr) hv perm
    (w := init n (base n v null)) (isQuery_replicate n)
  rw [caught_eq_valOf (hv _ (isQuery_replicate n))]
  unfold init base at this ⊢
  simp only
  rw [this]; rfl

/-- if scoring the coalition of no units propagates, so does the column -/
theorem column_none_of_base {n : ℕ} {v : List Int → Outcome} {null mean : ℚ} {pr : Params}
    (h : v (List.replicate n 0) = .other) (perm : List ℕ) :
    column n v null mean pr perm = none := by
  unfold column; rw [h]; rfl

/-- an evaluation that propagates aborts the walk (if it is reached before a cut) -/
theorem foldlM_step_none {v : List Int → Outcome} {null mean : ℚ} {pr : Params}
    (htr : pr.truncSteps = 0) (l : List ℕ) (w : Walk) (hc : w.cut = false)
    (h : ∃ k, k < l.length ∧ v ((l.take (k+1)).foldl (fun q idx => q.set idx 1) w.query) = .other) :
    l.foldlM (step v null mean pr) w = none := by
  induction l generalizing w with
  | nil => obtain ⟨k, hk, _⟩ := h; simp at hk
  | cons a l ih =>
    rw [List.foldlM_cons]
    by_cases ha : v (w.query.set a 1) = .other
    · rw [step_of_other hc ha]; rfl
    · rw [step_of_not_cut hc ha]
      show l.foldlM (step v null mean pr) (next v null mean pr w a) = none
      have hc' : (next v null mean pr w a).cut = false := by
        unfold next; simp only; split <;> simp [htr]
      apply ih _ hc'
      obtain ⟨k, hk, hko⟩ := h
      cases k with
      | zero => simp at hko; exact absurd hko ha
      | succ k =>
        refine ⟨k, by simpa using hk, ?_⟩
        rw [next_query]
        simpa using hko

theorem length_foldl_stepP_imp {v : List Int → Outcome} {null mean : ℚ} {pr : Params}
    (l : List ℕ) (w : Walk) : (l.foldl (stepP v null mean pr) w).imp.length = w.imp.length := by
  induction l generalizing w with
  | nil => rfl
  | cons a l ih =>
    rw [List.foldl_cons, ih]
    unfold stepP; split
    · rfl
    · simp

theorem length_columnP (n : ℕ) (v : List Int → Outcome) (null mean : ℚ) (pr : Params) (perm : List ℕ) :
    (columnP n v null mean pr perm).length = n := by
  unfold columnP; rw [length_foldl_stepP_imp]; simp [init]

/-! ### `mapM` in `Option` -/

theorem mapM_some {α β : Type} (f : α → Option β) (g : α → β) (l : List α)
    (h : ∀ a ∈ l, f a = some (g a)) : l.mapM f = some (l.map g) := by
  induction l with
  | nil => rfl
  | cons a l ih =>
    rw [List.mapM_cons, h a List.mem_cons_self, ih (fun b hb => h b (List.mem_cons_of_mem _ hb))]
    rfl

theorem mapM_none {α β : Type} (f : α → Option β) (l : List α)
    (h : ∃ a ∈ l, f a = none) : l.mapM f = none := by
  induction l with
  | nil => obtain ⟨a, ha, _⟩ := h; cases ha
  | cons a l ih =>
    rw [List.mapM_cons]
    cases hfa : f a with
    | none => rfl
    | some b =>
      obtain ⟨c, hc, hcn⟩ := h
      have hc' : c ∈ l := by
        rcases List.mem_cons.mp hc with rfl | hc'
        · rw [hfa] at hcn; cases hcn
        · exact hc'
      rw [ih ⟨c, hc', hcn⟩]; rfl

/-! ### the timeout rule -/

/-- reading `t` exceeds the budget -/
def over (pr : Params) (start t : ℚ) : Prop := pr.timeout > 0 ∧ t - start > pr.timeout

instance (pr : Params) (start t : ℚ) : Decidable (over pr start t) :=
  inferInstanceAs (Decidable (pr.timeout > 0 ∧ t - start > pr.timeout))

/-- index of the first reading that exceeds the budget (`clock.length` if there is none) -/
def firstOver (pr : Params) (start : ℚ) (clock : List ℚ) : ℕ :=
  clock.findIdx (fun t => decide (over pr start t))

theorem firstOver_eq (pr : Params) (start : ℚ) (clock : List ℚ) :
    firstOver pr start clock =
      clock.findIdx (fun t => decide (pr.timeout > 0 ∧ t - start > pr.timeout)) := rfl

/-- number of iterations kept out of `m` -/
def keepCount (pr : Params) (start : ℚ) (m : ℕ) (clock : List ℚ) : ℕ :=
  if firstOver pr start clock < clock.length then min m (firstOver pr start clock + 1) else m

theorem keep_nil_clock (pr : Params) (start : ℚ) (cols : List (List ℚ)) :
    keep pr start cols [] = cols := by
  induction cols with
  | nil => rfl
  | cons c cs ih => simp [keep, ih]

theorem keep_cons_over {pr : Params} {start t : ℚ} (c : List ℚ) (cs : List (List ℚ)) (ts : List ℚ)
    (h : over pr start t) : keep pr start (c :: cs) (t :: ts) = [c] := by
  unfold over at h
  simp [keep, h]

theorem keep_cons_not_over {pr : Params} {start t : ℚ} (c : List ℚ) (cs : List (List ℚ)) (ts : List ℚ)
    (h : ¬ over pr start t) : keep pr start (c :: cs) (t :: ts) = c :: keep pr start cs ts := by
  unfold over at h
  simp only [keep]
  rw [if_neg h]

theorem firstOver_cons_over {pr : Params} {start t : ℚ} (ts : List ℚ) (h : over pr start t) :
    firstOver pr start (t :: ts) = 0 := by
  simp [firstOver, List.findIdx_cons, h]

theorem firstOver_cons_not_over {pr : Params} {start t : ℚ} (ts : List ℚ) (h : ¬ over pr start t) :
    firstOver pr start (t :: ts) = firstOver pr start ts + 1 := by
  simp [firstOver, List.findIdx_cons, h]

theorem firstOver_nil (pr : Params) (start : ℚ) : firstOver pr start [] = 0 := rfl

theorem keep_eq_take (pr : Params) (start : ℚ) (cols : List (List ℚ)) (clock : List ℚ) :
    keep pr start cols clock = cols.take (keepCount pr start cols.length clock) := by
  induction cols generalizing clock with
  | nil => cases clock <;> simp [keep]
  | cons c cs ih =>
    cases clock with
    | nil => rw [keep_nil_clock]; simp [keepCount, firstOver_nil]
    | cons t ts =>
      by_cases h : over pr start t
      · rw [keep_cons_over c cs ts h]
        simp [keepCount, firstOver_cons_over ts h]
      · rw [keep_cons_not_over c cs ts h, ih ts]
        have e : keepCount pr start (c :: cs).length (t :: ts) = keepCount pr start cs.length ts + 1 := by
          unfold keepCount
          rw [firstOver_cons_not_over ts h]
          simp only [List.length_cons, Nat.add_lt_add_iff_right]
          by_cases hlt : firstOver pr start ts < ts.length
          · rw [if_pos hlt, if_pos hlt]; omega
          · rw [if_neg hlt, if_neg hlt]
        rw [e, List.take_succ_cons]

theorem keep_of_no_timeout {pr : Params} (h : ¬ pr.timeout > 0) (start : ℚ) (cols : List (List ℚ))
    (clock : List ℚ) : keep pr start cols clock = cols := by
  induction cols generalizing clock with
  | nil => cases clock <;> rfl
  | cons c cs ih =>
    cases clock with
    | nil => exact keep_nil_clock _ _ _
    | cons t ts => rw [keep_cons_not_over c cs ts (fun ho => h ho.1), ih]

theorem keep_ne_nil {pr : Params} {start : ℚ} {cols : List (List ℚ)} (clock : List ℚ)
    (h : cols ≠ []) : keep pr start cols clock ≠ [] := by
  cases cols with
  | nil => exact absurd rfl h
  | cons c cs =>
    cases clock with
    | nil => simp [keep]
    | cons t ts =>
      by_cases ho : over pr start t
      · rw [keep_cons_over c cs ts ho]; simp
      · rw [keep_cons_not_over c cs ts ho]; simp

/-! ### average and run -/

/-- the column mean -/
def avgP (n : ℕ) (cols : List (List ℚ)) : List ℚ :=
  (List.range n).map (fun i => (cols.map (·.getD i 0)).sum / (cols.length : ℕ))

theorem average_of_ne_nil (n : ℕ) {cols : List (List ℚ)} (h : cols ≠ []) :
    average n cols = some (avgP n cols) := by
  unfold average avgP
  cases cols with
  | nil => exact absurd rfl h
  | cons c cs => rfl

theorem average_nil (n : ℕ) : average n [] = none := rfl

theorem run_eq {n : ℕ} {v : List Int → Outcome} {null mean : ℚ} {pr : Params}
    (hv : ∀ q, IsQuery n q → v q ≠ .other) (perms : List (List ℕ)) (clock : List ℚ) :
    run n v null mean pr perms clock =
      some (average n (keep pr (clock.headD 0) (perms.map (columnP n v null mean pr)) clock.tail)) := by
  unfold run
  rw [mapM_some _ (columnP n v null mean pr) perms (fun p _ => column_eq hv p)]
  rfl

/-! ### truncation disabled: the walk never cuts -/

theorem next_of_inBand {v : List Int → Outcome} {null mean : ℚ} {pr : Params} {w : Walk} {idx : ℕ}
    (hb : inBand mean pr (valOf null (v (w.query.set idx 1)))) :
    next v null mean pr w idx =
      { query := w.query.set idx 1, score := valOf null (v (w.query.set idx 1)),
        counter := w.counter + 1,
        imp := w.imp.set idx (valOf null (v (w.query.set idx 1)) - w.score),
        cut := decide (pr.truncSteps > 0) && decide (w.counter + 1 > pr.truncSteps) } := by
  unfold next; simp only [if_pos hb]

theorem next_of_not_inBand {v : List Int → Outcome} {null mean : ℚ} {pr : Params} {w : Walk} {idx : ℕ}
    (hb : ¬ inBand mean pr (valOf null (v (w.query.set idx 1)))) :
    next v null mean pr w idx =
      { query := w.query.set idx 1, score := valOf null (v (w.query.set idx 1)),
        counter := 0,
        imp := w.imp.set idx (valOf null (v (w.query.set idx 1)) - w.score),
        cut := false } := by
  unfold next; simp only [if_neg hb]

theorem next_cut_of_truncSteps_zero {v : List Int → Outcome} {null mean : ℚ} {pr : Params}
    (htr : pr.truncSteps = 0) (w : Walk) (idx : ℕ) : (next v null mean pr w idx).cut = false := by
  by_cases hb : inBand mean pr (valOf null (v (w.query.set idx 1)))
  · rw [next_of_inBand hb]; simp [htr]
  · rw [next_of_not_inBand hb]

theorem stepP_cut_of_truncSteps_zero {v : List Int → Outcome} {null mean : ℚ} {pr : Params}
    (htr : pr.truncSteps = 0) {w : Walk} (hc : w.cut = false) (idx : ℕ) :
    (stepP v null mean pr w idx).cut = false := by
  unfold stepP; rw [hc]; simp only [Bool.false_eq_true, if_false]
  exact next_cut_of_truncSteps_zero htr w idx

theorem foldl_stepP_eq_next {v : List Int → Outcome} {null mean : ℚ} {pr : Params}
    (htr : pr.truncSteps = 0) (l : List ℕ) {w : Walk} (hc : w.cut = false) :
    l.foldl (stepP v null mean pr) w = l.foldl (next v null mean pr) w ∧
      (l.foldl (stepP v null mean pr) w).cut = false := by
  induction l generalizing w with
  | nil => exact ⟨rfl, hc⟩
  | cons a l ih =>
    have e : stepP v null mean pr w a = next v null mean pr w a := by
      unfold stepP; rw [hc]; rfl
    rw [List.foldl_cons, List.foldl_cons, e]
    exact ih (next_cut_of_truncSteps_zero htr w a)

/-- switching on the units of `l` one after the other -/
def setAll (q : List Int) (l : List ℕ) : List Int := l.foldl (fun q idx => q.set idx 1) q

theorem foldl_next_query (v : List Int → Outcome) (null mean : ℚ) (pr : Params) (l : List ℕ) (w : Walk) :
    (l.foldl (next v null mean pr) w).query = setAll w.query l := by
  induction l generalizing w with
  | nil => rfl
  | cons a l ih => rw [List.foldl_cons, ih, next_query]; rfl

theorem foldl_next_score (v : List Int → Outcome) (null mean : ℚ) (pr : Params) (l : List ℕ) (w : Walk)
    (hl : l ≠ []) : (l.foldl (next v null mean pr) w).score = valOf null (v (setAll w.query l)) := by
  obtain ⟨l', a, rfl⟩ : ∃ l' a, l = l' ++ [a] := ⟨l.dropLast, l.getLast hl, (List.dropLast_append_getLast hl).symm⟩
  rw [List.foldl_append]
  simp only [List.foldl_cons, List.foldl_nil, next_score, foldl_next_query]
  unfold setAll
  rw [List.foldl_append]; rfl

theorem length_foldl_next_imp (v : List Int → Outcome) (null mean : ℚ) (pr : Params) (l : List ℕ) (w : Walk) :
    (l.foldl (next v null mean pr) w).imp.length = w.imp.length := by
  induction l generalizing w with
  | nil => rfl
  | cons a l ih => rw [List.foldl_cons, ih]; simp

/-! ### importance entries -/

theorem getD_set_ne {L : List ℚ} {a u : ℕ} (x : ℚ) (h : a ≠ u) : (L.set a x).getD u 0 = L.getD u 0 := by
  simp [List.getD_eq_getElem?_getD, List.getElem?_set_ne h]

theorem getD_set_self {L : List ℚ} {a : ℕ} (x : ℚ) (h : a < L.length) : (L.set a x).getD a 0 = x := by
  simp [List.getD_eq_getElem?_getD, h]

theorem sum_set {L : List ℚ} {a : ℕ} (x : ℚ) (h : a < L.length) :
    (L.set a x).sum = L.sum - L.getD a 0 + x := by
  induction L generalizing a with
  | nil => simp at h
  | cons y L ih =>
    cases a with
    | zero => simp; ring
    | succ a =>
      have h' : a < L.length := by simpa using h
      simp only [List.set_cons_succ, List.sum_cons, ih h', List.getD_cons_succ]
      ring

/-- entries at units the walk does not visit are not written -/
theorem foldl_next_imp_untouched (v : List Int → Outcome) (null mean : ℚ) (pr : Params) (l : List ℕ) (w : Walk)
    (u : ℕ) (hu : u ∉ l) : (l.foldl (next v null mean pr) w).imp.getD u 0 = w.imp.getD u 0 := by
  induction l generalizing w with
  | nil => rfl
  | cons a l ih =>
    rw [List.foldl_cons, ih _ (fun h => hu (List.mem_cons_of_mem _ h)), next_imp]
    exact getD_set_ne _ (fun h => hu (h ▸ List.mem_cons_self))

theorem foldl_stepP_imp_untouched (v : List Int → Outcome) (null mean : ℚ) (pr : Params) (l : List ℕ) (w : Walk)
    (u : ℕ) (hu : u ∉ l) : (l.foldl (stepP v null mean pr) w).imp.getD u 0 = w.imp.getD u 0 := by
  induction l generalizing w with
  | nil => rfl
  | cons a l ih =>
    rw [List.foldl_cons, ih _ (fun h => hu (List.mem_cons_of_mem _ h))]
    unfold stepP
    split
    · rfl
    · rw [next_imp]; exact getD_set_ne _ (fun h => hu (h ▸ List.mem_cons_self))

/-- **column entries**: the unit visited at step `k` is credited the difference between the score
after its switch-on and the score before (the walk's starting score for `k = 0`) -/
theorem foldl_next_imp_entry (v : List Int → Outcome) (null mean : ℚ) (pr : Params) (l : List ℕ) (w : Walk)
    (hnd : l.Nodup) (hlt : ∀ a ∈ l, a < w.imp.length) (k : ℕ) (hk : k < l.length) :
    (l.foldl (next v null mean pr) w).imp.getD l[k] 0 =
      valOf null (v (setAll w.query (l.take (k+1)))) -
        (if k = 0 then w.score else valOf null (v (setAll w.query (l.take k)))) := by
  induction l generalizing w k with
  | nil => simp at hk
  | cons a l ih =>
    have hnd' : l.Nodup := (List.nodup_cons.mp hnd).2
    have ha : a ∉ l := (List.nodup_cons.mp hnd).1
    rw [List.foldl_cons]
    cases k with
    | zero =>
      simp only [List.getElem_cons_zero, if_true]
      rw [foldl_next_imp_untouched _ _ _ _ _ _ _ ha, next_imp,
        getD_set_self _ (hlt a List.mem_cons_self)]
      simp [setAll]
    | succ k =>
      have hk' : k < l.length := by simpa using hk
      simp only [List.getElem_cons_succ]
      rw [ih (next v null mean pr w a) hnd'
        (fun b hb => by rw [next_imp, List.length_set]; exact hlt b (List.mem_cons_of_mem _ hb)) k hk']
      simp only [next_query, next_score, Nat.add_eq_zero_iff, one_ne_zero, and_false, if_false]
      have e : ∀ j, setAll (w.query.set a 1) (l.take j) = setAll w.query ((a :: l).take (j+1)) := by
        intro j; simp [setAll]
      rw [e (k+1)]
      congr 1
      cases k with
      | zero => simp [setAll]
      | succ k => simp only [Nat.add_eq_zero_iff, one_ne_zero, and_false, if_false]; rw [e (k+1)]

/-- **telescoping**: if the visited units all had importance 0, the column sum grows by
`final score − starting score` -/
theorem foldl_next_imp_sum (v : List Int → Outcome) (null mean : ℚ) (pr : Params) (l : List ℕ) (w : Walk)
    (hnd : l.Nodup) (hlt : ∀ a ∈ l, a < w.imp.length) (hz : ∀ a ∈ l, w.imp.getD a 0 = 0) :
    (l.foldl (next v null mean pr) w).imp.sum =
      w.imp.sum + ((l.foldl (next v null mean pr) w).score - w.score) := by
  induction l generalizing w with
  | nil => simp
  | cons a l ih =>
    have hnd' : l.Nodup := (List.nodup_cons.mp hnd).2
    have ha : a ∉ l := (List.nodup_cons.mp hnd).1
    rw [List.foldl_cons]
    rw [ih (next v null mean pr w a) hnd'
      (fun b hb => by rw [next_imp, List.length_set]; exact hlt b (List.mem_cons_of_mem _ hb))
      (fun b hb => by
        have hab : a ≠ b := fun h => ha (by rw [h]; exact hb)
        rw [next_imp, getD_set_ne _ hab]
        exact hz b (List.mem_cons_of_mem _ hb))]
    rw [next_imp, sum_set _ (hlt a List.mem_cons_self), hz a List.mem_cons_self, next_score]
    ring

/-! ### 0/1 vectors, declaratively -/

/-- the 0/1 query vector over `n` units with exactly the units occurring in `A` switched on -/
def indQ (n : ℕ) (A : List ℕ) : List Int := (List.range n).map (fun u => if u ∈ A then 1 else 0)

theorem indQ_congr (n : ℕ) {A B : List ℕ} (h : ∀ u, u < n → (u ∈ A ↔ u ∈ B)) : indQ n A = indQ n B := by
  unfold indQ
  apply List.map_congr_left
  intro u hu
  rw [if_congr (h u (List.mem_range.mp hu)) rfl rfl]

theorem indQ_nil (n : ℕ) : indQ n [] = List.replicate n 0 := by
  unfold indQ
  apply List.ext_getElem <;> simp

theorem indQ_full (n : ℕ) {A : List ℕ} (h : ∀ u, u < n → u ∈ A) : indQ n A = List.replicate n 1 := by
  unfold indQ
  apply List.ext_getElem
  · simp
  · intro i h1 h2
    have : i < n := by simpa using h1
    simp [h i this]

theorem indQ_set (n : ℕ) (A : List ℕ) (a : ℕ) : (indQ n A).set a 1 = indQ n (a :: A) := by
  unfold indQ
  apply List.ext_getElem
  · simp
  · intro i h1 h2
    have hi : i < n := by simpa using h2
    by_cases hai : a = i
    · subst hai; simp
    · have : ¬ i = a := fun h => hai h.symm
      simp [List.getElem_set_ne hai, this]

theorem setAll_indQ (n : ℕ) (A l : List ℕ) : setAll (indQ n A) l = indQ n (l.reverse ++ A) := by
  induction l generalizing A with
  | nil => rfl
  | cons a l ih =>
    show setAll ((indQ n A).set a 1) l = _
    rw [indQ_set, ih]; simp

theorem setAll_replicate (n : ℕ) (l : List ℕ) : setAll (List.replicate n 0) l = indQ n l := by
  rw [← indQ_nil, setAll_indQ]
  apply indQ_congr; intro u _; simp

theorem isQuery_indQ (n : ℕ) (A : List ℕ) : IsQuery n (indQ n A) := by
  refine ⟨by simp [indQ], ?_⟩
  intro x hx
  simp only [indQ, List.mem_map] at hx
  obtain ⟨u, _, rfl⟩ := hx
  split <;> simp

/-- a duplicate-free list of `n` indices below `n` contains every index below `n` -/
theorem mem_of_isPerm {n : ℕ} {perm : List ℕ} (hnd : perm.Nodup) (hlt : ∀ x ∈ perm, x < n)
    (hlen : perm.length = n) (u : ℕ) (hu : u < n) : u ∈ perm := by
  have hsub : perm.toFinset ⊆ Finset.range n := by
    intro x hx; exact Finset.mem_range.mpr (hlt x (List.mem_toFinset.mp hx))
  have hcard : (Finset.range n).card ≤ perm.toFinset.card := by
    rw [List.toFinset_card_of_nodup hnd, hlen, Finset.card_range]
  have := Finset.eq_of_subset_of_card_le hsub hcard
  exact List.mem_toFinset.mp (this ▸ Finset.mem_range.mpr hu)


/-! ### truncation enabled: the walk with a ghost trace of the evaluated scores -/

/-- `stepP` instrumented with the list of scores evaluated so far (most recent first).  A step that
finds the walk already cut evaluates nothing. -/
def stepT (v : List Int → Outcome) (null mean : ℚ) (pr : Params) (s : Walk × List ℚ) (idx : ℕ) :
    Walk × List ℚ :=
  if s.1.cut then s else (next v null mean pr s.1 idx, (next v null mean pr s.1 idx).score :: s.2)

/-- the instrumented walk from state `w0` -/
def walkT (v : List Int → Outcome) (null mean : ℚ) (pr : Params) (w0 : Walk) (l : List ℕ) : Walk × List ℚ :=
  l.foldl (stepT v null mean pr) (w0, [])

theorem foldl_stepT_fst (v : List Int → Outcome) (null mean : ℚ) (pr : Params) (l : List ℕ)
    (s : Walk × List ℚ) :
    (l.foldl (stepT v null mean pr) s).1 = l.foldl (stepP v null mean pr) s.1 := by
  induction l generalizing s with
  | nil => rfl
  | cons a l ih =>
    rw [List.foldl_cons, List.foldl_cons, ih]
    congr 1
    unfold stepT stepP
    split <;> rfl

/-- the instrumentation does not change the walk -/
theorem walkT_fst (v : List Int → Outcome) (null mean : ℚ) (pr : Params) (w0 : Walk) (l : List ℕ) :
    (walkT v null mean pr w0 l).1 = l.foldl (stepP v null mean pr) w0 :=
  foldl_stepT_fst v null mean pr l (w0, [])

theorem walkT_concat (v : List Int → Outcome) (null mean : ℚ) (pr : Params) (w0 : Walk) (l : List ℕ) (a : ℕ) :
    walkT v null mean pr w0 (l ++ [a]) = stepT v null mean pr (walkT v null mean pr w0 l) a := by
  simp [walkT, List.foldl_append]

/-- the truncation invariant: `counter` is the length of the current run of consecutive in-band
scores, and the walk is cut exactly when truncation is enabled and that run is longer than
`truncSteps` -/
structure TInv (mean : ℚ) (pr : Params) (s : Walk × List ℚ) : Prop where
  counter_eq : s.1.counter = (s.2.takeWhile (fun x => decide (inBand mean pr x))).length
  cut_iff : s.1.cut = true ↔ (pr.truncSteps > 0 ∧ s.1.counter > pr.truncSteps)

theorem tinv_stepT {v : List Int → Outcome} {null mean : ℚ} {pr : Params} {s : Walk × List ℚ}
    (h : TInv mean pr s) (idx : ℕ) : TInv mean pr (stepT v null mean pr s idx) := by
  unfold stepT
  cases hc : s.1.cut with
  | true => simpa using h
  | false =>
    simp only [Bool.false_eq_true, if_false, next_score]
    by_cases hb : inBand mean pr (valOf null (v (s.1.query.set idx 1)))
    · rw [next_of_inBand hb]
      constructor
      · simp only [List.takeWhile_cons, hb, decide_true, if_true, List.length_cons, h.counter_eq]
      · simp
    · rw [next_of_not_inBand hb]
      constructor
      · simp [hb]
      · simp

theorem tinv_foldl {v : List Int → Outcome} {null mean : ℚ} {pr : Params} (l : List ℕ) {s : Walk × List ℚ}
    (h : TInv mean pr s) : TInv mean pr (l.foldl (stepT v null mean pr) s) := by
  induction l generalizing s with
  | nil => exact h
  | cons a l ih => exact ih (tinv_stepT h a)

theorem tinv_walkT {v : List Int → Outcome} {null mean : ℚ} {pr : Params} {w0 : Walk}
    (hc : w0.cut = false) (h0 : w0.counter = 0) (l : List ℕ) : TInv mean pr (walkT v null mean pr w0 l) := by
  apply tinv_foldl
  constructor
  · simp [h0]
  · simp [hc, h0]

/-- consequence of the invariant at a cut: the last `truncSteps + 1` evaluated scores are in band -/
theorem tinv_cut {mean : ℚ} {pr : Params} {s : Walk × List ℚ} (h : TInv mean pr s) (hcut : s.1.cut = true) :
    pr.truncSteps > 0 ∧ s.1.counter > pr.truncSteps ∧ pr.truncSteps + 1 ≤ s.2.length ∧
      ∀ x ∈ s.2.take (pr.truncSteps + 1), inBand mean pr x := by
  obtain ⟨h1, h2⟩ := h.cut_iff.mp hcut
  set p : ℚ → Bool := fun x => decide (inBand mean pr x) with hp
  have hlen : pr.truncSteps + 1 ≤ (s.2.takeWhile p).length := by rw [← h.counter_eq]; omega
  have hle : (s.2.takeWhile p).length ≤ s.2.length := (List.takeWhile_sublist p).length_le
  refine ⟨h1, h2, le_trans hlen hle, ?_⟩
  intro x hx
  have hsplit : s.2 = s.2.takeWhile p ++ s.2.dropWhile p := (List.takeWhile_append_dropWhile).symm
  rw [hsplit, List.take_append_of_le_length hlen] at hx
  have := List.mem_takeWhile_imp (List.mem_of_mem_take hx)
  simpa [hp] using this

/-- what the ghost trace is: it has one entry per evaluated step; the walk stopped evaluating after
`trace.length` steps; its `k`-th entry (in chronological order) is the score of the walk after `k+1`
steps, and the walk was not cut before any of these steps. -/
theorem walkT_spec (v : List Int → Outcome) (null mean : ℚ) (pr : Params) (w0 : Walk) (l : List ℕ) :
    (walkT v null mean pr w0 l).2.length ≤ l.length ∧
    ((walkT v null mean pr w0 l).1.cut = false → (walkT v null mean pr w0 l).2.length = l.length) ∧
    walkT v null mean pr w0 (l.take (walkT v null mean pr w0 l).2.length) = walkT v null mean pr w0 l ∧
    ∀ k, k < (walkT v null mean pr w0 l).2.length →
      (walkT v null mean pr w0 l).2.reverse[k]? = some (walkT v null mean pr w0 (l.take (k+1))).1.score ∧
      (walkT v null mean pr w0 (l.take k)).1.cut = false := by
  induction l using List.reverseRecOn with
  | nil => simp [walkT]
  | append_singleton l a ih =>
    obtain ⟨ih1, ih2, ih3, ih4⟩ := ih
    rw [walkT_concat]
    cases hc : (walkT v null mean pr w0 l).1.cut with
    | true =>
      have e : stepT v null mean pr (walkT v null mean pr w0 l) a = walkT v null mean pr w0 l := by
        unfold stepT; rw [hc]; rfl
      rw [e]
      refine ⟨(by simp; omega), (fun h => by rw [hc] at h; cases h), ?_, ?_⟩
      · rw [List.take_append_of_le_length ih1]; exact ih3
      · intro k hk
        have hk1 : k + 1 ≤ l.length := by omega
        rw [List.take_append_of_le_length hk1, List.take_append_of_le_length (by omega : k ≤ l.length)]
        exact ih4 k hk
    | false =>
      have hlen := ih2 hc
      have e : stepT v null mean pr (walkT v null mean pr w0 l) a =
          (next v null mean pr (walkT v null mean pr w0 l).1 a,
            (next v null mean pr (walkT v null mean pr w0 l).1 a).score :: (walkT v null mean pr w0 l).2) := by
        unfold stepT; rw [hc]; rfl
      have hfull : walkT v null mean pr w0 (l ++ [a]) =
          (next v null mean pr (walkT v null mean pr w0 l).1 a,
            (next v null mean pr (walkT v null mean pr w0 l).1 a).score :: (walkT v null mean pr w0 l).2) := by
        rw [walkT_concat, e]
      rw [e]
      simp only [List.length_cons, List.length_append, List.length_nil, hlen]
      refine ⟨le_refl _, fun _ => trivial, ?_, ?_⟩
      · rw [List.take_of_length_le (by simp)]; exact hfull
      · intro k hk
        rw [List.reverse_cons]
        by_cases hkl : k < l.length
        · rw [List.getElem?_append_left (by simpa [hlen] using hkl),
            List.take_append_of_le_length (by omega : k + 1 ≤ l.length),
            List.take_append_of_le_length (by omega : k ≤ l.length)]
          exact ih4 k (by omega)
        · have hk' : k = l.length := by omega
          subst hk'
          rw [List.take_of_length_le (by simp), List.take_append_of_le_length (le_refl _),
            List.take_length, hfull]
          refine ⟨?_, hc⟩
          rw [List.getElem?_append_right (by simp [hlen])]
          simp [hlen]

/-! ### from the monadic walk to the total walk, without assumptions on the utility -/

/-- whenever the monadic walk finishes, its final state is the one of the total walk -/
theorem foldlM_step_some {v : List Int → Outcome} {null mean : ℚ} {pr : Params} (l : List ℕ) {w w' : Walk}
    (h : l.foldlM (step v null mean pr) w = some w') : w' = l.foldl (stepP v null mean pr) w := by
  induction l generalizing w with
  | nil => exact (Option.some.inj h).symm
  | cons a l ih =>
    rw [List.foldlM_cons] at h
    cases hc : w.cut with
    | true =>
      rw [step_of_cut a hc] at h
      have e : stepP v null mean pr w a = w := by unfold stepP; rw [hc]; rfl
      rw [List.foldl_cons, e]
      exact ih h
    | false =>
      by_cases ha : v (w.query.set a 1) = .other
      · rw [step_of_other hc ha] at h; cases h
      · rw [step_of_not_cut hc ha] at h
        have e : stepP v null mean pr w a = next v null mean pr w a := by unfold stepP; rw [hc]; rfl
        rw [List.foldl_cons, e]
        exact ih h

/-- if the monadic walk finishes, so does every prefix of it -/
theorem foldlM_step_take {v : List Int → Outcome} {null mean : ℚ} {pr : Params} (l : List ℕ) {w w' : Walk}
    (h : l.foldlM (step v null mean pr) w = some w') (k : ℕ) :
    (l.take k).foldlM (step v null mean pr) w = some ((l.take k).foldl (stepP v null mean pr) w) := by
  rw [← List.take_append_drop k l, List.foldlM_append] at h
  cases hk : (l.take k).foldlM (step v null mean pr) w with
  | none => rw [hk] at h; cases h
  | some wk => rw [foldlM_step_some _ hk]

/-- chronological reading of `tinv_cut` -/
theorem tinv_cut_chrono {mean : ℚ} {pr : Params} {s : Walk × List ℚ} (h : TInv mean pr s)
    (hcut : s.1.cut = true) (k : ℕ) (hk1 : s.2.length - (pr.truncSteps + 1) ≤ k) (hk2 : k < s.2.length) :
    ∃ x, s.2.reverse[k]? = some x ∧ inBand mean pr x := by
  obtain ⟨_, _, hlen, hall⟩ := tinv_cut h hcut
  have hm : s.2.length - 1 - k < s.2.length := by omega
  refine ⟨s.2[s.2.length - 1 - k], ?_, ?_⟩
  · rw [List.getElem?_reverse hk2, List.getElem?_eq_getElem hm]
  · apply hall
    have hm' : s.2.length - 1 - k < (s.2.take (pr.truncSteps + 1)).length := by
      rw [List.length_take]; omega
    have : (s.2.take (pr.truncSteps + 1))[s.2.length - 1 - k] = s.2[s.2.length - 1 - k] := by
      rw [List.getElem_take]
    rw [← this]
    exact List.getElem_mem hm'


/-! ### the column of a permutation, truncation disabled -/

theorem columnP_eq_next {n : ℕ} {v : List Int → Outcome} {null mean : ℚ} {pr : Params}
    (htr : pr.truncSteps = 0) (perm : List ℕ) :
    columnP n v null mean pr perm = (perm.foldl (next v null mean pr) (init n (base n v null))).imp := by
  unfold columnP
  rw [(foldl_stepP_eq_next htr perm (w := init n (base n v null)) rfl).1]

theorem columnP_entry {n : ℕ} {v : List Int → Outcome} {null mean : ℚ} {pr : Params}
    (htr : pr.truncSteps = 0) {perm : List ℕ} (hnd : perm.Nodup) (hlt : ∀ x ∈ perm, x < n)
    (k : ℕ) (hk : k < perm.length) :
    (columnP n v null mean pr perm).getD perm[k] 0 =
      valOf null (v (indQ n (perm.take (k+1)))) - valOf null (v (indQ n (perm.take k))) := by
  rw [columnP_eq_next htr, foldl_next_imp_entry v null mean pr perm _ hnd (by simpa [init] using hlt) k hk]
  simp only [init, setAll_replicate]
  congr 1
  cases k with
  | zero => simp [base, indQ_nil]
  | succ k => simp

theorem columnP_untouched {n : ℕ} {v : List Int → Outcome} {null mean : ℚ} {pr : Params}
    (perm : List ℕ) (u : ℕ) (hu : u ∉ perm) : (columnP n v null mean pr perm).getD u 0 = 0 := by
  unfold columnP
  rw [foldl_stepP_imp_untouched _ _ _ _ _ _ _ hu]
  simp only [init, List.getD_eq_getElem?_getD, List.getElem?_replicate]
  split <;> rfl

theorem columnP_sum {n : ℕ} {v : List Int → Outcome} {null mean : ℚ} {pr : Params}
    (htr : pr.truncSteps = 0) {perm : List ℕ} (hnd : perm.Nodup) (hlt : ∀ x ∈ perm, x < n) :
    (columnP n v null mean pr perm).sum =
      valOf null (v (indQ n perm)) - valOf null (v (List.replicate n 0)) := by
  rw [columnP_eq_next htr, foldl_next_imp_sum v null mean pr perm _ hnd (by simpa [init] using hlt)
    (fun a _ => by
      simp only [init, List.getD_eq_getElem?_getD, List.getElem?_replicate]
      split <;> rfl)]
  have h0 : (init n (base n v null)).imp.sum = 0 := by simp [init]
  rw [h0, zero_add]
  congr 1
  by_cases hp : perm = []
  · subst hp; simp [init, base, indQ_nil]
  · rw [foldl_next_score _ _ _ _ _ _ hp]; simp [init, setAll_replicate]

theorem columnP_sum_full {n : ℕ} {v : List Int → Outcome} {null mean : ℚ} {pr : Params}
    (htr : pr.truncSteps = 0) {perm : List ℕ} (hnd : perm.Nodup) (hlt : ∀ x ∈ perm, x < n)
    (hlen : perm.length = n) :
    (columnP n v null mean pr perm).sum =
      valOf null (v (List.replicate n 1)) - valOf null (v (List.replicate n 0)) := by
  rw [columnP_sum htr hnd hlt, indQ_full n (mem_of_isPerm hnd hlt hlen)]


/-! ### index lists ↔ `Equiv.Perm (Fin n)` -/

/-- `p` lists every unit `0 … n-1` exactly once -/
def IsPerm (n : ℕ) (p : List ℕ) : Prop := p.Nodup ∧ (∀ x ∈ p, x < n) ∧ p.length = n

/-- the visiting order of the ordering `σ` (unit ↦ position): position `k` holds unit `σ⁻¹ k` -/
def listOf {n : ℕ} (σ : Equiv.Perm (Fin n)) : List ℕ := List.ofFn (fun k : Fin n => (σ.symm k).val)

theorem length_listOf {n : ℕ} (σ : Equiv.Perm (Fin n)) : (listOf σ).length = n := by simp [listOf]

theorem isPerm_listOf {n : ℕ} (σ : Equiv.Perm (Fin n)) : IsPerm n (listOf σ) := by
  refine ⟨?_, ?_, length_listOf σ⟩
  · exact List.nodup_ofFn.mpr (fun a b h => σ.symm.injective (Fin.val_injective h))
  · intro x hx
    simp only [listOf, List.mem_ofFn] at hx
    obtain ⟨k, rfl⟩ := hx
    exact (σ.symm k).isLt

theorem listOf_injective {n : ℕ} : Function.Injective (listOf : Equiv.Perm (Fin n) → List ℕ) := by
  intro σ τ h
  have h1 := List.ofFn_injective h
  have h2 : σ.symm = τ.symm := by
    ext k; exact congrArg Fin.val (Fin.val_injective (congrFun h1 k))
  have := congrArg Equiv.symm h2
  simpa using this

theorem exists_listOf_eq {n : ℕ} {p : List ℕ} (hp : IsPerm n p) : ∃ σ : Equiv.Perm (Fin n), listOf σ = p := by
  obtain ⟨hnd, hlt, hlen⟩ := hp
  let f : Fin n → Fin n := fun k => ⟨p[k.val]'(by rw [hlen]; exact k.isLt), hlt _ (List.getElem_mem _)⟩
  have hinj : Function.Injective f := by
    intro a b hab
    have : p[a.val]'(by rw [hlen]; exact a.isLt) = p[b.val]'(by rw [hlen]; exact b.isLt) :=
      congrArg Fin.val hab
    exact Fin.ext ((List.Nodup.getElem_inj_iff hnd).mp this)
  have hbij : Function.Bijective f := Finite.injective_iff_bijective.mp hinj
  refine ⟨(Equiv.ofBijective f hbij).symm, ?_⟩
  apply List.ext_getElem
  · simp [listOf, hlen]
  · intro i h1 h2
    simp [listOf, f]

theorem getElem?_listOf {n : ℕ} (σ : Equiv.Perm (Fin n)) (i : Fin n) :
    (listOf σ)[(σ i).val]? = some i.val := by
  simp [listOf]

theorem mem_take_listOf {n : ℕ} (σ : Equiv.Perm (Fin n)) (u : Fin n) (k : ℕ) :
    u.val ∈ (listOf σ).take k ↔ (σ u).val < k := by
  rw [List.mem_take_iff_getElem]
  constructor
  · rintro ⟨m, hm, hmu⟩
    have hmn : m < n := by
      have := (lt_min_iff.mp hm).2; rwa [length_listOf] at this
    have hmk : m < k := (lt_min_iff.mp hm).1
    have e : σ.symm ⟨m, hmn⟩ = u := by
      apply Fin.ext
      simpa [listOf] using hmu
    have : σ u = ⟨m, hmn⟩ := by rw [← e]; simp
    rw [this]; exact hmk
  · intro h
    refine ⟨(σ u).val, lt_min_iff.mpr ⟨h, by rw [length_listOf]; exact (σ u).isLt⟩, ?_⟩
    simp [listOf]

/-- the 0/1 query vector of a coalition -/
def indS {n : ℕ} (S : Finset (Fin n)) : List Int := List.ofFn (fun i : Fin n => if i ∈ S then (1 : Int) else 0)

theorem indQ_take_listOf {n : ℕ} (σ : Equiv.Perm (Fin n)) (k : ℕ) :
    indQ n ((listOf σ).take k) = indS (Finset.univ.filter (fun j : Fin n => (σ j).val < k)) := by
  apply List.ext_getElem
  · simp [indQ, indS]
  · intro u h1 h2
    have hu : u < n := by simpa [indQ] using h1
    have := mem_take_listOf σ ⟨u, hu⟩ k
    simp only [indQ, indS, List.getElem_map, List.getElem_range, List.getElem_ofFn,
      Finset.mem_filter, Finset.mem_univ, true_and]
    rw [if_congr this rfl rfl]

/-- the cooperative game the utility defines: a coalition is worth the value of its 0/1 query -/
def gameOf (n : ℕ) (v : List Int → Outcome) (null : ℚ) : Sh.Game n := fun S => valOf null (v (indS S))

theorem indS_univ (n : ℕ) : indS (Finset.univ : Finset (Fin n)) = List.replicate n 1 := by
  apply List.ext_getElem <;> simp [indS]

theorem indS_empty (n : ℕ) : indS (∅ : Finset (Fin n)) = List.replicate n 0 := by
  apply List.ext_getElem <;> simp [indS]

/-- the column entry of unit `i` for the visiting order of `σ` is `i`'s marginal contribution to
the units before it -/
theorem columnP_listOf {n : ℕ} {v : List Int → Outcome} {null mean : ℚ} {pr : Params}
    (htr : pr.truncSteps = 0) (σ : Equiv.Perm (Fin n)) (i : Fin n) :
    (columnP n v null mean pr (listOf σ)).getD i.val 0 =
      gameOf n v null (insert i (Sh.before σ i)) - gameOf n v null (Sh.before σ i) := by
  obtain ⟨hnd, hlt, hlen⟩ := isPerm_listOf σ
  have hk : (σ i).val < (listOf σ).length := by rw [hlen]; exact (σ i).isLt
  have hget : (listOf σ)[(σ i).val] = i.val := by
    have := getElem?_listOf σ i
    rw [List.getElem?_eq_getElem hk] at this
    exact Option.some.inj this
  have := columnP_entry (v := v) (null := null) (mean := mean) htr hnd hlt (σ i).val hk
  rw [hget] at this
  rw [this, indQ_take_listOf, indQ_take_listOf]
  unfold gameOf
  have e1 : (Finset.univ.filter (fun j : Fin n => (σ j).val < (σ i).val)) = Sh.before σ i := by
    ext j; simp only [Sh.before, Finset.mem_filter, Finset.mem_univ, true_and, Fin.lt_def]
  have e2 : (Finset.univ.filter (fun j : Fin n => (σ j).val < (σ i).val + 1)) = insert i (Sh.before σ i) := by
    ext j
    simp only [Sh.before, Finset.mem_filter, Finset.mem_univ, true_and, Finset.mem_insert, Fin.lt_def]
    constructor
    · intro h
      by_cases hji : (σ j).val = (σ i).val
      · left; exact σ.injective (Fin.ext hji)
      · right; omega
    · rintro (rfl | h) <;> omega
  rw [e1, e2]

theorem count_eq_countP_decide {α : Type} [BEq α] [LawfulBEq α] [DecidableEq α] (l : List α) (a : α) :
    l.count a = l.countP (fun b => decide (b = a)) := by
  rw [List.count_eq_countP]
  congr 1
  funext b
  by_cases h : b = a <;> simp [h]

/-- `List.count` under the two (equal) Boolean equalities on `List ℕ` that elaboration may pick -/
theorem count_inst (l : List (List ℕ)) (a : List ℕ) :
    @List.count _ instBEqOfDecidableEq a l = @List.count _ List.instBEq a l :=
  (@count_eq_countP_decide _ instBEqOfDecidableEq _ _ l a).trans
    (@count_eq_countP_decide _ List.instBEq _ _ l a).symm

/-- summing over a list of index lists in which every permutation of `0 … n-1` occurs exactly `c`
times is `c` times the sum over `Equiv.Perm (Fin n)` -/
theorem sum_perms_eq {n c : ℕ} {perms : List (List ℕ)} (hperm : ∀ p ∈ perms, IsPerm n p)
    (hcount : ∀ p, IsPerm n p → perms.count p = c) (hc : 0 < c) (F : List ℕ → ℚ) :
    (perms.map F).sum = c * ∑ σ : Equiv.Perm (Fin n), F (listOf σ) ∧ perms.length = c * n.factorial := by
  have hset : perms.toFinset = Finset.univ.image (listOf : Equiv.Perm (Fin n) → List ℕ) := by
    ext p
    simp only [List.mem_toFinset, Finset.mem_image, Finset.mem_univ, true_and]
    constructor
    · intro hp; exact exists_listOf_eq (hperm p hp)
    · rintro ⟨σ, rfl⟩
      have := hcount _ (isPerm_listOf σ)
      exact List.count_pos_iff.mp (by omega)
  constructor
  · rw [Finset.sum_list_map_count, hset, Finset.sum_image (fun a _ b _ h => listOf_injective h),
      Finset.mul_sum]
    apply Finset.sum_congr rfl
    intro σ _
    rw [count_inst, hcount _ (isPerm_listOf σ)]; simp
  · rw [← List.sum_toFinset_count_eq_length, hset,
      Finset.sum_image (fun a _ b _ h => listOf_injective h)]
    rw [Finset.sum_congr rfl (fun σ _ => (count_inst perms (listOf σ)).trans (hcount _ (isPerm_listOf σ)))]
    simp [Fintype.card_perm, mul_comm]


/-! ### averaging -/

theorem map_getD_range {L : List ℚ} {n : ℕ} (h : L.length = n) :
    (List.range n).map (fun i => L.getD i 0) = L := by
  apply List.ext_getElem
  · simp [h]
  · intro i h1 h2
    simp [List.getD_eq_getElem?_getD, h2]

theorem sum_map_sum_swap (n : ℕ) (cols : List (List ℚ)) :
    ((List.range n).map (fun i => (cols.map (·.getD i 0)).sum)).sum =
      (cols.map (fun c => ((List.range n).map (fun i => c.getD i 0)).sum)).sum := by
  induction cols with
  | nil => simp
  | cons c cs ih =>
    simp only [List.map_cons, List.sum_cons]
    rw [← ih, ← List.sum_map_add]

theorem sum_avgP (n : ℕ) (cols : List (List ℚ)) (hlen : ∀ c ∈ cols, c.length = n) :
    (avgP n cols).sum = (cols.map List.sum).sum / (cols.length : ℕ) := by
  unfold avgP
  have : (fun i => (cols.map (·.getD i 0)).sum / ((cols.length : ℕ) : ℚ)) =
      (fun i => (cols.map (·.getD i 0)).sum * ((cols.length : ℕ) : ℚ)⁻¹) := by
    funext i; rw [div_eq_mul_inv]
  rw [this, List.sum_map_mul_right, sum_map_sum_swap, div_eq_mul_inv]
  congr 2
  apply List.map_congr_left
  intro c hc
  rw [map_getD_range (hlen c hc)]

theorem getD_avgP (n : ℕ) (cols : List (List ℚ)) {i : ℕ} (hi : i < n) :
    (avgP n cols).getD i 0 = (cols.map (·.getD i 0)).sum / (cols.length : ℕ) := by
  unfold avgP
  rw [getD_range_map _ hi]


end MCP
