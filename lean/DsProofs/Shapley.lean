import Mathlib.Algebra.BigOperators.Group.Finset.Basic
import Mathlib.Algebra.BigOperators.Ring.Finset
import Mathlib.Algebra.BigOperators.Fin
import Mathlib.Data.Fintype.Perm
import Mathlib.Data.Fintype.Powerset
import Mathlib.Data.Finset.Powerset
import Mathlib.Data.Nat.Choose.Basic
import Mathlib.Data.Rat.Defs
import Mathlib.Algebra.Order.Field.Rat
import Mathlib.Tactic.Ring
import Mathlib.Tactic.FieldSimp
import Mathlib.Tactic.Linarith
import Mathlib.Data.Nat.Choose.Sum
import Mathlib.Data.Finset.Interval
import Mathlib.Algebra.BigOperators.Field
import Mathlib.Algebra.BigOperators.Intervals
import Mathlib.Algebra.Group.Units.Equiv

open Finset

namespace Sh
variable {n : ℕ}

abbrev Game (n : ℕ) := Finset (Fin n) → ℚ

/-- weight of a coalition of size s (not containing the player) among n players -/
def w (n s : ℕ) : ℚ := (s.factorial * (n - s - 1).factorial : ℚ) / n.factorial

/-- coefficient of `v S` in player i's value (this is what the bruteforce code accumulates) -/
def coef (n : ℕ) (i : Fin n) (S : Finset (Fin n)) : ℚ :=
  if i ∈ S then w n (S.card - 1) else - w n S.card

/-- Shapley value, coefficient form -/
def phi (v : Game n) (i : Fin n) : ℚ := ∑ S : Finset (Fin n), v S * coef n i S

/-- Shapley value, marginal form (the textbook definition) -/
def phiM (v : Game n) (i : Fin n) : ℚ :=
  ∑ S ∈ (univ.erase i).powerset, w n S.card * (v (insert i S) - v S)

theorem phi_add (v u : Game n) (i : Fin n) : phi (fun S => v S + u S) i = phi v i + phi u i := by
  simp [phi, add_mul, Finset.sum_add_distrib]

theorem phi_smul (c : ℚ) (v : Game n) (i : Fin n) : phi (fun S => c * v S) i = c * phi v i := by
  simp [phi, Finset.mul_sum, mul_assoc]

theorem phi_sum {ι : Type*} (s : Finset ι) (g : ι → Game n) (i : Fin n) :
    phi (fun S => ∑ k ∈ s, g k S) i = ∑ k ∈ s, phi (g k) i := by
  classical
  induction s using Finset.induction_on with
  | empty => simp [phi]
  | insert a s ha ih =>
    simp only [Finset.sum_insert ha]
    rw [phi_add, ih]

/-- marginal form = coefficient form -/
theorem phiM_eq_phi (v : Game n) (i : Fin n) : phiM v i = phi v i := by
  classical
  unfold phiM phi
  -- split the full sum by membership of i
  rw [← Finset.sum_filter_add_sum_filter_not univ (fun S : Finset (Fin n) => i ∈ S)]
  have hnot : (univ.filter (fun S : Finset (Fin n) => i ∉ S)) = (univ.erase i).powerset := by
    ext S; simp [Finset.mem_powerset, Finset.subset_erase]
  have hmem : (univ.filter (fun S : Finset (Fin n) => i ∈ S)) = ((univ.erase i).powerset).image (insert i) := by
    ext S
    simp only [mem_filter, mem_univ, true_and, mem_image, mem_powerset]
    constructor
    · intro h
      refine ⟨S.erase i, ?_, Finset.insert_erase h⟩
      exact Finset.erase_subset_erase _ (Finset.subset_univ _)
    · rintro ⟨T, _, rfl⟩; exact Finset.mem_insert_self _ _
  rw [hnot, hmem, Finset.sum_image]
  · rw [← Finset.sum_add_distrib]
    apply Finset.sum_congr rfl
    intro S hS
    have hi : i ∉ S := fun h => by
      have := Finset.mem_powerset.mp hS h; simp at this
    simp [coef, hi, Finset.card_insert_of_notMem hi]
    ring
  · intro S hS T hT h
    have hiS : i ∉ S := fun h => by have := Finset.mem_powerset.mp hS h; simp at this
    have hiT : i ∉ T := fun h => by have := Finset.mem_powerset.mp hT h; simp at this
    have := congrArg (fun X => X.erase i) h
    simpa [Finset.erase_insert hiS, Finset.erase_insert hiT] using this

theorem sum_coef (S : Finset (Fin n)) :
    ∑ i, coef n i S = S.card * w n (S.card - 1) - (n - S.card) * w n S.card := by
  classical
  unfold coef
  rw [Finset.sum_ite]
  simp only [Finset.sum_const, nsmul_eq_mul]
  have h1 : (univ.filter (fun i => i ∈ S)) = S := by ext; simp
  have h2 : (univ.filter (fun i => i ∉ S)).card = n - S.card := by
    rw [Finset.filter_not, Finset.card_sdiff_of_subset (by simp)]
    simp [h1]
  rw [h1, h2]
  have : S.card ≤ n := by simpa using S.card_le_univ
  push_cast [this]
  ring

theorem w_step {s : ℕ} (hs : 0 < s) (hn : s < n) :
    (s : ℚ) * w n (s - 1) = (n - s : ℚ) * w n s := by
  unfold w
  obtain ⟨t, rfl⟩ : ∃ t, s = t + 1 := ⟨s - 1, by omega⟩
  obtain ⟨m, rfl⟩ : ∃ m, n = t + 1 + m + 1 := ⟨n - (t + 1) - 1, by omega⟩
  have e1 : t + 1 + m + 1 - (t + 1 - 1) - 1 = m + 1 := by omega
  have e2 : t + 1 + m + 1 - (t + 1) - 1 = m := by omega
  have e3 : t + 1 - 1 = t := by omega
  rw [e1, e2, e3]
  have hf : ((t + 1 + m + 1).factorial : ℚ) ≠ 0 := by exact_mod_cast Nat.factorial_ne_zero _
  field_simp
  push_cast [Nat.factorial_succ]
  ring

theorem w_top (hn : 0 < n) : (n : ℚ) * w n (n - 1) = 1 := by
  unfold w
  obtain ⟨m, rfl⟩ : ∃ m, n = m + 1 := ⟨n - 1, by omega⟩
  have : m + 1 - (m + 1 - 1) - 1 = 0 := by omega
  rw [this]
  have hf : ((m + 1).factorial : ℚ) ≠ 0 := by exact_mod_cast Nat.factorial_ne_zero _
  field_simp
  simp [Nat.factorial_succ]

theorem w_bot (hn : 0 < n) : (n : ℚ) * w n 0 = 1 := by
  unfold w
  obtain ⟨m, rfl⟩ : ∃ m, n = m + 1 := ⟨n - 1, by omega⟩
  have hf : ((m + 1).factorial : ℚ) ≠ 0 := by exact_mod_cast Nat.factorial_ne_zero _
  field_simp
  simp [Nat.factorial_succ]

/-- Efficiency -/
theorem phi_efficiency (hn : 0 < n) (v : Game n) : ∑ i, phi v i = v univ - v ∅ := by
  classical
  unfold phi
  rw [Finset.sum_comm]
  simp_rw [← Finset.mul_sum, sum_coef]
  -- all terms vanish except S = univ and S = ∅
  have key : ∀ S : Finset (Fin n), S ≠ univ → S ≠ ∅ →
      v S * ((S.card : ℚ) * w n (S.card - 1) - (n - S.card) * w n S.card) = 0 := by
    intro S h1 h2
    have hpos : 0 < S.card := Finset.card_pos.mpr (Finset.nonempty_iff_ne_empty.mpr h2)
    have hlt : S.card < n := by
      have := Finset.card_lt_card (Finset.ssubset_univ_iff.mpr h1)
      simpa using this
    rw [w_step hpos hlt]; ring
  have hne : (univ : Finset (Fin n)) ≠ ∅ := by
    haveI : Nonempty (Fin n) := ⟨⟨0, hn⟩⟩
    exact Finset.univ_nonempty.ne_empty
  rw [← Finset.sum_subset (Finset.subset_univ ({univ, ∅} : Finset (Finset (Fin n))))]
  · rw [Finset.sum_pair hne]
    simp only [Finset.card_univ, Fintype.card_fin, Finset.card_empty, Nat.cast_zero, sub_zero, zero_mul, zero_sub, sub_self]
    have a := w_top hn; have b := w_bot hn
    rw [a]
    have : v ∅ * -(↑n * w n 0) = - v ∅ := by rw [b]; ring
    linarith
  · intro S _ hS
    simp only [Finset.mem_insert, Finset.mem_singleton, not_or] at hS
    exact key S hS.1 hS.2


theorem coef_map (π : Equiv.Perm (Fin n)) (i : Fin n) (S : Finset (Fin n)) :
    coef n (π i) (S.map π.toEmbedding) = coef n i S := by
  simp [coef, Finset.card_map]

/-- Equivariance: relabelling the players by π relabels the values by π. -/
theorem phi_equivariant (π : Equiv.Perm (Fin n)) (v : Game n) (i : Fin n) :
    phi (fun S => v (S.map π.toEmbedding)) i = phi v (π i) := by
  unfold phi
  rw [← Equiv.sum_comp (Equiv.finsetCongr π) (fun T => v T * coef n (π i) T)]
  apply Finset.sum_congr rfl
  intro S _
  simp only [Equiv.finsetCongr_apply]
  rw [coef_map]

theorem phi_null (v : Game n) (i : Fin n) (h : ∀ S, v (insert i S) = v S) : phi v i = 0 := by
  rw [← phiM_eq_phi]; unfold phiM
  apply Finset.sum_eq_zero; intro S _; rw [h]; ring

theorem phi_const (c : ℚ) (i : Fin n) : phi (fun _ => c) i = 0 :=
  phi_null _ i (fun _ => rfl)

/-- symmetric players get equal value -/
theorem phi_symm (v : Game n) (i j : Fin n)
    (h : ∀ S, v (S.map (Equiv.swap i j).toEmbedding) = v S) : phi v i = phi v j := by
  have := phi_equivariant (Equiv.swap i j) v i
  simp only [h, Equiv.swap_apply_left] at this
  exact this

/-- `hit T S = 1` iff S meets T -/
def hit (T : Finset (Fin n)) : Game n := fun S => if (S ∩ T).Nonempty then 1 else 0

theorem phi_hit_out (T : Finset (Fin n)) (i : Fin n) (hi : i ∉ T) : phi (hit T) i = 0 := by
  classical
  apply phi_null
  intro S
  unfold hit
  have : insert i S ∩ T = S ∩ T := by
    rw [Finset.insert_inter_of_notMem hi]
  rw [this]

theorem hit_swap (T : Finset (Fin n)) (i j : Fin n) (hi : i ∈ T) (hj : j ∈ T) (S : Finset (Fin n)) :
    hit T (S.map (Equiv.swap i j).toEmbedding) = hit T S := by
  classical
  unfold hit
  have : (S.map (Equiv.swap i j).toEmbedding ∩ T).Nonempty ↔ (S ∩ T).Nonempty := by
    constructor
    · rintro ⟨x, hx⟩
      simp only [Finset.mem_inter, Finset.mem_map, Equiv.coe_toEmbedding] at hx
      obtain ⟨⟨y, hy, rfl⟩, hxT⟩ := hx
      refine ⟨y, Finset.mem_inter.mpr ⟨hy, ?_⟩⟩
      by_cases h1 : y = i
      · subst h1; exact hi
      by_cases h2 : y = j
      · subst h2; exact hj
      rwa [Equiv.swap_apply_of_ne_of_ne h1 h2] at hxT
    · rintro ⟨y, hy⟩
      simp only [Finset.mem_inter] at hy
      refine ⟨Equiv.swap i j y, Finset.mem_inter.mpr ⟨Finset.mem_map.mpr ⟨y, hy.1, rfl⟩, ?_⟩⟩
      by_cases h1 : y = i
      · subst h1; simpa using hj
      by_cases h2 : y = j
      · subst h2; simpa using hi
      rw [Equiv.swap_apply_of_ne_of_ne h1 h2]; exact hy.2
  simp only [this]

theorem phi_hit_in (hn : 0 < n) (T : Finset (Fin n)) (i : Fin n) (hi : i ∈ T) :
    phi (hit T) i = 1 / T.card := by
  classical
  have heff := phi_efficiency hn (hit T)
  have hsplit : ∑ j, phi (hit T) j = ∑ j ∈ T, phi (hit T) j := by
    symm; apply Finset.sum_subset (Finset.subset_univ _)
    intro j _ hj; exact phi_hit_out T j hj
  have hconst : ∑ j ∈ T, phi (hit T) j = T.card * phi (hit T) i := by
    rw [Finset.sum_congr rfl (fun j hj => (phi_symm (hit T) i j (hit_swap T i j hi hj)).symm)]
    simp
  have hu : hit T univ = 1 := by
    unfold hit; rw [if_pos]; exact ⟨i, by simp [hi]⟩
  have he : hit T (∅ : Finset (Fin n)) = 0 := by unfold hit; simp
  rw [hsplit, hconst, hu, he] at heff
  have hc : (T.card : ℚ) ≠ 0 := by
    have : 0 < T.card := Finset.card_pos.mpr ⟨i, hi⟩
    exact_mod_cast this.ne'
  field_simp
  linarith


/-- players are ranks: rank 0 is nearest. `u k` is the utility of rank k's label, `u n` the null value. -/
def nnGame (u : ℕ → ℚ) : Game n := fun S => if h : S.Nonempty then u (S.min' h).val else u n

def near (k : ℕ) : Finset (Fin n) := univ.filter (fun j => j.val ≤ k)

theorem hit_near (k : ℕ) (S : Finset (Fin n)) (h : S.Nonempty) :
    hit (near k) S = if (S.min' h).val ≤ k then 1 else 0 := by
  classical
  unfold hit near
  by_cases hk : (S.min' h).val ≤ k
  · rw [if_pos hk, if_pos]
    exact ⟨S.min' h, by simp [Finset.min'_mem, hk]⟩
  · rw [if_neg hk, if_neg]
    rintro ⟨x, hx⟩
    simp only [Finset.mem_inter, Finset.mem_filter, Finset.mem_univ, true_and] at hx
    have := Finset.min'_le S x hx.1
    exact hk (le_trans (by exact_mod_cast this) hx.2)

theorem tele (u : ℕ → ℚ) (m n : ℕ) (hm : m ≤ n) :
    ∑ k ∈ range n, (u k - u (k+1)) * (if m ≤ k then 1 else 0) = u m - u n := by
  induction n with
  | zero => have : m = 0 := by omega
            subst this; simp
  | succ n ih =>
    rw [Finset.sum_range_succ]
    by_cases h : m ≤ n
    · rw [ih h, if_pos h]; ring
    · have : m = n + 1 := by omega
      subst this
      have : ∑ k ∈ range n, (u k - u (k+1)) * (if n + 1 ≤ k then (1:ℚ) else 0) = 0 := by
        apply Finset.sum_eq_zero; intro k hk
        have : ¬ (n + 1 ≤ k) := by have := Finset.mem_range.mp hk; omega
        simp [this]
      rw [this]; simp

theorem nnGame_decomp (u : ℕ → ℚ) (S : Finset (Fin n)) :
    nnGame u S = u n + ∑ k ∈ range n, (u k - u (k+1)) * hit (near k) S := by
  classical
  unfold nnGame
  by_cases h : S.Nonempty
  · rw [dif_pos h]
    simp_rw [hit_near _ S h]
    rw [tele u _ n (le_of_lt (S.min' h).isLt)]; ring
  · rw [dif_neg h]
    have : S = ∅ := Finset.not_nonempty_iff_eq_empty.mp h
    subst this
    simp [hit]

theorem phi_nnGame (hn : 0 < n) (u : ℕ → ℚ) (i : Fin n) :
    phi (nnGame u) i = ∑ k ∈ range n, (u k - u (k+1)) * (if i.val ≤ k then 1 / ((k:ℚ) + 1) else 0) := by
  classical
  have : (nnGame u : Game n) = fun S => (fun _ => u n) S + ∑ k ∈ range n, (fun S => (u k - u (k+1)) * hit (near k) S) S := by
    funext S; exact nnGame_decomp u S
  rw [this, phi_add, phi_const, zero_add, phi_sum]
  apply Finset.sum_congr rfl
  intro k hk
  rw [phi_smul]
  congr 1
  by_cases hik : i.val ≤ k
  · rw [if_pos hik, phi_hit_in hn (near k) i (by simp [near, hik])]
    have hk' : k < n := Finset.mem_range.mp hk
    have hcard : (near k : Finset (Fin n)).card = k + 1 := by
      unfold near
      have : (univ.filter (fun j : Fin n => j.val ≤ k)) = (Finset.range (k+1)).attachFin (fun j hj => by have := Finset.mem_range.mp hj; omega) := by
        ext j; simp [Finset.mem_attachFin] <;> omega
      rw [this, Finset.card_attachFin, Finset.card_range]
    rw [hcard]; push_cast; ring
  · rw [if_neg hik, phi_hit_out (near k) i (by simp [near, hik])]


/-! ### Permutation form -/

/-- players placed before `i` by the ordering `σ` (player ↦ position) -/
def before (σ : Equiv.Perm (Fin n)) (i : Fin n) : Finset (Fin n) := univ.filter (fun j => σ j < σ i)

def phiP (v : Game n) (i : Fin n) : ℚ :=
  (∑ σ : Equiv.Perm (Fin n), (v (insert i (before σ i)) - v (before σ i))) / n.factorial

theorem phiP_add (v u : Game n) (i : Fin n) : phiP (fun S => v S + u S) i = phiP v i + phiP u i := by
  unfold phiP; rw [← add_div, ← Finset.sum_add_distrib]; congr 1
  apply Finset.sum_congr rfl; intro σ _; ring

theorem phiP_smul (c : ℚ) (v : Game n) (i : Fin n) : phiP (fun S => c * v S) i = c * phiP v i := by
  unfold phiP; rw [← mul_div_assoc, Finset.mul_sum]; congr 1
  apply Finset.sum_congr rfl; intro σ _; ring

theorem phiP_null (v : Game n) (i : Fin n) (h : ∀ S, v (insert i S) = v S) : phiP v i = 0 := by
  simp [phiP, h]

theorem mem_before (σ : Equiv.Perm (Fin n)) (i j : Fin n) : j ∈ before σ i ↔ σ j < σ i := by
  simp [before]

theorem before_mul (τ π : Equiv.Perm (Fin n)) (i : Fin n) :
    (before (τ * π) i).map π.toEmbedding = before τ (π i) := by
  ext k
  rw [Finset.mem_map, mem_before]
  constructor
  · rintro ⟨j, hj, rfl⟩
    rw [mem_before] at hj
    simpa using hj
  · intro hk
    refine ⟨π.symm k, ?_, by simp⟩
    rw [mem_before]; simpa using hk

theorem phiP_equivariant (π : Equiv.Perm (Fin n)) (v : Game n) (i : Fin n) :
    phiP (fun S => v (S.map π.toEmbedding)) i = phiP v (π i) := by
  classical
  unfold phiP
  congr 1
  rw [← Equiv.sum_comp (Equiv.mulRight π)
    (fun σ => v ((insert i (before σ i)).map π.toEmbedding) - v ((before σ i).map π.toEmbedding))]
  apply Finset.sum_congr rfl
  intro τ _
  simp only [Equiv.coe_mulRight]
  rw [Finset.map_insert, before_mul τ π i]
  rfl

theorem tele_fin (f : ℕ → ℚ) (n : ℕ) : ∑ k : Fin n, (f (k.val + 1) - f k.val) = f n - f 0 := by
  rw [Fin.sum_univ_eq_sum_range (fun k => f (k + 1) - f k) n]
  exact Finset.sum_range_sub f n

theorem phiP_efficiency (hn : 0 < n) (v : Game n) : ∑ i, phiP v i = v univ - v ∅ := by
  classical
  unfold phiP
  rw [← Finset.sum_div, Finset.sum_comm]
  have key : ∀ σ : Equiv.Perm (Fin n),
      ∑ i, (v (insert i (before σ i)) - v (before σ i)) = v univ - v ∅ := by
    intro σ
    let A : ℕ → Finset (Fin n) := fun m => univ.filter (fun j => (σ j).val < m)
    rw [← Equiv.sum_comp σ.symm]
    have h1 : ∀ k : Fin n, before σ (σ.symm k) = A k.val := by
      intro k; ext j
      rw [mem_before, Equiv.apply_symm_apply]
      simp only [A, Finset.mem_filter, Finset.mem_univ, true_and, Fin.lt_def]
    have h2 : ∀ k : Fin n, insert (σ.symm k) (before σ (σ.symm k)) = A (k.val + 1) := by
      intro k; ext j
      simp only [h1, A, Finset.mem_insert, Finset.mem_filter, Finset.mem_univ, true_and]
      constructor
      · rintro (rfl | h)
        · rw [Equiv.apply_symm_apply]; omega
        · omega
      · intro h
        by_cases e : (σ j).val = k.val
        · left; apply σ.injective; rw [Equiv.apply_symm_apply]; exact Fin.ext e
        · right; omega
    simp_rw [h2, h1]
    rw [tele_fin (fun m => v (A m)) n]
    have hA0 : A 0 = ∅ := by ext j; simp [A]
    have hAn : A n = univ := by ext j; simp [A]
    rw [hA0, hAn]
  simp_rw [key]
  simp only [Finset.sum_const, Finset.card_univ, Fintype.card_perm, Fintype.card_fin, nsmul_eq_mul]
  have : (n.factorial : ℚ) ≠ 0 := by exact_mod_cast Nat.factorial_ne_zero n
  field_simp


/-! ### Uniqueness (Shapley's theorem) -/

structure Axioms (ψ : Game n → Fin n → ℚ) : Prop where
  add : ∀ v u i, ψ (fun S => v S + u S) i = ψ v i + ψ u i
  smul : ∀ c v i, ψ (fun S => c * v S) i = c * ψ v i
  null : ∀ v i, (∀ S, v (insert i S) = v S) → ψ v i = 0
  equiv : ∀ (π : Equiv.Perm (Fin n)) v i, ψ (fun S => v (S.map π.toEmbedding)) i = ψ v (π i)
  eff : ∀ v, ∑ i, ψ v i = v univ - v ∅

theorem phi_axioms (hn : 0 < n) : Axioms (phi : Game n → Fin n → ℚ) :=
  ⟨phi_add, phi_smul, phi_null, phi_equivariant, phi_efficiency hn⟩

theorem phiP_axioms (hn : 0 < n) : Axioms (phiP : Game n → Fin n → ℚ) :=
  ⟨phiP_add, phiP_smul, phiP_null, phiP_equivariant, phiP_efficiency hn⟩

namespace Axioms
variable {ψ : Game n → Fin n → ℚ} (h : Axioms ψ)
include h

theorem sum {ι : Type*} (s : Finset ι) (g : ι → Game n) (i : Fin n) :
    ψ (fun S => ∑ k ∈ s, g k S) i = ∑ k ∈ s, ψ (g k) i := by
  classical
  induction s using Finset.induction_on with
  | empty =>
    simp only [Finset.sum_empty]
    exact h.null _ i (fun _ => rfl)
  | insert a s ha ih =>
    simp only [Finset.sum_insert ha]
    rw [h.add, ih]

theorem hit_out (T : Finset (Fin n)) (i : Fin n) (hi : i ∉ T) : ψ (hit T) i = 0 := by
  classical
  apply h.null
  intro S
  unfold hit
  rw [Finset.insert_inter_of_notMem hi]

theorem hit_in (T : Finset (Fin n)) (i : Fin n) (hi : i ∈ T) : ψ (hit T) i = 1 / T.card := by
  classical
  have heff := h.eff (hit T)
  have hsplit : ∑ j, ψ (hit T) j = ∑ j ∈ T, ψ (hit T) j := by
    symm; apply Finset.sum_subset (Finset.subset_univ _)
    intro j _ hj; exact h.hit_out T j hj
  have hsym : ∀ j ∈ T, ψ (hit T) j = ψ (hit T) i := by
    intro j hj
    have := h.equiv (Equiv.swap i j) (hit T) i
    simp only [hit_swap T i j hi hj, Equiv.swap_apply_left] at this
    exact this.symm
  have hconst : ∑ j ∈ T, ψ (hit T) j = T.card * ψ (hit T) i := by
    rw [Finset.sum_congr rfl hsym]; simp
  have hu : hit T univ = 1 := by
    unfold hit; rw [if_pos]; exact ⟨i, by simp [hi]⟩
  have he : hit T (∅ : Finset (Fin n)) = 0 := by unfold hit; simp
  rw [hsplit, hconst, hu, he] at heff
  have hc : (T.card : ℚ) ≠ 0 := by
    have : 0 < T.card := Finset.card_pos.mpr ⟨i, hi⟩
    exact_mod_cast this.ne'
  field_simp
  linarith

end Axioms

/-- `sub U S = 1` iff `S ⊆ U` -/
def sub (U : Finset (Fin n)) : Game n := fun S => if S ⊆ U then 1 else 0

theorem sub_eq (U S : Finset (Fin n)) : sub U S = 1 + (-1) * hit Uᶜ S := by
  classical
  unfold sub hit
  have : (S ∩ Uᶜ).Nonempty ↔ ¬ S ⊆ U := by
    constructor
    · rintro ⟨x, hx⟩ hsub
      simp only [Finset.mem_inter, Finset.mem_compl] at hx
      exact hx.2 (hsub hx.1)
    · intro hns
      obtain ⟨x, hxS, hxU⟩ := Finset.not_subset.mp hns
      exact ⟨x, by simp [hxS, hxU]⟩
  by_cases hS : S ⊆ U
  · rw [if_pos hS, if_neg (by rw [this]; simpa using hS)]; ring
  · rw [if_neg hS, if_pos (by rw [this]; exact hS)]; ring

theorem Axioms.agree_sub {ψ χ : Game n → Fin n → ℚ} (h : Axioms ψ) (k : Axioms χ)
    (U : Finset (Fin n)) (i : Fin n) : ψ (sub U) i = χ (sub U) i := by
  classical
  have e : (sub U : Game n) = fun S => (fun _ => (1:ℚ)) S + (fun S => (-1) * hit Uᶜ S) S := by
    funext S; exact sub_eq U S
  rw [e, h.add, k.add, h.smul, k.smul, h.null _ i (fun _ => rfl), k.null _ i (fun _ => rfl)]
  by_cases hi : i ∈ Uᶜ
  · rw [h.hit_in _ i hi, k.hit_in _ i hi]
  · rw [h.hit_out _ i hi, k.hit_out _ i hi]

/-- Möbius coefficients -/
def mob (v : Game n) (U : Finset (Fin n)) : ℚ :=
  ∑ W : Finset (Fin n), if U ⊆ W then (-1 : ℚ) ^ (W.card - U.card) * v W else 0

theorem alt_sum (S W : Finset (Fin n)) (hSW : S ⊆ W) :
    ∑ U : Finset (Fin n), (if S ⊆ U ∧ U ⊆ W then (-1 : ℚ) ^ (W.card - U.card) else 0) = if S = W then 1 else 0 := by
  classical
  have hIcc : (univ.filter (fun U : Finset (Fin n) => S ⊆ U ∧ U ⊆ W)) = Finset.Icc S W := by
    ext U; simp [Finset.mem_Icc]
  rw [← Finset.sum_filter, hIcc, Finset.Icc_eq_image_powerset hSW, Finset.sum_image]
  · have hcard : ∀ X ∈ (W \ S).powerset, (-1 : ℚ) ^ (W.card - (S ∪ X).card) = (-1) ^ (W \ S).card * (-1) ^ X.card := by
      intro X hX
      have hXs : X ⊆ W \ S := Finset.mem_powerset.mp hX
      have hdisj : Disjoint S X := by
        rw [Finset.disjoint_left]; intro a ha haX
        exact (Finset.mem_sdiff.mp (hXs haX)).2 ha
      have h1 : (S ∪ X).card = S.card + X.card := Finset.card_union_of_disjoint hdisj
      have h2 : (W \ S).card = W.card - S.card := Finset.card_sdiff_of_subset hSW
      have h3 : X.card ≤ (W \ S).card := Finset.card_le_card hXs
      have h4 : S.card ≤ W.card := Finset.card_le_card hSW
      rw [h1, ← pow_add]
      have : W.card - (S.card + X.card) + 2 * X.card = (W \ S).card + X.card := by omega
      have e : (-1 : ℚ) ^ (W.card - (S.card + X.card)) = (-1) ^ (W.card - (S.card + X.card) + 2 * X.card) := by
        rw [pow_add, pow_mul]; simp
      rw [e, this]
    rw [Finset.sum_congr rfl hcard, ← Finset.mul_sum]
    have hz := @Finset.sum_powerset_neg_one_pow_card (Fin n) _ (W \ S)
    have hq : (∑ m ∈ (W \ S).powerset, (-1 : ℚ) ^ m.card) = if W \ S = ∅ then 1 else 0 := by
      have := congrArg (Int.cast : ℤ → ℚ) hz
      push_cast at this
      rw [this]
    rw [hq]
    by_cases hEq : S = W
    · subst hEq; simp
    · have : W \ S ≠ ∅ := by
        intro h0
        apply hEq
        exact Finset.Subset.antisymm hSW (Finset.sdiff_eq_empty_iff_subset.mp h0)
      rw [if_neg this, if_neg hEq]; ring
  · intro X hX Y hY hXY
    have hXs : X ⊆ W \ S := Finset.mem_powerset.mp hX
    have hYs : Y ⊆ W \ S := Finset.mem_powerset.mp hY
    have dX : Disjoint S X := by
      rw [Finset.disjoint_left]; intro a ha haX; exact (Finset.mem_sdiff.mp (hXs haX)).2 ha
    have dY : Disjoint S Y := by
      rw [Finset.disjoint_left]; intro a ha haY; exact (Finset.mem_sdiff.mp (hYs haY)).2 ha
    have := congrArg (fun Z => Z \ S) hXY
    simpa [Finset.union_sdiff_cancel_left dX, Finset.union_sdiff_cancel_left dY] using this

theorem mobius (v : Game n) (S : Finset (Fin n)) : v S = ∑ U, mob v U * sub U S := by
  classical
  unfold mob sub
  simp_rw [Finset.sum_mul]
  rw [Finset.sum_comm]
  have inner : ∀ W : Finset (Fin n),
      ∑ U : Finset (Fin n), (if U ⊆ W then (-1 : ℚ) ^ (W.card - U.card) * v W else 0) * (if S ⊆ U then 1 else 0)
        = if S = W then v W else 0 := by
    intro W
    by_cases hSW : S ⊆ W
    · have := alt_sum S W hSW
      have e : ∀ U : Finset (Fin n),
          (if U ⊆ W then (-1 : ℚ) ^ (W.card - U.card) * v W else 0) * (if S ⊆ U then 1 else 0)
            = (if S ⊆ U ∧ U ⊆ W then (-1 : ℚ) ^ (W.card - U.card) else 0) * v W := by
        intro U; by_cases a : U ⊆ W <;> by_cases b : S ⊆ U <;> simp [a, b]
      simp_rw [e]
      rw [← Finset.sum_mul, this]
      split_ifs <;> simp
    · have hne : S ≠ W := fun e => hSW (e ▸ Finset.Subset.refl _)
      rw [if_neg hne]
      apply Finset.sum_eq_zero
      intro U _
      by_cases a : U ⊆ W <;> by_cases b : S ⊆ U
      · exact absurd (b.trans a) hSW
      all_goals simp [a, b]
  simp_rw [inner]
  simp

/-- **Shapley's uniqueness theorem**: efficiency, symmetry (equivariance), null player and
linearity determine the value. -/
theorem Axioms.unique {ψ χ : Game n → Fin n → ℚ} (h : Axioms ψ) (k : Axioms χ) (v : Game n) (i : Fin n) :
    ψ v i = χ v i := by
  classical
  have e : v = fun S => ∑ U ∈ (univ : Finset (Finset (Fin n))), (fun S => mob v U * sub U S) S := by
    funext S; exact mobius v S
  rw [e, h.sum, k.sum]
  apply Finset.sum_congr rfl
  intro U _
  rw [h.smul, k.smul, h.agree_sub k]

/-- permutation form = subset form -/
theorem phiP_eq_phi (hn : 0 < n) (v : Game n) (i : Fin n) : phiP v i = phi v i :=
  (phiP_axioms hn).unique (phi_axioms hn) v i

end Sh

