import Ds.Oracle
import DsProofs.AddProofs
import DsProofs.AValProofs
import Mathlib.Data.List.Perm.Basic
import Mathlib.Data.List.Count

/-!
# OracleProofs — helper lemmas for property C09 (the Shapley oracle counts coalitions exactly)

Sections: (1) path semantics of diagrams (`pathEdges`), (2) effect of `update` on path values,
(3) the tally domain (sums of one-hot tallies), (4) `addOnCandidate`, (5) bridging argument tuples in
diagram order with assignments in unit order, (6) unfolding `build` / `query`, (7) `compile`.
-/
set_option linter.unusedSectionVars false
set_option linter.unusedSimpArgs false
set_option linter.unusedVariables false
namespace Ds.Oracle
open Ds.Dd

/-! ## 1. paths -/
section Paths
variable {V : Type} [AddCommMonoid V]

theorem ch_of_shape {a b : Node V} (h : NodeShape a b) (c : ℕ) : a.ch c = b.ch c := by
  unfold Node.ch; rw [h.2.1]

/-- the path only depends on the graph -/
theorem pathEdges_shape {L L' : List (Level V)} (h : SameShape L L') (j : ℕ) (as : List ℕ) (i : ℕ) :
    pathEdges L j as i = pathEdges L' j as i := by
  induction h generalizing j as i with
  | nil => cases as <;> rfl
  | @cons la lb _ _ h _ ih =>
    cases as with
    | nil => rfl
    | cons a as =>
      simp only [pathEdges]
      rw [ch_of_shape (nodeShape_nodeAt h j) a, ih]

/-- value of a path = sum of the values of its edges -/
theorem evalFrom_eq_pathSum (L : List (Level V)) (g : ℕ × ℕ × ℕ → V) (i : ℕ)
    (hg : ∀ k j c, edge L k j c = g (i + k, j, c)) (j : ℕ) (as : List ℕ) :
    evalFrom L j as = ((pathEdges L j as i).map g).sum := by
  induction L generalizing i j as with
  | nil => cases as <;> simp [evalFrom, pathEdges]
  | cons lv rest ih =>
    cases as with
    | nil => simp [evalFrom, pathEdges]
    | cons a as =>
      simp only [evalFrom, pathEdges, List.map_cons, List.sum_cons]
      have h0 := hg 0 j a
      simp only [edge, List.getD_cons_zero, Nat.add_zero] at h0
      rw [h0, ih (i + 1) (fun k j c => by
        have := hg (k + 1) j c
        simp only [edge, List.getD_cons_succ] at this
        rw [show i + 1 + k = i + (k + 1) by omega]; exact this)]

/-- the value of edge `e` -/
def edgeOf (L : List (Level V)) (e : ℕ × ℕ × ℕ) : V := edge L e.1 e.2.1 e.2.2

theorem evalFrom_eq_pathSum' (L : List (Level V)) (j : ℕ) (as : List ℕ) :
    evalFrom L j as = ((pathEdges L j as 0).map (edgeOf L)).sum :=
  evalFrom_eq_pathSum L (edgeOf L) 0 (fun k j c => by simp [edgeOf]) j as

/-- every edge of a path of a well-formed diagram leaves an active node, at the level and with the value
given by the argument tuple -/
theorem mem_pathEdges {C : ℕ} {L : List (Level V)} {j : ℕ} {as : List ℕ} {i : ℕ} {e : ℕ × ℕ × ℕ}
    (he : e ∈ pathEdges L j as i) (hw : wf C L j) (hC : ∀ a ∈ as, a < C) :
    ∃ k, e.1 = i + k ∧ k < L.length ∧ as[k]? = some e.2.2 ∧ (nodeAt (L.getD k []) e.2.1).active = true := by
  induction L generalizing i j as with
  | nil => cases as <;> simp [pathEdges] at he
  | cons lv rest ih =>
    cases as with
    | nil => simp [pathEdges] at he
    | cons a as =>
      simp only [pathEdges, List.mem_cons] at he
      rcases he with rfl | he
      · exact ⟨0, rfl, by simp, by simp, by simpa using hw.1⟩
      · obtain ⟨k, h1, h2, h3, h4⟩ := ih he (hw.2 a (hC a (by simp))) (fun x hx => hC x (by simp [hx]))
        exact ⟨k + 1, by omega, by simp; omega, by simpa using h3, by simpa using h4⟩

/-- the path has an edge at every level -/
theorem exists_pathEdge (L : List (Level V)) (j : ℕ) (as : List ℕ) (i k : ℕ) (hk : k < L.length)
    (hk' : k < as.length) : ∃ jk, (i + k, jk, as.getD k 0) ∈ pathEdges L j as i := by
  induction L generalizing i j as k with
  | nil => simp at hk
  | cons lv rest ih =>
    cases as with
    | nil => simp at hk'
    | cons a as =>
      cases k with
      | zero => exact ⟨j, by simp [pathEdges]⟩
      | succ k =>
        obtain ⟨jk, h⟩ := ih ((nodeAt lv j).ch a) as (i + 1) k (by simpa using hk) (by simpa using hk')
        refine ⟨jk, ?_⟩
        simp only [pathEdges, List.mem_cons, List.getD_cons_succ]
        right
        rw [show i + (k + 1) = i + 1 + k by omega]; exact h

end Paths

/-! ## 2. `update` along paths -/
section Updates
variable {V : Type} [AddCommMonoid V]

theorem sum_map_ite_mem (P loc : List (ℕ × ℕ × ℕ)) (v : V) :
    (P.map (fun e => if e ∈ loc then v else 0)).sum = (P.countP (fun e => decide (e ∈ loc))) • v := by
  induction P with
  | nil => simp
  | cons e P ih =>
    simp only [List.map_cons, List.sum_cons, ih, List.countP_cons]
    by_cases h : e ∈ loc
    · simp [h, add_nsmul, one_nsmul, add_comm]
    · simp [h]

/-- `update(loc, v, increment=True)`: the value of a path grows by `v` for every edge of `loc` it crosses -/
theorem eval_update_inc (d : Diagram V) (loc : List (ℕ × ℕ × ℕ)) (v : V) (hnd : loc.Nodup)
    (hr : ∀ e ∈ loc, inRange d.levels e) (as : List ℕ) :
    (d.update loc v true).eval as =
      d.eval as + ((pathEdges d.levels d.root as 0).countP (fun e => decide (e ∈ loc))) • v := by
  have hs := foldl_upd1_shape v true loc d.levels
  show evalFrom (loc.foldl (upd1 v true) d.levels) d.root as = evalFrom d.levels d.root as + _
  rw [evalFrom_eq_pathSum', ← pathEdges_shape hs, evalFrom_eq_pathSum' d.levels, ← sum_map_ite_mem,
    ← List.sum_map_add]
  congr 1
  apply List.map_congr_left
  intro e _
  have := edge_foldl_upd1 v true loc d.levels hnd hr e.1 e.2.1 e.2.2
  simp only [edgeOf, this]
  by_cases h : e ∈ loc
  · simp [h]
  · simp [h]

/-- `update(loc, v, increment=False)` -/
theorem eval_update_set (d : Diagram V) (loc : List (ℕ × ℕ × ℕ)) (v : V) (hnd : loc.Nodup)
    (hr : ∀ e ∈ loc, inRange d.levels e) (as : List ℕ) :
    (d.update loc v false).eval as =
      ((pathEdges d.levels d.root as 0).map (fun e => if e ∈ loc then v else edgeOf d.levels e)).sum := by
  have hs := foldl_upd1_shape v false loc d.levels
  show evalFrom (loc.foldl (upd1 v false) d.levels) d.root as = _
  rw [evalFrom_eq_pathSum', ← pathEdges_shape hs]
  congr 1
  apply List.map_congr_left
  intro e _
  have := edge_foldl_upd1 v false loc d.levels hnd hr e.1 e.2.1 e.2.2
  simp only [edgeOf, this]
  simp

/-- same graph, root, units, candidates -/
def Sim (d0 d : Diagram V) : Prop :=
  SameShape d0.levels d.levels ∧ d.root = d0.root ∧ d.units = d0.units ∧ d.C = d0.C

theorem Sim.refl (d : Diagram V) : Sim d d := ⟨SameShape.refl _, rfl, rfl, rfl⟩

theorem Sim.update {d0 d : Diagram V} (h : Sim d0 d) (loc : List (ℕ × ℕ × ℕ)) (v : V) (inc : Bool) :
    Sim d0 (d.update loc v inc) :=
  ⟨h.1.trans (foldl_upd1_shape v inc loc d.levels), h.2.1, h.2.2.1, h.2.2.2⟩

theorem Sim.wf {d0 d : Diagram V} (h : Sim d0 d) (hw : d0.WF) : d.WF :=
  ⟨h.1.length.symm.trans (hw.len.trans (congrArg List.length h.2.2.1.symm)), by rw [h.2.2.2, h.2.1]; exact h.1.wf _ _ hw.reach⟩

theorem Sim.path {d0 d : Diagram V} (h : Sim d0 d) (as : List ℕ) :
    pathEdges d.levels d.root as 0 = pathEdges d0.levels d0.root as 0 := by
  rw [h.2.1, ← pathEdges_shape h.1]

/-- a sequence of increments: every row `tt` contributes `val tt` once per crossed edge of `locs tt` -/
theorem eval_foldl_inc (d0 : Diagram V) (locs : ℕ → List (ℕ × ℕ × ℕ)) (val : ℕ → V) (rows : List ℕ)
    (hnd : ∀ tt ∈ rows, (locs tt).Nodup) (hr : ∀ tt ∈ rows, ∀ e ∈ locs tt, inRange d0.levels e)
    (d : Diagram V) (hs : Sim d0 d) (as : List ℕ) :
    Sim d0 (rows.foldl (fun d tt => d.update (locs tt) (val tt) true) d) ∧
    (rows.foldl (fun d tt => d.update (locs tt) (val tt) true) d).eval as =
      d.eval as + (rows.map (fun tt =>
        ((pathEdges d0.levels d0.root as 0).countP (fun e => decide (e ∈ locs tt))) • val tt)).sum := by
  induction rows generalizing d with
  | nil => simp [hs]
  | cons tt rows ih =>
    have hs' := hs.update (locs tt) (val tt) true
    obtain ⟨h1, h2⟩ := ih (fun x hx => hnd x (by simp [hx])) (fun x hx => hr x (by simp [hx])) _ hs'
    refine ⟨h1, ?_⟩
    rw [List.foldl_cons, h2, eval_update_inc d (locs tt) (val tt) (hnd tt (by simp))
      (fun e he => hs.1.inRange e (hr tt (by simp) e he)), hs.path]
    simp only [List.map_cons, List.sum_cons, add_assoc]

end Updates

/-! ### setting edges to the invalid value -/
section NoneEdges
variable {D : Dom}

theorem aval_none_add (x : AVal D) : (none : AVal D) + x = none := AVal.none_add x
theorem aval_add_none (x : AVal D) : x + (none : AVal D) = none := AVal.add_none x

theorem aval_sum_none {l : List (AVal D)} (h : none ∈ l) : l.sum = none := by
  induction l with
  | nil => simp at h
  | cons x l ih =>
    rw [List.sum_cons]
    rcases List.mem_cons.mp h with rfl | h
    · exact aval_none_add _
    · rw [ih h]; exact aval_add_none _

theorem eval_update_none (d : Diagram (AVal D)) (loc : List (ℕ × ℕ × ℕ)) (hnd : loc.Nodup)
    (hr : ∀ e ∈ loc, inRange d.levels e) (as : List ℕ) :
    (d.update loc none false).eval as =
      if ∃ e ∈ pathEdges d.levels d.root as 0, e ∈ loc then none else d.eval as := by
  rw [eval_update_set d loc none hnd hr]
  by_cases h : ∃ e ∈ pathEdges d.levels d.root as 0, e ∈ loc
  · rw [if_pos h]
    obtain ⟨e, he, hl⟩ := h
    apply aval_sum_none
    rw [List.mem_map]
    exact ⟨e, he, by simp [hl]⟩
  · rw [if_neg h]
    show _ = evalFrom d.levels d.root as
    rw [evalFrom_eq_pathSum']
    congr 1
    apply List.map_congr_left
    intro e he
    rw [if_neg (fun hl => h ⟨e, he, hl⟩)]

theorem eval_foldl_none (d0 : Diagram (AVal D)) (locs : List (List (ℕ × ℕ × ℕ)))
    (hnd : ∀ loc ∈ locs, loc.Nodup) (hr : ∀ loc ∈ locs, ∀ e ∈ loc, inRange d0.levels e)
    (d : Diagram (AVal D)) (hs : Sim d0 d) (as : List ℕ) :
    Sim d0 (locs.foldl (fun d loc => d.update loc none false) d) ∧
    (locs.foldl (fun d loc => d.update loc none false) d).eval as =
      if ∃ loc ∈ locs, ∃ e ∈ pathEdges d0.levels d0.root as 0, e ∈ loc then none else d.eval as := by
  induction locs generalizing d with
  | nil => simp [hs]
  | cons loc locs ih =>
    have hs' := hs.update loc none false
    obtain ⟨h1, h2⟩ := ih (fun x hx => hnd x (by simp [hx])) (fun x hx => hr x (by simp [hx])) _ hs'
    refine ⟨h1, ?_⟩
    rw [List.foldl_cons, h2, eval_update_none d loc (hnd loc (by simp))
      (fun e he => hs.1.inRange e (hr loc (by simp) e he)), hs.path]
    by_cases ha : ∃ e ∈ pathEdges d0.levels d0.root as 0, e ∈ loc
    · have hc : ∃ l ∈ loc :: locs, ∃ e ∈ pathEdges d0.levels d0.root as 0, e ∈ l := ⟨loc, by simp, ha⟩
      rw [if_pos ha, if_pos hc]; split <;> rfl
    · by_cases hb : ∃ loc ∈ locs, ∃ e ∈ pathEdges d0.levels d0.root as 0, e ∈ loc
      · have hc : ∃ l ∈ loc :: locs, ∃ e ∈ pathEdges d0.levels d0.root as 0, e ∈ l := by
          obtain ⟨l, hl, h⟩ := hb; exact ⟨l, by simp [hl], h⟩
        rw [if_pos hb, if_pos hc]
      · rw [if_neg hb, if_neg ha, if_neg]
        rintro ⟨l, hl, h⟩
        rcases List.mem_cons.mp hl with rfl | hl
        · exact ha h
        · exact hb ⟨l, hl, h⟩

end NoneEdges

/-! ## 3. the tally domain -/
section Tally

/-- the vector `t :: (f 0 … f (c-1)) ++ (g 0 … g (c-1))` -/
def tvf (c t : ℕ) (f g : ℕ → ℕ) : List ℕ := t :: ((List.range c).map f ++ (List.range c).map g)

theorem tvf_length (c t : ℕ) (f g : ℕ → ℕ) : (tvf c t f g).length = 1 + 2 * c := by
  simp [tvf]; omega

theorem tvf_add (c t t' : ℕ) (f g f' g' : ℕ → ℕ) :
    List.zipWith (· + ·) (tvf c t f g) (tvf c t' f' g') =
      tvf c (t + t') (fun k => f k + f' k) (fun k => g k + g' k) := by
  simp only [tvf, List.zipWith_cons_cons]
  rw [List.zipWith_append (by simp)]
  simp [List.zipWith_map, List.zipWith_self]

theorem tvf_zero (N K c : ℕ) : (Dom.tally N K c).zeroVec = tvf c 0 (fun _ => 0) (fun _ => 0) := by
  simp only [Dom.zeroVec, Dom.dim, tvf]
  rw [show 1 + 2 * c = (c + c) + 1 by omega, List.replicate_succ, List.replicate_add]
  simp

theorem clip_add_clip {D : Dom} (x y : List ℕ) (hx : x.length = D.dim) (hy : y.length = D.dim) :
    (AVal.clip D x + AVal.clip D y : AVal D) = AVal.clip D (List.zipWith (· + ·) x y) := by
  by_cases h1 : D.ok x = true
  · by_cases h2 : D.ok y = true
    · rw [AVal.clip_ok h1, AVal.clip_ok h2]; rfl
    · rw [AVal.clip_not_ok h2, aval_add_none, AVal.clip_not_ok]
      intro h; exact h2 (Dom.ok_down h (VLe_vadd_right (hx.trans hy.symm)))
  · rw [AVal.clip_not_ok h1, aval_none_add, AVal.clip_not_ok]
    intro h; exact h1 (Dom.ok_down h (VLe_vadd_left (hx.trans hy.symm)))

theorem aval_zero_eq (D : Dom) : (0 : AVal D) = AVal.clip D D.zeroVec := rfl

/-- a sum of clipped tally vectors is the clipped component-wise sum (the domain is downward closed) -/
theorem sum_clip_tvf {α : Type} (N K c : ℕ) (l : List α) (t : α → ℕ) (f g : α → ℕ → ℕ) :
    (l.map (fun x => AVal.clip (Dom.tally N K c) (tvf c (t x) (f x) (g x)))).sum =
      AVal.clip (Dom.tally N K c) (tvf c (l.map t).sum (fun k => (l.map (f · k)).sum) (fun k => (l.map (g · k)).sum)) := by
  induction l with
  | nil => simp only [List.map_nil, List.sum_nil]; rw [aval_zero_eq, tvf_zero]
  | cons x l ih =>
    simp only [List.map_cons, List.sum_cons, ih]
    rw [clip_add_clip _ _ (tvf_length ..) (tvf_length ..), tvf_add]

theorem tallyVal_with (N K c label : ℕ) :
    tallyVal (Dom.tally N K c) 0 (onehot c label) (List.replicate c 0) =
      AVal.clip (Dom.tally N K c) (tvf c 0 (fun k => if k = label then 1 else 0) (fun _ => 0)) := by
  simp [tallyVal, onehot, tvf]

theorem tallyVal_without (N K c label : ℕ) :
    tallyVal (Dom.tally N K c) 0 (List.replicate c 0) (onehot c label) =
      AVal.clip (Dom.tally N K c) (tvf c 0 (fun _ => 0) (fun k => if k = label then 1 else 0)) := by
  simp [tallyVal, onehot, tvf]

theorem tallyVal_one (N K c : ℕ) :
    tallyVal (Dom.tally N K c) 1 (List.replicate c 0) (List.replicate c 0) =
      AVal.clip (Dom.tally N K c) (tvf c 1 (fun _ => 0) (fun _ => 0)) := by
  simp [tallyVal, tvf]

theorem clip_eq_clip_iff {D : Dom} (x y : List ℕ) (hy : D.ok y = true) :
    AVal.clip D x = AVal.clip D y ↔ x = y := by
  rw [AVal.clip_ok hy, AVal.clip_eq_some_iff]
  exact ⟨fun h => h.symm, fun h => h.symm⟩

theorem tvf_eq_iff (c t : ℕ) (f g : ℕ → ℕ) (v : List ℕ) (hv : v.length = 1 + 2 * c) :
    tvf c t f g = v ↔
      t = v.headD 0 ∧ (List.range c).map f = (v.drop 1).take c ∧ (List.range c).map g = (v.drop (1 + c)).take c := by
  cases v with
  | nil => simp at hv; omega
  | cons a rest =>
    have hr : rest.length = c + c := by simp at hv; omega
    simp only [tvf, List.cons.injEq, List.headD_cons, List.drop_succ_cons, List.drop_zero,
      show 1 + c = c + 1 by omega]
    constructor
    · rintro ⟨rfl, h⟩
      subst h
      simp
    · rintro ⟨rfl, h1, h2⟩
      refine ⟨rfl, ?_⟩
      rw [h1, h2, List.take_of_length_le (l := List.drop c rest) (by simp; omega), List.take_append_drop]

theorem sum_map_ite_filter {α M : Type} [AddCommMonoid M] (l : List α) (P : α → Bool) (v : α → M) :
    (l.map (fun x => if P x then v x else 0)).sum = ((l.filter P).map v).sum := by
  induction l with
  | nil => simp
  | cons x l ih =>
    by_cases h : P x <;> simp [h, ih, List.filter_cons]

theorem sum_map_ite_eq_length {α : Type} (l : List α) (P : α → Bool) :
    (l.map (fun x => if P x then 1 else 0)).sum = (l.filter P).length := by
  induction l with
  | nil => simp
  | cons x l ih =>
    by_cases h : P x <;> simp [h, ih, List.filter_cons]; omega

end Tally

end Ds.Oracle
