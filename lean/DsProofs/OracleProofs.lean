import Ds.Oracle
import DsProofs.AddProofs
import DsProofs.AValProofs
import DsProofs.Properties.C10
import Mathlib.Data.List.Perm.Basic
import Mathlib.Data.List.Count
import Mathlib.Data.List.GetD

/-!
# OracleProofs — helper lemmas for property C09 (the Shapley oracle counts coalitions exactly)

Sections: (1) path semantics of diagrams (`pathEdges`), (2) effect of `update` on path values,
(3) the tally domain (sums of one-hot tallies), (4) `addOnCandidate`, (5) bridging argument tuples in
diagram order with assignments in unit order, (6) unfolding `build` / `query`, (7) `compile`.
-/
set_option linter.unusedSectionVars false
set_option linter.unusedSimpArgs false
set_option linter.unusedVariables false
namespace Ds.Oracle
open Ds.Dd

/-! ## 1. paths -/
section Paths
variable {V : Type} [AddCommMonoid V]

theorem ch_of_shape {a b : Node V} (h : NodeShape a b) (c : ℕ) : a.ch c = b.ch c := by
  unfold Node.ch; rw [h.2.1]

/-- the path only depends on the graph -/
theorem pathEdges_shape {L L' : List (Level V)} (h : SameShape L L') (j : ℕ) (as : List ℕ) (i : ℕ) :
    pathEdges L j as i = pathEdges L' j as i := by
  induction h generalizing j as i with
  | nil => cases as <;> rfl
  | @cons la lb _ _ h _ ih =>
    cases as with
    | nil => rfl
    | cons a as =>
      simp only [pathEdges]
      rw [ch_of_shape (nodeShape_nodeAt h j) a, ih]

/-- value of a path = sum of the values of its edges -/
theorem evalFrom_eq_pathSum (L : List (Level V)) (g : ℕ × ℕ × ℕ → V) (i : ℕ)
    (hg : ∀ k j c, edge L k j c = g (i + k, j, c)) (j : ℕ) (as : List ℕ) :
    evalFrom L j as = ((pathEdges L j as i).map g).sum := by
  induction L generalizing i j as with
  | nil => cases as <;> simp [evalFrom, pathEdges]
  | cons lv rest ih =>
    cases as with
    | nil => simp [evalFrom, pathEdges]
    | cons a as =>
      simp only [evalFrom, pathEdges, List.map_cons, List.sum_cons]
      have h0 := hg 0 j a
      simp only [edge, List.getD_cons_zero, Nat.add_zero] at h0
      rw [h0, ih (i + 1) (fun k j c => by
        have := hg (k + 1) j c
        simp only [edge, List.getD_cons_succ] at this
        rw [show i + 1 + k = i + (k + 1) by omega]; exact this)]

/-- the value of edge `e` -/
def edgeOf (L : List (Level V)) (e : ℕ × ℕ × ℕ) : V := edge L e.1 e.2.1 e.2.2

theorem evalFrom_eq_pathSum' (L : List (Level V)) (j : ℕ) (as : List ℕ) :
    evalFrom L j as = ((pathEdges L j as 0).map (edgeOf L)).sum :=
  evalFrom_eq_pathSum L (edgeOf L) 0 (fun k j c => by simp [edgeOf]) j as

/-- every edge of a path of a well-formed diagram leaves an active node, at the level and with the value
given by the argument tuple -/
theorem mem_pathEdges {C : ℕ} {L : List (Level V)} {j : ℕ} {as : List ℕ} {i : ℕ} {e : ℕ × ℕ × ℕ}
    (he : e ∈ pathEdges L j as i) (hw : wf C L j) (hC : ∀ a ∈ as, a < C) :
    ∃ k, e.1 = i + k ∧ k < L.length ∧ as[k]? = some e.2.2 ∧ (nodeAt (L.getD k []) e.2.1).active = true := by
  induction L generalizing i j as with
  | nil => cases as <;> simp [pathEdges] at he
  | cons lv rest ih =>
    cases as with
    | nil => simp [pathEdges] at he
    | cons a as =>
      simp only [pathEdges, List.mem_cons] at he
      rcases he with rfl | he
      · exact ⟨0, rfl, by simp, by simp, by simpa using hw.1⟩
      · obtain ⟨k, h1, h2, h3, h4⟩ := ih he (hw.2 a (hC a (by simp))) (fun x hx => hC x (by simp [hx]))
        exact ⟨k + 1, by omega, by simp; omega, by simpa using h3, by simpa using h4⟩

/-- the path has an edge at every level -/
theorem exists_pathEdge (L : List (Level V)) (j : ℕ) (as : List ℕ) (i k : ℕ) (hk : k < L.length)
    (hk' : k < as.length) : ∃ jk, (i + k, jk, as.getD k 0) ∈ pathEdges L j as i := by
  induction L generalizing i j as k with
  | nil => simp at hk
  | cons lv rest ih =>
    cases as with
    | nil => simp at hk'
    | cons a as =>
      cases k with
      | zero => exact ⟨j, by simp [pathEdges]⟩
      | succ k =>
        obtain ⟨jk, h⟩ := ih ((nodeAt lv j).ch a) as (i + 1) k (by simpa using hk) (by simpa using hk')
        refine ⟨jk, ?_⟩
        simp only [pathEdges, List.mem_cons, List.getD_cons_succ]
        right
        rw [show i + (k + 1) = i + 1 + k by omega]; exact h

end Paths

/-! ## 2. `update` along paths -/
section Updates
variable {V : Type} [AddCommMonoid V]

theorem sum_map_ite_mem (P loc : List (ℕ × ℕ × ℕ)) (v : V) :
    (P.map (fun e => if e ∈ loc then v else 0)).sum = (P.countP (fun e => decide (e ∈ loc))) • v := by
  induction P with
  | nil => simp
  | cons e P ih =>
    simp only [List.map_cons, List.sum_cons, ih, List.countP_cons]
    by_cases h : e ∈ loc
    · simp [h, add_nsmul, one_nsmul, add_comm]
    · simp [h]

/-- `update(loc, v, increment=True)`: the value of a path grows by `v` for every edge of `loc` it crosses -/
theorem eval_update_inc (d : Diagram V) (loc : List (ℕ × ℕ × ℕ)) (v : V) (hnd : loc.Nodup)
    (hr : ∀ e ∈ loc, inRange d.levels e) (as : List ℕ) :
    (d.update loc v true).eval as =
      d.eval as + ((pathEdges d.levels d.root as 0).countP (fun e => decide (e ∈ loc))) • v := by
  have hs := foldl_upd1_shape v true loc d.levels
  show evalFrom (loc.foldl (upd1 v true) d.levels) d.root as = evalFrom d.levels d.root as + _
  rw [evalFrom_eq_pathSum', ← pathEdges_shape hs, evalFrom_eq_pathSum' d.levels, ← sum_map_ite_mem,
    ← List.sum_map_add]
  congr 1
  apply List.map_congr_left
  intro e _
  have := edge_foldl_upd1 v true loc d.levels hnd hr e.1 e.2.1 e.2.2
  simp only [edgeOf, this]
  by_cases h : e ∈ loc
  · simp [h]
  · simp [h]

/-- `update(loc, v, increment=False)` -/
theorem eval_update_set (d : Diagram V) (loc : List (ℕ × ℕ × ℕ)) (v : V) (hnd : loc.Nodup)
    (hr : ∀ e ∈ loc, inRange d.levels e) (as : List ℕ) :
    (d.update loc v false).eval as =
      ((pathEdges d.levels d.root as 0).map (fun e => if e ∈ loc then v else edgeOf d.levels e)).sum := by
  have hs := foldl_upd1_shape v false loc d.levels
  show evalFrom (loc.foldl (upd1 v false) d.levels) d.root as = _
  rw [evalFrom_eq_pathSum', ← pathEdges_shape hs]
  congr 1
  apply List.map_congr_left
  intro e _
  have := edge_foldl_upd1 v false loc d.levels hnd hr e.1 e.2.1 e.2.2
  simp only [edgeOf, this]
  simp

/-- same graph, root, units, candidates -/
def Sim (d0 d : Diagram V) : Prop :=
  SameShape d0.levels d.levels ∧ d.root = d0.root ∧ d.units = d0.units ∧ d.C = d0.C

theorem Sim.refl (d : Diagram V) : Sim d d := ⟨SameShape.refl _, rfl, rfl, rfl⟩

theorem Sim.update {d0 d : Diagram V} (h : Sim d0 d) (loc : List (ℕ × ℕ × ℕ)) (v : V) (inc : Bool) :
    Sim d0 (d.update loc v inc) :=
  ⟨h.1.trans (foldl_upd1_shape v inc loc d.levels), h.2.1, h.2.2.1, h.2.2.2⟩

theorem Sim.wf {d0 d : Diagram V} (h : Sim d0 d) (hw : d0.WF) : d.WF :=
  ⟨h.1.length.symm.trans (hw.len.trans (congrArg List.length h.2.2.1.symm)), by rw [h.2.2.2, h.2.1]; exact h.1.wf _ _ hw.reach⟩

theorem Sim.path {d0 d : Diagram V} (h : Sim d0 d) (as : List ℕ) :
    pathEdges d.levels d.root as 0 = pathEdges d0.levels d0.root as 0 := by
  rw [h.2.1, ← pathEdges_shape h.1]

/-- a sequence of increments: every row `tt` contributes `val tt` once per crossed edge of `locs tt` -/
theorem eval_foldl_inc (d0 : Diagram V) (locs : ℕ → List (ℕ × ℕ × ℕ)) (val : ℕ → V) (rows : List ℕ)
    (hnd : ∀ tt ∈ rows, (locs tt).Nodup) (hr : ∀ tt ∈ rows, ∀ e ∈ locs tt, inRange d0.levels e)
    (d : Diagram V) (hs : Sim d0 d) (as : List ℕ) :
    Sim d0 (rows.foldl (fun d tt => d.update (locs tt) (val tt) true) d) ∧
    (rows.foldl (fun d tt => d.update (locs tt) (val tt) true) d).eval as =
      d.eval as + (rows.map (fun tt =>
        ((pathEdges d0.levels d0.root as 0).countP (fun e => decide (e ∈ locs tt))) • val tt)).sum := by
  induction rows generalizing d with
  | nil => simp [hs]
  | cons tt rows ih =>
    have hs' := hs.update (locs tt) (val tt) true
    obtain ⟨h1, h2⟩ := ih (fun x hx => hnd x (by simp [hx])) (fun x hx => hr x (by simp [hx])) _ hs'
    refine ⟨h1, ?_⟩
    rw [List.foldl_cons, h2, eval_update_inc d (locs tt) (val tt) (hnd tt (by simp))
      (fun e he => hs.1.inRange e (hr tt (by simp) e he)), hs.path]
    simp only [List.map_cons, List.sum_cons, add_assoc]

end Updates

/-! ### setting edges to the invalid value -/
section NoneEdges
variable {D : Dom}

theorem aval_none_add (x : AVal D) : (none : AVal D) + x = none := AVal.none_add x
theorem aval_add_none (x : AVal D) : x + (none : AVal D) = none := AVal.add_none x

theorem aval_sum_none {l : List (AVal D)} (h : none ∈ l) : l.sum = none := by
  induction l with
  | nil => simp at h
  | cons x l ih =>
    rw [List.sum_cons]
    rcases List.mem_cons.mp h with rfl | h
    · exact aval_none_add _
    · rw [ih h]; exact aval_add_none _

theorem eval_update_none (d : Diagram (AVal D)) (loc : List (ℕ × ℕ × ℕ)) (hnd : loc.Nodup)
    (hr : ∀ e ∈ loc, inRange d.levels e) (as : List ℕ) :
    (d.update loc none false).eval as =
      if ∃ e ∈ pathEdges d.levels d.root as 0, e ∈ loc then none else d.eval as := by
  rw [eval_update_set d loc none hnd hr]
  by_cases h : ∃ e ∈ pathEdges d.levels d.root as 0, e ∈ loc
  · rw [if_pos h]
    obtain ⟨e, he, hl⟩ := h
    apply aval_sum_none
    rw [List.mem_map]
    exact ⟨e, he, by simp [hl]⟩
  · rw [if_neg h]
    show _ = evalFrom d.levels d.root as
    rw [evalFrom_eq_pathSum']
    congr 1
    apply List.map_congr_left
    intro e he
    rw [if_neg (fun hl => h ⟨e, he, hl⟩)]

theorem eval_foldl_none (d0 : Diagram (AVal D)) (locs : List (List (ℕ × ℕ × ℕ)))
    (hnd : ∀ loc ∈ locs, loc.Nodup) (hr : ∀ loc ∈ locs, ∀ e ∈ loc, inRange d0.levels e)
    (d : Diagram (AVal D)) (hs : Sim d0 d) (as : List ℕ) :
    Sim d0 (locs.foldl (fun d loc => d.update loc none false) d) ∧
    (locs.foldl (fun d loc => d.update loc none false) d).eval as =
      if ∃ loc ∈ locs, ∃ e ∈ pathEdges d0.levels d0.root as 0, e ∈ loc then none else d.eval as := by
  induction locs generalizing d with
  | nil => simp [hs]
  | cons loc locs ih =>
    have hs' := hs.update loc none false
    obtain ⟨h1, h2⟩ := ih (fun x hx => hnd x (by simp [hx])) (fun x hx => hr x (by simp [hx])) _ hs'
    refine ⟨h1, ?_⟩
    rw [List.foldl_cons, h2, eval_update_none d loc (hnd loc (by simp))
      (fun e he => hs.1.inRange e (hr loc (by simp) e he)), hs.path]
    by_cases ha : ∃ e ∈ pathEdges d0.levels d0.root as 0, e ∈ loc
    · have hc : ∃ l ∈ loc :: locs, ∃ e ∈ pathEdges d0.levels d0.root as 0, e ∈ l := ⟨loc, by simp, ha⟩
      rw [if_pos ha, if_pos hc]; split <;> rfl
    · by_cases hb : ∃ loc ∈ locs, ∃ e ∈ pathEdges d0.levels d0.root as 0, e ∈ loc
      · have hc : ∃ l ∈ loc :: locs, ∃ e ∈ pathEdges d0.levels d0.root as 0, e ∈ l := by
          obtain ⟨l, hl, h⟩ := hb; exact ⟨l, by simp [hl], h⟩
        rw [if_pos hb, if_pos hc]
      · rw [if_neg hb, if_neg ha, if_neg]
        rintro ⟨l, hl, h⟩
        rcases List.mem_cons.mp hl with rfl | hl
        · exact ha h
        · exact hb ⟨l, hl, h⟩

end NoneEdges

/-! ## 3. the tally domain -/
section Tally

/-- the vector `t :: (f 0 … f (c-1)) ++ (g 0 … g (c-1))` -/
def tvf (c t : ℕ) (f g : ℕ → ℕ) : List ℕ := t :: ((List.range c).map f ++ (List.range c).map g)

theorem tvf_length (c t : ℕ) (f g : ℕ → ℕ) : (tvf c t f g).length = 1 + 2 * c := by
  simp [tvf]; omega

theorem tvf_add (c t t' : ℕ) (f g f' g' : ℕ → ℕ) :
    List.zipWith (· + ·) (tvf c t f g) (tvf c t' f' g') =
      tvf c (t + t') (fun k => f k + f' k) (fun k => g k + g' k) := by
  simp only [tvf, List.zipWith_cons_cons]
  rw [List.zipWith_append (by simp)]
  simp [List.zipWith_map, List.zipWith_self]

theorem tvf_zero (N K c : ℕ) : (Dom.tally N K c).zeroVec = tvf c 0 (fun _ => 0) (fun _ => 0) := by
  simp only [Dom.zeroVec, Dom.dim, tvf]
  rw [show 1 + 2 * c = (c + c) + 1 by omega, List.replicate_succ, List.replicate_add]
  simp

theorem clip_add_clip {D : Dom} (x y : List ℕ) (hx : x.length = D.dim) (hy : y.length = D.dim) :
    (AVal.clip D x + AVal.clip D y : AVal D) = AVal.clip D (List.zipWith (· + ·) x y) := by
  by_cases h1 : D.ok x = true
  · by_cases h2 : D.ok y = true
    · rw [AVal.clip_ok h1, AVal.clip_ok h2]; rfl
    · rw [AVal.clip_not_ok h2, aval_add_none, AVal.clip_not_ok]
      intro h; exact h2 (Dom.ok_down h (VLe_vadd_right (hx.trans hy.symm)))
  · rw [AVal.clip_not_ok h1, aval_none_add, AVal.clip_not_ok]
    intro h; exact h1 (Dom.ok_down h (VLe_vadd_left (hx.trans hy.symm)))

theorem aval_zero_eq (D : Dom) : (0 : AVal D) = AVal.clip D D.zeroVec := rfl

/-- a sum of clipped tally vectors is the clipped component-wise sum (the domain is downward closed) -/
theorem sum_clip_tvf {α : Type} (N K c : ℕ) (l : List α) (t : α → ℕ) (f g : α → ℕ → ℕ) :
    (l.map (fun x => AVal.clip (Dom.tally N K c) (tvf c (t x) (f x) (g x)))).sum =
      AVal.clip (Dom.tally N K c) (tvf c (l.map t).sum (fun k => (l.map (f · k)).sum) (fun k => (l.map (g · k)).sum)) := by
  induction l with
  | nil => simp only [List.map_nil, List.sum_nil]; rw [aval_zero_eq, tvf_zero]
  | cons x l ih =>
    simp only [List.map_cons, List.sum_cons, ih]
    rw [clip_add_clip _ _ (tvf_length ..) (tvf_length ..), tvf_add]

theorem tallyVal_with (N K c label : ℕ) :
    tallyVal (Dom.tally N K c) 0 (onehot c label) (List.replicate c 0) =
      AVal.clip (Dom.tally N K c) (tvf c 0 (fun k => if k = label then 1 else 0) (fun _ => 0)) := by
  simp [tallyVal, onehot, tvf]

theorem tallyVal_without (N K c label : ℕ) :
    tallyVal (Dom.tally N K c) 0 (List.replicate c 0) (onehot c label) =
      AVal.clip (Dom.tally N K c) (tvf c 0 (fun _ => 0) (fun k => if k = label then 1 else 0)) := by
  simp [tallyVal, onehot, tvf]

theorem tallyVal_one (N K c : ℕ) :
    tallyVal (Dom.tally N K c) 1 (List.replicate c 0) (List.replicate c 0) =
      AVal.clip (Dom.tally N K c) (tvf c 1 (fun _ => 0) (fun _ => 0)) := by
  simp [tallyVal, tvf]

theorem clip_eq_clip_iff {D : Dom} (x y : List ℕ) (hy : D.ok y = true) :
    AVal.clip D x = AVal.clip D y ↔ x = y := by
  rw [AVal.clip_ok hy, AVal.clip_eq_some_iff]
  exact ⟨fun h => h.symm, fun h => h.symm⟩

theorem tvf_eq_iff (c t : ℕ) (f g : ℕ → ℕ) (v : List ℕ) (hv : v.length = 1 + 2 * c) :
    tvf c t f g = v ↔
      t = v.headD 0 ∧ (List.range c).map f = (v.drop 1).take c ∧ (List.range c).map g = (v.drop (1 + c)).take c := by
  cases v with
  | nil => simp at hv; omega
  | cons a rest =>
    have hr : rest.length = c + c := by simp at hv; omega
    simp only [tvf, List.cons.injEq, List.headD_cons, List.drop_succ_cons, List.drop_zero,
      show 1 + c = c + 1 by omega]
    constructor
    · rintro ⟨rfl, h⟩
      subst h
      simp
    · rintro ⟨rfl, h1, h2⟩
      refine ⟨rfl, ?_⟩
      rw [h1, h2, List.take_of_length_le (l := List.drop c rest) (by simp; omega), List.take_append_drop]

theorem sum_map_ite_filter {α M : Type} [AddCommMonoid M] (l : List α) (P : α → Bool) (v : α → M) :
    (l.map (fun x => if P x then v x else 0)).sum = ((l.filter P).map v).sum := by
  induction l with
  | nil => simp
  | cons x l ih =>
    by_cases h : P x <;> simp [h, ih, List.filter_cons]

theorem sum_map_ite_eq_length {α : Type} (l : List α) (P : α → Bool) :
    (l.map (fun x => if P x then 1 else 0)).sum = (l.filter P).length := by
  induction l with
  | nil => simp
  | cons x l ih =>
    by_cases h : P x <;> simp [h, ih, List.filter_cons]; omega

end Tally

/-! ## 4. `addOnCandidate`, adder widths -/
section AddOn
variable {V : Type} [AddCommMonoid V]

/-- every node stores `C` edge values -/
def AdRect (C : ℕ) (L : List (Level V)) : Prop := ∀ lv ∈ L, ∀ nd ∈ lv, nd.adder.length = C

def addOnNode (c : ℕ) (v : V) (nd : Node V) : Node V := { nd with adder := nd.adder.modify c (· + v) }

theorem addOnCandidate_eq (d : Diagram V) (c : ℕ) (v : V) :
    d.addOnCandidate c v = { d with levels := d.levels.map (fun lv => lv.map (addOnNode c v)) } := rfl

theorem addOn_shape (L : List (Level V)) (c : ℕ) (v : V) :
    SameShape L (L.map (fun lv => lv.map (addOnNode c v))) := by
  unfold SameShape
  rw [List.forall₂_map_right_iff]
  apply forall₂_refl'
  intro lv
  rw [List.forall₂_map_right_iff]
  apply forall₂_refl'
  intro nd
  exact ⟨rfl, rfl, by simp [addOnNode]⟩

theorem eval_addOn (L : List (Level V)) (v : V) (j : ℕ) (as : List ℕ) (hw : wf 2 L j) (ha : AdRect 2 L)
    (hC : ∀ a ∈ as, a < 2) (hl : as.length ≤ L.length) :
    evalFrom (L.map (fun lv => lv.map (addOnNode 1 v))) j as =
      evalFrom L j as + (as.map (fun a => if a = 1 then v else 0)).sum := by
  induction L generalizing j as with
  | nil => cases as with
    | nil => simp [evalFrom]
    | cons a as => simp at hl
  | cons lv rest ih =>
    cases as with
    | nil => simp [evalFrom]
    | cons a as =>
      simp only [List.map_cons, evalFrom, List.sum_cons]
      rw [nodeAt_map _ (by simp [addOnNode])]
      have hj : j < lv.length := nodeAt_lt_of_active hw.1
      have hnd : (nodeAt lv j).adder.length = 2 := by
        rw [nodeAt_eq_getElem hj]; exact ha lv (by simp) _ (List.getElem_mem hj)
      have hch : (addOnNode 1 v (nodeAt lv j)).ch a = (nodeAt lv j).ch a := rfl
      have had : (addOnNode 1 v (nodeAt lv j)).ad a = (nodeAt lv j).ad a + (if a = 1 then v else 0) := by
        simp only [addOnNode, Node.ad, getD_modify, hnd]
        by_cases h1 : a = 1
        · subst h1; simp
        · have : ¬ (1 = a) := fun h => h1 h.symm
          simp [h1, this]
      rw [hch, had, ih _ as (hw.2 a (hC a (by simp))) (fun lv' h => ha lv' (by simp [h]))
        (fun x hx => hC x (by simp [hx])) (by simpa using hl)]
      exact add_add_add_comm _ _ _ _

/-- `addOnCandidate 1 v` adds `v` once per argument equal to 1 -/
theorem addOnCandidate_spec (d : Diagram V) (v : V) (hw : d.WF) (hC : d.C = 2) (ha : AdRect 2 d.levels) :
    (d.addOnCandidate 1 v).WF ∧ (d.addOnCandidate 1 v).C = 2 ∧ (d.addOnCandidate 1 v).units = d.units ∧
    ∀ as, as.length = d.units.length → (∀ a ∈ as, a < 2) →
      (d.addOnCandidate 1 v).eval as = d.eval as + (as.map (fun a => if a = 1 then v else 0)).sum := by
  rw [addOnCandidate_eq]
  have hs := addOn_shape d.levels 1 v
  refine ⟨⟨hs.length.symm.trans hw.len, hs.wf _ _ hw.reach⟩, hC, rfl, fun as hl hlt => ?_⟩
  exact eval_addOn d.levels v d.root as (hC ▸ hw.reach) ha hlt (by rw [hw.len, hl])

theorem sumLevel_adRect (C : ℕ) (la lb : Level V) (tbl pairs : List Pair) :
    ∀ nd ∈ (sumLevel C la lb tbl pairs).2, nd.adder.length = C := by
  induction pairs generalizing tbl with
  | nil => simp [sumLevel]
  | cons p ps ih =>
    intro nd hnd
    simp only [sumLevel, List.mem_cons] at hnd
    rcases hnd with rfl | hnd
    · simp
    · exact ih _ nd hnd

theorem sumLevels_adRect (C : ℕ) (LA LB : List (Level V)) (pairs : List Pair) :
    AdRect C (sumLevels C LA LB pairs) := by
  induction LA generalizing LB pairs with
  | nil => intro lv h; simp [sumLevels] at h
  | cons la ra ih =>
    cases LB with
    | nil => intro lv h; simp [sumLevels] at h
    | cons lb rb =>
      intro lv h
      simp only [sumLevels, List.mem_cons] at h
      rcases h with rfl | h
      · exact sumLevel_adRect C la lb [] pairs
      · exact ih rb _ lv h

theorem blank_adder (C : ℕ) : (blank C : Node V).adder.length = C := by simp [blank]

/-- the result of `sum` stores `C` values per node -/
theorem sum_adRect (a b s : Diagram V) (h : a.sum b = .ok s) : AdRect a.C s.levels := by
  rw [sum_eq] at h
  split at h
  · cases h
  · simp only [Except.ok.injEq] at h
    subst h
    intro lv hlv nd hnd
    simp only [List.mem_map] at hlv
    obtain ⟨lv0, h0, rfl⟩ := hlv
    simp only [padLevel, List.mem_append, List.mem_replicate] at hnd
    rcases hnd with hnd | ⟨_, rfl⟩
    · exact sumLevels_adRect _ _ _ _ lv0 h0 nd hnd
    · exact blank_adder _

end AddOn

/-! ## 5. argument tuples (diagram order) and assignments (unit order) -/
section Bridge

theorem allArgs_two (n : ℕ) : allArgs 2 n = allAssign n := by
  induction n with
  | zero => rfl
  | succ n ih => simp only [allArgs, allAssign, ih]; rfl

theorem allAssign_succ (n : ℕ) :
    allAssign (n + 1) = (allAssign n).map (0 :: ·) ++ (allAssign n).map (1 :: ·) := by
  simp [allAssign]

theorem mem_allAssign (n : ℕ) (a : List ℕ) : a ∈ allAssign n ↔ a.length = n ∧ ∀ x ∈ a, x < 2 := by
  induction n generalizing a with
  | zero =>
    simp only [allAssign, List.mem_singleton, List.length_eq_zero_iff]
    constructor
    · rintro rfl; simp
    · exact fun h => h.1
  | succ n ih =>
    rw [allAssign_succ]
    simp only [List.mem_append, List.mem_map]
    constructor
    · rintro (⟨b, hb, rfl⟩ | ⟨b, hb, rfl⟩) <;>
      · obtain ⟨h1, h2⟩ := (ih b).mp hb
        refine ⟨by simp [h1], fun x hx => ?_⟩
        rcases List.mem_cons.mp hx with rfl | hx
        · omega
        · exact h2 x hx
    · rintro ⟨h1, h2⟩
      cases a with
      | nil => simp at h1
      | cons x b =>
        have hb : b ∈ allAssign n := (ih b).mpr ⟨by simpa using h1, fun y hy => h2 y (by simp [hy])⟩
        have hx := h2 x (by simp)
        have : x = 0 ∨ x = 1 := by omega
        rcases this with rfl | rfl
        · exact Or.inl ⟨b, hb, rfl⟩
        · exact Or.inr ⟨b, hb, rfl⟩

theorem nodup_allAssign (n : ℕ) : (allAssign n).Nodup := by
  induction n with
  | zero => simp [allAssign]
  | succ n ih =>
    rw [allAssign_succ, List.nodup_append]
    refine ⟨ih.map (fun _ _ h => by simpa using h), ih.map (fun _ _ h => by simpa using h), ?_⟩
    intro a ha b hb
    simp only [List.mem_map] at ha hb
    obtain ⟨_, _, rfl⟩ := ha
    obtain ⟨_, _, rfl⟩ := hb
    simp

/-- the argument tuple (diagram order `us`) of the assignment `a` (unit order) -/
def reorder (us : List ℕ) (a : List ℕ) : List ℕ := us.map (fun u => a.getD u 0)

theorem getD_lt_two {a : List ℕ} (h : ∀ x ∈ a, x < 2) (u : ℕ) : a.getD u 0 < 2 := by
  by_cases hu : u < a.length
  · rw [List.getD_eq_getElem _ _ hu]; exact h _ (List.getElem_mem hu)
  · rw [List.getD_eq_default _ _ (Nat.le_of_not_lt hu)]; omega

theorem reorder_mem (us : List ℕ) (n : ℕ) (hl : us.length = n) (a : List ℕ) (ha : a ∈ allAssign n) :
    reorder us a ∈ allAssign n := by
  rw [mem_allAssign] at ha ⊢
  refine ⟨by simp [reorder, hl], fun x hx => ?_⟩
  simp only [reorder, List.mem_map] at hx
  obtain ⟨u, _, rfl⟩ := hx
  exact getD_lt_two ha.2 u

theorem reorder_getD (us : List ℕ) (a : List ℕ) (u : ℕ) (hu : u ∈ us) :
    (reorder us a).getD (us.idxOf u) 0 = a.getD u 0 := by
  have hi : us.idxOf u < us.length := List.idxOf_lt_length_iff.mpr hu
  rw [List.getD_eq_getElem _ _ (by simpa [reorder] using hi)]
  simp [reorder]

theorem perm_reorder (us : List ℕ) (n : ℕ) (hp : us.Perm (List.range n)) :
    ((allAssign n).map (reorder us)).Perm (allAssign n) := by
  have hl : us.length = n := by simpa using hp.length_eq
  have hnd : us.Nodup := hp.nodup_iff.mpr List.nodup_range
  have hmem : ∀ u, u ∈ us ↔ u < n := fun u => by rw [hp.mem_iff]; simp
  rw [List.perm_ext_iff_of_nodup ?_ (nodup_allAssign n)]
  · intro x
    constructor
    · intro hx
      obtain ⟨a, ha, rfl⟩ := List.mem_map.mp hx
      exact reorder_mem us n hl a ha
    · intro hx
      rw [List.mem_map]
      have hx' := (mem_allAssign n x).mp hx
      refine ⟨(List.range n).map (fun u => x.getD (us.idxOf u) 0), ?_, ?_⟩
      · rw [mem_allAssign]
        refine ⟨by simp, fun y hy => ?_⟩
        obtain ⟨u, _, rfl⟩ := List.mem_map.mp hy
        exact getD_lt_two hx'.2 _
      · apply List.ext_getElem
        · simp [reorder, hl, hx'.1]
        · intro i h1 h2
          have hi : i < us.length := by simpa [reorder] using h1
          have hu : us[i] < n := (hmem _).mp (List.getElem_mem hi)
          simp only [reorder, List.getElem_map]
          rw [List.getD_eq_getElem _ _ (by simpa using hu)]
          simp only [List.getElem_map, List.getElem_range]
          rw [hnd.idxOf_getElem, List.getD_eq_getElem _ _ h2]
  · apply List.Nodup.map_on _ (nodup_allAssign n)
    intro a ha b hb hab
    rw [mem_allAssign] at ha hb
    simp only [reorder, List.map_inj_left] at hab
    apply List.ext_getElem (ha.1.trans hb.1.symm)
    intro i h1 h2
    have := hab i ((hmem i).mpr (ha.1 ▸ h1))
    rwa [List.getD_eq_getElem _ _ h1, List.getD_eq_getElem _ _ h2] at this

theorem countP_reorder (us : List ℕ) (n : ℕ) (hp : us.Perm (List.range n)) (H : List ℕ → Bool) :
    (allAssign n).countP H = (allAssign n).countP (fun a => H (reorder us a)) := by
  rw [← (perm_reorder us n hp).countP_eq, List.countP_map]; rfl

theorem reorder_perm (us : List ℕ) (n : ℕ) (hp : us.Perm (List.range n)) (a : List ℕ) (ha : a.length = n) :
    (reorder us a).Perm a := by
  have h1 : (reorder us a).Perm ((List.range n).map (fun u => a.getD u 0)) := hp.map _
  have h2 : (List.range n).map (fun u => a.getD u 0) = a := by
    apply List.ext_getElem (by simp [ha])
    intro i h1 h2
    simp only [List.getElem_map, List.getElem_range]
    exact List.getD_eq_getElem _ _ h2
  rw [h2] at h1; exact h1

theorem reorder_set (us : List ℕ) (n : ℕ) (hp : us.Perm (List.range n)) (a : List ℕ) (ha : a.length = n)
    (target : ℕ) (ht : target < n) :
    (reorder us a).set (us.idxOf target) 1 = reorder us (a.set target 1) := by
  have hnd : us.Nodup := hp.nodup_iff.mpr List.nodup_range
  have hmem : ∀ u, u ∈ us ↔ u < n := fun u => by rw [hp.mem_iff]; simp
  apply List.ext_getElem (by simp [reorder])
  intro i h1 h2
  have hi : i < us.length := by simpa [reorder] using h2
  simp only [reorder, List.getElem_set, List.getElem_map]
  by_cases h : us.idxOf target = i
  · subst h
    rw [if_pos rfl, List.getElem_idxOf]
    rw [List.getD_eq_getElem _ _ (by simpa [ha] using ht)]
    simp
  · rw [if_neg h]
    have hne : target ≠ us[i] := by
      intro he; apply h; rw [he, hnd.idxOf_getElem]
    simp only [List.getD_eq_getElem?_getD, List.getElem?_set_ne hne]

/-- fixing one position to 0 -/
theorem countP_insertIdx (idx n : ℕ) (h : idx ≤ n) (G : List ℕ → Bool) :
    (allAssign n).countP (fun as => G (as.insertIdx idx 0)) =
      (allAssign (n + 1)).countP (fun args => args.getD idx 1 == 0 && G args) := by
  induction idx generalizing n G with
  | zero =>
    rw [allAssign_succ, List.countP_append, List.countP_map, List.countP_map]
    simp [Function.comp_def]
  | succ idx ih =>
    cases n with
    | zero => omega
    | succ n =>
      rw [allAssign_succ n, allAssign_succ (n + 1)]
      simp only [List.countP_append, List.countP_map, Function.comp_def, List.insertIdx_succ_cons,
        List.getD_cons_succ]
      rw [ih n (by omega) (fun x => G (0 :: x)), ih n (by omega) (fun x => G (1 :: x)), allAssign_succ n]

theorem insertIdx_one_eq_set (as : List ℕ) (idx : ℕ) (h : idx ≤ as.length) :
    as.insertIdx idx 1 = (as.insertIdx idx 0).set idx 1 := by
  induction as generalizing idx with
  | nil => have : idx = 0 := by simpa using h
           subst this; simp
  | cons a as ih =>
    cases idx with
    | zero => simp
    | succ idx => simp [ih idx (by simpa using h)]

end Bridge

/-! ## 6. unfolding `build` and `query` -/
section Build
variable {D : Dom}

/-- rows within the boundary -/
def incRows (R : ℕ) (dist : List Rat) (t : Option ℕ) : List ℕ :=
  (List.range R).filter (fun tt => match t with | none => true | some t => dist.getD t 0 ≥ dist.getD tt 0)

def withDiag (D : Dom) (c : ℕ) (labels : List ℕ) (base : Compiled (AVal D)) (inc : List ℕ) : Diagram (AVal D) :=
  inc.foldl (fun d tt => d.update (base.locs.getD tt []) (tallyVal D 0 (onehot c (labels.getD tt 0)) (List.replicate c 0)) true) base.add

def withoutDiag (D : Dom) (c : ℕ) (labels : List ℕ) (base : Compiled (AVal D)) (inc : List ℕ) : Diagram (AVal D) :=
  inc.foldl (fun d tt => d.update (base.locs.getD tt []) (tallyVal D 0 (List.replicate c 0) (onehot c (labels.getD tt 0))) true) base.add

def mkPair (D : Dom) (c : ℕ) (p : Prov.P) (labels : List ℕ) (dist : List Rat) (base : Compiled (AVal D))
    (t : Option ℕ) : Except Err (Diagram (AVal D) × Diagram (AVal D)) :=
  match t with
  | none => pure (withDiag D c labels base (incRows p.data.length dist none),
                  withoutDiag D c labels base (incRows p.data.length dist none))
  | some t =>
      (rowUnits (p.data.getD t [])).foldlM (fun (ds : Diagram (AVal D) × Diagram (AVal D)) u => do
          let loc ← base.add.getUpdateLocation [(u, 0)]
          pure (ds.1.update loc none false, ds.2.update loc none false))
        (withDiag D c labels base (incRows p.data.length dist (some t)),
         withoutDiag D c labels base (incRows p.data.length dist (some t)))

theorem build_eq (c : ℕ) (p : Prov.P) (labels : List ℕ) (dist : List Rat) :
    build D c p labels dist = (do
      let base : Compiled (AVal D) ← compile p
      let all ← ((List.range p.data.length).map some ++ [none]).mapM (mkPair D c p labels dist base)
      pure { base := base, withs := all.map (·.1), withouts := all.map (·.2) }) := by
  unfold build
  congr 1
  funext base
  dsimp only
  congr 2
  funext t
  cases t <;> rfl

end Build
end Ds.Oracle

namespace Ds.Oracle
open Ds.Dd
section Build2
variable {D : Dom}

theorem mapM_ok {α β : Type} (f : α → Except Err β) (l : List α) (ys : List β) (h : l.mapM f = .ok ys) :
    ys.length = l.length ∧ ∀ i (h1 : i < l.length) (h2 : i < ys.length), f l[i] = .ok ys[i] := by
  induction l generalizing ys with
  | nil =>
    simp only [List.mapM_nil, pure, Except.pure, Except.ok.injEq] at h
    subst h; simp
  | cons a l ih =>
    rw [List.mapM_cons] at h
    cases hfa : f a with
    | error e => rw [hfa] at h; cases h
    | ok b =>
      rw [hfa] at h
      cases hl : List.mapM f l with
      | error e => rw [hl] at h; cases h
      | ok bs =>
        rw [hl] at h
        simp only [bind, Except.bind, pure, Except.pure, Except.ok.injEq] at h
        subst h
        obtain ⟨h1, h2⟩ := ih bs hl
        refine ⟨by simp [h1], fun i hi1 hi2 => ?_⟩
        cases i with
        | zero => simpa using hfa
        | succ i => simpa using h2 i (by simpa using hi1) (by simpa using hi2)

theorem foldlM_ok {α σ γ : Type} (g : α → Except Err γ) (hfun : α → γ) (F : σ → γ → σ) (l : List α)
    (hg : ∀ u ∈ l, g u = .ok (hfun u)) (init : σ) :
    l.foldlM (fun s u => do let loc ← g u; pure (F s loc)) init = .ok (l.foldl (fun s u => F s (hfun u)) init) := by
  induction l generalizing init with
  | nil => rfl
  | cons a l ih =>
    rw [List.foldlM_cons, hg a (by simp)]
    simp only [bind, Except.bind, pure, Except.pure]
    exact ih (fun u hu => hg u (by simp [hu])) _

/-- the value-`v` edges of all active nodes of the level of unit `u` -/
def unitLoc {V : Type} (d : Diagram V) (u v : ℕ) : List (ℕ × ℕ × ℕ) :=
  ((List.range (d.levels.getD (d.units.idxOf u) []).length).filter
    (fun j => (nodeAt (d.levels.getD (d.units.idxOf u) []) j).active)).map (fun j => (d.units.idxOf u, j, v))

theorem getUpdateLocation_single {V : Type} [Add V] [Zero V] (d : Diagram V) (u v : ℕ) (hu : u ∈ d.units) :
    d.getUpdateLocation [(u, v)] = .ok (unitLoc d u v) := by
  have hi : d.units.idxOf u < d.units.length := List.idxOf_lt_length_iff.mpr hu
  unfold Diagram.getUpdateLocation
  simp only [List.any_cons, List.any_nil, Bool.or_false, List.contains_iff_mem, hu, decide_true, Bool.not_true,
    Bool.false_eq_true, if_false, List.mergeSort_singleton]
  simp only [Diagram.getUpdateLocation.walk, Diagram.getUpdateLocation.skip, List.getElem?_eq_getElem hi,
    List.getElem_idxOf hi, beq_self_eq_true, if_true]
  rw [if_neg (by simp [hu])]
  rfl

end Build2
end Ds.Oracle

namespace Ds.Oracle
open Ds.Dd
section Spec

/-- `LocSpec`: the `Prop` behind the executable check `locSpecOk` -/
structure LocSpec {V : Type} (p : Prov.P) (cmp : Compiled V) : Prop where
  nodup : ∀ loc ∈ cmp.locs, loc.Nodup
  inRange : ∀ loc ∈ cmp.locs, ∀ e ∈ loc,
    e.1 < cmp.add.levels.length ∧ e.2.1 < (cmp.add.levels.getD e.1 []).length ∧ e.2.2 < cmp.add.C
  crossed : ∀ args ∈ allAssign cmp.add.units.length, ∀ r, r < p.data.length →
    ((pathEdges cmp.add.levels cmp.add.root args 0).filter (fun e => (cmp.locs.getD r []).contains e)).length =
      if (rowLits (p.data.getD r [])).all (fun uv => args.getD (cmp.add.units.idxOf uv.1) 0 == uv.2) then 1 else 0

/-- conjunctive provenance with positive literals: one disjunct per row; every literal that names a unit names
a unit `< nUnits` with candidate 1; the units of a row are pairwise distinct -/
def Conjunctive (p : Prov.P) : Prop :=
  p.nDisj = 1 ∧ ∀ r ∈ p.data,
    (∀ l ∈ r.getD 0 [], l.1 ≠ -1 → l.2 = 1 ∧ 0 ≤ l.1 ∧ l.1 < (p.nUnits : Int)) ∧ (rowUnits r).Nodup

instance (p : Prov.P) : Decidable (Conjunctive p) := by unfold Conjunctive; infer_instance

theorem Conjunctive.rowLits {p : Prov.P} (hc : Conjunctive p) (r : Prov.Row) (hr : r ∈ p.data) :
    rowLits r = (rowUnits r).map (fun u => (u, 1)) ∧ ∀ u ∈ rowUnits r, u < p.nUnits := by
  obtain ⟨h1, _⟩ := hc.2 r hr
  constructor
  · unfold Oracle.rowLits rowUnits
    rw [List.map_map]
    have : (r.getD 0 []).filter (fun l => l.1 != -1 && l.2 != -1) = (r.getD 0 []).filter (fun l => l.1 != -1) := by
      apply List.filter_congr
      intro l hl
      by_cases h : l.1 = -1
      · simp [h]
      · have := (h1 l hl h).1
        simp [h, this]
    rw [this]
    apply List.map_congr_left
    intro l hl
    rw [List.mem_filter] at hl
    have := (h1 l hl.1 (by simpa using hl.2)).1
    simp [this]
  · intro u hu
    unfold rowUnits at hu
    rw [List.mem_map] at hu
    obtain ⟨l, hl, rfl⟩ := hu
    rw [List.mem_filter] at hl
    have := (h1 l hl.1 (by simpa using hl.2)).2
    omega

theorem getD_mem_data (p : Prov.P) (r : ℕ) (h : r < p.data.length) : p.data.getD r [] ∈ p.data := by
  rw [List.getD_eq_getElem _ _ h]; exact List.getElem_mem h

/-- row `r` is present under the assignment `a` (unit order) -/
def present (p : Prov.P) (a : List ℕ) (r : ℕ) : Bool :=
  (rowUnits (p.data.getD r [])).all (fun u => a.getD u 0 == 1)

theorem presentRows_eq (p : Prov.P) (a : List ℕ) :
    presentRows p a = (List.range p.data.length).filter (present p a) := rfl

/-- in diagram order -/
theorem present_reorder {p : Prov.P} (hc : Conjunctive p) (us : List ℕ) (hp : us.Perm (List.range p.nUnits))
    (a : List ℕ) (r : ℕ) (hr : r < p.data.length) :
    (rowLits (p.data.getD r [])).all (fun uv => (reorder us a).getD (us.idxOf uv.1) 0 == uv.2) = present p a r := by
  obtain ⟨h1, h2⟩ := hc.rowLits _ (getD_mem_data p r hr)
  rw [h1, List.all_map]
  unfold present
  rw [Bool.eq_iff_iff]
  simp only [List.all_eq_true, Function.comp]
  constructor
  · intro h u hu
    rw [← reorder_getD us a u (by rw [hp.mem_iff]; simpa using h2 u hu)]; exact h u hu
  · intro h u hu
    rw [reorder_getD us a u (by rw [hp.mem_iff]; simpa using h2 u hu)]; exact h u hu

end Spec

/-! ## 7. the diagrams built by `ShapleyOracle.__init__` -/
section Built

theorem inRange_of_adRect {V : Type} [AddCommMonoid V] (L : List (Level V)) (C : ℕ) (ha : AdRect C L)
    (e : ℕ × ℕ × ℕ) (h1 : e.1 < L.length) (h2 : e.2.1 < (L.getD e.1 []).length) (h3 : e.2.2 < C) :
    inRange L e := by
  refine ⟨h1, h2, ?_⟩
  rw [nodeAt_eq_getElem h2, ha (L.getD e.1 []) (by rw [List.getD_eq_getElem _ _ h1]; exact List.getElem_mem h1) _
    (List.getElem_mem h2)]
  exact h3

theorem getD_nil_or_mem {α : Type} (l : List (List α)) (i : ℕ) : l.getD i [] = [] ∨ l.getD i [] ∈ l := by
  by_cases h : i < l.length
  · right; rw [List.getD_eq_getElem _ _ h]; exact List.getElem_mem h
  · left; exact List.getD_eq_default _ _ (Nat.le_of_not_lt h)

/-- what the main theorem needs to know about the compiled diagram -/
structure BaseOK {D : Dom} (p : Prov.P) (base : Compiled (AVal D)) : Prop where
  wf : base.add.WF
  ad : AdRect 2 base.add.levels
  C2 : base.add.C = 2
  perm : base.add.units.Perm (List.range p.nUnits)
  zero : ∀ args, base.add.eval args = 0
  loc : LocSpec p base

variable {D : Dom} {p : Prov.P} {base : Compiled (AVal D)}

theorem BaseOK.len (H : BaseOK p base) : base.add.units.length = p.nUnits := by
  simpa using H.perm.length_eq

theorem BaseOK.mem_units (H : BaseOK p base) (u : ℕ) : u ∈ base.add.units ↔ u < p.nUnits := by
  rw [H.perm.mem_iff]; simp

theorem BaseOK.locs_nodup (H : BaseOK p base) (tt : ℕ) : (base.locs.getD tt []).Nodup := by
  rcases getD_nil_or_mem base.locs tt with h | h
  · rw [h]; exact List.nodup_nil
  · exact H.loc.nodup _ h

theorem BaseOK.locs_inRange (H : BaseOK p base) (tt : ℕ) : ∀ e ∈ base.locs.getD tt [], inRange base.add.levels e := by
  rcases getD_nil_or_mem base.locs tt with h | h
  · rw [h]; simp
  · intro e he
    obtain ⟨h1, h2, h3⟩ := H.loc.inRange _ h e he
    exact inRange_of_adRect _ 2 H.ad e h1 h2 (H.C2 ▸ h3)

theorem BaseOK.crossed (H : BaseOK p base) (hc : Conjunctive p) (a : List ℕ) (ha : a ∈ allAssign p.nUnits)
    (r : ℕ) (hr : r < p.data.length) :
    (pathEdges base.add.levels base.add.root (reorder base.add.units a) 0).countP
        (fun e => decide (e ∈ base.locs.getD r [])) = if present p a r then 1 else 0 := by
  have h := H.loc.crossed (reorder base.add.units a)
    (by rw [H.len]; exact reorder_mem _ _ H.len a ha) r hr
  rw [present_reorder hc _ H.perm a r hr] at h
  rw [← h, List.countP_eq_length_filter]
  congr 2
  funext e
  simp

theorem sum_onehot (l : List ℕ) (lab : ℕ → ℕ) (k : ℕ) :
    (l.map (fun tt => if k = lab tt then 1 else 0)).sum = (l.filter (fun r => lab r == k)).length := by
  induction l with
  | nil => simp
  | cons x l ih =>
    simp only [List.map_cons, List.sum_cons, ih, List.filter_cons, beq_iff_eq]
    by_cases h : lab x = k
    · rw [if_pos h.symm, if_pos h]; simp; omega
    · rw [if_neg (fun h' => h h'.symm), if_neg h]; simp

/-- the `with` diagram: value of an assignment = tally of the labels of the present rows among `inc` -/
theorem withDiag_eval {N K c : ℕ} {base : Compiled (AVal (Dom.tally N K c))} (H : BaseOK p base) (hc : Conjunctive p)
    (labels : List ℕ) (inc : List ℕ) (hinc : ∀ tt ∈ inc, tt < p.data.length) (a : List ℕ) (ha : a ∈ allAssign p.nUnits) :
    Sim base.add (withDiag (Dom.tally N K c) c labels base inc) ∧
    (withDiag (Dom.tally N K c) c labels base inc).eval (reorder base.add.units a) =
      AVal.clip (Dom.tally N K c) (tvf c 0
        (fun k => ((inc.filter (present p a)).filter (fun r => labels.getD r 0 == k)).length) (fun _ => 0)) := by
  obtain ⟨h1, h2⟩ := eval_foldl_inc base.add (fun tt => base.locs.getD tt [])
    (fun tt => tallyVal (Dom.tally N K c) 0 (onehot c (labels.getD tt 0)) (List.replicate c 0)) inc
    (fun tt _ => H.locs_nodup tt) (fun tt _ => H.locs_inRange tt) base.add (Sim.refl _) (reorder base.add.units a)
  refine ⟨h1, ?_⟩
  unfold withDiag
  rw [h2, H.zero, zero_add]
  have : inc.map (fun tt => ((pathEdges base.add.levels base.add.root (reorder base.add.units a) 0).countP
      (fun e => decide (e ∈ base.locs.getD tt []))) •
        tallyVal (Dom.tally N K c) 0 (onehot c (labels.getD tt 0)) (List.replicate c 0)) =
      inc.map (fun tt => if present p a tt then
        AVal.clip (Dom.tally N K c) (tvf c 0 (fun k => if k = labels.getD tt 0 then 1 else 0) (fun _ => 0)) else 0) := by
    apply List.map_congr_left
    intro tt htt
    rw [H.crossed hc a ha tt (hinc tt htt), tallyVal_with]
    by_cases hp : present p a tt = true
    · rw [if_pos hp, if_pos hp, one_nsmul]
    · rw [if_neg hp, if_neg hp, zero_nsmul]
  rw [this, sum_map_ite_filter, sum_clip_tvf]
  congr 2
  · simp
  · funext k; exact sum_onehot _ _ k
  · funext k; simp

theorem withoutDiag_eval {N K c : ℕ} {base : Compiled (AVal (Dom.tally N K c))} (H : BaseOK p base) (hc : Conjunctive p)
    (labels : List ℕ) (inc : List ℕ) (hinc : ∀ tt ∈ inc, tt < p.data.length) (a : List ℕ) (ha : a ∈ allAssign p.nUnits) :
    Sim base.add (withoutDiag (Dom.tally N K c) c labels base inc) ∧
    (withoutDiag (Dom.tally N K c) c labels base inc).eval (reorder base.add.units a) =
      AVal.clip (Dom.tally N K c) (tvf c 0 (fun _ => 0)
        (fun k => ((inc.filter (present p a)).filter (fun r => labels.getD r 0 == k)).length)) := by
  obtain ⟨h1, h2⟩ := eval_foldl_inc base.add (fun tt => base.locs.getD tt [])
    (fun tt => tallyVal (Dom.tally N K c) 0 (List.replicate c 0) (onehot c (labels.getD tt 0))) inc
    (fun tt _ => H.locs_nodup tt) (fun tt _ => H.locs_inRange tt) base.add (Sim.refl _) (reorder base.add.units a)
  refine ⟨h1, ?_⟩
  unfold withoutDiag
  rw [h2, H.zero, zero_add]
  have : inc.map (fun tt => ((pathEdges base.add.levels base.add.root (reorder base.add.units a) 0).countP
      (fun e => decide (e ∈ base.locs.getD tt []))) •
        tallyVal (Dom.tally N K c) 0 (List.replicate c 0) (onehot c (labels.getD tt 0))) =
      inc.map (fun tt => if present p a tt then
        AVal.clip (Dom.tally N K c) (tvf c 0 (fun _ => 0) (fun k => if k = labels.getD tt 0 then 1 else 0)) else 0) := by
    apply List.map_congr_left
    intro tt htt
    rw [H.crossed hc a ha tt (hinc tt htt), tallyVal_without]
    by_cases hp : present p a tt = true
    · rw [if_pos hp, if_pos hp, one_nsmul]
    · rw [if_neg hp, if_neg hp, zero_nsmul]
  rw [this, sum_map_ite_filter, sum_clip_tvf]
  congr 2
  · simp
  · funext k; simp
  · funext k; exact sum_onehot _ _ k

end Built

section Boundary

theorem unitLoc_nodup {V : Type} (d : Diagram V) (u v : ℕ) : (unitLoc d u v).Nodup := by
  unfold unitLoc
  apply List.Nodup.map
  · intro a b h; simpa using h
  · exact List.nodup_range.filter _

theorem unitLoc_inRange {V : Type} [AddCommMonoid V] (d : Diagram V) (u v : ℕ) (hw : d.WF) (hu : u ∈ d.units)
    (ha : AdRect d.C d.levels) (hv : v < d.C) : ∀ e ∈ unitLoc d u v, inRange d.levels e := by
  intro e he
  unfold unitLoc at he
  simp only [List.mem_map, List.mem_filter, List.mem_range] at he
  obtain ⟨j, ⟨hj, _⟩, rfl⟩ := he
  have hi : d.units.idxOf u < d.units.length := List.idxOf_lt_length_iff.mpr hu
  exact inRange_of_adRect _ _ ha _ (by rw [hw.len]; exact hi) hj hv

/-- a path crosses a value-0 edge of unit `u`'s level iff the argument of `u` is 0 -/
theorem cross_unitLoc {V : Type} [AddCommMonoid V] (d : Diagram V) (u : ℕ) (hw : d.WF) (hu : u ∈ d.units)
    (args : List ℕ) (hl : args.length = d.units.length) (hC : ∀ x ∈ args, x < d.C) :
    (∃ e ∈ pathEdges d.levels d.root args 0, e ∈ unitLoc d u 0) ↔ args.getD (d.units.idxOf u) 0 = 0 := by
  have hi : d.units.idxOf u < d.units.length := List.idxOf_lt_length_iff.mpr hu
  constructor
  · rintro ⟨e, he, hloc⟩
    obtain ⟨k, h1, _, h3, _⟩ := mem_pathEdges he hw.reach hC
    unfold unitLoc at hloc
    simp only [List.mem_map, List.mem_filter, List.mem_range] at hloc
    obtain ⟨j, _, rfl⟩ := hloc
    simp only at h1 h3
    rw [Nat.zero_add] at h1
    rw [h1, List.getD_eq_getElem?_getD, h3]; rfl
  · intro h0
    obtain ⟨jk, hjk⟩ := exists_pathEdge d.levels d.root args 0 (d.units.idxOf u) (by rw [hw.len]; exact hi)
      (by rw [hl]; exact hi)
    rw [h0, Nat.zero_add] at hjk
    refine ⟨_, hjk, ?_⟩
    obtain ⟨k, h1, _, _, h4⟩ := mem_pathEdges hjk hw.reach hC
    simp only [Nat.zero_add] at h1 h4
    subst h1
    unfold unitLoc
    simp only [List.mem_map, List.mem_filter, List.mem_range]
    exact ⟨jk, ⟨nodeAt_lt_of_active h4, h4⟩, rfl⟩

theorem foldl_pair {α β γ : Type} (F : α → γ → α) (G : β → γ → β) (l : List γ) (x : α) (y : β) :
    l.foldl (fun (ds : α × β) u => (F ds.1 u, G ds.2 u)) (x, y) = (l.foldl F x, l.foldl G y) := by
  induction l generalizing x y with
  | nil => rfl
  | cons a l ih => simp [ih]

/-- the boundary row is present -/
def okB (p : Prov.P) (a : List ℕ) : Option ℕ → Bool
  | none => true
  | some b => present p a b

variable {p : Prov.P} {N K c : ℕ} {base : Compiled (AVal (Dom.tally N K c))}

/-- setting the value-0 edges of the units of row `b` to the invalid value -/
theorem boundary_eval (H : BaseOK p base) (hc : Conjunctive p) (b : ℕ) (hb : b < p.data.length)
    (d : Diagram (AVal (Dom.tally N K c))) (hs : Sim base.add d) (a : List ℕ) (ha : a ∈ allAssign p.nUnits) :
    Sim base.add ((rowUnits (p.data.getD b [])).foldl (fun d u => d.update (unitLoc base.add u 0) none false) d) ∧
    ((rowUnits (p.data.getD b [])).foldl (fun d u => d.update (unitLoc base.add u 0) none false) d).eval
        (reorder base.add.units a) =
      if present p a b then d.eval (reorder base.add.units a) else none := by
  have hrow := (hc.rowLits _ (getD_mem_data p b hb)).2
  have hmem : ∀ u ∈ rowUnits (p.data.getD b []), u ∈ base.add.units := fun u hu => (H.mem_units u).mpr (hrow u hu)
  have hargs := (mem_allAssign _ _).mp (reorder_mem _ _ H.len a ha)
  have := eval_foldl_none base.add ((rowUnits (p.data.getD b [])).map (fun u => unitLoc base.add u 0))
    (by intro loc hloc; obtain ⟨u, _, rfl⟩ := List.mem_map.mp hloc; exact unitLoc_nodup _ _ _)
    (by intro loc hloc; obtain ⟨u, hu, rfl⟩ := List.mem_map.mp hloc
        exact unitLoc_inRange _ _ _ H.wf (hmem u hu) (H.C2 ▸ H.ad) (by rw [H.C2]; omega))
    d hs (reorder base.add.units a)
  rw [List.foldl_map] at this
  refine ⟨this.1, ?_⟩
  rw [this.2]
  have hiff : (∃ loc ∈ (rowUnits (p.data.getD b [])).map (fun u => unitLoc base.add u 0),
      ∃ e ∈ pathEdges base.add.levels base.add.root (reorder base.add.units a) 0, e ∈ loc) ↔ ¬ (present p a b = true) := by
    unfold present
    simp only [List.mem_map, List.all_eq_true, beq_iff_eq, not_forall]
    constructor
    · rintro ⟨loc, ⟨u, hu, rfl⟩, hx⟩
      have := (cross_unitLoc base.add u H.wf (hmem u hu) _ (hargs.1.trans H.len.symm)
        (by rw [H.C2]; exact hargs.2)).mp hx
      rw [reorder_getD _ _ _ (hmem u hu)] at this
      exact ⟨u, hu, by omega⟩
    · rintro ⟨u, hu, hne⟩
      refine ⟨_, ⟨u, hu, rfl⟩, ?_⟩
      apply (cross_unitLoc base.add u H.wf (hmem u hu) _ (hargs.1.trans H.len.symm)
        (by rw [H.C2]; exact hargs.2)).mpr
      rw [reorder_getD _ _ _ (hmem u hu)]
      have := getD_lt_two ((mem_allAssign _ _).mp ha).2 u
      omega
  by_cases hp : present p a b = true
  · rw [if_neg (fun h => hiff.mp h hp), if_pos hp]
  · rw [if_pos (hiff.mpr hp), if_neg hp]

/-- the pair of diagrams built for boundary `t` -/
theorem mkPair_spec (H : BaseOK p base) (hc : Conjunctive p) (labels : List ℕ) (dist : List Rat) (t : Option ℕ)
    (ht : ∀ b, t = some b → b < p.data.length) (w wo : Diagram (AVal (Dom.tally N K c)))
    (h : mkPair (Dom.tally N K c) c p labels dist base t = .ok (w, wo)) :
    Sim base.add w ∧ Sim base.add wo ∧ ∀ a ∈ allAssign p.nUnits,
      w.eval (reorder base.add.units a) =
        (if okB p a t then AVal.clip (Dom.tally N K c) (tvf c 0
          (fun k => (((incRows p.data.length dist t).filter (present p a)).filter (fun r => labels.getD r 0 == k)).length)
          (fun _ => 0)) else none) ∧
      wo.eval (reorder base.add.units a) =
        (if okB p a t then AVal.clip (Dom.tally N K c) (tvf c 0 (fun _ => 0)
          (fun k => (((incRows p.data.length dist t).filter (present p a)).filter (fun r => labels.getD r 0 == k)).length))
          else none) := by
  have hinc : ∀ tt ∈ incRows p.data.length dist t, tt < p.data.length := by
    intro tt htt; unfold incRows at htt; rw [List.mem_filter] at htt; simpa using htt.1
  cases t with
  | none =>
    simp only [mkPair, pure, Except.pure, Except.ok.injEq, Prod.mk.injEq] at h
    obtain ⟨rfl, rfl⟩ := h
    refine ⟨?_, ?_, fun a ha => ⟨?_, ?_⟩⟩
    · exact (withDiag_eval H hc labels _ hinc (List.replicate p.nUnits 0)
        ((mem_allAssign _ _).mpr ⟨by simp, by simp⟩)).1
    · exact (withoutDiag_eval H hc labels _ hinc (List.replicate p.nUnits 0)
        ((mem_allAssign _ _).mpr ⟨by simp, by simp⟩)).1
    · simp only [okB, if_true]; exact (withDiag_eval H hc labels _ hinc a ha).2
    · simp only [okB, if_true]; exact (withoutDiag_eval H hc labels _ hinc a ha).2
  | some b =>
    have hb := ht b rfl
    have hrow := (hc.rowLits _ (getD_mem_data p b hb)).2
    have hmem : ∀ u ∈ rowUnits (p.data.getD b []), u ∈ base.add.units := fun u hu => (H.mem_units u).mpr (hrow u hu)
    unfold mkPair at h
    simp only at h
    rw [foldlM_ok (fun u => base.add.getUpdateLocation [(u, 0)]) (fun u => unitLoc base.add u 0)
      (fun (ds : Diagram (AVal (Dom.tally N K c)) × Diagram (AVal (Dom.tally N K c))) loc =>
        (ds.1.update loc none false, ds.2.update loc none false)) _
      (fun u hu => getUpdateLocation_single base.add u 0 (hmem u hu))] at h
    rw [foldl_pair (fun (d : Diagram (AVal (Dom.tally N K c))) u => d.update (unitLoc base.add u 0) none false)
      (fun (d : Diagram (AVal (Dom.tally N K c))) u => d.update (unitLoc base.add u 0) none false)] at h
    simp only [Except.ok.injEq, Prod.mk.injEq] at h
    obtain ⟨rfl, rfl⟩ := h
    have z : List.replicate p.nUnits 0 ∈ allAssign p.nUnits := (mem_allAssign _ _).mpr ⟨by simp, by simp⟩
    refine ⟨?_, ?_, fun a ha => ⟨?_, ?_⟩⟩
    · exact (boundary_eval H hc b hb _ (withDiag_eval H hc labels _ hinc _ z).1 _ z).1
    · exact (boundary_eval H hc b hb _ (withoutDiag_eval H hc labels _ hinc _ z).1 _ z).1
    · rw [(boundary_eval H hc b hb _ (withDiag_eval H hc labels _ hinc _ z).1 a ha).2,
        (withDiag_eval H hc labels _ hinc a ha).2]; rfl
    · rw [(boundary_eval H hc b hb _ (withoutDiag_eval H hc labels _ hinc _ z).1 a ha).2,
        (withoutDiag_eval H hc labels _ hinc a ha).2]; rfl

end Boundary

/-! ## 8. `build` and `query` -/
section Query

theorem build_spec {D : Dom} (c : ℕ) (p : Prov.P) (labels : List ℕ) (dist : List Rat) (b : Built D)
    (h : build D c p labels dist = .ok b) :
    compile p = .ok b.base ∧ ∀ t : Option ℕ, (∀ x, t = some x → x < p.data.length) →
      mkPair D c p labels dist b.base t =
        .ok (b.withs.getD (bIdx p.data.length t) default, b.withouts.getD (bIdx p.data.length t) default) := by
  rw [build_eq] at h
  cases hcomp : (compile p : Except Err (Compiled (AVal D))) with
  | error e => rw [hcomp] at h; cases h
  | ok base =>
    rw [hcomp] at h
    simp only [bind, Except.bind] at h
    cases hall : ((List.range p.data.length).map some ++ [none]).mapM (mkPair D c p labels dist base) with
    | error e => rw [hall] at h; cases h
    | ok all =>
      rw [hall] at h
      simp only [pure, Except.pure, Except.ok.injEq] at h
      subst h
      refine ⟨rfl, fun t ht => ?_⟩
      obtain ⟨h1, h2⟩ := mapM_ok _ _ _ hall
      have hlen : ((List.range p.data.length).map some ++ [none]).length = p.data.length + 1 := by simp
      have hi : bIdx p.data.length t < p.data.length + 1 := by
        cases t with
        | none => simp [bIdx]
        | some x => have := ht x rfl; simp only [bIdx]; omega
      have hget : ((List.range p.data.length).map some ++ [none])[bIdx p.data.length t]'(by rw [hlen]; exact hi) = t := by
        cases t with
        | none => simp [bIdx]
        | some x =>
          have := ht x rfl
          simp only [bIdx]
          rw [List.getElem_append_left (by simpa using this)]
          simp
      have := h2 (bIdx p.data.length t) (by rw [hlen]; exact hi) (by rw [h1, hlen]; exact hi)
      rw [hget] at this
      rw [this]
      simp only
      rw [List.getD_eq_getElem _ _ (by simp [h1]; exact hi), List.getD_eq_getElem _ _ (by simp [h1]; exact hi)]
      simp

variable {p : Prov.P} {N K c : ℕ}

/-- tally of the labels of the rows present under `a` that are no farther than the boundary `t` -/
def wTally (p : Prov.P) (labels : List ℕ) (dist : List Rat) (a : List ℕ) (t : Option ℕ) (k : ℕ) : ℕ :=
  (((incRows p.data.length dist t).filter (present p a)).filter (fun r => labels.getD r 0 == k)).length

/-- the value the `with` diagram of boundary `t` takes at assignment `a` -/
def wVal (N K c : ℕ) (p : Prov.P) (labels : List ℕ) (dist : List Rat) (a : List ℕ) (t : Option ℕ) : AVal (Dom.tally N K c) :=
  if okB p a t then AVal.clip (Dom.tally N K c) (tvf c 0 (wTally p labels dist a t) (fun _ => 0)) else none

def woVal (N K c : ℕ) (p : Prov.P) (labels : List ℕ) (dist : List Rat) (a : List ℕ) (t : Option ℕ) : AVal (Dom.tally N K c) :=
  if okB p a t then AVal.clip (Dom.tally N K c) (tvf c 0 (fun _ => 0) (wTally p labels dist a t)) else none

/-- value of the summed diagram at the assignment `a` (with `a[target] = 0`) -/
def qVal (N K c : ℕ) (p : Prov.P) (labels : List ℕ) (dist : List Rat) (target : ℕ) (bw bwo : Option ℕ) (a : List ℕ) :
    AVal (Dom.tally N K c) :=
  wVal N K c p labels dist (a.set target 1) bw + woVal N K c p labels dist a bwo +
    AVal.clip (Dom.tally N K c) (tvf c a.sum (fun _ => 0) (fun _ => 0))

theorem sum_ite_binary (l : List ℕ) (h : ∀ x ∈ l, x < 2) : (l.map (fun x => if x = 1 then 1 else 0)).sum = l.sum := by
  induction l with
  | nil => rfl
  | cons x l ih =>
    have hx := h x (by simp)
    simp only [List.map_cons, List.sum_cons, ih (fun y hy => h y (by simp [hy]))]
    have : x = 0 ∨ x = 1 := by omega
    rcases this with rfl | rfl <;> simp

theorem ones_sum (N K c : ℕ) (args : List ℕ) (h : ∀ x ∈ args, x < 2) :
    (args.map (fun a => if a = 1 then tallyVal (Dom.tally N K c) 1 (List.replicate c 0) (List.replicate c 0) else 0)).sum =
      AVal.clip (Dom.tally N K c) (tvf c args.sum (fun _ => 0) (fun _ => 0)) := by
  have : (fun a => if a = 1 then tallyVal (Dom.tally N K c) 1 (List.replicate c 0) (List.replicate c 0) else 0) =
      (fun a => AVal.clip (Dom.tally N K c) (tvf c (if a = 1 then 1 else 0) (fun _ => 0) (fun _ => 0))) := by
    funext a
    by_cases h : a = 1
    · rw [if_pos h, if_pos h, tallyVal_one]
    · rw [if_neg h, if_neg h, aval_zero_eq, tvf_zero]
  rw [this, sum_clip_tvf, sum_ite_binary _ h]
  congr 2 <;> (funext k; simp)

theorem query_core {base : Compiled (AVal (Dom.tally N K c))} (H : BaseOK p base) (hn : 2 ≤ p.nUnits)
    (labels : List ℕ) (dist : List Rat) (target : ℕ) (ht : target < p.nUnits) (bw bwo : Option ℕ)
    (W WO : Diagram (AVal (Dom.tally N K c))) (sW : Sim base.add W) (sWO : Sim base.add WO)
    (hW : ∀ a ∈ allAssign p.nUnits, W.eval (reorder base.add.units a) = wVal N K c p labels dist a bw)
    (hWO : ∀ a ∈ allAssign p.nUnits, WO.eval (reorder base.add.units a) = woVal N K c p labels dist a bwo) :
    (do
      let aw ← W.restrict target 1
      let awo ← WO.restrict target 0
      let s ← aw.sum awo
      let s := s.addOnCandidate 1 (tallyVal (Dom.tally N K c) 1 (List.replicate c 0) (List.replicate c 0))
      pure (s.modelcount AVal.sub? ((Dom.tally N K c).vecs.map (AVal.clip (Dom.tally N K c)))) : Except Err (List Int)) =
      .ok ((Dom.tally N K c).domain.map (fun e =>
        (((allAssign p.nUnits).countP (fun a => a.getD target 0 == 0 &&
          decide (qVal N K c p labels dist target bw bwo a = e)) : ℕ) : Int))) := by
  have hlen := H.len
  have hWwf : W.WF := sW.wf H.wf
  have hWOwf : WO.WF := sWO.wf H.wf
  have hWu : W.units = base.add.units := sW.2.2.1
  have hWOu : WO.units = base.add.units := sWO.2.2.1
  have hWC : W.C = 2 := sW.2.2.2.trans H.C2
  have hWOC : WO.C = 2 := sWO.2.2.2.trans H.C2
  have hmem : target ∈ base.add.units := (H.mem_units target).mpr ht
  obtain ⟨aw, haw⟩ := restrict_ok W target 1 hWwf (by rw [hWu, hlen]; exact hn) (hWu ▸ hmem) (by rw [hWC]; omega)
  obtain ⟨awo, hawo⟩ := restrict_ok WO target 0 hWOwf (by rw [hWOu, hlen]; exact hn) (hWOu ▸ hmem) (by rw [hWOC]; omega)
  obtain ⟨_, _, awWF, awU, awC, awE⟩ := restrict_spec W aw target 1 hWwf (by rw [hWu, hlen]; exact hn) haw
  obtain ⟨_, _, awoWF, awoU, awoC, awoE⟩ := restrict_spec WO awo target 0 hWOwf (by rw [hWOu, hlen]; exact hn) hawo
  rw [hWu] at awU awE
  rw [hWOu] at awoU awoE
  rw [hWC] at awC awE
  rw [hWOC] at awoC awoE
  have hsum : ∃ s, aw.sum awo = .ok s := by
    rw [sum_eq, if_neg (by rw [awU, awoU, awC, awoC]; simp)]; exact ⟨_, rfl⟩
  obtain ⟨s, hs⟩ := hsum
  obtain ⟨_, _, sWF, sU, sC, sE⟩ := sum_spec aw awo s awWF awoWF hs
  have sAd := sum_adRect aw awo s hs
  rw [awC] at sC sE sAd
  obtain ⟨s'WF, s'C, s'U, s'E⟩ := addOnCandidate_spec s
    (tallyVal (Dom.tally N K c) 1 (List.replicate c 0) (List.replicate c 0)) sWF sC sAd
  simp only [haw, hawo, hs, bind, Except.bind, pure, Except.pure]
  congr 1
  rw [C10_modelcount_aval (Dom.tally N K c) (by simp [Dom.dim]) _ s'WF s'C]
  apply List.map_congr_left
  intro e _
  congr 1
  have hidx : base.add.units.idxOf target < p.nUnits := by
    rw [← hlen]; exact List.idxOf_lt_length_iff.mpr hmem
  have hs'len : (s.addOnCandidate 1 (tallyVal (Dom.tally N K c) 1 (List.replicate c 0)
      (List.replicate c 0))).units.length = p.nUnits - 1 := by
    rw [s'U, sU, awU, List.length_eraseIdx, if_pos (by rw [hlen]; exact hidx), hlen]
  rw [hs'len, allArgs_two]
  -- step 2: the value of the summed diagram in terms of the two boundary diagrams
  have step2 : ∀ as ∈ allAssign (p.nUnits - 1),
      evalFrom (s.addOnCandidate 1 (tallyVal (Dom.tally N K c) 1 (List.replicate c 0) (List.replicate c 0))).levels
        (s.addOnCandidate 1 (tallyVal (Dom.tally N K c) 1 (List.replicate c 0) (List.replicate c 0))).root as =
      W.eval ((as.insertIdx (base.add.units.idxOf target) 0).set (base.add.units.idxOf target) 1) +
        WO.eval (as.insertIdx (base.add.units.idxOf target) 0) +
        ((as.insertIdx (base.add.units.idxOf target) 0).map (fun a => if a = 1 then
          tallyVal (Dom.tally N K c) 1 (List.replicate c 0) (List.replicate c 0) else 0)).sum := by
    intro as has
    obtain ⟨hl, hlt⟩ := (mem_allAssign _ _).mp has
    have h1 := s'E as (by rw [sU, awU, List.length_eraseIdx, if_pos (by rw [hlen]; exact hidx), hlen, hl]) hlt
    rw [sE as hlt, awE as (by rw [hl, hlen]; omega) hlt, awoE as (by rw [hl, hlen]; omega) hlt] at h1
    rw [insertIdx_one_eq_set as _ (by rw [hl]; omega)] at h1
    have hperm := (List.perm_insertIdx (0 : ℕ) as (i := base.add.units.idxOf target) (by rw [hl]; omega)).map
      (fun a => if a = 1 then tallyVal (Dom.tally N K c) 1 (List.replicate c 0) (List.replicate c 0) else 0)
    rw [hperm.sum_eq, List.map_cons, List.sum_cons, if_neg (by omega), zero_add]
    exact h1
  obtain ⟨G, hG⟩ : ∃ G : List ℕ → Bool, G = fun args => decide (W.eval (args.set (base.add.units.idxOf target) 1) +
      WO.eval args + (args.map (fun a => if a = 1 then
          tallyVal (Dom.tally N K c) 1 (List.replicate c 0) (List.replicate c 0) else 0)).sum = e) := ⟨_, rfl⟩
  rw [List.countP_congr (q := fun as => G (as.insertIdx (base.add.units.idxOf target) 0))
    (fun as has => by rw [step2 as has, hG])]
  rw [countP_insertIdx (base.add.units.idxOf target) (p.nUnits - 1) (by omega) G, Nat.sub_add_cancel (by omega),
    countP_reorder _ _ H.perm, hG]
  apply List.countP_congr
  intro a ha
  obtain ⟨hl, hlt⟩ := (mem_allAssign _ _).mp ha
  have hra := (mem_allAssign _ _).mp (reorder_mem _ _ hlen a ha)
  have h1 : (reorder base.add.units a).getD (base.add.units.idxOf target) 1 = a.getD target 0 := by
    rw [← reorder_getD _ a target hmem, List.getD_eq_getElem _ _ (by rw [hra.1]; exact hidx),
      List.getD_eq_getElem _ _ (by rw [hra.1]; exact hidx)]
  have ha1 : a.set target 1 ∈ allAssign p.nUnits := by
    rw [mem_allAssign]
    refine ⟨by simp [hl], fun x hx => ?_⟩
    rcases List.mem_or_eq_of_mem_set hx with h | h
    · exact hlt x h
    · omega
  beta_reduce
  rw [h1, reorder_set _ _ H.perm a hl target ht, hW _ ha1, hWO a ha, ones_sum N K c _ hra.2,
    (reorder_perm _ _ H.perm a hl).sum_eq]
  rfl

theorem query_spec {b : Built (Dom.tally N K c)} (H : BaseOK p b.base) (hc : Conjunctive p) (hn : 2 ≤ p.nUnits)
    (labels : List ℕ) (dist : List Rat)
    (hmk : ∀ t : Option ℕ, (∀ x, t = some x → x < p.data.length) →
      mkPair (Dom.tally N K c) c p labels dist b.base t =
        .ok (b.withs.getD (bIdx p.data.length t) default, b.withouts.getD (bIdx p.data.length t) default))
    (target : ℕ) (ht : target < p.nUnits) (bw bwo : Option ℕ)
    (hbw : ∀ x, bw = some x → x < p.data.length) (hbwo : ∀ x, bwo = some x → x < p.data.length) :
    query c b p.data.length target bw bwo =
      .ok ((Dom.tally N K c).domain.map (fun e =>
        (((allAssign p.nUnits).countP (fun a => a.getD target 0 == 0 &&
          decide (qVal N K c p labels dist target bw bwo a = e)) : ℕ) : Int))) := by
  obtain ⟨sW, _, hW⟩ := mkPair_spec H hc labels dist bw hbw _ _ (hmk bw hbw)
  obtain ⟨_, sWO, hWO⟩ := mkPair_spec H hc labels dist bwo hbwo _ _ (hmk bwo hbwo)
  unfold query
  exact query_core H hn labels dist target ht bw bwo _ _ sW sWO (fun a ha => (hW a ha).1) (fun a ha => (hWO a ha).2)

end Query

/-! ## 9. the by-definition count -/
section CountSpec

/-- the (uncapped) label tally used by `countSpec` -/
def specTally (p : Prov.P) (labels : List ℕ) (dist : List Rat) (c : ℕ) (asg : List ℕ) (b : Option ℕ) : List ℕ :=
  (List.range c).map (fun k =>
    (((presentRows p asg).filter (fun r => match b with | none => true | some b => dist.getD b 0 ≥ dist.getD r 0)).filter
      (fun r => labels.getD r 0 == k)).length)

def capK (K : ℕ) (l : List ℕ) : Option (List ℕ) := if l.sum ≤ K then some l else none

theorem countSpec_eq (p : Prov.P) (labels : List ℕ) (dist : List Rat) (c K target : ℕ) (bw bwo : Option ℕ)
    (t : ℕ) (w wo : List ℕ) :
    countSpec p labels dist c K target bw bwo t w wo =
      (allAssign p.nUnits).countP (fun a =>
        (okB p (a.set target 1) bw && okB p a bwo && a.sum == t &&
          capK K (specTally p labels dist c (a.set target 1) bw) == some w &&
          capK K (specTally p labels dist c a bwo) == some wo) && a.getD target 0 == 0) := by
  unfold countSpec
  simp only
  rw [List.countP_filter]
  congr 1
  funext a
  cases bw <;> cases bwo <;> rfl

theorem specTally_eq (p : Prov.P) (labels : List ℕ) (dist : List Rat) (c : ℕ) (a : List ℕ) (b : Option ℕ) :
    specTally p labels dist c a b = (List.range c).map (wTally p labels dist a b) := by
  unfold specTally
  apply List.map_congr_left
  intro k _
  unfold wTally incRows
  rw [presentRows_eq]
  congr 2
  rw [List.filter_filter, List.filter_filter]
  apply List.filter_congr
  intro r _
  cases b <;> simp [Bool.and_comm]

theorem capK_eq_some (K : ℕ) (l w : List ℕ) (hw : w.sum ≤ K) : (capK K l == some w) = decide (l = w) := by
  unfold capK
  by_cases h : l = w
  · subst h; simp [hw]
  · by_cases h2 : l.sum ≤ K
    · simp [h2, h]
    · simp [h2, h]

variable {N K c : ℕ}

theorem qVal_eq_iff (p : Prov.P) (labels : List ℕ) (dist : List Rat) (target : ℕ) (bw bwo : Option ℕ) (a : List ℕ)
    (v : List ℕ) (hv : (Dom.tally N K c).ok v = true) :
    qVal N K c p labels dist target bw bwo a = AVal.clip (Dom.tally N K c) v ↔
      okB p (a.set target 1) bw = true ∧ okB p a bwo = true ∧ a.sum = v.headD 0 ∧
      (List.range c).map (wTally p labels dist (a.set target 1) bw) = (v.drop 1).take c ∧
      (List.range c).map (wTally p labels dist a bwo) = (v.drop (1 + c)).take c := by
  have hvl : v.length = 1 + 2 * c := Dom.ok_length hv
  unfold qVal wVal woVal
  by_cases h1 : okB p (a.set target 1) bw = true
  · by_cases h2 : okB p a bwo = true
    · rw [if_pos h1, if_pos h2, clip_add_clip _ _ (tvf_length ..) (tvf_length ..), tvf_add,
        clip_add_clip _ _ (tvf_length ..) (tvf_length ..), tvf_add, clip_eq_clip_iff _ _ hv]
      simp only [Nat.zero_add, Nat.add_zero]
      rw [tvf_eq_iff _ _ _ _ _ hvl]
      simp [h1, h2]
    · rw [if_neg h2, aval_add_none, aval_none_add, AVal.clip_ok hv]
      simp [h2]
  · rw [if_neg h1, aval_none_add, aval_none_add, AVal.clip_ok hv]
    simp [h1]

/-- the predicate counted by `query` is the predicate of `countSpec` -/
theorem qVal_spec (p : Prov.P) (labels : List ℕ) (dist : List Rat) (target : ℕ) (bw bwo : Option ℕ) (a : List ℕ)
    (v : List ℕ) (hv : (Dom.tally N K c).ok v = true) :
    decide (qVal N K c p labels dist target bw bwo a = AVal.clip (Dom.tally N K c) v) =
      (okB p (a.set target 1) bw && okB p a bwo && a.sum == v.headD 0 &&
          capK K (specTally p labels dist c (a.set target 1) bw) == some ((v.drop 1).take c) &&
          capK K (specTally p labels dist c a bwo) == some ((v.drop (1 + c)).take c)) := by
  obtain ⟨_, _, h3, h4⟩ := (Dom.ok_tally_iff N K c v).mp hv
  rw [capK_eq_some _ _ _ h3, capK_eq_some _ _ _ h4, specTally_eq, specTally_eq, Bool.eq_iff_iff]
  simp only [decide_eq_true_eq, Bool.and_eq_true, beq_iff_eq]
  rw [qVal_eq_iff p labels dist target bw bwo a v hv]
  tauto

end CountSpec

section Final
variable {p : Prov.P} {N K c : ℕ}

theorem length_allAssign (n : ℕ) : (allAssign n).length = 2 ^ n := by
  rw [← allArgs_two, length_allArgs]

theorem count_target_zero (n target : ℕ) (ht : target < n) :
    (allAssign n).countP (fun a => a.getD target 0 == 0) = 2 ^ (n - 1) := by
  have h := countP_insertIdx target (n - 1) (by omega) (fun _ => true)
  rw [Nat.sub_add_cancel (by omega)] at h
  simp only [List.countP_true, Bool.and_true] at h
  rw [length_allAssign] at h
  rw [h]
  apply List.countP_congr
  intro a ha
  have hl := ((mem_allAssign _ _).mp ha).1
  rw [List.getD_eq_getElem _ _ (by omega), List.getD_eq_getElem _ _ (by omega)]

theorem sum_map_natCast {α : Type} (l : List α) (f : α → ℕ) :
    (l.map (fun x : α => (Nat.cast (f x) : Int))).sum = (Nat.cast (l.map f).sum : Int) := by
  induction l with
  | nil => simp
  | cons a t ih => simp [ih]

/-- what `query` returns, in terms of the by-definition count -/
theorem query_counts {b : Built (Dom.tally N K c)} (H : BaseOK p b.base) (hc : Conjunctive p) (hn : 2 ≤ p.nUnits)
    (labels : List ℕ) (dist : List Rat)
    (hmk : ∀ t : Option ℕ, (∀ x, t = some x → x < p.data.length) →
      mkPair (Dom.tally N K c) c p labels dist b.base t =
        .ok (b.withs.getD (bIdx p.data.length t) default, b.withouts.getD (bIdx p.data.length t) default))
    (target : ℕ) (ht : target < p.nUnits) (bw bwo : Option ℕ)
    (hbw : ∀ x, bw = some x → x < p.data.length) (hbwo : ∀ x, bwo = some x → x < p.data.length) :
    ∃ counts : List Int, query c b p.data.length target bw bwo = .ok counts ∧
      counts.length = (Dom.tally N K c).vecs.length + 1 ∧
      (∀ k (hk : k < (Dom.tally N K c).vecs.length), counts.getD k 0 =
        ((countSpec p labels dist c K target bw bwo ((Dom.tally N K c).vecs[k].headD 0)
          (((Dom.tally N K c).vecs[k].drop 1).take c) (((Dom.tally N K c).vecs[k].drop (1 + c)).take c) : ℕ) : Int)) ∧
      counts.sum = 2 ^ (p.nUnits - 1) := by
  refine ⟨_, query_spec H hc hn labels dist hmk target ht bw bwo hbw hbwo, ?_, ?_, ?_⟩
  · simp [Dom.domain]
  · intro k hk
    have hk' : k < (Dom.tally N K c).domain.length := by simp [Dom.domain]; omega
    rw [List.getD_eq_getElem _ _ (by simpa using hk'), List.getElem_map]
    have hdom : (Dom.tally N K c).domain[k] = AVal.clip (Dom.tally N K c) (Dom.tally N K c).vecs[k] := by
      simp only [Dom.domain]
      rw [List.getElem_append_left (by simpa using hk), List.getElem_map]
    rw [hdom, countSpec_eq]
    congr 1
    apply List.countP_congr
    intro a _
    have hv : (Dom.tally N K c).ok (Dom.tally N K c).vecs[k] = true :=
      (Dom.mem_vecs _ _).mp (List.getElem_mem hk)
    rw [qVal_spec p labels dist target bw bwo a _ hv, Bool.and_comm]
  · rw [sum_map_natCast]
    have h := sum_countP_fibres (Dom.tally N K c).domain (Dom.nodup_domain _) Dom.mem_domain
      (qVal N K c p labels dist target bw bwo) ((allAssign p.nUnits).filter (fun a => a.getD target 0 == 0))
    rw [← List.countP_eq_length_filter, count_target_zero _ _ ht] at h
    rw [show ((2 : Int) ^ (p.nUnits - 1)) = ((2 ^ (p.nUnits - 1) : ℕ) : Int) by push_cast; rfl, ← h]
    congr 2
    apply List.map_congr_left
    intro e _
    rw [List.countP_filter]
    congr 1
    funext a
    rw [Bool.and_comm]

end Final

/-! ## 10. the executable check `locSpecOk` is sound -/
section LocSpecOk

theorem eraseDups_length_le {α : Type} [BEq α] [LawfulBEq α] (l : List α) : l.eraseDups.length ≤ l.length := by
  induction hn : l.length using Nat.strong_induction_on generalizing l with
  | _ n ih =>
    cases l with
    | nil => simp
    | cons a as =>
      rw [List.eraseDups_cons]
      have h1 : (as.filter (fun b => !b == a)).length ≤ as.length := List.length_filter_le _ _
      have := ih (as.filter (fun b => !b == a)).length (by rw [← hn, List.length_cons]; omega) (as.filter (fun b => !b == a)) rfl
      simp only [List.length_cons] at hn ⊢; omega

theorem nodup_of_eraseDups_length {α : Type} [BEq α] [LawfulBEq α] (l : List α)
    (h : l.eraseDups.length = l.length) : l.Nodup := by
  induction hn : l.length using Nat.strong_induction_on generalizing l with
  | _ n ih =>
    cases l with
    | nil => exact List.nodup_nil
    | cons a as =>
      rw [List.eraseDups_cons] at h
      have h1 : (as.filter (fun b => !b == a)).length ≤ as.length := List.length_filter_le _ _
      have h2 := eraseDups_length_le (as.filter (fun b => !b == a))
      simp only [List.length_cons] at h
      have h3 : (as.filter (fun b => !b == a)).length = as.length := by omega
      have h4 := List.length_filter_eq_length_iff.mp h3
      have h5 : as.filter (fun b => !b == a) = as := List.filter_eq_self.mpr h4
      rw [h5] at h
      rw [List.nodup_cons]
      refine ⟨fun hmem => ?_, ih as.length (by rw [← hn]; simp) as (by omega) rfl⟩
      have := h4 a hmem
      simp at this

/-- the executable check discharges `LocSpec` -/
theorem locSpecOk_sound {V : Type} (p : Prov.P) (cmp : Compiled V) (h : locSpecOk p cmp = true) : LocSpec p cmp := by
  unfold locSpecOk at h
  simp only [Bool.and_eq_true] at h
  obtain ⟨h1, h2⟩ := h
  simp only [List.all_eq_true, Bool.and_eq_true, beq_iff_eq, decide_eq_true_eq] at h1
  refine ⟨fun loc hloc => nodup_of_eraseDups_length _ (h1 loc hloc).1, fun loc hloc e he => ?_, fun args hargs r hr => ?_⟩
  · have := (h1 loc hloc).2 e he
    exact ⟨this.1.1, this.1.2, this.2⟩
  · have := List.all_eq_true.mp (List.all_eq_true.mp h2 args hargs) r (List.mem_range.mpr hr)
    exact beq_iff_eq.mp this

end LocSpecOk

/-! ## 11. `compile`, one unit per row (chain diagram) -/
section Chain

/-- every row names exactly one unit (`nConj = 1`, no padding) -/
def OneUnit (p : Prov.P) : Prop :=
  p.nConj = 1 ∧ ∀ r ∈ p.data, (r.getD 0 []).length = 1 ∧ ((r.getD 0 []).getD 0 Prov.padLit).1 ≠ -1

instance (p : Prov.P) : Decidable (OneUnit p) := by unfold OneUnit; infer_instance

/-- the locations `compile` assigns in the chain case -/
def chainLocs (p : Prov.P) : List (List (ℕ × ℕ × ℕ)) :=
  p.data.map (fun r => [(((r.getD 0 []).getD 0 Prov.padLit).1.toNat, 0, ((r.getD 0 []).getD 0 Prov.padLit).2.toNat)])

theorem compile_chain {V : Type} [Add V] [Zero V] (p : Prov.P) (h1 : p.nDisj ≤ 1) (h2 : p.nConj = 1) :
    (compile p : Except Err (Compiled V)) = .ok { add := chain (List.range p.nUnits) p.nCands, locs := chainLocs p } := by
  unfold compile
  simp only [show ¬ (p.nDisj > 1) by omega, h2, if_false, beq_self_eq_true, if_true]
  rfl

theorem le_of_mem_pathEdges {V : Type} {L : List (Level V)} {j : ℕ} {as : List ℕ} {i : ℕ} {e : ℕ × ℕ × ℕ}
    (he : e ∈ pathEdges L j as i) : i ≤ e.1 := by
  induction L generalizing i j as with
  | nil => cases as <;> simp [pathEdges] at he
  | cons lv rest ih =>
    cases as with
    | nil => simp [pathEdges] at he
    | cons a as =>
      simp only [pathEdges, List.mem_cons] at he
      rcases he with rfl | he
      · exact Nat.le_refl _
      · have := ih he; omega

/-- in a chain the path of `as` crosses the edge `(u, 0, v)` iff `as[u] = v` -/
theorem chain_cross {V : Type} [AddCommMonoid V] (C m : ℕ) (as : List ℕ) (i u v : ℕ) (hl : as.length = m) :
    ((pathEdges (List.replicate m [(liveZero C : Node V)]) 0 as i).filter
        (fun e => [(i + u, 0, v)].contains e)).length =
      if u < m ∧ as.getD u 0 = v then 1 else 0 := by
  induction m generalizing as i u with
  | zero =>
    have : as = [] := List.length_eq_zero_iff.mp hl
    subst this; simp [pathEdges]
  | succ m ih =>
    cases as with
    | nil => simp at hl
    | cons a as =>
      simp only [List.replicate_succ, pathEdges]
      have hch : (nodeAt [(liveZero C : Node V)] 0).ch a = 0 := liveZero_ch C a
      rw [hch]
      cases u with
      | zero =>
        have htail : (pathEdges (List.replicate m [(liveZero C : Node V)]) 0 as (i + 1)).filter
            (fun e => [(i + 0, 0, v)].contains e) = [] := by
          rw [List.filter_eq_nil_iff]
          intro e he
          have := le_of_mem_pathEdges he
          simp only [List.contains_iff_mem, List.mem_singleton]
          intro h; rw [h] at this; simp at this
        rw [List.filter_cons, htail]
        by_cases hav : a = v
        · subst hav; simp
        · have : ¬ (v = a) := fun h => hav h.symm
          simp [hav, this]
      | succ u =>
        have hne : ¬ ([(i + (u + 1), 0, v)].contains (i, 0, a) = true) := by
          simp only [List.contains_iff_mem, List.mem_singleton, Prod.mk.injEq]
          omega
        rw [List.filter_cons, if_neg hne, show i + (u + 1) = i + 1 + u by omega,
          ih as (i + 1) u (by simpa using hl)]
        simp

theorem idxOf_range (n u : ℕ) (h : u < n) : (List.range n).idxOf u = u := by
  have h1 : (List.range n).idxOf u < (List.range n).length :=
    List.idxOf_lt_length_iff.mpr (List.mem_range.mpr h)
  have := List.getElem_idxOf h1
  rwa [List.getElem_range] at this

variable {D : Dom}

/-- `compile` of a one-unit-per-row provenance: the chain over `range nUnits`, which satisfies everything
the main theorem needs -/
theorem chain_baseOK (p : Prov.P) (hc : Conjunctive p) (h1 : OneUnit p) (hC : p.nCands = 2) :
    BaseOK (D := D) p { add := chain (List.range p.nUnits) p.nCands, locs := chainLocs p } := by
  have hrow : ∀ r ∈ p.data, ∃ u : ℕ, u < p.nUnits ∧ r.getD 0 [] = [((u : Int), 1)] := by
    intro r hr
    obtain ⟨hl, hne⟩ := h1.2 r hr
    obtain ⟨l, hl'⟩ := List.length_eq_one_iff.mp hl
    rw [hl'] at hne
    simp only [List.getD_cons_zero] at hne
    obtain ⟨h2, h3, h4⟩ := (hc.2 r hr).1 l (by rw [hl']; simp) hne
    refine ⟨l.1.toNat, by omega, ?_⟩
    rw [hl']
    congr 1
    apply Prod.ext
    · simp [Int.toNat_of_nonneg h3]
    · exact h2
  refine ⟨chain_wf _ _, ?_, hC, List.Perm.refl _, fun args => eval_chain _ _ args, ⟨?_, ?_, ?_⟩⟩
  · intro lv hlv nd hnd
    simp only [chain, List.mem_map] at hlv
    obtain ⟨_, _, rfl⟩ := hlv
    simp only [List.mem_singleton] at hnd
    subst hnd
    simp [liveZero, hC]
  · intro loc hloc
    simp only [chainLocs, List.mem_map] at hloc
    obtain ⟨r, _, rfl⟩ := hloc
    exact List.nodup_singleton _
  · intro loc hloc e he
    simp only [chainLocs, List.mem_map] at hloc
    obtain ⟨r, hr, rfl⟩ := hloc
    obtain ⟨u, hu, hrow'⟩ := hrow r hr
    simp only [hrow', List.getD_cons_zero, List.mem_singleton] at he
    subst he
    simp only [chain, List.length_map, List.length_range, Int.toNat_natCast]
    refine ⟨hu, ?_, by rw [hC]; decide⟩
    rw [List.getD_eq_getElem _ _ (by simpa using hu)]
    simp
  · intro args hargs r hr
    have hmem := getD_mem_data p r hr
    obtain ⟨u, hu, hrow'⟩ := hrow _ hmem
    have hlits : rowLits (p.data.getD r []) = [(u, 1)] := by
      have hne : (((u : Int), (1 : Int)).1 != -1 && ((u : Int), (1 : Int)).2 != -1) = true := by
        simp
      unfold rowLits
      rw [hrow', List.filter_cons, if_pos hne]
      simp
    have hloc : (chainLocs p).getD r [] = [(u, 0, 1)] := by
      unfold chainLocs
      rw [List.getD_eq_getElem _ _ (by simpa using hr), List.getElem_map, ← List.getD_eq_getElem _ [] hr, hrow']
      simp
    have hl : args.length = p.nUnits := by
      have := ((mem_allAssign _ _).mp hargs).1
      simpa [chain] using this
    have hlv : (chain (List.range p.nUnits) p.nCands : Diagram (AVal D)).levels =
        List.replicate p.nUnits [(liveZero p.nCands : Node (AVal D))] := by
      simp [chain, List.map_const']
    have := chain_cross (V := AVal D) p.nCands p.nUnits args 0 u 1 hl
    rw [Nat.zero_add] at this
    show ((pathEdges (chain (List.range p.nUnits) p.nCands : Diagram (AVal D)).levels 0 args 0).filter
        (fun e => ((chainLocs p).getD r []).contains e)).length =
      if (rowLits (p.data.getD r [])).all (fun uv => args.getD ((List.range p.nUnits).idxOf uv.1) 0 == uv.2) then 1 else 0
    rw [hlv, hloc, hlits, this]
    simp [idxOf_range _ _ hu, hu]

end Chain

/-! ## 12. `compile`, general case: the diagram is built by `stack` / `concatenate` from chains -/
section General
variable {V : Type} [AddCommMonoid V]

/-- a property of the edge-value arrays of all nodes -/
def AdAll (P : List V → Prop) (L : List (Level V)) : Prop := ∀ lv ∈ L, ∀ nd ∈ lv, P nd.adder

theorem chain_adAll (P : List V → Prop) (units : List ℕ) (C : ℕ) (hP : P (List.replicate C 0)) :
    AdAll P (chain units C : Diagram V).levels := by
  intro lv hlv nd hnd
  simp only [chain, List.mem_map] at hlv
  obtain ⟨_, _, rfl⟩ := hlv
  simp only [List.mem_singleton] at hnd
  subst hnd
  exact hP

theorem stack_adAll (P : List V → Prop) (hP : P (List.replicate 2 0)) (factors : List ℕ) (els : List (Diagram V))
    (d : Diagram V) (h : stack factors els = .ok d) (hels : ∀ e ∈ els, AdAll P e.levels) : AdAll P d.levels := by
  cases els with
  | nil => cases h
  | cons e0 rest =>
    rw [stack_eq] at h
    split at h
    · cases h
    split at h
    · cases h
    split at h
    · cases h
    simp only [Except.ok.injEq] at h
    subst h
    intro lv hlv nd hnd
    simp only [List.mem_append, List.mem_map, List.mem_range] at hlv
    rcases hlv with ⟨i, _, rfl⟩ | ⟨i, _, rfl⟩
    · simp only [hdrLevel, List.mem_map, List.mem_range] at hnd
      obtain ⟨j, _, rfl⟩ := hnd
      split
      · exact hP
      · exact hP
    · simp only [bodyLevel, List.mem_flatMap, List.mem_map] at hnd
      obtain ⟨eo, heo, nd', hnd', rfl⟩ := hnd
      have he : eo.1 ∈ e0 :: rest := (List.of_mem_zip heo).1
      by_cases hi : i < eo.1.levels.length
      · rw [List.getD_eq_getElem _ _ hi] at hnd'
        exact hels _ he _ (List.getElem_mem hi) nd' hnd'
      · rw [List.getD_eq_default _ _ (Nat.le_of_not_lt hi)] at hnd'
        simp at hnd'

theorem go_adAll (P : List V → Prop) (hP : P (List.replicate 2 0)) (diam : ℕ) (els : List (Diagram V))
    (hels : ∀ e ∈ els, AdAll P e.levels) : AdAll P (concatenate.go diam els) := by
  have hpad : ∀ e ∈ els, AdAll P (e.levels.map (padLevel 2 · diam)) := by
    intro e he lv hlv nd hnd
    simp only [List.mem_map] at hlv
    obtain ⟨lv', hlv', rfl⟩ := hlv
    simp only [padLevel, List.mem_append, List.mem_replicate] at hnd
    rcases hnd with hnd | ⟨_, rfl⟩
    · exact hels e he lv' hlv' nd hnd
    · exact hP
  match els with
  | [] => intro lv hlv; simp [concatenate.go] at hlv
  | [e] => rw [concatenate.go.eq_2]; exact hpad e (by simp)
  | e :: e' :: rest =>
    rw [go_cons_cons]
    intro lv hlv
    rw [List.mem_append] at hlv
    rcases hlv with hlv | hlv
    · refine forall_mem_modify (P := fun lv => ∀ nd ∈ lv, P nd.adder) _ _ (fun x hx => hpad e (by simp) x hx) (fun x hx => ?_) lv hlv
      intro nd hnd
      simp only [redirect, List.mem_map] at hnd
      obtain ⟨nd', hnd', rfl⟩ := hnd
      split
      · exact hx nd' hnd'
      · exact hx nd' hnd'
    · exact go_adAll P hP diam (e' :: rest) (fun x hx => hels x (by simp [hx])) lv hlv

theorem concat_adAll (P : List V → Prop) (hP : P (List.replicate 2 0)) (els : List (Diagram V)) (d : Diagram V)
    (h : concatenate els = .ok d) (hels : ∀ e ∈ els, AdAll P e.levels) : AdAll P d.levels := by
  cases els with
  | nil => cases h
  | cons e0 rest =>
    rw [concatenate_eq] at h
    split at h
    · cases h
    split at h
    · cases h
    split at h
    · cases h
    simp only [Except.ok.injEq] at h
    subst h
    exact go_adAll P hP _ _ hels

theorem adAll_zero {L : List (Level V)} (h : AdAll (fun ad => ad = List.replicate 2 0) L) :
    AdRect 2 L ∧ ∀ j as, evalFrom L j as = 0 := by
  refine ⟨fun lv hlv nd hnd => by rw [h lv hlv nd hnd]; simp, fun j as => ?_⟩
  apply eval_zeroAd
  intro lv hlv j c
  apply zeroAd_of_forall
  intro nd hnd c
  unfold Node.ad
  rw [h lv hlv nd hnd]
  by_cases hc : c < 2
  · have : c = 0 ∨ c = 1 := by omega
    rcases this with rfl | rfl <;> rfl
  · rw [List.getD_eq_default _ _ (by simpa using hc)]

end General

section General2
variable {V : Type} [AddCommMonoid V]

theorem compile_general (p : Prov.P) (cmp : Compiled V) (h : compile p = .ok cmp) (h2 : p.nConj ≠ 1) :
    ∃ vertical : List (Diagram V), concatenate vertical = .ok cmp.add ∧
      ∀ e ∈ vertical, ∃ lvs factors, e = chain lvs p.nCands ∨
        stack factors (List.replicate (p.nCands ^ factors.length) (chain lvs p.nCands)) = .ok e := by
  unfold compile at h
  simp only [beq_iff_eq, h2, if_false] at h
  generalize (List.flatMap (fun r => pairsOf (dedupSorted (rowUnits r))) p.data).eraseDups = pairs at h
  generalize leafUnits p.nUnits pairs = leaves at h
  generalize components p.nUnits pairs = comps at h
  split at h
  · cases h
  split at h
  · cases h
  cases hv : comps.mapM (fun comp =>
      if (comp.filter (fun u => !leaves.contains u)).isEmpty = true then
        (pure (chain (comp.filter (fun u => leaves.contains u)) p.nCands) : Except Err (Diagram V))
      else stack (comp.filter (fun u => !leaves.contains u))
        (List.replicate (p.nCands ^ (comp.filter (fun u => !leaves.contains u)).length)
          (chain (comp.filter (fun u => leaves.contains u)) p.nCands))) with
  | error e => rw [hv] at h; cases h
  | ok vertical =>
    rw [hv] at h
    simp only [bind, Except.bind] at h
    cases ha : concatenate vertical with
    | error e => rw [ha] at h; cases h
    | ok add =>
      rw [ha] at h
      simp only at h
      cases hl : p.data.mapM (fun r => add.getUpdateLocation (rowLits r)) with
      | error e => rw [hl] at h; cases h
      | ok locs =>
        rw [hl] at h
        simp only [pure, Except.pure, Except.ok.injEq] at h
        subst h
        refine ⟨vertical, ha, fun e he => ?_⟩
        obtain ⟨h1, h2⟩ := mapM_ok _ _ _ hv
        obtain ⟨i, hi, rfl⟩ := List.mem_iff_getElem.mp he
        have := h2 i (by omega) hi
        split at this
        · simp only [pure, Except.pure, Except.ok.injEq] at this
          exact ⟨_, [], Or.inl this.symm⟩
        · exact ⟨_, _, Or.inr this⟩

theorem compile_nDisj (p : Prov.P) (cmp : Compiled V) (h : compile p = .ok cmp) : p.nDisj ≤ 1 := by
  by_contra hh
  unfold compile at h
  rw [if_pos (by omega)] at h
  cases h

/-- `C09_compile_partial`: whatever `compile` returns is a `Reach`able binary diagram whose nodes store two
values each, all of them zero -/
theorem compile_reach (p : Prov.P) (cmp : Compiled V) (h : compile p = .ok cmp) (hC : p.nCands = 2) :
    Reach cmp.add ∧ cmp.add.C = 2 ∧ AdRect 2 cmp.add.levels ∧ ∀ args, cmp.add.eval args = 0 := by
  by_cases h2 : p.nConj = 1
  · rw [compile_chain p (compile_nDisj p cmp h) h2] at h
    simp only [Except.ok.injEq] at h
    subst h
    have hA := adAll_zero (chain_adAll (V := V) (fun ad => ad = List.replicate 2 0) (List.range p.nUnits) p.nCands
      (by rw [hC]))
    exact ⟨Reach.chain _ _, hC, hA.1, fun args => hA.2 _ args⟩
  · obtain ⟨vertical, hcat, hel⟩ := compile_general p cmp h h2
    have hR : ∀ e ∈ vertical, Reach e ∧ AdAll (fun ad => ad = List.replicate 2 0) e.levels := by
      intro e he
      obtain ⟨lvs, factors, rfl | hst⟩ := hel e he
      · exact ⟨Reach.chain _ _, chain_adAll _ _ _ (by rw [hC])⟩
      · refine ⟨Reach.stack factors _ e lvs.length (fun e' he' => ?_) (fun e' he' => ?_) hst,
          stack_adAll (fun ad => ad = List.replicate 2 0) rfl factors _ e hst (fun e' he' => ?_)⟩
        · rw [(List.mem_replicate.mp he').2]; exact Reach.chain _ _
        · rw [(List.mem_replicate.mp he').2]; exact ⟨hC, rfl⟩
        · rw [(List.mem_replicate.mp he').2]; exact chain_adAll _ _ _ (by rw [hC])
    have hA := adAll_zero (concat_adAll (fun ad => ad = List.replicate 2 0) rfl vertical cmp.add hcat (fun e he => (hR e he).2))
    exact ⟨Reach.concat vertical cmp.add (fun e he => (hR e he).1) hcat,
      (concat_spec vertical cmp.add hcat (fun e he => (hR e he).1.inv.1)).2.2.1, hA.1, fun args => hA.2 _ args⟩

end General2

/-! ## 13. assembling the hypotheses; success of `build`; the one-unit defect -/
section Assemble
variable {p : Prov.P} {N K c : ℕ}

theorem baseOK_of_compile {D : Dom} (p : Prov.P) (cmp : Compiled (AVal D)) (h : compile p = .ok cmp) (hC : p.nCands = 2)
    (hperm : cmp.add.units.Perm (List.range p.nUnits)) (hloc : LocSpec p cmp) : BaseOK p cmp := by
  obtain ⟨h1, h2, h3, h4⟩ := compile_reach p cmp h hC
  exact ⟨h1.inv.1, h3, h2, hperm, h4, hloc⟩

theorem last_of_sum (counts : List Int) (m : ℕ) (T : Int) (hl : counts.length = m + 1) (hs : counts.sum = T) :
    counts.getD m 0 = T - (counts.take m).sum := by
  have h1 : counts = counts.take m ++ [counts.getD m 0] := by
    rw [List.getD_eq_getElem _ _ (by omega)]
    apply List.ext_getElem
    · simp; omega
    · intro i hi1 hi2
      by_cases hi : i < m
      · rw [List.getElem_append_left (by simp; omega)]; simp
      · have : i = m := by omega
        subst this
        rw [List.getElem_append_right (by simp)]
        simp
  rw [h1, List.sum_append] at hs
  simp only [List.sum_cons, List.sum_nil, add_zero] at hs
  omega

theorem mapM_ok_of_forall {α β : Type} (f : α → Except Err β) (l : List α) (h : ∀ x ∈ l, ∃ y, f x = .ok y) :
    ∃ ys, l.mapM f = .ok ys := by
  induction l with
  | nil => exact ⟨[], rfl⟩
  | cons a l ih =>
    obtain ⟨y, hy⟩ := h a (by simp)
    obtain ⟨ys, hys⟩ := ih (fun x hx => h x (by simp [hx]))
    refine ⟨y :: ys, ?_⟩
    rw [List.mapM_cons, hy, hys]; rfl

theorem mkPair_ok {D : Dom} (c : ℕ) (p : Prov.P) (labels : List ℕ) (dist : List Rat) (base : Compiled (AVal D))
    (hc : Conjunctive p) (hperm : base.add.units.Perm (List.range p.nUnits)) (t : Option ℕ)
    (ht : ∀ x, t = some x → x < p.data.length) : ∃ pr, mkPair D c p labels dist base t = .ok pr := by
  cases t with
  | none => exact ⟨_, rfl⟩
  | some b =>
    have hb := ht b rfl
    have hrow := (hc.rowLits _ (getD_mem_data p b hb)).2
    have hmem : ∀ u ∈ rowUnits (p.data.getD b []), u ∈ base.add.units := fun u hu => by
      rw [hperm.mem_iff]; simpa using hrow u hu
    unfold mkPair
    simp only
    rw [foldlM_ok (fun u => base.add.getUpdateLocation [(u, 0)]) (fun u => unitLoc base.add u 0)
      (fun (ds : Diagram (AVal D) × Diagram (AVal D)) loc =>
        (ds.1.update loc none false, ds.2.update loc none false)) _
      (fun u hu => getUpdateLocation_single base.add u 0 (hmem u hu))]
    exact ⟨_, rfl⟩

/-- `ShapleyOracle.__init__` succeeds whenever `compile` does (conjunctive provenance over the diagram's units) -/
theorem build_ok {D : Dom} (c : ℕ) (p : Prov.P) (labels : List ℕ) (dist : List Rat) (base : Compiled (AVal D))
    (hcomp : compile p = .ok base) (hc : Conjunctive p) (hperm : base.add.units.Perm (List.range p.nUnits)) :
    ∃ b, build D c p labels dist = .ok b ∧ b.base = base := by
  obtain ⟨all, hall⟩ := mapM_ok_of_forall (mkPair D c p labels dist base) ((List.range p.data.length).map some ++ [none])
    (by
      intro t ht
      apply mkPair_ok c p labels dist base hc hperm t
      intro x hx
      subst hx
      simp only [List.mem_append, List.mem_map, List.mem_range, Option.some.injEq, List.mem_singleton,
        reduceCtorEq, or_false] at ht
      obtain ⟨y, hy, rfl⟩ := ht
      exact hy)
  refine ⟨{ base := base, withs := all.map (·.1), withouts := all.map (·.2) }, ?_, rfl⟩
  rw [build_eq, hcomp]
  simp only [bind, Except.bind]
  rw [hall]
  rfl

/-- finding F3b: with a single unit `query` raises `IndexError` (`restrict` on a one-variable diagram) -/
theorem query_single {b : Built (Dom.tally N K c)} (H : BaseOK p b.base) (hc : Conjunctive p) (hn : p.nUnits = 1)
    (labels : List ℕ) (dist : List Rat)
    (hmk : ∀ t : Option ℕ, (∀ x, t = some x → x < p.data.length) →
      mkPair (Dom.tally N K c) c p labels dist b.base t =
        .ok (b.withs.getD (bIdx p.data.length t) default, b.withouts.getD (bIdx p.data.length t) default))
    (bw bwo : Option ℕ) (hbw : ∀ x, bw = some x → x < p.data.length) :
    query c b p.data.length 0 bw bwo = .error Err.indexError := by
  obtain ⟨sW, _, _⟩ := mkPair_spec H hc labels dist bw hbw _ _ (hmk bw hbw)
  have hWwf := sW.wf H.wf
  have hu : (b.withs.getD (bIdx p.data.length bw) default).units = b.base.add.units := sW.2.2.1
  have hl : (b.withs.getD (bIdx p.data.length bw) default).units.length = 1 := by rw [hu, H.len, hn]
  have hr := restrict_single (b.withs.getD (bIdx p.data.length bw) default) 0 1 (by rw [hWwf.len, hl]) hl
    (by rw [hu, H.mem_units]; omega) (by rw [sW.2.2.2, H.C2]; omega)
  unfold query
  rw [hr]
  rfl

end Assemble

/-! ## 14. `compile`, general case: the components partition the units -/
section Components

theorem nodup_eraseDups {α : Type} [BEq α] [LawfulBEq α] (l : List α) : l.eraseDups.Nodup := by
  induction hn : l.length using Nat.strong_induction_on generalizing l with
  | _ n ih =>
    cases l with
    | nil => simp
    | cons a as =>
      rw [List.eraseDups_cons, List.nodup_cons]
      have h1 : (as.filter (fun b => !b == a)).length ≤ as.length := List.length_filter_le _ _
      refine ⟨?_, ih (as.filter (fun b => !b == a)).length (by rw [← hn, List.length_cons]; omega) _ rfl⟩
      rw [List.mem_eraseDups, List.mem_filter]
      simp

theorem mem_dedupSorted (l : List ℕ) (x : ℕ) : x ∈ dedupSorted l ↔ x ∈ l := by
  unfold dedupSorted; rw [List.mem_eraseDups, List.mem_mergeSort]

theorem nodup_dedupSorted (l : List ℕ) : (dedupSorted l).Nodup := nodup_eraseDups _

theorem mem_neighborsOf (pairs : List (ℕ × ℕ)) (u v : ℕ) :
    v ∈ neighborsOf pairs u ↔ ∃ q ∈ pairs, (q.1 = u ∧ q.2 = v) ∨ (q.1 ≠ u ∧ q.2 = u ∧ q.1 = v) := by
  unfold neighborsOf
  rw [mem_dedupSorted, List.mem_filterMap]
  constructor
  · rintro ⟨q, hq, h⟩
    refine ⟨q, hq, ?_⟩
    by_cases h1 : q.1 = u
    · simp [h1] at h; exact Or.inl ⟨h1, h⟩
    · by_cases h2 : q.2 = u
      · simp [h1, h2] at h; exact Or.inr ⟨h1, h2, h⟩
      · simp [h1, h2] at h
  · rintro ⟨q, hq, h⟩
    refine ⟨q, hq, ?_⟩
    rcases h with ⟨h1, h2⟩ | ⟨h1, h2, h3⟩
    · simp [h1, h2]
    · have h1' : ¬ (v = u) := h3 ▸ h1
      simp [h1', h2, h3]

theorem neighborsOf_symm (pairs : List (ℕ × ℕ)) (u v : ℕ) (h : v ∈ neighborsOf pairs u) : u ∈ neighborsOf pairs v := by
  rw [mem_neighborsOf] at h ⊢
  obtain ⟨q, hq, h⟩ := h
  refine ⟨q, hq, ?_⟩
  rcases h with ⟨h1, h2⟩ | ⟨h1, h2, h3⟩
  · by_cases huv : q.1 = v
    · exact Or.inl ⟨huv, by rw [h2, ← huv, h1]⟩
    · exact Or.inr ⟨huv, h2, h1⟩
  · exact Or.inl ⟨h3, h2⟩

/-- connected through `neighborsOf` -/
inductive Conn (pairs : List (ℕ × ℕ)) : ℕ → ℕ → Prop
  | refl (u : ℕ) : Conn pairs u u
  | step {u v w : ℕ} : Conn pairs u v → w ∈ neighborsOf pairs v → Conn pairs u w

theorem Conn.trans {pairs : List (ℕ × ℕ)} {u v w : ℕ} (h1 : Conn pairs u v) (h2 : Conn pairs v w) : Conn pairs u w := by
  induction h2 with
  | refl => exact h1
  | step _ hn ih => exact .step ih hn

theorem Conn.symm {pairs : List (ℕ × ℕ)} {u v : ℕ} (h : Conn pairs u v) : Conn pairs v u := by
  induction h with
  | refl => exact .refl _
  | step _ hn ih => exact Conn.trans (.step (.refl _) (neighborsOf_symm _ _ _ hn)) ih

/-- closed under `neighborsOf` -/
def Closed (pairs : List (ℕ × ℕ)) (C : List ℕ) : Prop := ∀ x ∈ C, ∀ y ∈ neighborsOf pairs x, y ∈ C

theorem Closed.conn {pairs : List (ℕ × ℕ)} {C : List ℕ} (hC : Closed pairs C) {u v : ℕ} (hu : u ∈ C)
    (h : Conn pairs u v) : v ∈ C := by
  induction h with
  | refl => exact hu
  | step _ hn ih => exact hC _ ih _ hn

theorem length_le_of_nodup_lt (l : List ℕ) (n : ℕ) (hnd : l.Nodup) (hlt : ∀ x ∈ l, x < n) : l.length ≤ n := by
  have := (List.subperm_of_subset hnd (fun x hx => List.mem_range.mpr (hlt x hx))).length_le
  simpa using this

/-- `componentOf` computes the connected component -/
theorem componentOf_spec (pairs : List (ℕ × ℕ)) (n u : ℕ) (hp : ∀ q ∈ pairs, q.1 < n ∧ q.2 < n) (fuel : ℕ)
    (acc : List ℕ) (hnd : acc.Nodup) (hlt : ∀ x ∈ acc, x < n) (hu : u ∈ acc) (hconn : ∀ x ∈ acc, Conn pairs u x)
    (hfuel : n + 1 ≤ acc.length + fuel) :
    (componentOf pairs u fuel acc).Nodup ∧ (∀ x ∈ componentOf pairs u fuel acc, x < n) ∧
    u ∈ componentOf pairs u fuel acc ∧ (∀ x ∈ componentOf pairs u fuel acc, Conn pairs u x) ∧
    Closed pairs (componentOf pairs u fuel acc) := by
  induction fuel generalizing acc with
  | zero =>
    have := length_le_of_nodup_lt acc n hnd hlt
    omega
  | succ fuel ih =>
    have hN : ∀ x y, y ∈ neighborsOf pairs x → y < n := by
      intro x y hy
      rw [mem_neighborsOf] at hy
      obtain ⟨q, hq, h⟩ := hy
      rcases h with ⟨_, h2⟩ | ⟨_, _, h3⟩
      · rw [← h2]; exact (hp q hq).2
      · rw [← h3]; exact (hp q hq).1
    have hmem : ∀ x, x ∈ dedupSorted (acc ++ acc.flatMap (neighborsOf pairs)) ↔
        x ∈ acc ∨ ∃ a ∈ acc, x ∈ neighborsOf pairs a := by
      intro x; rw [mem_dedupSorted, List.mem_append, List.mem_flatMap]
    have hnd' := nodup_dedupSorted (acc ++ acc.flatMap (neighborsOf pairs))
    have hsub : acc ⊆ dedupSorted (acc ++ acc.flatMap (neighborsOf pairs)) := fun x hx => (hmem x).mpr (Or.inl hx)
    unfold componentOf
    simp only
    split
    · rename_i heq
      have heq' : (dedupSorted (acc ++ acc.flatMap (neighborsOf pairs))).length = acc.length := by simpa using heq
      refine ⟨hnd, hlt, hu, hconn, ?_⟩
      have hperm := (List.subperm_of_subset hnd hsub).perm_of_length_le (by omega)
      intro x hx y hy
      exact hperm.mem_iff.mpr ((hmem y).mpr (Or.inr ⟨x, hx, hy⟩))
    · rename_i hne
      have hne' : (dedupSorted (acc ++ acc.flatMap (neighborsOf pairs))).length ≠ acc.length := by simpa using hne
      have hle := (List.subperm_of_subset hnd hsub).length_le
      apply ih _ hnd'
      · intro x hx
        rcases (hmem x).mp hx with h | ⟨a, _, h⟩
        · exact hlt x h
        · exact hN a x h
      · exact hsub hu
      · intro x hx
        rcases (hmem x).mp hx with h | ⟨a, ha, h⟩
        · exact hconn x h
        · exact .step (hconn a ha) h
      · omega

end Components

section Components2

def compStep (pairs : List (ℕ × ℕ)) (n : ℕ) (comps : List (List ℕ)) (u : ℕ) : List (List ℕ) :=
  if comps.any (·.contains u) then comps else comps ++ [componentOf pairs u n [u]]

theorem components_eq (n : ℕ) (pairs : List (ℕ × ℕ)) : components n pairs = (List.range n).foldl (compStep pairs n) [] := rfl

theorem components_inv (pairs : List (ℕ × ℕ)) (n : ℕ) (hp : ∀ q ∈ pairs, q.1 < n ∧ q.2 < n) (k : ℕ) (hk : k ≤ n) :
    ((List.range k).foldl (compStep pairs n) []).flatten.Nodup ∧
    (∀ x ∈ ((List.range k).foldl (compStep pairs n) []).flatten, x < n) ∧
    (∀ u, u < k → u ∈ ((List.range k).foldl (compStep pairs n) []).flatten) ∧
    (∀ C ∈ (List.range k).foldl (compStep pairs n) [], Closed pairs C) := by
  induction k with
  | zero => simp
  | succ k ih =>
    obtain ⟨h1, h2, h3, h4⟩ := ih (by omega)
    rw [List.range_succ, List.foldl_append, List.foldl_cons, List.foldl_nil]
    generalize (List.range k).foldl (compStep pairs n) [] = comps at h1 h2 h3 h4 ⊢
    unfold compStep
    split
    · rename_i hany
      refine ⟨h1, h2, fun u hu => ?_, h4⟩
      by_cases huk : u < k
      · exact h3 u huk
      · have : u = k := by omega
        subst this
        simp only [List.any_eq_true, List.contains_iff_mem] at hany
        obtain ⟨C, hC, hu⟩ := hany
        exact List.mem_flatten.mpr ⟨C, hC, hu⟩
    · rename_i hany
      have hnot : ∀ C ∈ comps, k ∉ C := by
        intro C hC hk'
        apply hany
        simp only [List.any_eq_true, List.contains_iff_mem]
        exact ⟨C, hC, hk'⟩
      obtain ⟨c1, c2, c3, c4, c5⟩ := componentOf_spec pairs n k hp n [k] (by simp) (by simp; omega) (by simp)
        (by intro x hx; simp at hx; subst hx; exact .refl _) (by simp; omega)
      rw [List.flatten_append, List.flatten_singleton]
      refine ⟨?_, ?_, ?_, ?_⟩
      · rw [List.nodup_append]
        refine ⟨h1, c1, ?_⟩
        intro x hx y hy hxy
        subst hxy
        obtain ⟨C, hC, hxC⟩ := List.mem_flatten.mp hx
        exact hnot C hC ((h4 C hC).conn hxC (c4 x hy).symm)
      · intro x hx
        rcases List.mem_append.mp hx with h | h
        · exact h2 x h
        · exact c2 x h
      · intro u hu
        by_cases huk : u < k
        · exact List.mem_append.mpr (Or.inl (h3 u huk))
        · have : u = k := by omega
          subst this
          exact List.mem_append.mpr (Or.inr c3)
      · intro C hC
        rcases List.mem_append.mp hC with h | h
        · exact h4 C h
        · simp only [List.mem_singleton] at h; subst h; exact c5

theorem components_perm (pairs : List (ℕ × ℕ)) (n : ℕ) (hp : ∀ q ∈ pairs, q.1 < n ∧ q.2 < n) :
    (components n pairs).flatten.Perm (List.range n) := by
  obtain ⟨h1, h2, h3, _⟩ := components_inv pairs n hp n (Nat.le_refl _)
  rw [components_eq, List.perm_ext_iff_of_nodup h1 List.nodup_range]
  intro x
  rw [List.mem_range]
  exact ⟨h2 x, h3 x⟩

theorem mem_pairsOf (us : List ℕ) (q : ℕ × ℕ) (h : q ∈ pairsOf us) : q.1 ∈ us ∧ q.2 ∈ us := by
  induction us with
  | nil => simp [pairsOf] at h
  | cons u rest ih =>
    simp only [pairsOf, List.mem_append, List.mem_map] at h
    rcases h with ⟨v, hv, rfl⟩ | h
    · exact ⟨by simp, by simp [hv]⟩
    · have := ih h
      exact ⟨by simp [this.1], by simp [this.2]⟩

theorem pairs_lt {p : Prov.P} (hc : Conjunctive p) :
    ∀ q ∈ (p.data.flatMap (fun r => pairsOf (dedupSorted (rowUnits r)))).eraseDups, q.1 < p.nUnits ∧ q.2 < p.nUnits := by
  intro q hq
  rw [List.mem_eraseDups, List.mem_flatMap] at hq
  obtain ⟨r, hr, hq⟩ := hq
  have := mem_pairsOf _ q hq
  rw [mem_dedupSorted, mem_dedupSorted] at this
  exact ⟨(hc.rowLits r hr).2 _ this.1, (hc.rowLits r hr).2 _ this.2⟩

end Components2

section Components3
variable {V : Type} [AddCommMonoid V]

/-- the co-occurrence graph of `compile` -/
def pairsOfP (p : Prov.P) : List (ℕ × ℕ) := (p.data.flatMap (fun r => pairsOf (dedupSorted (rowUnits r)))).eraseDups

/-- the diagram `compile` builds for one component -/
def vertOf (V : Type) [Add V] [Zero V] (C : ℕ) (leaves comp : List ℕ) : Except Err (Diagram V) :=
  if (comp.filter (fun u => !leaves.contains u)).isEmpty then pure (chain (comp.filter (fun u => leaves.contains u)) C)
  else stack (comp.filter (fun u => !leaves.contains u))
    (List.replicate (C ^ (comp.filter (fun u => !leaves.contains u)).length) (chain (comp.filter (fun u => leaves.contains u)) C))

theorem compile_general' (p : Prov.P) (cmp : Compiled V) (h : compile p = .ok cmp) (h2 : p.nConj ≠ 1) :
    ∃ vertical : List (Diagram V),
      (components p.nUnits (pairsOfP p)).mapM (vertOf V p.nCands (leafUnits p.nUnits (pairsOfP p))) = .ok vertical ∧
      concatenate vertical = .ok cmp.add ∧
      p.data.mapM (fun r => cmp.add.getUpdateLocation (rowLits r)) = .ok cmp.locs := by
  unfold compile at h
  simp only [beq_iff_eq, h2, if_false] at h
  split at h
  · cases h
  split at h
  · cases h
  cases hv : (components p.nUnits (pairsOfP p)).mapM (vertOf V p.nCands (leafUnits p.nUnits (pairsOfP p))) with
  | error e =>
    have hv' := hv
    unfold vertOf pairsOfP at hv'
    rw [hv'] at h; cases h
  | ok vertical =>
    have hv' := hv
    unfold vertOf pairsOfP at hv'
    rw [hv'] at h
    simp only [bind, Except.bind] at h
    cases ha : concatenate vertical with
    | error e => rw [ha] at h; cases h
    | ok add =>
      rw [ha] at h
      simp only at h
      cases hl : p.data.mapM (fun r => add.getUpdateLocation (rowLits r)) with
      | error e => rw [hl] at h; cases h
      | ok locs =>
        rw [hl] at h
        simp only [pure, Except.pure, Except.ok.injEq] at h
        subst h
        exact ⟨vertical, rfl, ha, hl⟩

theorem vertOf_units (leaves comp : List ℕ) (e : Diagram V) (h : vertOf V 2 leaves comp = .ok e) : e.units.Perm comp := by
  unfold vertOf at h
  split at h
  · rename_i hemp
    simp only [pure, Except.pure, Except.ok.injEq] at h
    subst h
    have hnil : comp.filter (fun u => !leaves.contains u) = [] := by simpa using hemp
    have hall := List.filter_eq_nil_iff.mp hnil
    have : comp.filter (fun u => leaves.contains u) = comp := by
      rw [List.filter_eq_self]
      intro a ha
      have := hall a ha
      simpa using this
    simp only [chain]
    rw [this]
  · have hpos : 2 ^ (comp.filter (fun u => !leaves.contains u)).length =
        (2 ^ (comp.filter (fun u => !leaves.contains u)).length - 1) + 1 := by
      have : 0 < 2 ^ (comp.filter (fun u => !leaves.contains u)).length := Nat.pow_pos (by omega)
      omega
    rw [hpos, List.replicate_succ, stack_eq] at h
    split at h
    · cases h
    split at h
    · cases h
    split at h
    · cases h
    simp only [Except.ok.injEq] at h
    subst h
    simp only [chain]
    exact List.perm_append_comm.trans (List.filter_append_perm (fun u => leaves.contains u) comp)

theorem vertOf_reach (leaves comp : List ℕ) (e : Diagram V) (h : vertOf V 2 leaves comp = .ok e) : Reach e := by
  unfold vertOf at h
  split at h
  · simp only [pure, Except.pure, Except.ok.injEq] at h
    rw [← h]; exact Reach.chain _ _
  · exact Reach.stack _ _ _ (comp.filter (fun u => leaves.contains u)).length
      (fun e' he' => by rw [(List.mem_replicate.mp he').2]; exact Reach.chain _ _)
      (fun e' he' => by rw [(List.mem_replicate.mp he').2]; exact ⟨rfl, rfl⟩) h

theorem mapM_forall₂ {α β : Type} (f : α → Except Err β) (l : List α) (ys : List β) (h : l.mapM f = .ok ys) :
    List.Forall₂ (fun x y => f x = .ok y) l ys := by
  induction l generalizing ys with
  | nil =>
    simp only [List.mapM_nil, pure, Except.pure, Except.ok.injEq] at h
    subst h; exact .nil
  | cons a l ih =>
    rw [List.mapM_cons] at h
    cases hfa : f a with
    | error e => rw [hfa] at h; cases h
    | ok b =>
      rw [hfa] at h
      cases hl : List.mapM f l with
      | error e => rw [hl] at h; cases h
      | ok bs =>
        rw [hl] at h
        simp only [bind, Except.bind, pure, Except.pure, Except.ok.injEq] at h
        subst h
        exact .cons hfa (ih bs hl)

theorem forall₂_exists_left {α β : Type} {R : α → β → Prop} {l : List α} {ys : List β} (h : List.Forall₂ R l ys) :
    ∀ y ∈ ys, ∃ x ∈ l, R x y := by
  induction h with
  | nil => simp
  | cons hr _ ih =>
    intro y hy
    rcases List.mem_cons.mp hy with rfl | hy
    · exact ⟨_, by simp, hr⟩
    · obtain ⟨x, hx, hxy⟩ := ih y hy
      exact ⟨x, by simp [hx], hxy⟩

/-- the units of the compiled diagram are the units of `p`, each exactly once -/
theorem compile_units_perm (p : Prov.P) (cmp : Compiled V) (h : compile p = .ok cmp) (hc : Conjunctive p)
    (hC : p.nCands = 2) : cmp.add.units.Perm (List.range p.nUnits) := by
  by_cases h2 : p.nConj = 1
  · rw [compile_chain p (compile_nDisj p cmp h) h2] at h
    simp only [Except.ok.injEq] at h
    subst h
    exact List.Perm.refl _
  · obtain ⟨vertical, hv, hcat, _⟩ := compile_general' p cmp h h2
    rw [hC] at hv
    have hF := mapM_forall₂ _ _ _ hv
    have hwf : ∀ e ∈ vertical, e.WF := by
      intro e he
      obtain ⟨comp, _, hce⟩ := forall₂_exists_left hF e he
      exact (vertOf_reach _ _ _ hce).inv.1
    have hunits := (concat_spec vertical cmp.add hcat hwf).2.1
    have hF' : List.Forall₂ (fun (e : Diagram V) comp => e.units.Perm comp) vertical
        (components p.nUnits (pairsOfP p)) :=
      List.Forall₂.flip (hF.imp (fun comp e h => vertOf_units _ _ _ h))
    have hperm := List.Perm.flatten_congr ((List.forall₂_map_left_iff).mpr hF')
    rw [hunits, List.flatMap_def]
    exact hperm.trans (components_perm _ _ (pairs_lt hc))

end Components3

/-! ## 15. `get_update_location`: the edges of the last unit reached by the consistent paths -/
section Walk
variable {V : Type} [AddCommMonoid V]

/-- node reached from node `j` after following `as` -/
def nodeAfter : List (Level V) → ℕ → List ℕ → ℕ
  | [], j, _ => j
  | _ :: _, j, [] => j
  | lv :: rest, j, a :: as => nodeAfter rest ((nodeAt lv j).ch a) as

theorem nodeAfter_nil (L : List (Level V)) (j : ℕ) : nodeAfter L j [] = j := by
  cases L <;> rfl

theorem nodeAfter_concat (L : List (Level V)) (j : ℕ) (pre : List ℕ) (c : ℕ) (h : pre.length < L.length) :
    nodeAfter L j (pre ++ [c]) = (nodeAt (L.getD pre.length []) (nodeAfter L j pre)).ch c := by
  induction L generalizing j pre with
  | nil => simp at h
  | cons lv rest ih =>
    cases pre with
    | nil => simp [nodeAfter, nodeAfter_nil]
    | cons a pre =>
      simp only [List.cons_append, nodeAfter, List.length_cons, List.getD_cons_succ]
      exact ih _ pre (by simpa using h)

/-- the edges of the path, explicitly -/
theorem pathEdges_eq (L : List (Level V)) (j : ℕ) (as : List ℕ) (i : ℕ) (h : as.length ≤ L.length) :
    pathEdges L j as i = (List.range as.length).map (fun k => (i + k, nodeAfter L j (as.take k), as.getD k 0)) := by
  induction L generalizing j as i with
  | nil =>
    have : as = [] := List.length_eq_zero_iff.mp (by simpa using h)
    subst this; rfl
  | cons lv rest ih =>
    cases as with
    | nil => rfl
    | cons a as =>
      simp only [pathEdges, List.length_cons, List.range_succ_eq_map, List.map_cons, List.map_map]
      rw [ih _ as (i + 1) (by simpa using h)]
      simp only [List.take_zero, nodeAfter_nil, List.getD_cons_zero, Nat.add_zero, List.cons.injEq, true_and]
      apply List.map_congr_left
      intro k _
      simp only [Function.comp, List.take_succ_cons, nodeAfter, List.getD_cons_succ]
      rw [show i + 1 + k = i + (k + 1) by omega]

theorem count_level_aux (m lvl : ℕ) (hl : lvl < m) (f : ℕ → ℕ × ℕ × ℕ) (hf : ∀ k, (f k).1 = k)
    (loc : List (ℕ × ℕ × ℕ)) (hloc : ∀ e ∈ loc, e.1 = lvl) :
    (((List.range m).map f).filter (fun e => loc.contains e)).length = if f lvl ∈ loc then 1 else 0 := by
  rw [List.filter_map, List.length_map]
  have hfil : (List.range m).filter ((fun e => loc.contains e) ∘ f) =
      (List.range m).filter (fun k => k == lvl && decide (f lvl ∈ loc)) := by
    apply List.filter_congr
    intro k _
    simp only [Function.comp, List.contains_iff_mem]
    by_cases hk : k = lvl
    · subst hk; simp
    · have : f k ∉ loc := fun hm => hk ((hf k).symm.trans (hloc _ hm))
      simp [hk, this]
  rw [hfil]
  by_cases hm : f lvl ∈ loc
  · rw [if_pos hm]
    have : (List.range m).filter (fun k => k == lvl && decide (f lvl ∈ loc)) = (List.range m).filter (fun k => k == lvl) := by
      apply List.filter_congr; intro k _; simp [hm]
    rw [this, ← List.countP_eq_length_filter, ← List.count_eq_countP, List.count_eq_one_of_mem List.nodup_range]
    rw [List.mem_range]; exact hl
  · rw [if_neg hm]
    have : (List.range m).filter (fun k => k == lvl && decide (f lvl ∈ loc)) = [] := by
      rw [List.filter_eq_nil_iff]; intro k _; simp [hm]
    rw [this]; rfl

/-- number of crossings of a set of edges of one level -/
theorem cross_level (L : List (Level V)) (j : ℕ) (as : List ℕ) (h : as.length = L.length) (loc : List (ℕ × ℕ × ℕ))
    (lvl : ℕ) (hl : lvl < L.length) (hloc : ∀ e ∈ loc, e.1 = lvl) :
    ((pathEdges L j as 0).filter (fun e => loc.contains e)).length =
      if (lvl, nodeAfter L j (as.take lvl), as.getD lvl 0) ∈ loc then 1 else 0 := by
  rw [pathEdges_eq L j as 0 (by omega)]
  have := count_level_aux as.length lvl (by omega) (fun k => (0 + k, nodeAfter L j (as.take k), as.getD k 0))
    (fun k => by simp) loc hloc
  rw [this]
  simp only [Nat.zero_add]

end Walk

section Walk2
variable {V : Type} [AddCommMonoid V]

theorem allAssign_succ_iff (k : ℕ) (pre' : List ℕ) :
    pre' ∈ allAssign (k + 1) ↔ ∃ pre c, pre ∈ allAssign k ∧ c < 2 ∧ pre' = pre ++ [c] := by
  constructor
  · intro h
    obtain ⟨hl, hlt⟩ := (mem_allAssign _ _).mp h
    have hne : pre' ≠ [] := by intro h0; rw [h0] at hl; simp at hl
    refine ⟨pre'.dropLast, pre'.getLast hne, ?_, hlt _ (List.getLast_mem hne), (List.dropLast_concat_getLast hne).symm⟩
    rw [mem_allAssign]
    refine ⟨by simp [hl], fun x hx => hlt x ((List.dropLast_sublist _).subset hx)⟩
  · rintro ⟨pre, c, hp, hc, rfl⟩
    obtain ⟨hl, hlt⟩ := (mem_allAssign _ _).mp hp
    rw [mem_allAssign]
    refine ⟨by simp [hl], fun x hx => ?_⟩
    rcases List.mem_append.mp hx with h | h
    · exact hlt x h
    · simp only [List.mem_singleton] at h; subst h; exact hc

/-- the prefix `pre` agrees with the literals `l` (positions in `units`) -/
def consistent (units : List ℕ) (l : List (ℕ × ℕ)) (pre : List ℕ) : Prop :=
  ∀ uv ∈ l, pre.getD (units.idxOf uv.1) 0 = uv.2

theorem consistent_concat (units : List ℕ) (l : List (ℕ × ℕ)) (pre : List ℕ) (c : ℕ)
    (hpos : ∀ uv ∈ l, units.idxOf uv.1 < pre.length) : consistent units l (pre ++ [c]) ↔ consistent units l pre := by
  unfold consistent
  constructor
  · intro h uv huv
    rw [← h uv huv, List.getD_append _ _ _ _ (hpos uv huv)]
  · intro h uv huv
    rw [← h uv huv, List.getD_append _ _ _ _ (hpos uv huv)]

/-- `nodes` = the nodes of level `cur` reached by the prefixes satisfying `P` -/
def NodesInv (d : Diagram V) (cur : ℕ) (nodes : List ℕ) (P : List ℕ → Prop) : Prop :=
  ∀ j, j ∈ nodes ↔ ∃ pre, pre ∈ allAssign cur ∧ P pre ∧ nodeAfter d.levels d.root pre = j

theorem inv_expand (d : Diagram V) (hC : d.C = 2) (cur : ℕ) (hcur : cur < d.levels.length) (nodes : List ℕ)
    (l : List (ℕ × ℕ)) (hpos : ∀ uv ∈ l, d.units.idxOf uv.1 < cur) (h : NodesInv d cur nodes (consistent d.units l)) :
    NodesInv d (cur + 1)
      (dedupSorted (nodes.flatMap (fun j => (List.range d.C).map (fun c => (nodeAt (d.levels.getD cur []) j).ch c))))
      (consistent d.units l) := by
  intro j'
  rw [mem_dedupSorted, List.mem_flatMap]
  constructor
  · rintro ⟨j, hj, hj'⟩
    obtain ⟨pre, hp, hcons, hn⟩ := (h j).mp hj
    rw [List.mem_map] at hj'
    obtain ⟨c, hc, rfl⟩ := hj'
    rw [hC, List.mem_range] at hc
    have hl := ((mem_allAssign _ _).mp hp).1
    refine ⟨pre ++ [c], (allAssign_succ_iff _ _).mpr ⟨pre, c, hp, hc, rfl⟩, ?_, ?_⟩
    · exact (consistent_concat _ _ _ _ (fun uv huv => by rw [hl]; exact hpos uv huv)).mpr hcons
    · rw [nodeAfter_concat _ _ _ _ (by rw [hl]; exact hcur), hl, hn]
  · rintro ⟨pre', hp', hcons, hn⟩
    obtain ⟨pre, c, hp, hc, rfl⟩ := (allAssign_succ_iff _ _).mp hp'
    have hl := ((mem_allAssign _ _).mp hp).1
    refine ⟨nodeAfter d.levels d.root pre, (h _).mpr ⟨pre, hp, ?_, rfl⟩, ?_⟩
    · exact (consistent_concat _ _ _ _ (fun uv huv => by rw [hl]; exact hpos uv huv)).mp hcons
    · rw [List.mem_map]
      refine ⟨c, by rw [hC, List.mem_range]; exact hc, ?_⟩
      rw [← hn, nodeAfter_concat _ _ _ _ (by rw [hl]; exact hcur), hl]

theorem inv_select (d : Diagram V) (cur : ℕ) (hcur : cur < d.levels.length) (nodes : List ℕ)
    (l : List (ℕ × ℕ)) (hpos : ∀ uv ∈ l, d.units.idxOf uv.1 < cur) (h : NodesInv d cur nodes (consistent d.units l))
    (u v : ℕ) (hu : d.units.idxOf u = cur) (hv : v < 2) :
    NodesInv d (cur + 1) (dedupSorted (nodes.map (fun j => (nodeAt (d.levels.getD cur []) j).ch v)))
      (consistent d.units (l ++ [(u, v)])) := by
  intro j'
  rw [mem_dedupSorted, List.mem_map]
  constructor
  · rintro ⟨j, hj, rfl⟩
    obtain ⟨pre, hp, hcons, hn⟩ := (h j).mp hj
    have hl := ((mem_allAssign _ _).mp hp).1
    refine ⟨pre ++ [v], (allAssign_succ_iff _ _).mpr ⟨pre, v, hp, hv, rfl⟩, ?_, ?_⟩
    · intro uv huv
      rcases List.mem_append.mp huv with h1 | h1
      · rw [List.getD_append _ _ _ _ (by rw [hl]; exact hpos uv h1)]; exact hcons uv h1
      · simp only [List.mem_singleton] at h1; subst h1
        simp only
        rw [hu, List.getD_append_right _ _ _ _ (by omega), hl]; simp
    · rw [nodeAfter_concat _ _ _ _ (by rw [hl]; exact hcur), hl, hn]
  · rintro ⟨pre', hp', hcons, hn⟩
    obtain ⟨pre, c, hp, hc, rfl⟩ := (allAssign_succ_iff _ _).mp hp'
    have hl := ((mem_allAssign _ _).mp hp).1
    have hcv : c = v := by
      have := hcons (u, v) (by simp)
      simp only at this
      rw [hu, List.getD_append_right _ _ _ _ (by omega), hl] at this
      simpa using this
    subst hcv
    refine ⟨nodeAfter d.levels d.root pre, (h _).mpr ⟨pre, hp, ?_, rfl⟩, ?_⟩
    · intro uv huv
      have := hcons uv (List.mem_append.mpr (Or.inl huv))
      rwa [List.getD_append _ _ _ _ (by rw [hl]; exact hpos uv huv)] at this
    · rw [← hn, nodeAfter_concat _ _ _ _ (by rw [hl]; exact hcur), hl]

theorem skip_spec (d : Diagram V) (hC : d.C = 2) (hw : d.WF) (hnd : d.units.Nodup) (u : ℕ) (hu : u ∈ d.units)
    (l : List (ℕ × ℕ)) (fuel : ℕ) (cur : ℕ) (hcur : cur ≤ d.units.idxOf u)
    (hpos : ∀ uv ∈ l, d.units.idxOf uv.1 < cur) (nodes : List ℕ) (h : NodesInv d cur nodes (consistent d.units l))
    (hf : d.units.idxOf u - cur < fuel) :
    ∃ nodes', Diagram.getUpdateLocation.skip d u cur nodes fuel = .ok (d.units.idxOf u, nodes') ∧
      NodesInv d (d.units.idxOf u) nodes' (consistent d.units l) := by
  have hi : d.units.idxOf u < d.units.length := List.idxOf_lt_length_iff.mpr hu
  induction fuel generalizing cur nodes with
  | zero => omega
  | succ fuel ih =>
    unfold Diagram.getUpdateLocation.skip
    have hcl : cur < d.units.length := by omega
    rw [List.getElem?_eq_getElem hcl]
    simp only
    by_cases hcu : d.units[cur] = u
    · have : d.units.idxOf u = cur := by rw [← hcu]; exact hnd.idxOf_getElem cur hcl
      rw [if_pos (by simpa using hcu)]
      exact ⟨nodes, by rw [this]; rfl, this ▸ h⟩
    · rw [if_neg (by simpa using hcu)]
      have hne : cur ≠ d.units.idxOf u := by
        intro he; apply hcu; subst he; exact List.getElem_idxOf hi
      exact ih (cur + 1) (by omega) (fun uv huv => by have := hpos uv huv; omega) _
        (inv_expand d hC cur (by rw [hw.len]; exact hcl) nodes l hpos h) (by omega)

end Walk2

section Walk3
variable {V : Type} [AddCommMonoid V]

theorem skip_nodup (d : Diagram V) (u : ℕ) (fuel cur : ℕ) (nodes : List ℕ) (hn : nodes.Nodup) (c' : ℕ) (nodes' : List ℕ)
    (h : Diagram.getUpdateLocation.skip d u cur nodes fuel = .ok (c', nodes')) : nodes'.Nodup := by
  induction fuel generalizing cur nodes with
  | zero => unfold Diagram.getUpdateLocation.skip at h; cases h
  | succ fuel ih =>
    unfold Diagram.getUpdateLocation.skip at h
    split at h
    · cases h
    · split at h
      · simp only [pure, Except.pure, Except.ok.injEq, Prod.mk.injEq] at h
        rw [← h.2]; exact hn
      · exact ih _ _ (nodup_dedupSorted _) h

theorem walk_spec (d : Diagram V) (hC : d.C = 2) (hw : d.WF) (hnd : d.units.Nodup) (rest' : List (ℕ × ℕ)) :
    ∀ (u v cur : ℕ) (nodes : List ℕ) (loc0 : List (ℕ × ℕ × ℕ)) (done : List (ℕ × ℕ)) (loc : List (ℕ × ℕ × ℕ)),
      Diagram.getUpdateLocation.walk d ((u, v) :: rest') cur nodes loc0 = .ok loc →
      (∀ uv ∈ (u, v) :: rest', uv.1 ∈ d.units ∧ uv.2 < 2) →
      ((u, v) :: rest').Pairwise (fun a b => d.units.idxOf a.1 < d.units.idxOf b.1) →
      cur ≤ d.units.idxOf u → (∀ uv ∈ done, d.units.idxOf uv.1 < cur) → nodes.Nodup →
      NodesInv d cur nodes (consistent d.units done) →
      loc.Nodup ∧ ∀ e, e ∈ loc ↔ ∃ pre, pre ∈ allAssign (d.units.idxOf (((u, v) :: rest').getLast (by simp)).1) ∧
        consistent d.units (done ++ ((u, v) :: rest').dropLast) pre ∧
        e = (d.units.idxOf (((u, v) :: rest').getLast (by simp)).1, nodeAfter d.levels d.root pre,
          (((u, v) :: rest').getLast (by simp)).2) := by
  induction rest' with
  | nil =>
    intro u v cur nodes loc0 done loc h hmem hsorted hcur hpos hnn hinv
    have hu := (hmem (u, v) (by simp)).1
    have hi : d.units.idxOf u < d.units.length := List.idxOf_lt_length_iff.mpr hu
    obtain ⟨nodes', hskip, hinv'⟩ := skip_spec d hC hw hnd u hu done (d.levels.length + 1) cur hcur hpos nodes hinv
      (by rw [hw.len]; omega)
    have hnn' := skip_nodup d u _ _ _ hnn _ _ hskip
    unfold Diagram.getUpdateLocation.walk at h
    rw [hskip] at h
    simp only [bind, Except.bind, Diagram.getUpdateLocation.walk, pure, Except.pure, Except.ok.injEq] at h
    subst h
    refine ⟨hnn'.map (fun a b hab => by simpa using hab), fun e => ?_⟩
    simp only [List.getLast_singleton, List.dropLast_singleton, List.append_nil, List.mem_map]
    constructor
    · rintro ⟨j, hj, rfl⟩
      obtain ⟨pre, h1, h2, h3⟩ := (hinv' j).mp hj
      exact ⟨pre, h1, h2, by rw [h3]⟩
    · rintro ⟨pre, h1, h2, rfl⟩
      exact ⟨_, (hinv' _).mpr ⟨pre, h1, h2, rfl⟩, rfl⟩
  | cons uv2 rest'' ih =>
    obtain ⟨u2, v2⟩ := uv2
    intro u v cur nodes loc0 done loc h hmem hsorted hcur hpos hnn hinv
    have hu := (hmem (u, v) (by simp)).1
    have hv := (hmem (u, v) (by simp)).2
    have hi : d.units.idxOf u < d.units.length := List.idxOf_lt_length_iff.mpr hu
    obtain ⟨nodes', hskip, hinv'⟩ := skip_spec d hC hw hnd u hu done (d.levels.length + 1) cur hcur hpos nodes hinv
      (by rw [hw.len]; omega)
    unfold Diagram.getUpdateLocation.walk at h
    rw [hskip] at h
    simp only [bind, Except.bind] at h
    have hpos' : ∀ uv ∈ done, d.units.idxOf uv.1 < d.units.idxOf u := fun uv huv => by
      have := hpos uv huv; omega
    have hinv2 := inv_select d (d.units.idxOf u) (by rw [hw.len]; exact hi) nodes' done hpos' hinv' u v rfl hv
    rw [List.pairwise_cons] at hsorted
    have := ih u2 v2 (d.units.idxOf u + 1) _ _ (done ++ [(u, v)]) loc h
      (fun uv huv => hmem uv (by simp [huv])) hsorted.2
      (by have := hsorted.1 (u2, v2) (by simp); simp only at this; omega)
      (by intro uv huv
          rcases List.mem_append.mp huv with h1 | h1
          · have := hpos' uv h1; omega
          · simp only [List.mem_singleton] at h1; subst h1; simp)
      (nodup_dedupSorted _) hinv2
    simpa only [List.getLast_cons_cons, List.dropLast_cons_cons, List.append_assoc, List.singleton_append] using this

end Walk3

section Walk4
variable {V : Type} [AddCommMonoid V]

/-- `get_update_location` for an assignment of at least two distinct units: the value-`v` edges of the last unit
(in diagram order) at the nodes reached by the prefixes that agree with the other literals -/
theorem getUpdateLocation_multi (d : Diagram V) (hC : d.C = 2) (hw : d.WF) (hnd : d.units.Nodup) (asg : List (ℕ × ℕ))
    (hmem : ∀ uv ∈ asg, uv.1 ∈ d.units ∧ uv.2 < 2) (hnodup : (asg.map Prod.fst).Nodup) (h2 : 2 ≤ asg.length)
    (loc : List (ℕ × ℕ × ℕ)) (h : d.getUpdateLocation asg = .ok loc) :
    ∃ init last, (init ++ [last]).Perm asg ∧ (∀ uv ∈ init, d.units.idxOf uv.1 < d.units.idxOf last.1) ∧ loc.Nodup ∧
      ∀ e, e ∈ loc ↔ ∃ pre, pre ∈ allAssign (d.units.idxOf last.1) ∧ consistent d.units init pre ∧
        e = (d.units.idxOf last.1, nodeAfter d.levels d.root pre, last.2) := by
  have hperm := List.mergeSort_perm asg (fun a b => decide (d.units.idxOf a.1 ≤ d.units.idxOf b.1))
  have hpw := List.pairwise_mergeSort (le := fun a b : ℕ × ℕ => decide (d.units.idxOf a.1 ≤ d.units.idxOf b.1))
    (by intro a b c h1 h2; simp only [decide_eq_true_eq] at *; omega)
    (by intro a b; simp only [Bool.or_eq_true, decide_eq_true_eq]; omega) asg
  unfold Diagram.getUpdateLocation at h
  have hany : asg.any (fun uv => !d.units.contains uv.1) = false := by
    rw [List.any_eq_false]; intro uv huv; simp [(hmem uv huv).1]
  simp only [hany, Bool.false_eq_true, if_false] at h
  generalize asg.mergeSort (fun a b => decide (d.units.idxOf a.1 ≤ d.units.idxOf b.1)) = sorted at h hperm hpw
  have hlen : sorted.length = asg.length := hperm.length_eq
  have hnd' : (sorted.map Prod.fst).Nodup := (hperm.map Prod.fst).nodup_iff.mpr hnodup
  have hmem' : ∀ uv ∈ sorted, uv.1 ∈ d.units ∧ uv.2 < 2 := fun uv huv => hmem uv (hperm.mem_iff.mp huv)
  have hstrict : sorted.Pairwise (fun a b => d.units.idxOf a.1 < d.units.idxOf b.1) := by
    have hne := List.pairwise_map.mp hnd'
    refine (hpw.and hne).imp_of_mem ?_
    intro a b ha hb hab
    obtain ⟨h1, h2⟩ := hab
    simp only [decide_eq_true_eq] at h1
    have hia : d.units.idxOf a.1 < d.units.length := List.idxOf_lt_length_iff.mpr (hmem' a ha).1
    have hib : d.units.idxOf b.1 < d.units.length := List.idxOf_lt_length_iff.mpr (hmem' b hb).1
    have : d.units.idxOf a.1 ≠ d.units.idxOf b.1 := fun he => h2 (by
      rw [← List.getElem_idxOf hia, ← List.getElem_idxOf hib]
      simp only [he])
    omega
  match sorted, hlen, hperm, hmem', hstrict, h with
  | [], hlen, _, _, _, _ => simp at hlen; omega
  | [x], hlen, _, _, _, _ => simp at hlen; omega
  | (u, v) :: y :: rest, hlen, hperm, hmem', hstrict, h =>
    simp only [pure, Except.pure, bind, Except.bind] at h
    have hw0 : NodesInv d 0 [d.root] (consistent d.units []) := by
      intro j
      simp only [allAssign, List.mem_singleton]
      constructor
      · rintro rfl; exact ⟨[], rfl, by intro uv h; simp at h, nodeAfter_nil _ _⟩
      · rintro ⟨pre, rfl, _, h⟩; rw [nodeAfter_nil] at h; exact h.symm
    obtain ⟨hn, hloc⟩ := walk_spec d hC hw hnd (y :: rest) u v 0 [d.root] [] [] loc h hmem' hstrict (Nat.zero_le _)
      (by simp) (by simp) hw0
    refine ⟨((u, v) :: y :: rest).dropLast, ((u, v) :: y :: rest).getLast (by simp), ?_, ?_, hn, ?_⟩
    · rw [List.dropLast_concat_getLast]; exact hperm
    · have := hstrict
      rw [← List.dropLast_concat_getLast (l := (u, v) :: y :: rest) (by simp), List.pairwise_append] at this
      intro uv huv
      exact this.2.2 uv huv _ (by simp)
    · simpa using hloc

end Walk4

section RowDet
variable {V : Type} [AddCommMonoid V]

theorem active_nodeAfter (C : ℕ) (L : List (Level V)) (j : ℕ) (as : List ℕ) (hw : wf C L j) (hC : ∀ a ∈ as, a < C)
    (hl : as.length < L.length) : (nodeAt (L.getD as.length []) (nodeAfter L j as)).active = true := by
  induction L generalizing j as with
  | nil => simp at hl
  | cons lv rest ih =>
    cases as with
    | nil => simpa [nodeAfter] using hw.1
    | cons a as =>
      simp only [nodeAfter, List.length_cons, List.getD_cons_succ]
      exact ih _ as (hw.2 a (hC a (by simp))) (fun x hx => hC x (by simp [hx])) (by simpa using hl)

/-- the node reached at the level of the last unit of a row determines the values of the row's other units -/
def RowDet (d : Diagram V) (us : List ℕ) : Prop :=
  ∀ ulast ∈ us, (∀ u ∈ us, d.units.idxOf u ≤ d.units.idxOf ulast) →
    ∀ a ∈ allAssign d.units.length, ∀ b ∈ allAssign d.units.length,
      nodeAfter d.levels d.root (a.take (d.units.idxOf ulast)) = nodeAfter d.levels d.root (b.take (d.units.idxOf ulast)) →
      ∀ u ∈ us, u ≠ ulast → a.getD (d.units.idxOf u) 0 = b.getD (d.units.idxOf u) 0

theorem take_mem_allAssign (n k : ℕ) (a : List ℕ) (ha : a ∈ allAssign n) (hk : k ≤ n) : a.take k ∈ allAssign k := by
  obtain ⟨hl, hlt⟩ := (mem_allAssign _ _).mp ha
  rw [mem_allAssign]
  exact ⟨by simp [hl, hk], fun x hx => hlt x (List.mem_of_mem_take hx)⟩

/-- one row of `LocSpec` -/
theorem locSpec_row (d : Diagram V) (hC : d.C = 2) (hw : d.WF) (hnd : d.units.Nodup) (us : List ℕ)
    (hus : ∀ u ∈ us, u ∈ d.units) (hund : us.Nodup) (hdet : RowDet d us) (loc : List (ℕ × ℕ × ℕ))
    (h : d.getUpdateLocation (us.map (fun u => (u, 1))) = .ok loc) :
    loc.Nodup ∧ (∀ e ∈ loc, e.1 < d.levels.length ∧ e.2.1 < (d.levels.getD e.1 []).length ∧ e.2.2 < d.C) ∧
    ∀ args ∈ allAssign d.units.length,
      ((pathEdges d.levels d.root args 0).filter (fun e => loc.contains e)).length =
        if (us.map (fun u => (u, 1))).all (fun uv => args.getD (d.units.idxOf uv.1) 0 == uv.2) then 1 else 0 := by
  have hwr : wf 2 d.levels d.root := hC ▸ hw.reach
  match us, hus, hund, hdet, h with
  | [], _, _, _, h =>
    simp [Diagram.getUpdateLocation, throw, throwThe, MonadExceptOf.throw, bind, Except.bind, pure, Except.pure] at h
  | [u], hus, _, _, h =>
    have hu := hus u (by simp)
    have hi : d.units.idxOf u < d.units.length := List.idxOf_lt_length_iff.mpr hu
    simp only [List.map_cons, List.map_nil] at h
    rw [getUpdateLocation_single d u 1 hu] at h
    simp only [Except.ok.injEq] at h
    subst h
    have hmemU : ∀ e, e ∈ unitLoc d u 1 ↔ e.1 = d.units.idxOf u ∧ e.2.2 = 1 ∧
        e.2.1 < (d.levels.getD (d.units.idxOf u) []).length ∧
        (nodeAt (d.levels.getD (d.units.idxOf u) []) e.2.1).active = true := by
      intro e
      unfold unitLoc
      simp only [List.mem_map, List.mem_filter, List.mem_range]
      constructor
      · rintro ⟨j, ⟨h1, h2⟩, rfl⟩; exact ⟨rfl, rfl, h1, h2⟩
      · rintro ⟨h1, h2, h3, h4⟩; exact ⟨e.2.1, ⟨h3, h4⟩, by rw [← h1, ← h2]⟩
    refine ⟨unitLoc_nodup _ _ _, fun e he => ?_, fun args hargs => ?_⟩
    · obtain ⟨h1, h2, h3, _⟩ := (hmemU e).mp he
      exact ⟨by rw [h1, hw.len]; exact hi, by rw [h1]; exact h3, by rw [h2, hC]; omega⟩
    · obtain ⟨hl, hlt⟩ := (mem_allAssign _ _).mp hargs
      rw [cross_level d.levels d.root args (by rw [hl, hw.len]) _ (d.units.idxOf u) (by rw [hw.len]; exact hi)
        (fun e he => ((hmemU e).mp he).1)]
      have hact := active_nodeAfter 2 d.levels d.root (args.take (d.units.idxOf u)) hwr
        (fun x hx => hlt x (List.mem_of_mem_take hx)) (by simp [hl, hw.len]; omega)
      rw [List.length_take, hl, Nat.min_eq_left (by omega)] at hact
      simp only [List.map_cons, List.map_nil, List.all_cons, List.all_nil, Bool.and_true, beq_iff_eq]
      congr 1
      rw [hmemU]
      simp only [true_and, eq_iff_iff]
      exact ⟨fun h => h.1, fun h => ⟨h, nodeAt_lt_of_active hact, hact⟩⟩
  | u1 :: u2 :: rest, hus, hund, hdet, h =>
    obtain ⟨init, last, hperm, hlt, hn, hloc⟩ := getUpdateLocation_multi d hC hw hnd _
      (by intro uv huv; obtain ⟨u, hu, rfl⟩ := List.mem_map.mp huv; exact ⟨hus u hu, by simp⟩)
      (by rw [List.map_map]; have : (Prod.fst ∘ fun u : ℕ => (u, 1)) = id := rfl
          rw [this, List.map_id]; exact hund) (by simp) loc h
    have hmemAsg : ∀ uv, uv ∈ init ++ [last] ↔ uv.1 ∈ (u1 :: u2 :: rest) ∧ uv.2 = 1 := by
      intro uv
      rw [hperm.mem_iff, List.mem_map]
      constructor
      · rintro ⟨u, hu, rfl⟩; exact ⟨hu, rfl⟩
      · rintro ⟨h1, h2⟩; exact ⟨uv.1, h1, by rw [← h2]⟩
    have hlast := (hmemAsg last).mp (by simp)
    have hil : d.units.idxOf last.1 < d.units.length := List.idxOf_lt_length_iff.mpr (hus _ hlast.1)
    refine ⟨hn, fun e he => ?_, fun args hargs => ?_⟩
    · obtain ⟨pre, hp, _, rfl⟩ := (hloc e).mp he
      obtain ⟨hl, hlt'⟩ := (mem_allAssign _ _).mp hp
      have hact := active_nodeAfter 2 d.levels d.root pre hwr hlt' (by rw [hl, hw.len]; exact hil)
      rw [hl] at hact
      exact ⟨by rw [hw.len]; exact hil, nodeAt_lt_of_active hact, by rw [hlast.2, hC]; omega⟩
    · obtain ⟨hl, hlt'⟩ := (mem_allAssign _ _).mp hargs
      rw [cross_level d.levels d.root args (by rw [hl, hw.len]) _ (d.units.idxOf last.1) (by rw [hw.len]; exact hil)
        (fun e he => by obtain ⟨pre, _, _, rfl⟩ := (hloc e).mp he; rfl)]
      have hallIff : ((u1 :: u2 :: rest).map (fun u => (u, 1))).all
          (fun uv => args.getD (d.units.idxOf uv.1) 0 == uv.2) = true ↔
          ∀ uv ∈ init ++ [last], args.getD (d.units.idxOf uv.1) 0 = uv.2 := by
        rw [List.all_eq_true]
        constructor
        · intro h uv huv
          have := h uv (hperm.mem_iff.mp huv); simpa using this
        · intro h uv huv
          have := h uv (hperm.mem_iff.mpr huv); simpa using this
      congr 1
      rw [hallIff, hloc]
      simp only [eq_iff_iff]
      constructor
      · rintro ⟨pre, hp, hcons, heq⟩
        simp only [Prod.mk.injEq, true_and] at heq
        obtain ⟨hnode, hval⟩ := heq
        have hlp := ((mem_allAssign _ _).mp hp)
        -- the assignment `b` extending `pre`
        have hb : pre ++ args.drop (d.units.idxOf last.1) ∈ allAssign d.units.length := by
          rw [mem_allAssign]
          refine ⟨by simp [hlp.1, hl]; omega, fun x hx => ?_⟩
          rcases List.mem_append.mp hx with h1 | h1
          · exact hlp.2 x h1
          · exact hlt' x (List.mem_of_mem_drop h1)
        have hbt : (pre ++ args.drop (d.units.idxOf last.1)).take (d.units.idxOf last.1) = pre := by
          rw [List.take_append_of_le_length (by rw [hlp.1]), List.take_of_length_le (by rw [hlp.1])]
        have hd := hdet last.1 hlast.1 (fun u hu => by
            by_cases hul : (u, 1) = last
            · rw [← hul]
            · have : (u, 1) ∈ init := by
                have := (hmemAsg (u, 1)).mpr ⟨hu, rfl⟩
                rcases List.mem_append.mp this with h1 | h1
                · exact h1
                · simp only [List.mem_singleton] at h1; exact absurd h1 hul
              exact Nat.le_of_lt (hlt _ this))
          args hargs _ hb (by rw [hbt, hnode])
        intro uv huv
        rcases List.mem_append.mp huv with h1 | h1
        · have hne : uv.1 ≠ last.1 := by
            intro he; have := hlt uv h1; rw [he] at this; omega
          rw [hd uv.1 ((hmemAsg uv).mp huv).1 hne, List.getD_append _ _ _ _ (by rw [hlp.1]; exact hlt uv h1)]
          exact hcons uv h1
        · simp only [List.mem_singleton] at h1; subst h1; exact hval
      · intro hall
        refine ⟨args.take (d.units.idxOf last.1), take_mem_allAssign _ _ _ hargs (by omega), ?_, ?_⟩
        · intro uv huv
          have hlt1 := hlt uv huv
          rw [← hall uv (List.mem_append.mpr (Or.inl huv)), List.getD_eq_getElem?_getD, List.getD_eq_getElem?_getD,
            List.getElem?_take_of_lt hlt1]
        · rw [hall last (by simp)]

end RowDet

/-! ## 16. nodes reached in concatenations and stacks -/
section NodeTrack
variable {V : Type} [AddCommMonoid V]

theorem nodeAfter_pad (diam : ℕ) (L : List (Level V)) (j : ℕ) (pre : List ℕ) (hw : wf 2 L j) (hC : ∀ a ∈ pre, a < 2) :
    nodeAfter (L.map (padLevel 2 · diam)) j pre = nodeAfter L j pre := by
  induction L generalizing j pre with
  | nil => cases pre <;> rfl
  | cons lv L ih =>
    cases pre with
    | nil => rfl
    | cons a pre =>
      simp only [List.map_cons, nodeAfter, nodeAt_padLevel_lt 2 lv diam j (nodeAt_lt_of_active hw.1)]
      exact ih _ pre (hw.2 a (hC a (by simp))) (fun x hx => hC x (by simp [hx]))

/-- a prefix that stays inside the first block does not see the redirection of its last level -/
theorem nodeAfter_glue_left (f : Level V → Level V) (L M : List (Level V)) (j : ℕ) (pre : List ℕ)
    (h : pre.length < L.length) : nodeAfter (L.modify (L.length - 1) f ++ M) j pre = nodeAfter L j pre := by
  induction L generalizing j pre with
  | nil => simp at h
  | cons lv L' ih =>
    cases pre with
    | nil => simp [nodeAfter_nil]
    | cons a pre =>
      cases L' with
      | nil => simp at h
      | cons lv2 L'' =>
        have : (lv :: lv2 :: L'').length - 1 = ((lv2 :: L'').length - 1) + 1 := by simp
        rw [this, List.modify_succ_cons]
        simp only [List.cons_append, nodeAfter]
        exact ih _ pre (by simpa using h)

/-- after a complete block the path is at the root of the next one -/
theorem nodeAfter_glue (r : ℕ) (L : List (Level V)) (hne : L ≠ []) (M : List (Level V)) (j : ℕ) (as bs : List ℕ)
    (hlen : as.length = L.length) (hC : ∀ a ∈ as, a < 2) (hw : wf 2 L j) :
    nodeAfter (L.modify (L.length - 1) (redirect r) ++ M) j (as ++ bs) = nodeAfter M r bs := by
  induction L generalizing j as with
  | nil => exact absurd rfl hne
  | cons lv L' ih =>
    match as, hlen with
    | a :: as', hlen =>
      have ha : a < 2 := hC a (by simp)
      cases L' with
      | nil =>
        have has : as' = [] := by simpa using hlen
        subst has
        simp only [List.length_cons, List.length_nil, Nat.zero_add, Nat.sub_self, List.modify_zero_cons,
          List.cons_append, List.nil_append, nodeAfter, nodeAt_redirect r lv j hw.1]
        have : (Node.mk (nodeAt lv j).active (List.replicate 2 r) (nodeAt lv j).adder).ch a = r := by
          have : a = 0 ∨ a = 1 := by omega
          rcases this with rfl | rfl <;> rfl
        rw [this]
      | cons lv2 L'' =>
        have : (lv :: lv2 :: L'').length - 1 = ((lv2 :: L'').length - 1) + 1 := by simp
        rw [this, List.modify_succ_cons]
        simp only [List.cons_append, nodeAfter]
        exact ih (by simp) _ as' (by simpa using hlen) (fun x hx => hC x (by simp [hx])) (hw.2 a ha)

/-- node reached inside the block of element `e` of a concatenation -/
theorem nodeAfter_go (diam : ℕ) (pre : List (Diagram V)) (e : Diagram V) (post : List (Diagram V))
    (hok : ∀ x ∈ pre ++ e :: post, ConcOK x) (A B : List ℕ) (hA : A.length = (pre.flatMap (·.units)).length)
    (hB : B.length < e.levels.length) (hCA : ∀ a ∈ A, a < 2) (hCB : ∀ a ∈ B, a < 2) :
    nodeAfter (concatenate.go diam (pre ++ e :: post)) ((pre ++ e :: post).headD e).root (A ++ B) =
      nodeAfter e.levels e.root B := by
  induction pre generalizing A with
  | nil =>
    have hA0 : A = [] := List.length_eq_zero_iff.mp (by simpa using hA)
    subst hA0
    have he := hok e (by simp)
    simp only [List.nil_append, List.headD_cons]
    cases post with
    | nil =>
      rw [concatenate.go.eq_2]
      exact nodeAfter_pad diam _ _ _ (he.2.1 ▸ he.1.reach) hCB
    | cons e' rest =>
      rw [go_cons_cons, nodeAfter_glue_left _ _ _ _ _ (by simpa using hB)]
      exact nodeAfter_pad diam _ _ _ (he.2.1 ▸ he.1.reach) hCB
  | cons x pre ih =>
    have hx := hok x (by simp)
    simp only [List.cons_append, List.headD_cons]
    -- split `A` at the end of the block of `x`
    have hAl : A.length = x.units.length + (pre.flatMap (·.units)).length := by simpa using hA
    have hsplit : A = A.take x.units.length ++ A.drop x.units.length := (List.take_append_drop _ _).symm
    rw [hsplit, List.append_assoc]
    cases hpe : pre ++ e :: post with
    | nil => simp at hpe
    | cons y rest' =>
      rw [go_cons_cons, nodeAfter_glue _ _ (hx.levels_ne diam) _ _ _ _ (by simp [hx.1.len]; omega)
        (fun a ha => hCA a (List.mem_of_mem_take ha)) (wf_padLevels 2 diam _ _ (hx.2.1 ▸ hx.1.reach))]
      have := ih (fun z hz => hok z (by simp [hz])) (A.drop x.units.length) (by simp [hAl])
        (fun a ha => hCA a (List.mem_of_mem_drop ha))
      rw [hpe] at this
      simpa using this

end NodeTrack

section NodeTrack2
variable {V : Type} [AddCommMonoid V]

theorem nodeAfter_append_left (H B : List (Level V)) (j : ℕ) (bits : List ℕ) (h : bits.length ≤ H.length) :
    nodeAfter (H ++ B) j bits = nodeAfter H j bits := by
  induction H generalizing j bits with
  | nil =>
    have : bits = [] := List.length_eq_zero_iff.mp (by simpa using h)
    subst this; simp [nodeAfter_nil]
  | cons lv H ih =>
    cases bits with
    | nil => rfl
    | cons b bits => simp only [List.cons_append, nodeAfter]; exact ih _ bits (by simpa using h)

theorem nodeAfter_append (H B : List (Level V)) (j : ℕ) (bits rest : List ℕ) (h : bits.length = H.length) :
    nodeAfter (H ++ B) j (bits ++ rest) = nodeAfter B (nodeAfter H j bits) rest := by
  induction H generalizing j bits with
  | nil =>
    have : bits = [] := List.length_eq_zero_iff.mp (by simpa using h)
    subst this; simp [nodeAfter_nil]
  | cons lv H ih =>
    cases bits with
    | nil => simp at h
    | cons b bits => simp only [List.cons_append, nodeAfter]; exact ih _ bits (by simpa using h)

/-- in the header tree the node reached is the binary number read so far -/
theorem nodeAfter_hdr (k width : ℕ) (last : ℕ → ℕ → ℕ) (hwid : 2 ^ k ≤ width)
    (hlast : ∀ j c, j < 2 ^ (k - 1) → c < 2 → last j c = 2 * j + c)
    (len i j : ℕ) (hil : i + len = k) (hj : j < 2 ^ i) (bits : List ℕ) (hb : ∀ b ∈ bits, b < 2) (hl : bits.length ≤ len) :
    nodeAfter ((List.range' i len).map (hdrLevel (V := V) k width last)) j bits =
      bits.foldl (fun acc b => 2 * acc + b) j := by
  induction len generalizing i j bits with
  | zero =>
    have : bits = [] := List.length_eq_zero_iff.mp (by simpa using hl)
    subst this; simp [nodeAfter_nil]
  | succ len ih =>
    cases bits with
    | nil => simp [nodeAfter_nil]
    | cons b bits =>
      have hb0 : b < 2 := hb b (by simp)
      have hjw : j < width := lt_of_lt_of_le (lt_of_lt_of_le hj (Nat.pow_le_pow_right (by omega) (by omega))) hwid
      simp only [List.range'_succ, List.map_cons, nodeAfter, List.foldl_cons]
      have hch : (nodeAt (hdrLevel (V := V) k width last i) j).ch b = 2 * j + b := by
        rw [nodeAt_hdrLevel k width _ i j hj hjw]
        have hite : (if i + 1 < k then 2 * j + b else last j b) = 2 * j + b := by
          split
          · rfl
          · exact hlast j b (by have : i = k - 1 := by omega
                                rw [← this]; exact hj) hb0
        have : b = 0 ∨ b = 1 := by omega
        rcases this with rfl | rfl
        · simpa [Node.ch] using hite
        · simpa [Node.ch] using hite
      rw [hch]
      exact ih (i + 1) (2 * j + b) (by omega) (by rw [pow_succ]; omega) bits (fun x hx => hb x (by simp [hx]))
        (by simpa using hl)

theorem offsetOf_replicate (M : ℕ) (x : Diagram V) (e : ℕ) (he : e ≤ M) :
    offsetOf (List.replicate M x) e = e * x.diameter := by
  unfold offsetOf
  rw [List.take_replicate, Nat.min_eq_left he, List.map_replicate, List.sum_replicate]
  simp

end NodeTrack2

section NodeTrack3
variable {V : Type} [AddCommMonoid V]

theorem stackOK_replicate_chain (M : ℕ) (lvs : List ℕ) :
    StackOK (List.replicate M (chain lvs 2 : Diagram V)) lvs.length := by
  refine ⟨fun e he => ?_, fun e he => ?_, fun e he => ?_, fun e he => ?_⟩ <;>
    rw [(List.mem_replicate.mp he).2]
  · exact chain_wf _ _
  · exact chain_rect _ _
  · rfl
  · simp [chain]

/-- in the body of a stack of chains the path stays in the copy it entered -/
theorem nodeAfter_body_chain (M : ℕ) (lvs : List ℕ) (len t e : ℕ) (htl : t + len = lvs.length) (he : e < M)
    (rest : List ℕ) (hb : ∀ b ∈ rest, b < 2) (hl : rest.length ≤ len) :
    nodeAfter ((List.range' t len).map (bodyLevel (List.replicate M (chain lvs 2 : Diagram V)))) e rest = e := by
  induction len generalizing t rest with
  | zero =>
    have : rest = [] := List.length_eq_zero_iff.mp (by simpa using hl)
    subst this; simp [nodeAfter_nil]
  | succ len ih =>
    cases rest with
    | nil => simp [nodeAfter_nil]
    | cons b rest =>
      have hb0 : b < 2 := hb b (by simp)
      simp only [List.range'_succ, List.map_cons, nodeAfter]
      have hel : e < (List.replicate M (chain lvs 2 : Diagram V)).length := by simpa using he
      have hx : (List.replicate M (chain lvs 2 : Diagram V))[e] = chain lvs 2 := by simp
      have hoff : offsetOf (List.replicate M (chain lvs 2 : Diagram V)) e = e := by
        rw [offsetOf_replicate _ _ _ (by omega)]; simp [chain]
      have hnode := nodeAt_bodyLevel (List.replicate M (chain lvs 2 : Diagram V)) lvs.length
        (stackOK_replicate_chain M lvs) t (by omega) e hel 0 (by rw [hx]; simp [chain])
      rw [hoff, Nat.add_zero] at hnode
      rw [hnode, hx]
      have hlv : (chain lvs 2 : Diagram V).levels.getD t [] = [liveZero 2] := by
        simp only [chain]
        rw [List.getD_eq_getElem _ _ (by simp; omega)]
        simp
      rw [hlv]
      have hn0 : nodeAt [(liveZero 2 : Node V)] 0 = liveZero 2 := rfl
      rw [hn0, shiftNode_ch _ _ _ (by simp [liveZero]; exact hb0), liveZero_ch, Nat.add_zero]
      exact ih (t + 1) (by omega) rest (fun x hx => hb x (by simp [hx])) (by simpa using hl)

/-- in a stack of copies of a chain the node reached is the number spelled by the factor bits read so far -/
theorem nodeAfter_stack_chain (factors lvs : List ℕ) (S : Diagram V)
    (h : stack factors (List.replicate (2 ^ factors.length) (chain lvs 2)) = .ok S)
    (pre : List ℕ) (hb : ∀ b ∈ pre, b < 2) (hl : pre.length ≤ factors.length + lvs.length) :
    nodeAfter S.levels S.root pre = bitsVal (pre.take factors.length) := by
  have hpos : 2 ^ factors.length = (2 ^ factors.length - 1) + 1 := by
    have : 0 < 2 ^ factors.length := Nat.pow_pos (by omega)
    omega
  have hrep : List.replicate (2 ^ factors.length) (chain lvs 2 : Diagram V) =
      chain lvs 2 :: List.replicate (2 ^ factors.length - 1) (chain lvs 2) := by
    conv_lhs => rw [hpos, List.replicate_succ]
  rw [hrep, stack_eq] at h
  split at h
  · cases h
  split at h
  · cases h
  split at h
  · cases h
  rename_i hk
  simp only [Except.ok.injEq] at h
  subst h
  simp only
  rw [← hrep]
  have hdiam : ((List.replicate (2 ^ factors.length) (chain lvs 2 : Diagram V)).map (·.diameter)).sum = 2 ^ factors.length := by
    simp [chain]
  have hlast : ∀ j c, j < 2 ^ (factors.length - 1) → c < 2 →
      (rootsOf (List.replicate (2 ^ factors.length) (chain lvs 2 : Diagram V))).getD (2 * j + c) 0 = 2 * j + c := by
    intro j c hj hc
    have hlt : 2 * j + c < 2 ^ factors.length := by
      have : 2 ^ factors.length = 2 * 2 ^ (factors.length - 1) := by
        rw [← pow_succ']; congr 1; omega
      omega
    rw [rootsOf_getD _ _ (by simpa using hlt), offsetOf_replicate _ _ _ (by omega)]
    simp [chain]
  have hlv : (chain lvs 2 : Diagram V).levels.length = lvs.length := by simp [chain]
  rw [hlv, List.range_eq_range', List.range_eq_range']
  by_cases hpk : pre.length ≤ factors.length
  · rw [nodeAfter_append_left _ _ _ _ (by simpa using hpk),
      nodeAfter_hdr _ _ _ (by rw [hdiam]) hlast factors.length 0 0 (by omega) (by simp) pre hb hpk,
      List.take_of_length_le hpk]
    rfl
  · have hsplit : pre = pre.take factors.length ++ pre.drop factors.length := (List.take_append_drop _ _).symm
    have htl : (pre.take factors.length).length = factors.length := by simp; omega
    conv_lhs => rw [hsplit]
    rw [nodeAfter_append _ _ _ _ _ (by simpa using htl),
      nodeAfter_hdr _ _ _ (by rw [hdiam]) hlast factors.length 0 0 (by omega) (by simp) _
        (fun b hb' => hb b (List.mem_of_mem_take hb')) (by rw [htl])]
    have hbv : (pre.take factors.length).foldl (fun acc b => 2 * acc + b) 0 = bitsVal (pre.take factors.length) := rfl
    rw [hbv]
    have hlt := bitsVal_lt (pre.take factors.length) (fun b hb' => hb b (List.mem_of_mem_take hb'))
    rw [htl] at hlt
    exact nodeAfter_body_chain _ lvs lvs.length 0 _ (by omega) hlt _ (fun b hb' => hb b (List.mem_of_mem_drop hb'))
      (by simp; omega)

end NodeTrack3

/-! ## 17. rows of a compiled provenance: one component, at most one leaf unit -/
section Rows
variable {V : Type} [AddCommMonoid V]

theorem foldl_bits_inj (bits bits' : List ℕ) (hb : ∀ b ∈ bits, b < 2) (hb' : ∀ b ∈ bits', b < 2)
    (hl : bits.length = bits'.length) (j j' : ℕ)
    (h : bits.foldl (fun acc b => 2 * acc + b) j = bits'.foldl (fun acc b => 2 * acc + b) j') :
    j = j' ∧ bits = bits' := by
  induction bits generalizing bits' j j' with
  | nil =>
    have : bits' = [] := List.length_eq_zero_iff.mp (by simpa using hl.symm)
    subst this; exact ⟨by simpa using h, rfl⟩
  | cons b t ih =>
    cases bits' with
    | nil => simp at hl
    | cons b' t' =>
      simp only [List.foldl_cons] at h
      obtain ⟨h1, h2⟩ := ih t' (fun x hx => hb x (by simp [hx])) (fun x hx => hb' x (by simp [hx]))
        (by simpa using hl) _ _ h
      have hb0 := hb b (by simp)
      have hb0' := hb' b' (by simp)
      have : j = j' ∧ b = b' := by omega
      exact ⟨this.1, by rw [this.2, h2]⟩

theorem bitsVal_inj (bits bits' : List ℕ) (hb : ∀ b ∈ bits, b < 2) (hb' : ∀ b ∈ bits', b < 2)
    (hl : bits.length = bits'.length) (h : bitsVal bits = bitsVal bits') : bits = bits' :=
  (foldl_bits_inj bits bits' hb hb' hl 0 0 h).2

theorem nodeAfter_chain (units : List ℕ) (C : ℕ) (pre : List ℕ) :
    nodeAfter (chain units C : Diagram V).levels (chain units C : Diagram V).root pre = 0 := by
  simp only [chain]
  induction units generalizing pre with
  | nil => cases pre <;> rfl
  | cons u us ih =>
    cases pre with
    | nil => rfl
    | cons a pre =>
      simp only [List.map_cons, nodeAfter]
      have : (nodeAt [(liveZero C : Node V)] 0).ch a = 0 := liveZero_ch C a
      rw [this]; exact ih pre

/-- the greedy leaf set is independent -/
theorem leafUnits_indep (n : ℕ) (pairs : List (ℕ × ℕ)) :
    ∀ x ∈ leafUnits n pairs, ∀ y ∈ leafUnits n pairs, x ≠ y → y ∉ neighborsOf pairs x := by
  unfold leafUnits
  simp only
  generalize (List.range n).mergeSort _ = order
  have key : ∀ (order : List ℕ) (st : List ℕ × List ℕ),
      (∀ x ∈ st.1, ∀ y ∈ st.2, y ∉ neighborsOf pairs x) →
      (∀ x ∈ st.1, ∀ y ∈ st.1, x ≠ y → y ∉ neighborsOf pairs x) →
      ∀ x ∈ (order.foldl (fun (st : List ℕ × List ℕ) u =>
          if st.2.contains u then (st.1 ++ [u], st.2.filter (fun x => !(neighborsOf pairs u).contains x)) else st) st).1,
        ∀ y ∈ (order.foldl (fun (st : List ℕ × List ℕ) u =>
          if st.2.contains u then (st.1 ++ [u], st.2.filter (fun x => !(neighborsOf pairs u).contains x)) else st) st).1,
        x ≠ y → y ∉ neighborsOf pairs x := by
    intro order
    induction order with
    | nil => intro st _ h2; simpa using h2
    | cons u order ih =>
      intro st h1 h2
      rw [List.foldl_cons]
      apply ih
      · split
        · rename_i hu
          have hu' : u ∈ st.2 := by simpa using hu
          intro x hx y hy
          simp only [List.mem_filter] at hy
          rcases List.mem_append.mp hx with hx | hx
          · exact h1 x hx y hy.1
          · simp only [List.mem_singleton] at hx; subst hx
            simpa using hy.2
        · exact h1
      · split
        · rename_i hu
          have hu' : u ∈ st.2 := by simpa using hu
          intro x hx y hy hxy
          rcases List.mem_append.mp hx with hx1 | hx1
          · rcases List.mem_append.mp hy with hy1 | hy1
            · exact h2 x hx1 y hy1 hxy
            · have hyu : y = u := by simpa using hy1
              rw [hyu]
              exact h1 x hx1 u hu'
          · have hxu : x = u := by simpa using hx1
            rcases List.mem_append.mp hy with hy1 | hy1
            · intro hn
              rw [hxu] at hn
              exact h1 y hy1 u hu' (neighborsOf_symm _ _ _ hn)
            · have hyu : y = u := by simpa using hy1
              exact absurd (hxu.trans hyu.symm) hxy
        · exact h2
  exact key order ([], List.range n) (by simp) (by simp)

theorem pairsOf_of_mem (us : List ℕ) (x y : ℕ) (hx : x ∈ us) (hy : y ∈ us) (hxy : x ≠ y) :
    (x, y) ∈ pairsOf us ∨ (y, x) ∈ pairsOf us := by
  induction us with
  | nil => simp at hx
  | cons u rest ih =>
    simp only [pairsOf, List.mem_append, List.mem_map]
    rcases List.mem_cons.mp hx with hxu | hx1
    · rcases List.mem_cons.mp hy with hyu | hy1
      · exact absurd (hxu.trans hyu.symm) hxy
      · exact Or.inl (Or.inl ⟨y, hy1, by rw [hxu]⟩)
    · rcases List.mem_cons.mp hy with hyu | hy1
      · exact Or.inr (Or.inl ⟨x, hx1, by rw [hyu]⟩)
      · rcases ih hx1 hy1 with h | h
        · exact Or.inl (Or.inr h)
        · exact Or.inr (Or.inr h)

/-- two distinct units of a row are neighbours in the co-occurrence graph -/
theorem row_adjacent (p : Prov.P) (r : Prov.Row) (hr : r ∈ p.data) (x y : ℕ) (hx : x ∈ rowUnits r) (hy : y ∈ rowUnits r)
    (hxy : x ≠ y) : y ∈ neighborsOf (pairsOfP p) x := by
  have h := pairsOf_of_mem (dedupSorted (rowUnits r)) x y ((mem_dedupSorted _ _).mpr hx) ((mem_dedupSorted _ _).mpr hy) hxy
  rw [mem_neighborsOf]
  have hmem : ∀ q, q ∈ pairsOf (dedupSorted (rowUnits r)) → q ∈ pairsOfP p := by
    intro q hq
    unfold pairsOfP
    rw [List.mem_eraseDups, List.mem_flatMap]
    exact ⟨r, hr, hq⟩
  rcases h with h | h
  · exact ⟨(x, y), hmem _ h, Or.inl ⟨rfl, rfl⟩⟩
  · exact ⟨(y, x), hmem _ h, Or.inr ⟨fun h' => hxy h'.symm, rfl, rfl⟩⟩

theorem forall₂_split_left {α β : Type} {R : α → β → Prop} {l : List α} {ys : List β} (h : List.Forall₂ R l ys)
    (x : α) (hx : x ∈ l) : ∃ l1 l2 ys1 y ys2, l = l1 ++ x :: l2 ∧ ys = ys1 ++ y :: ys2 ∧ R x y ∧
      List.Forall₂ R l1 ys1 := by
  induction h with
  | nil => simp at hx
  | @cons a b l' ys' hr ht ih =>
    rcases List.mem_cons.mp hx with rfl | hx
    · exact ⟨[], l', [], b, ys', rfl, rfl, hr, .nil⟩
    · obtain ⟨l1, l2, ys1, y, ys2, h1, h2, h3, h4⟩ := ih hx
      exact ⟨a :: l1, l2, b :: ys1, y, ys2, by rw [h1]; rfl, by rw [h2]; rfl, h3, .cons hr h4⟩

/-- the diagram built for one component: units, depth and the node reached by a prefix -/
theorem vertOf_spec (leaves comp : List ℕ) (e : Diagram V) (h : vertOf V 2 leaves comp = .ok e) :
    e.units = comp.filter (fun u => !leaves.contains u) ++ comp.filter (fun u => leaves.contains u) ∧
    ∀ pre, (∀ b ∈ pre, b < 2) → pre.length ≤ e.units.length →
      nodeAfter e.levels e.root pre = bitsVal (pre.take (comp.filter (fun u => !leaves.contains u)).length) := by
  have h0 := h
  unfold vertOf at h
  split at h
  · rename_i hemp
    simp only [pure, Except.pure, Except.ok.injEq] at h
    subst h
    have hnil : comp.filter (fun u => !leaves.contains u) = [] := by simpa using hemp
    rw [hnil]
    refine ⟨by simp [chain], fun pre _ _ => ?_⟩
    rw [nodeAfter_chain]; rfl
  · have hu : e.units = comp.filter (fun u => !leaves.contains u) ++ comp.filter (fun u => leaves.contains u) := by
      have hpos : 2 ^ (comp.filter (fun u => !leaves.contains u)).length =
          (2 ^ (comp.filter (fun u => !leaves.contains u)).length - 1) + 1 := by
        have : 0 < 2 ^ (comp.filter (fun u => !leaves.contains u)).length := Nat.pow_pos (by omega)
        omega
      have h' := h
      rw [hpos, List.replicate_succ, stack_eq] at h'
      split at h'
      · cases h'
      split at h'
      · cases h'
      split at h'
      · cases h'
      simp only [Except.ok.injEq] at h'
      subst h'
      simp [chain]
    refine ⟨hu, fun pre hb hl => ?_⟩
    exact nodeAfter_stack_chain _ _ e h pre hb (by rw [hu] at hl; simpa using hl)

end Rows

/-! ## 18. `LocSpec` for the general `compile` -/
section CompileLocSpec
variable {V : Type} [AddCommMonoid V]

theorem concat_levels (els : List (Diagram V)) (d : Diagram V) (h : concatenate els = .ok d) (e : Diagram V) :
    ∃ diam, d.levels = concatenate.go diam els ∧ d.root = (els.headD e).root := by
  cases els with
  | nil => cases h
  | cons e0 rest =>
    rw [concatenate_eq] at h
    split at h
    · cases h
    split at h
    · cases h
    split at h
    · cases h
    simp only [Except.ok.injEq] at h
    subst h
    exact ⟨_, rfl, rfl⟩

theorem idxOf_inj_of_mem {l : List ℕ} {x y : ℕ} (hx : x ∈ l) (hy : y ∈ l) (h : l.idxOf x = l.idxOf y) : x = y := by
  have h1 : l.idxOf x < l.length := List.idxOf_lt_length_iff.mpr hx
  have h2 : l.idxOf y < l.length := List.idxOf_lt_length_iff.mpr hy
  rw [← List.getElem_idxOf h1, ← List.getElem_idxOf h2]
  simp only [h]

theorem compile_rowDet (p : Prov.P) (cmp : Compiled V) (h : compile p = .ok cmp) (hc : Conjunctive p) (hC : p.nCands = 2)
    (h2 : p.nConj ≠ 1) (r : Prov.Row) (hr : r ∈ p.data) : RowDet cmp.add (rowUnits r) := by
  obtain ⟨vertical, hv, hcat, _⟩ := compile_general' p cmp h h2
  rw [hC] at hv
  have hF := mapM_forall₂ _ _ _ hv
  have hwf : ∀ e ∈ vertical, e.WF := by
    intro e he
    obtain ⟨comp, _, hce⟩ := forall₂_exists_left hF e he
    exact (vertOf_reach _ _ _ hce).inv.1
  obtain ⟨dWF, dUnits, dC, dOK, _⟩ := concat_spec vertical cmp.add hcat hwf
  have hperm := compile_units_perm p cmp h hc hC
  have hnd : cmp.add.units.Nodup := hperm.nodup_iff.mpr List.nodup_range
  have hlen : cmp.add.units.length = p.nUnits := by simpa using hperm.length_eq
  intro ulast hul hmax a ha b hb hnode u hu hne
  have hadj : u ∈ neighborsOf (pairsOfP p) ulast := row_adjacent p r hr ulast u hul hu (Ne.symm hne)
  have hulast_lt : ulast < p.nUnits := (hc.rowLits r hr).2 _ hul
  obtain ⟨_, _, i3, i4⟩ := components_inv (pairsOfP p) p.nUnits (pairs_lt hc) p.nUnits (Nat.le_refl _)
  rw [← components_eq] at i3 i4
  obtain ⟨comp, hcomp, hucomp⟩ := List.mem_flatten.mp (i3 ulast hulast_lt)
  have hu_comp : u ∈ comp := i4 comp hcomp ulast hucomp u hadj
  obtain ⟨cpre, cpost, vpre, e, vpost, hcs, hvs, hve, _⟩ := forall₂_split_left hF comp hcomp
  obtain ⟨heu, henode⟩ := vertOf_spec _ comp e hve
  generalize hleaves : leafUnits p.nUnits (pairsOfP p) = leaves at heu henode hve
  obtain ⟨diam, hlev, hroot⟩ := concat_levels vertical cmp.add hcat e
  have hok : ∀ x ∈ vpre ++ e :: vpost, ConcOK x := by
    intro x hx; rw [← hvs] at hx; exact ⟨hwf x hx, dOK x hx⟩
  have he_mem : e ∈ vertical := by rw [hvs]; simp
  have heWF := hwf e he_mem
  -- positions
  have hdu : cmp.add.units = vpre.flatMap (·.units) ++ (e.units ++ vpost.flatMap (·.units)) := by
    rw [dUnits, hvs, List.flatMap_append, List.flatMap_cons]
  have hidx : ∀ w ∈ e.units, cmp.add.units.idxOf w = (vpre.flatMap (·.units)).length + e.units.idxOf w := by
    intro w hw
    have hnot : w ∉ vpre.flatMap (·.units) := by
      intro hin
      rw [hdu, List.nodup_append] at hnd
      exact hnd.2.2 w hin w (List.mem_append.mpr (Or.inl hw)) rfl
    rw [hdu, List.idxOf_append_of_notMem hnot, List.idxOf_append_of_mem hw]
  have hmem_e : ∀ w ∈ comp, w ∈ e.units := by
    intro w hw
    rw [heu, List.mem_append, List.mem_filter, List.mem_filter]
    by_cases hl : leaves.contains w = true
    · exact Or.inr ⟨hw, hl⟩
    · exact Or.inl ⟨hw, by simpa using hl⟩
  have hul_e := hmem_e ulast hucomp
  have hu_e := hmem_e u hu_comp
  have hℓ : e.units.idxOf ulast < e.units.length := List.idxOf_lt_length_iff.mpr hul_e
  have hℓu : e.units.idxOf u < e.units.idxOf ulast := by
    have h1 := hmax u hu
    rw [hidx u hu_e, hidx ulast hul_e] at h1
    have h2 : e.units.idxOf u ≠ e.units.idxOf ulast := fun he => hne (idxOf_inj_of_mem hu_e hul_e he)
    omega
  -- `u` is not a leaf
  have hu_nl : ¬ (leaves.contains u = true) := by
    intro hul'
    have hul'' : u ∈ leaves := by simpa using hul'
    have hulast_nl : ulast ∉ leaves := by
      intro hl
      rw [← hleaves] at hl hul''
      exact leafUnits_indep _ _ ulast hl u hul'' (Ne.symm hne) hadj
    have h1 : ulast ∈ comp.filter (fun u => !leaves.contains u) := by
      rw [List.mem_filter]; exact ⟨hucomp, by simpa using hulast_nl⟩
    have h2 : u ∉ comp.filter (fun u => !leaves.contains u) := by
      rw [List.mem_filter]; rintro ⟨_, hh⟩; rw [hul'] at hh; exact absurd hh (by decide)
    have h3 : e.units.idxOf ulast < (comp.filter (fun u => !leaves.contains u)).length := by
      rw [heu, List.idxOf_append_of_mem h1]; exact List.idxOf_lt_length_iff.mpr h1
    have h4 : (comp.filter (fun u => !leaves.contains u)).length ≤ e.units.idxOf u := by
      rw [heu, List.idxOf_append_of_notMem h2]; omega
    omega
  have hu_f : u ∈ comp.filter (fun u => !leaves.contains u) := by
    rw [List.mem_filter]; exact ⟨hu_comp, by simpa using hu_nl⟩
  have hℓuk : e.units.idxOf u < (comp.filter (fun u => !leaves.contains u)).length := by
    rw [heu, List.idxOf_append_of_mem hu_f]; exact List.idxOf_lt_length_iff.mpr hu_f
  -- the nodes
  obtain ⟨hal, halt⟩ := (mem_allAssign _ _).mp ha
  obtain ⟨hbl, hblt⟩ := (mem_allAssign _ _).mp hb
  have hoffle : (vpre.flatMap (·.units)).length + e.units.length ≤ cmp.add.units.length := by
    rw [hdu]; simp only [List.length_append]; omega
  have key : ∀ x : List ℕ, x.length = cmp.add.units.length → (∀ y ∈ x, y < 2) →
      nodeAfter cmp.add.levels cmp.add.root (x.take (cmp.add.units.idxOf ulast)) =
        bitsVal (((x.drop (vpre.flatMap (·.units)).length).take (e.units.idxOf ulast)).take
          (comp.filter (fun u => !leaves.contains u)).length) := by
    intro x hxl hxlt
    rw [hidx ulast hul_e, List.take_add, hlev, hroot, hvs,
      nodeAfter_go diam vpre e vpost hok _ _ (by rw [List.length_take]; omega)
        (by rw [heWF.len, List.length_take, List.length_drop]; omega)
        (fun y hy => hxlt y (List.mem_of_mem_take hy))
        (fun y hy => hxlt y (List.mem_of_mem_drop (List.mem_of_mem_take hy)))]
    exact henode _ (fun y hy => hxlt y (List.mem_of_mem_drop (List.mem_of_mem_take hy)))
      (by rw [List.length_take, List.length_drop]; omega)
  rw [key a hal halt, key b hbl hblt] at hnode
  have heq := bitsVal_inj _ _
    (fun y hy => halt y (List.mem_of_mem_drop (List.mem_of_mem_take (List.mem_of_mem_take hy))))
    (fun y hy => hblt y (List.mem_of_mem_drop (List.mem_of_mem_take (List.mem_of_mem_take hy))))
    (by simp [hal, hbl]) hnode
  have hget : ∀ x : List ℕ, x.getD (cmp.add.units.idxOf u) 0 =
      ((((x.drop (vpre.flatMap (·.units)).length).take (e.units.idxOf ulast)).take
          (comp.filter (fun u => !leaves.contains u)).length).getD (e.units.idxOf u) 0) := by
    intro x
    rw [hidx u hu_e, List.getD_eq_getElem?_getD, List.getD_eq_getElem?_getD, List.getElem?_take_of_lt hℓuk,
      List.getElem?_take_of_lt hℓu, List.getElem?_drop]
  rw [hget a, hget b, heq]

end CompileLocSpec

section CompileLocSpec2

/-- C09d: the locations computed by `compile` satisfy `LocSpec` (when `nConj = 1` the rows must really have one
unit each, `OneUnit`) -/
theorem compile_locSpec {D : Dom} (p : Prov.P) (cmp : Compiled (AVal D)) (h : compile p = .ok cmp) (hc : Conjunctive p)
    (hC : p.nCands = 2) (hshape : p.nConj = 1 → OneUnit p) : LocSpec p cmp := by
  by_cases h2 : p.nConj = 1
  · rw [compile_chain p (compile_nDisj p cmp h) h2] at h
    simp only [Except.ok.injEq] at h
    subst h
    exact (chain_baseOK p hc (hshape h2) hC).loc
  · obtain ⟨_, _, _, hlocs⟩ := compile_general' p cmp h h2
    obtain ⟨hll, hget⟩ := mapM_ok _ _ _ hlocs
    obtain ⟨hR, hC2, _, _⟩ := compile_reach p cmp h hC
    have hperm := compile_units_perm p cmp h hc hC
    have hnd : cmp.add.units.Nodup := hperm.nodup_iff.mpr List.nodup_range
    have hrow : ∀ i (hi : i < p.data.length) (hi' : i < cmp.locs.length),
        (cmp.locs[i]).Nodup ∧
        (∀ e ∈ cmp.locs[i], e.1 < cmp.add.levels.length ∧ e.2.1 < (cmp.add.levels.getD e.1 []).length ∧ e.2.2 < cmp.add.C) ∧
        ∀ args ∈ allAssign cmp.add.units.length,
          ((pathEdges cmp.add.levels cmp.add.root args 0).filter (fun e => (cmp.locs[i]).contains e)).length =
            if (rowLits p.data[i]).all (fun uv => args.getD (cmp.add.units.idxOf uv.1) 0 == uv.2) then 1 else 0 := by
      intro i hi hi'
      have hmem : p.data[i] ∈ p.data := List.getElem_mem hi
      obtain ⟨hl1, hl2⟩ := hc.rowLits _ hmem
      have hg := hget i hi hi'
      rw [hl1] at hg ⊢
      exact locSpec_row cmp.add hC2 hR.inv.1 hnd (rowUnits p.data[i])
        (fun u hu => by rw [hperm.mem_iff]; simpa using hl2 u hu) (hc.2 _ hmem).2
        (compile_rowDet p cmp h hc hC h2 _ hmem) _ hg
    refine ⟨fun loc hloc => ?_, fun loc hloc => ?_, fun args hargs r hr => ?_⟩
    · obtain ⟨i, hi, rfl⟩ := List.mem_iff_getElem.mp hloc
      exact (hrow i (by omega) hi).1
    · obtain ⟨i, hi, rfl⟩ := List.mem_iff_getElem.mp hloc
      exact (hrow i (by omega) hi).2.1
    · have := (hrow r hr (by omega)).2.2 args hargs
      rw [List.getD_eq_getElem _ _ (by omega : r < cmp.locs.length), List.getD_eq_getElem _ _ hr]
      exact this

end CompileLocSpec2

end Ds.Oracle
