import Ds.Oracle
import DsProofs.AddProofs
import DsProofs.AValProofs
import DsProofs.Properties.C10
import Mathlib.Data.List.Perm.Basic
import Mathlib.Data.List.Count
import Mathlib.Data.List.GetD

/-!
# OracleProofs — helper lemmas for property C09 (the Shapley oracle counts coalitions exactly)

Sections: (1) path semantics of diagrams (`pathEdges`), (2) effect of `update` on path values,
(3) the tally domain (sums of one-hot tallies), (4) `addOnCandidate`, (5) bridging argument tuples in
diagram order with assignments in unit order, (6) unfolding `build` / `query`, (7) `compile`.
-/
set_option linter.unusedSectionVars false
set_option linter.unusedSimpArgs false
set_option linter.unusedVariables false
namespace Ds.Oracle
open Ds.Dd

/-! ## 1. paths -/
section Paths
variable {V : Type} [AddCommMonoid V]

theorem ch_of_shape {a b : Node V} (h : NodeShape a b) (c : ℕ) : a.ch c = b.ch c := by
  unfold Node.ch; rw [h.2.1]

/-- the path only depends on the graph -/
theorem pathEdges_shape {L L' : List (Level V)} (h : SameShape L L') (j : ℕ) (as : List ℕ) (i : ℕ) :
    pathEdges L j as i = pathEdges L' j as i := by
  induction h generalizing j as i with
  | nil => cases as <;> rfl
  | @cons la lb _ _ h _ ih =>
    cases as with
    | nil => rfl
    | cons a as =>
      simp only [pathEdges]
      rw [ch_of_shape (nodeShape_nodeAt h j) a, ih]

/-- value of a path = sum of the values of its edges -/
theorem evalFrom_eq_pathSum (L : List (Level V)) (g : ℕ × ℕ × ℕ → V) (i : ℕ)
    (hg : ∀ k j c, edge L k j c = g (i + k, j, c)) (j : ℕ) (as : List ℕ) :
    evalFrom L j as = ((pathEdges L j as i).map g).sum := by
  induction L generalizing i j as with
  | nil => cases as <;> simp [evalFrom, pathEdges]
  | cons lv rest ih =>
    cases as with
    | nil => simp [evalFrom, pathEdges]
    | cons a as =>
      simp only [evalFrom, pathEdges, List.map_cons, List.sum_cons]
      have h0 := hg 0 j a
      simp only [edge, List.getD_cons_zero, Nat.add_zero] at h0
      rw [h0, ih (i + 1) (fun k j c => by
        have := hg (k + 1) j c
        simp only [edge, List.getD_cons_succ] at this
        rw [show i + 1 + k = i + (k + 1) by omega]; exact this)]

/-- the value of edge `e` -/
def edgeOf (L : List (Level V)) (e : ℕ × ℕ × ℕ) : V := edge L e.1 e.2.1 e.2.2

theorem evalFrom_eq_pathSum' (L : List (Level V)) (j : ℕ) (as : List ℕ) :
    evalFrom L j as = ((pathEdges L j as 0).map (edgeOf L)).sum :=
  evalFrom_eq_pathSum L (edgeOf L) 0 (fun k j c => by simp [edgeOf]) j as

/-- every edge of a path of a well-formed diagram leaves an active node, at the level and with the value
given by the argument tuple -/
theorem mem_pathEdges {C : ℕ} {L : List (Level V)} {j : ℕ} {as : List ℕ} {i : ℕ} {e : ℕ × ℕ × ℕ}
    (he : e ∈ pathEdges L j as i) (hw : wf C L j) (hC : ∀ a ∈ as, a < C) :
    ∃ k, e.1 = i + k ∧ k < L.length ∧ as[k]? = some e.2.2 ∧ (nodeAt (L.getD k []) e.2.1).active = true := by
  induction L generalizing i j as with
  | nil => cases as <;> simp [pathEdges] at he
  | cons lv rest ih =>
    cases as with
    | nil => simp [pathEdges] at he
    | cons a as =>
      simp only [pathEdges, List.mem_cons] at he
      rcases he with rfl | he
      · exact ⟨0, rfl, by simp, by simp, by simpa using hw.1⟩
      · obtain ⟨k, h1, h2, h3, h4⟩ := ih he (hw.2 a (hC a (by simp))) (fun x hx => hC x (by simp [hx]))
        exact ⟨k + 1, by omega, by simp; omega, by simpa using h3, by simpa using h4⟩

/-- the path has an edge at every level -/
theorem exists_pathEdge (L : List (Level V)) (j : ℕ) (as : List ℕ) (i k : ℕ) (hk : k < L.length)
    (hk' : k < as.length) : ∃ jk, (i + k, jk, as.getD k 0) ∈ pathEdges L j as i := by
  induction L generalizing i j as k with
  | nil => simp at hk
  | cons lv rest ih =>
    cases as with
    | nil => simp at hk'
    | cons a as =>
      cases k with
      | zero => exact ⟨j, by simp [pathEdges]⟩
      | succ k =>
        obtain ⟨jk, h⟩ := ih ((nodeAt lv j).ch a) as (i + 1) k (by simpa using hk) (by simpa using hk')
        refine ⟨jk, ?_⟩
        simp only [pathEdges, List.mem_cons, List.getD_cons_succ]
        right
        rw [show i + (k + 1) = i + 1 + k by omega]; exact h

end Paths

/-! ## 2. `update` along paths -/
section Updates
variable {V : Type} [AddCommMonoid V]

theorem sum_map_ite_mem (P loc : List (ℕ × ℕ × ℕ)) (v : V) :
    (P.map (fun e => if e ∈ loc then v else 0)).sum = (P.countP (fun e => decide (e ∈ loc))) • v := by
  induction P with
  | nil => simp
  | cons e P ih =>
    simp only [List.map_cons, List.sum_cons, ih, List.countP_cons]
    by_cases h : e ∈ loc
    · simp [h, add_nsmul, one_nsmul, add_comm]
    · simp [h]

/-- `update(loc, v, increment=True)`: the value of a path grows by `v` for every edge of `loc` it crosses -/
theorem eval_update_inc (d : Diagram V) (loc : List (ℕ × ℕ × ℕ)) (v : V) (hnd : loc.Nodup)
    (hr : ∀ e ∈ loc, inRange d.levels e) (as : List ℕ) :
    (d.update loc v true).eval as =
      d.eval as + ((pathEdges d.levels d.root as 0).countP (fun e => decide (e ∈ loc))) • v := by
  have hs := foldl_upd1_shape v true loc d.levels
  show evalFrom (loc.foldl (upd1 v true) d.levels) d.root as = evalFrom d.levels d.root as + _
  rw [evalFrom_eq_pathSum', ← pathEdges_shape hs, evalFrom_eq_pathSum' d.levels, ← sum_map_ite_mem,
    ← List.sum_map_add]
  congr 1
  apply List.map_congr_left
  intro e _
  have := edge_foldl_upd1 v true loc d.levels hnd hr e.1 e.2.1 e.2.2
  simp only [edgeOf, this]
  by_cases h : e ∈ loc
  · simp [h]
  · simp [h]

/-- `update(loc, v, increment=False)` -/
theorem eval_update_set (d : Diagram V) (loc : List (ℕ × ℕ × ℕ)) (v : V) (hnd : loc.Nodup)
    (hr : ∀ e ∈ loc, inRange d.levels e) (as : List ℕ) :
    (d.update loc v false).eval as =
      ((pathEdges d.levels d.root as 0).map (fun e => if e ∈ loc then v else edgeOf d.levels e)).sum := by
  have hs := foldl_upd1_shape v false loc d.levels
  show evalFrom (loc.foldl (upd1 v false) d.levels) d.root as = _
  rw [evalFrom_eq_pathSum', ← pathEdges_shape hs]
  congr 1
  apply List.map_congr_left
  intro e _
  have := edge_foldl_upd1 v false loc d.levels hnd hr e.1 e.2.1 e.2.2
  simp only [edgeOf, this]
  simp

/-- same graph, root, units, candidates -/
def Sim (d0 d : Diagram V) : Prop :=
  SameShape d0.levels d.levels ∧ d.root = d0.root ∧ d.units = d0.units ∧ d.C = d0.C

theorem Sim.refl (d : Diagram V) : Sim d d := ⟨SameShape.refl _, rfl, rfl, rfl⟩

theorem Sim.update {d0 d : Diagram V} (h : Sim d0 d) (loc : List (ℕ × ℕ × ℕ)) (v : V) (inc : Bool) :
    Sim d0 (d.update loc v inc) :=
  ⟨h.1.trans (foldl_upd1_shape v inc loc d.levels), h.2.1, h.2.2.1, h.2.2.2⟩

theorem Sim.wf {d0 d : Diagram V} (h : Sim d0 d) (hw : d0.WF) : d.WF :=
  ⟨h.1.length.symm.trans (hw.len.trans (congrArg List.length h.2.2.1.symm)), by rw [h.2.2.2, h.2.1]; exact h.1.wf _ _ hw.reach⟩

theorem Sim.path {d0 d : Diagram V} (h : Sim d0 d) (as : List ℕ) :
    pathEdges d.levels d.root as 0 = pathEdges d0.levels d0.root as 0 := by
  rw [h.2.1, ← pathEdges_shape h.1]

/-- a sequence of increments: every row `tt` contributes `val tt` once per crossed edge of `locs tt` -/
theorem eval_foldl_inc (d0 : Diagram V) (locs : ℕ → List (ℕ × ℕ × ℕ)) (val : ℕ → V) (rows : List ℕ)
    (hnd : ∀ tt ∈ rows, (locs tt).Nodup) (hr : ∀ tt ∈ rows, ∀ e ∈ locs tt, inRange d0.levels e)
    (d : Diagram V) (hs : Sim d0 d) (as : List ℕ) :
    Sim d0 (rows.foldl (fun d tt => d.update (locs tt) (val tt) true) d) ∧
    (rows.foldl (fun d tt => d.update (locs tt) (val tt) true) d).eval as =
      d.eval as + (rows.map (fun tt =>
        ((pathEdges d0.levels d0.root as 0).countP (fun e => decide (e ∈ locs tt))) • val tt)).sum := by
  induction rows generalizing d with
  | nil => simp [hs]
  | cons tt rows ih =>
    have hs' := hs.update (locs tt) (val tt) true
    obtain ⟨h1, h2⟩ := ih (fun x hx => hnd x (by simp [hx])) (fun x hx => hr x (by simp [hx])) _ hs'
    refine ⟨h1, ?_⟩
    rw [List.foldl_cons, h2, eval_update_inc d (locs tt) (val tt) (hnd tt (by simp))
      (fun e he => hs.1.inRange e (hr tt (by simp) e he)), hs.path]
    simp only [List.map_cons, List.sum_cons, add_assoc]

end Updates

/-! ### setting edges to the invalid value -/
section NoneEdges
variable {D : Dom}

theorem aval_none_add (x : AVal D) : (none : AVal D) + x = none := AVal.none_add x
theorem aval_add_none (x : AVal D) : x + (none : AVal D) = none := AVal.add_none x

theorem aval_sum_none {l : List (AVal D)} (h : none ∈ l) : l.sum = none := by
  induction l with
  | nil => simp at h
  | cons x l ih =>
    rw [List.sum_cons]
    rcases List.mem_cons.mp h with rfl | h
    · exact aval_none_add _
    · rw [ih h]; exact aval_add_none _

theorem eval_update_none (d : Diagram (AVal D)) (loc : List (ℕ × ℕ × ℕ)) (hnd : loc.Nodup)
    (hr : ∀ e ∈ loc, inRange d.levels e) (as : List ℕ) :
    (d.update loc none false).eval as =
      if ∃ e ∈ pathEdges d.levels d.root as 0, e ∈ loc then none else d.eval as := by
  rw [eval_update_set d loc none hnd hr]
  by_cases h : ∃ e ∈ pathEdges d.levels d.root as 0, e ∈ loc
  · rw [if_pos h]
    obtain ⟨e, he, hl⟩ := h
    apply aval_sum_none
    rw [List.mem_map]
    exact ⟨e, he, by simp [hl]⟩
  · rw [if_neg h]
    show _ = evalFrom d.levels d.root as
    rw [evalFrom_eq_pathSum']
    congr 1
    apply List.map_congr_left
    intro e he
    rw [if_neg (fun hl => h ⟨e, he, hl⟩)]

theorem eval_foldl_none (d0 : Diagram (AVal D)) (locs : List (List (ℕ × ℕ × ℕ)))
    (hnd : ∀ loc ∈ locs, loc.Nodup) (hr : ∀ loc ∈ locs, ∀ e ∈ loc, inRange d0.levels e)
    (d : Diagram (AVal D)) (hs : Sim d0 d) (as : List ℕ) :
    Sim d0 (locs.foldl (fun d loc => d.update loc none false) d) ∧
    (locs.foldl (fun d loc => d.update loc none false) d).eval as =
      if ∃ loc ∈ locs, ∃ e ∈ pathEdges d0.levels d0.root as 0, e ∈ loc then none else d.eval as := by
  induction locs generalizing d with
  | nil => simp [hs]
  | cons loc locs ih =>
    have hs' := hs.update loc none false
    obtain ⟨h1, h2⟩ := ih (fun x hx => hnd x (by simp [hx])) (fun x hx => hr x (by simp [hx])) _ hs'
    refine ⟨h1, ?_⟩
    rw [List.foldl_cons, h2, eval_update_none d loc (hnd loc (by simp))
      (fun e he => hs.1.inRange e (hr loc (by simp) e he)), hs.path]
    by_cases ha : ∃ e ∈ pathEdges d0.levels d0.root as 0, e ∈ loc
    · have hc : ∃ l ∈ loc :: locs, ∃ e ∈ pathEdges d0.levels d0.root as 0, e ∈ l := ⟨loc, by simp, ha⟩
      rw [if_pos ha, if_pos hc]; split <;> rfl
    · by_cases hb : ∃ loc ∈ locs, ∃ e ∈ pathEdges d0.levels d0.root as 0, e ∈ loc
      · have hc : ∃ l ∈ loc :: locs, ∃ e ∈ pathEdges d0.levels d0.root as 0, e ∈ l := by
          obtain ⟨l, hl, h⟩ := hb; exact ⟨l, by simp [hl], h⟩
        rw [if_pos hb, if_pos hc]
      · rw [if_neg hb, if_neg ha, if_neg]
        rintro ⟨l, hl, h⟩
        rcases List.mem_cons.mp hl with rfl | hl
        · exact ha h
        · exact hb ⟨l, hl, h⟩

end NoneEdges

/-! ## 3. the tally domain -/
section Tally

/-- the vector `t :: (f 0 … f (c-1)) ++ (g 0 … g (c-1))` -/
def tvf (c t : ℕ) (f g : ℕ → ℕ) : List ℕ := t :: ((List.range c).map f ++ (List.range c).map g)

theorem tvf_length (c t : ℕ) (f g : ℕ → ℕ) : (tvf c t f g).length = 1 + 2 * c := by
  simp [tvf]; omega

theorem tvf_add (c t t' : ℕ) (f g f' g' : ℕ → ℕ) :
    List.zipWith (· + ·) (tvf c t f g) (tvf c t' f' g') =
      tvf c (t + t') (fun k => f k + f' k) (fun k => g k + g' k) := by
  simp only [tvf, List.zipWith_cons_cons]
  rw [List.zipWith_append (by simp)]
  simp [List.zipWith_map, List.zipWith_self]

theorem tvf_zero (N K c : ℕ) : (Dom.tally N K c).zeroVec = tvf c 0 (fun _ => 0) (fun _ => 0) := by
  simp only [Dom.zeroVec, Dom.dim, tvf]
  rw [show 1 + 2 * c = (c + c) + 1 by omega, List.replicate_succ, List.replicate_add]
  simp

theorem clip_add_clip {D : Dom} (x y : List ℕ) (hx : x.length = D.dim) (hy : y.length = D.dim) :
    (AVal.clip D x + AVal.clip D y : AVal D) = AVal.clip D (List.zipWith (· + ·) x y) := by
  by_cases h1 : D.ok x = true
  · by_cases h2 : D.ok y = true
    · rw [AVal.clip_ok h1, AVal.clip_ok h2]; rfl
    · rw [AVal.clip_not_ok h2, aval_add_none, AVal.clip_not_ok]
      intro h; exact h2 (Dom.ok_down h (VLe_vadd_right (hx.trans hy.symm)))
  · rw [AVal.clip_not_ok h1, aval_none_add, AVal.clip_not_ok]
    intro h; exact h1 (Dom.ok_down h (VLe_vadd_left (hx.trans hy.symm)))

theorem aval_zero_eq (D : Dom) : (0 : AVal D) = AVal.clip D D.zeroVec := rfl

/-- a sum of clipped tally vectors is the clipped component-wise sum (the domain is downward closed) -/
theorem sum_clip_tvf {α : Type} (N K c : ℕ) (l : List α) (t : α → ℕ) (f g : α → ℕ → ℕ) :
    (l.map (fun x => AVal.clip (Dom.tally N K c) (tvf c (t x) (f x) (g x)))).sum =
      AVal.clip (Dom.tally N K c) (tvf c (l.map t).sum (fun k => (l.map (f · k)).sum) (fun k => (l.map (g · k)).sum)) := by
  induction l with
  | nil => simp only [List.map_nil, List.sum_nil]; rw [aval_zero_eq, tvf_zero]
  | cons x l ih =>
    simp only [List.map_cons, List.sum_cons, ih]
    rw [clip_add_clip _ _ (tvf_length ..) (tvf_length ..), tvf_add]

theorem tallyVal_with (N K c label : ℕ) :
    tallyVal (Dom.tally N K c) 0 (onehot c label) (List.replicate c 0) =
      AVal.clip (Dom.tally N K c) (tvf c 0 (fun k => if k = label then 1 else 0) (fun _ => 0)) := by
  simp [tallyVal, onehot, tvf]

theorem tallyVal_without (N K c label : ℕ) :
    tallyVal (Dom.tally N K c) 0 (List.replicate c 0) (onehot c label) =
      AVal.clip (Dom.tally N K c) (tvf c 0 (fun _ => 0) (fun k => if k = label then 1 else 0)) := by
  simp [tallyVal, onehot, tvf]

theorem tallyVal_one (N K c : ℕ) :
    tallyVal (Dom.tally N K c) 1 (List.replicate c 0) (List.replicate c 0) =
      AVal.clip (Dom.tally N K c) (tvf c 1 (fun _ => 0) (fun _ => 0)) := by
  simp [tallyVal, tvf]

theorem clip_eq_clip_iff {D : Dom} (x y : List ℕ) (hy : D.ok y = true) :
    AVal.clip D x = AVal.clip D y ↔ x = y := by
  rw [AVal.clip_ok hy, AVal.clip_eq_some_iff]
  exact ⟨fun h => h.symm, fun h => h.symm⟩

theorem tvf_eq_iff (c t : ℕ) (f g : ℕ → ℕ) (v : List ℕ) (hv : v.length = 1 + 2 * c) :
    tvf c t f g = v ↔
      t = v.headD 0 ∧ (List.range c).map f = (v.drop 1).take c ∧ (List.range c).map g = (v.drop (1 + c)).take c := by
  cases v with
  | nil => simp at hv; omega
  | cons a rest =>
    have hr : rest.length = c + c := by simp at hv; omega
    simp only [tvf, List.cons.injEq, List.headD_cons, List.drop_succ_cons, List.drop_zero,
      show 1 + c = c + 1 by omega]
    constructor
    · rintro ⟨rfl, h⟩
      subst h
      simp
    · rintro ⟨rfl, h1, h2⟩
      refine ⟨rfl, ?_⟩
      rw [h1, h2, List.take_of_length_le (l := List.drop c rest) (by simp; omega), List.take_append_drop]

theorem sum_map_ite_filter {α M : Type} [AddCommMonoid M] (l : List α) (P : α → Bool) (v : α → M) :
    (l.map (fun x => if P x then v x else 0)).sum = ((l.filter P).map v).sum := by
  induction l with
  | nil => simp
  | cons x l ih =>
    by_cases h : P x <;> simp [h, ih, List.filter_cons]

theorem sum_map_ite_eq_length {α : Type} (l : List α) (P : α → Bool) :
    (l.map (fun x => if P x then 1 else 0)).sum = (l.filter P).length := by
  induction l with
  | nil => simp
  | cons x l ih =>
    by_cases h : P x <;> simp [h, ih, List.filter_cons]; omega

end Tally

/-! ## 4. `addOnCandidate`, adder widths -/
section AddOn
variable {V : Type} [AddCommMonoid V]

/-- every node stores `C` edge values -/
def AdRect (C : ℕ) (L : List (Level V)) : Prop := ∀ lv ∈ L, ∀ nd ∈ lv, nd.adder.length = C

def addOnNode (c : ℕ) (v : V) (nd : Node V) : Node V := { nd with adder := nd.adder.modify c (· + v) }

theorem addOnCandidate_eq (d : Diagram V) (c : ℕ) (v : V) :
    d.addOnCandidate c v = { d with levels := d.levels.map (fun lv => lv.map (addOnNode c v)) } := rfl

theorem addOn_shape (L : List (Level V)) (c : ℕ) (v : V) :
    SameShape L (L.map (fun lv => lv.map (addOnNode c v))) := by
  unfold SameShape
  rw [List.forall₂_map_right_iff]
  apply forall₂_refl'
  intro lv
  rw [List.forall₂_map_right_iff]
  apply forall₂_refl'
  intro nd
  exact ⟨rfl, rfl, by simp [addOnNode]⟩

theorem eval_addOn (L : List (Level V)) (v : V) (j : ℕ) (as : List ℕ) (hw : wf 2 L j) (ha : AdRect 2 L)
    (hC : ∀ a ∈ as, a < 2) (hl : as.length ≤ L.length) :
    evalFrom (L.map (fun lv => lv.map (addOnNode 1 v))) j as =
      evalFrom L j as + (as.map (fun a => if a = 1 then v else 0)).sum := by
  induction L generalizing j as with
  | nil => cases as with
    | nil => simp [evalFrom]
    | cons a as => simp at hl
  | cons lv rest ih =>
    cases as with
    | nil => simp [evalFrom]
    | cons a as =>
      simp only [List.map_cons, evalFrom, List.sum_cons]
      rw [nodeAt_map _ (by simp [addOnNode])]
      have hj : j < lv.length := nodeAt_lt_of_active hw.1
      have hnd : (nodeAt lv j).adder.length = 2 := by
        rw [nodeAt_eq_getElem hj]; exact ha lv (by simp) _ (List.getElem_mem hj)
      have hch : (addOnNode 1 v (nodeAt lv j)).ch a = (nodeAt lv j).ch a := rfl
      have had : (addOnNode 1 v (nodeAt lv j)).ad a = (nodeAt lv j).ad a + (if a = 1 then v else 0) := by
        simp only [addOnNode, Node.ad, getD_modify, hnd]
        by_cases h1 : a = 1
        · subst h1; simp
        · have : ¬ (1 = a) := fun h => h1 h.symm
          simp [h1, this]
      rw [hch, had, ih _ as (hw.2 a (hC a (by simp))) (fun lv' h => ha lv' (by simp [h]))
        (fun x hx => hC x (by simp [hx])) (by simpa using hl)]
      exact add_add_add_comm _ _ _ _

/-- `addOnCandidate 1 v` adds `v` once per argument equal to 1 -/
theorem addOnCandidate_spec (d : Diagram V) (v : V) (hw : d.WF) (hC : d.C = 2) (ha : AdRect 2 d.levels) :
    (d.addOnCandidate 1 v).WF ∧ (d.addOnCandidate 1 v).C = 2 ∧ (d.addOnCandidate 1 v).units = d.units ∧
    ∀ as, as.length = d.units.length → (∀ a ∈ as, a < 2) →
      (d.addOnCandidate 1 v).eval as = d.eval as + (as.map (fun a => if a = 1 then v else 0)).sum := by
  rw [addOnCandidate_eq]
  have hs := addOn_shape d.levels 1 v
  refine ⟨⟨hs.length.symm.trans hw.len, hs.wf _ _ hw.reach⟩, hC, rfl, fun as hl hlt => ?_⟩
  exact eval_addOn d.levels v d.root as (hC ▸ hw.reach) ha hlt (by rw [hw.len, hl])

theorem sumLevel_adRect (C : ℕ) (la lb : Level V) (tbl pairs : List Pair) :
    ∀ nd ∈ (sumLevel C la lb tbl pairs).2, nd.adder.length = C := by
  induction pairs generalizing tbl with
  | nil => simp [sumLevel]
  | cons p ps ih =>
    intro nd hnd
    simp only [sumLevel, List.mem_cons] at hnd
    rcases hnd with rfl | hnd
    · simp
    · exact ih _ nd hnd

theorem sumLevels_adRect (C : ℕ) (LA LB : List (Level V)) (pairs : List Pair) :
    AdRect C (sumLevels C LA LB pairs) := by
  induction LA generalizing LB pairs with
  | nil => intro lv h; simp [sumLevels] at h
  | cons la ra ih =>
    cases LB with
    | nil => intro lv h; simp [sumLevels] at h
    | cons lb rb =>
      intro lv h
      simp only [sumLevels, List.mem_cons] at h
      rcases h with rfl | h
      · exact sumLevel_adRect C la lb [] pairs
      · exact ih rb _ lv h

theorem blank_adder (C : ℕ) : (blank C : Node V).adder.length = C := by simp [blank]

/-- the result of `sum` stores `C` values per node -/
theorem sum_adRect (a b s : Diagram V) (h : a.sum b = .ok s) : AdRect a.C s.levels := by
  rw [sum_eq] at h
  split at h
  · cases h
  · simp only [Except.ok.injEq] at h
    subst h
    intro lv hlv nd hnd
    simp only [List.mem_map] at hlv
    obtain ⟨lv0, h0, rfl⟩ := hlv
    simp only [padLevel, List.mem_append, List.mem_replicate] at hnd
    rcases hnd with hnd | ⟨_, rfl⟩
    · exact sumLevels_adRect _ _ _ _ lv0 h0 nd hnd
    · exact blank_adder _

end AddOn

/-! ## 5. argument tuples (diagram order) and assignments (unit order) -/
section Bridge

theorem allArgs_two (n : ℕ) : allArgs 2 n = allAssign n := by
  induction n with
  | zero => rfl
  | succ n ih => simp only [allArgs, allAssign, ih]; rfl

theorem allAssign_succ (n : ℕ) :
    allAssign (n + 1) = (allAssign n).map (0 :: ·) ++ (allAssign n).map (1 :: ·) := by
  simp [allAssign]

theorem mem_allAssign (n : ℕ) (a : List ℕ) : a ∈ allAssign n ↔ a.length = n ∧ ∀ x ∈ a, x < 2 := by
  induction n generalizing a with
  | zero =>
    simp only [allAssign, List.mem_singleton, List.length_eq_zero_iff]
    constructor
    · rintro rfl; simp
    · exact fun h => h.1
  | succ n ih =>
    rw [allAssign_succ]
    simp only [List.mem_append, List.mem_map]
    constructor
    · rintro (⟨b, hb, rfl⟩ | ⟨b, hb, rfl⟩) <;>
      · obtain ⟨h1, h2⟩ := (ih b).mp hb
        refine ⟨by simp [h1], fun x hx => ?_⟩
        rcases List.mem_cons.mp hx with rfl | hx
        · omega
        · exact h2 x hx
    · rintro ⟨h1, h2⟩
      cases a with
      | nil => simp at h1
      | cons x b =>
        have hb : b ∈ allAssign n := (ih b).mpr ⟨by simpa using h1, fun y hy => h2 y (by simp [hy])⟩
        have hx := h2 x (by simp)
        have : x = 0 ∨ x = 1 := by omega
        rcases this with rfl | rfl
        · exact Or.inl ⟨b, hb, rfl⟩
        · exact Or.inr ⟨b, hb, rfl⟩

theorem nodup_allAssign (n : ℕ) : (allAssign n).Nodup := by
  induction n with
  | zero => simp [allAssign]
  | succ n ih =>
    rw [allAssign_succ, List.nodup_append]
    refine ⟨ih.map (fun _ _ h => by simpa using h), ih.map (fun _ _ h => by simpa using h), ?_⟩
    intro a ha b hb
    simp only [List.mem_map] at ha hb
    obtain ⟨_, _, rfl⟩ := ha
    obtain ⟨_, _, rfl⟩ := hb
    simp

/-- the argument tuple (diagram order `us`) of the assignment `a` (unit order) -/
def reorder (us : List ℕ) (a : List ℕ) : List ℕ := us.map (fun u => a.getD u 0)

theorem getD_lt_two {a : List ℕ} (h : ∀ x ∈ a, x < 2) (u : ℕ) : a.getD u 0 < 2 := by
  by_cases hu : u < a.length
  · rw [List.getD_eq_getElem _ _ hu]; exact h _ (List.getElem_mem hu)
  · rw [List.getD_eq_default _ _ (Nat.le_of_not_lt hu)]; omega

theorem reorder_mem (us : List ℕ) (n : ℕ) (hl : us.length = n) (a : List ℕ) (ha : a ∈ allAssign n) :
    reorder us a ∈ allAssign n := by
  rw [mem_allAssign] at ha ⊢
  refine ⟨by simp [reorder, hl], fun x hx => ?_⟩
  simp only [reorder, List.mem_map] at hx
  obtain ⟨u, _, rfl⟩ := hx
  exact getD_lt_two ha.2 u

theorem reorder_getD (us : List ℕ) (a : List ℕ) (u : ℕ) (hu : u ∈ us) :
    (reorder us a).getD (us.idxOf u) 0 = a.getD u 0 := by
  have hi : us.idxOf u < us.length := List.idxOf_lt_length_iff.mpr hu
  rw [List.getD_eq_getElem _ _ (by simpa [reorder] using hi)]
  simp [reorder]

theorem perm_reorder (us : List ℕ) (n : ℕ) (hp : us.Perm (List.range n)) :
    ((allAssign n).map (reorder us)).Perm (allAssign n) := by
  have hl : us.length = n := by simpa using hp.length_eq
  have hnd : us.Nodup := hp.nodup_iff.mpr List.nodup_range
  have hmem : ∀ u, u ∈ us ↔ u < n := fun u => by rw [hp.mem_iff]; simp
  rw [List.perm_ext_iff_of_nodup ?_ (nodup_allAssign n)]
  · intro x
    constructor
    · intro hx
      obtain ⟨a, ha, rfl⟩ := List.mem_map.mp hx
      exact reorder_mem us n hl a ha
    · intro hx
      rw [List.mem_map]
      have hx' := (mem_allAssign n x).mp hx
      refine ⟨(List.range n).map (fun u => x.getD (us.idxOf u) 0), ?_, ?_⟩
      · rw [mem_allAssign]
        refine ⟨by simp, fun y hy => ?_⟩
        obtain ⟨u, _, rfl⟩ := List.mem_map.mp hy
        exact getD_lt_two hx'.2 _
      · apply List.ext_getElem
        · simp [reorder, hl, hx'.1]
        · intro i h1 h2
          have hi : i < us.length := by simpa [reorder] using h1
          have hu : us[i] < n := (hmem _).mp (List.getElem_mem hi)
          simp only [reorder, List.getElem_map]
          rw [List.getD_eq_getElem _ _ (by simpa using hu)]
          simp only [List.getElem_map, List.getElem_range]
          rw [hnd.idxOf_getElem, List.getD_eq_getElem _ _ h2]
  · apply List.Nodup.map_on _ (nodup_allAssign n)
    intro a ha b hb hab
    rw [mem_allAssign] at ha hb
    simp only [reorder, List.map_inj_left] at hab
    apply List.ext_getElem (ha.1.trans hb.1.symm)
    intro i h1 h2
    have := hab i ((hmem i).mpr (ha.1 ▸ h1))
    rwa [List.getD_eq_getElem _ _ h1, List.getD_eq_getElem _ _ h2] at this

theorem countP_reorder (us : List ℕ) (n : ℕ) (hp : us.Perm (List.range n)) (H : List ℕ → Bool) :
    (allAssign n).countP H = (allAssign n).countP (fun a => H (reorder us a)) := by
  rw [← (perm_reorder us n hp).countP_eq, List.countP_map]; rfl

theorem reorder_perm (us : List ℕ) (n : ℕ) (hp : us.Perm (List.range n)) (a : List ℕ) (ha : a.length = n) :
    (reorder us a).Perm a := by
  have h1 : (reorder us a).Perm ((List.range n).map (fun u => a.getD u 0)) := hp.map _
  have h2 : (List.range n).map (fun u => a.getD u 0) = a := by
    apply List.ext_getElem (by simp [ha])
    intro i h1 h2
    simp only [List.getElem_map, List.getElem_range]
    exact List.getD_eq_getElem _ _ h2
  rw [h2] at h1; exact h1

theorem reorder_set (us : List ℕ) (n : ℕ) (hp : us.Perm (List.range n)) (a : List ℕ) (ha : a.length = n)
    (target : ℕ) (ht : target < n) :
    (reorder us a).set (us.idxOf target) 1 = reorder us (a.set target 1) := by
  have hnd : us.Nodup := hp.nodup_iff.mpr List.nodup_range
  have hmem : ∀ u, u ∈ us ↔ u < n := fun u => by rw [hp.mem_iff]; simp
  apply List.ext_getElem (by simp [reorder])
  intro i h1 h2
  have hi : i < us.length := by simpa [reorder] using h2
  simp only [reorder, List.getElem_set, List.getElem_map]
  by_cases h : us.idxOf target = i
  · subst h
    rw [if_pos rfl, List.getElem_idxOf]
    rw [List.getD_eq_getElem _ _ (by simpa [ha] using ht)]
    simp
  · rw [if_neg h]
    have hne : target ≠ us[i] := by
      intro he; apply h; rw [he, hnd.idxOf_getElem]
    simp only [List.getD_eq_getElem?_getD, List.getElem?_set_ne hne]

/-- fixing one position to 0 -/
theorem countP_insertIdx (idx n : ℕ) (h : idx ≤ n) (G : List ℕ → Bool) :
    (allAssign n).countP (fun as => G (as.insertIdx idx 0)) =
      (allAssign (n + 1)).countP (fun args => args.getD idx 1 == 0 && G args) := by
  induction idx generalizing n G with
  | zero =>
    rw [allAssign_succ, List.countP_append, List.countP_map, List.countP_map]
    simp [Function.comp_def]
  | succ idx ih =>
    cases n with
    | zero => omega
    | succ n =>
      rw [allAssign_succ n, allAssign_succ (n + 1)]
      simp only [List.countP_append, List.countP_map, Function.comp_def, List.insertIdx_succ_cons,
        List.getD_cons_succ]
      rw [ih n (by omega) (fun x => G (0 :: x)), ih n (by omega) (fun x => G (1 :: x)), allAssign_succ n]

theorem insertIdx_one_eq_set (as : List ℕ) (idx : ℕ) (h : idx ≤ as.length) :
    as.insertIdx idx 1 = (as.insertIdx idx 0).set idx 1 := by
  induction as generalizing idx with
  | nil => have : idx = 0 := by simpa using h
           subst this; simp
  | cons a as ih =>
    cases idx with
    | zero => simp
    | succ idx => simp [ih idx (by simpa using h)]

end Bridge

/-! ## 6. unfolding `build` and `query` -/
section Build
variable {D : Dom}

/-- rows within the boundary -/
def incRows (R : ℕ) (dist : List Rat) (t : Option ℕ) : List ℕ :=
  (List.range R).filter (fun tt => match t with | none => true | some t => dist.getD t 0 ≥ dist.getD tt 0)

def withDiag (D : Dom) (c : ℕ) (labels : List ℕ) (base : Compiled (AVal D)) (inc : List ℕ) : Diagram (AVal D) :=
  inc.foldl (fun d tt => d.update (base.locs.getD tt []) (tallyVal D 0 (onehot c (labels.getD tt 0)) (List.replicate c 0)) true) base.add

def withoutDiag (D : Dom) (c : ℕ) (labels : List ℕ) (base : Compiled (AVal D)) (inc : List ℕ) : Diagram (AVal D) :=
  inc.foldl (fun d tt => d.update (base.locs.getD tt []) (tallyVal D 0 (List.replicate c 0) (onehot c (labels.getD tt 0))) true) base.add

def mkPair (D : Dom) (c : ℕ) (p : Prov.P) (labels : List ℕ) (dist : List Rat) (base : Compiled (AVal D))
    (t : Option ℕ) : Except Err (Diagram (AVal D) × Diagram (AVal D)) :=
  match t with
  | none => pure (withDiag D c labels base (incRows p.data.length dist none),
                  withoutDiag D c labels base (incRows p.data.length dist none))
  | some t =>
      (rowUnits (p.data.getD t [])).foldlM (fun (ds : Diagram (AVal D) × Diagram (AVal D)) u => do
          let loc ← base.add.getUpdateLocation [(u, 0)]
          pure (ds.1.update loc none false, ds.2.update loc none false))
        (withDiag D c labels base (incRows p.data.length dist (some t)),
         withoutDiag D c labels base (incRows p.data.length dist (some t)))

theorem build_eq (c : ℕ) (p : Prov.P) (labels : List ℕ) (dist : List Rat) :
    build D c p labels dist = (do
      let base : Compiled (AVal D) ← compile p
      let all ← ((List.range p.data.length).map some ++ [none]).mapM (mkPair D c p labels dist base)
      pure { base := base, withs := all.map (·.1), withouts := all.map (·.2) }) := by
  unfold build
  congr 1
  funext base
  dsimp only
  congr 2
  funext t
  cases t <;> rfl

end Build
end Ds.Oracle

namespace Ds.Oracle
open Ds.Dd
section Build2
variable {D : Dom}

theorem mapM_ok {α β : Type} (f : α → Except Err β) (l : List α) (ys : List β) (h : l.mapM f = .ok ys) :
    ys.length = l.length ∧ ∀ i (h1 : i < l.length) (h2 : i < ys.length), f l[i] = .ok ys[i] := by
  induction l generalizing ys with
  | nil =>
    simp only [List.mapM_nil, pure, Except.pure, Except.ok.injEq] at h
    subst h; simp
  | cons a l ih =>
    rw [List.mapM_cons] at h
    cases hfa : f a with
    | error e => rw [hfa] at h; cases h
    | ok b =>
      rw [hfa] at h
      cases hl : List.mapM f l with
      | error e => rw [hl] at h; cases h
      | ok bs =>
        rw [hl] at h
        simp only [bind, Except.bind, pure, Except.pure, Except.ok.injEq] at h
        subst h
        obtain ⟨h1, h2⟩ := ih bs hl
        refine ⟨by simp [h1], fun i hi1 hi2 => ?_⟩
        cases i with
        | zero => simpa using hfa
        | succ i => simpa using h2 i (by simpa using hi1) (by simpa using hi2)

theorem foldlM_ok {α σ γ : Type} (g : α → Except Err γ) (hfun : α → γ) (F : σ → γ → σ) (l : List α)
    (hg : ∀ u ∈ l, g u = .ok (hfun u)) (init : σ) :
    l.foldlM (fun s u => do let loc ← g u; pure (F s loc)) init = .ok (l.foldl (fun s u => F s (hfun u)) init) := by
  induction l generalizing init with
  | nil => rfl
  | cons a l ih =>
    rw [List.foldlM_cons, hg a (by simp)]
    simp only [bind, Except.bind, pure, Except.pure]
    exact ih (fun u hu => hg u (by simp [hu])) _

/-- the value-`v` edges of all active nodes of the level of unit `u` -/
def unitLoc {V : Type} (d : Diagram V) (u v : ℕ) : List (ℕ × ℕ × ℕ) :=
  ((List.range (d.levels.getD (d.units.idxOf u) []).length).filter
    (fun j => (nodeAt (d.levels.getD (d.units.idxOf u) []) j).active)).map (fun j => (d.units.idxOf u, j, v))

theorem getUpdateLocation_single {V : Type} [Add V] [Zero V] (d : Diagram V) (u v : ℕ) (hu : u ∈ d.units) :
    d.getUpdateLocation [(u, v)] = .ok (unitLoc d u v) := by
  have hi : d.units.idxOf u < d.units.length := List.idxOf_lt_length_iff.mpr hu
  unfold Diagram.getUpdateLocation
  simp only [List.any_cons, List.any_nil, Bool.or_false, List.contains_iff_mem, hu, decide_true, Bool.not_true,
    Bool.false_eq_true, if_false, List.mergeSort_singleton]
  simp only [Diagram.getUpdateLocation.walk, Diagram.getUpdateLocation.skip, List.getElem?_eq_getElem hi,
    List.getElem_idxOf hi, beq_self_eq_true, if_true]
  rw [if_neg (by simp [hu])]
  rfl

end Build2
end Ds.Oracle

namespace Ds.Oracle
open Ds.Dd
section Spec

/-- `LocSpec`: the `Prop` behind the executable check `locSpecOk` -/
structure LocSpec {V : Type} (p : Prov.P) (cmp : Compiled V) : Prop where
  nodup : ∀ loc ∈ cmp.locs, loc.Nodup
  inRange : ∀ loc ∈ cmp.locs, ∀ e ∈ loc,
    e.1 < cmp.add.levels.length ∧ e.2.1 < (cmp.add.levels.getD e.1 []).length ∧ e.2.2 < cmp.add.C
  crossed : ∀ args ∈ allAssign cmp.add.units.length, ∀ r, r < p.data.length →
    ((pathEdges cmp.add.levels cmp.add.root args 0).filter (fun e => (cmp.locs.getD r []).contains e)).length =
      if (rowLits (p.data.getD r [])).all (fun uv => args.getD (cmp.add.units.idxOf uv.1) 0 == uv.2) then 1 else 0

/-- conjunctive provenance with positive literals: one disjunct per row; every literal that names a unit names
a unit `< nUnits` with candidate 1; the units of a row are pairwise distinct -/
def Conjunctive (p : Prov.P) : Prop :=
  p.nDisj = 1 ∧ ∀ r ∈ p.data,
    (∀ l ∈ r.getD 0 [], l.1 ≠ -1 → l.2 = 1 ∧ 0 ≤ l.1 ∧ l.1 < (p.nUnits : Int)) ∧ (rowUnits r).Nodup

instance (p : Prov.P) : Decidable (Conjunctive p) := by unfold Conjunctive; infer_instance

theorem Conjunctive.rowLits {p : Prov.P} (hc : Conjunctive p) (r : Prov.Row) (hr : r ∈ p.data) :
    rowLits r = (rowUnits r).map (fun u => (u, 1)) ∧ ∀ u ∈ rowUnits r, u < p.nUnits := by
  obtain ⟨h1, _⟩ := hc.2 r hr
  constructor
  · unfold Oracle.rowLits rowUnits
    rw [List.map_map]
    have : (r.getD 0 []).filter (fun l => l.1 != -1 && l.2 != -1) = (r.getD 0 []).filter (fun l => l.1 != -1) := by
      apply List.filter_congr
      intro l hl
      by_cases h : l.1 = -1
      · simp [h]
      · have := (h1 l hl h).1
        simp [h, this]
    rw [this]
    apply List.map_congr_left
    intro l hl
    rw [List.mem_filter] at hl
    have := (h1 l hl.1 (by simpa using hl.2)).1
    simp [this]
  · intro u hu
    unfold rowUnits at hu
    rw [List.mem_map] at hu
    obtain ⟨l, hl, rfl⟩ := hu
    rw [List.mem_filter] at hl
    have := (h1 l hl.1 (by simpa using hl.2)).2
    omega

theorem getD_mem_data (p : Prov.P) (r : ℕ) (h : r < p.data.length) : p.data.getD r [] ∈ p.data := by
  rw [List.getD_eq_getElem _ _ h]; exact List.getElem_mem h

/-- row `r` is present under the assignment `a` (unit order) -/
def present (p : Prov.P) (a : List ℕ) (r : ℕ) : Bool :=
  (rowUnits (p.data.getD r [])).all (fun u => a.getD u 0 == 1)

theorem presentRows_eq (p : Prov.P) (a : List ℕ) :
    presentRows p a = (List.range p.data.length).filter (present p a) := rfl

/-- in diagram order -/
theorem present_reorder {p : Prov.P} (hc : Conjunctive p) (us : List ℕ) (hp : us.Perm (List.range p.nUnits))
    (a : List ℕ) (r : ℕ) (hr : r < p.data.length) :
    (rowLits (p.data.getD r [])).all (fun uv => (reorder us a).getD (us.idxOf uv.1) 0 == uv.2) = present p a r := by
  obtain ⟨h1, h2⟩ := hc.rowLits _ (getD_mem_data p r hr)
  rw [h1, List.all_map]
  unfold present
  rw [Bool.eq_iff_iff]
  simp only [List.all_eq_true, Function.comp]
  constructor
  · intro h u hu
    rw [← reorder_getD us a u (by rw [hp.mem_iff]; simpa using h2 u hu)]; exact h u hu
  · intro h u hu
    rw [reorder_getD us a u (by rw [hp.mem_iff]; simpa using h2 u hu)]; exact h u hu

end Spec

/-! ## 7. the diagrams built by `ShapleyOracle.__init__` -/
section Built

theorem inRange_of_adRect {V : Type} [AddCommMonoid V] (L : List (Level V)) (C : ℕ) (ha : AdRect C L)
    (e : ℕ × ℕ × ℕ) (h1 : e.1 < L.length) (h2 : e.2.1 < (L.getD e.1 []).length) (h3 : e.2.2 < C) :
    inRange L e := by
  refine ⟨h1, h2, ?_⟩
  rw [nodeAt_eq_getElem h2, ha (L.getD e.1 []) (by rw [List.getD_eq_getElem _ _ h1]; exact List.getElem_mem h1) _
    (List.getElem_mem h2)]
  exact h3

theorem getD_nil_or_mem {α : Type} (l : List (List α)) (i : ℕ) : l.getD i [] = [] ∨ l.getD i [] ∈ l := by
  by_cases h : i < l.length
  · right; rw [List.getD_eq_getElem _ _ h]; exact List.getElem_mem h
  · left; exact List.getD_eq_default _ _ (Nat.le_of_not_lt h)

/-- what the main theorem needs to know about the compiled diagram -/
structure BaseOK {D : Dom} (p : Prov.P) (base : Compiled (AVal D)) : Prop where
  wf : base.add.WF
  ad : AdRect 2 base.add.levels
  C2 : base.add.C = 2
  perm : base.add.units.Perm (List.range p.nUnits)
  zero : ∀ args, base.add.eval args = 0
  loc : LocSpec p base

variable {D : Dom} {p : Prov.P} {base : Compiled (AVal D)}

theorem BaseOK.len (H : BaseOK p base) : base.add.units.length = p.nUnits := by
  simpa using H.perm.length_eq

theorem BaseOK.mem_units (H : BaseOK p base) (u : ℕ) : u ∈ base.add.units ↔ u < p.nUnits := by
  rw [H.perm.mem_iff]; simp

theorem BaseOK.locs_nodup (H : BaseOK p base) (tt : ℕ) : (base.locs.getD tt []).Nodup := by
  rcases getD_nil_or_mem base.locs tt with h | h
  · rw [h]; exact List.nodup_nil
  · exact H.loc.nodup _ h

theorem BaseOK.locs_inRange (H : BaseOK p base) (tt : ℕ) : ∀ e ∈ base.locs.getD tt [], inRange base.add.levels e := by
  rcases getD_nil_or_mem base.locs tt with h | h
  · rw [h]; simp
  · intro e he
    obtain ⟨h1, h2, h3⟩ := H.loc.inRange _ h e he
    exact inRange_of_adRect _ 2 H.ad e h1 h2 (H.C2 ▸ h3)

theorem BaseOK.crossed (H : BaseOK p base) (hc : Conjunctive p) (a : List ℕ) (ha : a ∈ allAssign p.nUnits)
    (r : ℕ) (hr : r < p.data.length) :
    (pathEdges base.add.levels base.add.root (reorder base.add.units a) 0).countP
        (fun e => decide (e ∈ base.locs.getD r [])) = if present p a r then 1 else 0 := by
  have h := H.loc.crossed (reorder base.add.units a)
    (by rw [H.len]; exact reorder_mem _ _ H.len a ha) r hr
  rw [present_reorder hc _ H.perm a r hr] at h
  rw [← h, List.countP_eq_length_filter]
  congr 2
  funext e
  simp

theorem sum_onehot (l : List ℕ) (lab : ℕ → ℕ) (k : ℕ) :
    (l.map (fun tt => if k = lab tt then 1 else 0)).sum = (l.filter (fun r => lab r == k)).length := by
  induction l with
  | nil => simp
  | cons x l ih =>
    simp only [List.map_cons, List.sum_cons, ih, List.filter_cons, beq_iff_eq]
    by_cases h : lab x = k
    · rw [if_pos h.symm, if_pos h]; simp; omega
    · rw [if_neg (fun h' => h h'.symm), if_neg h]; simp

/-- the `with` diagram: value of an assignment = tally of the labels of the present rows among `inc` -/
theorem withDiag_eval {N K c : ℕ} {base : Compiled (AVal (Dom.tally N K c))} (H : BaseOK p base) (hc : Conjunctive p)
    (labels : List ℕ) (inc : List ℕ) (hinc : ∀ tt ∈ inc, tt < p.data.length) (a : List ℕ) (ha : a ∈ allAssign p.nUnits) :
    Sim base.add (withDiag (Dom.tally N K c) c labels base inc) ∧
    (withDiag (Dom.tally N K c) c labels base inc).eval (reorder base.add.units a) =
      AVal.clip (Dom.tally N K c) (tvf c 0
        (fun k => ((inc.filter (present p a)).filter (fun r => labels.getD r 0 == k)).length) (fun _ => 0)) := by
  obtain ⟨h1, h2⟩ := eval_foldl_inc base.add (fun tt => base.locs.getD tt [])
    (fun tt => tallyVal (Dom.tally N K c) 0 (onehot c (labels.getD tt 0)) (List.replicate c 0)) inc
    (fun tt _ => H.locs_nodup tt) (fun tt _ => H.locs_inRange tt) base.add (Sim.refl _) (reorder base.add.units a)
  refine ⟨h1, ?_⟩
  unfold withDiag
  rw [h2, H.zero, zero_add]
  have : inc.map (fun tt => ((pathEdges base.add.levels base.add.root (reorder base.add.units a) 0).countP
      (fun e => decide (e ∈ base.locs.getD tt []))) •
        tallyVal (Dom.tally N K c) 0 (onehot c (labels.getD tt 0)) (List.replicate c 0)) =
      inc.map (fun tt => if present p a tt then
        AVal.clip (Dom.tally N K c) (tvf c 0 (fun k => if k = labels.getD tt 0 then 1 else 0) (fun _ => 0)) else 0) := by
    apply List.map_congr_left
    intro tt htt
    rw [H.crossed hc a ha tt (hinc tt htt), tallyVal_with]
    by_cases hp : present p a tt = true
    · rw [if_pos hp, if_pos hp, one_nsmul]
    · rw [if_neg hp, if_neg hp, zero_nsmul]
  rw [this, sum_map_ite_filter, sum_clip_tvf]
  congr 2
  · simp
  · funext k; exact sum_onehot _ _ k
  · funext k; simp

theorem withoutDiag_eval {N K c : ℕ} {base : Compiled (AVal (Dom.tally N K c))} (H : BaseOK p base) (hc : Conjunctive p)
    (labels : List ℕ) (inc : List ℕ) (hinc : ∀ tt ∈ inc, tt < p.data.length) (a : List ℕ) (ha : a ∈ allAssign p.nUnits) :
    Sim base.add (withoutDiag (Dom.tally N K c) c labels base inc) ∧
    (withoutDiag (Dom.tally N K c) c labels base inc).eval (reorder base.add.units a) =
      AVal.clip (Dom.tally N K c) (tvf c 0 (fun _ => 0)
        (fun k => ((inc.filter (present p a)).filter (fun r => labels.getD r 0 == k)).length)) := by
  obtain ⟨h1, h2⟩ := eval_foldl_inc base.add (fun tt => base.locs.getD tt [])
    (fun tt => tallyVal (Dom.tally N K c) 0 (List.replicate c 0) (onehot c (labels.getD tt 0))) inc
    (fun tt _ => H.locs_nodup tt) (fun tt _ => H.locs_inRange tt) base.add (Sim.refl _) (reorder base.add.units a)
  refine ⟨h1, ?_⟩
  unfold withoutDiag
  rw [h2, H.zero, zero_add]
  have : inc.map (fun tt => ((pathEdges base.add.levels base.add.root (reorder base.add.units a) 0).countP
      (fun e => decide (e ∈ base.locs.getD tt []))) •
        tallyVal (Dom.tally N K c) 0 (List.replicate c 0) (onehot c (labels.getD tt 0))) =
      inc.map (fun tt => if present p a tt then
        AVal.clip (Dom.tally N K c) (tvf c 0 (fun _ => 0) (fun k => if k = labels.getD tt 0 then 1 else 0)) else 0) := by
    apply List.map_congr_left
    intro tt htt
    rw [H.crossed hc a ha tt (hinc tt htt), tallyVal_without]
    by_cases hp : present p a tt = true
    · rw [if_pos hp, if_pos hp, one_nsmul]
    · rw [if_neg hp, if_neg hp, zero_nsmul]
  rw [this, sum_map_ite_filter, sum_clip_tvf]
  congr 2
  · simp
  · funext k; simp
  · funext k; exact sum_onehot _ _ k

end Built

section Boundary

theorem unitLoc_nodup {V : Type} (d : Diagram V) (u v : ℕ) : (unitLoc d u v).Nodup := by
  unfold unitLoc
  apply List.Nodup.map
  · intro a b h; simpa using h
  · exact List.nodup_range.filter _

theorem unitLoc_inRange {V : Type} [AddCommMonoid V] (d : Diagram V) (u v : ℕ) (hw : d.WF) (hu : u ∈ d.units)
    (ha : AdRect d.C d.levels) (hv : v < d.C) : ∀ e ∈ unitLoc d u v, inRange d.levels e := by
  intro e he
  unfold unitLoc at he
  simp only [List.mem_map, List.mem_filter, List.mem_range] at he
  obtain ⟨j, ⟨hj, _⟩, rfl⟩ := he
  have hi : d.units.idxOf u < d.units.length := List.idxOf_lt_length_iff.mpr hu
  exact inRange_of_adRect _ _ ha _ (by rw [hw.len]; exact hi) hj hv

/-- a path crosses a value-0 edge of unit `u`'s level iff the argument of `u` is 0 -/
theorem cross_unitLoc {V : Type} [AddCommMonoid V] (d : Diagram V) (u : ℕ) (hw : d.WF) (hu : u ∈ d.units)
    (args : List ℕ) (hl : args.length = d.units.length) (hC : ∀ x ∈ args, x < d.C) :
    (∃ e ∈ pathEdges d.levels d.root args 0, e ∈ unitLoc d u 0) ↔ args.getD (d.units.idxOf u) 0 = 0 := by
  have hi : d.units.idxOf u < d.units.length := List.idxOf_lt_length_iff.mpr hu
  constructor
  · rintro ⟨e, he, hloc⟩
    obtain ⟨k, h1, _, h3, _⟩ := mem_pathEdges he hw.reach hC
    unfold unitLoc at hloc
    simp only [List.mem_map, List.mem_filter, List.mem_range] at hloc
    obtain ⟨j, _, rfl⟩ := hloc
    simp only at h1 h3
    rw [Nat.zero_add] at h1
    rw [h1, List.getD_eq_getElem?_getD, h3]; rfl
  · intro h0
    obtain ⟨jk, hjk⟩ := exists_pathEdge d.levels d.root args 0 (d.units.idxOf u) (by rw [hw.len]; exact hi)
      (by rw [hl]; exact hi)
    rw [h0, Nat.zero_add] at hjk
    refine ⟨_, hjk, ?_⟩
    obtain ⟨k, h1, _, _, h4⟩ := mem_pathEdges hjk hw.reach hC
    simp only [Nat.zero_add] at h1 h4
    subst h1
    unfold unitLoc
    simp only [List.mem_map, List.mem_filter, List.mem_range]
    exact ⟨jk, ⟨nodeAt_lt_of_active h4, h4⟩, rfl⟩

theorem foldl_pair {α β γ : Type} (F : α → γ → α) (G : β → γ → β) (l : List γ) (x : α) (y : β) :
    l.foldl (fun (ds : α × β) u => (F ds.1 u, G ds.2 u)) (x, y) = (l.foldl F x, l.foldl G y) := by
  induction l generalizing x y with
  | nil => rfl
  | cons a l ih => simp [ih]

/-- the boundary row is present -/
def okB (p : Prov.P) (a : List ℕ) : Option ℕ → Bool
  | none => true
  | some b => present p a b

variable {p : Prov.P} {N K c : ℕ} {base : Compiled (AVal (Dom.tally N K c))}

/-- setting the value-0 edges of the units of row `b` to the invalid value -/
theorem boundary_eval (H : BaseOK p base) (hc : Conjunctive p) (b : ℕ) (hb : b < p.data.length)
    (d : Diagram (AVal (Dom.tally N K c))) (hs : Sim base.add d) (a : List ℕ) (ha : a ∈ allAssign p.nUnits) :
    Sim base.add ((rowUnits (p.data.getD b [])).foldl (fun d u => d.update (unitLoc base.add u 0) none false) d) ∧
    ((rowUnits (p.data.getD b [])).foldl (fun d u => d.update (unitLoc base.add u 0) none false) d).eval
        (reorder base.add.units a) =
      if present p a b then d.eval (reorder base.add.units a) else none := by
  have hrow := (hc.rowLits _ (getD_mem_data p b hb)).2
  have hmem : ∀ u ∈ rowUnits (p.data.getD b []), u ∈ base.add.units := fun u hu => (H.mem_units u).mpr (hrow u hu)
  have hargs := (mem_allAssign _ _).mp (reorder_mem _ _ H.len a ha)
  have := eval_foldl_none base.add ((rowUnits (p.data.getD b [])).map (fun u => unitLoc base.add u 0))
    (by intro loc hloc; obtain ⟨u, _, rfl⟩ := List.mem_map.mp hloc; exact unitLoc_nodup _ _ _)
    (by intro loc hloc; obtain ⟨u, hu, rfl⟩ := List.mem_map.mp hloc
        exact unitLoc_inRange _ _ _ H.wf (hmem u hu) (H.C2 ▸ H.ad) (by rw [H.C2]; omega))
    d hs (reorder base.add.units a)
  rw [List.foldl_map] at this
  refine ⟨this.1, ?_⟩
  rw [this.2]
  have hiff : (∃ loc ∈ (rowUnits (p.data.getD b [])).map (fun u => unitLoc base.add u 0),
      ∃ e ∈ pathEdges base.add.levels base.add.root (reorder base.add.units a) 0, e ∈ loc) ↔ ¬ (present p a b = true) := by
    unfold present
    simp only [List.mem_map, List.all_eq_true, beq_iff_eq, not_forall]
    constructor
    · rintro ⟨loc, ⟨u, hu, rfl⟩, hx⟩
      have := (cross_unitLoc base.add u H.wf (hmem u hu) _ (hargs.1.trans H.len.symm)
        (by rw [H.C2]; exact hargs.2)).mp hx
      rw [reorder_getD _ _ _ (hmem u hu)] at this
      exact ⟨u, hu, by omega⟩
    · rintro ⟨u, hu, hne⟩
      refine ⟨_, ⟨u, hu, rfl⟩, ?_⟩
      apply (cross_unitLoc base.add u H.wf (hmem u hu) _ (hargs.1.trans H.len.symm)
        (by rw [H.C2]; exact hargs.2)).mpr
      rw [reorder_getD _ _ _ (hmem u hu)]
      have := getD_lt_two ((mem_allAssign _ _).mp ha).2 u
      omega
  by_cases hp : present p a b = true
  · rw [if_neg (fun h => hiff.mp h hp), if_pos hp]
  · rw [if_pos (hiff.mpr hp), if_neg hp]

/-- the pair of diagrams built for boundary `t` -/
theorem mkPair_spec (H : BaseOK p base) (hc : Conjunctive p) (labels : List ℕ) (dist : List Rat) (t : Option ℕ)
    (ht : ∀ b, t = some b → b < p.data.length) (w wo : Diagram (AVal (Dom.tally N K c)))
    (h : mkPair (Dom.tally N K c) c p labels dist base t = .ok (w, wo)) :
    Sim base.add w ∧ Sim base.add wo ∧ ∀ a ∈ allAssign p.nUnits,
      w.eval (reorder base.add.units a) =
        (if okB p a t then AVal.clip (Dom.tally N K c) (tvf c 0
          (fun k => (((incRows p.data.length dist t).filter (present p a)).filter (fun r => labels.getD r 0 == k)).length)
          (fun _ => 0)) else none) ∧
      wo.eval (reorder base.add.units a) =
        (if okB p a t then AVal.clip (Dom.tally N K c) (tvf c 0 (fun _ => 0)
          (fun k => (((incRows p.data.length dist t).filter (present p a)).filter (fun r => labels.getD r 0 == k)).length))
          else none) := by
  have hinc : ∀ tt ∈ incRows p.data.length dist t, tt < p.data.length := by
    intro tt htt; unfold incRows at htt; rw [List.mem_filter] at htt; simpa using htt.1
  cases t with
  | none =>
    simp only [mkPair, pure, Except.pure, Except.ok.injEq, Prod.mk.injEq] at h
    obtain ⟨rfl, rfl⟩ := h
    refine ⟨?_, ?_, fun a ha => ⟨?_, ?_⟩⟩
    · exact (withDiag_eval H hc labels _ hinc (List.replicate p.nUnits 0)
        ((mem_allAssign _ _).mpr ⟨by simp, by simp⟩)).1
    · exact (withoutDiag_eval H hc labels _ hinc (List.replicate p.nUnits 0)
        ((mem_allAssign _ _).mpr ⟨by simp, by simp⟩)).1
    · simp only [okB, if_true]; exact (withDiag_eval H hc labels _ hinc a ha).2
    · simp only [okB, if_true]; exact (withoutDiag_eval H hc labels _ hinc a ha).2
  | some b =>
    have hb := ht b rfl
    have hrow := (hc.rowLits _ (getD_mem_data p b hb)).2
    have hmem : ∀ u ∈ rowUnits (p.data.getD b []), u ∈ base.add.units := fun u hu => (H.mem_units u).mpr (hrow u hu)
    unfold mkPair at h
    simp only at h
    rw [foldlM_ok (fun u => base.add.getUpdateLocation [(u, 0)]) (fun u => unitLoc base.add u 0)
      (fun (ds : Diagram (AVal (Dom.tally N K c)) × Diagram (AVal (Dom.tally N K c))) loc =>
        (ds.1.update loc none false, ds.2.update loc none false)) _
      (fun u hu => getUpdateLocation_single base.add u 0 (hmem u hu))] at h
    rw [foldl_pair (fun (d : Diagram (AVal (Dom.tally N K c))) u => d.update (unitLoc base.add u 0) none false)
      (fun (d : Diagram (AVal (Dom.tally N K c))) u => d.update (unitLoc base.add u 0) none false)] at h
    simp only [Except.ok.injEq, Prod.mk.injEq] at h
    obtain ⟨rfl, rfl⟩ := h
    have z : List.replicate p.nUnits 0 ∈ allAssign p.nUnits := (mem_allAssign _ _).mpr ⟨by simp, by simp⟩
    refine ⟨?_, ?_, fun a ha => ⟨?_, ?_⟩⟩
    · exact (boundary_eval H hc b hb _ (withDiag_eval H hc labels _ hinc _ z).1 _ z).1
    · exact (boundary_eval H hc b hb _ (withoutDiag_eval H hc labels _ hinc _ z).1 _ z).1
    · rw [(boundary_eval H hc b hb _ (withDiag_eval H hc labels _ hinc _ z).1 a ha).2,
        (withDiag_eval H hc labels _ hinc a ha).2]; rfl
    · rw [(boundary_eval H hc b hb _ (withoutDiag_eval H hc labels _ hinc _ z).1 a ha).2,
        (withoutDiag_eval H hc labels _ hinc a ha).2]; rfl

end Boundary

end Ds.Oracle
