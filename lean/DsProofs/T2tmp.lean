import DsProofs.AddPathProofs
open Ds Ds.Oracle AddPath Ds.Prov

def pEx : Prov.P := { data := [[[(0,1)]], [[(1,1)]], [[(2,1)]]], nDisj := 1, nConj := 1, nUnits := 3 }
set_option maxRecDepth 100000 in
example : scores pEx [0,1,0] [[1],[2],[3]] [[1],[0]] [0] 1 2 = .ok [5/6, -1/6, 1/3] := by decide +kernel
