import Ds.Units

/-!
# UnitsProofs — helper lemmas about the unit / candidate registry (`Ds.Units`)

Everything here is about one list operation, `addNew l k` = "append `k` unless it is already there"
(the model's rendering of `if key not in index: index[key] = len(list); list.append(key)`), its
iteration `addAll l ks = ks.foldl addNew l`, and how `getItem`, `eqPred`, `union` are built from it.
-/

namespace DsProofs.Units
open Ds Ds.Units

/-! ## `addNew` / `addAll` -/

/-- append `k` unless already present -/
def addNew (l : List Int) (k : Int) : List Int := if l.contains k then l else l ++ [k]

/-- `addNew` iterated from the left -/
def addAll (l ks : List Int) : List Int := ks.foldl addNew l

@[simp] theorem addAll_nil (l : List Int) : addAll l [] = l := rfl
@[simp] theorem addAll_cons (l : List Int) (k : Int) (ks : List Int) :
    addAll l (k :: ks) = addAll (addNew l k) ks := rfl

theorem addAll_append (l ks ks' : List Int) : addAll l (ks ++ ks') = addAll (addAll l ks) ks' := by
  simp [addAll, List.foldl_append]

theorem addNew_of_mem {l : List Int} {k : Int} (h : k ∈ l) : addNew l k = l := by
  simp [addNew, h]

theorem addNew_of_not_mem {l : List Int} {k : Int} (h : k ∉ l) : addNew l k = l ++ [k] := by
  simp [addNew, h]

theorem mem_addNew {l : List Int} {k a : Int} : a ∈ addNew l k ↔ a ∈ l ∨ a = k := by
  by_cases h : k ∈ l
  · rw [addNew_of_mem h]
    constructor
    · exact Or.inl
    · rintro (h' | rfl) <;> assumption
  · rw [addNew_of_not_mem h]; simp

theorem self_mem_addNew (l : List Int) (k : Int) : k ∈ addNew l k := mem_addNew.2 (Or.inr rfl)

theorem nodup_addNew {l : List Int} (k : Int) (h : l.Nodup) : (addNew l k).Nodup := by
  by_cases hk : k ∈ l
  · rwa [addNew_of_mem hk]
  · rw [addNew_of_not_mem hk, List.nodup_append]
    refine ⟨h, by simp, ?_⟩
    intro a ha b hb
    simp at hb
    subst hb
    intro hab; subst hab; exact hk ha

theorem prefix_addNew (l : List Int) (k : Int) : l <+: addNew l k := by
  by_cases hk : k ∈ l
  · rw [addNew_of_mem hk]; exact List.prefix_refl _
  · rw [addNew_of_not_mem hk]; exact List.prefix_append _ _

theorem mem_addAll {l ks : List Int} {a : Int} : a ∈ addAll l ks ↔ a ∈ l ∨ a ∈ ks := by
  induction ks generalizing l with
  | nil => simp
  | cons k ks ih =>
    rw [addAll_cons, ih, mem_addNew, List.mem_cons]
    constructor
    · rintro ((h | h) | h)
      · exact Or.inl h
      · exact Or.inr (Or.inl h)
      · exact Or.inr (Or.inr h)
    · rintro (h | h | h)
      · exact Or.inl (Or.inl h)
      · exact Or.inl (Or.inr h)
      · exact Or.inr h

theorem nodup_addAll {l : List Int} (ks : List Int) (h : l.Nodup) : (addAll l ks).Nodup := by
  induction ks generalizing l with
  | nil => simpa
  | cons k ks ih => exact ih (nodup_addNew k h)

theorem prefix_addAll (l ks : List Int) : l <+: addAll l ks := by
  induction ks generalizing l with
  | nil => exact List.prefix_refl _
  | cons k ks ih => exact (prefix_addNew l k).trans (ih _)

/-- without a `Nodup` hypothesis: the appended part is the de-duplicated list of the new keys -/
theorem addAll_eq_eraseDups (l ks : List Int) :
    addAll l ks = l ++ (ks.filter (fun a => !l.contains a)).eraseDups := by
  induction ks generalizing l with
  | nil => simp
  | cons k ks ih =>
    rw [addAll_cons, ih]
    by_cases hk : k ∈ l
    · rw [addNew_of_mem hk]
      simp [hk]
    · rw [addNew_of_not_mem hk]
      have : (k :: ks).filter (fun a => !l.contains a) = k :: ks.filter (fun a => !l.contains a) := by
        simp [hk]
      rw [this, List.eraseDups_cons, List.filter_filter, List.append_assoc, List.singleton_append]
      congr 3
      apply List.filter_congr
      intro a _
      by_cases hak : a = k <;> simp [hak]

/-- when the added keys are pairwise distinct nothing is de-duplicated -/
theorem addAll_eq_filter (l : List Int) {ks : List Int} (h : ks.Nodup) :
    addAll l ks = l ++ ks.filter (fun a => !l.contains a) := by
  induction ks generalizing l with
  | nil => simp
  | cons k ks ih =>
    rw [List.nodup_cons] at h
    rw [addAll_cons, ih _ h.2]
    by_cases hk : k ∈ l
    · rw [addNew_of_mem hk]
      simp [hk]
    · rw [addNew_of_not_mem hk]
      have : (k :: ks).filter (fun a => !l.contains a) = k :: ks.filter (fun a => !l.contains a) := by
        simp [hk]
      rw [this, List.append_assoc, List.singleton_append]
      congr 2
      apply List.filter_congr
      intro a ha
      have : a ≠ k := fun e => h.1 (e ▸ ha)
      simp [this]

theorem addAll_nil_left (ks : List Int) : addAll [] ks = ks.eraseDups := by
  rw [addAll_eq_eraseDups]
  have : ks.filter (fun a => !([] : List Int).contains a) = ks := List.filter_eq_self.2 (by simp)
  rw [this]; simp

/-! ## positions: `idxOf` and prefixes -/

theorem getElem?_idxOf {l : List Int} {k : Int} (h : k ∈ l) : l[l.idxOf k]? = some k := by
  have hlt : l.idxOf k < l.length := List.idxOf_lt_length_of_mem h
  rw [List.getElem?_eq_getElem hlt, List.getElem_idxOf hlt]

theorem getElem?_of_prefix {l l' : List Int} (h : l <+: l') {i : Nat} {a : Int}
    (hi : l[i]? = some a) : l'[i]? = some a := by
  obtain ⟨t, rfl⟩ := h
  have hlt : i < l.length := by
    rcases Nat.lt_or_ge i l.length with h | h
    · exact h
    · rw [List.getElem?_eq_none h] at hi; cases hi
  rw [List.getElem?_append_left hlt]; exact hi

theorem idxOf_of_prefix {l l' : List Int} (h : l <+: l') {k : Int} (hk : k ∈ l) :
    l'.idxOf k = l.idxOf k := by
  obtain ⟨t, rfl⟩ := h
  rw [List.idxOf_append, if_pos hk]

/-- under `Nodup` the position of a key is unique: `idxOf` is THE index-dictionary -/
theorem getElem?_eq_some_iff_idxOf {l : List Int} (h : l.Nodup) {i : Nat} {k : Int} :
    l[i]? = some k ↔ k ∈ l ∧ i = l.idxOf k := by
  constructor
  · intro hi
    have hk : k ∈ l := List.mem_of_getElem? hi
    refine ⟨hk, ?_⟩
    have hlt : i < l.length := by
      rcases Nat.lt_or_ge i l.length with h | h
      · exact h
      · rw [List.getElem?_eq_none h] at hi; cases hi
    exact (List.getElem?_inj hlt h).1 (hi.trans (getElem?_idxOf hk).symm)
  · rintro ⟨hk, rfl⟩; exact getElem?_idxOf hk

theorem idxOf_addNew_self {l : List Int} {k : Int} (h : k ∉ l) : (addNew l k).idxOf k = l.length := by
  rw [addNew_of_not_mem h, List.idxOf_append, if_neg h]; simp

theorem nodup_eraseDups (ks : List Int) : ks.eraseDups.Nodup := by
  rw [← addAll_nil_left]; exact nodup_addAll ks List.nodup_nil

/-! ## the registry -/

/-- equality of results is decidable (used by the `decide` examples) -/
instance decEqExcept {α : Type} [DecidableEq α] : DecidableEq (Except Err α)
  | .ok a, .ok b => if h : a = b then isTrue (by rw [h]) else isFalse (fun h' => by cases h'; exact h rfl)
  | .error a, .error b =>
    if h : a = b then isTrue (by rw [h]) else isFalse (fun h' => by cases h'; exact h rfl)
  | .ok _, .error _ => isFalse (fun h => by cases h)
  | .error _, .ok _ => isFalse (fun h => by cases h)

/-- "the index dictionaries are consistent with the lists": no key / candidate is listed twice -/
def Inv (u : U) : Prop := u.keys.Nodup ∧ u.cands.Nodup

instance (u : U) : Decidable (Inv u) := by unfold Inv; infer_instance

/-- one registry operation of a history -/
inductive Op where
  /-- `units[k]` (a failed lookup leaves the registry as it was) -/
  | mention (k : Int)
  /-- `units[k] == v` (whatever it returns or raises; the registry afterwards) -/
  | eq (k v : Int)
  /-- `units.union(o)` -/
  | union (o : U)

/-- the registry after one operation -/
def step (u : U) : Op → U
  | .mention k => (getItem u k).toOption.getD u
  | .eq k v => (eqPred u k v).1
  | .union o => Ds.Units.union u o

/-- `u'` extends `u`: both lists only grew at the end -/
def Ext (u u' : U) : Prop := u.keys <+: u'.keys ∧ u.cands <+: u'.cands

theorem Ext.refl (u : U) : Ext u u := ⟨List.prefix_refl _, List.prefix_refl _⟩
theorem Ext.trans {a b c : U} (h : Ext a b) (h' : Ext b c) : Ext a c :=
  ⟨h.1.trans h'.1, h.2.trans h'.2⟩

/-! ### `getItem` -/

theorem getItem_eq (u : U) (k : Int) :
    getItem u k = if k ∈ u.keys then .ok u
      else if u.frozenU = true then .error Err.keyError
      else .ok { u with keys := u.keys ++ [k] } := by
  unfold getItem
  by_cases hk : k ∈ u.keys
  · simp [hk]; rfl
  · by_cases hf : u.frozenU = true
    · simp [hk, hf]; rfl
    · simp [hk, hf]; rfl

theorem getItem_of_mem {u : U} {k : Int} (h : k ∈ u.keys) : getItem u k = .ok u := by
  rw [getItem_eq, if_pos h]

theorem getItem_frozen_new {u : U} {k : Int} (h : k ∉ u.keys) (hf : u.frozenU = true) :
    getItem u k = .error Err.keyError := by
  rw [getItem_eq, if_neg h, if_pos hf]

theorem getItem_new {u : U} {k : Int} (h : k ∉ u.keys) (hf : u.frozenU = false) :
    getItem u k = .ok { u with keys := u.keys ++ [k] } := by
  rw [getItem_eq, if_neg h, if_neg (by simp [hf])]

/-- a successful `units[k]`: the key list is `addNew`, nothing else moves -/
theorem getItem_ok {u u1 : U} {k : Int} (h : getItem u k = .ok u1) :
    u1 = { u with keys := addNew u.keys k } ∧ (k ∈ u.keys ∨ u.frozenU = false) := by
  by_cases hk : k ∈ u.keys
  · rw [getItem_of_mem hk] at h
    cases h
    exact ⟨by rw [addNew_of_mem hk], Or.inl hk⟩
  · by_cases hf : u.frozenU = true
    · rw [getItem_frozen_new hk hf] at h
      cases h
    · have hf' : u.frozenU = false := by simpa using hf
      rw [getItem_new hk hf'] at h
      cases h
      exact ⟨by rw [addNew_of_not_mem hk], Or.inr hf'⟩

/-- the only possible failure of `units[k]` is `KeyError`, on a new key of a frozen list -/
theorem getItem_error {u : U} {k : Int} {e : Err} (h : getItem u k = .error e) :
    e = Err.keyError ∧ k ∉ u.keys ∧ u.frozenU = true := by
  by_cases hk : k ∈ u.keys
  · rw [getItem_of_mem hk] at h; cases h
  · by_cases hf : u.frozenU = true
    · rw [getItem_frozen_new hk hf] at h; cases h; exact ⟨rfl, hk, hf⟩
    · rw [getItem_new hk (by simpa using hf)] at h; cases h

/-! ### `eqPred` -/

/-- the second half of `eqPred`, on the registry `u1` returned by `units[k]` -/
theorem eqPred_of_getItem_ok {u u1 : U} {k : Int} (v : Int) (h : getItem u k = .ok u1) :
    eqPred u k v =
      if v ∈ u1.cands then (u1, .ok (u1.keys.idxOf k, u1.cands.idxOf v))
      else if u1.frozenC = true then (u1, .error Err.valueError)
      else ({ u1 with cands := u1.cands ++ [v] },
            .ok (u1.keys.idxOf k, (u1.cands ++ [v]).idxOf v)) := by
  unfold eqPred
  rw [h]
  by_cases hv : v ∈ u1.cands
  · simp [hv]
  · by_cases hf : u1.frozenC = true <;> simp [hv, hf]

theorem eqPred_of_getItem_error {u : U} {k : Int} {e : Err} (v : Int) (h : getItem u k = .error e) :
    eqPred u k v = (u, .error e) := by
  unfold eqPred; rw [h]

/-- a successful `units[k] == v`: both lists are `addNew`, the flags stay, `data` are the positions -/
theorem eqPred_ok {u u' : U} {k v : Int} {d : Nat × Nat} (h : eqPred u k v = (u', .ok d)) :
    u' = { u with keys := addNew u.keys k, cands := addNew u.cands v } ∧
    d = ((addNew u.keys k).idxOf k, (addNew u.cands v).idxOf v) ∧
    (k ∈ u.keys ∨ u.frozenU = false) ∧ (v ∈ u.cands ∨ u.frozenC = false) := by
  cases hg : getItem u k with
  | error e => rw [eqPred_of_getItem_error v hg] at h; cases h
  | ok u1 =>
    obtain ⟨rfl, hk⟩ := getItem_ok hg
    rw [eqPred_of_getItem_ok v hg] at h
    by_cases hv : v ∈ u.cands
    · rw [if_pos hv] at h
      cases h
      exact ⟨by rw [addNew_of_mem hv], by rw [addNew_of_mem hv], hk, Or.inl hv⟩
    · rw [if_neg hv] at h
      by_cases hf : u.frozenC = true
      · rw [if_pos hf] at h; cases h
      · rw [if_neg hf] at h
        cases h
        exact ⟨by rw [addNew_of_not_mem hv], by rw [addNew_of_not_mem hv], hk,
          Or.inr (by simpa using hf)⟩

/-- the registry after `units[k] == v`, whatever happened: each list is unchanged or `addNew` -/
theorem eqPred_fst (u : U) (k v : Int) :
    ∃ ks cs, (eqPred u k v).1 = { u with keys := ks, cands := cs } ∧
      (ks = u.keys ∨ ks = addNew u.keys k) ∧ (cs = u.cands ∨ cs = addNew u.cands v) := by
  cases hg : getItem u k with
  | error e =>
    rw [eqPred_of_getItem_error v hg]
    exact ⟨u.keys, u.cands, rfl, Or.inl rfl, Or.inl rfl⟩
  | ok u1 =>
    obtain ⟨rfl, _⟩ := getItem_ok hg
    rw [eqPred_of_getItem_ok v hg]
    by_cases hv : v ∈ u.cands
    · rw [if_pos hv]
      exact ⟨_, _, rfl, Or.inr rfl, Or.inl rfl⟩
    · rw [if_neg hv]
      by_cases hf : u.frozenC = true
      · rw [if_pos hf]
        exact ⟨_, _, rfl, Or.inr rfl, Or.inl rfl⟩
      · rw [if_neg hf]
        exact ⟨_, _, rfl, Or.inr rfl, Or.inr (addNew_of_not_mem hv).symm⟩

/-! ### `union` -/

theorem union_eq (u o : U) :
    Ds.Units.union u o = { keys := addAll u.keys o.keys, cands := addAll u.cands o.cands,
                           frozenU := u.frozenU || o.frozenU, frozenC := u.frozenC || o.frozenC } := rfl

/-! ### invariant and extension, per operation -/

theorem inv_getItem {u u1 : U} {k : Int} (hI : Inv u) (h : getItem u k = .ok u1) : Inv u1 := by
  obtain ⟨rfl, _⟩ := getItem_ok h
  exact ⟨nodup_addNew k hI.1, hI.2⟩

theorem ext_getItem {u u1 : U} {k : Int} (h : getItem u k = .ok u1) : Ext u u1 := by
  obtain ⟨rfl, _⟩ := getItem_ok h
  exact ⟨prefix_addNew _ _, List.prefix_refl _⟩

theorem inv_eqPred {u : U} (k v : Int) (hI : Inv u) : Inv (eqPred u k v).1 := by
  obtain ⟨ks, cs, he, hk, hc⟩ := eqPred_fst u k v
  rw [he]
  refine ⟨?_, ?_⟩
  · rcases hk with rfl | rfl
    · exact hI.1
    · exact nodup_addNew k hI.1
  · rcases hc with rfl | rfl
    · exact hI.2
    · exact nodup_addNew v hI.2

theorem ext_eqPred (u : U) (k v : Int) : Ext u (eqPred u k v).1 := by
  obtain ⟨ks, cs, he, hk, hc⟩ := eqPred_fst u k v
  rw [he]
  refine ⟨?_, ?_⟩
  · rcases hk with rfl | rfl
    · exact List.prefix_refl _
    · exact prefix_addNew _ _
  · rcases hc with rfl | rfl
    · exact List.prefix_refl _
    · exact prefix_addNew _ _

theorem inv_union {u : U} (o : U) (hI : Inv u) : Inv (Ds.Units.union u o) :=
  ⟨nodup_addAll _ hI.1, nodup_addAll _ hI.2⟩

theorem ext_union (u o : U) : Ext u (Ds.Units.union u o) :=
  ⟨prefix_addAll _ _, prefix_addAll _ _⟩

theorem inv_prefixWith {u : U} {f : Int → Int} (hf : ∀ a b, f a = f b → a = b) (hI : Inv u) :
    Inv (prefixWith u f) := by
  refine ⟨?_, hI.2⟩
  show (u.keys.map f).Nodup
  rw [List.nodup_iff_pairwise_ne, List.pairwise_map]
  exact hI.1.imp (fun hab e => hab (hf _ _ e))

theorem step_mention (u : U) (k : Int) :
    step u (.mention k) = u ∨ getItem u k = .ok (step u (.mention k)) := by
  show (getItem u k).toOption.getD u = u ∨ getItem u k = .ok ((getItem u k).toOption.getD u)
  cases getItem u k with
  | error e => exact Or.inl rfl
  | ok u1 => exact Or.inr rfl

theorem inv_step {u : U} (op : Op) (hI : Inv u) : Inv (step u op) := by
  cases op with
  | mention k =>
    rcases step_mention u k with h | h
    · rw [h]; exact hI
    · exact inv_getItem hI h
  | eq k v => exact inv_eqPred k v hI
  | union o => exact inv_union o hI

theorem ext_step (u : U) (op : Op) : Ext u (step u op) := by
  cases op with
  | mention k =>
    rcases step_mention u k with h | h
    · rw [h]; exact Ext.refl u
    · exact ext_getItem h
  | eq k v => exact ext_eqPred u k v
  | union o => exact ext_union u o

theorem inv_run {u : U} (ops : List Op) (hI : Inv u) : Inv (ops.foldl step u) := by
  induction ops generalizing u with
  | nil => exact hI
  | cons op ops ih => exact ih (inv_step op hI)

theorem ext_run (u : U) (ops : List Op) : Ext u (ops.foldl step u) := by
  induction ops generalizing u with
  | nil => exact Ext.refl u
  | cons op ops ih => exact (ext_step u op).trans (ih _)

/-- no operation ever un-freezes a list -/
theorem frozen_step (u : U) (op : Op) :
    (u.frozenU = true → (step u op).frozenU = true) ∧ (u.frozenC = true → (step u op).frozenC = true) := by
  cases op with
  | mention k =>
    rcases step_mention u k with h | h
    · rw [h]; exact ⟨id, id⟩
    · obtain ⟨he, _⟩ := getItem_ok h
      rw [he]; exact ⟨id, id⟩
  | eq k v =>
    obtain ⟨ks, cs, he, _, _⟩ := eqPred_fst u k v
    show (_ → (eqPred u k v).1.frozenU = true) ∧ (_ → (eqPred u k v).1.frozenC = true)
    rw [he]; exact ⟨id, id⟩
  | union o =>
    show (_ → (u.frozenU || o.frozenU) = true) ∧ (_ → (u.frozenC || o.frozenC) = true)
    exact ⟨fun h => by simp [h], fun h => by simp [h]⟩

theorem frozen_run (u : U) (ops : List Op) :
    (u.frozenU = true → (ops.foldl step u).frozenU = true) ∧
    (u.frozenC = true → (ops.foldl step u).frozenC = true) := by
  induction ops generalizing u with
  | nil => exact ⟨id, id⟩
  | cons op ops ih =>
    exact ⟨fun h => (ih _).1 ((frozen_step u op).1 h), fun h => (ih _).2 ((frozen_step u op).2 h)⟩

/-! ### `fromData` -/

theorem fromData_eq_ok_iff {u : U} {d : Nat × Nat} {k v : Int} :
    fromData u d = .ok (k, v) ↔ u.keys[d.1]? = some k ∧ u.cands[d.2]? = some v := by
  unfold fromData
  cases h1 : u.keys[d.1]? <;> cases h2 : u.cands[d.2]? <;> simp [pure, Except.pure, throw, throwThe, MonadExceptOf.throw]

theorem fromData_of_ext {u u' : U} (h : Ext u u') {d : Nat × Nat} {kv : Int × Int}
    (hd : fromData u d = .ok kv) : fromData u' d = .ok kv := by
  obtain ⟨k, v⟩ := kv
  rw [fromData_eq_ok_iff] at hd ⊢
  exact ⟨getElem?_of_prefix h.1 hd.1, getElem?_of_prefix h.2 hd.2⟩

/-- decoding the pair of positions returns the pair -/
theorem fromData_idxOf {u : U} {k v : Int} (hk : k ∈ u.keys) (hv : v ∈ u.cands) :
    fromData u (u.keys.idxOf k, u.cands.idxOf v) = .ok (k, v) :=
  fromData_eq_ok_iff.2 ⟨getElem?_idxOf hk, getElem?_idxOf hv⟩

/-- under the invariant the decoding is injective: only the pair of positions decodes to `(k, v)` -/
theorem fromData_eq_ok_iff_of_inv {u : U} (hI : Inv u) {d : Nat × Nat} {k v : Int} :
    fromData u d = .ok (k, v) ↔
      (k ∈ u.keys ∧ v ∈ u.cands) ∧ d = (u.keys.idxOf k, u.cands.idxOf v) := by
  rw [fromData_eq_ok_iff, getElem?_eq_some_iff_idxOf hI.1, getElem?_eq_some_iff_idxOf hI.2]
  obtain ⟨d1, d2⟩ := d
  simp only [Prod.mk.injEq]
  constructor
  · rintro ⟨⟨a, b⟩, c, e⟩; exact ⟨⟨a, c⟩, b, e⟩
  · rintro ⟨⟨a, c⟩, b, e⟩; exact ⟨⟨a, b⟩, c, e⟩

/-! ### mentioning keys one after the other -/

theorem mention_fold_of_not_frozen (u : U) (ks : List Int) (hf : u.frozenU = false) :
    ks.foldl (fun u k => (getItem u k).toOption.getD u) u = { u with keys := addAll u.keys ks } := by
  induction ks generalizing u with
  | nil => rfl
  | cons k ks ih =>
    rw [List.foldl_cons]
    have h1 : (getItem u k).toOption.getD u = { u with keys := addNew u.keys k } := by
      by_cases hk : k ∈ u.keys
      · rw [getItem_of_mem hk, addNew_of_mem hk]; rfl
      · rw [getItem_new hk hf, addNew_of_not_mem hk]; rfl
    have h2 := ih { u with keys := addNew u.keys k } hf
    rw [h1, h2]
    rfl

/-- position of a key = number of distinct keys mentioned before its first mention -/
theorem idxOf_addAll_first {l pre post : List Int} {k : Int} (hk : k ∉ l) (hp : k ∉ pre) :
    (addAll l (pre ++ k :: post)).idxOf k = (addAll l pre).length := by
  rw [addAll_append, addAll_cons]
  have hn : k ∉ addAll l pre := fun h => (mem_addAll.1 h).elim hk hp
  rw [idxOf_of_prefix (prefix_addAll _ post) (self_mem_addNew _ k), idxOf_addNew_self hn]

end DsProofs.Units
