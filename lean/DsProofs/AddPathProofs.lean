import DsProofs.BruteProofs
import DsProofs.AValProofs
import DsProofs.ProvProofs
import DsProofs.KernelProofs
import Ds.Oracle
import Mathlib.Data.List.Perm.Basic
import Mathlib.Algebra.BigOperators.Group.List.Basic

/-!
# Helper lemmas for the ADD scoring path (`Ds.Oracle.pointUnit`, `Ds.Oracle.scores`) — property C02

Given the oracle counts (`Ds.Oracle.countSpec`), the triple loop of `compute_shapley_add` over boundary
pairs and tallies is re-summed over coalitions and shown to be the marginal form of the Shapley value
of the K-NN game `Ds.Oracle.knnValue`.
-/

open Finset

namespace AddPath
open Ds Ds.Oracle

/-! ### generic list lemmas -/

theorem sum_map_filter {α : Type} (l : List α) (q : α → Bool) (g : α → ℚ) :
    ((l.filter q).map g).sum = (l.map (fun x => if q x then g x else 0)).sum := by
  induction l with
  | nil => simp
  | cons x l ih =>
    by_cases h : q x <;> simp [h, ih]

theorem sum_map_comm {α β : Type} (l1 : List α) (l2 : List β) (f : α → β → ℚ) :
    (l1.map (fun x => (l2.map (f x)).sum)).sum = (l2.map (fun y => (l1.map (fun x => f x y)).sum)).sum := by
  induction l1 with
  | nil => simp
  | cons x l ih =>
    simp only [List.map_cons, List.sum_cons, ih]
    rw [← List.sum_map_add]

theorem sum_map_mul_left' {α : Type} (l : List α) (cst : ℚ) (g : α → ℚ) :
    (l.map (fun x => cst * g x)).sum = cst * (l.map g).sum := by
  induction l with
  | nil => simp
  | cons x l ih => simp [ih, mul_add]

/-- a sum over a duplicate-free list in which only `x0` contributes -/
theorem sum_map_single {α : Type} [DecidableEq α] (l : List α) (hl : l.Nodup) (x0 : α) (g : α → ℚ)
    (h : ∀ x ∈ l, x ≠ x0 → g x = 0) :
    (l.map g).sum = if x0 ∈ l then g x0 else 0 := by
  induction l with
  | nil => simp
  | cons x l ih =>
    rw [List.nodup_cons] at hl
    simp only [List.map_cons, List.sum_cons, List.mem_cons]
    rw [ih hl.2 (fun y hy => h y (List.mem_cons_of_mem _ hy))]
    by_cases hx : x = x0
    · subst hx
      rw [if_neg hl.1, if_pos (Or.inl rfl)]; ring
    · rw [h x List.mem_cons_self hx]
      by_cases hm : x0 ∈ l
      · rw [if_pos hm, if_pos (Or.inr hm)]; ring
      · rw [if_neg hm, if_neg (by rintro (e | e); exacts [hx e.symm, hm e])]; ring

/-! ### strictly sorted lists -/

theorem filter_le_sorted (f : ℕ → ℚ) (pre suf : List ℕ) (t : ℕ)
    (h : (pre ++ t :: suf).Pairwise (fun x y => f x < f y)) :
    (pre ++ t :: suf).filter (fun r => decide (f r ≤ f t)) = pre ++ [t] := by
  rw [List.pairwise_append] at h
  obtain ⟨_, h2, h3⟩ := h
  rw [List.pairwise_cons] at h2
  rw [List.filter_append, List.filter_cons]
  have e1 : pre.filter (fun r => decide (f r ≤ f t)) = pre := by
    rw [List.filter_eq_self]
    intro a ha
    simpa using le_of_lt (h3 a ha t List.mem_cons_self)
  have e2 : suf.filter (fun r => decide (f r ≤ f t)) = [] := by
    rw [List.filter_eq_nil_iff]
    intro a ha
    simpa using h2.1 a ha
  rw [e1, e2]; simp

/-- in a strictly sorted list, exactly the `K`-th element has `K` elements no larger than itself -/
theorem sum_sorted_aux (f : ℕ → ℚ) (K : ℕ) (H : List ℕ → ℚ) (L : List ℕ)
    (hL : L.Pairwise (fun x y => f x < f y)) :
    ∀ (suf pre : List ℕ), L = pre ++ suf →
      (suf.map (fun t => if (L.filter (fun r => decide (f r ≤ f t))).length = K
          then H (L.filter (fun r => decide (f r ≤ f t))) else 0)).sum
        = if pre.length < K ∧ K ≤ L.length then H (L.take K) else 0 := by
  intro suf
  induction suf with
  | nil =>
    intro pre hp
    have : ¬ (pre.length < K ∧ K ≤ L.length) := by
      rw [hp]; simp
    rw [if_neg this]; simp
  | cons t suf ih =>
    intro pre hp
    have hf : L.filter (fun r => decide (f r ≤ f t)) = pre ++ [t] := by
      rw [hp]; exact filter_le_sorted f pre suf t (hp ▸ hL)
    have hp' : L = (pre ++ [t]) ++ suf := by rw [hp]; simp
    rw [List.map_cons, List.sum_cons, ih (pre ++ [t]) hp', hf]
    have hlen : L.length = pre.length + 1 + suf.length := by rw [hp]; simp; omega
    simp only [List.length_append, List.length_cons, List.length_nil, zero_add]
    by_cases h1 : pre.length + 1 = K
    · have ht : L.take K = pre ++ [t] := by
        rw [hp', ← h1, List.take_left' (by simp)]
      rw [if_pos h1, if_neg (by omega), if_pos (by omega), ht]; ring
    · rw [if_neg h1]
      by_cases h2 : pre.length + 1 < K ∧ K ≤ L.length
      · rw [if_pos h2, if_pos (by omega)]; ring
      · rw [if_neg h2, if_neg (by omega)]; ring

theorem sum_sorted (f : ℕ → ℚ) (K : ℕ) (hK : 1 ≤ K) (H : List ℕ → ℚ) (L : List ℕ)
    (hL : L.Pairwise (fun x y => f x < f y)) :
    (L.map (fun t => if (L.filter (fun r => decide (f r ≤ f t))).length = K
        then H (L.filter (fun r => decide (f r ≤ f t))) else 0)).sum
      = if K ≤ L.length then H (L.take K) else 0 := by
  rw [sum_sorted_aux f K H L hL L [] rfl]
  by_cases h : K ≤ L.length
  · rw [if_pos h, if_pos ⟨by simp only [List.length_nil]; omega, h⟩]
  · rw [if_neg h, if_neg (fun h' => h h'.2)]

/-! ### tallies -/

/-- label tally of a list of rows (the expression used by `knnValue` and `countSpec`) -/
def tallyL (c : ℕ) (labels rows : List ℕ) : List ℕ :=
  (List.range c).map (fun k => (rows.filter (fun r => labels.getD r 0 == k)).length)

theorem tallyL_length (c : ℕ) (labels rows : List ℕ) : (tallyL c labels rows).length = c := by
  simp [tallyL]

theorem tallyL_perm (c : ℕ) (labels : List ℕ) {r1 r2 : List ℕ} (h : r1.Perm r2) :
    tallyL c labels r1 = tallyL c labels r2 := by
  unfold tallyL
  apply List.map_congr_left
  intro k _
  exact (h.filter _).length_eq

theorem sum_range_ite (c l : ℕ) :
    ((List.range c).map (fun k => if (l == k) = true then 1 else 0)).sum = if l < c then 1 else 0 := by
  induction c with
  | zero => simp
  | succ c ih =>
    rw [List.range_succ, List.map_append, List.sum_append, ih]
    by_cases h1 : l < c
    · have : ¬ l = c := by omega
      simp [h1, this]; omega
    · by_cases h2 : l = c
      · simp [h2]
      · have : ¬ l < c + 1 := by omega
        simp [h1, h2, this]

theorem tallyL_sum (c : ℕ) (labels rows : List ℕ) (h : ∀ r ∈ rows, labels.getD r 0 < c) :
    (tallyL c labels rows).sum = rows.length := by
  induction rows with
  | nil => simp [tallyL]
  | cons r rows ih =>
    have e : tallyL c labels (r :: rows) = (List.range c).map (fun k =>
        (if (labels.getD r 0 == k) = true then 1 else 0)
          + (rows.filter (fun r => labels.getD r 0 == k)).length) := by
      unfold tallyL
      apply List.map_congr_left
      intro k _
      by_cases hk : (labels.getD r 0 == k) = true
      · rw [List.filter_cons_of_pos hk, if_pos hk, List.length_cons]; omega
      · rw [List.filter_cons_of_neg hk, if_neg hk]; omega
    rw [e, List.sum_map_add, sum_range_ite, if_pos (h r List.mem_cons_self)]
    have := ih (fun r hr => h r (List.mem_cons_of_mem _ hr))
    unfold tallyL at this
    rw [this, List.length_cons]; omega

/-! ### present rows -/

/-- row `r` is present under the coalition `a` (all its units are switched on) -/
def rowPresent (p : Prov.P) (a : List ℕ) (r : ℕ) : Bool :=
  (rowUnits (p.data.getD r [])).all (fun u => a.getD u 0 == 1)

theorem presentRows_eq (p : Prov.P) (a : List ℕ) :
    presentRows p a = (List.range p.data.length).filter (rowPresent p a) := rfl

theorem mem_presentRows (p : Prov.P) (a : List ℕ) (r : ℕ) :
    r ∈ presentRows p a ↔ r < p.data.length ∧ rowPresent p a r = true := by
  rw [presentRows_eq, List.mem_filter, List.mem_range]

/-- the present rows in the order of increasing distance -/
def sortedPresent (p : Prov.P) (order a : List ℕ) : List ℕ := order.filter (presentRows p a).contains

theorem sortedPresent_perm (p : Prov.P) (order a : List ℕ) (hp : order.Perm (List.range p.data.length)) :
    (sortedPresent p order a).Perm (presentRows p a) := by
  unfold sortedPresent
  refine (hp.filter _).trans ?_
  rw [presentRows_eq]
  apply List.Perm.of_eq
  apply List.filter_congr
  intro r hr
  rw [← presentRows_eq]
  by_cases h : rowPresent p a r = true
  · rw [h]; simp [mem_presentRows, h, List.mem_range.mp hr]
  · simp [mem_presentRows, h]

theorem sortedPresent_sorted (p : Prov.P) (dist : List ℚ) (order a : List ℕ)
    (hs : order.Pairwise (fun r s => dist.getD r 0 < dist.getD s 0)) :
    (sortedPresent p order a).Pairwise (fun r s => dist.getD r 0 < dist.getD s 0) :=
  hs.filter _

/-- rows among the present ones that are no farther than the boundary `b` (`none`: all) -/
def rowsLe (p : Prov.P) (dist : List ℚ) (a : List ℕ) (b : Option ℕ) : List ℕ :=
  (presentRows p a).filter (fun r => match b with | none => true | some b => dist.getD b 0 ≥ dist.getD r 0)

def tallyOf (p : Prov.P) (labels : List ℕ) (dist : List ℚ) (c : ℕ) (a : List ℕ) (b : Option ℕ) : List ℕ :=
  tallyL c labels (rowsLe p dist a b)

def okB (p : Prov.P) (a : List ℕ) : Option ℕ → Bool
  | none => true
  | some b => rowPresent p a b

def capK (K : ℕ) (l : List ℕ) : Option (List ℕ) := if l.sum ≤ K then some l else none

/-- the predicate counted by `countSpec` -/
def ind (p : Prov.P) (labels : List ℕ) (dist : List ℚ) (c K i : ℕ) (bw bwo : Option ℕ) (t : ℕ) (w wo a : List ℕ) :
    Bool :=
  okB p (a.set i 1) bw && okB p a bwo && a.sum == t && capK K (tallyOf p labels dist c (a.set i 1) bw) == some w
    && capK K (tallyOf p labels dist c a bwo) == some wo

theorem countSpec_eq (p : Prov.P) (labels : List ℕ) (dist : List ℚ) (c K i : ℕ) (bw bwo : Option ℕ) (t : ℕ)
    (w wo : List ℕ) :
    countSpec p labels dist c K i bw bwo t w wo
      = ((allAssign p.nUnits).filter (fun a => a.getD i 0 == 0)).countP (ind p labels dist c K i bw bwo t w wo) := by
  unfold countSpec ind
  congr 1
  funext a
  cases bw <;> cases bwo <;> rfl

theorem knnValue_eq (p : Prov.P) (labels order : List ℕ) (util : List ℚ) (null : ℚ) (K c : ℕ) (a : List ℕ) :
    knnValue p labels order util null K c a
      = if ((sortedPresent p order a).take K).length < K then null
        else util.getD (argmaxFirst (tallyL c labels ((sortedPresent p order a).take K))) 0 := rfl

end AddPath
