import DsProofs.BruteProofs
import DsProofs.AValProofs
import DsProofs.ProvProofs
import DsProofs.KernelProofs
import Ds.Oracle
import Mathlib.Data.List.Perm.Basic
import Mathlib.Algebra.BigOperators.Group.List.Basic

/-!
# Helper lemmas for the ADD scoring path (`Ds.Oracle.pointUnit`, `Ds.Oracle.scores`) — property C02

Given the oracle counts (`Ds.Oracle.countSpec`), the triple loop of `compute_shapley_add` over boundary
pairs and tallies is re-summed over coalitions and shown to be the marginal form of the Shapley value
of the K-NN game `Ds.Oracle.knnValue`.
-/

open Finset

namespace AddPath
open Ds Ds.Oracle

/-! ### generic list lemmas -/

theorem sum_map_filter {α : Type} (l : List α) (q : α → Bool) (g : α → ℚ) :
    ((l.filter q).map g).sum = (l.map (fun x => if q x then g x else 0)).sum := by
  induction l with
  | nil => simp
  | cons x l ih =>
    by_cases h : q x <;> simp [h, ih]

theorem sum_map_comm {α β : Type} (l1 : List α) (l2 : List β) (f : α → β → ℚ) :
    (l1.map (fun x => (l2.map (f x)).sum)).sum = (l2.map (fun y => (l1.map (fun x => f x y)).sum)).sum := by
  induction l1 with
  | nil => simp
  | cons x l ih =>
    simp only [List.map_cons, List.sum_cons, ih]
    rw [← List.sum_map_add]

theorem sum_map_mul_left' {α : Type} (l : List α) (cst : ℚ) (g : α → ℚ) :
    (l.map (fun x => cst * g x)).sum = cst * (l.map g).sum := by
  induction l with
  | nil => simp
  | cons x l ih => simp [ih, mul_add]

/-- a sum over a duplicate-free list in which only `x0` contributes -/
theorem sum_map_single {α : Type} [DecidableEq α] (l : List α) (hl : l.Nodup) (x0 : α) (g : α → ℚ)
    (h : ∀ x ∈ l, x ≠ x0 → g x = 0) :
    (l.map g).sum = if x0 ∈ l then g x0 else 0 := by
  induction l with
  | nil => simp
  | cons x l ih =>
    rw [List.nodup_cons] at hl
    simp only [List.map_cons, List.sum_cons, List.mem_cons]
    rw [ih hl.2 (fun y hy => h y (List.mem_cons_of_mem _ hy))]
    by_cases hx : x = x0
    · subst hx
      rw [if_neg hl.1, if_pos (Or.inl rfl)]; ring
    · rw [h x List.mem_cons_self hx]
      by_cases hm : x0 ∈ l
      · rw [if_pos hm, if_pos (Or.inr hm)]; ring
      · rw [if_neg hm, if_neg (by rintro (e | e); exacts [hx e.symm, hm e])]; ring

/-! ### strictly sorted lists -/

theorem filter_le_sorted (f : ℕ → ℚ) (pre suf : List ℕ) (t : ℕ)
    (h : (pre ++ t :: suf).Pairwise (fun x y => f x < f y)) :
    (pre ++ t :: suf).filter (fun r => decide (f r ≤ f t)) = pre ++ [t] := by
  rw [List.pairwise_append] at h
  obtain ⟨_, h2, h3⟩ := h
  rw [List.pairwise_cons] at h2
  rw [List.filter_append, List.filter_cons]
  have e1 : pre.filter (fun r => decide (f r ≤ f t)) = pre := by
    rw [List.filter_eq_self]
    intro a ha
    simpa using le_of_lt (h3 a ha t List.mem_cons_self)
  have e2 : suf.filter (fun r => decide (f r ≤ f t)) = [] := by
    rw [List.filter_eq_nil_iff]
    intro a ha
    simpa using h2.1 a ha
  rw [e1, e2]; simp

/-- in a strictly sorted list, exactly the `K`-th element has `K` elements no larger than itself -/
theorem sum_sorted_aux (f : ℕ → ℚ) (K : ℕ) (H : List ℕ → ℚ) (L : List ℕ)
    (hL : L.Pairwise (fun x y => f x < f y)) :
    ∀ (suf pre : List ℕ), L = pre ++ suf →
      (suf.map (fun t => if (L.filter (fun r => decide (f r ≤ f t))).length = K
          then H (L.filter (fun r => decide (f r ≤ f t))) else 0)).sum
        = if pre.length < K ∧ K ≤ L.length then H (L.take K) else 0 := by
  intro suf
  induction suf with
  | nil =>
    intro pre hp
    have : ¬ (pre.length < K ∧ K ≤ L.length) := by
      rw [hp]; simp
    rw [if_neg this]; simp
  | cons t suf ih =>
    intro pre hp
    have hf : L.filter (fun r => decide (f r ≤ f t)) = pre ++ [t] := by
      rw [hp]; exact filter_le_sorted f pre suf t (hp ▸ hL)
    have hp' : L = (pre ++ [t]) ++ suf := by rw [hp]; simp
    rw [List.map_cons, List.sum_cons, ih (pre ++ [t]) hp', hf]
    have hlen : L.length = pre.length + 1 + suf.length := by rw [hp]; simp; omega
    simp only [List.length_append, List.length_cons, List.length_nil, zero_add]
    by_cases h1 : pre.length + 1 = K
    · have ht : L.take K = pre ++ [t] := by
        rw [hp', ← h1, List.take_left' (by simp)]
      rw [if_pos h1, if_neg (by omega), if_pos (by omega), ht]; ring
    · rw [if_neg h1]
      by_cases h2 : pre.length + 1 < K ∧ K ≤ L.length
      · rw [if_pos h2, if_pos (by omega)]; ring
      · rw [if_neg h2, if_neg (by omega)]; ring

theorem sum_sorted (f : ℕ → ℚ) (K : ℕ) (hK : 1 ≤ K) (H : List ℕ → ℚ) (L : List ℕ)
    (hL : L.Pairwise (fun x y => f x < f y)) :
    (L.map (fun t => if (L.filter (fun r => decide (f r ≤ f t))).length = K
        then H (L.filter (fun r => decide (f r ≤ f t))) else 0)).sum
      = if K ≤ L.length then H (L.take K) else 0 := by
  rw [sum_sorted_aux f K H L hL L [] rfl]
  by_cases h : K ≤ L.length
  · rw [if_pos h, if_pos ⟨by simp only [List.length_nil]; omega, h⟩]
  · rw [if_neg h, if_neg (fun h' => h h'.2)]

/-! ### tallies -/

/-- label tally of a list of rows (the expression used by `knnValue` and `countSpec`) -/
def tallyL (c : ℕ) (labels rows : List ℕ) : List ℕ :=
  (List.range c).map (fun k => (rows.filter (fun r => labels.getD r 0 == k)).length)

theorem tallyL_length (c : ℕ) (labels rows : List ℕ) : (tallyL c labels rows).length = c := by
  simp [tallyL]

theorem tallyL_perm (c : ℕ) (labels : List ℕ) {r1 r2 : List ℕ} (h : r1.Perm r2) :
    tallyL c labels r1 = tallyL c labels r2 := by
  unfold tallyL
  apply List.map_congr_left
  intro k _
  exact (h.filter _).length_eq

theorem sum_range_ite (c l : ℕ) :
    ((List.range c).map (fun k => if (l == k) = true then 1 else 0)).sum = if l < c then 1 else 0 := by
  induction c with
  | zero => simp
  | succ c ih =>
    rw [List.range_succ, List.map_append, List.sum_append, ih]
    by_cases h1 : l < c
    · have : ¬ l = c := by omega
      simp [h1, this]; omega
    · by_cases h2 : l = c
      · simp [h2]
      · have : ¬ l < c + 1 := by omega
        simp [h1, h2, this]

theorem tallyL_sum (c : ℕ) (labels rows : List ℕ) (h : ∀ r ∈ rows, labels.getD r 0 < c) :
    (tallyL c labels rows).sum = rows.length := by
  induction rows with
  | nil => simp [tallyL]
  | cons r rows ih =>
    have e : tallyL c labels (r :: rows) = (List.range c).map (fun k =>
        (if (labels.getD r 0 == k) = true then 1 else 0)
          + (rows.filter (fun r => labels.getD r 0 == k)).length) := by
      unfold tallyL
      apply List.map_congr_left
      intro k _
      by_cases hk : (labels.getD r 0 == k) = true
      · rw [List.filter_cons, if_pos hk, if_pos hk, List.length_cons]; omega
      · rw [List.filter_cons, if_neg hk, if_neg hk]; omega
    rw [e, List.sum_map_add, sum_range_ite, if_pos (h r List.mem_cons_self)]
    have := ih (fun r hr => h r (List.mem_cons_of_mem _ hr))
    unfold tallyL at this
    rw [this, List.length_cons]; omega

/-! ### present rows -/

/-- row `r` is present under the coalition `a` (all its units are switched on) -/
def rowPresent (p : Prov.P) (a : List ℕ) (r : ℕ) : Bool :=
  (rowUnits (p.data.getD r [])).all (fun u => a.getD u 0 == 1)

theorem presentRows_eq (p : Prov.P) (a : List ℕ) :
    presentRows p a = (List.range p.data.length).filter (rowPresent p a) := rfl

theorem mem_presentRows (p : Prov.P) (a : List ℕ) (r : ℕ) :
    r ∈ presentRows p a ↔ r < p.data.length ∧ rowPresent p a r = true := by
  rw [presentRows_eq, List.mem_filter, List.mem_range]

/-- the present rows in the order of increasing distance -/
def sortedPresent (p : Prov.P) (order a : List ℕ) : List ℕ := order.filter (presentRows p a).contains

theorem sortedPresent_perm (p : Prov.P) (order a : List ℕ) (hp : order.Perm (List.range p.data.length)) :
    (sortedPresent p order a).Perm (presentRows p a) := by
  unfold sortedPresent
  refine (hp.filter _).trans ?_
  rw [presentRows_eq]
  apply List.Perm.of_eq
  apply List.filter_congr
  intro r hr
  rw [← presentRows_eq]
  by_cases h : rowPresent p a r = true
  · rw [h]; simp [mem_presentRows, h, List.mem_range.mp hr]
  · simp [mem_presentRows, h]

theorem sortedPresent_sorted (p : Prov.P) (dist : List ℚ) (order a : List ℕ)
    (hs : order.Pairwise (fun r s => dist.getD r 0 < dist.getD s 0)) :
    (sortedPresent p order a).Pairwise (fun r s => dist.getD r 0 < dist.getD s 0) :=
  hs.filter _

/-- rows among the present ones that are no farther than the boundary `b` (`none`: all) -/
def rowsLe (p : Prov.P) (dist : List ℚ) (a : List ℕ) (b : Option ℕ) : List ℕ :=
  (presentRows p a).filter (fun r => match b with | none => true | some b => dist.getD b 0 ≥ dist.getD r 0)

def tallyOf (p : Prov.P) (labels : List ℕ) (dist : List ℚ) (c : ℕ) (a : List ℕ) (b : Option ℕ) : List ℕ :=
  tallyL c labels (rowsLe p dist a b)

def okB (p : Prov.P) (a : List ℕ) : Option ℕ → Bool
  | none => true
  | some b => rowPresent p a b

def capK (K : ℕ) (l : List ℕ) : Option (List ℕ) := if l.sum ≤ K then some l else none

/-- the predicate counted by `countSpec` -/
def ind (p : Prov.P) (labels : List ℕ) (dist : List ℚ) (c K i : ℕ) (bw bwo : Option ℕ) (t : ℕ) (w wo a : List ℕ) :
    Bool :=
  okB p (a.set i 1) bw && okB p a bwo && a.sum == t && capK K (tallyOf p labels dist c (a.set i 1) bw) == some w
    && capK K (tallyOf p labels dist c a bwo) == some wo

theorem countSpec_eq (p : Prov.P) (labels : List ℕ) (dist : List ℚ) (c K i : ℕ) (bw bwo : Option ℕ) (t : ℕ)
    (w wo : List ℕ) :
    countSpec p labels dist c K i bw bwo t w wo
      = ((allAssign p.nUnits).filter (fun a => a.getD i 0 == 0)).countP (ind p labels dist c K i bw bwo t w wo) := by
  cases bw <;> cases bwo <;> rfl

theorem knnValue_eq (p : Prov.P) (labels order : List ℕ) (util : List ℚ) (null : ℚ) (K c : ℕ) (a : List ℕ) :
    knnValue p labels order util null K c a
      = if ((sortedPresent p order a).take K).length < K then null
        else util.getD (argmaxFirst (tallyL c labels ((sortedPresent p order a).take K))) 0 := rfl

/-! ### the boundary row is the `K`-th nearest present row -/

theorem rowsLe_some_perm (p : Prov.P) (dist : List ℚ) (order a : List ℕ) (t : ℕ)
    (hp : order.Perm (List.range p.data.length)) :
    (rowsLe p dist a (some t)).Perm
      ((sortedPresent p order a).filter (fun r => decide (dist.getD r 0 ≤ dist.getD t 0))) := by
  have e : rowsLe p dist a (some t)
      = (presentRows p a).filter (fun r => decide (dist.getD r 0 ≤ dist.getD t 0)) := by
    unfold rowsLe
    apply List.filter_congr
    intro r _
    simp
  rw [e]
  exact ((sortedPresent_perm p order a hp).symm).filter _

theorem sel_some (p : Prov.P) (labels : List ℕ) (dist : List ℚ) (order : List ℕ) (c K : ℕ) (a : List ℕ)
    (hK : 1 ≤ K) (hp : order.Perm (List.range p.data.length))
    (hs : order.Pairwise (fun r s => dist.getD r 0 < dist.getD s 0))
    (hlab : ∀ r < p.data.length, labels.getD r 0 < c) (G : List ℕ → ℚ) :
    ((List.range p.data.length).map (fun t =>
        if okB p a (some t) = true ∧ (tallyOf p labels dist c a (some t)).sum = K
        then G (tallyOf p labels dist c a (some t)) else 0)).sum
      = if K ≤ (presentRows p a).length then G (tallyL c labels ((sortedPresent p order a).take K)) else 0 := by
  have hperm := sortedPresent_perm p order a hp
  have hsorted := sortedPresent_sorted p dist order a hs
  have ha : ((List.range p.data.length).map (fun t =>
        if okB p a (some t) = true ∧ (tallyOf p labels dist c a (some t)).sum = K
        then G (tallyOf p labels dist c a (some t)) else 0)).sum
      = ((presentRows p a).map (fun t => if (tallyOf p labels dist c a (some t)).sum = K
          then G (tallyOf p labels dist c a (some t)) else 0)).sum := by
    rw [presentRows_eq, sum_map_filter]
    apply congrArg List.sum
    apply List.map_congr_left
    intro t _
    simp only [okB]
    by_cases h : rowPresent p a t = true <;> simp [h]
  rw [ha, ← (hperm.map _).sum_eq]
  have hc : (sortedPresent p order a).map (fun t => if (tallyOf p labels dist c a (some t)).sum = K
          then G (tallyOf p labels dist c a (some t)) else 0)
      = (sortedPresent p order a).map (fun t =>
          if ((sortedPresent p order a).filter (fun r => decide (dist.getD r 0 ≤ dist.getD t 0))).length = K
          then G (tallyL c labels ((sortedPresent p order a).filter (fun r => decide (dist.getD r 0 ≤ dist.getD t 0))))
          else 0) := by
    apply List.map_congr_left
    intro t _
    have e1 : tallyOf p labels dist c a (some t)
        = tallyL c labels ((sortedPresent p order a).filter (fun r => decide (dist.getD r 0 ≤ dist.getD t 0))) :=
      tallyL_perm c labels (rowsLe_some_perm p dist order a t hp)
    have e2 : (tallyL c labels ((sortedPresent p order a).filter
        (fun r => decide (dist.getD r 0 ≤ dist.getD t 0)))).sum
          = ((sortedPresent p order a).filter (fun r => decide (dist.getD r 0 ≤ dist.getD t 0))).length := by
      apply tallyL_sum
      intro r hr
      have h1 : r ∈ presentRows p a := hperm.subset (List.mem_filter.mp hr).1
      exact hlab r ((mem_presentRows p a r).mp h1).1
    rw [e1, e2]
  rw [hc, sum_sorted (fun r => dist.getD r 0) K hK (fun X => G (tallyL c labels X)) _ hsorted, hperm.length_eq]

theorem tallyOf_none_sum (p : Prov.P) (labels : List ℕ) (dist : List ℚ) (c : ℕ) (a : List ℕ)
    (hlab : ∀ r < p.data.length, labels.getD r 0 < c) :
    (tallyOf p labels dist c a none).sum = (presentRows p a).length := by
  have e : rowsLe p dist a none = presentRows p a := by
    unfold rowsLe
    rw [List.filter_eq_self]
    intro r _; rfl
  unfold tallyOf
  rw [e]
  apply tallyL_sum
  intro r hr
  exact hlab r ((mem_presentRows p a r).mp hr).1

theorem sortedPresent_length (p : Prov.P) (order a : List ℕ) (hp : order.Perm (List.range p.data.length)) :
    (sortedPresent p order a).length = (presentRows p a).length :=
  (sortedPresent_perm p order a hp).length_eq

/-- value of a coalition in terms of the number of present rows -/
theorem knnValue_eq' (p : Prov.P) (labels order : List ℕ) (util : List ℚ) (null : ℚ) (K c : ℕ) (a : List ℕ)
    (hp : order.Perm (List.range p.data.length)) :
    knnValue p labels order util null K c a
      = if K ≤ (presentRows p a).length
        then util.getD (argmaxFirst (tallyL c labels ((sortedPresent p order a).take K))) 0 else null := by
  rw [knnValue_eq, List.length_take, sortedPresent_length p order a hp]
  by_cases h : K ≤ (presentRows p a).length
  · rw [if_pos h, if_neg (by omega)]
  · rw [if_neg h, if_pos (by omega)]

/-! ### monotonicity of presence -/

theorem getD_set_one (a : List ℕ) (i u : ℕ) (h : a.getD u 0 = 1) : (a.set i 1).getD u 0 = 1 := by
  rw [List.getD_eq_getElem?_getD] at h ⊢
  rw [List.getElem?_set]
  by_cases hiu : i = u
  · subst hiu
    by_cases hl : i < a.length
    · simp [hl]
    · rw [List.getElem?_eq_none (by omega)] at h; simp at h
  · rw [if_neg hiu]; exact h

theorem rowPresent_mono (p : Prov.P) (a a' : List ℕ) (h : ∀ u, a.getD u 0 = 1 → a'.getD u 0 = 1) (r : ℕ)
    (hr : rowPresent p a r = true) : rowPresent p a' r = true := by
  unfold rowPresent at hr ⊢
  rw [List.all_eq_true] at hr ⊢
  intro u hu
  have := hr u hu
  simp only [beq_iff_eq] at this ⊢
  exact h u this

theorem presentRows_mono (p : Prov.P) (a a' : List ℕ) (h : ∀ u, a.getD u 0 = 1 → a'.getD u 0 = 1) :
    (presentRows p a).Sublist (presentRows p a') := by
  rw [presentRows_eq, presentRows_eq]
  exact List.monotone_filter_right _ (fun r hr => rowPresent_mono p a a' h r hr)

theorem presentRows_length_set (p : Prov.P) (a : List ℕ) (i : ℕ) :
    (presentRows p a).length ≤ (presentRows p (a.set i 1)).length :=
  (presentRows_mono p a _ (getD_set_one a i)).length_le

/-! ### decoding domain vectors -/

def vT (vec : List ℕ) : ℕ := vec.headD 0
def vW (c : ℕ) (vec : List ℕ) : List ℕ := (vec.drop 1).take c
def vWo (c : ℕ) (vec : List ℕ) : List ℕ := (vec.drop (1 + c)).take c

theorem vW_enc (c t : ℕ) (w wo : List ℕ) (hw : w.length = c) : vW c (t :: (w ++ wo)) = w := by
  simp [vW, ← hw]

theorem vWo_enc (c t : ℕ) (w wo : List ℕ) (hw : w.length = c) (hwo : wo.length = c) :
    vWo c (t :: (w ++ wo)) = wo := by
  unfold vWo
  rw [Nat.add_comm 1 c, List.drop_succ_cons, ← hw, List.drop_left, hw, ← hwo, List.take_length]

theorem enc_dec (c : ℕ) (vec : List ℕ) (h : vec.length = 1 + 2 * c) : vec = vT vec :: (vW c vec ++ vWo c vec) := by
  cases vec with
  | nil => simp at h; omega
  | cons t x =>
    simp only [List.length_cons] at h
    unfold vT vW vWo
    simp only [List.headD_cons, Nat.add_comm 1 c, List.drop_succ_cons, List.drop_zero]
    rw [List.take_of_length_le (l := x.drop c) (by simp; omega), List.take_append_drop]

/-- `term` without the count -/
def termUnit (n K c : ℕ) (utilJ : List ℚ) (nullJ : ℚ) (t2 : Option ℕ) (vec : List ℕ) : ℚ :=
  if (vW c vec).sum != K || (t2.isSome && (vWo c vec).sum != K) || (t2.isNone && (vWo c vec).sum ≥ K) then 0
  else
    (1 / ((choose (n - 1) (vT vec) : ℕ) : ℚ)) *
      (utilJ.getD (argmaxFirst (vW c vec)) 0 -
        (match t2 with
          | some _ => utilJ.getD (argmaxFirst (vWo c vec)) 0
          | none => nullJ))

theorem term_eq (n K c : ℕ) (utilJ : List ℚ) (nullJ : ℚ) (t2 : Option ℕ) (vec : List ℕ) (cnt : ℕ) :
    term n K c utilJ nullJ t2 vec (cnt : ℤ) = (cnt : ℚ) * termUnit n K c utilJ nullJ t2 vec := by
  unfold term termUnit vT vW vWo
  rcases Nat.eq_zero_or_pos cnt with h0 | hpos
  · subst h0; simp
  · have hd : decide ((cnt : ℤ) ≤ 0) = false := by
      rw [decide_eq_false_iff_not]; omega
    simp only [hd, Bool.false_or]
    split
    · simp
    · cases t2 <;> simp <;> ring

/-! ### for a fixed coalition the sum over tallies collapses -/

theorem capK_eq (K : ℕ) (l w : List ℕ) : capK K l = some w ↔ l.sum ≤ K ∧ l = w := by
  unfold capK
  by_cases h : l.sum ≤ K <;> simp [h]

theorem ind_iff (p : Prov.P) (labels : List ℕ) (dist : List ℚ) (c K i : ℕ) (bw bwo : Option ℕ) (t : ℕ)
    (w wo a : List ℕ) :
    ind p labels dist c K i bw bwo t w wo a = true ↔
      okB p (a.set i 1) bw = true ∧ okB p a bwo = true ∧ a.sum = t ∧
        ((tallyOf p labels dist c (a.set i 1) bw).sum ≤ K ∧ tallyOf p labels dist c (a.set i 1) bw = w) ∧
        ((tallyOf p labels dist c a bwo).sum ≤ K ∧ tallyOf p labels dist c a bwo = wo) := by
  unfold ind
  simp only [Bool.and_eq_true, beq_iff_eq, capK_eq, and_assoc]

theorem tallyOf_length (p : Prov.P) (labels : List ℕ) (dist : List ℚ) (c : ℕ) (a : List ℕ) (b : Option ℕ) :
    (tallyOf p labels dist c a b).length = c := tallyL_length _ _ _

theorem vec_collapse (p : Prov.P) (labels : List ℕ) (dist : List ℚ) (c K i : ℕ) (t1 : ℕ) (t2 : Option ℕ)
    (a : List ℕ) (g : List ℕ → ℚ) (ha : a.sum ≤ p.nUnits - 1) :
    ((Dom.tally (p.nUnits - 1) K c).vecs.map (fun vec =>
        (if ind p labels dist c K i (some t1) t2 (vT vec) (vW c vec) (vWo c vec) a = true then (1 : ℚ) else 0)
          * g vec)).sum
      = if okB p (a.set i 1) (some t1) = true ∧ okB p a t2 = true ∧
            (tallyOf p labels dist c (a.set i 1) (some t1)).sum ≤ K ∧ (tallyOf p labels dist c a t2).sum ≤ K
        then g (a.sum :: (tallyOf p labels dist c (a.set i 1) (some t1) ++ tallyOf p labels dist c a t2))
        else 0 := by
  set T1 := tallyOf p labels dist c (a.set i 1) (some t1) with hT1
  set T2 := tallyOf p labels dist c a t2 with hT2
  have l1 : T1.length = c := tallyOf_length _ _ _ _ _ _
  have l2 : T2.length = c := tallyOf_length _ _ _ _ _ _
  rw [sum_map_single _ (Dom.nodup_vecs _) (a.sum :: (T1 ++ T2))]
  · have e3 : vW c (a.sum :: (T1 ++ T2)) = T1 := vW_enc c a.sum T1 T2 l1
    have e4 : vWo c (a.sum :: (T1 ++ T2)) = T2 := vWo_enc c a.sum T1 T2 l1 l2
    have e5 : vT (a.sum :: (T1 ++ T2)) = a.sum := rfl
    have hmem : (a.sum :: (T1 ++ T2)) ∈ (Dom.tally (p.nUnits - 1) K c).vecs ↔ T1.sum ≤ K ∧ T2.sum ≤ K := by
      rw [Dom.mem_vecs, Dom.ok_tally_iff]
      have e1 := e3
      have e2 := e4
      unfold vW at e1
      unfold vWo at e2
      rw [e1, e2]
      have hlen : (a.sum :: (T1 ++ T2)).length = 1 + 2 * c := by simp [l1, l2]; omega
      constructor
      · intro h; exact ⟨h.2.2.1, h.2.2.2⟩
      · intro h; exact ⟨hlen, ha, h.1, h.2⟩
    rw [e3, e4, e5]
    by_cases hc : okB p (a.set i 1) (some t1) = true ∧ okB p a t2 = true ∧ T1.sum ≤ K ∧ T2.sum ≤ K
    · rw [if_pos hc, if_pos (hmem.mpr hc.2.2),
        if_pos ((ind_iff ..).mpr ⟨hc.1, hc.2.1, rfl, ⟨hc.2.2.1, rfl⟩, ⟨hc.2.2.2, rfl⟩⟩)]
      ring
    · rw [if_neg hc]
      split
      · rw [if_neg (fun h => hc (by
          have h' := (ind_iff ..).mp h
          exact ⟨h'.1, h'.2.1, h'.2.2.2.1.1, h'.2.2.2.2.1⟩))]
        ring
      · rfl
  · intro vec hvec hne
    have hlen : vec.length = 1 + 2 * c := ((Dom.ok_tally_iff _ _ _ _).mp ((Dom.mem_vecs _ _).mp hvec)).1
    have : ¬ ind p labels dist c K i (some t1) t2 (vT vec) (vW c vec) (vWo c vec) a = true := by
      rw [ind_iff]
      intro h
      apply hne
      rw [enc_dec c vec hlen, ← h.2.2.1, ← h.2.2.2.1.2, ← h.2.2.2.2.2]
    rw [if_neg this]; ring

/-! ### contribution of one coalition -/

theorem termUnit_some (n K c : ℕ) (utilJ : List ℚ) (nullJ : ℚ) (t : ℕ) (vec : List ℕ) :
    termUnit n K c utilJ nullJ (some t) vec
      = if (vW c vec).sum = K ∧ (vWo c vec).sum = K
        then (1 / ((choose (n - 1) (vT vec) : ℕ) : ℚ)) *
          (utilJ.getD (argmaxFirst (vW c vec)) 0 - utilJ.getD (argmaxFirst (vWo c vec)) 0)
        else 0 := by
  unfold termUnit
  by_cases h1 : (vW c vec).sum = K <;> by_cases h2 : (vWo c vec).sum = K <;> simp [h1, h2]

theorem termUnit_none (n K c : ℕ) (utilJ : List ℚ) (nullJ : ℚ) (vec : List ℕ) :
    termUnit n K c utilJ nullJ none vec
      = if (vW c vec).sum = K ∧ (vWo c vec).sum < K
        then (1 / ((choose (n - 1) (vT vec) : ℕ) : ℚ)) * (utilJ.getD (argmaxFirst (vW c vec)) 0 - nullJ)
        else 0 := by
  unfold termUnit
  by_cases h1 : (vW c vec).sum = K <;> by_cases h2 : (vWo c vec).sum < K <;> simp [h1, h2]

theorem sum_pairs {α β : Type} (l1 : List α) (l2 : List β) (x x' : α → ℚ) (y y' : β → ℚ) (w : ℚ) :
    ((l1.flatMap (fun s => l2.map (fun t => (s, t)))).map
        (fun tp => w * (x tp.1 * y tp.2 - x' tp.1 * y' tp.2))).sum
      = w * ((l1.map x).sum * (l2.map y).sum - (l1.map x').sum * (l2.map y').sum) := by
  have inner : ∀ s : α, ((l2.map (fun t => (s, t))).map
        (fun tp => w * (x tp.1 * y tp.2 - x' tp.1 * y' tp.2))).sum
      = w * (x s * (l2.map y).sum - x' s * (l2.map y').sum) := by
    intro s
    induction l2 with
    | nil => simp
    | cons t l2 ih =>
      simp only [List.map_cons, List.sum_cons] at ih ⊢
      rw [ih]; ring
  induction l1 with
  | nil => simp
  | cons s l1 ih =>
    rw [List.flatMap_cons, List.map_append, List.sum_append, ih, inner]
    simp only [List.map_cons, List.sum_cons]
    ring

/-- the value the loop adds for the boundary pair `(t1, t2)` and the coalition `a` after the sum over
tallies has collapsed -/
def pairTerm (p : Prov.P) (labels : List ℕ) (dist : List ℚ) (utilJ : List ℚ) (nullJ : ℚ) (c K i : ℕ)
    (a : List ℕ) (tp : ℕ × Option ℕ) : ℚ :=
  if okB p (a.set i 1) (some tp.1) = true ∧ okB p a tp.2 = true ∧
      (tallyOf p labels dist c (a.set i 1) (some tp.1)).sum ≤ K ∧ (tallyOf p labels dist c a tp.2).sum ≤ K
  then termUnit p.nUnits K c utilJ nullJ tp.2
    (a.sum :: (tallyOf p labels dist c (a.set i 1) (some tp.1) ++ tallyOf p labels dist c a tp.2))
  else 0

def selB (p : Prov.P) (labels : List ℕ) (dist : List ℚ) (c K : ℕ) (a : List ℕ) (G : List ℕ → ℚ) (nl : ℚ) :
    Option ℕ → ℚ
  | some t => if okB p a (some t) = true ∧ (tallyOf p labels dist c a (some t)).sum = K
      then G (tallyOf p labels dist c a (some t)) else 0
  | none => if (tallyOf p labels dist c a none).sum < K then nl else 0

theorem pairTerm_factor (p : Prov.P) (labels : List ℕ) (dist : List ℚ) (utilJ : List ℚ) (nullJ : ℚ) (c K i : ℕ)
    (a : List ℕ) (tp : ℕ × Option ℕ) :
    pairTerm p labels dist utilJ nullJ c K i a tp
      = (1 / ((choose (p.nUnits - 1) a.sum : ℕ) : ℚ)) *
        (selB p labels dist c K (a.set i 1) (fun T => utilJ.getD (argmaxFirst T) 0) 0 (some tp.1)
            * selB p labels dist c K a (fun _ => 1) 1 tp.2
          - selB p labels dist c K (a.set i 1) (fun _ => 1) 0 (some tp.1)
            * selB p labels dist c K a (fun T => utilJ.getD (argmaxFirst T) 0) nullJ tp.2) := by
  obtain ⟨t1, t2⟩ := tp
  unfold pairTerm
  simp only
  set T1 := tallyOf p labels dist c (a.set i 1) (some t1) with hT1
  set T2 := tallyOf p labels dist c a t2 with hT2
  have l1 : T1.length = c := tallyOf_length _ _ _ _ _ _
  have l2 : T2.length = c := tallyOf_length _ _ _ _ _ _
  have e3 : vW c (a.sum :: (T1 ++ T2)) = T1 := vW_enc c a.sum T1 T2 l1
  have e4 : vWo c (a.sum :: (T1 ++ T2)) = T2 := vWo_enc c a.sum T1 T2 l1 l2
  have e5 : vT (a.sum :: (T1 ++ T2)) = a.sum := rfl
  cases t2 with
  | none =>
    rw [termUnit_none, e3, e4, e5]
    simp only [selB, ← hT1, ← hT2, okB]
    by_cases h1 : rowPresent p (a.set i 1) t1 = true <;> by_cases h3 : T1.sum = K <;>
      by_cases h4 : T2.sum < K <;> simp [h1, h3, h4]
    all_goals (intros; omega)
  | some t2 =>
    rw [termUnit_some, e3, e4, e5]
    simp only [selB, ← hT1, ← hT2, okB]
    by_cases h1 : rowPresent p (a.set i 1) t1 = true <;> by_cases h2 : rowPresent p a t2 = true <;>
      by_cases h3 : T1.sum = K <;> by_cases h4 : T2.sum = K <;> simp [h1, h2, h3, h4]

/-- the boundaries `t2` ranges over -/
def bnds (R : ℕ) : List (Option ℕ) := (List.range R).map some ++ [none]

theorem boundaryPairs_eq (R : ℕ) :
    boundaryPairs R = (List.range R).flatMap (fun t1 => (bnds R).map (fun t2 => (t1, t2))) := rfl

theorem mem_boundaryPairs (R : ℕ) (tp : ℕ × Option ℕ) :
    tp ∈ boundaryPairs R ↔ tp.1 < R ∧ ∀ t, tp.2 = some t → t < R := by
  obtain ⟨t1, t2⟩ := tp
  rw [boundaryPairs_eq]
  simp only [bnds, List.mem_flatMap, List.mem_range, List.mem_map, List.mem_append, List.mem_singleton,
    Prod.mk.injEq]
  constructor
  · rintro ⟨s, hs, t, ht, rfl, rfl⟩
    refine ⟨hs, ?_⟩
    rcases ht with ⟨u, hu, rfl⟩ | rfl
    · intro t ht; cases ht; exact hu
    · intro t ht; cases ht
  · rintro ⟨h1, h2⟩
    refine ⟨t1, h1, t2, ?_, rfl, rfl⟩
    cases t2 with
    | none => right; rfl
    | some t => left; exact ⟨t, h2 t rfl, rfl⟩

theorem sum_bnds (R : ℕ) (y : Option ℕ → ℚ) :
    ((bnds R).map y).sum = ((List.range R).map (fun t => y (some t))).sum + y none := by
  simp [bnds, List.map_append, List.sum_append, List.map_map, Function.comp_def]

/-- **per-coalition identity**: for a fixed coalition the double loop over boundary pairs adds the
marginal contribution of the target unit, weighted by `1 / C(n-1, |S|)` -/
theorem contrib (p : Prov.P) (labels : List ℕ) (dist : List ℚ) (order : List ℕ) (utilJ : List ℚ) (nullJ : ℚ)
    (c K i : ℕ) (a : List ℕ) (hK : 1 ≤ K) (hp : order.Perm (List.range p.data.length))
    (hs : order.Pairwise (fun r s => dist.getD r 0 < dist.getD s 0))
    (hlab : ∀ r < p.data.length, labels.getD r 0 < c) :
    ((boundaryPairs p.data.length).map (pairTerm p labels dist utilJ nullJ c K i a)).sum
      = (1 / ((choose (p.nUnits - 1) a.sum : ℕ) : ℚ)) *
        (knnValue p labels order utilJ nullJ K c (a.set i 1) - knnValue p labels order utilJ nullJ K c a) := by
  have e : (boundaryPairs p.data.length).map (pairTerm p labels dist utilJ nullJ c K i a)
      = (boundaryPairs p.data.length).map (fun tp => (1 / ((choose (p.nUnits - 1) a.sum : ℕ) : ℚ)) *
        ((fun t1 => selB p labels dist c K (a.set i 1) (fun T => utilJ.getD (argmaxFirst T) 0) 0 (some t1)) tp.1
            * selB p labels dist c K a (fun _ => 1) 1 tp.2
          - (fun t1 => selB p labels dist c K (a.set i 1) (fun _ => 1) 0 (some t1)) tp.1
            * selB p labels dist c K a (fun T => utilJ.getD (argmaxFirst T) 0) nullJ tp.2)) := by
    apply List.map_congr_left
    intro tp _
    exact pairTerm_factor p labels dist utilJ nullJ c K i a tp
  rw [e, boundaryPairs_eq,
    sum_pairs (List.range p.data.length) (bnds p.data.length)
      (fun t1 => selB p labels dist c K (a.set i 1) (fun T => utilJ.getD (argmaxFirst T) 0) 0 (some t1))
      (fun t1 => selB p labels dist c K (a.set i 1) (fun _ => 1) 0 (some t1))
      (selB p labels dist c K a (fun _ => 1) 1)
      (selB p labels dist c K a (fun T => utilJ.getD (argmaxFirst T) 0) nullJ),
    sum_bnds, sum_bnds]
  simp only [selB]
  rw [sel_some p labels dist order c K (a.set i 1) hK hp hs hlab (fun T => utilJ.getD (argmaxFirst T) 0),
    sel_some p labels dist order c K (a.set i 1) hK hp hs hlab (fun _ => 1),
    sel_some p labels dist order c K a hK hp hs hlab (fun T => utilJ.getD (argmaxFirst T) 0),
    sel_some p labels dist order c K a hK hp hs hlab (fun _ => 1),
    tallyOf_none_sum p labels dist c a hlab, knnValue_eq' _ _ _ _ _ _ _ _ hp, knnValue_eq' _ _ _ _ _ _ _ _ hp]
  have hmono := presentRows_length_set p a i
  by_cases h1 : K ≤ (presentRows p (a.set i 1)).length
  · by_cases h2 : K ≤ (presentRows p a).length
    · have h3 : ¬ (presentRows p a).length < K := by omega
      simp only [if_pos h1, if_pos h2, if_neg h3]; ring
    · have h3 : (presentRows p a).length < K := by omega
      simp only [if_pos h1, if_neg h2, if_pos h3]; ring
  · have h2 : ¬ K ≤ (presentRows p a).length := by omega
    have h3 : (presentRows p a).length < K := by omega
    simp only [if_neg h1, if_neg h2, if_pos h3]; ring

/-! ### the oracle hypothesis and the value of `pointUnit` -/

/-- **Oracle hypothesis** (what property C09 provides): every query with a row as `with` boundary and a
row or `None` as `without` boundary returns one count per domain value, and the count of the `k`-th
valid tally is the by-definition count `countSpec`. -/
def OracleSpec (p : Prov.P) (labels : List ℕ) (dist : List ℚ) (K c : ℕ)
    (b : Built (Dom.tally (p.nUnits - 1) K c)) (i : ℕ) : Prop :=
  ∀ t1 < p.data.length, ∀ t2 : Option ℕ, (∀ t, t2 = some t → t < p.data.length) →
    ∃ counts : List ℤ, query c b p.data.length i (some t1) t2 = .ok counts ∧
      counts.length = (Dom.tally (p.nUnits - 1) K c).vecs.length + 1 ∧
      ∀ k (hk : k < (Dom.tally (p.nUnits - 1) K c).vecs.length),
        counts.getD k 0 =
          ((countSpec p labels dist c K i (some t1) t2
            (((Dom.tally (p.nUnits - 1) K c).vecs[k]).headD 0)
            ((((Dom.tally (p.nUnits - 1) K c).vecs[k]).drop 1).take c)
            ((((Dom.tally (p.nUnits - 1) K c).vecs[k]).drop (1 + c)).take c) : ℕ) : ℤ)

theorem zip_map_spec {α : Type} (l : List α) (cs : List ℤ) (s : α → ℤ) (F : α → ℤ → ℚ)
    (h1 : l.length ≤ cs.length) (h2 : ∀ k (hk : k < l.length), cs.getD k 0 = s l[k]) :
    (l.zip cs).map (fun vc => F vc.1 vc.2) = l.map (fun v => F v (s v)) := by
  apply List.ext_getElem
  · simp; omega
  · intro k hk1 hk2
    have hk : k < l.length := by simpa using hk2
    have hc : k < cs.length := by omega
    have := h2 k hk
    rw [List.getD_eq_getElem?_getD, List.getElem?_eq_getElem hc, Option.getD_some] at this
    simp [this]

theorem pointUnit_value (p : Prov.P) (labels : List ℕ) (dist : List ℚ) (K c : ℕ)
    (b : Built (Dom.tally (p.nUnits - 1) K c)) (utilJ : List ℚ) (nullJ : ℚ) (i : ℕ)
    (hq : OracleSpec p labels dist K c b i) :
    pointUnit p.nUnits K c p.data.length b utilJ nullJ i
      = .ok (((boundaryPairs p.data.length).map (fun tp =>
          ((Dom.tally (p.nUnits - 1) K c).vecs.map (fun vec =>
            term p.nUnits K c utilJ nullJ tp.2 vec
              ((countSpec p labels dist c K i (some tp.1) tp.2 (vT vec) (vW c vec) (vWo c vec) : ℕ) : ℤ))).sum)).sum) := by
  unfold pointUnit
  rw [Prov.mapM_ok_of _ (fun tp =>
          ((Dom.tally (p.nUnits - 1) K c).vecs.map (fun vec =>
            term p.nUnits K c utilJ nullJ tp.2 vec
              ((countSpec p labels dist c K i (some tp.1) tp.2 (vT vec) (vW c vec) (vWo c vec) : ℕ) : ℤ))).sum)]
  · rfl
  · intro tp htp
    obtain ⟨h1, h2⟩ := (mem_boundaryPairs _ tp).mp htp
    obtain ⟨counts, hc1, hc2, hc3⟩ := hq tp.1 h1 tp.2 h2
    rw [hc1]
    show Except.ok _ = Except.ok _
    congr 2
    exact zip_map_spec _ counts
      (fun vec => ((countSpec p labels dist c K i (some tp.1) tp.2 (vT vec) (vW c vec) (vWo c vec) : ℕ) : ℤ))
      (fun vec cnt => term p.nUnits K c utilJ nullJ tp.2 vec cnt) (by omega) hc3

/-! ### exchange of summation: from boundary pairs and tallies to coalitions -/

theorem countP_cast {α : Type} (q : α → Bool) (l : List α) :
    ((l.countP q : ℕ) : ℚ) = (l.map (fun a => if q a = true then (1 : ℚ) else 0)).sum := by
  induction l with
  | nil => simp
  | cons x l ih =>
    rw [List.countP_cons, List.map_cons, List.sum_cons, ← ih]
    by_cases h : q x = true <;> simp [h]; ring

/-- coalitions without the target unit, as the code enumerates them -/
def coalitions (n i : ℕ) : List (List ℕ) := (allAssign n).filter (fun a => a.getD i 0 == 0)

theorem sum_le_of_coalition {n i : ℕ} (hi : i < n) {a : List ℕ} (ha : a ∈ coalitions n i) : a.sum ≤ n - 1 := by
  unfold coalitions at ha
  rw [List.mem_filter] at ha
  obtain ⟨ha1, ha2⟩ := ha
  rw [← BruteP.card_toSet ha1]
  have hsub : BruteP.toSet n a ⊆ (Finset.univ.erase (⟨i, hi⟩ : Fin n)) := by
    intro j hj
    rw [Finset.mem_erase]
    refine ⟨?_, Finset.mem_univ _⟩
    rintro rfl
    simp only [BruteP.toSet, Finset.mem_filter, Finset.mem_univ, true_and] at hj
    simp only [beq_iff_eq] at ha2
    omega
  have := Finset.card_le_card hsub
  rw [Finset.card_erase_of_mem (Finset.mem_univ _), Finset.card_univ, Fintype.card_fin] at this
  exact this

theorem pointUnit_sum (p : Prov.P) (labels : List ℕ) (dist : List ℚ) (order : List ℕ) (K c : ℕ)
    (utilJ : List ℚ) (nullJ : ℚ) (i : ℕ) (hi : i < p.nUnits) (hK : 1 ≤ K)
    (hp : order.Perm (List.range p.data.length))
    (hs : order.Pairwise (fun r s => dist.getD r 0 < dist.getD s 0))
    (hlab : ∀ r < p.data.length, labels.getD r 0 < c) :
    ((boundaryPairs p.data.length).map (fun tp =>
          ((Dom.tally (p.nUnits - 1) K c).vecs.map (fun vec =>
            term p.nUnits K c utilJ nullJ tp.2 vec
              ((countSpec p labels dist c K i (some tp.1) tp.2 (vT vec) (vW c vec) (vWo c vec) : ℕ) : ℤ))).sum)).sum
      = ((coalitions p.nUnits i).map (fun a => (1 / ((choose (p.nUnits - 1) a.sum : ℕ) : ℚ)) *
          (knnValue p labels order utilJ nullJ K c (a.set i 1) - knnValue p labels order utilJ nullJ K c a))).sum := by
  -- the count is a sum of indicators
  have e1 : ∀ (tp : ℕ × Option ℕ) (vec : List ℕ),
      term p.nUnits K c utilJ nullJ tp.2 vec
          ((countSpec p labels dist c K i (some tp.1) tp.2 (vT vec) (vW c vec) (vWo c vec) : ℕ) : ℤ)
        = ((coalitions p.nUnits i).map (fun a =>
            (if ind p labels dist c K i (some tp.1) tp.2 (vT vec) (vW c vec) (vWo c vec) a = true then (1 : ℚ) else 0)
              * termUnit p.nUnits K c utilJ nullJ tp.2 vec)).sum := by
    intro tp vec
    rw [term_eq, countSpec_eq, countP_cast, ← List.sum_map_mul_right]
    rfl
  simp only [e1]
  -- exchange the order of summation
  have e2 : ∀ tp : ℕ × Option ℕ,
      ((Dom.tally (p.nUnits - 1) K c).vecs.map (fun vec => ((coalitions p.nUnits i).map (fun a =>
            (if ind p labels dist c K i (some tp.1) tp.2 (vT vec) (vW c vec) (vWo c vec) a = true then (1 : ℚ) else 0)
              * termUnit p.nUnits K c utilJ nullJ tp.2 vec)).sum)).sum
        = ((coalitions p.nUnits i).map (fun a => ((Dom.tally (p.nUnits - 1) K c).vecs.map (fun vec =>
            (if ind p labels dist c K i (some tp.1) tp.2 (vT vec) (vW c vec) (vWo c vec) a = true then (1 : ℚ) else 0)
              * termUnit p.nUnits K c utilJ nullJ tp.2 vec)).sum)).sum := fun tp => sum_map_comm _ _ _
  simp only [e2]
  rw [sum_map_comm]
  apply congrArg List.sum
  apply List.map_congr_left
  intro a ha
  rw [← contrib p labels dist order utilJ nullJ c K i a hK hp hs hlab]
  apply congrArg List.sum
  apply List.map_congr_left
  intro tp _
  rw [vec_collapse p labels dist c K i tp.1 tp.2 a _ (sum_le_of_coalition hi ha)]
  rfl

/-! ### from the enumeration of coalitions to the marginal form of the Shapley value -/

theorem allAssign_getElem {n : ℕ} {a : List ℕ} (ha : a ∈ allAssign n) (k : ℕ) (hk : k < a.length) :
    a[k] = 0 ∨ a[k] = 1 := (BruteP.mem_allAssign ha).2 _ (List.getElem_mem hk)

theorem ofSet_toSet {n : ℕ} {a : List ℕ} (ha : a ∈ allAssign n) : BruteP.ofSet (BruteP.toSet n a) = a := by
  have hl := (BruteP.mem_allAssign ha).1
  apply List.ext_getElem
  · simp [BruteP.ofSet, hl]
  · intro k h1 h2
    have h01 := allAssign_getElem ha k h2
    simp only [BruteP.ofSet, List.getElem_ofFn, BruteP.toSet, Finset.mem_filter, Finset.mem_univ, true_and,
      List.getD_eq_getElem?_getD, List.getElem?_eq_getElem h2, Option.getD_some]
    rcases h01 with e | e <;> simp [e]

theorem set_eq_ofSet {n : ℕ} {a : List ℕ} (ha : a ∈ allAssign n) (i : Fin n) :
    a.set i.val 1 = BruteP.ofSet (insert i (BruteP.toSet n a)) := by
  have hl := (BruteP.mem_allAssign ha).1
  apply List.ext_getElem
  · simp [BruteP.ofSet, hl]
  · intro k h1 h2
    have hk : k < a.length := by simpa using h1
    have h01 := allAssign_getElem ha k hk
    simp only [BruteP.ofSet, List.getElem_ofFn, BruteP.toSet, Finset.mem_insert, Finset.mem_filter,
      Finset.mem_univ, true_and, List.getD_eq_getElem?_getD, List.getElem?_eq_getElem hk, Option.getD_some,
      List.getElem_set, Fin.ext_iff]
    by_cases hik : i.val = k
    · simp [hik]
    · have : ¬ k = i.val := fun h => hik h.symm
      rcases h01 with e | e <;> simp [e, hik, this]

theorem coalition_sum_eq_phiM (n : ℕ) (val : List ℕ → ℚ) (i : Fin n) :
    ((coalitions n i.val).map (fun a => (1 / ((choose (n - 1) a.sum : ℕ) : ℚ)) * (val (a.set i.val 1) - val a))).sum
      = (n : ℚ) * Sh.phiM (fun S => val (BruteP.ofSet S)) i := by
  classical
  have hn : (n : ℚ) ≠ 0 := by
    have : 0 < n := i.pos
    exact_mod_cast this.ne'
  unfold coalitions
  rw [sum_map_filter]
  have e : ∀ a ∈ allAssign n,
      (if (a.getD i.val 0 == 0) = true
        then (1 / ((choose (n - 1) a.sum : ℕ) : ℚ)) * (val (a.set i.val 1) - val a) else 0)
      = (fun S : Finset (Fin n) => if i ∈ S then 0
          else (n : ℚ) * (Sh.w n S.card * (val (BruteP.ofSet (insert i S)) - val (BruteP.ofSet S))))
        (BruteP.toSet n a) := by
    intro a ha
    have hl := (BruteP.mem_allAssign ha).1
    have hil : i.val < a.length := by rw [hl]; exact i.isLt
    have h01 := allAssign_getElem ha i.val hil
    have hmem : i ∈ BruteP.toSet n a ↔ a[i.val] = 1 := by
      simp [BruteP.toSet, List.getD_eq_getElem?_getD, List.getElem?_eq_getElem hil]
    have hg : a.getD i.val 0 = a[i.val] := by
      simp [List.getD_eq_getElem?_getD, List.getElem?_eq_getElem hil]
    simp only [hg, beq_iff_eq]
    rcases h01 with e0 | e1
    · have hni : i ∉ BruteP.toSet n a := by rw [hmem, e0]; simp
      rw [if_pos e0, if_neg hni, ← set_eq_ofSet ha i, ofSet_toSet ha, BruteP.card_toSet ha, BruteP.choose_eq]
      have hlt : a.sum + 1 ≤ n := by
        have hc : (BruteP.toSet n a).card < n := by
          have : BruteP.toSet n a ⊂ Finset.univ := by
            rw [Finset.ssubset_univ_iff]; intro h; rw [h] at hni; exact hni (Finset.mem_univ i)
          simpa using Finset.card_lt_card this
        rw [BruteP.card_toSet ha] at hc; omega
      rw [BruteP.w_eq n a.sum hlt]
      have hc : (((n - 1).choose a.sum : ℕ) : ℚ) ≠ 0 := by
        exact_mod_cast (Nat.choose_pos (by omega)).ne'
      field_simp
    · have hi' : i ∈ BruteP.toSet n a := hmem.mpr e1
      rw [if_neg (by rw [e1]; simp), if_pos hi']
  rw [List.map_congr_left e, BruteP.sum_allAssign n (fun S : Finset (Fin n) => if i ∈ S then 0
          else (n : ℚ) * (Sh.w n S.card * (val (BruteP.ofSet (insert i S)) - val (BruteP.ofSet S))))]
  unfold Sh.phiM
  rw [Finset.mul_sum, Finset.sum_ite, Finset.sum_const_zero, zero_add]
  have hnot : (univ.filter (fun S : Finset (Fin n) => ¬ i ∈ S)) = (univ.erase i).powerset := by
    ext S; simp [Finset.mem_powerset, Finset.subset_erase]
  rw [hnot]

/-! ### the K-NN game and the two main statements -/

/-- **The K-NN utility game of one validation point** over the units `0 … n-1` of a (conjunctive)
provenance: the value of a coalition `S` is `Ds.Oracle.knnValue` on the indicator list of `S`, i.e. the
utility of the majority label (lowest class on ties) among the `K` nearest rows all of whose units are
in `S`, and the null value when fewer than `K` rows are present. -/
def knnGame (p : Prov.P) (labels order : List ℕ) (util : List ℚ) (null : ℚ) (K c : ℕ) : Sh.Game p.nUnits :=
  fun S => knnValue p labels order util null K c (BruteP.ofSet S)

theorem point_core (p : Prov.P) (labels : List ℕ) (dist : List ℚ) (order : List ℕ) (K c : ℕ)
    (b : Built (Dom.tally (p.nUnits - 1) K c)) (utilJ : List ℚ) (nullJ : ℚ) (i : Fin p.nUnits)
    (hK : 1 ≤ K) (hp : order.Perm (List.range p.data.length))
    (hs : order.Pairwise (fun r s => dist.getD r 0 < dist.getD s 0))
    (hlab : ∀ r < p.data.length, labels.getD r 0 < c)
    (hq : OracleSpec p labels dist K c b i.val) :
    pointUnit p.nUnits K c p.data.length b utilJ nullJ i.val
      = .ok ((p.nUnits : ℚ) * Sh.phiM (knnGame p labels order utilJ nullJ K c) i) := by
  rw [pointUnit_value p labels dist K c b utilJ nullJ i.val hq,
    pointUnit_sum p labels dist order K c utilJ nullJ i.val i.isLt hK hp hs hlab,
    coalition_sum_eq_phiM p.nUnits (knnValue p labels order utilJ nullJ K c) i]
  rfl

theorem bind_ok {α β : Type} (a : α) (f : α → Except Err β) : (Except.ok a >>= f) = f a := rfl

theorem getD_range_map' {n : ℕ} (f : ℕ → ℚ) {i : ℕ} (hi : i < n) :
    ((List.range n).map f).getD i 0 = f i := by
  simp [List.getD_eq_getElem?_getD, hi]

theorem scores_value (p : Prov.P) (labels : List ℕ) (dist util : List (List ℚ)) (nulls : List ℚ) (K c : ℕ)
    (orders : ℕ → List ℕ) (hK : 1 ≤ K)
    (hp : ∀ j < nulls.length, (orders j).Perm (List.range p.data.length))
    (hs : ∀ j < nulls.length,
      (orders j).Pairwise (fun r s => (dist.map (·.getD j 0)).getD r 0 < (dist.map (·.getD j 0)).getD s 0))
    (hlab : ∀ r < p.data.length, labels.getD r 0 < c)
    (hb : ∀ j < nulls.length, ∃ b : Built (Dom.tally (p.nUnits - 1) K c),
      build (Dom.tally (p.nUnits - 1) K c) c p labels (dist.map (·.getD j 0)) = .ok b ∧
        ∀ i < p.nUnits, OracleSpec p labels (dist.map (·.getD j 0)) K c b i) :
    scores p labels dist util nulls K c
      = .ok ((List.range p.nUnits).map (fun i =>
          (((List.range nulls.length).map (fun j => (List.range p.nUnits).map (fun i =>
              if h : i < p.nUnits then (p.nUnits : ℚ) *
                Sh.phiM (knnGame p labels (orders j) (util.map (·.getD j 0)) (nulls.getD j 0) K c) ⟨i, h⟩
              else 0))).map (·.getD i 0)).sum / (((p.nUnits * nulls.length : ℕ)) : ℚ))) := by
  simp only [scores]
  rw [Prov.mapM_ok_of _ (fun j => (List.range p.nUnits).map (fun i =>
              if h : i < p.nUnits then (p.nUnits : ℚ) *
                Sh.phiM (knnGame p labels (orders j) (util.map (·.getD j 0)) (nulls.getD j 0) K c) ⟨i, h⟩
              else 0))]
  · rfl
  · intro j hj
    have hj' : j < nulls.length := List.mem_range.mp hj
    obtain ⟨b, hb1, hb2⟩ := hb j hj'
    rw [hb1, bind_ok]
    apply Prov.mapM_ok_of
    intro i hi
    have hi' : i < p.nUnits := List.mem_range.mp hi
    have hs' := hs j hj'
    have hp' := hp j hj'
    have hq' := hb2 i hi'
    generalize dist.map (·.getD j 0) = dj at hs' hq'
    have hpc := point_core p labels dj (orders j) K c b (util.map (·.getD j 0))
      (nulls.getD j 0) ⟨i, hi'⟩ hK hp' hs' hlab hq'
    rw [dif_pos hi']
    exact hpc

/-- entry `i` of the closed form of `scores_value` is the Shapley value of the mean game -/
theorem mean_entry (n m : ℕ) (g : ℕ → Sh.Game n) (i : Fin n) :
    (((List.range m).map (fun j => (List.range n).map (fun i =>
        if h : i < n then (n : ℚ) * Sh.phiM (g j) ⟨i, h⟩ else 0))).map (·.getD i.val 0)).sum
          / (((n * m : ℕ)) : ℚ)
      = Sh.phiM (fun S => (∑ j ∈ Finset.range m, g j S) / (m : ℚ)) i := by
  have hn : (n : ℚ) ≠ 0 := by
    have : 0 < n := i.pos
    exact_mod_cast this.ne'
  have hg : (fun S : Finset (Fin n) => (∑ j ∈ Finset.range m, g j S) / (m : ℚ))
      = fun S => (1 / (m : ℚ)) * ∑ j ∈ Finset.range m, g j S := by
    funext S; ring
  rw [hg, Sh.phiM_eq_phi, Sh.phi_smul, Sh.phi_sum, List.map_map]
  have e : ((fun x : List ℚ => x.getD i.val 0) ∘ fun j => (List.range n).map (fun i =>
        if h : i < n then (n : ℚ) * Sh.phiM (g j) ⟨i, h⟩ else 0))
      = fun j => (n : ℚ) * Sh.phi (g j) i := by
    funext j
    simp only [Function.comp]
    rw [getD_range_map' _ i.isLt, dif_pos i.isLt, Sh.phiM_eq_phi]
  rw [e, sum_map_mul_left', BruteP.sum_range_map, Nat.cast_mul, ← div_div, mul_div_cancel_left₀ _ hn]
  ring

/-! ### executable checks of the hypotheses (used by the concrete instances) -/

/-- `OracleSpec` as a Boolean check -/
def oracleCheck (p : Prov.P) (labels : List ℕ) (dist : List ℚ) (K c : ℕ)
    (b : Built (Dom.tally (p.nUnits - 1) K c)) (i : ℕ) : Bool :=
  (boundaryPairs p.data.length).all (fun tp =>
    match query c b p.data.length i (some tp.1) tp.2 with
    | .ok counts =>
        counts.length == (Dom.tally (p.nUnits - 1) K c).vecs.length + 1 &&
        (List.range (Dom.tally (p.nUnits - 1) K c).vecs.length).all (fun k =>
          counts.getD k 0 ==
            ((countSpec p labels dist c K i (some tp.1) tp.2
              (vT ((Dom.tally (p.nUnits - 1) K c).vecs.getD k []))
              (vW c ((Dom.tally (p.nUnits - 1) K c).vecs.getD k []))
              (vWo c ((Dom.tally (p.nUnits - 1) K c).vecs.getD k [])) : ℕ) : ℤ))
    | .error _ => false)

theorem oracleCheck_sound (p : Prov.P) (labels : List ℕ) (dist : List ℚ) (K c : ℕ)
    (b : Built (Dom.tally (p.nUnits - 1) K c)) (i : ℕ) (h : oracleCheck p labels dist K c b i = true) :
    OracleSpec p labels dist K c b i := by
  intro t1 ht1 t2 ht2
  have h' := List.all_eq_true.mp h (t1, t2) ((mem_boundaryPairs _ _).mpr ⟨ht1, ht2⟩)
  simp only at h'
  cases hq : query c b p.data.length i (some t1) t2 with
  | error e => rw [hq] at h'; simp at h'
  | ok counts =>
    rw [hq] at h'
    simp only [Bool.and_eq_true, beq_iff_eq, List.all_eq_true, List.mem_range] at h'
    refine ⟨counts, rfl, h'.1, ?_⟩
    intro k hk
    have := h'.2 k hk
    rw [List.getD_eq_getElem?_getD (l := (Dom.tally (p.nUnits - 1) K c).vecs),
      List.getElem?_eq_getElem hk, Option.getD_some] at this
    exact this

/-- `build` succeeds and the oracle hypothesis holds for every unit, as a Boolean check -/
def buildCheck (p : Prov.P) (labels : List ℕ) (dist : List ℚ) (K c : ℕ) : Bool :=
  match build (Dom.tally (p.nUnits - 1) K c) c p labels dist with
  | .ok b => (List.range p.nUnits).all (oracleCheck p labels dist K c b)
  | .error _ => false

theorem buildCheck_sound (p : Prov.P) (labels : List ℕ) (dist : List ℚ) (K c : ℕ)
    (h : buildCheck p labels dist K c = true) :
    ∃ b : Built (Dom.tally (p.nUnits - 1) K c),
      build (Dom.tally (p.nUnits - 1) K c) c p labels dist = .ok b ∧
        ∀ i < p.nUnits, OracleSpec p labels dist K c b i := by
  unfold buildCheck at h
  cases hb : build (Dom.tally (p.nUnits - 1) K c) c p labels dist with
  | error e => rw [hb] at h; simp at h
  | ok b =>
    rw [hb] at h
    simp only [List.all_eq_true, List.mem_range] at h
    exact ⟨b, rfl, fun i hi => oracleCheck_sound p labels dist K c b i (h i hi)⟩

/-! ### coalitions as indicator lists -/

theorem getD_ofSet {n : ℕ} (S : Finset (Fin n)) (u : ℕ) :
    (BruteP.ofSet S).getD u 0 = 1 ↔ ∃ h : u < n, (⟨u, h⟩ : Fin n) ∈ S := by
  unfold BruteP.ofSet
  rw [List.getD_eq_getElem?_getD]
  by_cases hu : u < n
  · rw [List.getElem?_eq_getElem (by simpa using hu), Option.getD_some, List.getElem_ofFn]
    by_cases hm : (⟨u, hu⟩ : Fin n) ∈ S
    · simp [hm, hu]
    · simp [hm]
  · rw [List.getElem?_eq_none (by simpa using hu)]
    simp [hu]

/-- conjunctive presence is monotone in the coalition -/
theorem presentRows_ofSet_mono (p : Prov.P) {S T : Finset (Fin p.nUnits)} (h : S ⊆ T) :
    (presentRows p (BruteP.ofSet S)).Sublist (presentRows p (BruteP.ofSet T)) := by
  apply presentRows_mono
  intro u hu
  obtain ⟨hlt, hm⟩ := (getD_ofSet S u).mp hu
  exact (getD_ofSet T u).mpr ⟨hlt, h hm⟩

theorem knnGame_null (p : Prov.P) (labels order : List ℕ) (util : List ℚ) (null : ℚ) (K c : ℕ)
    (hp : order.Perm (List.range p.data.length)) (S : Finset (Fin p.nUnits))
    (h : (presentRows p (BruteP.ofSet S)).length < K) :
    knnGame p labels order util null K c S = null := by
  unfold knnGame
  rw [knnValue_eq' _ _ _ _ _ _ _ _ hp, if_neg (by omega)]

/-! ### `K = 1`, one unit per row: the game is the 1-NN game of the kernel path -/

theorem foldl_max_le (l : List ℕ) (a b : ℕ) (ha : a ≤ b) (h : ∀ x ∈ l, x ≤ b) : l.foldl max a ≤ b := by
  induction l generalizing a with
  | nil => simpa using ha
  | cons x l ih =>
    rw [List.foldl_cons]
    exact ih _ (max_le ha (h x List.mem_cons_self)) (fun y hy => h y (List.mem_cons_of_mem _ hy))

theorem le_foldl_max (l : List ℕ) (a : ℕ) : a ≤ l.foldl max a ∧ ∀ x ∈ l, x ≤ l.foldl max a := by
  induction l generalizing a with
  | nil => simp
  | cons x l ih =>
    rw [List.foldl_cons]
    obtain ⟨h1, h2⟩ := ih (max a x)
    refine ⟨le_trans (le_max_left _ _) h1, ?_⟩
    intro y hy
    rcases List.mem_cons.mp hy with rfl | hy
    · exact le_trans (le_max_right _ _) h1
    · exact h2 y hy

/-- the tally of a single row is the one-hot vector of its label; its first maximum is the label -/
theorem argmaxFirst_single (c : ℕ) (labels : List ℕ) (x : ℕ) (hl : labels.getD x 0 < c) :
    argmaxFirst (tallyL c labels [x]) = labels.getD x 0 := by
  set l := labels.getD x 0 with hldef
  have e : tallyL c labels [x] = (List.range c).map (fun k => if l = k then 1 else 0) := by
    unfold tallyL
    apply List.map_congr_left
    intro k _
    by_cases h : l = k
    · have hb : (labels.getD x 0 == k) = true := by rw [← hldef, h]; simp
      rw [List.filter_cons, if_pos hb, if_pos h]; rfl
    · have hb : ¬ (labels.getD x 0 == k) = true := by rw [← hldef]; simpa using h
      rw [List.filter_cons, if_neg hb, if_neg h]; rfl
  obtain ⟨m, hm⟩ : ∃ m, c = l + (1 + m) := ⟨c - l - 1, by omega⟩
  have e2 : (List.range c).map (fun k => if l = k then 1 else 0)
      = List.replicate l 0 ++ 1 :: (List.range m).map (fun k => if l = l + (1 + k) then 1 else 0) := by
    rw [hm, List.range_add, List.map_append, List.range_add, List.map_append]
    congr 1
    · apply List.ext_getElem
      · simp
      · intro k h1 h2
        have : k < l := by simpa using h1
        have : ¬ l = k := by omega
        simp [this]
    · simp [List.map_map, Function.comp_def]
  have hmax : (tallyL c labels [x]).foldl max 0 = 1 := by
    apply le_antisymm
    · apply foldl_max_le _ _ _ (by omega)
      intro y hy
      rw [e, List.mem_map] at hy
      obtain ⟨k, _, rfl⟩ := hy
      split <;> omega
    · apply (le_foldl_max _ 0).2
      rw [e, e2]
      simp
  unfold argmaxFirst
  simp only
  rw [hmax, e, e2, List.idxOf_append_of_notMem (by simp), List.idxOf_cons_self]
  simp

theorem perm_isPerm {n : ℕ} {order : List ℕ} (hp : order.Perm (List.range n)) :
    Ds.Kernel.isPerm n order = true := by
  unfold Ds.Kernel.isPerm
  rw [Bool.and_eq_true]
  refine ⟨by simpa using hp.length_eq, ?_⟩
  rw [List.all_eq_true]
  intro u hu
  simpa using hp.mem_iff.mpr hu

theorem knnGame_one_eq (p : Prov.P) (labels order : List ℕ) (util : List ℚ) (null : ℚ) (c : ℕ)
    (hn : p.data.length = p.nUnits) (hrow : ∀ r < p.nUnits, rowUnits (p.data.getD r []) = [r])
    (hperm : order.Perm (List.range p.nUnits)) (hlab : ∀ r < p.nUnits, labels.getD r 0 < c)
    (hutil : c ≤ util.length) :
    knnGame p labels order util null 1 c = Ds.Kernel.nnGameU p.nUnits order labels util null := by
  funext S
  have hip := perm_isPerm hperm
  have hperm' : order.Perm (List.range p.data.length) := by rw [hn]; exact hperm
  have hmem : ∀ r, r ∈ presentRows p (BruteP.ofSet S) ↔ ∃ h : r < p.nUnits, (⟨r, h⟩ : Fin p.nUnits) ∈ S := by
    intro r
    rw [mem_presentRows, hn]
    constructor
    · rintro ⟨h1, h2⟩
      unfold rowPresent at h2
      rw [hrow r h1] at h2
      simp only [List.all_cons, List.all_nil, Bool.and_true, beq_iff_eq] at h2
      exact (getD_ofSet S r).mp h2
    · rintro ⟨h1, h2⟩
      refine ⟨h1, ?_⟩
      unfold rowPresent
      rw [hrow r h1]
      simp only [List.all_cons, List.all_nil, Bool.and_true, beq_iff_eq]
      exact (getD_ofSet S r).mpr ⟨h1, h2⟩
  unfold knnGame Ds.Kernel.nnGameU
  rw [knnValue_eq' _ _ _ _ _ _ _ _ hperm']
  by_cases hS : S.Nonempty
  · rw [dif_pos hS]
    obtain ⟨u, huS, hu, hmin⟩ := Ds.Kernel.nearest_spec hip S hS
    have hupres : u.val ∈ presentRows p (BruteP.ofSet S) := (hmem u.val).mpr ⟨u.isLt, huS⟩
    have hpos : 1 ≤ (presentRows p (BruteP.ofSet S)).length := List.length_pos_of_mem hupres
    rw [if_pos hpos]
    -- the first entry of the sorted present rows is `u`
    have huo : u.val ∈ order := hperm.mem_iff.mpr (List.mem_range.mpr u.isLt)
    obtain ⟨as, bs, hsplit⟩ := List.append_of_mem huo
    have hnd : order.Nodup := hperm.nodup_iff.mpr List.nodup_range
    have hnotin : u.val ∉ as := by
      intro h
      rw [hsplit] at hnd
      exact (List.nodup_append.mp hnd).2.2 _ h _ List.mem_cons_self rfl
    have hfind : order.find? (presentRows p (BruteP.ofSet S)).contains = some u.val := by
      rw [List.find?_eq_some_iff_append]
      refine ⟨by simpa using hupres, as, bs, hsplit, ?_⟩
      intro a ha
      simp only [List.contains_eq_mem, Bool.not_eq_eq_eq_not, Bool.not_true, decide_eq_false_iff_not]
      intro hap
      obtain ⟨hlt, hm⟩ := (hmem a).mp hap
      have h1 := hmin ⟨a, hlt⟩ hm
      rw [hsplit, List.idxOf_append_of_notMem hnotin, List.idxOf_cons_self,
        List.idxOf_append_of_mem ha] at h1
      have := List.idxOf_lt_length_of_mem ha
      omega
    have hhead : (sortedPresent p order (BruteP.ofSet S)).head? = some u.val := by
      unfold sortedPresent
      rw [List.head?_filter, hfind]
    have htake : (sortedPresent p order (BruteP.ofSet S)).take 1 = [u.val] := by
      cases hL : sortedPresent p order (BruteP.ofSet S) with
      | nil => rw [hL] at hhead; simp at hhead
      | cons y t =>
        rw [hL] at hhead
        simp only [List.head?_cons, Option.some.injEq] at hhead
        simp [hhead]
    rw [htake, argmaxFirst_single c labels u.val (hlab _ u.isLt), ← hu]
    have hlt : labels.getD u.val 0 < util.length := lt_of_lt_of_le (hlab _ u.isLt) hutil
    have hget : ∀ d : ℚ, util.getD (labels.getD u.val 0) d = util[labels.getD u.val 0] := by
      intro d
      rw [List.getD_eq_getElem?_getD, List.getElem?_eq_getElem hlt, Option.getD_some]
    rw [hget, hget]
  · rw [dif_neg hS]
    have hempty : presentRows p (BruteP.ofSet S) = [] := by
      rw [List.eq_nil_iff_forall_not_mem]
      intro r hr
      obtain ⟨h1, h2⟩ := (hmem r).mp hr
      exact hS ⟨_, h2⟩
    rw [hempty, if_neg (by simp)]

/-- explicit decidable form of "conjunctive provenance over the units `0 … n-1`": every row has exactly
one disjunct, its literals are padding or `(unit < n, candidate 1)`, and the units of a row are distinct -/
def conjunctiveOk (p : Prov.P) : Bool :=
  p.data.all (fun r =>
    r.length == 1 &&
    (r.getD 0 []).all (fun l => (l.1 == -1 && l.2 == -1) || (decide (0 ≤ l.1) && decide (l.1 < p.nUnits) && l.2 == 1)) &&
    decide (rowUnits r).Nodup)

/-! ### data of the concrete instances in `Properties/C02.lean` -/

/-- three rows, row `r` depends on unit `r` only -/
def exP3 : Prov.P := { data := [[[(0, 1)]], [[(1, 1)]], [[(2, 1)]]], nDisj := 1, nConj := 1, nUnits := 3 }

/-- a join provenance: row 0 needs units 0 and 1, row 1 needs unit 1, row 2 needs units 2 and 0 -/
def exJoin : Prov.P :=
  { data := [[[(0, 1), (1, 1)]], [[(1, 1), (-1, -1)]], [[(2, 1), (0, 1)]]], nDisj := 1, nConj := 2, nUnits := 3 }

end AddPath
