import DsProofs.Shapley
import Ds.Brute
import Mathlib.Algebra.BigOperators.Group.Finset.Powerset

/-!
# Helper lemmas for the enumeration method (`Ds.Brute`)

Bridge between the executable model (`Ds.allAssign`, `Ds.choose`, `Ds.Brute.f0/f1/weight/scores`)
and the mathematical Shapley value `Sh.phi` of `DsProofs/Shapley.lean`.
-/

open Finset

namespace BruteP

/-! ### `Ds.choose` is the binomial coefficient -/

theorem choose_eq (n k : ℕ) : Ds.choose n k = Nat.choose n k := by
  induction n generalizing k with
  | zero => cases k <;> simp [Ds.choose]
  | succ n ih =>
    cases k with
    | zero => simp [Ds.choose]
    | succ k => simp [Ds.choose, ih, Nat.choose_succ_succ]

/-! ### assignments ↔ coalitions -/

/-- the coalition an assignment stands for -/
def toSet (n : ℕ) (a : List ℕ) : Finset (Fin n) := univ.filter (fun i => a.getD i.val 0 = 1)

theorem toSet_cons_zero (n : ℕ) (a : List ℕ) :
    toSet (n+1) (0 :: a) = (toSet n a).map (Fin.succEmb n) := by
  ext i
  simp only [toSet, mem_filter, mem_univ, true_and, mem_map, Fin.coe_succEmb]
  constructor
  · intro h
    refine Fin.cases ?_ (fun j hj => ?_) i h
    · intro h0; simp at h0
    · exact ⟨j, by simpa using hj, rfl⟩
  · rintro ⟨j, hj, rfl⟩; simpa using hj

theorem toSet_cons_one (n : ℕ) (a : List ℕ) :
    toSet (n+1) (1 :: a) = insert 0 ((toSet n a).map (Fin.succEmb n)) := by
  ext i
  simp only [toSet, mem_filter, mem_univ, true_and, mem_insert, mem_map, Fin.coe_succEmb]
  constructor
  · intro h
    refine Fin.cases ?_ (fun j hj => ?_) i h
    · intro _; left; rfl
    · right; exact ⟨j, by simpa using hj, rfl⟩
  · rintro (rfl | ⟨j, hj, rfl⟩)
    · simp
    · simpa using hj

/-- decomposition of a sum over all coalitions of `n+1` players by membership of player 0 -/
theorem sum_finset_succ (n : ℕ) (f : Finset (Fin (n+1)) → ℚ) :
    ∑ S : Finset (Fin (n+1)), f S =
      ∑ S : Finset (Fin n), f (S.map (Fin.succEmb n)) + ∑ S : Finset (Fin n), f (insert 0 (S.map (Fin.succEmb n))) := by
  classical
  have hu : (univ : Finset (Fin (n+1))) = insert 0 ((univ : Finset (Fin n)).image Fin.succ) := by
    ext i; refine Fin.cases ?_ (fun j => ?_) i <;> simp
  have h0 : (0 : Fin (n+1)) ∉ (univ : Finset (Fin n)).image Fin.succ := by simp
  rw [← Finset.powerset_univ, hu, Finset.sum_powerset_insert h0, Finset.powerset_image,
    Finset.sum_image, Finset.sum_image, Finset.powerset_univ]
  · simp [Finset.map_eq_image]
  · intro S _ T _ h
    exact Finset.image_injective (Fin.succ_injective n) h
  · intro S _ T _ h
    exact Finset.image_injective (Fin.succ_injective n) h

/-- **Bridge**: a list-sum over the enumerated assignments (in `itertools.product` order) is the
Finset-sum over all coalitions. -/
theorem sum_allAssign (n : ℕ) (f : Finset (Fin n) → ℚ) :
    ((Ds.allAssign n).map (fun a => f (toSet n a))).sum = ∑ S : Finset (Fin n), f S := by
  induction n with
  | zero =>
    simp only [Ds.allAssign, List.map_cons, List.map_nil, List.sum_cons, List.sum_nil, add_zero]
    rw [Fintype.sum_unique]
    congr 1
  | succ n ih =>
    rw [sum_finset_succ]
    simp only [Ds.allAssign, List.flatMap_cons, List.flatMap_nil, List.append_nil, List.map_append,
      List.map_map, List.sum_append]
    have e0 : ((fun a => f (toSet (n+1) a)) ∘ fun x => 0 :: x) = fun a => f ((toSet n a).map (Fin.succEmb n)) := by
      funext a; simp [toSet_cons_zero]
    have e1 : ((fun a => f (toSet (n+1) a)) ∘ fun x => 1 :: x) = fun a => f (insert 0 ((toSet n a).map (Fin.succEmb n))) := by
      funext a; simp [toSet_cons_one]
    rw [e0, e1, ih (fun S => f (S.map (Fin.succEmb n))), ih (fun S => f (insert 0 (S.map (Fin.succEmb n))))]

theorem mem_allAssign {n : ℕ} {a : List ℕ} (h : a ∈ Ds.allAssign n) :
    a.length = n ∧ ∀ x ∈ a, x = 0 ∨ x = 1 := by
  induction n generalizing a with
  | zero => simp [Ds.allAssign] at h; subst h; simp
  | succ n ih =>
    simp only [Ds.allAssign, List.flatMap_cons, List.flatMap_nil, List.append_nil, List.mem_append,
      List.mem_map] at h
    rcases h with ⟨b, hb, rfl⟩ | ⟨b, hb, rfl⟩ <;>
    · obtain ⟨h1, h2⟩ := ih hb
      refine ⟨by simp [h1], ?_⟩
      intro x hx
      rcases List.mem_cons.mp hx with rfl | hx
      · simp
      · exact h2 x hx

theorem card_toSet {n : ℕ} {a : List ℕ} (h : a ∈ Ds.allAssign n) : (toSet n a).card = a.sum := by
  induction n generalizing a with
  | zero => simp [Ds.allAssign] at h; subst h; simp [toSet]
  | succ n ih =>
    simp only [Ds.allAssign, List.flatMap_cons, List.flatMap_nil, List.append_nil, List.mem_append,
      List.mem_map] at h
    rcases h with ⟨b, hb, rfl⟩ | ⟨b, hb, rfl⟩
    · rw [toSet_cons_zero, Finset.card_map, ih hb]; simp
    · rw [toSet_cons_one, Finset.card_insert_of_notMem, Finset.card_map, ih hb]
      · simp [add_comm]
      · simp [Fin.succ_ne_zero]

theorem getD_toSet {n : ℕ} {a : List ℕ} (h : a ∈ Ds.allAssign n) (i : Fin n) :
    ((a.getD i.val 0 : ℕ) : ℚ) = if i ∈ toSet n a then 1 else 0 := by
  obtain ⟨hl, h01⟩ := mem_allAssign h
  have hi : i.val < a.length := by rw [hl]; exact i.isLt
  have hx : a.getD i.val 0 = a[i.val] := by simp [List.getD_eq_getElem?_getD, hi]
  have := h01 a[i.val] (List.getElem_mem hi)
  simp only [toSet, mem_filter, mem_univ, true_and, hx]
  rcases this with e | e <;> simp [e]

/-- the indicator assignment of a coalition -/
def ofSet {n : ℕ} (S : Finset (Fin n)) : List ℕ :=
  List.ofFn (fun i : Fin n => if i ∈ S then 1 else 0)

theorem toSet_ofSet {n : ℕ} (S : Finset (Fin n)) : toSet n (ofSet S) = S := by
  ext i
  simp [toSet, ofSet, List.getD_eq_getElem?_getD]

/-- every coalition is enumerated: `toSet n` maps `Ds.allAssign n` onto all coalitions -/
theorem exists_mem_allAssign (n : ℕ) (S : Finset (Fin n)) : ∃ a ∈ Ds.allAssign n, toSet n a = S := by
  induction n with
  | zero =>
    refine ⟨[], by simp [Ds.allAssign], ?_⟩
    ext i; exact i.elim0
  | succ n ih =>
    classical
    obtain ⟨b, hb, hbS⟩ := ih (univ.filter (fun j : Fin n => j.succ ∈ S))
    by_cases h0 : (0 : Fin (n+1)) ∈ S
    · refine ⟨1 :: b, by simp [Ds.allAssign, hb], ?_⟩
      rw [toSet_cons_one, hbS]
      ext i
      refine Fin.cases ?_ (fun j => ?_) i
      · simp [h0]
      · simp [Fin.succ_ne_zero]
    · refine ⟨0 :: b, by simp [Ds.allAssign, hb], ?_⟩
      rw [toSet_cons_zero, hbS]
      ext i
      refine Fin.cases ?_ (fun j => ?_) i
      · simp [h0, Fin.succ_ne_zero]
      · simp

/-! ### the code's `factor_0` / `factor_1` are the Shapley coefficients -/

theorem w_eq (n s : ℕ) (hs : s + 1 ≤ n) : Sh.w n s = 1 / (((n - 1).choose s : ℚ) * n) := by
  obtain ⟨m, rfl⟩ : ∃ m, n = m + 1 := ⟨n - 1, by omega⟩
  have hsm : s ≤ m := by omega
  have key := Nat.choose_mul_factorial_mul_factorial hsm
  have e : m + 1 - s - 1 = m - s := by omega
  unfold Sh.w
  rw [e, Nat.add_sub_cancel]
  have hc : ((m.choose s : ℕ) : ℚ) ≠ 0 := by exact_mod_cast (Nat.choose_pos hsm).ne'
  have hm : (((m + 1 : ℕ)) : ℚ) ≠ 0 := by exact_mod_cast (Nat.succ_ne_zero m)
  have hf : ((m + 1).factorial : ℚ) ≠ 0 := by exact_mod_cast Nat.factorial_ne_zero _
  rw [div_eq_div_iff hf (mul_ne_zero hc hm)]
  have : ((m.choose s * s.factorial * (m - s).factorial : ℕ) : ℚ) = (m.factorial : ℚ) := by exact_mod_cast key
  push_cast at this
  rw [Nat.factorial_succ]; push_cast
  rw [← this]; ring

/-- the weight the code gives to assignment `a` for unit `i` is the Shapley coefficient of the
coalition `toSet n a` -/
theorem weight_eq_coef {n : ℕ} {a : List ℕ} (ha : a ∈ Ds.allAssign n) (i : Fin n) :
    Ds.Brute.weight n a i.val = Sh.coef n i (toSet n a) := by
  unfold Ds.Brute.weight
  simp only
  rw [getD_toSet ha i, ← card_toSet ha]
  set S := toSet n a with hS
  unfold Sh.coef
  by_cases hi : i ∈ S
  · rw [if_pos hi, if_pos hi]
    have hpos : 1 ≤ S.card := Finset.card_pos.mpr ⟨i, hi⟩
    have hle : S.card ≤ n := by simpa using S.card_le_univ
    have : max (S.card - 1) 0 = S.card - 1 := by omega
    unfold Ds.Brute.f1; rw [this, choose_eq, w_eq n (S.card - 1) (by omega)]; ring
  · rw [if_neg hi, if_neg hi]
    have hlt : S.card < n := by
      have : S ⊂ univ := by
        rw [Finset.ssubset_univ_iff]; intro h; rw [h] at hi; exact hi (Finset.mem_univ i)
      simpa using Finset.card_lt_card this
    have : min S.card (n - 1) = S.card := by omega
    unfold Ds.Brute.f0; rw [this, choose_eq, w_eq n S.card (by omega)]; ring

/-! ### values of outcomes -/

/-- the score the scoring loops use for an outcome that does not propagate: the outcome's score,
or the null score for `ValueError` / `RuntimeWarning` / `UserWarning` -/
def valOf (null : ℚ) : Ds.Outcome → ℚ
  | .ok s => s
  | _ => null

theorem caught_eq_valOf {null : ℚ} {o : Ds.Outcome} (h : o ≠ .other) :
    o.caught null = some (valOf null o) := by
  cases o <;> simp_all [Ds.Outcome.caught, valOf]

theorem caught_other (null : ℚ) : Ds.Outcome.other.caught null = none := rfl

theorem caught_eq_none {null : ℚ} {o : Ds.Outcome} : o.caught null = none ↔ o = .other := by
  cases o <;> simp [Ds.Outcome.caught]

/-! ### the accumulation loop -/

/-- the loop body of `Ds.Brute.scores` -/
def body (n : ℕ) (v : List ℕ → Ds.Outcome) (null : ℚ) (imp : List ℚ) (a : List ℕ) : Option (List ℚ) :=
  match (v a).caught null with
  | none => none
  | some sc => some ((List.range n).map (fun i => imp.getD i 0 + sc * Ds.Brute.weight n a i))

theorem scores_eq_foldlM (n : ℕ) (v : List ℕ → Ds.Outcome) (null : ℚ) :
    Ds.Brute.scores n v null = (Ds.allAssign n).foldlM (body n v null) (List.replicate n 0) := rfl

theorem getD_range_map {n : ℕ} (f : ℕ → ℚ) {i : ℕ} (hi : i < n) :
    ((List.range n).map f).getD i 0 = f i := by
  simp [List.getD_eq_getElem?_getD, hi]

theorem getD_range_map_ge {n : ℕ} (f : ℕ → ℚ) {i : ℕ} (hi : n ≤ i) :
    ((List.range n).map f).getD i 0 = 0 := by
  simp [List.getD_eq_getElem?_getD, hi]

/-- when no evaluation propagates, the loop over any list of assignments accumulates the list sums -/
theorem foldlM_body_some (n : ℕ) (v : List ℕ → Ds.Outcome) (null : ℚ) (val : List ℕ → ℚ)
    (l : List (List ℕ)) (h : ∀ a ∈ l, (v a).caught null = some (val a))
    (imp : List ℚ) (himp : imp.length = n) :
    l.foldlM (body n v null) imp =
      some ((List.range n).map (fun i => imp.getD i 0 + (l.map (fun a => val a * Ds.Brute.weight n a i)).sum)) := by
  induction l generalizing imp with
  | nil =>
    simp only [List.foldlM_nil, List.map_nil, List.sum_nil, add_zero]
    show some imp = _
    congr 1
    apply List.ext_getElem
    · simp [himp]
    · intro i h1 h2
      simp [List.getD_eq_getElem?_getD, h1]
  | cons a l ih =>
    rw [List.foldlM_cons]
    have ha : (v a).caught null = some (val a) := h a (List.mem_cons_self)
    have hb : body n v null imp a =
        some ((List.range n).map (fun i => imp.getD i 0 + val a * Ds.Brute.weight n a i)) := by
      unfold body; rw [ha]
    rw [hb]
    show l.foldlM (body n v null) _ = _
    rw [ih (fun b hb => h b (List.mem_cons_of_mem _ hb)) _ (by simp)]
    congr 1
    apply List.map_congr_left
    intro i hi
    have hi' : i < n := List.mem_range.mp hi
    rw [getD_range_map _ hi']
    simp only [List.map_cons, List.sum_cons]
    ring

/-- an evaluation that propagates aborts the loop, wherever it occurs -/
theorem foldlM_body_none (n : ℕ) (v : List ℕ → Ds.Outcome) (null : ℚ)
    (l : List (List ℕ)) (h : ∃ a ∈ l, v a = .other) (imp : List ℚ) :
    l.foldlM (body n v null) imp = none := by
  induction l generalizing imp with
  | nil => obtain ⟨a, ha, _⟩ := h; cases ha
  | cons a l ih =>
    rw [List.foldlM_cons]
    by_cases ha : v a = .other
    · have : body n v null imp a = none := by unfold body; rw [ha]; rfl
      rw [this]; rfl
    · obtain ⟨b, hb, hbo⟩ := h
      have hb' : b ∈ l := by
        rcases List.mem_cons.mp hb with rfl | hb'
        · exact absurd hbo ha
        · exact hb'
      cases hba : body n v null imp a with
      | none => rfl
      | some imp' => exact ih ⟨b, hb', hbo⟩ imp'

/-- closed form of `Ds.Brute.scores` when nothing propagates -/
theorem scores_some (n : ℕ) (v : List ℕ → Ds.Outcome) (null : ℚ)
    (h : ∀ a ∈ Ds.allAssign n, v a ≠ .other) :
    Ds.Brute.scores n v null =
      some ((List.range n).map (fun i =>
        ((Ds.allAssign n).map (fun a => valOf null (v a) * Ds.Brute.weight n a i)).sum)) := by
  rw [scores_eq_foldlM,
    foldlM_body_some n v null (fun a => valOf null (v a)) _ (fun a ha => caught_eq_valOf (h a ha)) _ (by simp)]
  congr 1
  apply List.map_congr_left
  intro i hi
  have hi' : i < n := List.mem_range.mp hi
  simp [List.getD_eq_getElem?_getD, hi']

theorem sum_range_map (n : ℕ) (F : ℕ → ℚ) :
    ((List.range n).map F).sum = ∑ i ∈ Finset.range n, F i := by
  induction n with
  | zero => simp
  | succ n ih => rw [List.range_succ, List.map_append, List.sum_append, ih, Finset.sum_range_succ]; simp

theorem sum_range_map_dite (n : ℕ) (f : Fin n → ℚ) :
    ((List.range n).map (fun i => if hi : i < n then f ⟨i, hi⟩ else 0)).sum = ∑ i : Fin n, f i := by
  rw [sum_range_map, ← Fin.sum_univ_eq_sum_range (fun i => if hi : i < n then f ⟨i, hi⟩ else 0) n]
  apply Finset.sum_congr rfl
  intro i _
  simp

/-- **C03 core**: on a game given on coalitions, the scores are the Shapley value -/
theorem scores_eq_phi (n : ℕ) (g : Finset (Fin n) → Ds.Outcome) (null : ℚ)
    (h : ∀ S, g S ≠ .other) :
    Ds.Brute.scores n (fun a => g (toSet n a)) null =
      some ((List.range n).map (fun i =>
        if hi : i < n then Sh.phi (fun S => valOf null (g S)) ⟨i, hi⟩ else 0)) := by
  rw [scores_some n _ null (fun a _ => h _)]
  congr 1
  apply List.map_congr_left
  intro i hi
  have hi' : i < n := List.mem_range.mp hi
  rw [dif_pos hi']
  unfold Sh.phi
  rw [← sum_allAssign n (fun S => valOf null (g S) * Sh.coef n ⟨i, hi'⟩ S)]
  congr 1
  apply List.map_congr_left
  intro a ha
  rw [← weight_eq_coef ha ⟨i, hi'⟩]

end BruteP
