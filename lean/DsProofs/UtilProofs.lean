import Ds.Util
import Ds.Neighbor
import DsProofs.KernelProofs
import Mathlib.Data.List.Basic
import Mathlib.Data.List.Nodup
import Mathlib.Data.List.Perm.Basic
import Mathlib.Algebra.BigOperators.Group.List.Basic
import Mathlib.Algebra.Order.Field.Rat
import Mathlib.Tactic.Ring
import Mathlib.Tactic.Linarith
import Mathlib.Tactic.FieldSimp

/-!
# Helper lemmas about `Ds.Util` (element-wise utilities, `JointUtility`), the batching glue of
`Ds.Neighbor.score`, and label renaming

* batching: `impCols`, `cols_unzip`, `impCols_getD`, `batch_term`, `batch_sum`, `batch_foldl_getD`.
-/

open Finset

namespace Ds.Kernel

/-! ### Batching: the kernel on a list of zipped columns -/

/-- the kernel run on a list of validation points given as zipped columns -/
def impCols (n : ℕ) (cs : List Col) : List ℚ :=
  importances n (cs.map (·.1)) (cs.map (·.2.1)) (cs.map (·.2.2.1)) (cs.map (·.2.2.2))

theorem cols_unzip (cs : List Col) :
    cols (cs.map (·.1)) (cs.map (·.2.1)) (cs.map (·.2.2.1)) (cs.map (·.2.2.2)) = cs := by
  unfold cols
  induction cs with
  | nil => rfl
  | cons c cs ih => simp only [List.map_cons, List.zip_cons_cons, ih]

/-- the sum of the per-point contributions to slot `u` -/
def colSum (cs : List Col) (u : ℕ) : ℚ := (cs.map (fun c => colContrib c u)).sum

theorem impCols_length (n : ℕ) (cs : List Col) : (impCols n cs).length = n := importances_length _ _ _ _ _

theorem impCols_getD (n : ℕ) (cs : List Col) (u : ℕ) (hu : u < n) :
    (impCols n cs).getD u 0 = colSum cs u / (cs.length : ℚ) := by
  unfold impCols
  rw [importances_getD_list _ _ _ _ _ _ hu, cols_unzip]
  rfl

/-- importances of the columns, in the separate-list form, as `impCols` of the zipped columns -/
theorem importances_eq_impCols (n : ℕ) (labels orders : List (List ℕ)) (utils : List (List ℚ)) (nulls : List ℚ) :
    importances n labels orders utils nulls = impCols n (cols labels orders utils nulls) := by
  apply ext_getD (importances_length _ _ _ _ _) (impCols_length _ _)
  intro u hu
  rw [importances_getD_list _ _ _ _ _ _ hu, impCols_getD _ _ _ hu]
  rfl

theorem colSum_nil (u : ℕ) : colSum [] u = 0 := rfl

theorem colSum_append (a b : List Col) (u : ℕ) : colSum (a ++ b) u = colSum a u + colSum b u := by
  simp [colSum]

/-- one batch term: `cur[u] * nb / nTest` is the batch's raw sum divided by `nTest` (also for an empty
batch, where both sides are `0`) -/
theorem batch_term (n : ℕ) (b : List Col) (N : ℚ) (u : ℕ) (hu : u < n) :
    (impCols n b).getD u 0 * (b.length : ℚ) / N = colSum b u / N := by
  rw [impCols_getD _ _ _ hu]
  by_cases h : b.length = 0
  · have : b = [] := List.length_eq_zero_iff.mp h
    subst this
    simp [colSum_nil]
  · have h' : (b.length : ℚ) ≠ 0 := by exact_mod_cast h
    rw [div_mul_cancel₀ _ h']

theorem colSum_flatten (bs : List (List Col)) (u : ℕ) :
    colSum bs.flatten u = (bs.map (fun b => colSum b u)).sum := by
  induction bs with
  | nil => rfl
  | cons b bs ih => simp only [List.flatten_cons, colSum_append, ih, List.map_cons, List.sum_cons]

theorem list_sum_div (l : List ℚ) (N : ℚ) : (l.map (· / N)).sum = l.sum / N := by
  induction l with
  | nil => simp
  | cons x l ih => simp only [List.map_cons, List.sum_cons, ih, add_div]

/-- weighted mean of the per-batch results = result on all points (entry `u`) -/
theorem batch_sum (n : ℕ) (bs : List (List Col)) (u : ℕ) (hu : u < n) :
    (bs.map (fun b => (impCols n b).getD u 0 * (b.length : ℚ) / (bs.flatten.length : ℚ))).sum
      = (impCols n bs.flatten).getD u 0 := by
  rw [impCols_getD _ _ _ hu, colSum_flatten, ← list_sum_div, List.map_map]
  congr 1
  apply List.map_congr_left
  intro b _
  exact batch_term n b _ u hu

/-- the accumulation loop of `_shapley_neighbor`: `acc := acc + cur * nb / nTest`, entrywise -/
def batchStep (n : ℕ) (N : ℚ) (acc : List ℚ) (b : List Col) : List ℚ :=
  List.zipWith (fun a c => a + c * ((b.length : ℕ) : ℚ) / N) acc (impCols n b)

theorem batchStep_length (n : ℕ) (N : ℚ) (acc : List ℚ) (b : List Col) (h : acc.length = n) :
    (batchStep n N acc b).length = n := by
  simp [batchStep, impCols_length, h]

theorem batchStep_getD (n : ℕ) (N : ℚ) (acc : List ℚ) (b : List Col) (h : acc.length = n) (u : ℕ) (hu : u < n) :
    (batchStep n N acc b).getD u 0 = acc.getD u 0 + (impCols n b).getD u 0 * (b.length : ℚ) / N := by
  have hl : acc.length = (impCols n b).length := by rw [impCols_length, h]
  have e := getD_zipWith (fun a c => a + c * ((b.length : ℕ) : ℚ) / N) acc (impCols n b) 0 0 u hl
  unfold batchStep
  rw [getD_default_irrel (by simp [impCols_length, h]; exact hu) 0
    ((fun a c => a + c * ((b.length : ℕ) : ℚ) / N) 0 0), e]

theorem batch_foldl_length (n : ℕ) (N : ℚ) (bs : List (List Col)) (acc : List ℚ) (h : acc.length = n) :
    (bs.foldl (batchStep n N) acc).length = n := by
  induction bs generalizing acc with
  | nil => exact h
  | cons b bs ih => exact ih _ (batchStep_length n N acc b h)

theorem batch_foldl_getD (n : ℕ) (N : ℚ) (bs : List (List Col)) (acc : List ℚ) (h : acc.length = n)
    (u : ℕ) (hu : u < n) :
    (bs.foldl (batchStep n N) acc).getD u 0
      = acc.getD u 0 + (bs.map (fun b => (impCols n b).getD u 0 * (b.length : ℚ) / N)).sum := by
  induction bs generalizing acc with
  | nil => simp
  | cons b bs ih =>
    simp only [List.foldl_cons, List.map_cons, List.sum_cons]
    rw [ih _ (batchStep_length n N acc b h), batchStep_getD n N acc b h u hu]
    ring

/-- the whole accumulation loop over any split of the validation points into consecutive batches
returns the kernel's result on all points -/
theorem batch_foldl (n : ℕ) (bs : List (List Col)) :
    bs.foldl (batchStep n (bs.flatten.length : ℚ)) (List.replicate n 0) = impCols n bs.flatten := by
  apply ext_getD (batch_foldl_length n _ bs _ (by simp)) (impCols_length _ _)
  intro u hu
  rw [batch_foldl_getD n _ bs _ (by simp) u hu, getD_replicate_zero, zero_add, batch_sum n bs u hu]

end Ds.Kernel
