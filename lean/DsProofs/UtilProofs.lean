import Ds.Util
import Ds.Neighbor
import DsProofs.KernelProofs
import Mathlib.Data.List.Basic
import Mathlib.Data.List.Nodup
import Mathlib.Data.List.Perm.Basic
import Mathlib.Algebra.BigOperators.Group.List.Basic
import Mathlib.Algebra.Order.Field.Rat
import Mathlib.Tactic.Ring
import Mathlib.Tactic.Linarith
import Mathlib.Tactic.FieldSimp

/-!
# Helper lemmas about `Ds.Util` (element-wise utilities, `JointUtility`), the batching glue of
`Ds.Neighbor.score`, and label renaming

* batching (C07): `impCols`, `cols_unzip`, `impCols_getD`, `batch_term`, `batch_sum`, `batchStep`,
  `batch_foldl_getD`, `batch_foldl`.
* accuracy utility (C14a/b): `range_map_zip`, `accElem_getD`, `accElem_pred`, `acc_select_eq`,
  `accuracy_const`, `argStep`, `accNullElem_eq_fold`, `argFold_spec` (the fold keeps the FIRST minimum),
  `foldl_min_le/mem/eq`.
* ROC-AUC utility (C14c/d): `count_add`, `aucCell`, `aucElem_eq`, `aucCell_perm`, `aucCell_binary`,
  `aucRow`, `aucElem_binary`, `auc_select_eq`, `auc_sum_eq`, `nodup_eraseDups`, `mem_unique`,
  `nodup_unique`, `unique_perm_pair`, `aucNullElem_eq`, `leastFrequent_mem`, `aucRow_sum`,
  `aucNullElem_binary`.
* `JointUtility` (C08): `jointScalar_cons/eq_sum/smul/lin/add/smul_left`, `jointElem_getD`,
  `jointCall_some/none`, `colsOf`, `combTable`, `combVec`, `jointElem_eq_combTable`,
  `colsOf_combTable_cons`, `importances_zero`, `importances_comb` (kernel linearity for any number of
  components, by induction from `Ds.Kernel.importances_lin`), `combVec_pair`.
* label renaming (C18): `beq_map_inj`, `eraseDups_map_inj`, `unique_map`, `idxOf_map_inj`, `encode_map`,
  `mapM_encode_map`, `accElem_map`, `accNullElem_map`, `accuracy_map`, `accNull_map`, `accElem_row`.
* fit/score state machine (C20, namespace `Ds.Session`): `lastFit`, `scoreOut`, `step_score_fst/out`,
  `run_append`, `run_length`, `run_scores`, `run_state`, `lastFit_none_iff`, `lastFit_append_fit`.
-/

open Finset

namespace Ds.Kernel

/-! ### Batching: the kernel on a list of zipped columns -/

/-- the kernel run on a list of validation points given as zipped columns -/
def impCols (n : ℕ) (cs : List Col) : List ℚ :=
  importances n (cs.map (·.1)) (cs.map (·.2.1)) (cs.map (·.2.2.1)) (cs.map (·.2.2.2))

theorem cols_unzip (cs : List Col) :
    cols (cs.map (·.1)) (cs.map (·.2.1)) (cs.map (·.2.2.1)) (cs.map (·.2.2.2)) = cs := by
  unfold cols
  induction cs with
  | nil => rfl
  | cons c cs ih => simp only [List.map_cons, List.zip_cons_cons, ih]

/-- the sum of the per-point contributions to slot `u` -/
def colSum (cs : List Col) (u : ℕ) : ℚ := (cs.map (fun c => colContrib c u)).sum

theorem impCols_length (n : ℕ) (cs : List Col) : (impCols n cs).length = n := importances_length _ _ _ _ _

theorem impCols_getD (n : ℕ) (cs : List Col) (u : ℕ) (hu : u < n) :
    (impCols n cs).getD u 0 = colSum cs u / (cs.length : ℚ) := by
  unfold impCols
  rw [importances_getD_list _ _ _ _ _ _ hu, cols_unzip]
  rfl

/-- importances of the columns, in the separate-list form, as `impCols` of the zipped columns -/
theorem importances_eq_impCols (n : ℕ) (labels orders : List (List ℕ)) (utils : List (List ℚ)) (nulls : List ℚ) :
    importances n labels orders utils nulls = impCols n (cols labels orders utils nulls) := by
  apply ext_getD (importances_length _ _ _ _ _) (impCols_length _ _)
  intro u hu
  rw [importances_getD_list _ _ _ _ _ _ hu, impCols_getD _ _ _ hu]
  rfl

theorem colSum_nil (u : ℕ) : colSum [] u = 0 := rfl

theorem colSum_append (a b : List Col) (u : ℕ) : colSum (a ++ b) u = colSum a u + colSum b u := by
  simp [colSum]

/-- one batch term: `cur[u] * nb / nTest` is the batch's raw sum divided by `nTest` (also for an empty
batch, where both sides are `0`) -/
theorem batch_term (n : ℕ) (b : List Col) (N : ℚ) (u : ℕ) (hu : u < n) :
    (impCols n b).getD u 0 * (b.length : ℚ) / N = colSum b u / N := by
  rw [impCols_getD _ _ _ hu]
  by_cases h : b.length = 0
  · have : b = [] := List.length_eq_zero_iff.mp h
    subst this
    simp [colSum_nil]
  · have h' : (b.length : ℚ) ≠ 0 := by exact_mod_cast h
    rw [div_mul_cancel₀ _ h']

theorem colSum_flatten (bs : List (List Col)) (u : ℕ) :
    colSum bs.flatten u = (bs.map (fun b => colSum b u)).sum := by
  induction bs with
  | nil => rfl
  | cons b bs ih => simp only [List.flatten_cons, colSum_append, ih, List.map_cons, List.sum_cons]

theorem list_sum_div (l : List ℚ) (N : ℚ) : (l.map (· / N)).sum = l.sum / N := by
  induction l with
  | nil => simp
  | cons x l ih => simp only [List.map_cons, List.sum_cons, ih, add_div]

/-- weighted mean of the per-batch results = result on all points (entry `u`) -/
theorem batch_sum (n : ℕ) (bs : List (List Col)) (u : ℕ) (hu : u < n) :
    (bs.map (fun b => (impCols n b).getD u 0 * (b.length : ℚ) / (bs.flatten.length : ℚ))).sum
      = (impCols n bs.flatten).getD u 0 := by
  rw [impCols_getD _ _ _ hu, colSum_flatten, ← list_sum_div, List.map_map]
  congr 1
  apply List.map_congr_left
  intro b _
  exact batch_term n b _ u hu

/-- the accumulation loop of `_shapley_neighbor`: `acc := acc + cur * nb / nTest`, entrywise -/
def batchStep (n : ℕ) (N : ℚ) (acc : List ℚ) (b : List Col) : List ℚ :=
  List.zipWith (fun a c => a + c * ((b.length : ℕ) : ℚ) / N) acc (impCols n b)

theorem batchStep_length (n : ℕ) (N : ℚ) (acc : List ℚ) (b : List Col) (h : acc.length = n) :
    (batchStep n N acc b).length = n := by
  simp [batchStep, impCols_length, h]

theorem batchStep_getD (n : ℕ) (N : ℚ) (acc : List ℚ) (b : List Col) (h : acc.length = n) (u : ℕ) (hu : u < n) :
    (batchStep n N acc b).getD u 0 = acc.getD u 0 + (impCols n b).getD u 0 * (b.length : ℚ) / N := by
  have hl : acc.length = (impCols n b).length := by rw [impCols_length, h]
  have e := getD_zipWith (fun a c => a + c * ((b.length : ℕ) : ℚ) / N) acc (impCols n b) 0 0 u hl
  unfold batchStep
  rw [getD_default_irrel (by simp [impCols_length, h]; exact hu) 0
    ((fun a c => a + c * ((b.length : ℕ) : ℚ) / N) 0 0), e]

theorem batch_foldl_length (n : ℕ) (N : ℚ) (bs : List (List Col)) (acc : List ℚ) (h : acc.length = n) :
    (bs.foldl (batchStep n N) acc).length = n := by
  induction bs generalizing acc with
  | nil => exact h
  | cons b bs ih => exact ih _ (batchStep_length n N acc b h)

theorem batch_foldl_getD (n : ℕ) (N : ℚ) (bs : List (List Col)) (acc : List ℚ) (h : acc.length = n)
    (u : ℕ) (hu : u < n) :
    (bs.foldl (batchStep n N) acc).getD u 0
      = acc.getD u 0 + (bs.map (fun b => (impCols n b).getD u 0 * (b.length : ℚ) / N)).sum := by
  induction bs generalizing acc with
  | nil => simp
  | cons b bs ih =>
    simp only [List.foldl_cons, List.map_cons, List.sum_cons]
    rw [ih _ (batchStep_length n N acc b h), batchStep_getD n N acc b h u hu]
    ring

/-- the whole accumulation loop over any split of the validation points into consecutive batches
returns the kernel's result on all points -/
theorem batch_foldl (n : ℕ) (bs : List (List Col)) :
    bs.foldl (batchStep n (bs.flatten.length : ℚ)) (List.replicate n 0) = impCols n bs.flatten := by
  apply ext_getD (batch_foldl_length n _ bs _ (by simp)) (impCols_length _ _)
  intro u hu
  rw [batch_foldl_getD n _ bs _ (by simp) u hu, getD_replicate_zero, zero_add, batch_sum n bs u hu]

end Ds.Kernel

namespace Ds.Util

/-! ### Basic facts: `ind`, `mean`, indexing -/

theorem ind_true : ind true = 1 := rfl
theorem ind_false : ind false = 0 := rfl

theorem ind_beq_comm (a b : Int) : ind (a == b) = ind (b == a) := by
  rw [Bool.beq_comm]

theorem ind_eq_ite (a b : Int) : ind (a == b) = if a = b then 1 else 0 := by
  unfold ind
  by_cases h : a = b <;> simp [h]

theorem mean_def (l : List ℚ) : mean l = l.sum / (l.length : ℚ) := rfl

/-- a function of the pair (validation label, prediction) tabulated over the index range is the map
over the zipped lists -/
theorem range_map_zip {β : Type} (ys pred : List Int) (F : Int → Int → β) (h : pred.length = ys.length) :
    (List.range ys.length).map (fun j => F (ys.getD j 0) (pred.getD j 0))
      = (ys.zip pred).map (fun q => F q.1 q.2) := by
  apply List.ext_getElem
  · simp [h]
  · intro i h1 h2
    simp only [List.length_map, List.length_range] at h1
    have h3 : i < pred.length := by omega
    simp [List.getD_eq_getElem?_getD, List.getElem?_eq_getElem h1, List.getElem?_eq_getElem h3]

theorem sum_map_ind {β : Type} (l : List β) (q : β → Bool) :
    (l.map (fun x => ind (q x))).sum = ((l.filter q).length : ℚ) := by
  induction l with
  | nil => simp
  | cons x l ih =>
    simp only [List.map_cons, List.sum_cons, ih, List.filter_cons]
    cases q x <;> simp [ind]
    ring

theorem sum_ind_eq_count (ys : List Int) (c : Int) :
    (ys.map (fun y => ind (y == c))).sum = (count ys c : ℚ) := by
  rw [sum_map_ind]; rfl

/-! ### C14a: accuracy -/

theorem accElem_length (classes yTest : List Int) : (accElem classes yTest).length = classes.length := by
  simp [accElem]

/-- entry `[c][j]` of the element-wise accuracy table -/
theorem accElem_getD (classes yTest : List Int) (c j : ℕ) (hc : c < classes.length) (hj : j < yTest.length) :
    ((accElem classes yTest).getD c []).getD j 0 = ind (classes.getD c 0 == yTest.getD j 0) := by
  simp [accElem, List.getD_eq_getElem?_getD, List.getElem?_eq_getElem hc, List.getElem?_eq_getElem hj]

theorem getD_idxOf_int {l : List Int} {x : Int} (h : x ∈ l) : l.getD (l.idxOf x) 0 = x := by
  have h' := List.idxOf_lt_length_iff.mpr h
  simp [List.getD_eq_getElem?_getD, List.getElem?_eq_getElem h']

/-- the row of the accuracy table selected by a predicted label, read at point `j` -/
theorem accElem_pred (classes yTest : List Int) (p : Int) (j : ℕ) (hp : p ∈ classes) (hj : j < yTest.length) :
    ((accElem classes yTest).getD (classes.idxOf p) []).getD j 0 = ind (yTest.getD j 0 == p) := by
  rw [accElem_getD _ _ _ _ (List.idxOf_lt_length_iff.mpr hp) hj, getD_idxOf_int hp, ind_beq_comm]

theorem getD_mem_int (l : List Int) {k : ℕ} (hk : k < l.length) : l.getD k 0 ∈ l := by
  simp only [List.getD_eq_getElem?_getD, List.getElem?_eq_getElem hk, Option.getD_some]
  exact List.getElem_mem hk

theorem acc_select_eq (classes yTest pred : List Int) (hlen : pred.length = yTest.length)
    (hmem : ∀ p ∈ pred, p ∈ classes) :
    (List.range yTest.length).map
        (fun j => ((accElem classes yTest).getD (classes.idxOf (pred.getD j 0)) []).getD j 0)
      = (yTest.zip pred).map (fun p => ind (p.1 == p.2)) := by
  rw [← range_map_zip yTest pred (fun y p => ind (y == p)) hlen]
  apply List.map_congr_left
  intro j hj
  have hj' := List.mem_range.mp hj
  exact accElem_pred classes yTest _ j (hmem _ (getD_mem_int pred (by omega))) hj'

/-! ### C14b: the null score of the accuracy utility -/

/-- accuracy of predicting the constant `x` = mean of the indicator `y == x` -/
theorem zip_const_map (yTest : List Int) (x : Int) :
    (yTest.zip (yTest.map (fun _ => x))).map (fun p => ind (p.1 == p.2)) = yTest.map (fun y => ind (y == x)) := by
  induction yTest with
  | nil => rfl
  | cons y ys ih => simp only [List.map_cons, List.zip_cons_cons, ih]

theorem accuracy_const (yTest : List Int) (x : Int) :
    accuracy yTest (yTest.map (fun _ => x)) = mean (yTest.map (fun y => ind (y == x))) := by
  unfold accuracy
  rw [zip_const_map]

/-- the loop body of `elementwise_null_score`: keep the first strict minimum of `f`, carrying `g` -/
def argStep {β : Type} (f : Int → ℚ) (g : Int → β) (st : Option ℚ × β) (x : Int) : Option ℚ × β :=
  match st.1 with
  | none => (some (f x), g x)
  | some m => if m > f x then (some (f x), g x) else st

theorem accNullElem_eq_fold (classes yTest : List Int) :
    accNullElem classes yTest
      = (classes.foldl (argStep (fun x => mean (yTest.map (fun y => ind (y == x))))
            (fun x => yTest.map (fun y => ind (y == x)))) (none, yTest.map (fun _ => (0 : ℚ)))).2 := rfl

/-- the fold returns the FIRST element (in list order) at which `f` is minimal -/
theorem argFold_spec {β : Type} (f : Int → ℚ) (g : Int → β) (d : β) (c0 : Int) (t : List Int) :
    ∃ pre c post, c0 :: t = pre ++ c :: post ∧ (∀ x ∈ pre, f c < f x) ∧ (∀ x ∈ post, f c ≤ f x) ∧
      (c0 :: t).foldl (argStep f g) (none, d) = (some (f c), g c) := by
  induction t using List.reverseRecOn with
  | nil => exact ⟨[], c0, [], rfl, by simp, by simp, rfl⟩
  | append_singleton t x ih =>
    obtain ⟨pre, c, post, hsplit, hpre, hpost, hfold⟩ := ih
    have hf : (c0 :: (t ++ [x])).foldl (argStep f g) (none, d) = argStep f g (some (f c), g c) x := by
      rw [← List.cons_append, List.foldl_append, hfold]; rfl
    by_cases hlt : f c > f x
    · refine ⟨c0 :: t, x, [], by simp, ?_, by simp, ?_⟩
      · intro y hy
        rw [hsplit] at hy
        rcases List.mem_append.mp hy with h | h
        · exact lt_trans hlt (hpre y h)
        · rcases List.mem_cons.mp h with h | h
          · rw [h]; exact hlt
          · exact lt_of_lt_of_le hlt (hpost y h)
      · rw [hf]; simp only [argStep, if_pos hlt]
    · refine ⟨pre, c, post ++ [x], ?_, hpre, ?_, ?_⟩
      · rw [← List.cons_append, hsplit]; simp
      · intro y hy
        rcases List.mem_append.mp hy with h | h
        · exact hpost y h
        · rw [List.mem_singleton.mp h]; exact not_lt.mp hlt
      · rw [hf]; simp only [argStep, if_neg hlt]

theorem foldl_min_le (ss : List ℚ) (s : ℚ) : ∀ x ∈ s :: ss, ss.foldl min s ≤ x := by
  induction ss generalizing s with
  | nil => intro x hx; simp at hx; simp [hx]
  | cons y ss ih =>
    intro x hx
    simp only [List.foldl_cons]
    rcases List.mem_cons.mp hx with h | h
    · exact le_trans (ih (min s y) _ List.mem_cons_self) (h ▸ min_le_left _ _)
    · rcases List.mem_cons.mp h with h | h
      · exact le_trans (ih (min s y) _ List.mem_cons_self) (h ▸ min_le_right _ _)
      · exact ih (min s y) x (List.mem_cons_of_mem _ h)

theorem foldl_min_mem (ss : List ℚ) (s : ℚ) : ss.foldl min s ∈ s :: ss := by
  induction ss generalizing s with
  | nil => simp
  | cons y ss ih =>
    simp only [List.foldl_cons]
    rcases List.mem_cons.mp (ih (min s y)) with h | h
    · rw [h]
      rcases min_choice s y with h' | h' <;> rw [h'] <;> simp
    · exact List.mem_cons_of_mem _ (List.mem_cons_of_mem _ h)

/-- a list minimum is determined by "lower bound + member" -/
theorem foldl_min_eq (ss : List ℚ) (s m : ℚ) (hm : m ∈ s :: ss) (hle : ∀ x ∈ s :: ss, m ≤ x) :
    ss.foldl min s = m :=
  le_antisymm (foldl_min_le ss s m hm) (hle _ (foldl_min_mem ss s))

/-! ### C14c/d: the ROC-AUC utility on binary labels -/

theorem count_cons (y : Int) (ys : List Int) (c : Int) :
    count (y :: ys) c = (if y = c then 1 else 0) + count ys c := by
  unfold count
  by_cases h : y = c
  · simp [h]; omega
  · simp [h]

theorem count_pos_iff (ys : List Int) (c : Int) : 0 < count ys c ↔ c ∈ ys := by
  unfold count
  rw [List.length_pos_iff_exists_mem]
  constructor
  · rintro ⟨x, hx⟩
    have := List.mem_filter.mp hx
    have h2 : x = c := by simpa using this.2
    exact h2 ▸ this.1
  · intro h
    exact ⟨c, List.mem_filter.mpr ⟨h, by simp⟩⟩

/-- binary labels: the two class counts add up to the number of points -/
theorem count_add (ys : List Int) (a b : Int) (hab : a ≠ b) (hy : ∀ y ∈ ys, y = a ∨ y = b) :
    count ys a + count ys b = ys.length := by
  induction ys with
  | nil => rfl
  | cons y ys ih =>
    have ih' := ih (fun z hz => hy z (List.mem_cons_of_mem _ hz))
    rw [count_cons, count_cons, List.length_cons]
    rcases hy y List.mem_cons_self with h | h
    · subst h; rw [if_pos rfl, if_neg hab]; omega
    · subst h; rw [if_neg (Ne.symm hab), if_pos rfl]; omega

/-- one cell of the element-wise AUC table, as the code computes it -/
def aucCell (ys cls : List Int) (k y : Int) : ℚ :=
  (cls.map (fun c =>
      (ind (k == y) * ind (c == y) / ((count ys c : ℕ) : ℚ)
        + ind (k == y) * ind (c != y) / (((ys.length - count ys c : ℕ) : ℕ) : ℚ)) * (1 / 2))).sum
    / ((cls.length : ℕ) : ℚ)

theorem aucElem_eq (classes yTest : List Int) :
    aucElem classes yTest
      = if classes.any (fun c => count yTest c == 0 || count yTest c == yTest.length) then none
        else some (classes.map (fun k => yTest.map (fun y => aucCell yTest classes k y))) := rfl

theorem aucCell_perm (ys : List Int) {cls cls' : List Int} (h : cls.Perm cls') (k y : Int) :
    aucCell ys cls k y = aucCell ys cls' k y := by
  unfold aucCell
  rw [(h.map _).sum_eq, h.length_eq]

/-- binary case: the cell is `[k = y] / (2 · #{j : y_j = y})` -/
theorem aucCell_binary (ys : List Int) (a b : Int) (hab : a ≠ b) (hy : ∀ y ∈ ys, y = a ∨ y = b)
    (ha : a ∈ ys) (hb : b ∈ ys) (k y : Int) (hyy : y ∈ ys) :
    aucCell ys [a, b] k y = ind (k == y) / (2 * (count ys y : ℚ)) := by
  have hsum := count_add ys a b hab hy
  have hpa : 0 < count ys a := (count_pos_iff ys a).mpr ha
  have hpb : 0 < count ys b := (count_pos_iff ys b).mpr hb
  have hqa : ys.length - count ys a = count ys b := by omega
  have hqb : ys.length - count ys b = count ys a := by omega
  have hpa' : (count ys a : ℚ) ≠ 0 := by exact_mod_cast hpa.ne'
  have hpb' : (count ys b : ℚ) ≠ 0 := by exact_mod_cast hpb.ne'
  have hba : b ≠ a := Ne.symm hab
  unfold aucCell
  simp only [List.map_cons, List.map_nil, List.sum_cons, List.sum_nil, List.length_cons, List.length_nil]
  rw [hqa, hqb]
  rcases hy y hyy with h | h
  · subst h
    simp [ind, hba]
    field_simp
  · subst h
    simp [ind, hab]
    field_simp

/-- the row of the binary AUC table belonging to the predicted label `p` -/
def aucRow (ys : List Int) (p : Int) : List ℚ := ys.map (fun y => ind (p == y) / (2 * (count ys y : ℚ)))

theorem aucElem_binary (ys : List Int) (a b : Int) (hab : a ≠ b) (hy : ∀ y ∈ ys, y = a ∨ y = b)
    (ha : a ∈ ys) (hb : b ∈ ys) :
    aucElem [a, b] ys = some [aucRow ys a, aucRow ys b] := by
  have hsum := count_add ys a b hab hy
  have hpa : 0 < count ys a := (count_pos_iff ys a).mpr ha
  have hpb : 0 < count ys b := (count_pos_iff ys b).mpr hb
  rw [aucElem_eq]
  have hcond : ([a, b].any (fun c => count ys c == 0 || count ys c == ys.length)) = false := by
    simp only [List.any_cons, List.any_nil, Bool.or_false, Bool.or_eq_false_iff, beq_eq_false_iff_ne, ne_eq]
    omega
  rw [hcond]
  have e1 : ys.map (fun y => aucCell ys [a, b] a y) = aucRow ys a :=
    List.map_congr_left (fun y hyy => aucCell_binary ys a b hab hy ha hb a y hyy)
  have e2 : ys.map (fun y => aucCell ys [a, b] b y) = aucRow ys b :=
    List.map_congr_left (fun y hyy => aucCell_binary ys a b hab hy ha hb b y hyy)
  simp only [Bool.false_eq_true, if_false, List.map_cons, List.map_nil]
  rw [e1, e2]

theorem aucRow_select (ys : List Int) (a b : Int) (hab : a ≠ b) (p : Int) (hp : p = a ∨ p = b) :
    [aucRow ys a, aucRow ys b].getD ([a, b].idxOf p) [] = aucRow ys p := by
  rcases hp with h | h
  · subst h; simp
  · subst h; simp [List.idxOf_cons_ne _ hab]

theorem aucRow_getD (ys : List Int) (p : Int) (j : ℕ) (hj : j < ys.length) :
    (aucRow ys p).getD j 0 = ind (p == ys.getD j 0) / (2 * (count ys (ys.getD j 0) : ℚ)) := by
  simp [aucRow, List.getD_eq_getElem?_getD, List.getElem?_eq_getElem hj]

/-- the sum, over the validation points, of the table entry selected by the prediction -/
theorem auc_select_eq (ys pred : List Int) (a b : Int) (hab : a ≠ b) (hlen : pred.length = ys.length)
    (hp : ∀ p ∈ pred, p = a ∨ p = b) :
    (List.range ys.length).map
        (fun j => ([aucRow ys a, aucRow ys b].getD ([a, b].idxOf (pred.getD j 0)) []).getD j 0)
      = (ys.zip pred).map (fun q => ind (q.2 == q.1) / (2 * (count ys q.1 : ℚ))) := by
  rw [← range_map_zip ys pred (fun y p => ind (p == y) / (2 * (count ys y : ℚ))) hlen]
  apply List.map_congr_left
  intro j hj
  have hj' := List.mem_range.mp hj
  rw [aucRow_select ys a b hab _ (hp _ (getD_mem_int pred (by omega))), aucRow_getD _ _ _ hj']

theorem list_sum_map_add {β : Type} (l : List β) (f g : β → ℚ) :
    (l.map (fun x => f x + g x)).sum = (l.map f).sum + (l.map g).sum := by
  induction l with
  | nil => simp
  | cons x l ih => simp only [List.map_cons, List.sum_cons, ih]; ring

theorem list_sum_map_mul_right {β : Type} (l : List β) (f : β → ℚ) (c : ℚ) :
    (l.map (fun x => f x * c)).sum = (l.map f).sum * c := by
  induction l with
  | nil => simp
  | cons x l ih => simp only [List.map_cons, List.sum_cons, ih]; ring

/-- hard predictions on binary labels: the selected entries add up to `(TP/P + TN/N)/2`, where `pos`
is either of the two classes and `neg` the other -/
theorem auc_sum_eq (ys pred : List Int) (pos neg : Int) (hpn : pos ≠ neg) (hy : ∀ y ∈ ys, y = pos ∨ y = neg)
    (hpos : pos ∈ ys) (hneg : neg ∈ ys) (hp : ∀ p ∈ pred, p = pos ∨ p = neg) :
    aucHard pos ys pred
      = some (((ys.zip pred).map (fun q => ind (q.2 == q.1) / (2 * (count ys q.1 : ℚ)))).sum) := by
  have hsum := count_add ys pos neg hpn hy
  have hP : 0 < count ys pos := (count_pos_iff ys pos).mpr hpos
  have hN : 0 < count ys neg := (count_pos_iff ys neg).mpr hneg
  have hN' : ys.length - count ys pos = count ys neg := by omega
  have hPq : (count ys pos : ℚ) ≠ 0 := by exact_mod_cast hP.ne'
  have hNq : (count ys neg : ℚ) ≠ 0 := by exact_mod_cast hN.ne'
  unfold aucHard
  simp only [hN']
  have hcond : (count ys pos == 0 || count ys neg == 0) = false := by
    simp only [Bool.or_eq_false_iff, beq_eq_false_iff_ne, ne_eq]; omega
  rw [hcond]
  simp only [Bool.false_eq_true, if_false, Option.some.injEq]
  rw [← sum_map_ind, ← sum_map_ind]
  have hcell : ∀ q ∈ ys.zip pred,
      ind (q.2 == q.1) / (2 * (count ys q.1 : ℚ))
        = ind (q.1 == pos && q.2 == pos) * (1 / (count ys pos : ℚ) / 2)
          + ind (q.1 != pos && q.2 != pos) * (1 / (count ys neg : ℚ) / 2) := by
    intro q hq
    have h1 := hy _ (List.of_mem_zip hq).1
    have h2 := hp _ (List.of_mem_zip hq).2
    have hnp : neg ≠ pos := Ne.symm hpn
    rcases h1 with h1 | h1 <;> rcases h2 with h2 | h2 <;> rw [h1, h2] <;> simp [ind, hpn, hnp] <;> field_simp
  rw [List.map_congr_left hcell, list_sum_map_add, list_sum_map_mul_right, list_sum_map_mul_right]
  ring

/-! ### `np.unique` -/

theorem nodup_eraseDups (l : List Int) : l.eraseDups.Nodup := by
  induction h : l.length using Nat.strong_induction_on generalizing l with
  | _ n ih =>
    cases l with
    | nil => simp
    | cons a as =>
      rw [List.eraseDups_cons, List.nodup_cons]
      refine ⟨?_, ?_⟩
      · rw [List.mem_eraseDups, List.mem_filter]
        simp
      · apply ih (as.filter (fun b => !b == a)).length _ _ rfl
        rw [← h, List.length_cons]
        exact Nat.lt_succ_of_le (List.length_filter_le _ _)

theorem mem_unique (ys : List Int) (c : Int) : c ∈ unique ys ↔ c ∈ ys := by
  unfold unique
  rw [List.mem_eraseDups, List.mem_mergeSort]

theorem nodup_unique (ys : List Int) : (unique ys).Nodup := nodup_eraseDups _

/-- binary labels: `unique` is a permutation of the two classes -/
theorem unique_perm_pair (ys : List Int) (a b : Int) (hab : a ≠ b) (hy : ∀ y ∈ ys, y = a ∨ y = b)
    (ha : a ∈ ys) (hb : b ∈ ys) : (unique ys).Perm [a, b] := by
  apply (List.perm_ext_iff_of_nodup (nodup_unique ys) (by simp [hab])).mpr
  intro c
  rw [mem_unique]
  constructor
  · intro h; rcases hy c h with h | h <;> simp [h]
  · intro h
    simp only [List.mem_cons, List.not_mem_nil, or_false] at h
    rcases h with h | h <;> rw [h] <;> assumption

theorem aucNullElem_eq (yTest : List Int) :
    aucNullElem yTest
      = if (unique yTest).any (fun c => count yTest c == yTest.length) || (unique yTest).isEmpty then none
        else some (yTest.map (fun y => aucCell yTest (unique yTest)
          ((unique yTest).getD (((unique yTest).map (count yTest)).idxOf
            (((unique yTest).map (count yTest)).foldl min (((unique yTest).map (count yTest)).headD 0))) 0) y)) := rfl

theorem foldl_min_mem_nat (ss : List ℕ) (s : ℕ) : ss.foldl min s ∈ s :: ss := by
  induction ss generalizing s with
  | nil => simp
  | cons y ss ih =>
    simp only [List.foldl_cons]
    rcases List.mem_cons.mp (ih (min s y)) with h | h
    · rw [h]
      rcases min_choice s y with h' | h' <;> rw [h'] <;> simp
    · exact List.mem_cons_of_mem _ (List.mem_cons_of_mem _ h)

/-- the least frequent class chosen by `elementwise_null_score` is one of the classes -/
theorem leastFrequent_mem (cls : List Int) (f : Int → ℕ) (hne : cls ≠ []) :
    cls.getD ((cls.map f).idxOf ((cls.map f).foldl min ((cls.map f).headD 0))) 0 ∈ cls := by
  cases cls with
  | nil => exact absurd rfl hne
  | cons c cs =>
    have hm : (List.map f (c :: cs)).foldl min ((List.map f (c :: cs)).headD 0) ∈ List.map f (c :: cs) := by
      simp only [List.map_cons, List.headD_cons, List.foldl_cons, min_self]
      exact foldl_min_mem_nat _ _
    have hlt := List.idxOf_lt_length_iff.mpr hm
    rw [List.length_map] at hlt
    exact getD_mem_int _ hlt

/-- the row of a present label adds up to one half -/
theorem aucRow_sum (ys : List Int) (p : Int) (hp : p ∈ ys) : (aucRow ys p).sum = 1 / 2 := by
  have hP : 0 < count ys p := (count_pos_iff ys p).mpr hp
  have hPq : (count ys p : ℚ) ≠ 0 := by exact_mod_cast hP.ne'
  have hcell : ∀ y ∈ ys, ind (p == y) / (2 * (count ys y : ℚ)) = ind (y == p) * (1 / (2 * (count ys p : ℚ))) := by
    intro y _
    by_cases h : p = y
    · subst h; simp [ind]
    · have h' : ¬ y = p := fun e => h e.symm
      simp [ind, h, h']
  unfold aucRow
  rw [List.map_congr_left hcell, list_sum_map_mul_right, sum_ind_eq_count]
  field_simp

theorem aucNullElem_binary (ys : List Int) (a b : Int) (hab : a ≠ b) (hy : ∀ y ∈ ys, y = a ∨ y = b)
    (ha : a ∈ ys) (hb : b ∈ ys) :
    ∃ lf, (lf = a ∨ lf = b) ∧ aucNullElem ys = some (aucRow ys lf) := by
  have hperm := unique_perm_pair ys a b hab hy ha hb
  have hsum := count_add ys a b hab hy
  have hpa : 0 < count ys a := (count_pos_iff ys a).mpr ha
  have hpb : 0 < count ys b := (count_pos_iff ys b).mpr hb
  have hne : unique ys ≠ [] := by
    intro h; rw [h] at hperm; simpa using hperm.length_eq
  have hcond : ((unique ys).any (fun c => count ys c == ys.length) || (unique ys).isEmpty) = false := by
    rw [Bool.or_eq_false_iff]
    refine ⟨?_, ?_⟩
    · rw [List.any_eq_false]
      intro c hc
      have : c = a ∨ c = b := by simpa using hperm.mem_iff.mp hc
      rcases this with h | h <;> subst h <;> simp <;> omega
    · cases hu : unique ys with
      | nil => exact absurd hu hne
      | cons _ _ => rfl
  have hlf := leastFrequent_mem (unique ys) (count ys) hne
  refine ⟨(unique ys).getD (((unique ys).map (count ys)).idxOf
    (((unique ys).map (count ys)).foldl min (((unique ys).map (count ys)).headD 0))) 0, ?_, ?_⟩
  · have := hperm.mem_iff.mp hlf
    simpa using this
  rw [aucNullElem_eq, hcond]
  simp only [Bool.false_eq_true, if_false, Option.some.injEq]
  unfold aucRow
  apply List.map_congr_left
  intro y hyy
  rw [aucCell_perm ys hperm, aucCell_binary ys a b hab hy ha hb _ y hyy]

/-! ### C08: `JointUtility` -/

theorem jointScalar_nil_right (ws : List ℚ) : jointScalar ws [] = 0 := by simp [jointScalar]
theorem jointScalar_nil_left (xs : List ℚ) : jointScalar [] xs = 0 := by simp [jointScalar]
theorem jointScalar_cons (w x : ℚ) (ws xs : List ℚ) :
    jointScalar (w :: ws) (x :: xs) = w * x + jointScalar ws xs := by simp [jointScalar]

/-- `jointScalar` is the (truncating) dot product `Σ_k ws[k]·xs[k]` -/
theorem jointScalar_eq_sum (ws xs : List ℚ) :
    jointScalar ws xs = ∑ k ∈ Finset.range (min ws.length xs.length), ws.getD k 0 * xs.getD k 0 := by
  induction ws generalizing xs with
  | nil => simp [jointScalar_nil_left]
  | cons w ws ih =>
    cases xs with
    | nil => simp [jointScalar_nil_right]
    | cons x xs =>
      rw [jointScalar_cons, ih, List.length_cons, List.length_cons, Nat.succ_min_succ, Finset.sum_range_succ']
      simp [add_comm]

theorem jointScalar_smul (c : ℚ) (ws xs : List ℚ) : jointScalar ws (xs.map (c * ·)) = c * jointScalar ws xs := by
  induction ws generalizing xs with
  | nil => simp [jointScalar_nil_left]
  | cons w ws ih =>
    cases xs with
    | nil => simp [jointScalar_nil_right]
    | cons x xs => rw [List.map_cons, jointScalar_cons, jointScalar_cons, ih]; ring

theorem jointScalar_lin (a b : ℚ) (ws xs ys : List ℚ) (h : xs.length = ys.length) :
    jointScalar ws (List.zipWith (fun x y => a * x + b * y) xs ys) = a * jointScalar ws xs + b * jointScalar ws ys := by
  induction ws generalizing xs ys with
  | nil => simp [jointScalar_nil_left]
  | cons w ws ih =>
    cases xs with
    | nil =>
      cases ys with
      | nil => simp [jointScalar_nil_right]
      | cons _ _ => simp at h
    | cons x xs =>
      cases ys with
      | nil => simp at h
      | cons y ys =>
        rw [List.zipWith_cons_cons, jointScalar_cons, jointScalar_cons, jointScalar_cons, ih xs ys (by simpa using h)]
        ring

theorem jointScalar_add (ws xs ys : List ℚ) (h : xs.length = ys.length) :
    jointScalar ws (List.zipWith (· + ·) xs ys) = jointScalar ws xs + jointScalar ws ys := by
  have := jointScalar_lin 1 1 ws xs ys h
  simpa using this

/-- also linear in the weights -/
theorem jointScalar_smul_left (c : ℚ) (ws xs : List ℚ) : jointScalar (ws.map (c * ·)) xs = c * jointScalar ws xs := by
  induction ws generalizing xs with
  | nil => simp [jointScalar_nil_left]
  | cons w ws ih =>
    cases xs with
    | nil => simp [jointScalar_nil_right]
    | cons x xs => rw [List.map_cons, jointScalar_cons, jointScalar_cons, ih]; ring

/-- entry `[c][j]` of `JointUtility.elementwise_score` (indices inside the shape of the first component) -/
theorem jointElem_getD (ws : List ℚ) (m0 : List (List ℚ)) (ms : List (List (List ℚ))) (c j : ℕ)
    (hc : c < m0.length) (hj : j < (m0.getD c []).length) :
    ((jointElem ws (m0 :: ms)).getD c []).getD j 0
      = jointScalar ws ((m0 :: ms).map (fun m => (m.getD c []).getD j 0)) := by
  simp [jointElem, List.getD_eq_getElem?_getD, List.getElem?_eq_getElem hc] at hj ⊢
  simp [hc, hj]

theorem jointCall_some (ws xs : List ℚ) (null : ℚ) : jointCall ws (xs.map some) null = jointScalar ws xs := by
  unfold jointCall
  have h : (xs.map some).any Option.isNone = false := by
    rw [List.any_eq_false]; intro x hx
    obtain ⟨y, _, rfl⟩ := List.mem_map.mp hx
    simp
  rw [h]
  simp [List.map_map, Function.comp_def]

theorem jointCall_none (ws : List ℚ) (rs : List (Option ℚ)) (null : ℚ) (h : none ∈ rs) :
    jointCall ws rs null = null := by
  unfold jointCall
  have : rs.any Option.isNone = true := List.any_eq_true.mpr ⟨none, h, rfl⟩
  rw [this]; rfl

/-! composition with the kernel -/

/-- the per-point utility columns the kernel receives, built from a `[class][point]` table exactly as
`mapfork` does: `(List.range nb).map (fun j => column util j 0)` -/
def colsOf (nb : ℕ) (m : List (List ℚ)) : List (List ℚ) :=
  (List.range nb).map (fun j => Ds.Neighbor.column m j 0)

/-- `Σ_k ws[k]·ms[k]` as a `C × nb` table (also defined, as the zero table, for `ms = []`) -/
def combTable (C nb : ℕ) (ws : List ℚ) (ms : List (List (List ℚ))) : List (List ℚ) :=
  (List.range C).map (fun c => (List.range nb).map (fun j =>
    jointScalar ws (ms.map (fun m => (m.getD c []).getD j 0))))

/-- `Σ_k ws[k]·vs[k]` as a vector of length `n` -/
def combVec (n : ℕ) (ws : List ℚ) (vs : List (List ℚ)) : List ℚ :=
  (List.range n).map (fun u => jointScalar ws (vs.map (·.getD u 0)))

theorem combVec_length (n : ℕ) (ws : List ℚ) (vs : List (List ℚ)) : (combVec n ws vs).length = n := by
  simp [combVec]

theorem colsOf_length (nb : ℕ) (m : List (List ℚ)) : (colsOf nb m).length = nb := by simp [colsOf]

theorem colsOf_getD_length (nb : ℕ) (m : List (List ℚ)) (j : ℕ) :
    ((colsOf nb m).getD j []).length = if j < nb then m.length else 0 := by
  by_cases h : j < nb
  · simp [colsOf, Ds.Neighbor.column, List.getD_eq_getElem?_getD, h]
  · simp [colsOf, List.getD_eq_getElem?_getD, h]

theorem combTable_length (C nb : ℕ) (ws : List ℚ) (ms : List (List (List ℚ))) :
    (combTable C nb ws ms).length = C := by simp [combTable]

/-- on tables of the common shape `C × nb`, `jointElem` is `combTable` -/
theorem jointElem_eq_combTable (C nb : ℕ) (ws : List ℚ) (m0 : List (List ℚ)) (ms : List (List (List ℚ)))
    (hC : m0.length = C) (hrow : ∀ row ∈ m0, row.length = nb) :
    jointElem ws (m0 :: ms) = combTable C nb ws (m0 :: ms) := by
  unfold jointElem combTable
  simp only [hC]
  apply List.map_congr_left
  intro c hc
  have hc' : c < m0.length := by rw [hC]; exact List.mem_range.mp hc
  have : (m0.getD c []).length = nb := by
    apply hrow
    simp only [List.getD_eq_getElem?_getD, List.getElem?_eq_getElem hc', Option.getD_some]
    exact List.getElem_mem hc'
  rw [this]

theorem combVec_cons (n : ℕ) (w : ℚ) (ws : List ℚ) (v : List ℚ) (vs : List (List ℚ)) (hv : v.length = n) :
    combVec n (w :: ws) (v :: vs) = List.zipWith (Ds.Kernel.lin w 1) v (combVec n ws vs) := by
  apply List.ext_getElem
  · simp [combVec, hv]
  · intro u h1 h2
    simp only [combVec, List.length_map, List.length_range] at h1
    have h3 : u < v.length := by omega
    simp [combVec, jointScalar_cons, Ds.Kernel.lin, List.getD_eq_getElem?_getD, List.getElem?_eq_getElem h3]

theorem colsOf_combTable_cons (C nb : ℕ) (w : ℚ) (ws : List ℚ) (m : List (List ℚ)) (ms : List (List (List ℚ)))
    (hC : m.length = C) :
    colsOf nb (combTable C nb (w :: ws) (m :: ms))
      = List.zipWith (List.zipWith (Ds.Kernel.lin w 1)) (colsOf nb m) (colsOf nb (combTable C nb ws ms)) := by
  apply List.ext_getElem
  · simp [colsOf]
  · intro j h1 h2
    simp only [colsOf, List.length_map, List.length_range] at h1
    simp only [colsOf, List.getElem_map, List.getElem_range, List.getElem_zipWith, Ds.Neighbor.column]
    apply List.ext_getElem
    · simp [combTable, hC]
    · intro c h3 h4
      simp only [combTable, List.length_map, List.length_range] at h3
      have h5 : c < m.length := by omega
      simp [combTable, jointScalar_cons, Ds.Kernel.lin, List.getD_eq_getElem?_getD, h1,
        List.getElem?_eq_getElem h5]

theorem zipWith_lin_zero (l : List ℚ) (h : ∀ x ∈ l, x = 0) : List.zipWith (Ds.Kernel.lin 0 0) l l = l := by
  induction l with
  | nil => rfl
  | cons x l ih =>
    rw [List.zipWith_cons_cons, ih (fun y hy => h y (List.mem_cons_of_mem _ hy)), h x List.mem_cons_self]
    simp [Ds.Kernel.lin]

theorem zipWith_zipWith_lin_zero (U : List (List ℚ)) (h : ∀ l ∈ U, ∀ x ∈ l, x = 0) :
    List.zipWith (List.zipWith (Ds.Kernel.lin 0 0)) U U = U := by
  induction U with
  | nil => rfl
  | cons l U ih =>
    rw [List.zipWith_cons_cons, ih (fun y hy => h y (List.mem_cons_of_mem _ hy)),
      zipWith_lin_zero l (h l List.mem_cons_self)]

/-- all-zero utilities and null scores give all-zero importances -/
theorem importances_zero (n : ℕ) (labels orders : List (List ℕ)) (utils : List (List ℚ)) (nulls : List ℚ)
    (hU : ∀ l ∈ utils, ∀ x ∈ l, x = 0) (hN : ∀ x ∈ nulls, x = 0) :
    Ds.Kernel.importances n labels orders utils nulls = List.replicate n 0 := by
  have h := Ds.Kernel.importances_lin n 0 0 labels orders utils utils nulls nulls rfl (fun _ => rfl) rfl
  rw [zipWith_zipWith_lin_zero utils hU, zipWith_lin_zero nulls hN] at h
  apply Ds.Kernel.ext_getD (Ds.Kernel.importances_length _ _ _ _ _) (by simp)
  intro u hu
  rw [h, Ds.Kernel.getD_replicate_zero]
  have e := Ds.Kernel.getD_zipWith (Ds.Kernel.lin 0 0) (Ds.Kernel.importances n labels orders utils nulls)
    (Ds.Kernel.importances n labels orders utils nulls) 0 0 u rfl
  simp only [Ds.Kernel.lin, zero_mul, add_zero] at e ⊢
  exact e

theorem combVec_nil (n : ℕ) (ws : List ℚ) : combVec n ws [] = List.replicate n 0 := by
  apply List.ext_getElem
  · simp [combVec]
  · intro u h1 h2
    simp [combVec, jointScalar_nil_right]

/-- **linearity of the kernel in any number of weighted components** (tables of a common shape) -/
theorem importances_comb (n C nb : ℕ) (labels orders : List (List ℕ)) (ws : List ℚ)
    (ms : List (List (List ℚ))) (Ns : List (List ℚ))
    (hw : ws.length = ms.length) (hN : Ns.length = ms.length)
    (hshape : ∀ m ∈ ms, m.length = C) (hNs : ∀ N ∈ Ns, N.length = nb) :
    Ds.Kernel.importances n labels orders (colsOf nb (combTable C nb ws ms)) (combVec nb ws Ns)
      = combVec n ws (List.zipWith (fun m N => Ds.Kernel.importances n labels orders (colsOf nb m) N) ms Ns) := by
  induction ms generalizing ws Ns with
  | nil =>
    rw [List.zipWith_nil_left, combVec_nil]
    apply importances_zero
    · intro l hl x hx
      simp only [colsOf, Ds.Neighbor.column, combTable, List.map_nil, jointScalar_nil_right, List.mem_map,
        List.mem_range] at hl
      obtain ⟨j, _, rfl⟩ := hl
      simp only [List.map_map, List.mem_map, List.mem_range] at hx
      obtain ⟨c, _, rfl⟩ := hx
      simp only [List.map_const', List.length_range]
      exact Ds.Kernel.getD_replicate_zero nb j
    · intro x hx
      have : Ns = [] := List.length_eq_zero_iff.mp (by simpa using hN)
      subst this
      rw [combVec_nil] at hx
      exact (List.mem_replicate.mp hx).2
  | cons m ms ih =>
    cases ws with
    | nil => simp at hw
    | cons w ws =>
      cases Ns with
      | nil => simp at hN
      | cons N Ns =>
        have hC : m.length = C := hshape m List.mem_cons_self
        have hNl : N.length = nb := hNs N List.mem_cons_self
        rw [colsOf_combTable_cons C nb w ws m ms hC, combVec_cons nb w ws N Ns hNl,
          Ds.Kernel.importances_lin n w 1 labels orders _ _ _ _ (by rw [colsOf_length, colsOf_length])
            (by intro j; rw [colsOf_getD_length, colsOf_getD_length, combTable_length, hC])
            (by rw [hNl, combVec_length]),
          ih ws Ns (by simpa using hw) (by simpa using hN)
            (fun m' hm' => hshape m' (List.mem_cons_of_mem _ hm'))
            (fun N' hN' => hNs N' (List.mem_cons_of_mem _ hN')),
          List.zipWith_cons_cons, combVec_cons n w ws _ _ (Ds.Kernel.importances_length _ _ _ _ _)]

theorem combVec_getD (n : ℕ) (ws : List ℚ) (vs : List (List ℚ)) (u : ℕ) (hu : u < n) :
    (combVec n ws vs).getD u 0 = jointScalar ws (vs.map (·.getD u 0)) := by
  simp [combVec, List.getD_eq_getElem?_getD, hu]

theorem combVec_pair (n : ℕ) (w₁ w₂ : ℚ) (v₁ v₂ : List ℚ) (h₁ : v₁.length = n) (h₂ : v₂.length = n) :
    combVec n [w₁, w₂] [v₁, v₂] = List.zipWith (fun x y => w₁ * x + w₂ * y) v₁ v₂ := by
  apply List.ext_getElem
  · simp [combVec, h₁, h₂]
  · intro u h1 h2
    simp only [combVec, List.length_map, List.length_range] at h1
    have h3 : u < v₁.length := by omega
    have h4 : u < v₂.length := by omega
    simp [combVec, jointScalar_cons, jointScalar_nil_left, List.getD_eq_getElem?_getD,
      List.getElem?_eq_getElem h3, List.getElem?_eq_getElem h4]

/-! ### C18: renaming the labels -/

theorem beq_map_inj (ρ : Int → Int) (hρ : Function.Injective ρ) (a b : Int) : (ρ a == ρ b) = (a == b) := by
  rw [Bool.eq_iff_iff]
  simp [hρ.eq_iff]

theorem eraseDups_map_inj (ρ : Int → Int) (hρ : Function.Injective ρ) (l : List Int) :
    (l.map ρ).eraseDups = l.eraseDups.map ρ := by
  induction h : l.length using Nat.strong_induction_on generalizing l with
  | _ n ih =>
    cases l with
    | nil => rfl
    | cons a as =>
      rw [List.map_cons, List.eraseDups_cons, List.eraseDups_cons, List.map_cons, List.filter_map]
      have hf : ((fun b => !b == ρ a) ∘ ρ) = (fun b => !b == a) := by
        funext b
        simp only [Function.comp, beq_map_inj ρ hρ]
      rw [hf, ih (as.filter (fun b => !b == a)).length _ _ rfl]
      rw [← h, List.length_cons]
      exact Nat.lt_succ_of_le (List.length_filter_le _ _)

/-- an order-preserving renaming commutes with `np.unique` -/
theorem unique_map (ρ : Int → Int) (hρ : StrictMono ρ) (ys : List Int) :
    unique (ys.map ρ) = (unique ys).map ρ := by
  unfold unique
  rw [← eraseDups_map_inj ρ hρ.injective]
  congr 1
  symm
  apply List.map_mergeSort
  intro a _ b _
  simp only [decide_eq_decide]
  exact hρ.le_iff_le.symm

theorem idxOf_map_inj (ρ : Int → Int) (hρ : Function.Injective ρ) (cs : List Int) (y : Int) :
    (cs.map ρ).idxOf (ρ y) = cs.idxOf y := by
  induction cs with
  | nil => rfl
  | cons c cs ih =>
    rw [List.map_cons, List.idxOf_cons, List.idxOf_cons, ih, beq_map_inj ρ hρ]

theorem contains_map_inj (ρ : Int → Int) (hρ : Function.Injective ρ) (cs : List Int) (y : Int) :
    (cs.map ρ).contains (ρ y) = cs.contains y := by
  rw [Bool.eq_iff_iff]
  simp only [List.contains_iff_mem, List.mem_map]
  constructor
  · rintro ⟨x, hx, e⟩; exact hρ e ▸ hx
  · intro h; exact ⟨y, h, rfl⟩

/-- `LabelEncoder.transform` gives the same codes after an injective renaming of labels and classes -/
theorem encode_map (ρ : Int → Int) (hρ : Function.Injective ρ) (cs : List Int) (y : Int) :
    encode (cs.map ρ) (ρ y) = encode cs y := by
  unfold encode
  rw [contains_map_inj ρ hρ, idxOf_map_inj ρ hρ]

theorem mapM_encode_map (ρ : Int → Int) (hρ : Function.Injective ρ) (cs ys : List Int) :
    (ys.map ρ).mapM (encode (cs.map ρ)) = ys.mapM (encode cs) := by
  rw [List.mapM_map]
  congr 1
  funext y
  exact encode_map ρ hρ cs y

theorem ind_beq_map (ρ : Int → Int) (hρ : Function.Injective ρ) (a b : Int) : ind (ρ a == ρ b) = ind (a == b) := by
  rw [beq_map_inj ρ hρ]

theorem accElem_map (ρ : Int → Int) (hρ : Function.Injective ρ) (cs ys : List Int) :
    accElem (cs.map ρ) (ys.map ρ) = accElem cs ys := by
  unfold accElem
  simp only [List.map_map, Function.comp_def, ind_beq_map ρ hρ]

theorem accNullElem_map (ρ : Int → Int) (hρ : Function.Injective ρ) (cs ys : List Int) :
    accNullElem (cs.map ρ) (ys.map ρ) = accNullElem cs ys := by
  unfold accNullElem
  simp only [List.foldl_map, List.map_map, Function.comp_def, ind_beq_map ρ hρ]

theorem accuracy_map (ρ : Int → Int) (hρ : Function.Injective ρ) (ys ps : List Int) :
    accuracy (ys.map ρ) (ps.map ρ) = accuracy ys ps := by
  unfold accuracy
  rw [List.zip_map, List.map_map]
  simp only [Function.comp_def, Prod.map_fst, Prod.map_snd, ind_beq_map ρ hρ]

theorem accNull_map (ρ : Int → Int) (hρ : Function.Injective ρ) (cs ys : List Int) :
    accNull (cs.map ρ) (ys.map ρ) = accNull cs ys := by
  unfold accNull
  have : (cs.map ρ).map (fun x => accuracy (ys.map ρ) ((ys.map ρ).map (fun _ => x)))
      = cs.map (fun x => accuracy ys (ys.map (fun _ => x))) := by
    rw [List.map_map]
    apply List.map_congr_left
    intro x _
    simp only [Function.comp]
    have : (ys.map ρ).map (fun _ => ρ x) = (ys.map (fun _ => x)).map ρ := by
      rw [List.map_map, List.map_map]; rfl
    rw [this, accuracy_map ρ hρ]
  rw [this]

/-- the row of the accuracy table selected by the code of label `p` is the indicator of `p` -/
theorem accElem_row (cs yT : List Int) (p : Int) (hp : p ∈ cs) :
    (accElem cs yT).getD (cs.idxOf p) [] = yT.map (fun t => ind (p == t)) := by
  have h := List.idxOf_lt_length_iff.mpr hp
  simp [accElem, List.getD_eq_getElem?_getD, List.getElem?_eq_getElem h]

end Ds.Util

namespace Ds.Session

/-! ### C20: the fit/score state machine -/

variable {Data Arg Out : Type}

/-- the data of the last `fit` in a history, if any -/
def lastFit : List (Op Data Arg) → Option Data
  | [] => none
  | .fit d :: ops => (match lastFit ops with | some d' => some d' | none => some d)
  | .score _ :: ops => lastFit ops

/-- what a `score a` call returns in a state whose fitted data is `o` -/
def scoreOut (f : Data → Arg → Out) (o : Option Data) (a : Arg) : Option (Except Err Out) :=
  match o with
  | none => some (.error Err.valueError)
  | some d => some (.ok (f d a))

theorem step_score_fst (f : Data → Arg → Out) (s : State Data) (a : Arg) :
    (step f s (.score a)).1 = s := by
  unfold step
  cases s.fitted <;> rfl

/-- the value returned by `score` -/
theorem step_score_out (f : Data → Arg → Out) (s : State Data) (a : Arg) :
    (step f s (.score a)).2 = scoreOut f s.fitted a := by
  unfold step scoreOut
  cases s.fitted <;> rfl

theorem run_append (f : Data → Arg → Out) (s : State Data) (ops₁ ops₂ : List (Op Data Arg)) :
    run f s (ops₁ ++ ops₂)
      = ((run f (run f s ops₁).1 ops₂).1, (run f s ops₁).2 ++ (run f (run f s ops₁).1 ops₂).2) := by
  induction ops₁ generalizing s with
  | nil => rfl
  | cons op ops ih => simp only [List.cons_append, run, ih]

theorem run_length (f : Data → Arg → Out) (s : State Data) (ops : List (Op Data Arg)) :
    (run f s ops).2.length = ops.length := by
  induction ops generalizing s with
  | nil => rfl
  | cons op ops ih => simp [run, ih]

/-- `run` over score calls only: state unchanged, outputs are the individual scores -/
theorem run_scores (f : Data → Arg → Out) (s : State Data) (as : List Arg) :
    run f s (as.map Op.score) = (s, as.map (scoreOut f s.fitted)) := by
  induction as with
  | nil => rfl
  | cons a as ih =>
    simp only [List.map_cons, run, step_score_fst, ih, step_score_out]

theorem run_state (f : Data → Arg → Out) (s : State Data) (ops : List (Op Data Arg)) :
    (run f s ops).1.fitted = ((lastFit ops).orElse fun _ => s.fitted) := by
  induction ops generalizing s with
  | nil => rfl
  | cons op ops ih =>
    cases op with
    | fit d =>
      simp only [run, step, ih, lastFit]
      cases lastFit ops <;> rfl
    | score a =>
      simp only [run, ih, step_score_fst, lastFit]

theorem lastFit_none_iff (ops : List (Op Data Arg)) :
    lastFit ops = none ↔ ∀ d, Op.fit d ∉ ops := by
  induction ops with
  | nil => simp [lastFit]
  | cons op ops ih =>
    cases op with
    | fit d =>
      simp only [lastFit, List.mem_cons, not_or]
      constructor
      · intro h; cases hl : lastFit ops <;> simp [hl] at h
      · intro h; exact absurd rfl (h d).1
    | score a =>
      simp only [lastFit, ih, List.mem_cons, not_or]
      constructor
      · intro h d
        refine ⟨?_, h d⟩
        intro h'
        cases h'
      · intro h d; exact (h d).2

theorem lastFit_append_fit (ops₁ ops₂ : List (Op Data Arg)) (d : Data) (h : ∀ d', Op.fit d' ∉ ops₂) :
    lastFit (ops₁ ++ .fit d :: ops₂) = some d := by
  have h2 := (lastFit_none_iff ops₂).mpr h
  induction ops₁ with
  | nil => simp [lastFit, h2]
  | cons op ops ih =>
    cases op with
    | fit d' => simp [lastFit, ih]
    | score a => simpa [lastFit] using ih

theorem drop_append_singleton {β : Type} (A : List β) (n : ℕ) (x : β) (M : List β) (h : A.length = n) :
    (A ++ [x] ++ M).drop (n + 1) = M := by
  subst h
  induction A with
  | nil => rfl
  | cons y A ih => simp

end Ds.Session
