import Ds.Prov

/-!
# Helper lemmas for the provenance container (`Ds.Prov`)

Specification side (`litSem`, `conjSem`, `rowSem`, `WellPadded`, `Expr.dnf`, `Expr.Proper`,
`Expr.InRange`, `absF`) and all lemmas used by the property files C05, C11, C12, C19.
Core Lean only (no Mathlib).
-/

namespace Ds.Prov

/-- equality of query results is decidable (used by the `decide` examples) -/
instance decEqExcept {α : Type} [DecidableEq α] : DecidableEq (Except Err α)
  | .ok a, .ok b => if h : a = b then isTrue (by rw [h]) else isFalse (fun h' => by cases h'; exact h rfl)
  | .error a, .error b =>
    if h : a = b then isTrue (by rw [h]) else isFalse (fun h' => by cases h'; exact h rfl)
  | .ok _, .error _ => isFalse (fun h => by cases h)
  | .error _, .ok _ => isFalse (fun h => by cases h)

/-! ## `mapM` in `Except` -/

theorem map_ok_inj {β : Type} {a b : List β}
    (h : a.map (Except.ok (ε := Err)) = b.map Except.ok) : a = b := by
  induction a generalizing b with
  | nil => cases b <;> simp_all
  | cons x xs ih => cases b with
    | nil => simp at h
    | cons y ys => simp at h; rw [h.1, ih h.2]

theorem mapM_ok_iff {α β : Type} (f : α → Except Err β) (l : List α) (m : List β) :
    l.mapM f = .ok m ↔ l.map f = m.map .ok := by
  induction l generalizing m with
  | nil => cases m <;> simp [pure, Except.pure]
  | cons x xs ih =>
    rw [List.mapM_cons]
    cases hx : f x with
    | error e => cases m <;> simp [bind, Except.bind, hx]
    | ok y =>
      cases hxs : xs.mapM f with
      | error e =>
        have h : ∀ zs : List β, ¬ xs.map f = zs.map .ok := fun zs hz => by
          have := (ih zs).mpr hz; simp [hxs] at this
        cases m <;> simp [bind, Except.bind, hx, h]
      | ok ys =>
        have h := (ih ys).mp hxs
        cases m with
        | nil => simp [bind, Except.bind, pure, Except.pure]
        | cons z zs =>
          simp [bind, Except.bind, pure, Except.pure, h, hx]
          intro _
          exact ⟨fun h => by rw [h], map_ok_inj⟩

theorem mapM_ok_of {α β : Type} (f : α → Except Err β) (g : α → β) (l : List α)
    (h : ∀ x ∈ l, f x = .ok (g x)) : l.mapM f = .ok (l.map g) := by
  rw [mapM_ok_iff, List.map_map]; exact List.map_congr_left h

theorem all_congr_mem {α : Type} {l : List α} {f g : α → Bool} (h : ∀ x ∈ l, f x = g x) :
    l.all f = l.all g := by
  induction l with
  | nil => rfl
  | cons x xs ih =>
    simp only [List.all_cons, h x (by simp)]
    rw [ih (fun y hy => h y (by simp [hy]))]

theorem any_congr_mem {α : Type} {l : List α} {f g : α → Bool} (h : ∀ x ∈ l, f x = g x) :
    l.any f = l.any g := by
  induction l with
  | nil => rfl
  | cons x xs ih =>
    simp only [List.any_cons, h x (by simp)]
    rw [ih (fun y hy => h y (by simp [hy]))]

/-! ## specification: truth value of a padded stored row -/

/-- a stored literal is satisfied: it is padding, or the unit's candidate is the literal's -/
def litSem (a : List Nat) (l : Lit) : Bool := l == padLit || a.getD l.1.toNat 0 == l.2.toNat

/-- a stored conjunction counts as true: it is not pure padding and every literal is satisfied -/
def conjSem (a : List Nat) (c : Conj) : Bool := c.any (· != padLit) && c.all (litSem a)

/-- truth value of a padded stored row under the assignment `a` (candidate index per unit) -/
def rowSem (a : List Nat) (r : Row) : Bool := r.any (conjSem a)

/-- `rowSem` in words: some disjunct that is not pure padding has all its non-padding literals satisfied -/
theorem rowSem_iff (a : List Nat) (r : Row) :
    rowSem a r = true ↔
      ∃ c ∈ r, (∃ l ∈ c, l ≠ padLit) ∧ ∀ l ∈ c, l = padLit ∨ a.getD l.1.toNat 0 = l.2.toNat := by
  simp [rowSem, conjSem, litSem]

/-- a literal is exactly padding or a proper literal over the unit set -/
def LitOK (nUnits : Nat) (l : Lit) : Prop := l = padLit ∨ (0 ≤ l.1 ∧ l.1 < nUnits ∧ 0 ≤ l.2)

def ConjOK (n nUnits : Nat) (c : Conj) : Prop := c.length = n ∧ ∀ l ∈ c, LitOK nUnits l

def RowOK (d n nUnits : Nat) (r : Row) : Prop := r.length = d ∧ ∀ c ∈ r, ConjOK n nUnits c

/-- the array invariant: every row has the declared shape, every literal is `(-1,-1)` or in range -/
def WellPadded (p : P) : Prop := ∀ r ∈ p.data, RowOK p.nDisj p.nConj p.nUnits r

instance (nUnits : Nat) (l : Lit) : Decidable (LitOK nUnits l) := by unfold LitOK; infer_instance
instance (n nUnits : Nat) (c : Conj) : Decidable (ConjOK n nUnits c) := by unfold ConjOK; infer_instance
instance (d n nUnits : Nat) (r : Row) : Decidable (RowOK d n nUnits r) := by unfold RowOK; infer_instance
instance (p : P) : Decidable (WellPadded p) := by unfold WellPadded; infer_instance

/-- what a reader can observe of the container: the list of the rows' truth functions -/
def absF (p : P) : List (List Nat → Bool) := p.data.map (fun r a => rowSem a r)

/-! ## `query` on a well padded container -/

theorem pyIdx_pad (vals : List Int) : pyIdx? (vals ++ [-1]) (-1) = some (-1) := by
  simp [pyIdx?]
  omega

theorem pyIdx_inrange (vals : List Int) (u : Int) (h0 : 0 ≤ u) (h1 : u < vals.length) :
    pyIdx? (vals ++ [-1]) u = some (vals.getD u.toNat 0) := by
  have : u.toNat < vals.length := by omega
  simp [pyIdx?, h0, List.getElem?_append_left this, List.getD_eq_getElem?_getD, this]

theorem litTrue_ok (vals : List Int) (nUnits : Nat) (hlen : vals.length = nUnits)
    (hpos : ∀ v ∈ vals, 0 ≤ v) (l : Lit) (hl : LitOK nUnits l) :
    litTrue vals l = .ok (litSem (vals.map Int.toNat) l) := by
  rcases hl with rfl | ⟨h0, h1, h2⟩
  · simp [litTrue, padLit, pyIdx_pad, litSem, pure, Except.pure]
  · obtain ⟨u, c⟩ := l
    simp only at h0 h1 h2
    have hu : u.toNat < vals.length := by omega
    have hne : ((u, c) == padLit) = false := by
      simp [padLit]; omega
    have hv : 0 ≤ vals[u.toNat] := hpos _ (List.getElem_mem hu)
    simp [litTrue, pyIdx_inrange vals u h0 (by omega), litSem, hne, pure, Except.pure,
      List.getD_eq_getElem?_getD, hu]
    rw [Bool.eq_iff_iff]; simp only [beq_iff_eq]; omega

theorem isPad_iff_of_ok {nUnits : Nat} {l : Lit} (hl : LitOK nUnits l) :
    (l.1 == -1) = (l == padLit) := by
  rcases hl with rfl | ⟨h0, _, _⟩
  · simp [padLit]
  · obtain ⟨u, c⟩ := l
    simp only at h0
    rw [Bool.eq_iff_iff]; simp [padLit]; omega

theorem conjTrue_ok (vals : List Int) (n nUnits : Nat) (hlen : vals.length = nUnits)
    (hpos : ∀ v ∈ vals, 0 ≤ v) (c : Conj) (hc : ConjOK n nUnits c) :
    conjTrue vals n c = .ok (conjSem (vals.map Int.toNat) c) := by
  obtain ⟨hn, hl⟩ := hc
  have hm : c.mapM (litTrue vals) = .ok (c.map (litSem (vals.map Int.toNat))) :=
    mapM_ok_of _ _ _ (fun l h => litTrue_ok vals nUnits hlen hpos l (hl l h))
  have hmask : c.all (fun l => l.1 == -1) = c.all (fun l => l == padLit) :=
    all_congr_mem (fun l h => isPad_iff_of_ok (hl l h))
  have hsq : (if n == 1 then (c.map (litSem (vals.map Int.toNat))).getD 0 true
      else (c.map (litSem (vals.map Int.toNat))).all id) = c.all (litSem (vals.map Int.toNat)) := by
    split
    · rename_i h1
      have : c.length = 1 := by rw [hn]; simpa using h1
      match c, this with
      | [l], _ => simp
    · simp [List.all_map]
  unfold conjTrue
  rw [hm]
  simp only [bind, Except.bind, pure, Except.pure, hsq, hmask, conjSem]
  congr 1
  rw [Bool.and_comm]
  congr 1
  simp [List.all_eq_not_any_not, bne]

theorem rowTrue_ok (vals : List Int) (d n nUnits : Nat) (hlen : vals.length = nUnits)
    (hpos : ∀ v ∈ vals, 0 ≤ v) (r : Row) (hr : RowOK d n nUnits r) :
    rowTrue vals d n r = .ok (rowSem (vals.map Int.toNat) r) := by
  obtain ⟨hd, hc⟩ := hr
  have hm : r.mapM (conjTrue vals n) = .ok (r.map (conjSem (vals.map Int.toNat))) :=
    mapM_ok_of _ _ _ (fun c h => conjTrue_ok vals n nUnits hlen hpos c (hc c h))
  unfold rowTrue
  rw [hm]
  simp only [bind, Except.bind, pure, Except.pure, rowSem]
  congr 1
  split
  · rename_i h1
    have : r.length = 1 := by rw [hd]; simpa using h1
    match r, this with
    | [c], _ => simp
  · simp [List.any_map]

theorem query_ok (p : P) (vals : List Int) (hp : WellPadded p) (hlen : vals.length = p.nUnits)
    (hpos : ∀ v ∈ vals, 0 ≤ v) :
    query p vals = .ok (p.data.map (rowSem (vals.map Int.toNat))) := by
  unfold query
  simp only [hlen, bne_self_eq_false, Bool.false_eq_true, ↓reduceIte]
  exact mapM_ok_of _ _ _ (fun r h => rowTrue_ok vals _ _ _ hlen hpos r (hp r h))

theorem query_wrong_length (p : P) (vals : List Int) (h : vals.length ≠ p.nUnits) :
    query p vals = .error Err.valueError := by
  simp [query, h, throw, throwThe, MonadExceptOf.throw]

/-! ## expressions: normal form, properness, range -/

namespace Expr

/-- the list of conjunctions an expression stands for -/
def dnf : Expr → List (List (Nat × Nat))
  | eq u c => [[(u, c)]]
  | conj es => [es]
  | disj cs => cs

/-- no empty conjunction and no empty disjunction (all the library's constructors can build) -/
def Proper (e : Expr) : Prop := e.dnf ≠ [] ∧ ∀ c ∈ e.dnf, c ≠ []

instance (e : Expr) : Decidable e.Proper := by unfold Proper; infer_instance

/-- every literal names a unit `< nUnits` -/
def InRange (nUnits : Nat) (e : Expr) : Prop := ∀ c ∈ e.dnf, ∀ l ∈ c, l.1 < nUnits

instance (n : Nat) (e : Expr) : Decidable (e.InRange n) := by unfold InRange; infer_instance

theorem eval_eq_dnf (a : List Nat) (e : Expr) :
    e.eval a = e.dnf.any (fun es => es.all (evalLit a)) := by
  cases e <;> simp [eval, dnf]

theorem height_eq_dnf (e : Expr) : e.height = e.dnf.length := by
  cases e <;> simp [height, dnf]

theorem width_eq_dnf (e : Expr) : e.width = (e.dnf.map List.length).foldl max 0 := by
  cases e <;> simp [width, dnf]

theorem padTo_self {β : Type} (l : List β) (x : β) : padTo l l.length x = l := by
  simp [padTo]

theorem data3_eq_dnf (e : Expr) :
    e.data3 = e.dnf.map (fun es => padTo (es.map litData) e.width padLit) := by
  cases e with
  | eq u c => simp [data3, dnf, width, padTo]
  | conj es => simp [data3, dnf, width, padTo]
  | disj cs => simp [data3, dnf, width]

end Expr

theorem le_foldl_max_init (l : List Nat) (i : Nat) : i ≤ l.foldl max i := by
  induction l generalizing i with
  | nil => simp
  | cons x xs ih => simp only [List.foldl_cons]; exact Nat.le_trans (Nat.le_max_left ..) (ih _)

theorem le_foldl_max_of_mem (l : List Nat) (i x : Nat) (h : x ∈ l) : x ≤ l.foldl max i := by
  induction l generalizing i with
  | nil => cases h
  | cons y ys ih =>
    simp only [List.foldl_cons]
    rcases List.mem_cons.mp h with rfl | h
    · exact Nat.le_trans (Nat.le_max_right ..) (le_foldl_max_init _ _)
    · exact ih _ h

theorem Expr.length_le_width (e : Expr) (c : List (Nat × Nat)) (h : c ∈ e.dnf) :
    c.length ≤ e.width := by
  rw [Expr.width_eq_dnf]
  exact le_foldl_max_of_mem _ _ _ (List.mem_map.mpr ⟨c, h, rfl⟩)

/-! ## padding does not change the meaning of a row -/

theorem litSem_pad (a : List Nat) : litSem a padLit = true := by simp [litSem]

theorem conjSem_append_pad (a : List Nat) (c : Conj) (k : Nat) :
    conjSem a (c ++ List.replicate k padLit) = conjSem a c := by
  simp only [conjSem, List.any_append, List.all_append]
  have h1 : (List.replicate k padLit).any (· != padLit) = false := by
    simp
  have h2 : (List.replicate k padLit).all (litSem a) = true := by
    simp [litSem_pad]
  simp [h1, h2]

theorem conjSem_padConj (a : List Nat) (c : Conj) (n : Nat) : conjSem a (padConj c n) = conjSem a c :=
  conjSem_append_pad a c _

theorem conjSem_allpad (a : List Nat) (n : Nat) : conjSem a (List.replicate n padLit) = false := by
  simp [conjSem]

theorem rowSem_padRow (a : List Nat) (r : Row) (d n : Nat) : rowSem a (padRow r d n) = rowSem a r := by
  simp only [rowSem, padRow, Expr.padTo, List.any_append, List.any_map]
  have h : (List.replicate (d - (r.map (padConj · n)).length) (List.replicate n padLit)).any (conjSem a)
      = false := by
    simp [conjSem_allpad]
  rw [h, Bool.or_false]
  exact any_congr_mem (fun c _ => conjSem_padConj a c n)

theorem litSem_litData (a : List Nat) (l : Nat × Nat) : litSem a (Expr.litData l) = Expr.evalLit a l := by
  have : (Expr.litData l == padLit) = false := by
    simp [Expr.litData, padLit]
  rw [litSem, this]
  simp [Expr.evalLit, Expr.litData]

theorem litData_ne_pad (l : Nat × Nat) : (Expr.litData l != padLit) = true := by
  simp [Expr.litData, padLit]

theorem conjSem_litData (a : List Nat) (c : List (Nat × Nat)) (hc : c ≠ []) :
    conjSem a (c.map Expr.litData) = c.all (Expr.evalLit a) := by
  simp only [conjSem, List.any_map, List.all_map]
  have h1 : c.any ((· != padLit) ∘ Expr.litData) = true := by
    cases c with
    | nil => exact absurd rfl hc
    | cons x xs => simp [litData_ne_pad]
  rw [h1, Bool.true_and]
  exact all_congr_mem (fun l _ => litSem_litData a l)

theorem rowSem_data3 (a : List Nat) (e : Expr) (h : ∀ c ∈ e.dnf, c ≠ []) :
    rowSem a e.data3 = e.eval a := by
  rw [Expr.data3_eq_dnf, Expr.eval_eq_dnf, rowSem, List.any_map]
  apply any_congr_mem
  intro c hc
  simp only [Function.comp, Expr.padTo]
  rw [conjSem_append_pad, conjSem_litData a c (h c hc)]

/-- the stored (padded) row of a proper expression means what the expression means -/
theorem rowSem_stored (a : List Nat) (e : Expr) (he : e.Proper) (d n : Nat) :
    rowSem a (padRow e.data3 d n) = e.eval a := by
  rw [rowSem_padRow, rowSem_data3 a e he.2]

/-! ## padding establishes the shape invariant -/

theorem litOK_pad (u : Nat) : LitOK u padLit := Or.inl rfl

theorem length_padTo {β : Type} (l : List β) (n : Nat) (x : β) (h : l.length ≤ n) :
    (Expr.padTo l n x).length = n := by
  simp [Expr.padTo]; omega

theorem mem_padTo {β : Type} {l : List β} {n : Nat} {x y : β} (h : y ∈ Expr.padTo l n x) :
    y ∈ l ∨ y = x := by
  simp only [Expr.padTo, List.mem_append, List.mem_replicate] at h
  rcases h with h | h
  · exact Or.inl h
  · exact Or.inr h.2

theorem conjOK_padConj (n u : Nat) (c : Conj) (hlen : c.length ≤ n) (hl : ∀ l ∈ c, LitOK u l) :
    ConjOK n u (padConj c n) := by
  refine ⟨length_padTo _ _ _ hlen, ?_⟩
  intro l h
  rcases mem_padTo h with h | rfl
  · exact hl l h
  · exact litOK_pad u

theorem conjOK_allpad (n u : Nat) : ConjOK n u (List.replicate n padLit) := by
  refine ⟨by simp, ?_⟩
  intro l h
  rw [(List.mem_replicate.mp h).2]; exact litOK_pad u

theorem rowOK_padRow (d n u : Nat) (r : Row) (hlen : r.length ≤ d)
    (hc : ∀ c ∈ r, c.length ≤ n ∧ ∀ l ∈ c, LitOK u l) : RowOK d n u (padRow r d n) := by
  refine ⟨length_padTo _ _ _ (by simpa using hlen), ?_⟩
  intro c h
  rcases mem_padTo h with h | rfl
  · obtain ⟨c', hc', rfl⟩ := List.mem_map.mp h
    exact conjOK_padConj n u c' (hc c' hc').1 (hc c' hc').2
  · exact conjOK_allpad n u

theorem litOK_litData (u : Nat) (l : Nat × Nat) (h : l.1 < u) : LitOK u (Expr.litData l) := by
  right; simp [Expr.litData]; omega

theorem data3_shape (u : Nat) (e : Expr) (he : e.InRange u) :
    e.data3.length = e.height ∧ ∀ c ∈ e.data3, c.length = e.width ∧ ∀ l ∈ c, LitOK u l := by
  rw [Expr.data3_eq_dnf, Expr.height_eq_dnf]
  refine ⟨by simp, ?_⟩
  intro c h
  obtain ⟨c', hc', rfl⟩ := List.mem_map.mp h
  refine ⟨length_padTo _ _ _ (by simpa using e.length_le_width c' hc'), ?_⟩
  intro l hl
  rcases mem_padTo hl with hl | rfl
  · obtain ⟨l', hl', rfl⟩ := List.mem_map.mp hl
    exact litOK_litData u l' (he c' hc' l' hl')
  · exact litOK_pad u

/-- the stored row of an in-range expression has the store's shape (if the store is large enough) -/
theorem rowOK_stored (d n u : Nat) (e : Expr) (he : e.InRange u) (hd : e.height ≤ d) (hn : e.width ≤ n) :
    RowOK d n u (padRow e.data3 d n) := by
  obtain ⟨h1, h2⟩ := data3_shape u e he
  apply rowOK_padRow
  · omega
  · intro c hc
    exact ⟨by rw [(h2 c hc).1]; exact hn, (h2 c hc).2⟩

theorem wellPadded_ofExprs (es : List Expr) (u k : Nat) (h : ∀ e ∈ es, e.InRange u) :
    WellPadded (ofExprs es u k) := by
  intro r hr
  simp only [ofExprs] at hr ⊢
  obtain ⟨e, he, rfl⟩ := List.mem_map.mp hr
  exact rowOK_stored _ _ u e (h e he)
    (le_foldl_max_of_mem _ _ _ (List.mem_map.mpr ⟨e, he, rfl⟩))
    (le_foldl_max_of_mem _ _ _ (List.mem_map.mpr ⟨e, he, rfl⟩))

theorem absF_ofExprs (es : List Expr) (u k : Nat) (h : ∀ e ∈ es, e.Proper) :
    absF (ofExprs es u k) = es.map (fun e a => e.eval a) := by
  simp only [absF, ofExprs, List.map_map]
  apply List.map_congr_left
  intro e he
  funext a
  exact rowSem_stored a e (h e he) _ _

/-! ## `queryIdx`, `ofDict` -/

theorem queryIdx_of_query {p : P} {vals : List Int} {m : List Bool} (h : query p vals = .ok m) :
    queryIdx p vals = .ok ((List.range m.length).filter (fun i => m.getD i false)) := by
  simp [queryIdx, h, bind, Except.bind, pure, Except.pure]

theorem queryIdx_error {p : P} {vals : List Int} {e : Err} (h : query p vals = .error e) :
    queryIdx p vals = .error e := by
  simp [queryIdx, h, bind, Except.bind]

theorem mem_trueIdx (m : List Bool) (i : Nat) :
    i ∈ (List.range m.length).filter (fun i => m.getD i false) ↔ m[i]? = some true := by
  simp only [List.mem_filter, List.mem_range, List.getD_eq_getElem?_getD]
  constructor
  · rintro ⟨h1, h2⟩
    rw [List.getElem?_eq_getElem h1] at h2 ⊢
    simpa using h2
  · intro h
    obtain ⟨h1, h2⟩ := List.getElem?_eq_some_iff.mp h
    exact ⟨h1, by simp [h]⟩

theorem trueIdx_sorted (m : List Bool) :
    ((List.range m.length).filter (fun i => m.getD i false)).Pairwise (· < ·) :=
  List.Pairwise.filter _ List.pairwise_lt_range

theorem find_eq_lookup (d : List (Nat × Int)) (u : Nat) :
    (match d.find? (·.1 == u) with | some kv => kv.2 | none => 0) = (d.lookup u).getD 0 := by
  induction d with
  | nil => rfl
  | cons kv ds ih =>
    obtain ⟨k, v⟩ := kv
    by_cases h : k = u
    · subst h; simp
    · have h' : (u == k) = false := by simp; omega
      have h'' : (k == u) = false := by simp; omega
      rw [List.find?_cons, List.lookup_cons]
      simp only [h', h'']
      exact ih

theorem ofDict_eq_lookup (n : Nat) (d : List (Nat × Int)) :
    ofDict n d = (List.range n).map (fun u => (d.lookup u).getD 0) := by
  unfold ofDict
  exact List.map_congr_left (fun u _ => find_eq_lookup d u)

theorem length_ofDict (n : Nat) (d : List (Nat × Int)) : (ofDict n d).length = n := by
  simp [ofDict]

theorem ofDict_nonneg (n : Nat) (d : List (Nat × Int)) (hd : ∀ kv ∈ d, 0 ≤ kv.2) :
    ∀ v ∈ ofDict n d, 0 ≤ v := by
  intro v hv
  rw [ofDict_eq_lookup] at hv
  obtain ⟨u, _, rfl⟩ := List.mem_map.mp hv
  cases h : d.lookup u with
  | none => simp
  | some w =>
    have : (u, w) ∈ d := by
      clear hv hd
      induction d with
      | nil => simp at h
      | cons kv ds ih =>
        obtain ⟨k, v⟩ := kv
        rw [List.lookup_cons] at h
        split at h
        · rename_i hk
          simp at hk h; subst hk; subst h; simp
        · exact List.mem_cons_of_mem _ (ih h)
    simpa using hd _ this

/-! ## expression operators -/

theorem any_and_left {α : Type} (l : List α) (b : Bool) (f : α → Bool) :
    l.any (fun x => b && f x) = (b && l.any f) := by
  induction l with
  | nil => simp
  | cons x xs ih => simp only [List.any_cons, ih]; cases b <;> simp

theorem any_and_right {α : Type} (l : List α) (b : Bool) (f : α → Bool) :
    l.any (fun x => f x && b) = (l.any f && b) := by
  induction l with
  | nil => simp
  | cons x xs ih => simp only [List.any_cons, ih]; cases b <;> simp

theorem eval_and (a b : Expr) (x : List Nat) : (a.and b).eval x = (a.eval x && b.eval x) := by
  cases a <;> cases b <;>
    simp [Expr.and, Expr.eval, List.all_append, List.any_map, List.any_flatMap, Function.comp_def,
      any_and_left, any_and_right]

theorem eval_or (a b : Expr) (x : List Nat) : (a.or b).eval x = (a.eval x || b.eval x) := by
  cases a <;> cases b <;>
    simp [Expr.or, Expr.eval, List.any_append]

theorem flatMap_single {α β : Type} (l : List α) (f : α → β) : l.flatMap (fun x => [f x]) = l.map f := by
  induction l with
  | nil => rfl
  | cons x xs ih => simp [List.flatMap_cons, ih]

theorem dnf_and (a b : Expr) : (a.and b).dnf = a.dnf.flatMap (fun x => b.dnf.map (fun y => x ++ y)) := by
  cases a <;> cases b <;> simp [Expr.and, Expr.dnf, flatMap_single]

theorem dnf_or (a b : Expr) : (a.or b).dnf = a.dnf ++ b.dnf := by
  cases a <;> cases b <;> simp [Expr.or, Expr.dnf]

theorem proper_and {a b : Expr} (ha : a.Proper) (hb : b.Proper) : (a.and b).Proper := by
  unfold Expr.Proper at *
  rw [dnf_and]
  constructor
  · obtain ⟨x, xs, hx⟩ := List.exists_cons_of_ne_nil ha.1
    obtain ⟨y, ys, hy⟩ := List.exists_cons_of_ne_nil hb.1
    simp [hx, hy]
  · intro c hc
    obtain ⟨x, hx, hc⟩ := List.mem_flatMap.mp hc
    obtain ⟨y, hy, rfl⟩ := List.mem_map.mp hc
    have := ha.2 x hx
    simp [this]

theorem proper_or {a b : Expr} (ha : a.Proper) (hb : b.Proper) : (a.or b).Proper := by
  unfold Expr.Proper at *
  rw [dnf_or]
  constructor
  · simp [ha.1]
  · intro c hc
    rcases List.mem_append.mp hc with h | h
    · exact ha.2 c h
    · exact hb.2 c h

theorem inRange_and {n : Nat} {a b : Expr} (ha : a.InRange n) (hb : b.InRange n) : (a.and b).InRange n := by
  unfold Expr.InRange at *
  rw [dnf_and]
  intro c hc l hl
  obtain ⟨x, hx, hc⟩ := List.mem_flatMap.mp hc
  obtain ⟨y, hy, rfl⟩ := List.mem_map.mp hc
  rcases List.mem_append.mp hl with h | h
  · exact ha x hx l h
  · exact hb y hy l h

theorem inRange_or {n : Nat} {a b : Expr} (ha : a.InRange n) (hb : b.InRange n) : (a.or b).InRange n := by
  unfold Expr.InRange at *
  rw [dnf_or]
  intro c hc
  rcases List.mem_append.mp hc with h | h
  · exact ha c h
  · exact hb c h

/-- syntax trees over `&` and `|` with arbitrary expressions at the leaves -/
inductive Tree where
  | leaf (e : Expr)
  | and (l r : Tree)
  | or (l r : Tree)

/-- what the overloaded operators build -/
def Tree.build : Tree → Expr
  | .leaf e => e
  | .and l r => (build l).and (build r)
  | .or l r => (build l).or (build r)

/-- what the formula means -/
def Tree.sem (x : List Nat) : Tree → Bool
  | .leaf e => e.eval x
  | .and l r => sem x l && sem x r
  | .or l r => sem x l || sem x r

def Tree.leaves : Tree → List Expr
  | .leaf e => [e]
  | .and l r => leaves l ++ leaves r
  | .or l r => leaves l ++ leaves r

theorem Tree.eval_build (t : Tree) (x : List Nat) : t.build.eval x = t.sem x := by
  induction t with
  | leaf e => rfl
  | and l r ihl ihr => simp [Tree.build, Tree.sem, eval_and, ihl, ihr]
  | or l r ihl ihr => simp [Tree.build, Tree.sem, eval_or, ihl, ihr]

theorem Tree.proper_build (t : Tree) (h : ∀ e ∈ t.leaves, e.Proper) : t.build.Proper := by
  induction t with
  | leaf e => exact h e (by simp [Tree.leaves])
  | and l r ihl ihr =>
    exact proper_and (ihl fun e he => h e (by simp [Tree.leaves, he]))
      (ihr fun e he => h e (by simp [Tree.leaves, he]))
  | or l r ihl ihr =>
    exact proper_or (ihl fun e he => h e (by simp [Tree.leaves, he]))
      (ihr fun e he => h e (by simp [Tree.leaves, he]))

theorem Tree.inRange_build (n : Nat) (t : Tree) (h : ∀ e ∈ t.leaves, e.InRange n) : t.build.InRange n := by
  induction t with
  | leaf e => exact h e (by simp [Tree.leaves])
  | and l r ihl ihr =>
    exact inRange_and (ihl fun e he => h e (by simp [Tree.leaves, he]))
      (ihr fun e he => h e (by simp [Tree.leaves, he]))
  | or l r ihl ihr =>
    exact inRange_or (ihl fun e he => h e (by simp [Tree.leaves, he]))
      (ihr fun e he => h e (by simp [Tree.leaves, he]))

/-! ## reading a row back -/

theorem conjFromData_append_pad (c : Conj) (k : Nat) :
    conjFromData (c ++ List.replicate k padLit) = conjFromData c := by
  have : (List.replicate k padLit).filter (fun l => !(l.1 == -1 || l.2 == -1)) = [] := by
    rw [List.filter_eq_nil_iff]
    intro l hl
    rw [(List.mem_replicate.mp hl).2]; simp [padLit]
  rw [conjFromData, List.filter_append, this, List.append_nil]; rfl

theorem conjFromData_litData (c : List (Nat × Nat)) : conjFromData (c.map Expr.litData) = c := by
  have : (c.map Expr.litData).filter (fun l => !(l.1 == -1 || l.2 == -1)) = c.map Expr.litData := by
    rw [List.filter_eq_self]
    intro l hl
    obtain ⟨l', _, rfl⟩ := List.mem_map.mp hl
    simp [Expr.litData]
  rw [conjFromData, this, List.map_map]
  conv => rhs; rw [← List.map_id c]
  apply List.map_congr_left
  intro l _
  simp [Expr.litData]

/-- the mask `from_data` uses to drop disjuncts -/
def fdPad (c : Conj) : Bool := c.all (fun l => l.1 == -1 && l.2 == -1)

theorem fdPad_append_pad (c : Conj) (k : Nat) : fdPad (c ++ List.replicate k padLit) = fdPad c := by
  simp [fdPad, List.all_append, padLit]

theorem fdPad_litData (c : List (Nat × Nat)) (hc : c ≠ []) : fdPad (c.map Expr.litData) = false := by
  cases c with
  | nil => exact absurd rfl hc
  | cons x xs =>
    have : ¬ ((x.1 : Int) = -1) := by omega
    simp [fdPad, Expr.litData, this]

theorem fdPad_replicate (n : Nat) : fdPad (List.replicate n padLit) = true := by
  simp [fdPad, padLit]

/-- how one conjunction of an expression is stored: padded to the expression's width, then to the store's -/
def storedConj (w n : Nat) (c : List (Nat × Nat)) : Conj :=
  padConj (Expr.padTo (c.map Expr.litData) w padLit) n

theorem padRow_data3 (e : Expr) (d n : Nat) :
    padRow e.data3 d n = e.dnf.map (storedConj e.width n) ++
      List.replicate (d - e.dnf.length) (List.replicate n padLit) := by
  simp [padRow, Expr.data3_eq_dnf, Expr.padTo, storedConj, padConj, List.map_map, Function.comp_def]

theorem conjFromData_stored (w n : Nat) (c : List (Nat × Nat)) : conjFromData (storedConj w n c) = c := by
  simp only [storedConj, padConj, Expr.padTo]
  rw [conjFromData_append_pad, conjFromData_append_pad, conjFromData_litData]

theorem fdPad_stored (w n : Nat) (c : List (Nat × Nat)) (hc : c ≠ []) : fdPad (storedConj w n c) = false := by
  simp only [storedConj, padConj, Expr.padTo]
  rw [fdPad_append_pad, fdPad_append_pad, fdPad_litData c hc]

theorem exprFromData_stored (e : Expr) (he : e.Proper) (d n : Nat) :
    exprFromData (padRow e.data3 d n) = .ok (Expr.disj e.dnf) := by
  have hf : (padRow e.data3 d n).filter (fun c => !(c.all (fun l => l.1 == -1 && l.2 == -1))) =
      e.dnf.map (storedConj e.width n) := by
    rw [padRow_data3, List.filter_append]
    have h1 : (e.dnf.map (storedConj e.width n)).filter (fun c => !(fdPad c)) =
        e.dnf.map (storedConj e.width n) := by
      rw [List.filter_eq_self]
      intro c hc
      obtain ⟨c', hc', rfl⟩ := List.mem_map.mp hc
      simp [fdPad_stored _ _ c' (he.2 c' hc')]
    have h2 : (List.replicate (d - e.dnf.length) (List.replicate n padLit)).filter
        (fun c => !(fdPad c)) = [] := by
      rw [List.filter_eq_nil_iff]
      intro c hc
      rw [(List.mem_replicate.mp hc).2, fdPad_replicate]; simp
    simp only [fdPad] at h1 h2
    rw [h1, h2, List.append_nil]
  have hm : (e.dnf.map (storedConj e.width n)).map conjFromData = e.dnf := by
    rw [List.map_map]
    conv => rhs; rw [← List.map_id e.dnf]
    exact List.map_congr_left (fun c _ => conjFromData_stored _ _ c)
  have hne : (e.dnf.map (storedConj e.width n)).isEmpty = false := by
    simpa using he.1
  have hany : e.dnf.any List.isEmpty = false := by
    rw [List.any_eq_false]
    intro c hc
    simpa using he.2 c hc
  unfold exprFromData
  simp only [hf, hm, hne, hany]
  rfl

theorem eval_disj_dnf (e : Expr) (x : List Nat) : (Expr.disj e.dnf).eval x = e.eval x := by
  rw [Expr.eval_eq_dnf, Expr.eval_eq_dnf]; rfl

/-! ## Python index normalisation -/

/-- `i` is a valid Python index into a list of length `len` -/
def ValidIdx (len : Nat) (i : Int) : Prop := -(len : Int) ≤ i ∧ i < len

instance (len : Nat) (i : Int) : Decidable (ValidIdx len i) := by unfold ValidIdx; infer_instance

/-- the position a valid Python index denotes -/
def pyPos (len : Nat) (i : Int) : Nat := if 0 ≤ i then i.toNat else len - (-i).toNat

theorem normIdx_valid {len : Nat} {i : Int} (h : ValidIdx len i) : normIdx len i = .ok (pyPos len i) := by
  unfold ValidIdx at h
  unfold normIdx pyPos
  by_cases h0 : 0 ≤ i
  · simp [h0, h.2, pure, Except.pure]
  · have : i < 0 := by omega
    simp [h0, this, h.1, pure, Except.pure]

theorem normIdx_invalid {len : Nat} {i : Int} (h : ¬ ValidIdx len i) :
    normIdx len i = .error Err.indexError := by
  unfold ValidIdx at h
  unfold normIdx
  have h1 : ¬ (0 ≤ i ∧ i < len) := by omega
  have h2 : ¬ (i < 0 ∧ -(len : Int) ≤ i) := by omega
  simp only [h1, h2, ↓reduceIte]
  rfl

theorem pyPos_lt {len : Nat} {i : Int} (h : ValidIdx len i) : pyPos len i < len := by
  unfold ValidIdx at h
  unfold pyPos
  split <;> omega

theorem pyPos_nonneg {len : Nat} {i : Int} (h : 0 ≤ i) : pyPos len i = i.toNat := by simp [pyPos, h]

theorem pyPos_neg {len : Nat} {i : Int} (h : ValidIdx len i) (hi : i < 0) :
    (pyPos len i : Int) = len + i := by
  unfold ValidIdx at h
  unfold pyPos
  have : ¬ 0 ≤ i := by omega
  simp only [this, ↓reduceIte]; omega

theorem getItem_ofExprs (es : List Expr) (u k : Nat) (i : Int) (hprop : ∀ e ∈ es, e.Proper)
    (hi : ValidIdx es.length i) :
    getItem (ofExprs es u k) i =
      .ok (Expr.disj (es[pyPos es.length i]'(pyPos_lt hi)).dnf) := by
  have hlt := pyPos_lt hi
  unfold getItem
  simp only [ofExprs, List.length_map, normIdx_valid hi, bind, Except.bind]
  rw [List.getD_eq_getElem?_getD, List.getElem?_map, List.getElem?_eq_getElem hlt]
  exact exprFromData_stored _ (hprop _ (List.getElem_mem hlt)) _ _

theorem getItem_ofExprs_invalid (es : List Expr) (u k : Nat) (i : Int) (hi : ¬ ValidIdx es.length i) :
    getItem (ofExprs es u k) i = .error Err.indexError := by
  unfold getItem
  simp only [ofExprs, List.length_map, normIdx_invalid hi, bind, Except.bind]

/-! ## list lemmas for the mutable-list refinement -/

theorem map_insertIdx {α β : Type} (f : α → β) (l : List α) (k : Nat) (x : α) :
    (l.insertIdx k x).map f = (l.map f).insertIdx k (f x) := by
  induction l generalizing k with
  | nil => cases k <;> simp [List.insertIdx_zero, List.insertIdx_succ_nil]
  | cons y ys ih =>
    cases k with
    | zero => simp [List.insertIdx_zero]
    | succ k => simp [List.insertIdx_succ_cons, ih]

theorem set_insertIdx_self {α : Type} (l : List α) (k : Nat) (x y : α) :
    (l.insertIdx k x).set k y = l.insertIdx k y := by
  induction l generalizing k with
  | nil => cases k <;> simp [List.insertIdx_zero, List.insertIdx_succ_nil]
  | cons z zs ih =>
    cases k with
    | zero => simp [List.insertIdx_zero]
    | succ k => simp [List.insertIdx_succ_cons, ih]

theorem map_eraseIdx {α β : Type} (f : α → β) (l : List α) (k : Nat) :
    (l.eraseIdx k).map f = (l.map f).eraseIdx k := by
  induction l generalizing k with
  | nil => simp
  | cons y ys ih => cases k <;> simp [ih]

/-- rows selected by an index list (out-of-range positions are skipped) -/
def selectL {α : Type} (l : List α) (idx : List Nat) : List α := idx.filterMap (fun i => l[i]?)

/-- deletion of a set of positions -/
def delManyL {α : Type} (l : List α) (idx : List Nat) : List α :=
  (List.range l.length).filterMap (fun i => if idx.contains i then none else l[i]?)

theorem map_selectL {α β : Type} (f : α → β) (l : List α) (idx : List Nat) :
    (selectL l idx).map f = selectL (l.map f) idx := by
  simp only [selectL, List.map_filterMap]
  congr 1; funext i; simp

theorem map_delManyL {α β : Type} (f : α → β) (l : List α) (idx : List Nat) :
    (delManyL l idx).map f = delManyL (l.map f) idx := by
  simp only [delManyL, List.map_filterMap, List.length_map]
  congr 1; funext i
  split <;> simp

theorem length_filterMap_of_isSome {α β : Type} (xs : List α) (f : α → Option β) (g : α → Bool)
    (h : ∀ x ∈ xs, (f x).isSome = g x) : (xs.filterMap f).length = (xs.filter g).length := by
  induction xs with
  | nil => rfl
  | cons x xs ih =>
    have hx := h x (by simp)
    have ih' := ih (fun y hy => h y (by simp [hy]))
    rw [List.filterMap_cons, List.filter_cons]
    cases hfx : f x with
    | none => simp [hfx] at hx; simp [hx, ih']
    | some y => simp [hfx] at hx; simp [hx, ih']

theorem length_selectL {α : Type} (l : List α) (idx : List Nat) :
    (selectL l idx).length = (idx.filter (· < l.length)).length := by
  apply length_filterMap_of_isSome
  intro i _
  by_cases h : i < l.length <;> simp [h]

theorem length_delManyL {α : Type} (l : List α) (idx : List Nat) :
    (delManyL l idx).length = ((List.range l.length).filter (fun j => !idx.contains j)).length := by
  apply length_filterMap_of_isSome
  intro i hi
  have hi' : i < l.length := List.mem_range.mp hi
  by_cases h : idx.contains i
  · simp only [h, ↓reduceIte]; rfl
  · simp only [h]; simp [hi']

theorem mem_selectL {α : Type} {l : List α} {idx : List Nat} {x : α} (h : x ∈ selectL l idx) : x ∈ l := by
  simp only [selectL, List.mem_filterMap] at h
  obtain ⟨i, _, hi⟩ := h
  exact List.mem_of_getElem? hi

theorem mem_delManyL {α : Type} {l : List α} {idx : List Nat} {x : α} (h : x ∈ delManyL l idx) : x ∈ l := by
  simp only [delManyL, List.mem_filterMap] at h
  obtain ⟨i, _, hi⟩ := h
  split at hi
  · cases hi
  · exact List.mem_of_getElem? hi

/-! ## `__setitem__`, `insert`, `__delitem__` -/

theorem absF_padData (D : Data) (d n : Nat) :
    (padData D d n).map (fun r a => rowSem a r) = D.map (fun r a => rowSem a r) := by
  simp only [padData, List.map_map]
  apply List.map_congr_left
  intro r _
  funext a
  exact rowSem_padRow a r d n

theorem rowOK_repad {d n u d' n' : Nat} {r : Row} (hr : RowOK d n u r) (hd : d ≤ d') (hn : n ≤ n') :
    RowOK d' n' u (padRow r d' n') := by
  apply rowOK_padRow
  · rw [hr.1]; exact hd
  · intro c hc
    exact ⟨by rw [(hr.2 c hc).1]; exact hn, (hr.2 c hc).2⟩

/-- the container after `self[k] = e` for a position `k` (the non-raising part of `setItem`) -/
def setRow (p : P) (k : Nat) (e : Expr) : P :=
  let d := max p.nDisj e.height
  let n := max p.nConj e.width
  { p with data := (padData p.data d n).set k (padRow e.data3 d n), nDisj := d, nConj := n }

theorem setItem_valid (p : P) (i : Int) (e : Expr) (hi : ValidIdx p.data.length i) :
    setItem p i e = .ok (setRow p (pyPos p.data.length i) e) := by
  simp only [setItem, normIdx_valid hi, bind, Except.bind, pure, Except.pure, setRow]

theorem setItem_invalid (p : P) (i : Int) (e : Expr) (hi : ¬ ValidIdx p.data.length i) :
    setItem p i e = .error Err.indexError := by
  simp only [setItem, normIdx_invalid hi, bind, Except.bind]

theorem wellPadded_setRow {p : P} (hp : WellPadded p) (k : Nat) {e : Expr} (he : e.InRange p.nUnits) :
    WellPadded (setRow p k e) := by
  intro r hr
  simp only [setRow] at hr ⊢
  rcases List.mem_or_eq_of_mem_set hr with hr | rfl
  · simp only [padData] at hr
    obtain ⟨r', hr', rfl⟩ := List.mem_map.mp hr
    exact rowOK_repad (hp r' hr') (Nat.le_max_left ..) (Nat.le_max_left ..)
  · exact rowOK_stored _ _ _ e he (Nat.le_max_right ..) (Nat.le_max_right ..)

theorem absF_setRow (p : P) (k : Nat) {e : Expr} (he : e.Proper) :
    absF (setRow p k e) = (absF p).set k (fun a => e.eval a) := by
  simp only [absF, setRow, List.map_set, absF_padData]
  congr 1
  funext a
  exact rowSem_stored a e he _ _

theorem length_setRow (p : P) (k : Nat) (e : Expr) : (setRow p k e).data.length = p.data.length := by
  simp [setRow, padData]

/-- Python's `list.insert` position -/
def insPos (len : Nat) (i : Int) : Nat := if i < 0 then (max ((len : Int) + i) 0).toNat else min i.toNat len

theorem insPos_le (len : Nat) (i : Int) : insPos len i ≤ len := by
  unfold insPos; split <;> omega

/-- the container with an all-padding row inserted at position `k` -/
def insertBlank (p : P) (k : Nat) : P :=
  { p with data := p.data.insertIdx k (List.replicate p.nDisj (List.replicate p.nConj padLit)) }

theorem mem_insertIdx_or {α : Type} {l : List α} {i : Nat} {a b : α} (h : a ∈ l.insertIdx i b) :
    a = b ∨ a ∈ l := by
  by_cases hi : i ≤ l.length
  · exact (List.mem_insertIdx hi).mp h
  · rw [List.insertIdx_of_length_lt (by omega)] at h; exact Or.inr h

theorem rowOK_blank (d n u : Nat) : RowOK d n u (List.replicate d (List.replicate n padLit)) := by
  refine ⟨by simp, ?_⟩
  intro c hc
  rw [(List.mem_replicate.mp hc).2]; exact conjOK_allpad n u

theorem wellPadded_insertBlank {p : P} (hp : WellPadded p) (k : Nat) : WellPadded (insertBlank p k) := by
  intro r hr
  simp only [insertBlank] at hr ⊢
  rcases mem_insertIdx_or hr with rfl | hr
  · exact rowOK_blank _ _ _
  · exact hp r hr

theorem insert_eq (p : P) (i : Int) (e : Expr) :
    insert p i e = .ok (setRow (insertBlank p (insPos p.data.length i)) (insPos p.data.length i) e) := by
  have hk := insPos_le p.data.length i
  have hv : ValidIdx (insertBlank p (insPos p.data.length i)).data.length
      (Int.ofNat (insPos p.data.length i)) := by
    simp only [insertBlank, List.length_insertIdx_of_le_length hk, ValidIdx, Int.ofNat_eq_natCast]
    omega
  have := setItem_valid (insertBlank p (insPos p.data.length i)) (Int.ofNat (insPos p.data.length i)) e hv
  rw [pyPos_nonneg (by simp)] at this
  simpa [insert, insertBlank, insPos] using this

theorem wellPadded_insert {p : P} (hp : WellPadded p) (k : Nat) {e : Expr} (he : e.InRange p.nUnits) :
    WellPadded (setRow (insertBlank p k) k e) :=
  wellPadded_setRow (wellPadded_insertBlank hp k) k he

theorem absF_insert (p : P) (k : Nat) {e : Expr} (he : e.Proper) :
    absF (setRow (insertBlank p k) k e) = (absF p).insertIdx k (fun a => e.eval a) := by
  rw [absF_setRow _ k he]
  simp only [absF, insertBlank, map_insertIdx, set_insertIdx_self]

theorem length_insert (p : P) (k : Nat) (e : Expr) (hk : k ≤ p.data.length) :
    (setRow (insertBlank p k) k e).data.length = p.data.length + 1 := by
  rw [length_setRow]; simp [insertBlank, List.length_insertIdx_of_le_length hk]

theorem delItem_valid (p : P) (i : Int) (hi : ValidIdx p.data.length i) :
    delItem p i = .ok { p with data := p.data.eraseIdx (pyPos p.data.length i) } := by
  simp only [delItem, normIdx_valid hi, bind, Except.bind, pure, Except.pure]

theorem delItem_invalid (p : P) (i : Int) (hi : ¬ ValidIdx p.data.length i) :
    delItem p i = .error Err.indexError := by
  simp only [delItem, normIdx_invalid hi, bind, Except.bind]

theorem wellPadded_of_subset {p : P} (hp : WellPadded p) (D : Data) (h : ∀ r ∈ D, r ∈ p.data) :
    WellPadded { p with data := D } :=
  fun r hr => hp r (h r hr)

theorem select_eq (p : P) (idx : List Nat) : select p idx = { p with data := selectL p.data idx } := rfl

theorem delMany_eq (p : P) (idx : List Nat) : delMany p idx = { p with data := delManyL p.data idx } := rfl

/-! ## histories of list operations -/

/-- the truth function of a formula: what the list-level specification stores -/
abbrev F := List Nat → Bool

/-- the list operations the container offers -/
inductive Op where
  | set (i : Int) (e : Expr)
  | insert (i : Int) (e : Expr)
  | append (e : Expr)
  | del (i : Int)
  | select (idx : List Nat)
  | delMany (idx : List Nat)

/-- the operation's formula (if any) is proper and over units `< u` -/
def Op.OK (u : Nat) : Op → Prop
  | .set _ e => e.Proper ∧ e.InRange u
  | .insert _ e => e.Proper ∧ e.InRange u
  | .append e => e.Proper ∧ e.InRange u
  | _ => True

instance (u : Nat) (op : Op) : Decidable (op.OK u) := by cases op <;> unfold Op.OK <;> infer_instance

/-- the model's transition -/
def step (p : P) : Op → Except Err P
  | .set i e => setItem p i e
  | .insert i e => insert p i e
  | .append e => insert p (Int.ofNat p.data.length) e
  | .del i => delItem p i
  | .select idx => pure (select p idx)
  | .delMany idx => pure (delMany p idx)

/-- the specification: a Python `list` of truth functions -/
def listStep (l : List F) : Op → Except Err (List F)
  | .set i e => if ValidIdx l.length i then pure (l.set (pyPos l.length i) (fun a => e.eval a))
      else throw Err.indexError
  | .insert i e => pure (l.insertIdx (insPos l.length i) (fun a => e.eval a))
  | .append e => pure (l ++ [fun a => e.eval a])
  | .del i => if ValidIdx l.length i then pure (l.eraseIdx (pyPos l.length i)) else throw Err.indexError
  | .select idx => pure (selectL l idx)
  | .delMany idx => pure (delManyL l idx)

/-- run a history; a failing operation leaves the state unchanged and reports its error -/
def runWith {σ : Type} (f : σ → Op → Except Err σ) (s : σ) : List Op → σ × List (Option Err)
  | [] => (s, [])
  | op :: ops =>
    match f s op with
    | .ok s' => let r := runWith f s' ops; (r.1, none :: r.2)
    | .error e => let r := runWith f s ops; (r.1, some e :: r.2)

theorem length_absF (p : P) : (absF p).length = p.data.length := by simp [absF]

theorem insPos_self (len : Nat) : insPos len (Int.ofNat len) = len := by
  simp [insPos]; omega

/-- one step: the model and the list specification agree, the invariant is kept -/
theorem step_refines (p : P) (op : Op) (hp : WellPadded p) (hop : op.OK p.nUnits) :
    (∀ e, step p op = .error e → listStep (absF p) op = .error e) ∧
    (∀ p', step p op = .ok p' →
      listStep (absF p) op = .ok (absF p') ∧ WellPadded p' ∧ p'.nUnits = p.nUnits) := by
  cases op with
  | set i e =>
    simp only [step, listStep, length_absF]
    by_cases hi : ValidIdx p.data.length i
    · rw [setItem_valid p i e hi]
      simp only [hi, ↓reduceIte]
      refine ⟨fun _ h => (by cases h), ?_⟩
      intro p' h
      cases h
      exact ⟨by rw [absF_setRow _ _ hop.1]; rfl, wellPadded_setRow hp _ hop.2, rfl⟩
    · rw [setItem_invalid p i e hi]
      simp only [hi, ↓reduceIte]
      exact ⟨fun _ h => by cases h; rfl, fun _ h => by cases h⟩
  | insert i e =>
    simp only [step, listStep, length_absF, insert_eq]
    refine ⟨fun _ h => (by cases h), ?_⟩
    intro p' h
    cases h
    exact ⟨by rw [absF_insert _ _ hop.1]; rfl, wellPadded_insert hp _ hop.2, rfl⟩
  | append e =>
    simp only [step, listStep, insert_eq, insPos_self]
    refine ⟨fun _ h => (by cases h), ?_⟩
    intro p' h
    cases h
    refine ⟨?_, wellPadded_insert hp _ hop.2, rfl⟩
    rw [absF_insert _ _ hop.1, ← length_absF, List.insertIdx_length_self]; rfl
  | del i =>
    simp only [step, listStep, length_absF]
    by_cases hi : ValidIdx p.data.length i
    · rw [delItem_valid p i hi]
      simp only [hi, ↓reduceIte]
      refine ⟨fun _ h => (by cases h), ?_⟩
      intro p' h
      cases h
      refine ⟨by simp only [absF, map_eraseIdx]; rfl, ?_, rfl⟩
      exact wellPadded_of_subset hp _ (fun r hr => List.mem_of_mem_eraseIdx hr)
    · rw [delItem_invalid p i hi]
      simp only [hi, ↓reduceIte]
      exact ⟨fun _ h => by cases h; rfl, fun _ h => by cases h⟩
  | select idx =>
    simp only [step, listStep, select_eq]
    refine ⟨fun _ h => (by cases h), ?_⟩
    intro p' h
    cases h
    exact ⟨by simp only [absF, map_selectL]; rfl, wellPadded_of_subset hp _ (fun r hr => mem_selectL hr), rfl⟩
  | delMany idx =>
    simp only [step, listStep, delMany_eq]
    refine ⟨fun _ h => (by cases h), ?_⟩
    intro p' h
    cases h
    exact ⟨by simp only [absF, map_delManyL]; rfl, wellPadded_of_subset hp _ (fun r hr => mem_delManyL hr), rfl⟩

theorem run_refines (p : P) (ops : List Op) (hp : WellPadded p) (hops : ∀ op ∈ ops, op.OK p.nUnits) :
    WellPadded (runWith step p ops).1 ∧ (runWith step p ops).1.nUnits = p.nUnits ∧
    absF (runWith step p ops).1 = (runWith listStep (absF p) ops).1 ∧
    (runWith step p ops).2 = (runWith listStep (absF p) ops).2 := by
  induction ops generalizing p with
  | nil => exact ⟨hp, rfl, rfl, rfl⟩
  | cons op ops ih =>
    obtain ⟨h1, h2⟩ := step_refines p op hp (hops op (by simp))
    simp only [runWith]
    cases hs : step p op with
    | error e =>
      rw [h1 e hs]
      obtain ⟨i1, i2, i3, i4⟩ := ih p hp (fun o ho => hops o (by simp [ho]))
      exact ⟨i1, i2, i3, by simp only [i4]⟩
    | ok p' =>
      obtain ⟨k1, k2, k3⟩ := h2 p' hs
      rw [k1]
      obtain ⟨i1, i2, i3, i4⟩ := ih p' k2 (fun o ho => by rw [k3]; exact hops o (by simp [ho]))
      exact ⟨i1, by rw [i2, k3], i3, by simp only [i4]⟩

/-! ## fork, select: row-wise action on the mask -/

/-- `np.repeat` on a list -/
def forkL {α : Type} (l : List α) (sizes : List Nat) : List α :=
  (l.zip sizes).flatMap (fun rs => List.replicate rs.2 rs.1)

theorem map_forkL {α β : Type} (f : α → β) (l : List α) (sizes : List Nat) :
    (forkL l sizes).map f = forkL (l.map f) sizes := by
  induction l generalizing sizes with
  | nil => simp [forkL]
  | cons x xs ih =>
    cases sizes with
    | nil => simp [forkL]
    | cons s ss =>
      have := ih ss
      simp only [forkL] at this ⊢
      simp [List.flatMap_cons, this]

theorem mem_forkL {α : Type} {l : List α} {sizes : List Nat} {x : α} (h : x ∈ forkL l sizes) : x ∈ l := by
  simp only [forkL, List.mem_flatMap, List.mem_replicate] at h
  obtain ⟨rs, hrs, _, rfl⟩ := h
  exact (List.of_mem_zip hrs).1

theorem fork_eq (p : P) (sizes : List Nat) : fork p sizes = { p with data := forkL p.data sizes } := rfl

/-- any row-wise re-arrangement `g` of the stored rows re-arranges the mask in the same way -/
theorem query_rearrange (p : P) (vals : List Int) (m : List Bool) (D : Data) (M : List Bool)
    (h : query p vals = .ok m)
    (hg : ∀ f : Row → Except Err Bool, p.data.map f = m.map .ok → D.map f = M.map .ok) :
    query { p with data := D } vals = .ok M := by
  unfold query at h ⊢
  by_cases hl : vals.length = p.nUnits
  · simp only [hl, bne_self_eq_false, Bool.false_eq_true, ↓reduceIte] at h ⊢
    rw [mapM_ok_iff] at h ⊢
    exact hg _ h
  · simp [hl, throw, throwThe, MonadExceptOf.throw] at h

theorem query_fork (p : P) (sizes : List Nat) (vals : List Int) (m : List Bool)
    (h : query p vals = .ok m) : query (fork p sizes) vals = .ok (forkL m sizes) := by
  rw [fork_eq]
  apply query_rearrange p vals m _ _ h
  intro f hf
  rw [map_forkL, hf, ← map_forkL]

theorem query_select (p : P) (idx : List Nat) (vals : List Int) (m : List Bool)
    (h : query p vals = .ok m) : query (select p idx) vals = .ok (selectL m idx) := by
  rw [select_eq]
  apply query_rearrange p vals m _ _ h
  intro f hf
  rw [map_selectL, hf, ← map_selectL]

theorem query_delMany (p : P) (idx : List Nat) (vals : List Int) (m : List Bool)
    (h : query p vals = .ok m) : query (delMany p idx) vals = .ok (delManyL m idx) := by
  rw [delMany_eq]
  apply query_rearrange p vals m _ _ h
  intro f hf
  rw [map_delManyL, hf, ← map_delManyL]

theorem wellPadded_fork {p : P} (hp : WellPadded p) (sizes : List Nat) : WellPadded (fork p sizes) :=
  wellPadded_of_subset hp _ (fun _ hr => mem_forkL hr)

theorem wellPadded_select {p : P} (hp : WellPadded p) (idx : List Nat) : WellPadded (select p idx) :=
  wellPadded_of_subset hp _ (fun _ hr => mem_selectL hr)

theorem wellPadded_delMany {p : P} (hp : WellPadded p) (idx : List Nat) : WellPadded (delMany p idx) :=
  wellPadded_of_subset hp _ (fun _ hr => mem_delManyL hr)

/-! ## `Provenance(units=n)` and `Provenance(data=ids)` -/

theorem flatMap_congr_mem {α β : Type} {l : List α} {f g : α → List β} (h : ∀ x ∈ l, f x = g x) :
    l.flatMap f = l.flatMap g := by
  induction l with
  | nil => rfl
  | cons x xs ih =>
    simp only [List.flatMap_cons, h x (by simp)]
    rw [ih (fun y hy => h y (by simp [hy]))]

theorem rowTrue_single (vals : List Int) (u c : Int) (h0 : 0 ≤ u) (h1 : u < vals.length) :
    rowTrue vals 1 1 [[(u, c)]] = .ok (vals.getD u.toNat 0 == c) := by
  have hu : (u == -1) = false := by simp; omega
  simp [rowTrue, conjTrue, litTrue, pyIdx_inrange vals u h0 h1, bind, Except.bind, pure, Except.pure, hu]

theorem rowTrue_single_neg (vals : List Int) (c : Int) :
    rowTrue vals 1 1 [[(-1, c)]] = .ok false := by
  simp [rowTrue, conjTrue, litTrue, pyIdx_pad, bind, Except.bind, pure, Except.pure]

theorem eq_map_range_getD (vals : List Int) : vals = (List.range vals.length).map (fun i => vals.getD i 0) := by
  apply List.ext_getElem
  · simp
  · intro i h1 h2
    simp [List.getD_eq_getElem?_getD, h1]

theorem query_default (n k : Nat) (vals : List Int) (hlen : vals.length = n) :
    query (default n k) vals =
      .ok ((List.range n).flatMap (fun i => (List.range (k - 1)).map (fun (c : Nat) => vals.getD i 0 == ((c : Int) + 1)))) := by
  unfold query
  simp only [default, hlen, bne_self_eq_false, Bool.false_eq_true, ↓reduceIte]
  rw [mapM_ok_iff, List.map_flatMap, List.map_flatMap]
  apply flatMap_congr_mem
  intro i hi
  rw [List.map_map, List.map_map]
  apply List.map_congr_left
  intro c _
  have hi' : i < vals.length := by rw [hlen]; exact List.mem_range.mp hi
  have := rowTrue_single vals (Int.ofNat i) (Int.ofNat (c + 1)) (by simp) (by simpa using hi')
  simpa using this

theorem query_default_two (n : Nat) (vals : List Int) (hlen : vals.length = n) :
    query (default n) vals = .ok (vals.map (· == 1)) := by
  rw [query_default n 2 vals hlen]
  congr 1
  conv => rhs; rw [eq_map_range_getD vals, hlen]
  simp [flatMap_single]

theorem wellPadded_default (n k : Nat) : WellPadded (default n k) := by
  intro r hr
  simp only [default, List.mem_flatMap, List.mem_map, List.mem_range] at hr ⊢
  obtain ⟨i, hi, c, _, rfl⟩ := hr
  refine ⟨rfl, ?_⟩
  intro cj hcj
  rw [List.mem_singleton.mp hcj]
  refine ⟨rfl, ?_⟩
  intro l hl
  rw [List.mem_singleton.mp hl]
  right
  simp; omega

theorem mem_uniqueIds (ids : List Int) (g : Int) : g ∈ uniqueIds ids ↔ g ∈ ids ∧ g ≠ -1 := by
  simp [uniqueIds, List.mem_eraseDups, List.mem_mergeSort]

theorem idxOf_inj_of_mem {l : List Int} {g g' : Int} (hg : g ∈ l) (hg' : g' ∈ l)
    (h : l.idxOf g = l.idxOf g') : g = g' := by
  have h1 := List.getElem_idxOf (List.idxOf_lt_length_of_mem hg)
  have h2 := List.getElem_idxOf (List.idxOf_lt_length_of_mem hg')
  rw [← h1, ← h2]
  simp only [h]

theorem query_ofGroups (ids : List Int) (k : Nat) (vals : List Int)
    (hlen : vals.length = (uniqueIds ids).length) :
    query (ofGroups ids k) vals =
      .ok (ids.flatMap (fun g => (List.range (k - 1)).map (fun (c : Nat) =>
        g != -1 && vals.getD ((uniqueIds ids).idxOf g) 0 == ((c : Int) + 1)))) := by
  unfold query
  simp only [ofGroups, hlen, bne_self_eq_false, Bool.false_eq_true, ↓reduceIte]
  rw [mapM_ok_iff, List.map_flatMap, List.map_flatMap]
  apply flatMap_congr_mem
  intro g hg
  rw [List.map_map, List.map_map]
  apply List.map_congr_left
  intro c _
  by_cases h : g = -1
  · subst h
    simpa using rowTrue_single_neg vals (Int.ofNat (c + 1))
  · have hm : g ∈ uniqueIds ids := (mem_uniqueIds ids g).mpr ⟨hg, h⟩
    have hlt := List.idxOf_lt_length_of_mem hm
    have := rowTrue_single vals (Int.ofNat ((uniqueIds ids).idxOf g)) (Int.ofNat (c + 1)) (by simp)
      (by rw [hlen]; simpa using hlt)
    have hne : (g != -1) = true := by simpa using h
    simpa [h, hne] using this

theorem wellPadded_ofGroups (ids : List Int) (k : Nat) (h : ∀ g ∈ ids, g ≠ -1) :
    WellPadded (ofGroups ids k) := by
  intro r hr
  simp only [ofGroups, List.mem_flatMap, List.mem_map, List.mem_range] at hr ⊢
  obtain ⟨g, hg, c, _, rfl⟩ := hr
  refine ⟨rfl, ?_⟩
  intro cj hcj
  rw [List.mem_singleton.mp hcj]
  refine ⟨rfl, ?_⟩
  intro l hl
  rw [List.mem_singleton.mp hl]
  right
  have hm : g ∈ uniqueIds ids := (mem_uniqueIds ids g).mpr ⟨hg, h g hg⟩
  have hlt := List.idxOf_lt_length_of_mem hm
  simp [h g hg]; omega

/-! ## join -/

def shiftLit (k : Nat) (l : Lit) : Lit := if l.1 == -1 then l else (l.1 + k, l.2)

theorem shiftConj_eq (k : Nat) (c : Conj) : shiftConj k c = c.map (shiftLit k) := rfl

theorem litSem_append_left {u : Nat} {l : Lit} (hl : LitOK u l) (a b : List Nat) (ha : a.length = u) :
    litSem (a ++ b) l = litSem a l := by
  rcases hl with rfl | ⟨h0, h1, _⟩
  · simp [litSem]
  · have : l.1.toNat < a.length := by omega
    simp [litSem, List.getD_eq_getElem?_getD, List.getElem?_append_left this]

theorem shiftLit_pad (k : Nat) : shiftLit k padLit = padLit := by simp [shiftLit, padLit]

theorem litSem_shift {u' : Nat} {l : Lit} (hl : LitOK u' l) (a b : List Nat) :
    litSem (a ++ b) (shiftLit a.length l) = litSem b l := by
  rcases hl with rfl | ⟨h0, h1, _⟩
  · simp [shiftLit_pad, litSem]
  · obtain ⟨x, c⟩ := l
    simp only at h0 h1
    have hx : (x == -1) = false := by simp; omega
    have h1' : ((x + (a.length : Int), c) == padLit) = false := by simp [padLit]; omega
    have h2' : ((x, c) == padLit) = false := by simp [padLit]; omega
    have h3 : (x + (a.length : Int)).toNat = a.length + x.toNat := by omega
    have hs : shiftLit a.length (x, c) = (x + (a.length : Int), c) := by simp [shiftLit, hx]
    rw [hs]
    simp only [litSem, h1', h2', Bool.false_or, List.getD_eq_getElem?_getD, h3]
    rw [List.getElem?_append_right (by omega)]
    simp

theorem nonpad_shift {u' : Nat} {l : Lit} (hl : LitOK u' l) (k : Nat) :
    (shiftLit k l != padLit) = (l != padLit) := by
  rcases hl with rfl | ⟨h0, h1, _⟩
  · simp [shiftLit_pad]
  · obtain ⟨x, c⟩ := l
    simp only at h0 h1
    have hx : (x == -1) = false := by simp; omega
    have h1' : ((x + (k : Int), c) != padLit) = true := by simp [padLit]; omega
    have h2' : ((x, c) != padLit) = true := by simp [padLit]; omega
    have hs : shiftLit k (x, c) = (x + (k : Int), c) := by simp [shiftLit, hx]
    rw [hs, h1', h2']

theorem litOK_shift {u u' : Nat} {l : Lit} (hl : LitOK u' l) : LitOK (u + u') (shiftLit u l) := by
  rcases hl with rfl | ⟨h0, h1, h2⟩
  · rw [shiftLit_pad]; exact litOK_pad _
  · obtain ⟨x, c⟩ := l
    simp only at h0 h1 h2
    have hx : (x == -1) = false := by simp; omega
    right
    have hs : shiftLit u (x, c) = (x + (u : Int), c) := by simp [shiftLit, hx]
    rw [hs]
    simp; omega

theorem litOK_mono {u u' : Nat} {l : Lit} (hl : LitOK u l) : LitOK (u + u') l := by
  rcases hl with rfl | ⟨h0, h1, h2⟩
  · exact litOK_pad _
  · right; exact ⟨h0, by simp; omega, h2⟩

theorem conjSem_join {n u n' u' : Nat} {c c' : Conj} (hc : ConjOK n u c) (hc' : ConjOK n' u' c')
    (a b : List Nat) (ha : a.length = u) :
    conjSem (a ++ b) (c ++ shiftConj u c') =
      ((c.any (· != padLit) || c'.any (· != padLit)) && (c.all (litSem a) && c'.all (litSem b))) := by
  subst ha
  simp only [conjSem, shiftConj_eq, List.any_append, List.all_append, List.any_map, List.all_map,
    Function.comp_def]
  rw [all_congr_mem (fun l hl => litSem_append_left (hc.2 l hl) a b rfl)]
  rw [any_congr_mem (l := c') (fun l hl => nonpad_shift (hc'.2 l hl) a.length)]
  rw [all_congr_mem (l := c') (fun l hl => litSem_shift (hc'.2 l hl) a b)]

theorem allPad_eq_of_ok {n u : Nat} {c : Conj} (hc : ConjOK n u c) :
    allPad c = !(c.any (· != padLit)) := by
  unfold allPad
  rw [all_congr_mem (fun l hl => isPad_iff_of_ok (hc.2 l hl))]
  simp [List.all_eq_not_any_not, bne]

/-- one disjunct of a joined row -/
def joinConj (u nn : Nat) (c c' : Conj) : Conj :=
  if allPad c || allPad c' then List.replicate nn padLit else c ++ shiftConj u c'

/-- one joined row -/
def joinRow (u nn : Nat) (r s : Row) : Row := r.flatMap (fun c => s.map (fun c' => joinConj u nn c c'))

theorem conjSem_joinConj {n u n' u' : Nat} {c c' : Conj} (hc : ConjOK n u c) (hc' : ConjOK n' u' c')
    (a b : List Nat) (ha : a.length = u) (nn : Nat) :
    conjSem (a ++ b) (joinConj u nn c c') = (conjSem a c && conjSem b c') := by
  unfold joinConj
  rw [allPad_eq_of_ok hc, allPad_eq_of_ok hc']
  cases h1 : c.any (· != padLit) with
  | false => simp [conjSem, h1]
  | true =>
    cases h2 : c'.any (· != padLit) with
    | false => simp [conjSem, h2]
    | true =>
      simp only [Bool.not_true, Bool.or_self, Bool.false_eq_true, ↓reduceIte]
      rw [conjSem_join hc hc' a b ha, h1, h2]
      simp [conjSem, h1, h2]

theorem rowSem_joinRow {d n u d' n' u' : Nat} {r s : Row} (hr : RowOK d n u r) (hs : RowOK d' n' u' s)
    (a b : List Nat) (ha : a.length = u) (nn : Nat) :
    rowSem (a ++ b) (joinRow u nn r s) = (rowSem a r && rowSem b s) := by
  simp only [rowSem, joinRow, List.any_flatMap, List.any_map]
  have h1 : r.any (fun c => s.any ((conjSem (a ++ b)) ∘ fun c' => joinConj u nn c c')) =
      r.any (fun c => conjSem a c && s.any (conjSem b)) := by
    apply any_congr_mem
    intro c hc
    rw [← any_and_left]
    apply any_congr_mem
    intro c' hc'
    rw [Function.comp, conjSem_joinConj (hr.2 c hc) (hs.2 c' hc') a b ha]
  rw [h1, any_and_right]

theorem conjOK_joinConj {n u n' u' : Nat} {c c' : Conj} (hc : ConjOK n u c) (hc' : ConjOK n' u' c') :
    ConjOK (n + n') (u + u') (joinConj u (n + n') c c') := by
  unfold joinConj
  split
  · exact conjOK_allpad _ _
  · constructor
    · simp [shiftConj_eq, hc.1, hc'.1]
    · intro l hl
      rcases List.mem_append.mp hl with h | h
      · exact litOK_mono (hc.2 l h)
      · rw [shiftConj_eq] at h
        obtain ⟨l', hl', rfl⟩ := List.mem_map.mp h
        exact litOK_shift (hc'.2 l' hl')

theorem rowOK_joinRow {d n u d' n' u' : Nat} {r s : Row} (hr : RowOK d n u r) (hs : RowOK d' n' u' s) :
    RowOK (d * d') (n + n') (u + u') (joinRow u (n + n') r s) := by
  constructor
  · have : ∀ (r : Row), (joinRow u (n + n') r s).length = r.length * s.length := by
      intro r
      induction r with
      | nil => simp [joinRow]
      | cons c cs ih =>
        simp only [joinRow, List.flatMap_cons, List.length_append, List.length_map, List.length_cons] at ih ⊢
        rw [ih, Nat.add_mul, Nat.one_mul, Nat.add_comm]
    rw [this, hr.1, hs.1]
  · intro cc hcc
    simp only [joinRow, List.mem_flatMap, List.mem_map] at hcc
    obtain ⟨c, hc, c', hc', rfl⟩ := hcc
    exact conjOK_joinConj (hr.2 c hc) (hs.2 c' hc')

theorem join_data (p q : P) :
    (join p q).data = p.data.flatMap (fun r => q.data.map (fun s =>
      joinRow p.nUnits (p.nConj + q.nConj) r s)) := rfl

theorem wellPadded_join {p q : P} (hp : WellPadded p) (hq : WellPadded q) : WellPadded (join p q) := by
  intro rr hrr
  rw [join_data] at hrr
  simp only [List.mem_flatMap, List.mem_map] at hrr
  obtain ⟨r, hr, s, hs, rfl⟩ := hrr
  exact rowOK_joinRow (hp r hr) (hq s hs)

theorem query_join {p q : P} (hp : WellPadded p) (hq : WellPadded q)
    (a b : List Int) (ha : a.length = p.nUnits) (hb : b.length = q.nUnits)
    (hapos : ∀ v ∈ a, 0 ≤ v) (hbpos : ∀ v ∈ b, 0 ≤ v) :
    query (join p q) (a ++ b) =
      .ok (p.data.flatMap (fun r => q.data.map (fun s =>
        rowSem (a.map Int.toNat) r && rowSem (b.map Int.toNat) s))) := by
  rw [query_ok (join p q) (a ++ b) (wellPadded_join hp hq) (by simp [join, ha, hb])
    (by intro v hv; rcases List.mem_append.mp hv with h | h; exact hapos v h; exact hbpos v h)]
  rw [join_data, List.map_flatMap, List.map_append]
  congr 1
  apply flatMap_congr_mem
  intro r hr
  rw [List.map_map]
  apply List.map_congr_left
  intro s hs
  exact rowSem_joinRow (hp r hr) (hq s hs) _ _ (by simp [ha]) _

end Ds.Prov
