import Ds.Prov

/-!
# Helper lemmas for the provenance container (`Ds.Prov`)

Specification side (`litSem`, `conjSem`, `rowSem`, `WellPadded`, `Expr.dnf`, `Expr.Proper`,
`Expr.InRange`, `absF`) and all lemmas used by the property files C05, C11, C12, C19.
Core Lean only (no Mathlib).
-/

namespace Ds.Prov

deriving instance DecidableEq for Except

/-! ## `mapM` in `Except` -/

theorem map_ok_inj {β : Type} {a b : List β}
    (h : a.map (Except.ok (ε := Err)) = b.map Except.ok) : a = b := by
  induction a generalizing b with
  | nil => cases b <;> simp_all
  | cons x xs ih => cases b with
    | nil => simp at h
    | cons y ys => simp at h; rw [h.1, ih h.2]

theorem mapM_ok_iff {α β : Type} (f : α → Except Err β) (l : List α) (m : List β) :
    l.mapM f = .ok m ↔ l.map f = m.map .ok := by
  induction l generalizing m with
  | nil => cases m <;> simp [pure, Except.pure]
  | cons x xs ih =>
    rw [List.mapM_cons]
    cases hx : f x with
    | error e => cases m <;> simp [bind, Except.bind, hx]
    | ok y =>
      cases hxs : xs.mapM f with
      | error e =>
        have h : ∀ zs : List β, ¬ xs.map f = zs.map .ok := fun zs hz => by
          have := (ih zs).mpr hz; simp [hxs] at this
        cases m <;> simp [bind, Except.bind, hx, h]
      | ok ys =>
        have h := (ih ys).mp hxs
        cases m with
        | nil => simp [bind, Except.bind, pure, Except.pure]
        | cons z zs =>
          simp [bind, Except.bind, pure, Except.pure, h, hx]
          intro _
          exact ⟨fun h => by rw [h], map_ok_inj⟩

theorem mapM_ok_of {α β : Type} (f : α → Except Err β) (g : α → β) (l : List α)
    (h : ∀ x ∈ l, f x = .ok (g x)) : l.mapM f = .ok (l.map g) := by
  rw [mapM_ok_iff, List.map_map]; exact List.map_congr_left h

theorem all_congr_mem {α : Type} {l : List α} {f g : α → Bool} (h : ∀ x ∈ l, f x = g x) :
    l.all f = l.all g := by
  induction l with
  | nil => rfl
  | cons x xs ih =>
    simp only [List.all_cons, h x (by simp)]
    rw [ih (fun y hy => h y (by simp [hy]))]

theorem any_congr_mem {α : Type} {l : List α} {f g : α → Bool} (h : ∀ x ∈ l, f x = g x) :
    l.any f = l.any g := by
  induction l with
  | nil => rfl
  | cons x xs ih =>
    simp only [List.any_cons, h x (by simp)]
    rw [ih (fun y hy => h y (by simp [hy]))]

/-! ## specification: truth value of a padded stored row -/

/-- a stored literal is satisfied: it is padding, or the unit's candidate is the literal's -/
def litSem (a : List Nat) (l : Lit) : Bool := l == padLit || a.getD l.1.toNat 0 == l.2.toNat

/-- a stored conjunction counts as true: it is not pure padding and every literal is satisfied -/
def conjSem (a : List Nat) (c : Conj) : Bool := c.any (· != padLit) && c.all (litSem a)

/-- truth value of a padded stored row under the assignment `a` (candidate index per unit) -/
def rowSem (a : List Nat) (r : Row) : Bool := r.any (conjSem a)

/-- a literal is exactly padding or a proper literal over the unit set -/
def LitOK (nUnits : Nat) (l : Lit) : Prop := l = padLit ∨ (0 ≤ l.1 ∧ l.1 < nUnits ∧ 0 ≤ l.2)

def ConjOK (n nUnits : Nat) (c : Conj) : Prop := c.length = n ∧ ∀ l ∈ c, LitOK nUnits l

def RowOK (d n nUnits : Nat) (r : Row) : Prop := r.length = d ∧ ∀ c ∈ r, ConjOK n nUnits c

/-- the array invariant: every row has the declared shape, every literal is `(-1,-1)` or in range -/
def WellPadded (p : P) : Prop := ∀ r ∈ p.data, RowOK p.nDisj p.nConj p.nUnits r

instance (nUnits : Nat) (l : Lit) : Decidable (LitOK nUnits l) := by unfold LitOK; infer_instance
instance (n nUnits : Nat) (c : Conj) : Decidable (ConjOK n nUnits c) := by unfold ConjOK; infer_instance
instance (d n nUnits : Nat) (r : Row) : Decidable (RowOK d n nUnits r) := by unfold RowOK; infer_instance
instance (p : P) : Decidable (WellPadded p) := by unfold WellPadded; infer_instance

/-- what a reader can observe of the container: the list of the rows' truth functions -/
def absF (p : P) : List (List Nat → Bool) := p.data.map (fun r a => rowSem a r)

/-! ## `query` on a well padded container -/

theorem pyIdx_pad (vals : List Int) : pyIdx? (vals ++ [-1]) (-1) = some (-1) := by
  simp [pyIdx?]
  omega

theorem pyIdx_inrange (vals : List Int) (u : Int) (h0 : 0 ≤ u) (h1 : u < vals.length) :
    pyIdx? (vals ++ [-1]) u = some (vals.getD u.toNat 0) := by
  have : u.toNat < vals.length := by omega
  simp [pyIdx?, h0, List.getElem?_append_left this, List.getD_eq_getElem?_getD, this]

theorem litTrue_ok (vals : List Int) (nUnits : Nat) (hlen : vals.length = nUnits)
    (hpos : ∀ v ∈ vals, 0 ≤ v) (l : Lit) (hl : LitOK nUnits l) :
    litTrue vals l = .ok (litSem (vals.map Int.toNat) l) := by
  rcases hl with rfl | ⟨h0, h1, h2⟩
  · simp [litTrue, padLit, pyIdx_pad, litSem, pure, Except.pure]
  · obtain ⟨u, c⟩ := l
    simp only at h0 h1 h2
    have hu : u.toNat < vals.length := by omega
    have hne : ((u, c) == padLit) = false := by
      simp [padLit]; omega
    have hv : 0 ≤ vals[u.toNat] := hpos _ (List.getElem_mem hu)
    simp [litTrue, pyIdx_inrange vals u h0 (by omega), litSem, hne, pure, Except.pure,
      List.getD_eq_getElem?_getD, hu]
    rw [Bool.eq_iff_iff]; simp only [beq_iff_eq]; omega

theorem isPad_iff_of_ok {nUnits : Nat} {l : Lit} (hl : LitOK nUnits l) :
    (l.1 == -1) = (l == padLit) := by
  rcases hl with rfl | ⟨h0, _, _⟩
  · simp [padLit]
  · obtain ⟨u, c⟩ := l
    simp only at h0
    rw [Bool.eq_iff_iff]; simp [padLit]; omega

theorem conjTrue_ok (vals : List Int) (n nUnits : Nat) (hlen : vals.length = nUnits)
    (hpos : ∀ v ∈ vals, 0 ≤ v) (c : Conj) (hc : ConjOK n nUnits c) :
    conjTrue vals n c = .ok (conjSem (vals.map Int.toNat) c) := by
  obtain ⟨hn, hl⟩ := hc
  have hm : c.mapM (litTrue vals) = .ok (c.map (litSem (vals.map Int.toNat))) :=
    mapM_ok_of _ _ _ (fun l h => litTrue_ok vals nUnits hlen hpos l (hl l h))
  have hmask : c.all (fun l => l.1 == -1) = c.all (fun l => l == padLit) :=
    all_congr_mem (fun l h => isPad_iff_of_ok (hl l h))
  have hsq : (if n == 1 then (c.map (litSem (vals.map Int.toNat))).getD 0 true
      else (c.map (litSem (vals.map Int.toNat))).all id) = c.all (litSem (vals.map Int.toNat)) := by
    split
    · rename_i h1
      have : c.length = 1 := by rw [hn]; simpa using h1
      match c, this with
      | [l], _ => simp
    · simp [List.all_map]
  unfold conjTrue
  rw [hm]
  simp only [bind, Except.bind, pure, Except.pure, hsq, hmask, conjSem]
  congr 1
  rw [Bool.and_comm]
  congr 1
  simp [List.all_eq_not_any_not, bne]

theorem rowTrue_ok (vals : List Int) (d n nUnits : Nat) (hlen : vals.length = nUnits)
    (hpos : ∀ v ∈ vals, 0 ≤ v) (r : Row) (hr : RowOK d n nUnits r) :
    rowTrue vals d n r = .ok (rowSem (vals.map Int.toNat) r) := by
  obtain ⟨hd, hc⟩ := hr
  have hm : r.mapM (conjTrue vals n) = .ok (r.map (conjSem (vals.map Int.toNat))) :=
    mapM_ok_of _ _ _ (fun c h => conjTrue_ok vals n nUnits hlen hpos c (hc c h))
  unfold rowTrue
  rw [hm]
  simp only [bind, Except.bind, pure, Except.pure, rowSem]
  congr 1
  split
  · rename_i h1
    have : r.length = 1 := by rw [hd]; simpa using h1
    match r, this with
    | [c], _ => simp
  · simp [List.any_map]

theorem query_ok (p : P) (vals : List Int) (hp : WellPadded p) (hlen : vals.length = p.nUnits)
    (hpos : ∀ v ∈ vals, 0 ≤ v) :
    query p vals = .ok (p.data.map (rowSem (vals.map Int.toNat))) := by
  unfold query
  simp only [hlen, bne_self_eq_false, Bool.false_eq_true, ↓reduceIte]
  exact mapM_ok_of _ _ _ (fun r h => rowTrue_ok vals _ _ _ hlen hpos r (hp r h))

theorem query_wrong_length (p : P) (vals : List Int) (h : vals.length ≠ p.nUnits) :
    query p vals = .error Err.valueError := by
  simp [query, h, throw, throwThe, MonadExceptOf.throw]

/-! ## expressions: normal form, properness, range -/

namespace Expr

/-- the list of conjunctions an expression stands for -/
def dnf : Expr → List (List (Nat × Nat))
  | eq u c => [[(u, c)]]
  | conj es => [es]
  | disj cs => cs

/-- no empty conjunction and no empty disjunction (all the library's constructors can build) -/
def Proper (e : Expr) : Prop := e.dnf ≠ [] ∧ ∀ c ∈ e.dnf, c ≠ []

instance (e : Expr) : Decidable e.Proper := by unfold Proper; infer_instance

/-- every literal names a unit `< nUnits` -/
def InRange (nUnits : Nat) (e : Expr) : Prop := ∀ c ∈ e.dnf, ∀ l ∈ c, l.1 < nUnits

instance (n : Nat) (e : Expr) : Decidable (e.InRange n) := by unfold InRange; infer_instance

theorem eval_eq_dnf (a : List Nat) (e : Expr) :
    e.eval a = e.dnf.any (fun es => es.all (evalLit a)) := by
  cases e <;> simp [eval, dnf]

theorem height_eq_dnf (e : Expr) : e.height = e.dnf.length := by
  cases e <;> simp [height, dnf]

theorem width_eq_dnf (e : Expr) : e.width = (e.dnf.map List.length).foldl max 0 := by
  cases e <;> simp [width, dnf]

theorem padTo_self {β : Type} (l : List β) (x : β) : padTo l l.length x = l := by
  simp [padTo]

theorem data3_eq_dnf (e : Expr) :
    e.data3 = e.dnf.map (fun es => padTo (es.map litData) e.width padLit) := by
  cases e with
  | eq u c => simp [data3, dnf, width, padTo]
  | conj es => simp [data3, dnf, width, padTo]
  | disj cs => simp [data3, dnf, width]

end Expr

theorem le_foldl_max_init (l : List Nat) (i : Nat) : i ≤ l.foldl max i := by
  induction l generalizing i with
  | nil => simp
  | cons x xs ih => simp only [List.foldl_cons]; exact Nat.le_trans (Nat.le_max_left ..) (ih _)

theorem le_foldl_max_of_mem (l : List Nat) (i x : Nat) (h : x ∈ l) : x ≤ l.foldl max i := by
  induction l generalizing i with
  | nil => cases h
  | cons y ys ih =>
    simp only [List.foldl_cons]
    rcases List.mem_cons.mp h with rfl | h
    · exact Nat.le_trans (Nat.le_max_right ..) (le_foldl_max_init _ _)
    · exact ih _ h

theorem Expr.length_le_width (e : Expr) (c : List (Nat × Nat)) (h : c ∈ e.dnf) :
    c.length ≤ e.width := by
  rw [Expr.width_eq_dnf]
  exact le_foldl_max_of_mem _ _ _ (List.mem_map.mpr ⟨c, h, rfl⟩)

/-! ## padding does not change the meaning of a row -/

theorem litSem_pad (a : List Nat) : litSem a padLit = true := by simp [litSem]

theorem conjSem_append_pad (a : List Nat) (c : Conj) (k : Nat) :
    conjSem a (c ++ List.replicate k padLit) = conjSem a c := by
  simp only [conjSem, List.any_append, List.all_append]
  have h1 : (List.replicate k padLit).any (· != padLit) = false := by
    simp
  have h2 : (List.replicate k padLit).all (litSem a) = true := by
    simp [litSem_pad]
  simp [h1, h2]

theorem conjSem_padConj (a : List Nat) (c : Conj) (n : Nat) : conjSem a (padConj c n) = conjSem a c :=
  conjSem_append_pad a c _

theorem conjSem_allpad (a : List Nat) (n : Nat) : conjSem a (List.replicate n padLit) = false := by
  simp [conjSem]

theorem rowSem_padRow (a : List Nat) (r : Row) (d n : Nat) : rowSem a (padRow r d n) = rowSem a r := by
  simp only [rowSem, padRow, Expr.padTo, List.any_append, List.any_map]
  have h : (List.replicate (d - (r.map (padConj · n)).length) (List.replicate n padLit)).any (conjSem a)
      = false := by
    simp [conjSem_allpad]
  rw [h, Bool.or_false]
  exact any_congr_mem (fun c _ => conjSem_padConj a c n)

theorem litSem_litData (a : List Nat) (l : Nat × Nat) : litSem a (Expr.litData l) = Expr.evalLit a l := by
  have : (Expr.litData l == padLit) = false := by
    simp [Expr.litData, padLit]
  rw [litSem, this]
  simp [Expr.evalLit, Expr.litData]

theorem litData_ne_pad (l : Nat × Nat) : (Expr.litData l != padLit) = true := by
  simp [Expr.litData, padLit]

theorem conjSem_litData (a : List Nat) (c : List (Nat × Nat)) (hc : c ≠ []) :
    conjSem a (c.map Expr.litData) = c.all (Expr.evalLit a) := by
  simp only [conjSem, List.any_map, List.all_map]
  have h1 : c.any ((· != padLit) ∘ Expr.litData) = true := by
    cases c with
    | nil => exact absurd rfl hc
    | cons x xs => simp [litData_ne_pad]
  rw [h1, Bool.true_and]
  exact all_congr_mem (fun l _ => litSem_litData a l)

theorem rowSem_data3 (a : List Nat) (e : Expr) (h : ∀ c ∈ e.dnf, c ≠ []) :
    rowSem a e.data3 = e.eval a := by
  rw [Expr.data3_eq_dnf, Expr.eval_eq_dnf, rowSem, List.any_map]
  apply any_congr_mem
  intro c hc
  simp only [Function.comp, Expr.padTo]
  rw [conjSem_append_pad, conjSem_litData a c (h c hc)]

/-- the stored (padded) row of a proper expression means what the expression means -/
theorem rowSem_stored (a : List Nat) (e : Expr) (he : e.Proper) (d n : Nat) :
    rowSem a (padRow e.data3 d n) = e.eval a := by
  rw [rowSem_padRow, rowSem_data3 a e he.2]

/-! ## padding establishes the shape invariant -/

theorem litOK_pad (u : Nat) : LitOK u padLit := Or.inl rfl

theorem length_padTo {β : Type} (l : List β) (n : Nat) (x : β) (h : l.length ≤ n) :
    (Expr.padTo l n x).length = n := by
  simp [Expr.padTo]; omega

theorem mem_padTo {β : Type} {l : List β} {n : Nat} {x y : β} (h : y ∈ Expr.padTo l n x) :
    y ∈ l ∨ y = x := by
  simp only [Expr.padTo, List.mem_append, List.mem_replicate] at h
  rcases h with h | h
  · exact Or.inl h
  · exact Or.inr h.2

theorem conjOK_padConj (n u : Nat) (c : Conj) (hlen : c.length ≤ n) (hl : ∀ l ∈ c, LitOK u l) :
    ConjOK n u (padConj c n) := by
  refine ⟨length_padTo _ _ _ hlen, ?_⟩
  intro l h
  rcases mem_padTo h with h | rfl
  · exact hl l h
  · exact litOK_pad u

theorem conjOK_allpad (n u : Nat) : ConjOK n u (List.replicate n padLit) := by
  refine ⟨by simp, ?_⟩
  intro l h
  rw [(List.mem_replicate.mp h).2]; exact litOK_pad u

theorem rowOK_padRow (d n u : Nat) (r : Row) (hlen : r.length ≤ d)
    (hc : ∀ c ∈ r, c.length ≤ n ∧ ∀ l ∈ c, LitOK u l) : RowOK d n u (padRow r d n) := by
  refine ⟨length_padTo _ _ _ (by simpa using hlen), ?_⟩
  intro c h
  rcases mem_padTo h with h | rfl
  · obtain ⟨c', hc', rfl⟩ := List.mem_map.mp h
    exact conjOK_padConj n u c' (hc c' hc').1 (hc c' hc').2
  · exact conjOK_allpad n u

theorem litOK_litData (u : Nat) (l : Nat × Nat) (h : l.1 < u) : LitOK u (Expr.litData l) := by
  right; simp [Expr.litData]; omega

theorem data3_shape (u : Nat) (e : Expr) (he : e.InRange u) :
    e.data3.length = e.height ∧ ∀ c ∈ e.data3, c.length = e.width ∧ ∀ l ∈ c, LitOK u l := by
  rw [Expr.data3_eq_dnf, Expr.height_eq_dnf]
  refine ⟨by simp, ?_⟩
  intro c h
  obtain ⟨c', hc', rfl⟩ := List.mem_map.mp h
  refine ⟨length_padTo _ _ _ (by simpa using e.length_le_width c' hc'), ?_⟩
  intro l hl
  rcases mem_padTo hl with hl | rfl
  · obtain ⟨l', hl', rfl⟩ := List.mem_map.mp hl
    exact litOK_litData u l' (he c' hc' l' hl')
  · exact litOK_pad u

/-- the stored row of an in-range expression has the store's shape (if the store is large enough) -/
theorem rowOK_stored (d n u : Nat) (e : Expr) (he : e.InRange u) (hd : e.height ≤ d) (hn : e.width ≤ n) :
    RowOK d n u (padRow e.data3 d n) := by
  obtain ⟨h1, h2⟩ := data3_shape u e he
  apply rowOK_padRow
  · omega
  · intro c hc
    exact ⟨by rw [(h2 c hc).1]; exact hn, (h2 c hc).2⟩

theorem wellPadded_ofExprs (es : List Expr) (u k : Nat) (h : ∀ e ∈ es, e.InRange u) :
    WellPadded (ofExprs es u k) := by
  intro r hr
  simp only [ofExprs] at hr ⊢
  obtain ⟨e, he, rfl⟩ := List.mem_map.mp hr
  exact rowOK_stored _ _ u e (h e he)
    (le_foldl_max_of_mem _ _ _ (List.mem_map.mpr ⟨e, he, rfl⟩))
    (le_foldl_max_of_mem _ _ _ (List.mem_map.mpr ⟨e, he, rfl⟩))

theorem absF_ofExprs (es : List Expr) (u k : Nat) (h : ∀ e ∈ es, e.Proper) :
    absF (ofExprs es u k) = es.map (fun e a => e.eval a) := by
  simp only [absF, ofExprs, List.map_map]
  apply List.map_congr_left
  intro e he
  funext a
  exact rowSem_stored a e (h e he) _ _

/-! ## `queryIdx`, `ofDict` -/

theorem queryIdx_of_query {p : P} {vals : List Int} {m : List Bool} (h : query p vals = .ok m) :
    queryIdx p vals = .ok ((List.range m.length).filter (fun i => m.getD i false)) := by
  simp [queryIdx, h, bind, Except.bind, pure, Except.pure]

theorem queryIdx_error {p : P} {vals : List Int} {e : Err} (h : query p vals = .error e) :
    queryIdx p vals = .error e := by
  simp [queryIdx, h, bind, Except.bind]

theorem mem_trueIdx (m : List Bool) (i : Nat) :
    i ∈ (List.range m.length).filter (fun i => m.getD i false) ↔ m[i]? = some true := by
  simp only [List.mem_filter, List.mem_range, List.getD_eq_getElem?_getD]
  constructor
  · rintro ⟨h1, h2⟩
    rw [List.getElem?_eq_getElem h1] at h2 ⊢
    simpa using h2
  · intro h
    obtain ⟨h1, h2⟩ := List.getElem?_eq_some_iff.mp h
    exact ⟨h1, by simp [h]⟩

theorem trueIdx_sorted (m : List Bool) :
    ((List.range m.length).filter (fun i => m.getD i false)).Pairwise (· < ·) :=
  List.Pairwise.filter _ List.pairwise_lt_range

theorem find_eq_lookup (d : List (Nat × Int)) (u : Nat) :
    (match d.find? (·.1 == u) with | some kv => kv.2 | none => 0) = (d.lookup u).getD 0 := by
  induction d with
  | nil => rfl
  | cons kv ds ih =>
    obtain ⟨k, v⟩ := kv
    by_cases h : k = u
    · subst h; simp
    · have h' : (u == k) = false := by simp; omega
      have h'' : (k == u) = false := by simp; omega
      rw [List.find?_cons, List.lookup_cons]
      simp only [h', h'']
      exact ih

theorem ofDict_eq_lookup (n : Nat) (d : List (Nat × Int)) :
    ofDict n d = (List.range n).map (fun u => (d.lookup u).getD 0) := by
  unfold ofDict
  exact List.map_congr_left (fun u _ => find_eq_lookup d u)

theorem length_ofDict (n : Nat) (d : List (Nat × Int)) : (ofDict n d).length = n := by
  simp [ofDict]

theorem ofDict_nonneg (n : Nat) (d : List (Nat × Int)) (hd : ∀ kv ∈ d, 0 ≤ kv.2) :
    ∀ v ∈ ofDict n d, 0 ≤ v := by
  intro v hv
  rw [ofDict_eq_lookup] at hv
  obtain ⟨u, _, rfl⟩ := List.mem_map.mp hv
  cases h : d.lookup u with
  | none => simp
  | some w =>
    have : (u, w) ∈ d := by
      clear hv hd
      induction d with
      | nil => simp at h
      | cons kv ds ih =>
        obtain ⟨k, v⟩ := kv
        rw [List.lookup_cons] at h
        split at h
        · rename_i hk
          simp at hk h; subst hk; subst h; simp
        · exact List.mem_cons_of_mem _ (ih h)
    simpa using hd _ this

/-! ## expression operators -/

theorem any_and_left {α : Type} (l : List α) (b : Bool) (f : α → Bool) :
    l.any (fun x => b && f x) = (b && l.any f) := by
  induction l with
  | nil => simp
  | cons x xs ih => simp only [List.any_cons, ih]; cases b <;> simp

theorem any_and_right {α : Type} (l : List α) (b : Bool) (f : α → Bool) :
    l.any (fun x => f x && b) = (l.any f && b) := by
  induction l with
  | nil => simp
  | cons x xs ih => simp only [List.any_cons, ih]; cases b <;> simp

theorem eval_and (a b : Expr) (x : List Nat) : (a.and b).eval x = (a.eval x && b.eval x) := by
  cases a <;> cases b <;>
    simp [Expr.and, Expr.eval, List.all_append, List.any_map, List.any_flatMap, Function.comp_def,
      any_and_left, any_and_right]

theorem eval_or (a b : Expr) (x : List Nat) : (a.or b).eval x = (a.eval x || b.eval x) := by
  cases a <;> cases b <;>
    simp [Expr.or, Expr.eval, List.any_append]

theorem flatMap_single {α β : Type} (l : List α) (f : α → β) : l.flatMap (fun x => [f x]) = l.map f := by
  induction l with
  | nil => rfl
  | cons x xs ih => simp [List.flatMap_cons, ih]

theorem dnf_and (a b : Expr) : (a.and b).dnf = a.dnf.flatMap (fun x => b.dnf.map (fun y => x ++ y)) := by
  cases a <;> cases b <;> simp [Expr.and, Expr.dnf, flatMap_single]

theorem dnf_or (a b : Expr) : (a.or b).dnf = a.dnf ++ b.dnf := by
  cases a <;> cases b <;> simp [Expr.or, Expr.dnf]

theorem proper_and {a b : Expr} (ha : a.Proper) (hb : b.Proper) : (a.and b).Proper := by
  unfold Expr.Proper at *
  rw [dnf_and]
  constructor
  · obtain ⟨x, xs, hx⟩ := List.exists_cons_of_ne_nil ha.1
    obtain ⟨y, ys, hy⟩ := List.exists_cons_of_ne_nil hb.1
    simp [hx, hy]
  · intro c hc
    obtain ⟨x, hx, hc⟩ := List.mem_flatMap.mp hc
    obtain ⟨y, hy, rfl⟩ := List.mem_map.mp hc
    have := ha.2 x hx
    simp [this]

theorem proper_or {a b : Expr} (ha : a.Proper) (hb : b.Proper) : (a.or b).Proper := by
  unfold Expr.Proper at *
  rw [dnf_or]
  constructor
  · simp [ha.1]
  · intro c hc
    rcases List.mem_append.mp hc with h | h
    · exact ha.2 c h
    · exact hb.2 c h

theorem inRange_and {n : Nat} {a b : Expr} (ha : a.InRange n) (hb : b.InRange n) : (a.and b).InRange n := by
  unfold Expr.InRange at *
  rw [dnf_and]
  intro c hc l hl
  obtain ⟨x, hx, hc⟩ := List.mem_flatMap.mp hc
  obtain ⟨y, hy, rfl⟩ := List.mem_map.mp hc
  rcases List.mem_append.mp hl with h | h
  · exact ha x hx l h
  · exact hb y hy l h

theorem inRange_or {n : Nat} {a b : Expr} (ha : a.InRange n) (hb : b.InRange n) : (a.or b).InRange n := by
  unfold Expr.InRange at *
  rw [dnf_or]
  intro c hc
  rcases List.mem_append.mp hc with h | h
  · exact ha c h
  · exact hb c h

/-- syntax trees over `&` and `|` with arbitrary expressions at the leaves -/
inductive Tree where
  | leaf (e : Expr)
  | and (l r : Tree)
  | or (l r : Tree)

/-- what the overloaded operators build -/
def Tree.build : Tree → Expr
  | .leaf e => e
  | .and l r => (build l).and (build r)
  | .or l r => (build l).or (build r)

/-- what the formula means -/
def Tree.sem (x : List Nat) : Tree → Bool
  | .leaf e => e.eval x
  | .and l r => sem x l && sem x r
  | .or l r => sem x l || sem x r

def Tree.leaves : Tree → List Expr
  | .leaf e => [e]
  | .and l r => leaves l ++ leaves r
  | .or l r => leaves l ++ leaves r

theorem Tree.eval_build (t : Tree) (x : List Nat) : t.build.eval x = t.sem x := by
  induction t with
  | leaf e => rfl
  | and l r ihl ihr => simp [Tree.build, Tree.sem, eval_and, ihl, ihr]
  | or l r ihl ihr => simp [Tree.build, Tree.sem, eval_or, ihl, ihr]

theorem Tree.proper_build (t : Tree) (h : ∀ e ∈ t.leaves, e.Proper) : t.build.Proper := by
  induction t with
  | leaf e => exact h e (by simp [Tree.leaves])
  | and l r ihl ihr =>
    exact proper_and (ihl fun e he => h e (by simp [Tree.leaves, he]))
      (ihr fun e he => h e (by simp [Tree.leaves, he]))
  | or l r ihl ihr =>
    exact proper_or (ihl fun e he => h e (by simp [Tree.leaves, he]))
      (ihr fun e he => h e (by simp [Tree.leaves, he]))

theorem Tree.inRange_build (n : Nat) (t : Tree) (h : ∀ e ∈ t.leaves, e.InRange n) : t.build.InRange n := by
  induction t with
  | leaf e => exact h e (by simp [Tree.leaves])
  | and l r ihl ihr =>
    exact inRange_and (ihl fun e he => h e (by simp [Tree.leaves, he]))
      (ihr fun e he => h e (by simp [Tree.leaves, he]))
  | or l r ihl ihr =>
    exact inRange_or (ihl fun e he => h e (by simp [Tree.leaves, he]))
      (ihr fun e he => h e (by simp [Tree.leaves, he]))

/-! ## reading a row back -/

theorem conjFromData_append_pad (c : Conj) (k : Nat) :
    conjFromData (c ++ List.replicate k padLit) = conjFromData c := by
  have : (List.replicate k padLit).filter (fun l => !(l.1 == -1 || l.2 == -1)) = [] := by
    rw [List.filter_eq_nil_iff]
    intro l hl
    rw [(List.mem_replicate.mp hl).2]; simp [padLit]
  rw [conjFromData, List.filter_append, this, List.append_nil]; rfl

theorem conjFromData_litData (c : List (Nat × Nat)) : conjFromData (c.map Expr.litData) = c := by
  have : (c.map Expr.litData).filter (fun l => !(l.1 == -1 || l.2 == -1)) = c.map Expr.litData := by
    rw [List.filter_eq_self]
    intro l hl
    obtain ⟨l', _, rfl⟩ := List.mem_map.mp hl
    simp [Expr.litData]
  rw [conjFromData, this, List.map_map]
  conv => rhs; rw [← List.map_id c]
  apply List.map_congr_left
  intro l _
  simp [Expr.litData]

/-- the mask `from_data` uses to drop disjuncts -/
def allPad (c : Conj) : Bool := c.all (fun l => l.1 == -1 && l.2 == -1)

theorem allPad_append_pad (c : Conj) (k : Nat) : allPad (c ++ List.replicate k padLit) = allPad c := by
  simp [allPad, List.all_append, padLit]

theorem allPad_litData (c : List (Nat × Nat)) (hc : c ≠ []) : allPad (c.map Expr.litData) = false := by
  cases c with
  | nil => exact absurd rfl hc
  | cons x xs =>
    have : ¬ ((x.1 : Int) = -1) := by omega
    simp [allPad, Expr.litData, this]

theorem allPad_replicate (n : Nat) : allPad (List.replicate n padLit) = true := by
  simp [allPad, padLit]

/-- how one conjunction of an expression is stored: padded to the expression's width, then to the store's -/
def storedConj (w n : Nat) (c : List (Nat × Nat)) : Conj :=
  padConj (Expr.padTo (c.map Expr.litData) w padLit) n

theorem padRow_data3 (e : Expr) (d n : Nat) :
    padRow e.data3 d n = e.dnf.map (storedConj e.width n) ++
      List.replicate (d - e.dnf.length) (List.replicate n padLit) := by
  simp [padRow, Expr.data3_eq_dnf, Expr.padTo, storedConj, padConj, List.map_map, Function.comp_def]

theorem conjFromData_stored (w n : Nat) (c : List (Nat × Nat)) : conjFromData (storedConj w n c) = c := by
  simp only [storedConj, padConj, Expr.padTo]
  rw [conjFromData_append_pad, conjFromData_append_pad, conjFromData_litData]

theorem allPad_stored (w n : Nat) (c : List (Nat × Nat)) (hc : c ≠ []) : allPad (storedConj w n c) = false := by
  simp only [storedConj, padConj, Expr.padTo]
  rw [allPad_append_pad, allPad_append_pad, allPad_litData c hc]

theorem exprFromData_stored (e : Expr) (he : e.Proper) (d n : Nat) :
    exprFromData (padRow e.data3 d n) = .ok (Expr.disj e.dnf) := by
  have hf : (padRow e.data3 d n).filter (fun c => !(c.all (fun l => l.1 == -1 && l.2 == -1))) =
      e.dnf.map (storedConj e.width n) := by
    rw [padRow_data3, List.filter_append]
    have h1 : (e.dnf.map (storedConj e.width n)).filter (fun c => !(allPad c)) =
        e.dnf.map (storedConj e.width n) := by
      rw [List.filter_eq_self]
      intro c hc
      obtain ⟨c', hc', rfl⟩ := List.mem_map.mp hc
      simp [allPad_stored _ _ c' (he.2 c' hc')]
    have h2 : (List.replicate (d - e.dnf.length) (List.replicate n padLit)).filter
        (fun c => !(allPad c)) = [] := by
      rw [List.filter_eq_nil_iff]
      intro c hc
      rw [(List.mem_replicate.mp hc).2, allPad_replicate]; simp
    simp only [allPad] at h1 h2
    rw [h1, h2, List.append_nil]
  have hm : (e.dnf.map (storedConj e.width n)).map conjFromData = e.dnf := by
    rw [List.map_map]
    conv => rhs; rw [← List.map_id e.dnf]
    exact List.map_congr_left (fun c _ => conjFromData_stored _ _ c)
  have hne : (e.dnf.map (storedConj e.width n)).isEmpty = false := by
    simpa using he.1
  have hany : e.dnf.any List.isEmpty = false := by
    rw [List.any_eq_false]
    intro c hc
    simpa using he.2 c hc
  unfold exprFromData
  simp only [hf, hm, hne, hany]
  rfl

theorem eval_disj_dnf (e : Expr) (x : List Nat) : (Expr.disj e.dnf).eval x = e.eval x := by
  rw [Expr.eval_eq_dnf, Expr.eval_eq_dnf]; rfl

/-! ## Python index normalisation -/

/-- `i` is a valid Python index into a list of length `len` -/
def ValidIdx (len : Nat) (i : Int) : Prop := -(len : Int) ≤ i ∧ i < len

instance (len : Nat) (i : Int) : Decidable (ValidIdx len i) := by unfold ValidIdx; infer_instance

/-- the position a valid Python index denotes -/
def pyPos (len : Nat) (i : Int) : Nat := if 0 ≤ i then i.toNat else len - (-i).toNat

theorem normIdx_valid {len : Nat} {i : Int} (h : ValidIdx len i) : normIdx len i = .ok (pyPos len i) := by
  unfold ValidIdx at h
  unfold normIdx pyPos
  by_cases h0 : 0 ≤ i
  · simp [h0, h.2, pure, Except.pure]
  · have : i < 0 := by omega
    simp [h0, this, h.1, pure, Except.pure]

theorem normIdx_invalid {len : Nat} {i : Int} (h : ¬ ValidIdx len i) :
    normIdx len i = .error Err.indexError := by
  unfold ValidIdx at h
  unfold normIdx
  have h1 : ¬ (0 ≤ i ∧ i < len) := by omega
  have h2 : ¬ (i < 0 ∧ -(len : Int) ≤ i) := by omega
  simp only [h1, h2, ↓reduceIte]
  rfl

theorem pyPos_lt {len : Nat} {i : Int} (h : ValidIdx len i) : pyPos len i < len := by
  unfold ValidIdx at h
  unfold pyPos
  split <;> omega

theorem pyPos_nonneg {len : Nat} {i : Int} (h : 0 ≤ i) : pyPos len i = i.toNat := by simp [pyPos, h]

theorem pyPos_neg {len : Nat} {i : Int} (h : ValidIdx len i) (hi : i < 0) :
    (pyPos len i : Int) = len + i := by
  unfold ValidIdx at h
  unfold pyPos
  have : ¬ 0 ≤ i := by omega
  simp only [this, ↓reduceIte]; omega

theorem getItem_ofExprs (es : List Expr) (u k : Nat) (i : Int) (hprop : ∀ e ∈ es, e.Proper)
    (hi : ValidIdx es.length i) :
    getItem (ofExprs es u k) i =
      .ok (Expr.disj (es[pyPos es.length i]'(pyPos_lt hi)).dnf) := by
  have hlt := pyPos_lt hi
  unfold getItem
  simp only [ofExprs, List.length_map, normIdx_valid hi, bind, Except.bind]
  rw [List.getD_eq_getElem?_getD, List.getElem?_map, List.getElem?_eq_getElem hlt]
  exact exprFromData_stored _ (hprop _ (List.getElem_mem hlt)) _ _

theorem getItem_ofExprs_invalid (es : List Expr) (u k : Nat) (i : Int) (hi : ¬ ValidIdx es.length i) :
    getItem (ofExprs es u k) i = .error Err.indexError := by
  unfold getItem
  simp only [ofExprs, List.length_map, normIdx_invalid hi, bind, Except.bind]
