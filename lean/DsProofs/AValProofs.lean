import Ds.AVal
import Mathlib.Algebra.Group.Defs
import Mathlib.Algebra.BigOperators.Group.List.Basic
import Mathlib.Algebra.Order.BigOperators.Group.List
import Mathlib.Data.List.Basic
import Mathlib.Data.List.Forall2
import Mathlib.Data.List.Nodup
import Mathlib.Tactic.Ring
import Mathlib.Tactic.Linarith
/-!
# AValProofs — laws of the saturating value domains `Ds.AVal D` (helper lemmas for property C10)
-/
set_option linter.unusedSimpArgs false
namespace Ds

/-- pointwise `≤` on vectors of equal length -/
abbrev VLe (y x : List Nat) : Prop := List.Forall₂ (· ≤ ·) y x

theorem Dom.ok_box_iff (m x : List Nat) : (Dom.box m).ok x = true ↔ VLe x m := by
  induction x generalizing m with
  | nil => cases m <;> simp [Dom.ok]
  | cons a x ih =>
    cases m with
    | nil => simp [Dom.ok]
    | cons b m =>
      have := ih m
      simp only [Dom.ok, List.length_cons, beq_iff_eq, Bool.and_eq_true, List.all_eq_true,
        List.zipWith_cons_cons, List.mem_cons, List.forall₂_cons] at this ⊢
      simp only [VLe] at this
      rw [← this]
      simp
      tauto

theorem Dom.ok_tally_iff (n K c : Nat) (x : List Nat) :
    (Dom.tally n K c).ok x = true ↔
      x.length = 1 + 2 * c ∧ x.headD 0 ≤ n ∧ ((x.drop 1).take c).sum ≤ K ∧ ((x.drop (1 + c)).take c).sum ≤ K := by
  simp [Dom.ok, and_assoc]

theorem VLe.trans {z y x : List Nat} (h1 : VLe z y) (h2 : VLe y x) : VLe z x := by
  induction h1 generalizing x with
  | nil => cases h2; exact .nil
  | cons h _ ih => cases h2 with
    | cons h' t => exact .cons (Nat.le_trans h h') (ih t)

theorem VLe.sum_le {y x : List Nat} (h : VLe y x) : y.sum ≤ x.sum := by
  induction h with
  | nil => simp
  | cons h _ ih => simp; omega

theorem VLe.headD {y x : List Nat} (h : VLe y x) : y.headD 0 ≤ x.headD 0 := by
  cases h <;> simp [*]

theorem Dom.ok_length {D : Dom} {x : List Nat} (h : D.ok x = true) : x.length = D.dim := by
  cases D with
  | box m => rw [Dom.ok_box_iff] at h; exact h.length_eq
  | tally n K c => rw [Dom.ok_tally_iff] at h; exact h.1

theorem Dom.ok_down {D : Dom} {x y : List Nat} (h : D.ok x = true) (hle : VLe y x) : D.ok y = true := by
  cases D with
  | box m =>
    rw [Dom.ok_box_iff] at h ⊢
    exact hle.trans h
  | tally n K c =>
    rw [Dom.ok_tally_iff] at h ⊢
    obtain ⟨h1, h2, h3, h4⟩ := h
    refine ⟨hle.length_eq.trans h1, le_trans hle.headD h2, le_trans (VLe.sum_le ?_) h3, le_trans (VLe.sum_le ?_) h4⟩
    · exact List.forall₂_take _ (List.forall₂_drop _ hle)
    · exact List.forall₂_take _ (List.forall₂_drop _ hle)

theorem Dom.ok_zeroVec (D : Dom) : D.ok D.zeroVec = true := by
  cases D with
  | box m =>
    rw [Dom.ok_box_iff]
    simp only [Dom.zeroVec, Dom.dim]
    induction m with
    | nil => simp
    | cons b m ih => simp [List.replicate_succ, ih]
  | tally n K c =>
    rw [Dom.ok_tally_iff]
    simp [Dom.zeroVec, Dom.dim]
    rw [Nat.add_comm 1, List.replicate_succ]; simp

/-! ### vectors -/

theorem vadd_comm (a b : List Nat) : List.zipWith (· + ·) a b = List.zipWith (· + ·) b a := by
  induction a generalizing b with
  | nil => simp
  | cons x a ih => cases b with
    | nil => simp
    | cons y b => simp [ih b, Nat.add_comm]

theorem vadd_assoc (a b c : List Nat) :
    List.zipWith (· + ·) (List.zipWith (· + ·) a b) c = List.zipWith (· + ·) a (List.zipWith (· + ·) b c) := by
  induction a generalizing b c with
  | nil => simp
  | cons x a ih => cases b with
    | nil => simp
    | cons y b => cases c with
      | nil => simp
      | cons z c => simp [ih b c, Nat.add_assoc]

theorem vadd_zero_left (a : List Nat) : List.zipWith (· + ·) (List.replicate a.length 0) a = a := by
  induction a with
  | nil => simp
  | cons x a ih => simp [List.replicate_succ, ih]

theorem VLe_vadd_left {a b : List Nat} (h : a.length = b.length) : VLe a (List.zipWith (· + ·) a b) := by
  induction a generalizing b with
  | nil => simp
  | cons x a ih => cases b with
    | nil => simp at h
    | cons y b => simp only [List.zipWith_cons_cons]; exact .cons (by omega) (ih (by simpa using h))

theorem VLe_vadd_right {a b : List Nat} (h : a.length = b.length) : VLe b (List.zipWith (· + ·) a b) := by
  rw [vadd_comm]; exact VLe_vadd_left h.symm

namespace AVal
variable {D : Dom}

theorem clip_ok {x : List Nat} (h : D.ok x = true) : clip D x = some ⟨x, h⟩ := by simp [clip, h]

theorem clip_not_ok {x : List Nat} (h : ¬ D.ok x = true) : clip D x = none := by simp [clip, h]

theorem clip_eq_some_iff {x : List Nat} {s : {x : List Nat // D.ok x = true}} : clip D x = some s ↔ s.1 = x := by
  unfold clip
  split
  · simp only [Option.some.injEq]
    constructor
    · intro h; rw [← h]
    · intro h; exact Subtype.ext h.symm
  · rename_i hn
    simp only [reduceCtorEq, false_iff]
    intro h; exact hn (h ▸ s.2)

theorem clip_val (s : {x : List Nat // D.ok x = true}) : clip D s.1 = some s := clip_eq_some_iff.mpr rfl

theorem len (s : {x : List Nat // D.ok x = true}) : s.1.length = D.dim := Dom.ok_length s.2

theorem add_comm' (a b : AVal D) : add a b = add b a := by
  cases a <;> cases b <;> simp [add, vadd_comm]

theorem zero_add' (a : AVal D) : add (zero D) a = a := by
  cases a with
  | none => simp [add]
  | some a =>
    rw [zero, clip_ok (Dom.ok_zeroVec D)]
    simp only [add, Dom.zeroVec]
    rw [← len a, vadd_zero_left]; exact clip_val a

theorem add_zero' (a : AVal D) : add a (zero D) = a := by rw [add_comm', zero_add']

theorem clip_add_assoc (a b c : List Nat) (hab : a.length = b.length) (hbc : b.length = c.length) :
    (match clip D (List.zipWith (· + ·) a b) with
      | some ab => clip D (List.zipWith (· + ·) ab.1 c) | none => none) =
    clip D (List.zipWith (· + ·) (List.zipWith (· + ·) a b) c) := by
  by_cases h : D.ok (List.zipWith (· + ·) (List.zipWith (· + ·) a b) c) = true
  · have h2 : D.ok (List.zipWith (· + ·) a b) = true :=
      Dom.ok_down h (VLe_vadd_left (by simp [hab, hbc]))
    rw [clip_ok h2]
  · by_cases h2 : D.ok (List.zipWith (· + ·) a b) = true
    · rw [clip_ok h2]
    · rw [clip_not_ok h2, clip_not_ok h]

theorem add_assoc' (a b c : AVal D) : add (add a b) c = add a (add b c) := by
  cases a with
  | none => simp [add]
  | some a =>
  cases b with
  | none => simp [add]
  | some b =>
  cases c with
  | none =>
    simp only [add]
    cases clip D (List.zipWith (· + ·) a.1 b.1) <;> simp [add]
  | some c =>
    have hab : a.1.length = b.1.length := (len a).trans (len b).symm
    have hbc : b.1.length = c.1.length := (len b).trans (len c).symm
    have l := clip_add_assoc (D := D) a.1 b.1 c.1 hab hbc
    have r := clip_add_assoc (D := D) b.1 c.1 a.1 hbc (hab.trans hbc).symm
    rw [vadd_comm _ a.1, ← vadd_assoc] at r
    simp only [add]
    cases h1 : clip D (List.zipWith (· + ·) a.1 b.1) with
    | none =>
      cases h2 : clip D (List.zipWith (· + ·) b.1 c.1) with
      | none => simp [add]
      | some bc =>
        rw [h1] at l; rw [h2] at r
        dsimp only at l r
        simp only [add]
        rw [vadd_comm a.1 bc.1, r]; exact l
    | some ab =>
      cases h2 : clip D (List.zipWith (· + ·) b.1 c.1) with
      | none =>
        rw [h1] at l; rw [h2] at r
        dsimp only at l r
        simp only [add]; rw [l]; exact r.symm
      | some bc =>
        rw [h1] at l; rw [h2] at r
        dsimp only at l r
        simp only [add]
        rw [l, vadd_comm a.1 bc.1, r]

/-! ### subtraction -/

theorem isub_any_neg (a b : List Nat) (h : a.length = b.length) :
    (List.zipWith (· - ·) (a.map Int.ofNat) (b.map Int.ofNat)).any (· < 0) = true ↔ ¬ VLe b a := by
  induction a generalizing b with
  | nil => cases b <;> simp_all
  | cons x a ih => cases b with
    | nil => simp at h
    | cons y b =>
      have := ih b (by simpa using h)
      simp only [List.map_cons, List.zipWith_cons_cons, List.any_cons, Bool.or_eq_true, this,
        decide_eq_true_eq, List.forall₂_cons, not_and_or]
      constructor
      · rintro (h | h)
        · left; simp at h; omega
        · right; exact h
      · rintro (h | h)
        · left; simp; omega
        · right; exact h

theorem isub_toNat (a b : List Nat) :
    (List.zipWith (· - ·) (a.map Int.ofNat) (b.map Int.ofNat)).map Int.toNat = List.zipWith (· - ·) a b := by
  induction a generalizing b with
  | nil => simp
  | cons x a ih => cases b with
    | nil => simp
    | cons y b =>
      simp only [List.map_cons, List.zipWith_cons_cons, ih b, List.cons.injEq, and_true]
      simp

theorem sub_some_some (x y : {x : List Nat // D.ok x = true}) [Decidable (VLe y.1 x.1)] :
    sub (some x) (some y) = if VLe y.1 x.1 then clip D (List.zipWith (· - ·) x.1 y.1) else none := by
  have hl : x.1.length = y.1.length := (len x).trans (len y).symm
  unfold sub clipI raw
  by_cases h : VLe y.1 x.1
  · rw [if_pos h, if_neg, isub_toNat]
    rw [isub_any_neg _ _ hl]; exact not_not.mpr h
  · rw [if_neg h, if_pos]
    rw [isub_any_neg _ _ hl]; exact h

theorem ok_head_le {x : List Nat} (h : D.ok x = true) : x.headD 0 ≤ D.maxv.headD 0 := by
  cases D with
  | box m => rw [Dom.ok_box_iff] at h; exact h.headD
  | tally n K c => rw [Dom.ok_tally_iff] at h; exact h.2.1

theorem maxv_length (D : Dom) : D.maxv.length = D.dim := by
  cases D <;> simp [Dom.maxv, Dom.dim]; omega

theorem sub_some_none (hd : 0 < D.dim) (x : {x : List Nat // D.ok x = true}) : sub (some x) none = none := by
  have h1 := len x
  have h2 := maxv_length D
  have h3 := ok_head_le x.2
  unfold sub clipI raw
  rw [if_pos]
  obtain ⟨xv, hx⟩ := x
  simp only at h1 h3 ⊢
  generalize D.maxv = mv at h2 h3 ⊢
  cases xv with
  | nil => simp at h1; omega
  | cons a as =>
    cases mv with
    | nil => simp at h2; omega
    | cons m ms =>
      simp at h3 ⊢
      left; omega

theorem vsub_iff (x y r : List Nat) (h1 : y.length = x.length) (h2 : r.length = x.length) :
    (VLe y x ∧ r = List.zipWith (· - ·) x y) ↔ x = List.zipWith (· + ·) y r := by
  induction x generalizing y r with
  | nil => cases y <;> cases r <;> simp_all
  | cons a x ih => cases y with
    | nil => simp at h1
    | cons b y => cases r with
      | nil => simp at h2
      | cons c r =>
        have := ih y r (by simpa using h1) (by simpa using h2)
        simp only [List.forall₂_cons, List.zipWith_cons_cons, List.cons.injEq]
        rw [← this]
        constructor
        · rintro ⟨⟨h, h'⟩, h3, h4⟩; exact ⟨by omega, h', h4⟩
        · rintro ⟨h, h', h4⟩; exact ⟨⟨by omega, h'⟩, by omega, h4⟩

theorem none_add (b : AVal D) : add none b = none := by cases b <;> rfl
theorem add_none (a : AVal D) : add a none = none := by cases a <;> rfl

/-- V3 -/
theorem sub_spec (hd : 0 < D.dim) (x r : {x : List Nat // D.ok x = true}) (a : AVal D) :
    sub (some x) a = some r ↔ add a (some r) = some x := by
  classical
  cases a with
  | none => rw [sub_some_none hd, none_add]; simp
  | some y =>
    rw [sub_some_some]
    simp only [add]
    rw [clip_eq_some_iff, ← vsub_iff x.1 y.1 r.1 ((len y).trans (len x).symm) ((len r).trans (len x).symm)]
    by_cases h : VLe y.1 x.1
    · rw [if_pos h, clip_eq_some_iff]; simp [h]
    · rw [if_neg h]; simp [h]

theorem sub?_iff (e a r : AVal D) : sub? e a = some r ↔ r ≠ none ∧ sub e a = r := by
  unfold sub?
  cases h : sub e a with
  | none => simp; intro h1 h2; exact h1 h2.symm
  | some s => simp; rintro rfl; simp

/-- the law `modelcount` relies on -/
theorem sub?_law (hd : 0 < D.dim) (e a r : AVal D) (he : e ≠ none) : sub? e a = some r ↔ add a r = e := by
  rw [sub?_iff]
  cases e with
  | none => exact absurd rfl he
  | some x =>
    cases r with
    | none => simp [add_none]
    | some r => rw [← sub_spec hd]; simp

theorem add_valid (a r e : AVal D) (he : e ≠ none) (h : add a r = e) : r ≠ none := by
  rintro rfl; rw [add_none] at h; exact he h.symm

end AVal

instance AVal.instAddCommMonoid (D : Dom) : AddCommMonoid (AVal D) where
  add := AVal.add
  zero := AVal.zero D
  add_assoc := AVal.add_assoc'
  zero_add := AVal.zero_add'
  add_zero := AVal.add_zero'
  add_comm := AVal.add_comm'
  nsmul := nsmulRec

/-! ### enumeration of the valid vectors -/

theorem nodup_flatMap_of {α β} {l : List α} {f : α → List β} (hl : l.Nodup) (hf : ∀ x ∈ l, (f x).Nodup)
    (hd : ∀ x ∈ l, ∀ y ∈ l, ∀ b, b ∈ f x → b ∈ f y → x = y) : (l.flatMap f).Nodup := by
  rw [List.nodup_flatMap]
  refine ⟨hf, ?_⟩
  refine List.Pairwise.imp_of_mem ?_ hl
  intro a b ha hb hne x hx hy
  exact hne (hd a ha b hb x hx hy)

namespace Dom

theorem mem_boxVecs (m x : List Nat) : x ∈ boxVecs m ↔ VLe x m := by
  induction m generalizing x with
  | nil => cases x <;> simp [boxVecs]
  | cons b m ih =>
    simp only [boxVecs, List.mem_flatMap, List.mem_range, List.mem_map]
    constructor
    · rintro ⟨v, hv, y, hy, rfl⟩
      exact .cons (by omega) ((ih y).mp hy)
    · intro h
      cases h with
      | cons h t => exact ⟨_, by omega, _, (ih _).mpr t, rfl⟩

theorem nodup_boxVecs (m : List Nat) : (boxVecs m).Nodup := by
  induction m with
  | nil => simp [boxVecs]
  | cons b m ih =>
    simp only [boxVecs]
    apply nodup_flatMap_of List.nodup_range
    · intro v _
      exact ih.map (fun a b h => by simpa using h)
    · intro v _ w _ x hx hy
      simp only [List.mem_map] at hx hy
      obtain ⟨_, _, rfl⟩ := hx
      obtain ⟨_, _, h⟩ := hy
      simp at h; exact h.1.symm

theorem le_sum_of_mem {x : List Nat} {a : Nat} (h : a ∈ x) : a ≤ x.sum := by
  induction x with
  | nil => simp at h
  | cons b x ih =>
    simp only [List.mem_cons] at h
    simp only [List.sum_cons]
    rcases h with rfl | h
    · omega
    · have := ih h; omega

theorem VLe_replicate (x : List Nat) (K : Nat) : VLe x (List.replicate x.length K) ↔ ∀ a ∈ x, a ≤ K := by
  induction x with
  | nil => simp
  | cons b x ih => simp [List.replicate_succ, ih]

theorem mem_singles (K c : Nat) (x : List Nat) : x ∈ singles K c ↔ x.length = c ∧ x.sum ≤ K := by
  simp only [singles, List.mem_filter, mem_boxVecs, decide_eq_true_eq]
  constructor
  · rintro ⟨h1, h2⟩
    exact ⟨by simpa using h1.length_eq, h2⟩
  · rintro ⟨rfl, h2⟩
    exact ⟨(VLe_replicate x K).mpr (fun a ha => le_trans (le_sum_of_mem ha) h2), h2⟩

theorem nodup_singles (K c : Nat) : (singles K c).Nodup := (nodup_boxVecs _).filter _

theorem mem_vecs (D : Dom) (x : List Nat) : x ∈ D.vecs ↔ D.ok x = true := by
  cases D with
  | box m => rw [ok_box_iff]; exact mem_boxVecs m x
  | tally n K c =>
    rw [ok_tally_iff]
    simp only [vecs, List.mem_flatMap, List.mem_range, List.mem_map, mem_singles]
    constructor
    · rintro ⟨t, ht, w, ⟨hw1, hw2⟩, wo, ⟨ho1, ho2⟩, rfl⟩
      refine ⟨by simp [hw1, ho1]; omega, by simp; omega, ?_, ?_⟩
      · simp [← hw1, hw2]
      · rw [Nat.add_comm 1 c, List.drop_succ_cons, ← hw1, List.drop_left, hw1, ← ho1, List.take_length]
        exact ho2
    · rintro ⟨h1, h2, h3, h4⟩
      cases x with
      | nil => simp at h1; omega
      | cons t x =>
        simp only [List.length_cons] at h1
        rw [Nat.add_comm 1 c, List.drop_succ_cons] at h4
        simp only [List.drop_one, List.tail_cons, List.headD_cons, List.drop_succ_cons, List.drop_zero] at h2 h3
        refine ⟨t, by omega, x.take c, ⟨by simp; omega, h3⟩, x.drop c, ⟨by simp; omega, ?_⟩, by simp⟩
        rw [List.take_of_length_le (by simp; omega)] at h4
        exact h4

theorem nodup_vecs (D : Dom) : D.vecs.Nodup := by
  cases D with
  | box m => exact nodup_boxVecs m
  | tally n K c =>
    simp only [vecs]
    apply nodup_flatMap_of List.nodup_range
    · intro t _
      apply nodup_flatMap_of (nodup_singles K c)
      · intro w _
        exact (nodup_singles K c).map (fun a b h => by simpa using h)
      · intro w hw w' hw' x hx hy
        simp only [List.mem_map] at hx hy
        obtain ⟨wo, ho, rfl⟩ := hx
        obtain ⟨wo', ho', h⟩ := hy
        simp only [List.cons.injEq, true_and] at h
        rw [mem_singles] at hw hw'
        exact (List.append_inj h (hw'.1.trans hw.1.symm)).1.symm
    · intro t _ t' _ x hx hy
      simp only [List.mem_flatMap, List.mem_map] at hx hy
      obtain ⟨_, _, _, _, rfl⟩ := hx
      obtain ⟨_, _, _, _, h⟩ := hy
      simp at h; exact h.1.symm

end Dom

/-! ### the enumerated domain -/
namespace Dom
open AVal

theorem clip_injOn (D : Dom) : ∀ x ∈ D.vecs, ∀ y ∈ D.vecs, clip D x = clip D y → x = y := by
  intro x hx y hy h
  rw [mem_vecs] at hx hy
  rw [clip_ok hx, clip_ok hy] at h
  simpa using h

theorem none_notMem (D : Dom) : (none : AVal D) ∉ D.vecs.map (clip D) := by
  simp only [List.mem_map, not_exists, not_and]
  intro x hx
  rw [mem_vecs] at hx
  rw [clip_ok hx]; simp

theorem nodup_domain (D : Dom) : D.domain.Nodup := by
  unfold domain
  rw [List.nodup_append]
  refine ⟨(nodup_vecs D).map_on (clip_injOn D), by simp, ?_⟩
  intro a ha b hb
  simp only [List.mem_singleton] at hb
  subst hb
  intro h; subst h
  exact none_notMem D ha

theorem mem_domain {D : Dom} (v : AVal D) : v ∈ D.domain := by
  unfold domain
  cases v with
  | none => simp
  | some x =>
    apply List.mem_append_left
    exact List.mem_map.mpr ⟨x.1, (mem_vecs D x.1).mpr x.2, clip_val x⟩

theorem domain_length (D : Dom) : D.domain.length = D.vecs.length + 1 := by simp [domain]

theorem index_lt {D : Dom} (v : AVal D) : D.index v < D.domain.length :=
  List.idxOf_lt_length_iff.mpr (mem_domain v)

theorem index_inj {D : Dom} (v w : AVal D) : D.index v = D.index w ↔ v = w :=
  List.idxOf_inj (mem_domain v)

theorem domain_index {D : Dom} (v : AVal D) : D.domain[D.index v]'(index_lt v) = v :=
  List.getElem_idxOf (index_lt v)

theorem index_domain {D : Dom} (i : Nat) (h : i < D.domain.length) : D.index D.domain[i] = i :=
  (nodup_domain D).idxOf_getElem i h

theorem index_none (D : Dom) : D.index (none : AVal D) = D.domain.length - 1 := by
  unfold index domain
  rw [List.idxOf_append_of_notMem (none_notMem D)]
  simp

theorem boxVecs_head (m : List Nat) : ∃ t, boxVecs m = List.replicate m.length 0 :: t := by
  induction m with
  | nil => exact ⟨[], rfl⟩
  | cons b m ih =>
    obtain ⟨t, ht⟩ := ih
    simp only [boxVecs, List.range_succ_eq_map, List.flatMap_cons, ht, List.map_cons, List.cons_append,
      List.length_cons, List.replicate_succ]
    exact ⟨_, rfl⟩

theorem singles_head (K c : Nat) : ∃ t, singles K c = List.replicate c 0 :: t := by
  obtain ⟨t, ht⟩ := boxVecs_head (List.replicate c K)
  simp only [List.length_replicate] at ht
  simp only [singles, ht, List.filter_cons]
  rw [if_pos (by simp)]
  exact ⟨_, rfl⟩

theorem vecs_head (D : Dom) : ∃ t, D.vecs = D.zeroVec :: t := by
  cases D with
  | box m => exact boxVecs_head m
  | tally n K c =>
    obtain ⟨t, ht⟩ := singles_head K c
    simp only [vecs, List.range_succ_eq_map, List.flatMap_cons, ht, List.map_cons, List.cons_append, zeroVec, dim]
    rw [Nat.add_comm 1, List.replicate_succ, Nat.two_mul, List.replicate_add]
    exact ⟨_, rfl⟩

theorem index_zero (D : Dom) : D.index (AVal.zero D) = 0 := by
  obtain ⟨t, ht⟩ := vecs_head D
  unfold index domain
  rw [ht]
  simp [AVal.zero]

end Dom


namespace Dom
open AVal

/-! ### `AValue.__index__` (mixed radix) is the position in the enumeration -/

/-- the product `∏ (mᵢ + 1)` as the model computes it -/
def radix (m : List Nat) : Nat := (m.map (· + 1)).foldl (· * ·) 1

theorem foldl_mul (l : List Nat) (a : Nat) : l.foldl (· * ·) a = a * l.foldl (· * ·) 1 := by
  induction l generalizing a with
  | nil => simp
  | cons b l ih => simp only [List.foldl_cons]; rw [ih (a * b), ih (1 * b)]; ring

theorem radix_cons (b : Nat) (m : List Nat) : radix (b :: m) = (b + 1) * radix m := by
  simp only [radix, List.map_cons, List.foldl_cons]; rw [foldl_mul]; ring

theorem length_boxVecs (m : List Nat) : (boxVecs m).length = radix m := by
  induction m with
  | nil => simp [boxVecs, radix]
  | cons b m ih =>
    rw [radix_cons]
    simp only [boxVecs, List.length_flatMap, List.length_map, ih, List.map_const', List.length_range,
      List.sum_replicate_nat]

theorem idxOf_map_inj {α β} [BEq α] [LawfulBEq α] [BEq β] [LawfulBEq β] (f : α → β) (x : α) (l : List α)
    (hf : ∀ y ∈ l, f y = f x → y = x) : (l.map f).idxOf (f x) = l.idxOf x := by
  induction l with
  | nil => simp
  | cons a l ih =>
    rw [List.map_cons, List.idxOf_cons, List.idxOf_cons]
    by_cases h : a = x
    · subst h; simp
    · have : f a ≠ f x := fun hh => h (hf a (by simp) hh)
      rw [beq_false_of_ne h, beq_false_of_ne this, ih (fun y hy => hf y (by simp [hy]))]

theorem idxOf_blocks (L : List (List Nat)) (xs : List Nat) (hx : xs ∈ L) (n s v : Nat) (hs : s ≤ v) (hv : v < s + n) :
    ((List.range' s n).flatMap (fun w => L.map (w :: ·))).idxOf (v :: xs) = (v - s) * L.length + L.idxOf xs := by
  induction n generalizing s with
  | zero => omega
  | succ n ih =>
    rw [List.range'_succ, List.flatMap_cons]
    by_cases h : v = s
    · subst h
      rw [List.idxOf_append_of_mem (List.mem_map.mpr ⟨xs, hx, rfl⟩),
        idxOf_map_inj (List.cons v) xs L (fun y _ hy => by simpa using hy)]
      simp
    · have hnm : (v :: xs) ∉ L.map (fun t => s :: t) := by
        simp only [List.mem_map, not_exists, not_and]
        intro y _ hy
        simp at hy; omega
      rw [List.idxOf_append_of_notMem hnm, ih (s + 1) (by omega) (by omega), List.length_map]
      have : v - s = (v - (s + 1)) + 1 := by omega
      rw [this]; ring

theorem idxOf_boxVecs (m x : List Nat) (h : VLe x m) :
    (boxVecs m).idxOf x = (List.zipWith (fun v (w : Nat) => v * w) x (boxIndex.weights m)).sum := by
  induction h with
  | nil => simp [boxVecs, boxIndex.weights]
  | @cons v b xs ms hvb hrest ih =>
    have hw : boxIndex.weights (b :: ms) = radix ms :: boxIndex.weights ms := rfl
    rw [hw]
    simp only [boxVecs, List.zipWith_cons_cons, List.sum_cons]
    rw [List.range_eq_range', idxOf_blocks (boxVecs ms) xs ((mem_boxVecs ms xs).mpr hrest) (b + 1) 0 v (by omega) (by omega),
      length_boxVecs, ih]
    simp

/-- V4, box part: the mixed-radix formula is the position in `domain()` -/
theorem boxIndex_eq_index (m : List Nat) (v : AVal (box m)) : boxIndex m v.toList = (box m).index v := by
  cases v with
  | none =>
    rw [index_none, domain_length]
    show radix m = _
    rw [← length_boxVecs]; simp [vecs]
  | some x =>
    show (List.zipWith (fun v (w : Nat) => v * w) x.1 (boxIndex.weights m)).sum = _
    unfold index domain
    have hmem : x.1 ∈ (box m).vecs := (mem_vecs (box m) x.1).mpr x.2
    have hx : (some x : AVal (box m)) = clip (box m) x.1 := (clip_val x).symm
    rw [List.idxOf_append_of_mem (List.mem_map.mpr ⟨x.1, hmem, clip_val x⟩), hx,
      idxOf_map_inj (clip (box m)) x.1 _ (fun y hy h => clip_injOn (box m) y hy x.1 hmem h)]
    exact (idxOf_boxVecs m x.1 ((ok_box_iff m x.1).mp x.2)).symm

theorem domainsize_box (m : List Nat) : (box m).domain.length = (box m).domainsize := by
  rw [domain_length]
  show (boxVecs m).length + 1 = radix m + 1
  rw [length_boxVecs]


/-! ### `ATally.domainsize` (stars and bars) -/

theorem choose_zero_right (n : Nat) : choose n 0 = 1 := by cases n <;> rfl
theorem choose_succ_succ (n k : Nat) : choose (n + 1) (k + 1) = choose n k + choose n (k + 1) := rfl

theorem choose_eq_zero (n k : Nat) (h : n < k) : choose n k = 0 := by
  induction n generalizing k with
  | zero => cases k with
    | zero => omega
    | succ k => rfl
  | succ n ih => cases k with
    | zero => omega
    | succ k => rw [choose_succ_succ, ih k (by omega), ih (k + 1) (by omega)]

theorem choose_self (n : Nat) : choose n n = 1 := by
  induction n with
  | zero => rfl
  | succ n ih => rw [choose_succ_succ, ih, choose_eq_zero n (n + 1) (by omega)]

theorem hockey (c M K : Nat) (h : K ≤ M) :
    ((List.range (M + 1)).map (fun v => if v ≤ K then choose (K - v + c) c else 0)).sum = choose (K + c + 1) (c + 1) := by
  induction M generalizing K with
  | zero =>
    have : K = 0 := by omega
    subst this
    simp [choose_self, choose_eq_zero]
  | succ M ih =>
    rw [List.range_succ_eq_map, List.map_cons, List.sum_cons, List.map_map]
    cases K with
    | zero =>
      have : ((List.range (M + 1)).map ((fun v => if v ≤ 0 then choose (0 - v + c) c else 0) ∘ Nat.succ)).sum = 0 := by
        apply List.sum_eq_zero
        intro x hx
        simp only [List.mem_map, Function.comp] at hx
        obtain ⟨v, _, rfl⟩ := hx
        simp
      rw [this]
      simp [choose_self]
    | succ K =>
      have : ((fun v => if v ≤ K + 1 then choose (K + 1 - v + c) c else 0) ∘ Nat.succ) =
          fun v => if v ≤ K then choose (K - v + c) c else 0 := by
        funext v
        simp only [Function.comp, Nat.succ_eq_add_one, Nat.add_le_add_iff_right, Nat.add_sub_add_right]
      rw [this, ih K (by omega)]
      simp only [Nat.zero_le, if_true, Nat.sub_zero]
      rw [show K + 1 + c + 1 = (K + c + 1) + 1 from by omega, choose_succ_succ (K + c + 1) c,
        show K + 1 + c = K + c + 1 from by omega]

theorem count_le_sum (c M K : Nat) (h : K ≤ M) :
    ((boxVecs (List.replicate c M)).filter (fun x => decide (x.sum ≤ K))).length = choose (K + c) c := by
  induction c generalizing K with
  | zero => simp [boxVecs, choose_zero_right]
  | succ c ih =>
    rw [List.replicate_succ]
    simp only [boxVecs, List.filter_flatMap, List.length_flatMap, List.map_map]
    rw [show K + (c + 1) = K + c + 1 from rfl, ← hockey c M K h]
    congr 1
    apply List.map_congr_left
    intro v hv
    simp only [Function.comp, List.filter_map, List.length_map]
    by_cases hvK : v ≤ K
    · rw [if_pos hvK, ← ih (K - v) (by omega)]
      congr 1
      apply List.filter_congr
      intro x _
      show decide ((v :: x).sum ≤ K) = decide (x.sum ≤ K - v)
      have : (v :: x).sum ≤ K ↔ x.sum ≤ K - v := by rw [List.sum_cons]; omega
      exact decide_eq_decide.mpr this
    · rw [if_neg hvK]
      rw [List.length_eq_zero_iff, List.filter_eq_nil_iff]
      intro x _
      show ¬ decide ((v :: x).sum ≤ K) = true
      have : ¬ (v :: x).sum ≤ K := by rw [List.sum_cons]; omega
      exact fun hh => this (of_decide_eq_true hh)

theorem length_singles (K c : Nat) : (singles K c).length = choose (K + c) c := count_le_sum c K K (le_refl K)

theorem domainsize_tally (n K c : Nat) : (tally n K c).domain.length = (tally n K c).domainsize := by
  rw [domain_length]
  show _ + 1 = (n + 1) * (choose (K + c) c) ^ 2 + 1
  congr 1
  simp only [vecs, List.length_flatMap, List.length_map, List.map_const', List.length_range, List.sum_replicate_nat,
    length_singles]
  ring

theorem domain_length_eq (D : Dom) : D.domain.length = D.domainsize := by
  cases D with
  | box m => exact domainsize_box m
  | tally n K c => exact domainsize_tally n K c

end Dom

end Ds
