import Ds.Neighbor
import DsProofs.KernelProofs
import DsProofs.ProvProofs
import DsProofs.Properties.C01
import DsProofs.Properties.C07Batch
import Mathlib.Tactic.Linarith

/-!
# Helper lemmas for the row-level part of C01 (`Ds.Kernel.argminFirst`, `argsortStable`, `unitReduce`,
`Ds.Neighbor.rowsOf`, `column`, `mapfork`, `score`)

* `go_spec`, `argminFirst_some`, `argminFirst_none`: `np.argmin` = first index of the minimum.
* `argsortStable_perm`, `argsortStable_pairwise`, `argsortStable_sortsWeakly`.
* `big`, `cell`, `D`: the pieces of `unitReduce`; `column_unitReduce_fst/snd`, `cell_nil`, `cell_spec`, `D_lt_big`.
* `rows_game_none/some/null_player`: the unit-level game on the reduced data is a nearest-present-row game.
* `ordersUsed`, `ordersOK`, `mapfork_nonsimple`, `mapfork_simple`, `importances_mapfork_phi`: `mapfork` unfolded.
* `score_k1`: `score` for `K = 1`, one conjunct: a single `mapfork` call; `encode_train/test`, `acc_entry`.
* `unitVec`, `indVec`, `ownRows`, `rowsOf_wellPadded`, `rows_present`: for a one-literal-per-row (map/fork)
  provenance a row is present under a coalition iff one of the coalition's units owns it.
-/

open Finset

namespace Ds.Kernel

/-! ### `argminFirst` -/

theorem go_spec (f : ℕ → ℚ) : ∀ (ys : List ℚ) (best : ℚ) (bi i : ℕ),
    bi < i → f bi = best → (∀ m, m < i → best ≤ f m) → (∀ m, m < bi → best < f m) →
    (∀ t, t < ys.length → ys.getD t 0 = f (i + t)) →
    argminFirst.go best bi i ys < i + ys.length ∧
      (∀ m, m < i + ys.length → f (argminFirst.go best bi i ys) ≤ f m) ∧
      (∀ m, m < argminFirst.go best bi i ys → f (argminFirst.go best bi i ys) < f m) := by
  intro ys
  induction ys with
  | nil =>
    intro best bi i hbi hf hle hlt _
    simp only [argminFirst.go, List.length_nil, Nat.add_zero]
    exact ⟨hbi, fun m hm => hf ▸ hle m hm, fun m hm => hf ▸ hlt m hm⟩
  | cons y ys ih =>
    intro best bi i hbi hf hle hlt hys
    have hy : y = f i := by
      have := hys 0 (by simp)
      simpa using this
    have hys' : ∀ t, t < ys.length → ys.getD t 0 = f (i + 1 + t) := by
      intro t ht
      have := hys (t + 1) (by simp; omega)
      rw [List.getD_cons_succ] at this
      rw [this]; congr 1; omega
    have hlen : i + (y :: ys).length = i + 1 + ys.length := by simp; omega
    rw [hlen]
    unfold argminFirst.go
    by_cases h : y < best
    · rw [if_pos h]
      refine ih y i (i + 1) (by omega) hy.symm ?_ ?_ hys'
      · intro m hm
        rcases Nat.lt_succ_iff_lt_or_eq.mp hm with h1 | h1
        · exact le_of_lt (lt_of_lt_of_le h (hle m h1))
        · rw [h1, hy]
      · intro m hm
        exact lt_of_lt_of_le h (hle m hm)
    · rw [if_neg h]
      refine ih best bi (i + 1) (by omega) hf ?_ hlt hys'
      intro m hm
      rcases Nat.lt_succ_iff_lt_or_eq.mp hm with h1 | h1
      · exact hle m h1
      · rw [h1, ← hy]; exact not_lt.mp h

theorem argminFirst_none (l : List ℚ) : argminFirst l = none ↔ l = [] := by
  cases l <;> simp [argminFirst]

theorem argminFirst_some (l : List ℚ) (k : ℕ) (h : argminFirst l = some k) :
    k < l.length ∧ (∀ i, i < l.length → l.getD k 0 ≤ l.getD i 0) ∧ (∀ i, i < k → l.getD k 0 < l.getD i 0) := by
  cases l with
  | nil => simp [argminFirst] at h
  | cons x xs =>
    simp only [argminFirst, Option.some.injEq] at h
    have := go_spec (fun m => (x :: xs).getD m 0) xs x 0 1 (by omega) (by simp)
      (by intro m hm; have : m = 0 := by omega
          subst this; simp)
      (by intro m hm; omega)
      (by intro t _; rw [Nat.add_comm, List.getD_cons_succ])
    rw [h] at this
    have hlen : (x :: xs).length = 1 + xs.length := by simp; omega
    rw [hlen]
    exact this

theorem argminFirst_isSome (l : List ℚ) (h : l ≠ []) : ∃ k, argminFirst l = some k := by
  cases l with
  | nil => exact absurd rfl h
  | cons x xs => exact ⟨_, rfl⟩

/-! ### `argsortStable` -/

theorem argsortStable_perm (d : List ℚ) : (argsortStable d).Perm (List.range d.length) :=
  List.mergeSort_perm _ _

theorem argsortStable_pairwise (d : List ℚ) :
    (argsortStable d).Pairwise (fun a b => d.getD a 0 ≤ d.getD b 0) := by
  have := List.pairwise_mergeSort (le := fun a b : ℕ => decide (d.getD a 0 ≤ d.getD b 0))
    (by intro a b c h1 h2; simp only [decide_eq_true_eq] at *; exact le_trans h1 h2)
    (by intro a b; simp only [Bool.or_eq_true, decide_eq_true_eq]; exact le_total _ _)
    (List.range d.length)
  unfold argsortStable
  refine this.imp ?_
  intro a b h
  simpa using h

theorem argsortStable_isPerm (d : List ℚ) : isPerm d.length (argsortStable d) = true := by
  unfold isPerm
  simp only [Bool.and_eq_true, beq_iff_eq, List.all_eq_true, List.mem_range, List.contains_iff_mem]
  refine ⟨by simpa using (argsortStable_perm d).length_eq, ?_⟩
  intro u hu
  exact (argsortStable_perm d).mem_iff.mpr (List.mem_range.mpr hu)

theorem argsortStable_sortsWeakly (d : List ℚ) : sortsWeakly d (argsortStable d) = true := by
  unfold sortsWeakly
  rw [argsortStable_isPerm, Bool.true_and]
  simp only [List.all_eq_true, List.mem_range, decide_eq_true_eq]
  intro r hr
  have hp := List.pairwise_iff_getElem.mp (argsortStable_pairwise d) r (r + 1) (by omega) (by omega) (by omega)
  simpa [List.getD_eq_getElem?_getD, List.getElem?_eq_getElem (show r < (argsortStable d).length by omega),
    List.getElem?_eq_getElem (show r + 1 < (argsortStable d).length by omega)] using hp

/-! ### `unitReduce` -/

/-- entry `dist[r][j]` (0 outside the matrix) -/
def D (dist : List (List ℚ)) (r j : ℕ) : ℚ := (dist.getD r []).getD j 0

/-- the stand-in for an infinite distance -/
def big (dist : List (List ℚ)) : ℚ := dist.flatten.foldl max 0 + 1

/-- label and distance of one unit (owning the rows `rows`) for one validation point `j` -/
def cell (labels : List ℕ) (dist : List (List ℚ)) (nullLabel : ℕ) (rows : List ℕ) (j : ℕ) : ℕ × ℚ :=
  match argminFirst (rows.map (fun r => D dist r j)) with
  | none => (nullLabel, big dist)
  | some k => (labels.getD (rows.getD k 0) 0, (rows.map (fun r => D dist r j)).getD k 0)

theorem unitReduce_eq (own : List (List ℕ)) (labels : List ℕ) (dist : List (List ℚ)) (nTest nullLabel : ℕ) :
    unitReduce own labels dist nTest nullLabel
      = (own.map (fun rows => (List.range nTest).map (fun j => (cell labels dist nullLabel rows j).1)),
         own.map (fun rows => (List.range nTest).map (fun j => (cell labels dist nullLabel rows j).2))) := by
  unfold unitReduce
  simp only [List.map_map]
  rfl

theorem getD_default_of_le {β : Type} (l : List β) (d : β) {n : ℕ} (hn : l.length ≤ n) : l.getD n d = d := by
  simp [List.getD_eq_getElem?_getD, List.getElem?_eq_none hn]

theorem getD_range_map {β : Type} (f : ℕ → β) (n j : ℕ) (d : β) (hj : j < n) :
    ((List.range n).map f).getD j d = f j := by
  simp [List.getD_eq_getElem?_getD, List.getElem?_map, List.getElem?_range hj]

theorem getD_map_lt' {β γ : Type} (f : β → γ) (l : List β) (u : ℕ) (d : β) (d' : γ) (hu : u < l.length) :
    (l.map f).getD u d' = f (l.getD u d) := by
  simp [List.getD_eq_getElem?_getD, List.getElem?_map, List.getElem?_eq_getElem hu]

theorem column_unitReduce_fst (own : List (List ℕ)) (labels : List ℕ) (dist : List (List ℚ))
    (nTest nullLabel j : ℕ) (hj : j < nTest) :
    Neighbor.column (unitReduce own labels dist nTest nullLabel).1 j 0
      = own.map (fun rows => (cell labels dist nullLabel rows j).1) := by
  rw [unitReduce_eq]
  simp only [Neighbor.column, List.map_map]
  apply List.map_congr_left
  intro rows _
  exact getD_range_map _ _ _ _ hj

theorem column_unitReduce_snd (own : List (List ℕ)) (labels : List ℕ) (dist : List (List ℚ))
    (nTest nullLabel j : ℕ) (hj : j < nTest) :
    Neighbor.column (unitReduce own labels dist nTest nullLabel).2 j 0
      = own.map (fun rows => (cell labels dist nullLabel rows j).2) := by
  rw [unitReduce_eq]
  simp only [Neighbor.column, List.map_map]
  apply List.map_congr_left
  intro rows _
  exact getD_range_map _ _ _ _ hj

theorem unitReduce_length (own : List (List ℕ)) (labels : List ℕ) (dist : List (List ℚ)) (nTest nullLabel : ℕ) :
    (unitReduce own labels dist nTest nullLabel).1.length = own.length
      ∧ (unitReduce own labels dist nTest nullLabel).2.length = own.length := by
  rw [unitReduce_eq]; simp

theorem unitReduce_getD (own : List (List ℕ)) (labels : List ℕ) (dist : List (List ℚ))
    (nTest nullLabel u j : ℕ) (hu : u < own.length) (hj : j < nTest) :
    ((unitReduce own labels dist nTest nullLabel).1.getD u []).getD j 0
        = (cell labels dist nullLabel (own.getD u []) j).1
      ∧ ((unitReduce own labels dist nTest nullLabel).2.getD u []).getD j 0
        = (cell labels dist nullLabel (own.getD u []) j).2 := by
  rw [unitReduce_eq]
  simp only
  rw [getD_map_lt' _ _ _ [] [] hu, getD_map_lt' _ _ _ [] [] hu, getD_range_map _ _ _ _ hj,
    getD_range_map _ _ _ _ hj]
  exact ⟨rfl, rfl⟩

theorem cell_nil (labels : List ℕ) (dist : List (List ℚ)) (nullLabel j : ℕ) :
    cell labels dist nullLabel [] j = (nullLabel, big dist) := by
  simp [cell, argminFirst]

/-- a unit owning at least one row: the cell is (label, distance) of the FIRST row of minimal distance -/
theorem cell_spec (labels : List ℕ) (dist : List (List ℚ)) (nullLabel : ℕ) (rows : List ℕ) (j : ℕ)
    (h : rows ≠ []) :
    ∃ k, k < rows.length ∧
      cell labels dist nullLabel rows j = (labels.getD (rows.getD k 0) 0, D dist (rows.getD k 0) j) ∧
      (∀ i, i < rows.length → D dist (rows.getD k 0) j ≤ D dist (rows.getD i 0) j) ∧
      (∀ i, i < k → D dist (rows.getD k 0) j < D dist (rows.getD i 0) j) := by
  obtain ⟨k, hk⟩ := argminFirst_isSome (rows.map (fun r => D dist r j)) (by simpa using h)
  obtain ⟨h1, h2, h3⟩ := argminFirst_some _ _ hk
  rw [List.length_map] at h1 h2
  have hg : ∀ i, i < rows.length → (rows.map (fun r => D dist r j)).getD i 0 = D dist (rows.getD i 0) j :=
    fun i hi => getD_map_lt' _ _ _ 0 0 hi
  refine ⟨k, h1, ?_, ?_, ?_⟩
  · unfold cell; rw [hk]; simp only; rw [hg k h1]
  · intro i hi; rw [← hg k h1, ← hg i hi]; exact h2 i hi
  · intro i hi; rw [← hg k h1, ← hg i (by omega)]; exact h3 i hi

theorem getD_mem_of_lt {β : Type} (l : List β) (d : β) {k : ℕ} (hk : k < l.length) : l.getD k d ∈ l := by
  simp only [List.getD_eq_getElem?_getD, List.getElem?_eq_getElem hk, Option.getD_some]
  exact List.getElem_mem hk

/-- membership form of `cell_spec` -/
theorem cell_spec_mem (labels : List ℕ) (dist : List (List ℚ)) (nullLabel : ℕ) (rows : List ℕ) (j : ℕ)
    (h : rows ≠ []) :
    ∃ r ∈ rows, cell labels dist nullLabel rows j = (labels.getD r 0, D dist r j) ∧
      ∀ r' ∈ rows, D dist r j ≤ D dist r' j := by
  obtain ⟨k, hk, hc, hmin, _⟩ := cell_spec labels dist nullLabel rows j h
  refine ⟨rows.getD k 0, getD_mem_of_lt _ _ hk, hc, ?_⟩
  intro r' hr'
  obtain ⟨i, hi, rfl⟩ := List.getElem_of_mem hr'
  have := hmin i hi
  simpa [List.getD_eq_getElem?_getD, List.getElem?_eq_getElem hi] using this

theorem le_foldl_max (l : List ℚ) (a : ℚ) : a ≤ l.foldl max a ∧ ∀ x ∈ l, x ≤ l.foldl max a := by
  induction l generalizing a with
  | nil => simp
  | cons y ys ih =>
    simp only [List.foldl_cons, List.mem_cons]
    obtain ⟨h1, h2⟩ := ih (max a y)
    refine ⟨le_trans (le_max_left _ _) h1, ?_⟩
    rintro x (rfl | hx)
    · exact le_trans (le_max_right _ _) h1
    · exact h2 x hx

theorem D_mem_or_zero (dist : List (List ℚ)) (r j : ℕ) : D dist r j ∈ dist.flatten ∨ D dist r j = 0 := by
  unfold D
  by_cases hr : r < dist.length
  · by_cases hj : j < (dist.getD r []).length
    · left
      exact List.mem_flatten.mpr ⟨_, getD_mem_of_lt dist [] hr, getD_mem_of_lt _ 0 hj⟩
    · right
      exact getD_default_of_le _ _ (not_lt.mp hj)
  · right
    rw [getD_default_of_le _ _ (not_lt.mp hr)]; rfl

/-- the value standing for "infinitely far" is strictly larger than every matrix entry -/
theorem D_lt_big (dist : List (List ℚ)) (r j : ℕ) : D dist r j < big dist := by
  obtain ⟨h0, hm⟩ := le_foldl_max dist.flatten 0
  unfold big
  rcases D_mem_or_zero dist r j with h | h
  · have := hm _ h; linarith
  · rw [h]; linarith

/-! ### the game the kernel computes on the reduced data is a nearest-present-row game -/

theorem consistent' (d : List ℚ) (n : ℕ) (hn : d.length = n) (order labels : List ℕ) (util : List ℚ) (null : ℚ)
    (hs : sortsWeakly d order = true) (S : Finset (Fin n)) (hS : S.Nonempty) :
    ∃ u ∈ S, nnGameU n order labels util null S = util.getD (labels.getD u.val 0) null
      ∧ ∀ v ∈ S, d.getD u.val 0 ≤ d.getD v.val 0 := by
  subst hn
  exact DsProofs.C01.C01_consistent d order labels util null hs S hS

/-- label column and distance column of the reduced data, for point `j` -/
abbrev ulCol (own : List (List ℕ)) (labels : List ℕ) (dist : List (List ℚ)) (nullLabel j : ℕ) : List ℕ :=
  own.map (fun rows => (cell labels dist nullLabel rows j).1)
abbrev udCol (own : List (List ℕ)) (labels : List ℕ) (dist : List (List ℚ)) (nullLabel j : ℕ) : List ℚ :=
  own.map (fun rows => (cell labels dist nullLabel rows j).2)

theorem rows_game_none (own : List (List ℕ)) (labels : List ℕ) (dist : List (List ℚ)) (nullLabel j : ℕ)
    (util : List ℚ) (null : ℚ) (hnl : util.length ≤ nullLabel) (order : List ℕ)
    (hs : sortsWeakly (udCol own labels dist nullLabel j) order = true)
    (S : Finset (Fin own.length)) (hS : ∀ u ∈ S, own.getD u.val [] = []) :
    nnGameU own.length order (ulCol own labels dist nullLabel j) util null S = null := by
  by_cases hne : S.Nonempty
  · obtain ⟨u, hu, hval, _⟩ := consistent' (udCol own labels dist nullLabel j) own.length (by simp) order
      (ulCol own labels dist nullLabel j) util null hs S hne
    rw [hval, getD_map_lt' _ _ _ [] 0 u.isLt, hS u hu, cell_nil]
    exact getD_default_of_le _ _ hnl
  · unfold nnGameU; rw [dif_neg hne]

theorem rows_game_some (own : List (List ℕ)) (labels : List ℕ) (dist : List (List ℚ)) (nullLabel j : ℕ)
    (util : List ℚ) (null : ℚ) (order : List ℕ)
    (hs : sortsWeakly (udCol own labels dist nullLabel j) order = true)
    (S : Finset (Fin own.length)) (hS : ∃ u ∈ S, own.getD u.val [] ≠ []) :
    ∃ u ∈ S, ∃ r ∈ own.getD u.val [],
      (∀ v ∈ S, ∀ r' ∈ own.getD v.val [], D dist r j ≤ D dist r' j) ∧
      nnGameU own.length order (ulCol own labels dist nullLabel j) util null S
        = util.getD (labels.getD r 0) null := by
  obtain ⟨w, hw, hwne⟩ := hS
  obtain ⟨u, hu, hval, hmin⟩ := consistent' (udCol own labels dist nullLabel j) own.length (by simp) order
    (ulCol own labels dist nullLabel j) util null hs S ⟨w, hw⟩
  have hud : ∀ v : Fin own.length, (udCol own labels dist nullLabel j).getD v.val 0
      = (cell labels dist nullLabel (own.getD v.val []) j).2 := fun v => getD_map_lt' _ _ _ [] 0 v.isLt
  -- every unit of `S` owning a row is at distance `≤` each of its rows
  have hrow : ∀ v : Fin own.length, ∀ r' ∈ own.getD v.val [],
      (udCol own labels dist nullLabel j).getD v.val 0 ≤ D dist r' j := by
    intro v r' hr'
    obtain ⟨r, _, hc, hm⟩ := cell_spec_mem labels dist nullLabel (own.getD v.val []) j (List.ne_nil_of_mem hr')
    rw [hud v, hc]; exact hm r' hr'
  have hune : own.getD u.val [] ≠ [] := by
    intro he
    obtain ⟨r', hr'⟩ := List.exists_mem_of_ne_nil _ hwne
    have h1 := hmin w hw
    rw [hud u, he, cell_nil] at h1
    have h2 := hrow w r' hr'
    have h3 := D_lt_big dist r' j
    simp only at h1
    linarith
  obtain ⟨r, hr, hc, _⟩ := cell_spec_mem labels dist nullLabel (own.getD u.val []) j hune
  refine ⟨u, hu, r, hr, ?_, ?_⟩
  · intro v hv r' hr'
    have h1 := hmin v hv
    rw [hud u, hc] at h1
    exact le_trans h1 (hrow v r' hr')
  · rw [hval, getD_map_lt' _ _ _ [] 0 u.isLt, hc]

theorem idxOf_lt_of_dist_lt {d : List ℚ} {order : List ℕ} (hs : sortsWeakly d order = true) {a b : ℕ}
    (ha : a < d.length) (hb : b < d.length) (h : d.getD a 0 < d.getD b 0) : order.idxOf a < order.idxOf b := by
  by_contra hle
  have hp := sortsWeakly_isPerm hs
  have hma : a ∈ order := (isPerm_mem hp).mpr ha
  have hmb : b ∈ order := (isPerm_mem hp).mpr hb
  have := sortsWeakly_le hs _ _ (not_lt.mp hle) (List.idxOf_lt_length_iff.mpr hma)
  rw [getD_idxOf hmb, getD_idxOf hma] at this
  linarith

/-- a unit that owns no row is a null player of the game the kernel computes -/
theorem rows_game_null_player (own : List (List ℕ)) (labels : List ℕ) (dist : List (List ℚ)) (nullLabel j : ℕ)
    (util : List ℚ) (null : ℚ) (hnl : util.length ≤ nullLabel) (order : List ℕ)
    (hs : sortsWeakly (udCol own labels dist nullLabel j) order = true)
    (u : Fin own.length) (hu : own.getD u.val [] = []) (S : Finset (Fin own.length)) :
    nnGameU own.length order (ulCol own labels dist nullLabel j) util null (insert u S)
      = nnGameU own.length order (ulCol own labels dist nullLabel j) util null S := by
  by_cases hS : ∃ w ∈ S, own.getD w.val [] ≠ []
  · obtain ⟨w, hw, hwne⟩ := hS
    have hlen : (udCol own labels dist nullLabel j).length = own.length := by simp
    have hp : isPerm own.length order = true := by
      have := sortsWeakly_isPerm hs
      rwa [hlen] at this
    have hud : ∀ v : Fin own.length, (udCol own labels dist nullLabel j).getD v.val 0
        = (cell labels dist nullLabel (own.getD v.val []) j).2 := fun v => getD_map_lt' _ _ _ [] 0 v.isLt
    obtain ⟨u0, hu0, hv0, hm0⟩ := DsProofs.C01.C01_game_nearest own.length order
      (ulCol own labels dist nullLabel j) util null hp S ⟨w, hw⟩
    obtain ⟨u1, hu1, hv1, hm1⟩ := DsProofs.C01.C01_game_nearest own.length order
      (ulCol own labels dist nullLabel j) util null hp (insert u S) ⟨u, Finset.mem_insert_self _ _⟩
    rw [hv0, hv1]
    have hne : u1 ≠ u := by
      rintro rfl
      have h1 := hm1 w (Finset.mem_insert_of_mem hw)
      have hdu : (udCol own labels dist nullLabel j).getD u1.val 0 = big dist := by
        rw [hud u1, hu, cell_nil]
      have hdw : (udCol own labels dist nullLabel j).getD w.val 0 < big dist := by
        obtain ⟨r, _, hc, _⟩ := cell_spec_mem labels dist nullLabel (own.getD w.val []) j hwne
        rw [hud w, hc]; exact D_lt_big dist r j
      have := idxOf_lt_of_dist_lt hs (by rw [hlen]; exact w.isLt) (by rw [hlen]; exact u1.isLt)
        (by rw [hdu]; exact hdw)
      omega
    have hu1S : u1 ∈ S := (Finset.mem_insert.mp hu1).resolve_left hne
    have e : order.idxOf u1.val = order.idxOf u0.val :=
      le_antisymm (hm1 u0 (Finset.mem_insert_of_mem hu0)) (hm0 u1 hu1S)
    have h1 := getD_idxOf ((isPerm_mem hp).mpr u1.isLt)
    have h0 := getD_idxOf ((isPerm_mem hp).mpr u0.isLt)
    have : u1.val = u0.val := by rw [← h1, e, h0]
    rw [this]
  · push Not at hS
    rw [rows_game_none own labels dist nullLabel j util null hnl order hs S hS,
      rows_game_none own labels dist nullLabel j util null hnl order hs (insert u S) (by
        intro v hv
        rcases Finset.mem_insert.mp hv with rfl | h
        · exact hu
        · exact hS v h)]

end Ds.Kernel

namespace Ds.Neighbor
open Ds.Kernel

/-! ### `mapfork` unfolded -/

/-- the sort orders `mapfork` hands to the kernel -/
def ordersUsed (ud : List (List ℚ)) (nb : ℕ) : Option (List (List ℕ)) → List (List ℕ)
  | none => (List.range nb).map (fun j => argsortStable (column ud j 0))
  | some os => os

def ordersOK (ud : List (List ℚ)) (nb : ℕ) : Option (List (List ℕ)) → Bool
  | none => true
  | some os => (List.range nb).all (fun j => sortsWeakly (column ud j 0) (os.getD j []))

theorem mapfork_nonsimple (p : Prov.P) (labels : List ℕ) (dist util : List (List ℚ)) (nulls : List ℚ) (nb : ℕ)
    (orders : Option (List (List ℕ))) (own : List (List ℕ)) (hown : rowsOf p = .ok own) :
    mapfork p false labels dist util nulls nb orders =
      if ordersOK (unitReduce own labels dist nb util.length).2 nb orders then
        .ok (importances own.length
          ((List.range nb).map (fun j => column (unitReduce own labels dist nb util.length).1 j 0))
          (ordersUsed (unitReduce own labels dist nb util.length).2 nb orders)
          ((List.range nb).map (fun j => column util j 0)) (nulls.take nb))
      else .error Err.other := by
  unfold mapfork
  rw [hown]
  cases orders with
  | none => 
    simp [ordersOK, ordersUsed, bind, Except.bind, pure, Except.pure, (unitReduce_length own labels dist nb util.length).1]
  | some os => 
    simp only [bind, Except.bind, pure, Except.pure, (unitReduce_length own labels dist nb util.length).1]
    rw [if_neg (by decide)]
    by_cases h : ordersOK (unitReduce own labels dist nb util.length).2 nb (some os) = true
    · have h' : ((List.range nb).all fun j =>
        sortsWeakly (column (unitReduce own labels dist nb util.length).2 j 0) (os.getD j [])) = true := h
      rw [if_pos h, if_pos h']; rfl
    · have h' : ¬ ((List.range nb).all fun j =>
        sortsWeakly (column (unitReduce own labels dist nb util.length).2 j 0) (os.getD j [])) = true := h
      rw [if_neg h, if_neg h']; rfl

theorem mapfork_simple (p : Prov.P) (labels : List ℕ) (dist util : List (List ℚ)) (nulls : List ℚ) (nb : ℕ)
    (orders : Option (List (List ℕ))) :
    mapfork p true labels dist util nulls nb orders =
      if ordersOK dist nb orders then
        .ok (importances labels.length
          ((List.range nb).map (fun j => column (labels.map (fun l => List.replicate nb l)) j 0))
          (ordersUsed dist nb orders)
          ((List.range nb).map (fun j => column util j 0)) (nulls.take nb))
      else .error Err.other := by
  unfold mapfork
  cases orders with
  | none =>
    simp [ordersOK, ordersUsed, bind, Except.bind, pure, Except.pure]
  | some os =>
    simp only [bind, Except.bind, pure, Except.pure, List.length_map]
    rw [if_pos trivial]
    by_cases h : ordersOK dist nb (some os) = true
    · have h' : ((List.range nb).all fun j => sortsWeakly (column dist j 0) (os.getD j [])) = true := h
      rw [if_pos h, if_pos h']; rfl
    · have h' : ¬ ((List.range nb).all fun j => sortsWeakly (column dist j 0) (os.getD j [])) = true := h
      rw [if_neg h, if_neg h']; rfl

theorem column_replicate (labels : List ℕ) (nb j : ℕ) (hj : j < nb) :
    column (labels.map (fun l => List.replicate nb l)) j 0 = labels := by
  simp only [column, List.map_map]
  conv_rhs => rw [← List.map_id labels]
  apply List.map_congr_left
  intro l _
  simp [List.getD_eq_getElem?_getD, hj]

theorem take_getD (nulls : List ℚ) (nb j : ℕ) (hj : j < nb) : (nulls.take nb).getD j 0 = nulls.getD j 0 := by
  simp [List.getD_eq_getElem?_getD, hj]

theorem importances_mapfork_phi (n nb : ℕ) (lab : ℕ → List ℕ) (ords : List (List ℕ)) (util : List (List ℚ))
    (nulls : List ℚ) (hN : nb ≤ nulls.length) (hp : ∀ j, j < nb → isPerm n (ords.getD j []) = true) (u : Fin n) :
    (importances n ((List.range nb).map lab) ords ((List.range nb).map (fun j => column util j 0))
        (nulls.take nb)).getD u 0
      = Sh.phi (fun S => (∑ j ∈ Finset.range nb,
          nnGameU n (ords.getD j []) (lab j) (column util j 0) (nulls.getD j 0) S) / (nb : ℚ)) u := by
  have ho : nb ≤ ords.length := by
    by_contra h
    have h1 := hp ords.length (by omega)
    rw [getD_default_of_le _ _ le_rfl] at h1
    have h2 := isPerm_length h1
    have := u.pos
    simp at h2
    omega
  have hc : (cols ((List.range nb).map lab) ords ((List.range nb).map (fun j => column util j 0))
      (nulls.take nb)).length = nb := by
    rw [cols_length]; simp [List.length_take]; omega
  have hg : (fun S : Finset (Fin n) => (∑ j ∈ Finset.range nb,
          nnGameU n (ords.getD j []) (lab j) (column util j 0) (nulls.getD j 0) S) / (nb : ℚ))
      = fun S => (1 / (nb : ℚ)) * ∑ j ∈ Finset.range nb,
          nnGameU n (ords.getD j []) (lab j) (column util j 0) (nulls.getD j 0) S := by
    funext S; ring
  rw [hg, Sh.phi_smul, Sh.phi_sum, importances_getD _ _ _ _ _ _ u.isLt, hc, div_eq_inv_mul, one_div]
  congr 1
  apply Finset.sum_congr rfl
  intro j hj
  have hj' := Finset.mem_range.mp hj
  rw [getD_range_map _ _ _ _ hj', getD_range_map _ _ _ _ hj', take_getD _ _ _ hj']
  exact pointContrib_eq_phi u.pos (hp j hj') _ _ _ u

theorem ordersUsed_sorts (ud : List (List ℚ)) (nb : ℕ) (orders : Option (List (List ℕ)))
    (h : ordersOK ud nb orders = true) (j : ℕ) (hj : j < nb) :
    sortsWeakly (column ud j 0) ((ordersUsed ud nb orders).getD j []) = true := by
  cases orders with
  | none =>
    simp only [ordersUsed]
    rw [getD_range_map _ _ _ _ hj]
    exact argsortStable_sortsWeakly _
  | some os =>
    simp only [ordersOK, List.all_eq_true, List.mem_range] at h
    exact h j hj

theorem D_take (dist : List (List ℚ)) (nb r j : ℕ) (hj : j < nb) :
    D (dist.map (fun row => row.take nb)) r j = D dist r j := by
  unfold D
  by_cases hr : r < dist.length
  · rw [getD_map_lt' _ _ _ [] [] hr]
    simp [List.getD_eq_getElem?_getD, hj]
  · rw [getD_default_of_le (dist.map (fun row => row.take nb)) [] (by simpa using not_lt.mp hr),
      getD_default_of_le dist [] (not_lt.mp hr)]

/-! ### `rowsOf` -/

theorem rowsOf_length (p : Prov.P) (own : List (List ℕ)) (h : rowsOf p = .ok own) : own.length = p.nUnits := by
  unfold rowsOf at h
  have := congrArg List.length ((Prov.mapM_ok_iff _ _ _).mp h)
  simpa using this.symm

/-! ### `score` for `K = 1`, one conjunct, at most one disjunct: a single call of `mapfork` -/

theorem score_k1 (B : ℕ) (p : Prov.P) (simple : Bool) (yTrain yTest : List Int) (dist : List (List ℚ))
    (u : UtilSpec) (orders : Option (List (List ℕ))) (yTr yTe : List ℕ) (util : List (List ℚ)) (nulls : List ℚ)
    (hD : p.nDisj ≤ 1) (hC : p.nConj = 1) (hT : 0 < yTest.length)
    (hTr : yTrain.mapM (Util.encode (Util.unique yTrain)) = .ok yTr)
    (hTe : yTest.mapM (Util.encode (Util.unique yTrain)) = .ok yTe)
    (hU : utilMatrices u (Util.unique yTrain).length yTe = .ok (util, nulls)) :
    score B p simple yTrain yTest dist 1 u orders
      = (mapfork p simple yTr (dist.map (fun row => (row.drop 0).take yTest.length)) util nulls yTest.length orders).map
          (fun cur => List.zipWith (fun a c => a + c * ((yTest.length : ℕ) : ℚ) / ((yTest.length : ℕ) : ℚ))
            (List.replicate p.nUnits 0) cur) := by
  unfold score
  rw [if_neg (by omega)]
  simp only [hTr, hTe, bind, Except.bind, pure, Except.pure, hU, DsProofs.C07.C07_batch_size,
    DsProofs.C07.C07_single_batch _ hT, hC]
  have h0 : ¬ ((yTest.length == 0) = true) := by rw [beq_iff_eq]; omega
  rw [if_neg h0]
  simp only [List.forIn_cons, List.forIn_nil, bind, Except.bind, pure, Except.pure, Nat.sub_zero, Nat.min_self,
    List.length_singleton, BEq.rfl, Bool.and_self, if_true]
  cases mapfork p simple yTr (dist.map (fun row => (row.drop 0).take yTest.length)) util nulls yTest.length orders with
  | error e => rfl
  | ok v => rfl

theorem zipWith_zero_add (cur : List ℚ) (N n : ℕ) (hn : 0 < n) (hl : cur.length = N) :
    List.zipWith (fun a c => a + c * ((n : ℕ) : ℚ) / ((n : ℕ) : ℚ)) (List.replicate N 0) cur = cur := by
  have hn' : ((n : ℕ) : ℚ) ≠ 0 := Nat.cast_ne_zero.mpr (by omega)
  induction cur generalizing N with
  | nil => simp
  | cons c cs ih =>
    cases N with
    | zero => simp at hl
    | succ N =>
      rw [List.replicate_succ, List.zipWith_cons_cons, ih N (by simpa using hl), zero_add,
        mul_div_assoc, div_self hn', mul_one]

theorem encode_train (yTrain : List Int) :
    yTrain.mapM (Util.encode (Util.unique yTrain)) = .ok (yTrain.map (Util.unique yTrain).idxOf) := by
  apply Prov.mapM_ok_of
  intro y hy
  have : y ∈ Util.unique yTrain := (Util.mem_unique _ _).mpr hy
  simp [Util.encode, this, pure, Except.pure]

theorem encode_test (yTrain yTest : List Int) (h : ∀ y ∈ yTest, y ∈ yTrain) :
    yTest.mapM (Util.encode (Util.unique yTrain)) = .ok (yTest.map (Util.unique yTrain).idxOf) := by
  apply Prov.mapM_ok_of
  intro y hy
  have : y ∈ Util.unique yTrain := (Util.mem_unique _ _).mpr (h y hy)
  simp [Util.encode, this, pure, Except.pure]

/-! ### the accuracy tables -/

theorem utilMatrices_accuracy (nC : ℕ) (yTe : List ℕ) :
    utilMatrices .accuracy nC yTe
      = .ok (Util.accElem ((List.range nC).map Int.ofNat) (yTe.map Int.ofNat),
             Util.accNullElem ((List.range nC).map Int.ofNat) (yTe.map Int.ofNat)) := rfl

theorem accNullElem_length (classes yTest : List Int) : (Util.accNullElem classes yTest).length = yTest.length := by
  rw [Util.accNullElem_eq_fold]
  cases classes with
  | nil => simp
  | cons c0 t =>
    obtain ⟨_, c, _, _, _, _, hf⟩ := Util.argFold_spec (fun x => Util.mean (yTest.map (fun y => Util.ind (y == x))))
      (fun x => yTest.map (fun y => Util.ind (y == x))) (yTest.map (fun _ => (0 : ℚ))) c0 t
    rw [hf]; simp

/-- the entry of the accuracy table the kernel reads for training row `r` and validation point `j`
is `1` if the two labels agree and `0` otherwise -/
theorem acc_entry (yTrain yTest : List Int) (r j : ℕ) (hr : r < yTrain.length) (hj : j < yTest.length)
    (hte : ∀ y ∈ yTest, y ∈ yTrain) (null : ℚ) :
    (column (Util.accElem ((List.range (Util.unique yTrain).length).map Int.ofNat)
        ((yTest.map (Util.unique yTrain).idxOf).map Int.ofNat)) j 0).getD
        ((yTrain.map (Util.unique yTrain).idxOf).getD r 0) null
      = Util.ind (yTrain.getD r 0 == yTest.getD j 0) := by
  have hx : yTrain.getD r 0 ∈ Util.unique yTrain := (Util.mem_unique _ _).mpr (Util.getD_mem_int _ hr)
  have hy : yTest.getD j 0 ∈ Util.unique yTrain :=
    (Util.mem_unique _ _).mpr (hte _ (Util.getD_mem_int _ hj))
  have hc : (Util.unique yTrain).idxOf (yTrain.getD r 0) < (Util.unique yTrain).length :=
    List.idxOf_lt_length_iff.mpr hx
  rw [getD_map_lt' _ _ _ 0 0 hr]
  unfold column
  rw [getD_map_lt' _ _ _ [] null (by rw [Util.accElem_length]; simpa using hc),
    Util.accElem_getD _ _ _ _ (by simpa using hc) (by simpa using hj),
    getD_range_map _ _ _ _ hc, List.map_map, getD_map_lt' _ _ _ 0 0 hj]
  simp only [Function.comp]
  by_cases h : yTrain.getD r 0 = yTest.getD j 0
  · rw [h, Util.ind_eq_ite, Util.ind_eq_ite, if_pos rfl, if_pos rfl]
  · have h' : (Util.unique yTrain).idxOf (yTrain.getD r 0) ≠ (Util.unique yTrain).idxOf (yTest.getD j 0) :=
      fun e => h (Prov.idxOf_inj_of_mem hx hy e)
    have h'' : ¬ (Int.ofNat ((Util.unique yTrain).idxOf (yTrain.getD r 0))
        = Int.ofNat ((Util.unique yTrain).idxOf (yTest.getD j 0))) := fun e => h' (Int.ofNat.inj e)
    rw [Util.ind_eq_ite, Util.ind_eq_ite, if_neg h'', if_neg h]

end Ds.Neighbor

/-! ### map/fork provenances: which rows are present under a coalition of units -/

namespace Ds.Neighbor
open Ds.Kernel Ds.Prov

/-- the assignment in which exactly unit `u` is switched on -/
def unitVec (n u : ℕ) : List Int := (List.replicate n (0 : Int)).set u 1

/-- the assignment in which exactly the units of `S` are switched on -/
def indVec (n : ℕ) (S : Finset (Fin n)) : List Int :=
  (List.range n).map (fun w => if w ∈ S.image Fin.val then (1 : Int) else 0)

/-- rows present when only unit `u` is switched on -/
def ownRows (p : Prov.P) (u : ℕ) : List ℕ :=
  (List.range p.data.length).filter (fun i => rowSem ((unitVec p.nUnits u).map Int.toNat) (p.data.getD i []))

theorem unitVec_length (n u : ℕ) : (unitVec n u).length = n := by simp [unitVec]
theorem unitVec_nonneg (n u : ℕ) : ∀ v ∈ unitVec n u, 0 ≤ v := by
  intro v hv
  rcases List.mem_or_eq_of_mem_set hv with h | h
  · rw [List.eq_of_mem_replicate h]
  · rw [h]; decide
theorem indVec_length (n : ℕ) (S : Finset (Fin n)) : (indVec n S).length = n := by simp [indVec]
theorem indVec_nonneg (n : ℕ) (S : Finset (Fin n)) : ∀ v ∈ indVec n S, 0 ≤ v := by
  intro v hv
  simp only [indVec, List.mem_map] at hv
  obtain ⟨w, _, rfl⟩ := hv
  split_ifs <;> decide

theorem unitVec_getD (n u w : ℕ) (hw : w < n) :
    ((unitVec n u).map Int.toNat).getD w 0 = if w = u then 1 else 0 := by
  simp only [unitVec, List.getD_eq_getElem?_getD, List.getElem?_map, List.getElem?_set, List.length_replicate]
  by_cases h : u = w
  · subst h; simp [hw]
  · have h' : ¬ w = u := fun e => h e.symm
    simp [h, h', hw]

theorem indVec_getD (n : ℕ) (S : Finset (Fin n)) (w : Fin n) :
    ((indVec n S).map Int.toNat).getD w.val 0 = if w ∈ S then 1 else 0 := by
  have hmem : w.val ∈ S.image Fin.val ↔ w ∈ S := by
    simp [Finset.mem_image, Fin.val_inj]
  simp only [indVec, List.map_map, List.getD_eq_getElem?_getD, List.getElem?_map, List.getElem?_range w.isLt,
    Option.map_some, Option.getD_some, Function.comp]
  by_cases h : w ∈ S
  · simp [hmem.mpr h, h]
  · simp [mt hmem.mp h, h]

theorem query_mask (p : Prov.P) (vals : List Int) (hp : WellPadded p) (hlen : vals.length = p.nUnits)
    (hpos : ∀ v ∈ vals, 0 ≤ v) :
    queryIdx p vals = .ok ((List.range p.data.length).filter
      (fun i => rowSem (vals.map Int.toNat) (p.data.getD i []))) := by
  rw [queryIdx_of_query (query_ok p vals hp hlen hpos), List.length_map]
  congr 1
  apply List.filter_congr
  intro i hi
  exact getD_map_lt' _ _ _ [] false (List.mem_range.mp hi)

theorem rowsOf_wellPadded (p : Prov.P) (hp : WellPadded p) :
    rowsOf p = .ok ((List.range p.nUnits).map (ownRows p)) := by
  unfold rowsOf
  apply mapM_ok_of
  intro u _
  exact query_mask p _ hp (unitVec_length _ _) (unitVec_nonneg _ _)

/-- a row of a container with one disjunct and one conjunct is a single literal -/
theorem row_single {n : ℕ} {R : Row} (h : RowOK 1 1 n R) : ∃ l, R = [[l]] ∧ LitOK n l := by
  obtain ⟨hlen, hc⟩ := h
  match R, hlen with
  | [c], _ =>
    obtain ⟨hcl, hl⟩ := hc c (by simp)
    match c, hcl with
    | [l], _ => exact ⟨l, rfl, hl l (by simp)⟩

theorem rowSem_single (a : List ℕ) (l : Lit) :
    rowSem a [[l]] = (l != padLit && a.getD l.1.toNat 0 == l.2.toNat) := by
  by_cases h : l = padLit
  · subst h; simp [rowSem, conjSem, litSem]
  · have h1 : (l == padLit) = false := by simpa using h
    have h2 : (l != padLit) = true := by simpa using h
    simp only [rowSem, conjSem, litSem, List.any_cons, List.any_nil, List.all_cons, List.all_nil, h1, h2,
      Bool.or_false, Bool.and_true, Bool.false_or, Bool.true_and]

/-- map/fork: a row whose literal tests a candidate other than `0` is present under the coalition `S`
iff it is present when one single unit of `S` is switched on -/
theorem present_iff {n : ℕ} (l : Lit) (hl : LitOK n l) (hc : l ≠ padLit → l.2 ≠ 0) (S : Finset (Fin n)) :
    rowSem ((indVec n S).map Int.toNat) [[l]] = true
      ↔ ∃ u ∈ S, rowSem ((unitVec n u.val).map Int.toNat) [[l]] = true := by
  simp only [rowSem_single, Bool.and_eq_true, bne_iff_ne, ne_eq, beq_iff_eq]
  constructor
  · rintro ⟨hne, hval⟩
    rcases hl with h | ⟨h0, h1, h2⟩
    · exact absurd h hne
    · have hw : l.1.toNat < n := by omega
      have := indVec_getD n S ⟨l.1.toNat, hw⟩
      simp only at this
      rw [this] at hval
      have h2' : l.2.toNat ≠ 0 := by have := hc hne; omega
      by_cases hS : (⟨l.1.toNat, hw⟩ : Fin n) ∈ S
      · refine ⟨⟨l.1.toNat, hw⟩, hS, hne, ?_⟩
        rw [unitVec_getD n _ _ hw, if_pos rfl]
        rw [if_pos hS] at hval; exact hval
      · rw [if_neg hS] at hval; exact absurd hval.symm h2'
  · rintro ⟨u, hu, hne, hval⟩
    refine ⟨hne, ?_⟩
    rcases hl with h | ⟨h0, h1, h2⟩
    · exact absurd h hne
    · have hw : l.1.toNat < n := by omega
      have h2' : l.2.toNat ≠ 0 := by have := hc hne; omega
      rw [unitVec_getD n _ _ hw] at hval
      by_cases hwu : l.1.toNat = u.val
      · rw [if_pos hwu] at hval
        have := indVec_getD n S ⟨l.1.toNat, hw⟩
        simp only at this
        rw [this, if_pos (by rwa [show (⟨l.1.toNat, hw⟩ : Fin n) = u from Fin.ext hwu])]
        exact hval
      · rw [if_neg hwu] at hval; exact absurd hval.symm h2'

/-- **map/fork provenance**: which rows are present under a coalition -/
theorem rows_present (p : Prov.P) (hp : WellPadded p) (hC : p.nConj = 1) (hD : p.nDisj = 1)
    (hcand : ∀ r ∈ p.data, ∀ c ∈ r, ∀ l ∈ c, l ≠ padLit → l.2 ≠ 0)
    (own : List (List ℕ)) (hown : rowsOf p = .ok own) (S : Finset (Fin p.nUnits)) :
    ∃ idx, queryIdx p (indVec p.nUnits S) = .ok idx ∧
      ∀ i, i ∈ idx ↔ ∃ u ∈ S, i ∈ own.getD u.val [] := by
  rw [rowsOf_wellPadded p hp] at hown
  injection hown with hown
  subst hown
  refine ⟨_, query_mask p _ hp (indVec_length _ _) (indVec_nonneg _ _), ?_⟩
  intro i
  have hget : ∀ u : Fin p.nUnits, ((List.range p.nUnits).map (ownRows p)).getD u.val [] = ownRows p u.val :=
    fun u => getD_range_map _ _ _ _ u.isLt
  simp only [hget, ownRows, List.mem_filter, List.mem_range]
  by_cases hi : i < p.data.length
  · have hmem : p.data.getD i [] ∈ p.data := getD_mem_of_lt _ _ hi
    have hrow := hp _ hmem
    rw [hC, hD] at hrow
    obtain ⟨l, hR, hl⟩ := row_single hrow
    have hc : l ≠ padLit → l.2 ≠ 0 := hcand _ hmem [l] (by rw [hR]; simp) l (by simp)
    rw [hR]
    constructor
    · rintro ⟨_, h⟩
      obtain ⟨u, hu, h'⟩ := (present_iff l hl hc S).mp h
      exact ⟨u, hu, hi, h'⟩
    · rintro ⟨u, hu, _, h'⟩
      exact ⟨hi, (present_iff l hl hc S).mpr ⟨u, hu, h'⟩⟩
  · constructor
    · rintro ⟨h, _⟩; exact absurd h hi
    · rintro ⟨_, _, h, _⟩; exact absurd h hi

end Ds.Neighbor
